package main

// C12 — CSRF.  Real code: middleware.CSRFWithConfig driven through e.ServeHTTP; the random
// source of randomString is replaced per request by a seeded byte stream
// (middleware.VerifSetRandomSource), so fresh tokens are compared byte for byte.
// Model: lean/EchoModel/C12.lean (serve).

import (
	"bytes"
	"crypto/tls"
	"encoding/hex"
	"fmt"
	"io"
	"math/rand"
	"mime/multipart"
	"net/http"
	"net/http/httptest"
	"net/url"
	"runtime"
	"sort"
	"strings"
	"sync"
	"time"

	"github.com/labstack/echo/v4"
	"github.com/labstack/echo/v4/middleware"
)

type c12Req struct {
	Method  string      `json:"method"`
	Cookies [][2]string `json:"cookies"` // added with AddCookie, in order
	Headers [][2]string `json:"headers"` // added with Header.Add, in order
	Query   [][2]string `json:"query"`
	Form    [][2]string `json:"form"` // urlencoded body
	Rnd     []byte      `json:"rnd"`  // what the random source delivers
	// GuessFresh: the client token of this request is the token the random stream will
	// produce (learned by the harness from a safe request with the same stream); Guess
	// names where it is put: "header:<Name>[:prefix]", "query:<name>" or "form:<name>"
	GuessFresh string `json:"guess_fresh,omitempty"`
	// PathVals: values of the route's path parameters (case.Route), in order
	PathVals []string `json:"path_vals,omitempty"`
	// Multipart: the body (Form) is sent as multipart/form-data instead of urlencoded
	Multipart bool `json:"multipart,omitempty"`
	// H: what the handler does with the response: 0 = c.String(200); 1 = nothing at all (returns nil: the
	// server's implicit 200); 2 = writes 202 + body through the raw c.Response().Writer; 3 = WriteHeader(203)
	// on c.Response().Unwrap(); 4 = c.NoContent(204); 5 = returns an echo.HTTPError 418
	H int `json:"h,omitempty"`
	// ambient facts about the connection (none of them is a lookup location, none reaches the model):
	// Host = Request.Host ("" = httptest's example.com); Remote = Request.RemoteAddr ("" = 192.0.2.1:1234);
	// TLS = the request arrived over TLS (Request.TLS set); Proto = "HTTP/1.0" / "HTTP/2.0" ("" = HTTP/1.1)
	Host   string `json:"host,omitempty"`
	Remote string `json:"remote,omitempty"`
	TLS    bool   `json:"tls,omitempty"`
	Proto  string `json:"proto,omitempty"`
}

type c12Case struct {
	TokenLength int    `json:"token_length"`
	TokenLookup string `json:"token_lookup"`
	CookieName  string `json:"cookie_name"`
	ContextKey  string `json:"context_key"`
	// ErrorHandler: 0 = nil; 1 = custom handler that writes its own 418 and returns nil;
	// 2 = custom handler that returns its own 409 error
	ErrorHandler int `json:"error_handler,omitempty"`
	// Ctor: 0 = CSRFWithConfig(cfg); 1 = CSRF() (every config field of the case must be zero); 2 = the application
	// calls CSRF() once with the stock defaults (an earlier mount), then writes the case's configuration into the
	// package-level middleware.DefaultCSRFConfig (non-zero fields over the stock default) and calls CSRF() AGAIN:
	// the second call must use the defaults as they are then (the stock default is restored afterwards)
	Ctor           int    `json:"ctor,omitempty"`
	CookiePath     string `json:"cookie_path,omitempty"`
	CookieDomain   string `json:"cookie_domain,omitempty"`
	CookieMaxAge   int    `json:"cookie_max_age,omitempty"`
	CookieSecure   bool   `json:"cookie_secure,omitempty"`
	CookieHTTPOnly bool   `json:"cookie_http_only,omitempty"`
	CookieSameSite int    `json:"cookie_same_site,omitempty"` // http.SameSite 0..4
	// Skipper: config.Skipper skips the requests with a non-empty X-Skip header
	Skipper bool `json:"skipper,omitempty"`
	// Extra: other middlewares on the same Echo drawing from the same random source:
	// 1 = RequestID() registered after CSRF, 2 = RequestID() before CSRF, 3 = a second CSRF
	// instance (cookie "_csrf2", context key "csrf2", lookup "header:X-Csrf2,query:csrf2",
	// TokenLength Len2) after the first, 4 = CSRF, RequestID(), second CSRF
	Extra int `json:"extra,omitempty"`
	Len2  int `json:"len2,omitempty"`
	// Inst2: how the second CSRF instance is configured: 0 = cookie "_csrf2", ContextKey "csrf2", lookup
	// "header:X-Csrf2,query:csrf2"; 1 = cookie "_csrf_admin", lookup "form:admin_csrf", ContextKey left at
	// its default (shared with a first instance that also uses the default); 2 = as 0 but with the default ContextKey;
	// 3 = as 0 but the cookie name is the FIRST instance's cookie name + "_site" (the outer name is a proper
	// prefix of the inner one); 4 = as 0 but the cookie name is the first instance's without its last byte (the
	// inner name is a proper prefix of the outer one)
	Inst2 int `json:"inst2,omitempty"`
	// PreSet: a middleware registered before everything else puts "preset-ctx-value" under the first
	// instance's ContextKey
	PreSet bool `json:"preset,omitempty"`
	// AppCookies: the application sets cookies of its own: a middleware registered before everything else
	// sets "session" and "<first CSRF cookie name>_state", the handler sets "after"
	AppCookies bool `json:"app_cookies,omitempty"`
	// Conc > 0: concurrency case (oracle only): Conc goroutines send ConcN requests each through the one
	// stack at the same time, every goroutine with its own CSRF cookie (or none: real crypto/rand)
	Conc  int `json:"conc,omitempty"`
	ConcN int `json:"conc_n,omitempty"`
	// Route: names of the path parameters of the route ("/p/:a/:b..."); empty = route "/"
	Route []string `json:"route,omitempty"`
	// Mount: where the middlewares are registered: 0 = e.Use, 1 = on the route itself, 2 = on a group "/grp",
	// 3 = the first one with e.Use, the others on the group "/grp", 4 = applied ONCE by hand: the route's handler is
	// mws[0](mws[1](...(handler))) (echo itself applies registered middleware anew for every request, so only
	// here state created in the middleware's `func(next)` part is shared by all requests)
	Mount int `json:"mount,omitempty"`
	// RealRandom: crypto/rand is not replaced (oracle only, no model comparison)
	RealRandom bool     `json:"real_random,omitempty"`
	Reqs       []c12Req `json:"reqs"`
}

// c12Inst: one CSRF instance as configured, with the values CSRFWithConfig's defaults give
type c12Inst struct {
	raw      middleware.CSRFConfig
	ctor     int
	eh       int
	skipper  bool
	cookie   string
	key      string
	lookup   string
	length   int
	maxAge   int
	skipSaid bool // what the configured Skipper returned during the current request
}

func c12Eff(s, d string) string {
	if s == "" {
		return d
	}
	return s
}

func (c *c12Case) instances() []*c12Inst {
	first := &c12Inst{ctor: c.Ctor, eh: c.ErrorHandler, skipper: c.Skipper,
		cookie: c12Eff(c.CookieName, "_csrf"), key: c12Eff(c.ContextKey, "csrf"), lookup: c12Eff(c.TokenLookup, "header:X-CSRF-Token"),
		length: c.TokenLength, maxAge: c.CookieMaxAge}
	first.raw = middleware.CSRFConfig{
		TokenLength: uint8(c.TokenLength), TokenLookup: c.TokenLookup, CookieName: c.CookieName, ContextKey: c.ContextKey,
		CookiePath: c.CookiePath, CookieDomain: c.CookieDomain, CookieMaxAge: c.CookieMaxAge, CookieSecure: c.CookieSecure,
		CookieHTTPOnly: c.CookieHTTPOnly, CookieSameSite: http.SameSite(c.CookieSameSite),
	}
	out := []*c12Inst{first}
	if c.Extra == 3 || c.Extra == 4 {
		second := &c12Inst{cookie: "_csrf2", key: "csrf2", lookup: "header:X-Csrf2,query:csrf2", length: c.Len2}
		rawKey := "csrf2"
		switch c.Inst2 {
		case 1:
			second.cookie, second.lookup, second.key, rawKey = "_csrf_admin", "form:admin_csrf", "csrf", ""
		case 2:
			second.key, rawKey = "csrf", ""
		case 3:
			second.cookie = first.cookie + "_site"
		case 4:
			second.cookie = first.cookie[:len(first.cookie)-1]
		}
		second.raw = middleware.CSRFConfig{TokenLength: uint8(c.Len2), TokenLookup: second.lookup, CookieName: second.cookie, ContextKey: rawKey}
		out = append(out, second)
	}
	for _, in := range out {
		if in.length == 0 {
			in.length = 32
		}
		if in.maxAge == 0 {
			in.maxAge = 86400
		}
	}
	return out
}

// stack: the middlewares in registration order; -1 = RequestID(), k >= 0 = CSRF instance k
func (c *c12Case) stack() []int {
	switch c.Extra {
	case 1:
		return []int{0, -1}
	case 2:
		return []int{-1, 0}
	case 3:
		return []int{0, 1}
	case 4:
		return []int{0, -1, 1}
	}
	return []int{0}
}

func (c *c12Case) valid() bool {
	if c.TokenLength < 0 || c.TokenLength > 255 || c.ErrorHandler < 0 || c.ErrorHandler > 2 || c.Extra < 0 || c.Extra > 4 ||
		c.Len2 < 0 || c.Len2 > 255 || c.CookieMaxAge < 0 || c.CookieMaxAge > 1<<30 || c.CookieSameSite < 0 || c.CookieSameSite > 4 ||
		c.Ctor < 0 || c.Ctor > 2 || len(c.Route) > 40 || c.Mount < 0 || c.Mount > 4 || c.Inst2 < 0 || c.Inst2 > 4 || c.Conc < 0 || c.Conc > 64 || c.ConcN < 0 || c.ConcN > 5000 {
		return false
	}
	if c.Ctor == 1 && (c.TokenLength != 0 || c.TokenLookup != "" || c.CookieName != "" || c.ContextKey != "" || c.ErrorHandler != 0 ||
		c.CookiePath != "" || c.CookieDomain != "" || c.CookieMaxAge != 0 || c.CookieSecure || c.CookieHTTPOnly || c.CookieSameSite != 0 || c.Skipper) {
		return false
	}
	for _, n := range c.Route {
		if !c12PathSafe(n) {
			return false
		}
	}
	for _, rq := range c.Reqs {
		if len(rq.PathVals) > len(c.Route) || (c.RealRandom && rq.GuessFresh != "") || rq.H < 0 || rq.H > 5 {
			return false
		}
		for _, v := range rq.PathVals {
			if !c12PathSafe(v) {
				return false
			}
		}
	}
	return true
}

// a path segment that reaches the handler as it is: unreserved characters only
func c12PathSafe(v string) bool {
	if v == "" || v == "." || v == ".." {
		return false
	}
	for i := 0; i < len(v); i++ {
		ch := v[i]
		if !(ch >= 'A' && ch <= 'Z' || ch >= 'a' && ch <= 'z' || ch >= '0' && ch <= '9' || ch == '-' || ch == '_' || ch == '.' || ch == '~') {
			return false
		}
	}
	return true
}

type c12Obs struct {
	panicked  bool
	hung      bool
	ran       bool
	status    int
	setCookie []*http.Cookie // per CSRF instance: the first Set-Cookie with its name
	ctxTok    []*string      // per CSRF instance: c.Get(ContextKey) as the handler found it (the very string, not a copy)
	all       []*http.Cookie // every Set-Cookie that reached the wire
	rid       string         // X-Request-Id of the response
	skipSaid  []bool
	t0, t1    time.Time
}

// lengths for which a request was seen not to terminate (F15 on the unrepaired code): the
// spinning goroutine cannot be stopped, so such a length is not run again in this process.
var c12Hung = map[int]bool{}

type c12Built struct {
	req     *http.Request
	cookies []*http.Cookie
	params  [][2]string
}

func c12Build(c *c12Case, rq *c12Req) c12Built {
	q := url.Values{}
	for _, p := range rq.Query {
		q.Add(p[0], p[1])
	}
	target := "/"
	var params [][2]string
	if len(c.Route) > 0 {
		target = "/p"
		for i, n := range c.Route {
			v := "x"
			if i < len(rq.PathVals) {
				v = rq.PathVals[i]
			}
			target += "/" + v
			params = append(params, [2]string{n, v})
		}
	}
	if c.Mount == 2 || c.Mount == 3 {
		target = "/grp" + target
	}
	if len(q) > 0 {
		target += "?" + q.Encode()
	}
	var body io.Reader
	ctype := ""
	if rq.Multipart {
		var buf bytes.Buffer
		mw := multipart.NewWriter(&buf)
		_ = mw.SetBoundary("c12-boundary-7MA4YWxkTrZu0gW")
		for _, p := range rq.Form {
			_ = mw.WriteField(p[0], p[1])
		}
		_ = mw.Close()
		body, ctype = &buf, mw.FormDataContentType()
	} else {
		f := url.Values{}
		for _, p := range rq.Form {
			f.Add(p[0], p[1])
		}
		body = strings.NewReader(f.Encode())
		if len(rq.Form) > 0 {
			ctype = "application/x-www-form-urlencoded"
		}
	}
	req := httptest.NewRequest(http.MethodPost, target, body)
	req.Method = rq.Method
	if ctype != "" {
		req.Header.Set("Content-Type", ctype)
	}
	for _, h := range rq.Headers {
		req.Header.Add(h[0], h[1])
	}
	for _, ck := range rq.Cookies {
		req.AddCookie(&http.Cookie{Name: ck[0], Value: ck[1]})
	}
	if rq.Host != "" {
		req.Host = rq.Host
	}
	if rq.Remote != "" {
		req.RemoteAddr = rq.Remote
	}
	if rq.TLS {
		req.TLS = &tls.ConnectionState{Version: tls.VersionTLS13, HandshakeComplete: true, ServerName: req.Host}
	}
	switch rq.Proto {
	case "HTTP/1.0":
		req.Proto, req.ProtoMajor, req.ProtoMinor = "HTTP/1.0", 1, 0
	case "HTTP/2.0":
		req.Proto, req.ProtoMajor, req.ProtoMinor = "HTTP/2.0", 2, 0
	}
	return c12Built{req: req, cookies: req.Cookies(), params: params}
}

// c12Source delivers the stream one byte per Read call: a bufio.Reader on top of it never holds
// bytes it has not handed out, so what a SECOND randomString call of the same request sees does
// not depend on whether sync.Pool hands it the same buffered reader again.
type c12Source struct {
	b []byte
}

func (s *c12Source) Read(p []byte) (int, error) {
	if len(s.b) == 0 {
		return 0, io.EOF
	}
	if len(p) == 0 {
		return 0, nil
	}
	p[0] = s.b[0]
	s.b = s.b[1:]
	return 1, nil
}

type c12Env struct {
	c       *c12Case
	e       *echo.Echo
	mws     []echo.MiddlewareFunc
	grp     *echo.Group
	hmode   int
	wrapped echo.HandlerFunc
	insts   []*c12Inst
	ran     bool
	ctx     []*string
}

// c12Serve runs one request with the given random stream, guarded by a deadline.
func c12Serve(env *c12Env, req *http.Request, rnd []byte, needsRandom bool) c12Obs {
	c := env.c
	if needsRandom {
		for _, in := range env.insts {
			if c12Hung[in.length] {
				return c12Obs{hung: true}
			}
		}
	}
	done := make(chan c12Obs, 1)
	go func() {
		var o c12Obs
		defer func() {
			if r := recover(); r != nil {
				o = c12Obs{panicked: true}
			}
			done <- o
		}()
		if !c.RealRandom {
			restore := middleware.VerifSetRandomSource(&c12Source{b: rnd})
			defer restore()
		}
		env.ran = false
		env.ctx = make([]*string, len(env.insts))
		for _, in := range env.insts {
			in.skipSaid = false
		}
		rec := httptest.NewRecorder()
		o.t0 = time.Now()
		env.e.ServeHTTP(rec, req)
		o.t1 = time.Now()
		o.ran, o.status, o.ctxTok = env.ran, rec.Code, env.ctx
		o.rid = rec.Header().Get("X-Request-Id")
		o.setCookie = make([]*http.Cookie, len(env.insts))
		cks := rec.Result().Cookies()
		o.all = cks
		for k, in := range env.insts {
			o.skipSaid = append(o.skipSaid, in.skipSaid)
			for _, ck := range cks {
				if ck.Name == in.cookie {
					o.setCookie[k] = ck
					break
				}
			}
		}
	}()
	select {
	case o := <-done:
		return o
	case <-time.After(3 * time.Second):
		for _, in := range env.insts {
			c12Hung[in.length] = true
		}
		return c12Obs{hung: true}
	}
}

func c12IsSafe(m string) bool {
	return m == "GET" || m == "HEAD" || m == "OPTIONS" || m == "TRACE"
}

// every value found at a configured lookup location of the request (a superset of what the
// extractors return: no limits, no method rule for bodies); n = number of recognised sources
func c12Held(lookup string, rq *c12Req, b c12Built) (held map[string]bool, n int) {
	held = map[string]bool{}
	for _, src := range strings.Split(lookup, ",") {
		parts := strings.Split(src, ":")
		if len(parts) < 2 {
			continue
		}
		switch parts[0] {
		case "header":
			n++
			pfx := ""
			if len(parts) > 2 {
				pfx = parts[2]
			}
			for _, v := range b.req.Header.Values(parts[1]) {
				if pfx == "" {
					held[v] = true
				} else if len(v) >= len(pfx) && strings.EqualFold(v[:len(pfx)], pfx) {
					held[v[len(pfx):]] = true
				}
			}
		case "query":
			n++
			for _, p := range rq.Query {
				if p[0] == parts[1] {
					held[p[1]] = true
				}
			}
		case "form":
			n++
			for _, p := range rq.Form {
				if p[0] == parts[1] {
					held[p[1]] = true
				}
			}
			for _, p := range rq.Query { // net/http: Request.Form also holds the query values
				if p[0] == parts[1] {
					held[p[1]] = true
				}
			}
		case "cookie":
			n++
			for _, ck := range b.cookies {
				if ck.Name == parts[1] {
					held[ck.Value] = true
				}
			}
		case "param":
			n++
			for _, p := range b.params {
				if p[0] == parts[1] {
					held[p[1]] = true
				}
			}
		}
	}
	return held, n
}

// c12Draw: what randomString(n) consumes of the stream: whole buffers of n+n/4 bytes until n
// acceptable bytes (<= 207) have been seen; ok = false when the stream runs dry first
func c12Draw(rnd []byte, n int) (rest []byte, ok bool) {
	chunk := n + n/4
	need := n
	for {
		if len(rnd) < chunk {
			return nil, false
		}
		for _, b := range rnd[:chunk] {
			if b <= 207 && need > 0 {
				need--
			}
		}
		rnd = rnd[chunk:]
		if need == 0 {
			return rnd, true
		}
	}
}

func c12Letters(s string) bool {
	for i := 0; i < len(s); i++ {
		ch := s[i]
		if !(ch >= 'A' && ch <= 'Z' || ch >= 'a' && ch <= 'z') {
			return false
		}
	}
	return true
}

func c12MwOps(c *c12Case, insts []*c12Inst) []string {
	st := c.stack()
	ops := []string{wInt(len(st))}
	for _, k := range st {
		switch {
		case k < 0:
			ops = append(ops, "1")
		case insts[k].ctor == 1:
			ops = append(ops, "2")
		default:
			r := insts[k].raw
			ops = append(ops, "0", wInt(int(r.TokenLength)), wStr(r.TokenLookup), wStr(r.CookieName), wInt(insts[k].eh),
				wStr(r.CookiePath), wStr(r.CookieDomain), wInt(r.CookieMaxAge), wBool(r.CookieSecure), wBool(r.CookieHTTPOnly),
				wInt(int(r.CookieSameSite)), wBool(insts[k].skipper), wStr(r.ContextKey))
		}
	}
	return ops
}

func c12FirstHeader(b c12Built, name string) string { return b.req.Header.Get(name) }

func c12Run(ci any) Result {
	c := ci.(*c12Case)
	if !c.valid() {
		return Result{Tags: []string{"invalid-case"}}
	}
	insts := c.instances()
	stack := c.stack()
	if c.Conc > 0 {
		return c12RunConc(c)
	}
	c12ForgetExpired(c)
	ops := []string{wStr(c.TokenLookup), "0"}
	if c.PreSet {
		ops = []string{wStr(c.TokenLookup), "1", wStr(insts[0].key), wStr(c12Preset)}
	}
	ops = append(ops, wBool(c.AppCookies))
	ops = append(ops, c12MwOps(c, insts)...)
	ops = append(ops, wInt(len(c.Reqs)))
	tagset := map[string]bool{}
	oracle := ""
	fail := func(i int, msg string) {
		if oracle == "" {
			oracle = fmt.Sprintf("request %d: %s", i, msg)
		}
	}
	// the public CreateExtractors on the configured string as it is
	xobs := "xerr"
	func() {
		defer func() {
			if r := recover(); r != nil {
				xobs = "xpanic"
			}
		}()
		if exs, err := middleware.CreateExtractors(c.TokenLookup); err == nil {
			xobs = "x" + wInt(len(exs))
		}
	}()
	// construction
	env := &c12Env{c: c, insts: insts}
	cpanic := func() (p bool) {
		defer func() {
			if r := recover(); r != nil {
				p = true
			}
		}()
		env.e = echo.New()
		if c.AppCookies {
			state := insts[0].cookie + "_state"
			env.e.Use(func(next echo.HandlerFunc) echo.HandlerFunc {
				return func(ctx echo.Context) error {
					ctx.SetCookie(&http.Cookie{Name: "session", Value: "abc"})
					ctx.SetCookie(&http.Cookie{Name: state, Value: "keep"})
					return next(ctx)
				}
			})
		}
		if c.PreSet {
			key := insts[0].key
			env.e.Use(func(next echo.HandlerFunc) echo.HandlerFunc {
				return func(ctx echo.Context) error {
					ctx.Set(key, c12Preset)
					return next(ctx)
				}
			})
		}
		for _, k := range stack {
			if k < 0 {
				env.mws = append(env.mws, middleware.RequestID())
				continue
			}
			in := insts[k]
			if in.ctor == 1 {
				env.mws = append(env.mws, middleware.CSRF())
				continue
			}
			cfg := in.raw
			switch in.eh {
			case 1:
				cfg.ErrorHandler = func(err error, ctx echo.Context) error {
					return ctx.JSON(http.StatusTeapot, map[string]string{"message": "csrf check failed"})
				}
			case 2:
				cfg.ErrorHandler = func(err error, ctx echo.Context) error {
					return echo.NewHTTPError(http.StatusConflict, "csrf check failed")
				}
			}
			if in.skipper {
				cfg.Skipper = func(ctx echo.Context) bool {
					s := ctx.Request().Header.Get("X-Skip") != ""
					in.skipSaid = s
					return s
				}
			}
			if in.ctor == 2 {
				env.mws = append(env.mws, c12ViaDefaults(cfg))
				continue
			}
			env.mws = append(env.mws, middleware.CSRFWithConfig(cfg))
		}
		switch c.Mount {
		case 0:
			env.e.Use(env.mws...)
		case 2:
			env.grp = env.e.Group("/grp", env.mws...)
		case 3:
			env.e.Use(env.mws[0])
			env.grp = env.e.Group("/grp", env.mws[1:]...)
		}
		return false
	}()
	if cpanic {
		for _, rq := range c.Reqs {
			b := c12Build(c, &rq)
			ops = append(ops, c12ReqOps(&rq, b)...)
		}
		return Result{Ops: strings.Join(ops, " "), Obs: xobs + " cpanic", Tags: []string{"constructor-panic"}}
	}
	h := func(ctx echo.Context) error {
		env.ran = true
		for k, in := range insts {
			if v, ok := ctx.Get(in.key).(string); ok {
				env.ctx[k] = &v
			}
		}
		if c.AppCookies {
			ctx.SetCookie(&http.Cookie{Name: "after", Value: "1"})
		}
		switch env.hmode {
		case 1:
			return nil
		case 2:
			w := ctx.Response().Writer
			w.WriteHeader(http.StatusAccepted)
			_, err := w.Write([]byte("raw"))
			return err
		case 3:
			ctx.Response().Unwrap().WriteHeader(http.StatusNonAuthoritativeInfo)
			return nil
		case 4:
			return ctx.NoContent(http.StatusNoContent)
		case 5:
			return echo.NewHTTPError(http.StatusTeapot, "handler says no")
		}
		return ctx.String(http.StatusOK, "ok")
	}
	pattern := "/"
	if len(c.Route) > 0 {
		pattern = "/p"
		for _, n := range c.Route {
			pattern += "/:" + n
		}
	}
	methods := map[string]bool{}
	addMethod := func(m string) {
		if !methods[m] {
			methods[m] = true
			switch c.Mount {
			case 0:
				env.e.Add(m, pattern, h)
			case 1:
				env.e.Add(m, pattern, h, env.mws...)
			case 4:
				if env.wrapped == nil {
					env.wrapped = h
					for i := len(env.mws) - 1; i >= 0; i-- {
						env.wrapped = env.mws[i](env.wrapped)
					}
				}
				env.e.Add(m, pattern, env.wrapped)
			default:
				env.grp.Add(m, pattern, h)
			}
		}
	}
	for _, rq := range c.Reqs {
		addMethod(rq.Method)
	}
	obs := []string{xobs, wInt(len(c.Reqs))}
	nontrivial := false
	type kept struct {
		req, inst int
		tok       *string // the string the handler found in the context
		cookie    string  // the Set-Cookie value of the same response
	}
	var retained []kept
	fresh := map[string]int{}
	for i := range c.Reqs {
		rq := c.Reqs[i] // copy: GuessFresh fills in the token
		if rq.GuessFresh != "" {
			// learn the token this stream yields from a safe request, then present it
			tagset["guess-fresh-token"] = true
			probe := c12Req{Method: "GET", Rnd: rq.Rnd, PathVals: rq.PathVals}
			for _, hd := range rq.Headers {
				if strings.EqualFold(hd[0], "X-Request-Id") || strings.EqualFold(hd[0], "X-Skip") {
					probe.Headers = append(probe.Headers, hd)
				}
			}
			addMethod("GET")
			po := c12Serve(env, c12Build(c, &probe).req, rq.Rnd, true)
			tok := ""
			if len(po.setCookie) > 0 && po.setCookie[0] != nil {
				tok = po.setCookie[0].Value
			}
			parts := strings.SplitN(rq.GuessFresh, ":", 3)
			switch parts[0] {
			case "header":
				pfx := ""
				if len(parts) > 2 {
					pfx = parts[2]
				}
				rq.Headers = append(append([][2]string(nil), rq.Headers...), [2]string{parts[1], pfx + tok})
			case "query":
				rq.Query = append(append([][2]string(nil), rq.Query...), [2]string{parts[1], tok})
			case "form":
				rq.Form = append(append([][2]string(nil), rq.Form...), [2]string{parts[1], tok})
			}
		}
		b := c12Build(c, &rq)
		reqCookie := make([]*string, len(insts))
		for k, in := range insts {
			for _, ck := range b.cookies {
				if ck.Name == in.cookie {
					v := ck.Value
					reqCookie[k] = &v
					break
				}
			}
		}
		ops = append(ops, c12ReqOps(&rq, b)...)
		needsRandom := false
		for k := range insts {
			if reqCookie[k] == nil {
				needsRandom = true
			}
		}
		if c.Extra == 1 || c.Extra == 2 || c.Extra == 4 {
			needsRandom = true
		}
		env.hmode = rq.H
		o := c12Serve(env, b.req, rq.Rnd, needsRandom)
		env.hmode = 0
		safe := c12IsSafe(rq.Method)
		// tags
		if safe {
			tagset["safe-method"] = true
		} else {
			tagset["unsafe-method"] = true
			if c12IsSafe(strings.ToUpper(strings.TrimSpace(rq.Method))) {
				tagset["safe-lookalike-method"] = true
			}
		}
		switch {
		case reqCookie[0] == nil:
			tagset["cookie-absent"] = true
		case *reqCookie[0] == "":
			tagset["cookie-empty"] = true
		default:
			tagset["cookie-present"] = true
		}
		switch {
		case o.hung:
			obs = append(obs, "hang")
			tagset["hang"] = true
			fail(i, fmt.Sprintf("the request did not complete within 3 s: randomString(%d) does not terminate", insts[0].length))
			continue
		case o.panicked:
			obs = append(obs, "2")
			tagset["panic"] = true
			if c.RealRandom {
				fail(i, "panic with the real random source")
				continue
			}
			// justified only if some draw of the stack, in order, finds the stream dry
			stream, dry := rq.Rnd, false
			for _, k := range stack {
				var ok bool
				switch {
				case k < 0:
					if c12FirstHeader(b, "X-Request-Id") != "" {
						continue
					}
					stream, ok = c12Draw(stream, 32)
				case reqCookie[k] != nil || (insts[k].skipper && c12FirstHeader(b, "X-Skip") != ""):
					continue
				default:
					stream, ok = c12Draw(stream, insts[k].length)
				}
				if !ok {
					dry = true
					break
				}
			}
			if !dry {
				fail(i, "panic although the random source had enough bytes (or was not needed)")
			}
			continue
		case o.ran:
			line := []string{"1", wInt(len(stack))}
			for _, k := range stack {
				if k < 0 {
					line = append(line, "r", wStr(o.rid))
					continue
				}
				sc, ct := "<none>", "<none>"
				attrs := []string{"-", "-", "-", "-", "-", "-"}
				if ck := o.setCookie[k]; ck != nil {
					sc = wStr(ck.Value)
					// Expires = time.Now() + MaxAge, formatted in whole seconds: with the instants before
					// and after the request truncated to seconds, Expires - before lies in [MaxAge, MaxAge + (after - before)]
					d := int(ck.Expires.Unix() - o.t0.Unix())
					slack := int(o.t1.Unix() - o.t0.Unix())
					if want := insts[k].maxAge; d >= want && d <= want+slack {
						d = want
					}
					attrs = []string{wStr(ck.Path), wStr(ck.Domain), wInt(d), wBool(ck.Secure), wBool(ck.HttpOnly), wInt(int(ck.SameSite))}
					// for Tolerable (not part of the observation line): a Set-Cookie that tells the client to DROP the
					// cookie (Max-Age < 0, or an Expires that lies in the past) does not hand the token to the client
					if ck.MaxAge < 0 || (!ck.Expires.IsZero() && ck.Expires.Unix() < o.t0.Unix()) {
						c12NoteExpired(c, i, k)
					}
				}
				if o.ctxTok[k] != nil {
					ct = wStr(*o.ctxTok[k])
				}
				line = append(line, "c", sc, ct)
				line = append(line, attrs...)
			}
			// the names of all Set-Cookie lines on the wire (sorted: the order of the lines is not compared)
			var names []string
			for _, ck := range o.all {
				names = append(names, ck.Name)
			}
			sort.Strings(names)
			line = append(line, wInt(len(names)))
			for _, n := range names {
				line = append(line, wStr(n))
			}
			obs = append(obs, line...)
		default:
			obs = append(obs, "0", wInt(o.status))
		}
		// ---- model-free oracle: the property itself, for every CSRF instance in front of the handler
		if o.ran {
			tagset["passed"] = true
			if want := []int{200, 200, 202, 203, 204, 418}[rq.H]; o.status != want {
				fail(i, fmt.Sprintf("handler ran (mode %d) but status %d, not %d", rq.H, o.status, want))
			}
			if rq.H != 0 {
				tagset[[]string{"", "handler-writes-nothing", "handler-writes-through-raw-writer", "handler-writes-through-Unwrap", "handler-NoContent", "handler-returns-error"}[rq.H]] = true
			}
		} else {
			tagset["rejected"] = true
			tagset[fmt.Sprintf("status-%d", o.status)] = true
			if safe {
				fail(i, fmt.Sprintf("safe method %s did not pass (status %d)", rq.Method, o.status))
			}
			if o.status < 400 || o.status > 499 {
				fail(i, fmt.Sprintf("rejected with status %d, not 4xx", o.status))
			}
		}
		for k, in := range insts {
			held, nsrc := c12Held(in.lookup, &rq, b)
			name := ""
			if k > 0 {
				name = fmt.Sprintf("CSRF instance %d: ", k+1)
			}
			if !o.ran {
				if reqCookie[k] != nil && len(held) > 0 {
					nontrivial = true // a near miss: cookie and client token(s) present, no match
				}
				continue
			}
			// the ContextKey is this instance's own at handler time unless a LATER instance of the stack
			// publishes under the same key (the innermost instance owns a shared key)
			ownsKey := true
			for k2 := k + 1; k2 < len(insts); k2++ {
				if insts[k2].key == in.key && !o.skipSaid[k2] {
					ownsKey = false
					tagset["context-key-shared-by-two-instances"] = true
				}
			}
			if o.skipSaid[k] {
				tagset["skipped-by-skipper"] = true
				foreign := !ownsKey || (c.PreSet && in.key == insts[0].key)
				if o.setCookie[k] != nil || (o.ctxTok[k] != nil && !foreign) {
					fail(i, name+"the Skipper skipped the request but a token was published")
				}
				continue // the middleware is configured not to act on this request
			}
			if !safe {
				nontrivial = true
				tagset["unsafe-passed"] = true
				switch {
				case nsrc == 0:
					// no source of the lookup string is a known one: no extractor, nothing is validated (tie only)
					tagset["lookup-without-known-source(tie only)"] = true
				case reqCookie[k] == nil:
					// Only a client that knows what the random source will deliver can do this
					// (the harness does, see GuessFresh); it must have presented exactly the fresh token.
					if o.setCookie[k] == nil || !held[o.setCookie[k].Value] {
						fail(i, fmt.Sprintf("%sunsafe %q request passed without the CSRF cookie", name, rq.Method))
					} else {
						tagset["fresh-token-presented"] = true
					}
				case !held[*reqCookie[k]]:
					fail(i, fmt.Sprintf("%sunsafe %q request passed although no configured lookup location holds the cookie token %q", name, rq.Method, *reqCookie[k]))
				}
			}
			switch sc := o.setCookie[k]; {
			case sc == nil:
				fail(i, name+"passed without a Set-Cookie for the CSRF cookie")
			case ownsKey && (o.ctxTok[k] == nil || *o.ctxTok[k] != sc.Value):
				got := "nothing"
				if o.ctxTok[k] != nil {
					got = fmt.Sprintf("%q", *o.ctxTok[k])
				}
				fail(i, fmt.Sprintf("%sSet-Cookie token %q differs from the context token (%s)", name, sc.Value, got))
			case reqCookie[k] != nil && sc.Value != *reqCookie[k]:
				fail(i, fmt.Sprintf("%stoken %q is not the request cookie's %q", name, sc.Value, *reqCookie[k]))
			case reqCookie[k] == nil && (len(sc.Value) != in.length || !c12Letters(sc.Value)):
				fail(i, fmt.Sprintf("%sfresh token %q: want %d ASCII letters", name, sc.Value, in.length))
			}
			if sc := o.setCookie[k]; sc != nil && o.ctxTok[k] != nil && ownsKey {
				retained = append(retained, kept{i, k, o.ctxTok[k], sc.Value})
				if reqCookie[k] == nil && in.length >= 16 {
					if j, dup := fresh[sc.Value]; dup && c.RealRandom {
						fail(i, fmt.Sprintf("%sthe fresh token %q was already issued to request %d", name, sc.Value, j))
					}
					fresh[sc.Value] = i
				}
			}
		}
	}
	// the token a handler was given must stay the token of that request's cookie whatever
	// happens later (an application may keep it, e.g. to render it into a page)
	for _, kp := range retained {
		if *kp.tok != kp.cookie {
			fail(kp.req, fmt.Sprintf("the context token handed to the handler has become %q after later requests; the Set-Cookie of its response carried %q", *kp.tok, kp.cookie))
			break
		}
	}
	if len(retained) > 1 {
		tagset["tokens-kept-across-requests"] = true
	}
	switch c.ErrorHandler {
	case 1:
		tagset["error-handler-writes-and-returns-nil"] = true
	case 2:
		tagset["error-handler-returns-own-error"] = true
	}
	if c.Ctor == 1 {
		tagset["ctor-CSRF()"] = true
	}
	if c.Ctor == 2 {
		tagset["ctor-CSRF()-again-after-DefaultCSRFConfig-changed"] = true
	}
	if c.Skipper {
		tagset["skipper-configured"] = true
	}
	if c.CookiePath != "" || c.CookieDomain != "" || c.CookieMaxAge != 0 || c.CookieSecure || c.CookieHTTPOnly || c.CookieSameSite != 0 {
		tagset["cookie-attributes"] = true
	}
	if c.CookieSameSite == 4 {
		tagset["samesite-none"] = true
	}
	if c.Extra != 0 {
		tagset[[]string{"", "requestid-after-csrf", "requestid-before-csrf", "two-csrf-instances", "csrf-requestid-csrf"}[c.Extra]] = true
	}
	if len(c.Route) > 0 {
		tagset["route-with-path-params"] = true
	}
	if c.Mount != 0 {
		tagset[[]string{"", "registered-on-the-route", "registered-on-a-group", "first-on-echo-rest-on-a-group", "applied-once-by-hand"}[c.Mount]] = true
	}
	if c.PreSet {
		tagset["context-key-preset-by-earlier-middleware"] = true
	}
	if c.AppCookies {
		tagset["application-cookies-before-and-after"] = true
	}
	if c.Extra >= 3 && c.Inst2 >= 3 {
		tagset[[]string{"outer-cookie-name-prefix-of-inner", "inner-cookie-name-prefix-of-outer"}[c.Inst2-3]] = true
	}
	for _, rq := range c.Reqs {
		if rq.Multipart {
			tagset["multipart-body"] = true
		}
	}
	var tags []string
	for t := range tagset {
		tags = append(tags, t)
	}
	sort.Strings(tags)
	res := Result{Ops: strings.Join(ops, " "), Obs: strings.Join(obs, " "), Oracle: oracle, Tags: tags, Nontrivial: nontrivial}
	if c.RealRandom {
		res.Ops, res.Obs = "", ""
		res.Tags = append(res.Tags, "real-crypto-rand(oracle only)")
	}
	return res
}

const c12Preset = "preset-ctx-value"

// c12ViaDefaults: the configuration reaches the middleware through the package-level default: CSRF() is
// called once with the stock DefaultCSRFConfig, then the non-zero fields of cfg are written over the default
// and CSRF() is called again; the stock default is restored before returning.  (C12 cases run serially.)
func c12ViaDefaults(cfg middleware.CSRFConfig) echo.MiddlewareFunc {
	stock := middleware.DefaultCSRFConfig
	defer func() { middleware.DefaultCSRFConfig = stock }()
	_ = middleware.CSRF()
	d := stock
	if cfg.Skipper != nil {
		d.Skipper = cfg.Skipper
	}
	if cfg.TokenLength != 0 {
		d.TokenLength = cfg.TokenLength
	}
	if cfg.TokenLookup != "" {
		d.TokenLookup = cfg.TokenLookup
	}
	if cfg.ContextKey != "" {
		d.ContextKey = cfg.ContextKey
	}
	if cfg.CookieName != "" {
		d.CookieName = cfg.CookieName
	}
	if cfg.CookieMaxAge != 0 {
		d.CookieMaxAge = cfg.CookieMaxAge
	}
	if cfg.CookieSameSite != 0 {
		d.CookieSameSite = cfg.CookieSameSite
	}
	d.CookiePath, d.CookieDomain, d.CookieSecure, d.CookieHTTPOnly, d.ErrorHandler = cfg.CookiePath, cfg.CookieDomain, cfg.CookieSecure, cfg.CookieHTTPOnly, cfg.ErrorHandler
	middleware.DefaultCSRFConfig = d
	return middleware.CSRF()
}

// c12RunConc: overlapping requests through ONE stack.  Every goroutine has a CSRF cookie of its own (or
// none, then its tokens come from the real crypto/rand) and sends safe and unsafe requests that satisfy
// every instance; whatever the schedule, each response must carry the token of ITS request in Set-Cookie,
// the handler of that request must have found the same token in its context, and every request must pass.
// Oracle only (no model comparison); sound on every schedule.
func c12RunConc(c *c12Case) Result {
	insts := c.instances()
	if c.ConcN <= 0 || c.Ctor == 1 && c.Extra >= 3 || len(c.Route) > 0 {
		return Result{Tags: []string{"invalid-case"}}
	}
	var oracle string
	var mu sync.Mutex
	fail := func(s string) {
		mu.Lock()
		if oracle == "" {
			oracle = s
		}
		mu.Unlock()
	}
	func() {
		defer func() {
			if r := recover(); r != nil {
				fail(fmt.Sprint("panic during construction: ", r))
			}
		}()
		e := echo.New()
		var mws []echo.MiddlewareFunc
		for _, k := range c.stack() {
			switch {
			case k < 0:
				mws = append(mws, middleware.RequestID())
			case insts[k].ctor == 1:
				mws = append(mws, middleware.CSRF())
			case insts[k].ctor == 2:
				mws = append(mws, c12ViaDefaults(insts[k].raw))
			default:
				mws = append(mws, middleware.CSRFWithConfig(insts[k].raw))
			}
		}
		keys := []string{}
		for _, in := range insts {
			keys = append(keys, in.key)
		}
		h := func(ctx echo.Context) error {
			// report what the handler found, twice (before and after yielding the processor)
			first := make([]string, len(keys))
			for k, key := range keys {
				first[k], _ = ctx.Get(key).(string)
			}
			runtime.Gosched()
			for k, key := range keys {
				if v, _ := ctx.Get(key).(string); v != first[k] {
					return ctx.String(http.StatusOK, "changed")
				}
			}
			return ctx.String(http.StatusOK, strings.Join(first, "|"))
		}
		switch c.Mount {
		case 1:
			e.Add("GET", "/", h, mws...)
			e.Add("POST", "/", h, mws...)
		case 4:
			wrapped := echo.HandlerFunc(h)
			for i := len(mws) - 1; i >= 0; i-- {
				wrapped = mws[i](wrapped)
			}
			e.Add("GET", "/", wrapped)
			e.Add("POST", "/", wrapped)
		default:
			e.Use(mws...)
			e.Add("GET", "/", h)
			e.Add("POST", "/", h)
		}
		shared := len(insts) > 1 && insts[0].key == insts[1].key
		var wg sync.WaitGroup
		start := make(chan struct{})
		for g := 0; g < c.Conc; g++ {
			wg.Add(1)
			go func(g int) {
				defer wg.Done()
				defer func() {
					if r := recover(); r != nil {
						fail(fmt.Sprint("goroutine ", g, ": panic: ", r))
					}
				}()
				<-start
				// own cookies; every third goroutine sends none for the first instance (fresh tokens)
				toks := make([]string, len(insts))
				for k := range insts {
					toks[k] = fmt.Sprintf("Tok%dOfGoroutine%04dxxxxxxxxxxxxxxxx", k, g)
				}
				noCookie := g%3 == 2
				for i := 0; i < c.ConcN; i++ {
					method := "POST"
					if i%4 == 3 || noCookie {
						method = "GET"
					}
					req := httptest.NewRequest(method, "/", nil)
					for k, in := range insts {
						if k == 0 && noCookie {
							continue
						}
						req.AddCookie(&http.Cookie{Name: in.cookie, Value: toks[k]})
						// the token at the first lookup location of the instance
						l := c12Locs(in.lookup)
						if len(l) == 0 {
							continue
						}
						switch l[0].kind {
						case "header":
							req.Header.Add(l[0].name, l[0].pfx+toks[k])
						case "query", "form":
							q := req.URL.Query()
							q.Add(l[0].name, toks[k])
							req.URL.RawQuery = q.Encode()
						}
					}
					rec := httptest.NewRecorder()
					e.ServeHTTP(rec, req)
					if rec.Code != http.StatusOK {
						fail(fmt.Sprintf("goroutine %d request %d (%s, own cookie and own token at the lookup location): status %d while other requests were in flight", g, i, method, rec.Code))
						return
					}
					found := strings.Split(rec.Body.String(), "|")
					if rec.Body.String() == "changed" || len(found) != len(insts) {
						fail(fmt.Sprintf("goroutine %d request %d: the context token changed while the handler was running", g, i))
						return
					}
					cks := rec.Result().Cookies()
					for k, in := range insts {
						var sc *http.Cookie
						for _, ck := range cks {
							if ck.Name == in.cookie {
								sc = ck
								break
							}
						}
						want := toks[k]
						fresh := k == 0 && noCookie
						switch {
						case sc == nil:
							fail(fmt.Sprintf("goroutine %d request %d: passed without a Set-Cookie %q", g, i, in.cookie))
						case !fresh && sc.Value != want:
							fail(fmt.Sprintf("goroutine %d request %d: Set-Cookie %s=%q, but the request's own cookie token is %q (another request's token, concurrently in flight)", g, i, in.cookie, sc.Value, want))
						case fresh && (len(sc.Value) != in.length || !c12Letters(sc.Value)):
							fail(fmt.Sprintf("goroutine %d request %d: fresh token %q: want %d ASCII letters", g, i, sc.Value, in.length))
						case (k == len(insts)-1 || !shared) && found[k] != sc.Value:
							fail(fmt.Sprintf("goroutine %d request %d: Set-Cookie token %q differs from the context token %q of the same request", g, i, sc.Value, found[k]))
						}
					}
				}
			}(g)
		}
		close(start)
		wg.Wait()
	}()
	return Result{Oracle: oracle, Tags: []string{"concurrent-requests-through-one-instance(oracle only)"}, Nontrivial: true}
}

// c12GenConc: a concurrency case: simple in-scope configuration, any stack
func c12GenConc(r *rand.Rand, big bool) *c12Case {
	c := &c12Case{Conc: 8 + r.Intn(9), ConcN: 150 + r.Intn(150)}
	if big {
		c.ConcN *= 3
	}
	if r.Intn(3) == 0 {
		c.Ctor = 1
	} else {
		c.TokenLookup = []string{"", "header:X-CSRF-Token", "query:csrf", "header:X-Tok:tok-,query:csrf", "form:csrf"}[r.Intn(5)]
		c.CookieName = []string{"", "_csrf", "XSRF-TOKEN"}[r.Intn(3)]
		c.TokenLength = []int{0, 8, 32, 64}[r.Intn(4)]
		if r.Intn(2) == 0 {
			c.CookiePath, c.CookieSameSite = "/", 1+r.Intn(4)
		}
	}
	switch r.Intn(4) {
	case 0:
		c.Extra = 1
	case 1:
		if c.Ctor == 0 {
			c.Extra, c.Inst2, c.Len2 = 3, r.Intn(3), 32
		}
	}
	c.Mount = []int{0, 1, 4, 4}[r.Intn(4)]
	return c
}

// the model op of one request
func c12ReqOps(rq *c12Req, b c12Built) []string {
	ops := []string{wStr(rq.Method), wInt(len(b.cookies))}
	for _, ck := range b.cookies {
		ops = append(ops, wStr(ck.Name), wStr(ck.Value))
	}
	var keys []string
	nh := 0
	for k, vs := range b.req.Header {
		keys = append(keys, k)
		nh += len(vs)
	}
	sort.Strings(keys)
	ops = append(ops, wInt(nh))
	for _, k := range keys {
		for _, v := range b.req.Header[k] {
			ops = append(ops, wStr(k), wStr(v))
		}
	}
	ops = append(ops, wInt(len(rq.Query)))
	for _, p := range rq.Query {
		ops = append(ops, wStr(p[0]), wStr(p[1]))
	}
	ops = append(ops, wInt(len(rq.Form)))
	for _, p := range rq.Form {
		ops = append(ops, wStr(p[0]), wStr(p[1]))
	}
	ops = append(ops, wInt(len(b.params)))
	for _, p := range b.params {
		ops = append(ops, wStr(p[0]), wStr(p[1]))
	}
	return append(ops, wBool(rq.Multipart), wBytes(rq.Rnd))
}

// ---------- generator ----------

var c12Methods = []string{"GET", "HEAD", "OPTIONS", "TRACE", "POST", "POST", "POST", "PUT", "PATCH", "DELETE", "CONNECT",
	"get", "head", "options", "trace", "post", "Get", "gET", "GET ", " GET", "GETX", "TRACE2", "PROPFIND", "QUERY", "", "OPTION", "HEADS"}

var c12Lookups = []string{"", "header:X-CSRF-Token", "header:x-csrf-token", "form:csrf", "query:csrf",
	"header:X-CSRF-Token,form:csrf,query:csrf", "query:csrf,header:X-XSRF-TOKEN", "form:_csrf,query:_csrf",
	"header:Authorization:Bearer ", "header:X-Tok:tok-", "form:csrf,form:csrf2,header:X-CSRF-Token",
	"query:csrf,query:t",
	// a prefix-cut header source as the LAST source (its "invalid value" error is then the one that is translated)
	"form:csrf,header:X-Tok:tok-", "query:csrf,header:Authorization:Bearer ", "header:X-CSRF-Token,header:X-Tok:tok-",
	// a prefix-cut header source BEFORE header sources without one (the cut-prefix belongs to its own source only)
	"header:X-Tok:tok-,header:X-CSRF-Token", "header:Authorization:Bearer ,query:csrf,header:X-CSRF-Token",
	"header:X-Legacy-Token:csrf ,header:X-CSRF-Token", "header:X-Tok:tok-,header:X-Other:pre-,header:X-CSRF-Token,header:X-Last",
	// the same header named twice, once whole and once behind a cut-prefix, in both orders
	"header:X-Tok,header:X-Tok:tok-", "header:X-Tok:tok-,header:X-Tok"}

// sources CreateExtractors knows besides header/form/query: path parameters and cookies
var c12ParamCookieLookups = []string{"param:tok", "param:id,header:X-CSRF-Token", "header:X-CSRF-Token,param:tok", "query:csrf,param:t",
	"cookie:tokc", "query:csrf,cookie:tokc", "cookie:tokc,param:tok", "param:t"}

// rare: ignored / failing sources (no known source at all: nothing is validated, compared with the model only)
var c12OddLookups = []string{"headr:X-CSRF-Token", "header", "query:csrf,bogus", "param:id", "bogus:x,form:csrf",
	"Header:X-CSRF-Token", "query:csrf,Form:csrf", "cookie:_csrf", "query", ","}

var c12Routes = [][]string{{"id"}, {"tok"}, {"id", "tok"}, {"tok", "id", "tok"}, {"t", "t", "t"}, {"Tok", "tok"}, {"tok2", "TOK", "t"}}

const c12CookieAlphabet = "ABCDEFGHIJKLMNOPQRSTUVWXYZabcdefghijklmnopqrstuvwxyz0123456789-_.~!#$%&'()*+/:<=>?@[]^`{|}"

func c12Token(r *rand.Rand) string {
	n := 32
	switch r.Intn(6) {
	case 0:
		n = 1 + r.Intn(4)
	case 1:
		n = 1 + r.Intn(64)
	}
	alpha := c12CookieAlphabet[:52]
	if r.Intn(4) == 0 {
		alpha = c12CookieAlphabet
	}
	b := make([]byte, n)
	for i := range b {
		b[i] = alpha[r.Intn(len(alpha))]
	}
	return string(b)
}

func c12SwapCase(s string) string {
	b := []byte(s)
	for i, ch := range b {
		if ch >= 'a' && ch <= 'z' {
			b[i] = ch - 32
			return string(b)
		} else if ch >= 'A' && ch <= 'Z' {
			b[i] = ch + 32
			return string(b)
		}
	}
	return s + "x"
}

func c12NearMiss(r *rand.Rand, t string) string {
	if r.Intn(4) == 0 {
		// the right token as an ELEMENT of a longer value: lists, quotes, parameters
		switch r.Intn(12) {
		case 0:
			return "zzz, " + t
		case 1:
			return t + ","
		case 2:
			return ", " + t
		case 3:
			return t + ",zzz"
		case 4:
			return t + ", " + t
		case 5:
			return t + "; q=1"
		case 6:
			return "\"" + t + "\""
		case 7:
			return "a " + t
		case 8:
			return t + "\t"
		case 9:
			return "," + t + ","
		case 10:
			return "'" + t + "'"
		default:
			return t + ";" + t
		}
	}
	switch r.Intn(13) {
	case 10:
		// same length, same multiset of bytes: two distinct bytes exchanged (defeats comparisons that
		// accumulate with xor or sum instead of or)
		b := []byte(t)
		for tries := 0; tries < 8 && len(b) > 1; tries++ {
			i, j := r.Intn(len(b)), r.Intn(len(b))
			if b[i] != b[j] {
				b[i], b[j] = b[j], b[i]
				return string(b)
			}
		}
		return t + "y"
	case 11:
		// same length, two positions changed by the same bit mask (the differences cancel under xor)
		b := []byte(t)
		if len(b) > 1 {
			i := r.Intn(len(b) - 1)
			b[i] ^= 2
			b[i+1] ^= 2
			return string(b)
		}
		return t + "z"
	case 12:
		// reversed
		b := []byte(t)
		for i, j := 0, len(b)-1; i < j; i, j = i+1, j-1 {
			b[i], b[j] = b[j], b[i]
		}
		if string(b) == t {
			return t + "r"
		}
		return string(b)
	case 0:
		if len(t) > 0 {
			return t[:len(t)-1]
		}
		return "x"
	case 1:
		return t + "x"
	case 2:
		return c12SwapCase(t)
	case 3:
		return " " + t
	case 4:
		return t + " "
	case 5:
		if len(t) > 0 {
			return t[1:]
		}
		return " "
	case 6:
		if t == "" {
			return "\x00"
		}
		return ""
	case 7:
		return t + "\x00"
	case 8:
		return strings.ToUpper(t) + strings.ToLower(t)
	default:
		b := []byte(t)
		if len(b) == 0 {
			return "y"
		}
		i := r.Intn(len(b))
		b[i] ^= 1
		return string(b)
	}
}

type c12Loc struct{ kind, name, pfx string }

func c12Locs(lookup string) []c12Loc {
	if lookup == "" {
		lookup = "header:X-CSRF-Token"
	}
	var out []c12Loc
	for _, src := range strings.Split(lookup, ",") {
		p := strings.Split(src, ":")
		if len(p) < 2 {
			continue
		}
		l := c12Loc{kind: p[0], name: p[1]}
		if len(p) > 2 {
			l.pfx = p[2]
		}
		if l.kind == "header" || l.kind == "query" || l.kind == "form" || l.kind == "param" || l.kind == "cookie" {
			out = append(out, l)
		}
	}
	return out
}

func c12Place(r *rand.Rand, route []string, rq *c12Req, l c12Loc, v string) {
	switch l.kind {
	case "header":
		name := l.name
		if r.Intn(3) == 0 {
			name = strings.ToLower(name)
		}
		pfx := l.pfx
		if pfx != "" && r.Intn(3) == 0 {
			pfx = c12SwapCase(pfx)
		}
		rq.Headers = append(rq.Headers, [2]string{name, pfx + v})
	case "query":
		rq.Query = append(rq.Query, [2]string{l.name, v})
	case "form":
		rq.Form = append(rq.Form, [2]string{l.name, v})
	case "cookie":
		// bytes net/http would drop from a cookie value (with a log line) are hex-escaped instead
		for i := 0; i < len(v); i++ {
			if ch := v[i]; ch < 0x20 || ch >= 0x7f || ch == '"' || ch == ';' || ch == '\\' {
				v = "v" + hex.EncodeToString([]byte(v))
				break
			}
		}
		rq.Cookies = append(rq.Cookies, [2]string{l.name, v})
	case "param":
		// the next free path parameter of that name (values must be plain path segments)
		if !c12PathSafe(v) {
			v = "v" + hex.EncodeToString([]byte(v))
			if len(v) > 40 {
				v = v[:40]
			}
		}
		for len(rq.PathVals) < len(route) {
			i := len(rq.PathVals)
			if route[i] == l.name {
				rq.PathVals = append(rq.PathVals, v)
				return
			}
			rq.PathVals = append(rq.PathVals, []string{"x", "17", "other"}[r.Intn(3)])
		}
	}
}

func c12Rnd(r *rand.Rand, n int, short bool) []byte {
	mode := r.Intn(6)
	size := 4*n + 64 + r.Intn(64)
	if mode < 3 {
		size = 12*n + 64
	}
	if short {
		size = r.Intn(n + n/4 + 1)
	}
	b := make([]byte, size)
	for i := range b {
		switch mode {
		case 0: // many rejected bytes
			if r.Intn(3) > 0 {
				b[i] = byte(208 + r.Intn(48))
			} else {
				b[i] = byte(r.Intn(256))
			}
		case 1: // around the acceptance boundary
			b[i] = byte(200 + r.Intn(16))
		case 2: // the whole first buffer is rejected
			if i < n+n/4 {
				b[i] = 255
			} else {
				b[i] = byte(r.Intn(256))
			}
		default:
			b[i] = byte(r.Intn(256))
		}
	}
	return b
}

func c12GenReq(r *rand.Rand, c *c12Case) c12Req {
	rq := c12Req{Method: c12Methods[r.Intn(len(c12Methods))]}
	if r.Intn(3) == 0 {
		rq.Method = []string{"POST", "PUT", "DELETE", "PATCH"}[r.Intn(4)]
	}
	locs := c12Locs(c.TokenLookup)
	cookieName := c12Eff(c.CookieName, "_csrf")
	tok := c12Token(r)
	hasCookie := false
	switch x := r.Intn(10); {
	case x < 6:
		rq.Cookies = append(rq.Cookies, [2]string{cookieName, tok})
		hasCookie = true
	case x < 7:
		tok = ""
		rq.Cookies = append(rq.Cookies, [2]string{cookieName, ""})
		hasCookie = true
	case x < 8: // only a look-alike cookie
		other := []string{"csrf", "_csrf", "_CSRF", "xsrf", "_csrf2"}[r.Intn(5)]
		if other != cookieName {
			rq.Cookies = append(rq.Cookies, [2]string{other, tok})
		}
	}
	if hasCookie && r.Intn(6) == 0 { // a second cookie of the same name: the first one counts
		rq.Cookies = append(rq.Cookies, [2]string{cookieName, c12Token(r)})
	}
	if r.Intn(5) == 0 {
		rq.Cookies = append([][2]string{{"session", "abc"}}, rq.Cookies...)
	}
	short := !hasCookie && r.Intn(25) == 0
	n1 := c.TokenLength
	if n1 == 0 {
		n1 = 32
	}
	n := n1
	if c.Extra != 0 {
		// room for the other consumers of the random source
		n += 40
		if c.Len2 == 0 {
			n += 32
		} else {
			n += c.Len2
		}
	}
	rq.Rnd = c12Rnd(r, n, short)
	if c.Extra != 0 && !short && r.Intn(12) == 0 {
		// enough for the first consumer or two, dry for a later one
		if cut := (n1+n1/4)*(1+r.Intn(2)) + r.Intn(45); cut < len(rq.Rnd) {
			rq.Rnd = rq.Rnd[:cut]
		}
	}
	if c.Skipper && r.Intn(4) == 0 || r.Intn(40) == 0 {
		rq.Headers = append(rq.Headers, [2]string{"X-Skip", []string{"1", "yes", "", "0"}[r.Intn(4)]})
	}
	if c.Extra != 0 && r.Intn(5) == 0 {
		rq.Headers = append(rq.Headers, [2]string{[]string{"X-Request-Id", "X-Request-ID", "x-request-id"}[r.Intn(3)], []string{"req-1", "", "abcDEF"}[r.Intn(3)]})
	}
	if c.Extra == 3 || c.Extra == 4 {
		// the second CSRF instance: its own cookie, its token at one of its own lookup locations
		in2 := c.instances()[1]
		tok2 := c12Token(r)
		switch x := r.Intn(10); {
		case x < 7:
			rq.Cookies = append(rq.Cookies, [2]string{in2.cookie, tok2})
		case x < 8 && hasCookie:
			// only the FIRST instance is satisfied: the second must still ask for its own cookie
		}
		v := tok2
		if r.Intn(4) == 0 {
			v = c12NearMiss(r, tok2)
		}
		locs2 := c12Locs(in2.lookup)
		if r.Intn(5) != 0 {
			l2 := locs2[r.Intn(len(locs2))]
			c12Place(r, c.Route, &rq, l2, v)
			if l2.kind == "form" && r.Intn(2) == 0 {
				rq.Method = []string{"POST", "PUT", "PATCH"}[r.Intn(3)]
			}
		}
	}
	if len(locs) == 0 {
		if r.Intn(2) == 0 {
			rq.Headers = append(rq.Headers, [2]string{"X-CSRF-Token", tok})
		}
		return rq
	}
	loc := locs[r.Intn(len(locs))]
	switch x := r.Intn(20); {
	case x < 6: // exact token at a configured location, possibly among other values
		pos := 0
		nvals := 1
		switch r.Intn(8) {
		case 0:
			nvals, pos = 3, r.Intn(3)
		case 1:
			nvals, pos = 20, 19 // last value inside the limit
		case 2:
			nvals, pos = 21, 20 // first value beyond the limit
		case 3:
			nvals, pos = 25, 19+r.Intn(6)
		}
		for k := 0; k < nvals; k++ {
			if k == pos {
				c12Place(r, c.Route, &rq, loc, tok)
			} else {
				c12Place(r, c.Route, &rq, loc, c12NearMiss(r, tok))
			}
		}
		if r.Intn(3) == 0 && len(locs) > 1 { // a wrong token at another configured location
			c12Place(r, c.Route, &rq, locs[r.Intn(len(locs))], c12NearMiss(r, tok))
		}
	case x < 11 && hasCookie && tok != "" && r.Intn(5) == 0:
		// the cookie holds %xx / + escapes; the client presents what the cookie DECODES to (another token)
		esc := "q%41" + tok[:len(tok)/2] + "+" + tok[len(tok)/2:] + "%7e"
		if dec, err := url.QueryUnescape(esc); err == nil && dec != esc {
			for k := range rq.Cookies {
				if rq.Cookies[k][0] == cookieName && rq.Cookies[k][1] == tok {
					rq.Cookies[k][1] = esc
					break
				}
			}
			c12Place(r, c.Route, &rq, loc, dec)
		}
	case x < 11: // near misses only
		k := 1 + r.Intn(3)
		for i := 0; i < k; i++ {
			c12Place(r, c.Route, &rq, locs[r.Intn(len(locs))], c12NearMiss(r, tok))
		}
	case x < 13: // nothing anywhere
	case x < 16: // the right token at a location that is NOT configured / not parsed
		sub := r.Intn(7)
		if (loc.kind == "param" || loc.kind == "cookie") && r.Intn(2) == 0 {
			sub = 0
		}
		switch sub {
		case 5, 6: // same name, other kind of location
			others := [][2]string{{"header", loc.name}, {"header", "X-" + loc.name}, {"query", loc.name}, {"form", loc.name}, {"cookie", loc.name}}
			for _, o := range others {
				if o[0] == loc.kind && o[1] == loc.name || r.Intn(2) == 0 {
					continue
				}
				configured := false
				for _, l2 := range locs {
					if l2.kind == o[0] && strings.EqualFold(l2.name, o[1]) || l2.kind == "form" && o[0] == "query" && l2.name == o[1] {
						configured = true
					}
				}
				if configured {
					continue
				}
				switch o[0] {
				case "header":
					rq.Headers = append(rq.Headers, [2]string{o[1], tok})
				case "query":
					rq.Query = append(rq.Query, [2]string{o[1], tok})
				case "form":
					rq.Form = append(rq.Form, [2]string{o[1], tok})
				case "cookie":
					if o[1] != cookieName {
						rq.Cookies = append(rq.Cookies, [2]string{o[1], tok})
					}
				}
			}
		case 0:
			rq.Query = append(rq.Query, [2]string{"CSRF", tok}, [2]string{"csrf_", tok})
			c12LookAlikes(c, &rq, loc, tok)
		case 1:
			rq.Headers = append(rq.Headers, [2]string{"X-CSRF-Token-2", tok}, [2]string{"X-CSRFToken", tok})
		case 2:
			rq.Form = append(rq.Form, [2]string{"Csrf", tok})
		case 3: // in the body of a request whose body net/http does not parse
			rq.Method = []string{"DELETE", "post", "CUSTOM", "Put"}[r.Intn(4)]
			rq.Form = append(rq.Form, [2]string{"csrf", tok}, [2]string{"_csrf", tok}, [2]string{"csrf2", tok})
		default: // prefix configured but absent / wrong
			// the cut-prefix of ANOTHER header source in front of the token at a header source without one
			for _, p := range locs {
				for _, u := range locs {
					if p.kind == "header" && p.pfx != "" && u.kind == "header" && u.pfx == "" {
						rq.Headers = append(rq.Headers, [2]string{u.name, p.pfx + tok})
					}
				}
			}
			if loc.kind == "header" && loc.pfx != "" {
				wrong := "X" + loc.pfx[1:] // same length, different first byte
				rq.Headers = append(rq.Headers, [2]string{loc.name, tok}, [2]string{loc.name, "Basic " + tok}, [2]string{loc.name, loc.pfx}, [2]string{loc.name, wrong + tok})
			} else {
				rq.Headers = append(rq.Headers, [2]string{"Cookie2", tok})
			}
		}
	case x < 17: // the client presents the token the random source is about to produce
		if !hasCookie {
			rq.GuessFresh = loc.kind + ":" + loc.name
			if loc.pfx != "" {
				rq.GuessFresh += ":" + loc.pfx
			}
			if loc.kind == "form" {
				rq.Method = "POST"
			}
		} else {
			c12Place(r, c.Route, &rq, loc, tok)
		}
	default: // exact, simplest form
		c12Place(r, c.Route, &rq, loc, tok)
		if loc.kind == "form" && r.Intn(2) == 0 {
			rq.Method = []string{"POST", "PUT", "PATCH"}[r.Intn(3)]
		}
	}
	if r.Intn(6) == 0 {
		rq.Headers = append(rq.Headers, [2]string{"X-Requested-With", "XMLHttpRequest"})
	}
	if r.Intn(4) == 0 {
		rq.H = 1 + r.Intn(5)
	}
	if strings.Contains(c.TokenLookup, "form:") && r.Intn(3) == 0 || r.Intn(30) == 0 {
		// the body as multipart/form-data: parsed whatever the method
		rq.Multipart = true
		if r.Intn(2) == 0 {
			rq.Method = []string{"DELETE", "POST", "PUT", "CUSTOM", "delete"}[r.Intn(5)]
		}
	}
	if r.Intn(8) == 0 {
		rq.Query = append(rq.Query, [2]string{"page", "2"})
	}
	return rq
}

var c12Lengths = []int{0, 1, 2, 3, 4, 5, 7, 8, 31, 32, 33, 64, 100, 127, 128, 200, 203, 204, 205, 206, 207, 208, 254, 255}

func c12Gen(r *rand.Rand, tier string) []any {
	n := 2500
	if tier == "thorough" {
		n = 30000
	}
	var out []any
	for i := 0; i < n; i++ {
		c := &c12Case{}
		if r.Intn(12) == 0 {
			// the convenience constructor CSRF(): no configuration at all
			c.Ctor = 1
		} else {
			switch r.Intn(4) {
			case 0:
				c.TokenLength = 0
			case 1:
				c.TokenLength = 1 + r.Intn(255)
			default:
				c.TokenLength = c12Lengths[r.Intn(len(c12Lengths))]
			}
			c.TokenLookup = c12Lookups[r.Intn(len(c12Lookups))]
			switch x := r.Intn(50); {
			case x < 2:
				c.TokenLookup = c12OddLookups[r.Intn(len(c12OddLookups))]
			case x < 8:
				c.TokenLookup = c12ParamCookieLookups[r.Intn(len(c12ParamCookieLookups))]
			}
			c.CookieName = []string{"", "_csrf", "csrf", "XSRF-TOKEN"}[r.Intn(4)]
			c.ContextKey = []string{"", "csrf", "tok"}[r.Intn(3)]
			if r.Intn(3) == 0 {
				c.ErrorHandler = 1 + r.Intn(2)
			}
			if r.Intn(3) == 0 {
				c.CookiePath = []string{"", "/", "/app", "/a/b"}[r.Intn(4)]
				c.CookieDomain = []string{"", "example.com", "sub.example.org"}[r.Intn(3)]
				c.CookieMaxAge = []int{0, 1, 60, 3600, 86400, 86401, 31536000}[r.Intn(7)]
				c.CookieSecure = r.Intn(3) == 0
				c.CookieHTTPOnly = r.Intn(3) == 0
				c.CookieSameSite = r.Intn(5)
			}
			c.Skipper = r.Intn(7) == 0
			if r.Intn(10) == 0 {
				c.Ctor = 2
			}
		}
		if r.Intn(4) == 0 {
			c.Extra = 1 + r.Intn(4)
			c.Len2 = []int{0, 1, 8, 32, 33, 64, 204, 205, 255}[r.Intn(9)]
			if c.Extra >= 3 {
				c.Inst2 = r.Intn(5)
				if c.Inst2 != 0 && r.Intn(2) == 0 {
					c.ContextKey = "" // both instances on the default key
				}
			}
		}
		c.PreSet = r.Intn(12) == 0
		c.AppCookies = r.Intn(6) == 0
		if strings.Contains(c.TokenLookup, "param:") || r.Intn(30) == 0 {
			c.Route = c12Routes[r.Intn(len(c12Routes))]
			if strings.Contains(c.TokenLookup, "param:t") && !strings.Contains(c.TokenLookup, "param:tok") && r.Intn(2) == 0 {
				c.Route = nil
				for k := 0; k < 22; k++ {
					c.Route = append(c.Route, "t") // more same-named parameters than the extractor limit
				}
			}
		}
		if r.Intn(3) == 0 {
			c.Mount = 1 + r.Intn(4)
		}
		k := 1 + r.Intn(3)
		if r.Intn(8) == 0 {
			k = 4
		}
		for j := 0; j < k; j++ {
			c.Reqs = append(c.Reqs, c12GenReq(r, c))
		}
		if len(c.Reqs) > 1 && r.Intn(6) == 0 {
			c12CarryOver(r, c)
		}
		if i%60 == 59 {
			// the real random source: several cookie-less requests, oracle only
			c.RealRandom = true
			for j := range c.Reqs {
				c.Reqs[j].GuessFresh = ""
				c.Reqs[j].Rnd = nil
			}
			for j := 0; j < 3; j++ {
				c.Reqs = append(c.Reqs, c12Req{Method: []string{"GET", "HEAD", "POST"}[r.Intn(3)]})
			}
		}
		out = append(out, c)
	}
	nconc := 12
	if tier == "thorough" {
		nconc = 150
	}
	for i := 0; i < nconc; i++ {
		out = append(out, c12GenConc(r, tier == "thorough" && i%3 == 0))
	}
	// appended after everything else: the cases above are the same as before for a given seed
	ncross := 150
	if tier == "thorough" {
		ncross = 1800
	}
	for i := 0; i < ncross; i++ {
		out = append(out, c12GenCrossKind(r))
	}
	// round 8, drawn after everything else (the cases above keep their shape for a given seed): a third of all
	// requests additionally carry 1-3 ambient facts that say something about where the request comes from
	// or what kind of client sent it.  None of them is a configured lookup location, so none of them may change
	// what the CSRF instances decide.
	for _, ci := range out {
		c := ci.(*c12Case)
		if c.Conc > 0 {
			continue
		}
		for j := range c.Reqs {
			if r.Intn(3) == 0 {
				c12Ambient(r, c, &c.Reqs[j])
			}
		}
	}
	// round 9, drawn after everything else (all cases above keep their shape for a given seed): the extractor limit
	nlimit := 320
	if tier == "thorough" {
		nlimit = 4000
	}
	for i := 0; i < nlimit; i++ {
		out = append(out, c12GenLimit(r, i))
	}
	return out
}

// c12LimitLookups: one lookup string per extractor that has limit logic of its own (header without / with cut-prefix,
// query, form, param, cookie), then pairs in which the source under load stands before or after another source
// (form + query of the SAME name: Request.Form also holds the query values)
var c12LimitLookups = []string{"header:X-CSRF-Token", "header:X-Tok:tok-", "query:csrf", "form:csrf", "form:csrf", "param:t", "cookie:tokc",
	"form:csrf,header:X-CSRF-Token", "header:X-CSRF-Token,form:csrf", "query:csrf,form:tok", "form:tok,query:csrf",
	"header:X-CSRF-Token,query:csrf", "form:csrf,query:csrf", "query:csrf,form:csrf", "header:X-Tok:tok-,header:X-Tok"}

// c12GenLimit: the number of values a lookup location holds is AT the extractor limit (20) or next to it.
// Every request puts n values (n mostly 18..22, sometimes 1, 2, 15..17, 23 or around the next slice-capacity steps 31..33)
// under the name of ONE source of the lookup string; the CSRF cookie is empty, 1-2 bytes long, ordinary or (rarely) absent;
// the cookie's token is at none of the positions, or at exactly one: the first, the last, or one of 17..21 (the last
// position inside the limit is 19, the first one beyond it 20).  All other values are near misses; in half of the
// requests none of them is empty (so that an empty cookie token is matched by nothing the client sent).  Form values
// travel as urlencoded body, in the query, split over both, as multipart body, or split over query and multipart body.
func c12GenLimit(r *rand.Rand, idx int) *c12Case {
	c := &c12Case{TokenLookup: c12LimitLookups[idx%len(c12LimitLookups)]}
	c.CookieName = []string{"", "_csrf", "XSRF-TOKEN"}[r.Intn(3)]
	c.TokenLength = []int{0, 8, 32}[r.Intn(3)]
	if r.Intn(4) == 0 {
		c.ErrorHandler = 1 + r.Intn(2)
	}
	if r.Intn(5) == 0 {
		c.Mount = 1 + r.Intn(4)
	}
	locs := c12Locs(c.TokenLookup)
	name := c12Eff(c.CookieName, "_csrf")
	counts := []int{18, 19, 20, 21, 22}
	nreq := 1 + r.Intn(2)
	ns := make([]int, nreq)
	for j := range ns {
		ns[j] = counts[r.Intn(len(counts))]
		if r.Intn(6) == 0 {
			ns[j] = []int{1, 2, 15, 16, 17, 23, 31, 32, 33}[r.Intn(9)]
		}
	}
	hasParam := false
	for _, l := range locs {
		if l.kind == "param" {
			hasParam = true
		}
	}
	if hasParam {
		// one route for all requests of the case: n path parameters named t, in a third of the cases behind another one
		// (the extractor counts positions among ALL parameters)
		nreq, ns = 1, ns[:1]
		if r.Intn(3) == 0 {
			c.Route = append(c.Route, "id")
		}
		for k := 0; k < ns[0]; k++ {
			c.Route = append(c.Route, "t")
		}
	}
	for j := 0; j < nreq; j++ {
		n := ns[j]
		rq := c12Req{Method: []string{"POST", "POST", "PUT", "PATCH", "DELETE", "CUSTOM", "post"}[r.Intn(7)]}
		tok := c12Token(r)
		cookieMode := (idx/len(c12LimitLookups) + j) % 3
		switch {
		case r.Intn(12) == 0: // no cookie at all
			cookieMode = 3
		case cookieMode == 0:
			tok = ""
		case cookieMode == 1:
			tok = tok[:1+r.Intn(2)%len(tok)]
		}
		if r.Intn(10) == 0 {
			rq.Method = []string{"GET", "HEAD", "get", "OPTIONS"}[r.Intn(4)]
		}
		loc := locs[r.Intn(len(locs))]
		// position of the exact token among the n values; -1 = nowhere
		pos := -1
		if r.Intn(5) >= 2 {
			cand := []int{0, n - 1, 17, 18, 19, 19, 20, 20, 21}
			if p := cand[r.Intn(len(cand))]; p < n {
				pos = p
			}
		}
		noEmpty := r.Intn(2) == 0
		vals := make([]string, n)
		for k := range vals {
			if k == pos {
				vals[k] = tok
				continue
			}
			v := c12NearMiss(r, tok)
			for tries := 0; (v == tok || noEmpty && v == "") && tries < 8; tries++ {
				v = c12NearMiss(r, tok)
			}
			if v == tok || noEmpty && v == "" {
				v = tok + "x"
			}
			vals[k] = v
		}
		csrfCookie := func() {
			if cookieMode != 3 {
				rq.Cookies = append(rq.Cookies, [2]string{name, tok})
			}
		}
		cookieFirst := loc.kind != "cookie" || r.Intn(2) == 0
		if cookieFirst {
			csrfCookie()
		}
		switch loc.kind {
		case "form":
			// how the n values reach Request.Form: 0 urlencoded body, 1 query, 2 urlencoded body then query (net/http puts
			// the body's values first), 3 multipart body, 4 query then multipart body (the query's values come first)
			mode := r.Intn(5)
			a := n
			if mode == 2 || mode == 4 {
				a = []int{1, n / 2, n - 1, 19, 20}[r.Intn(5)]
				if a >= n || a < 1 {
					a = n / 2
				}
			}
			for k, v := range vals {
				inBody := mode == 0 || mode == 3 || mode == 2 && k < a || mode == 4 && k >= a
				if inBody {
					rq.Form = append(rq.Form, [2]string{loc.name, v})
				} else {
					rq.Query = append(rq.Query, [2]string{loc.name, v})
				}
			}
			rq.Multipart = mode >= 3
			if (mode == 0 || mode == 2) && !c12IsSafe(rq.Method) && r.Intn(10) != 0 {
				rq.Method = []string{"POST", "PUT", "PATCH"}[r.Intn(3)] // the methods whose urlencoded body net/http parses
			}
		default:
			for _, v := range vals {
				c12Place(r, c.Route, &rq, loc, v)
			}
		}
		if !cookieFirst {
			csrfCookie()
		}
		if len(locs) > 1 && r.Intn(4) == 0 {
			// something at the other source as well: a near miss, or (a third) the exact token
			other := locs[r.Intn(len(locs))]
			if other != loc && other.kind != "param" {
				v := c12NearMiss(r, tok)
				if r.Intn(3) == 0 {
					v = tok
				}
				c12Place(r, c.Route, &rq, other, v)
			}
		}
		rq.Rnd = c12Rnd(r, 32, false)
		c.Reqs = append(c.Reqs, rq)
	}
	return c
}

// c12AmbientHeaders: request headers with well-known values by which a browser, a proxy, a framework or a client
// library describes the request: fetch metadata, origin, AJAX markers, content negotiation, credentials of
// another scheme, forwarding, method override, protocol upgrade, prefetch, explicit opt-outs of other frameworks
var c12AmbientHeaders = [][]string{
	{"Sec-Fetch-Site", "same-origin", "same-origin", "same-site", "none", "cross-site", "Same-Origin", "same-origin, cross-site"},
	{"Sec-Fetch-Mode", "navigate", "cors", "same-origin", "no-cors", "websocket"},
	{"Sec-Fetch-Dest", "document", "empty", "iframe"},
	{"Sec-Fetch-User", "?1"},
	{"Origin", "http://example.com", "https://example.com", "null", "http://localhost", "http://evil.example", "http://example.com:80"},
	{"Referer", "http://example.com/form", "https://example.com/", "http://localhost/", "http://evil.example/example.com"},
	{"X-Requested-With", "XMLHttpRequest", "fetch", "xmlhttprequest"},
	{"Accept", "application/json", "text/html", "*/*"},
	{"Authorization", "Bearer abc.def.ghi", "Basic dXNlcjpwYXNz", "Token t0k3n"},
	{"X-Api-Key", "k-1234567890"},
	{"X-Forwarded-For", "127.0.0.1", "::1", "10.0.0.1, 127.0.0.1"},
	{"X-Real-Ip", "127.0.0.1", "::1"},
	{"X-Forwarded-Proto", "https", "http"},
	{"X-Forwarded-Host", "example.com", "localhost"},
	{"Forwarded", "for=127.0.0.1;proto=https;host=example.com"},
	{"X-Http-Method-Override", "GET", "HEAD", "OPTIONS", "get"},
	{"X-Method-Override", "GET"},
	{"X-Http-Method", "GET"},
	{"Upgrade", "websocket", "h2c"},
	{"Connection", "Upgrade", "close", "keep-alive"},
	{"User-Agent", "curl/8.5.0", "Go-http-client/1.1", "kube-probe/1.29", "Mozilla/5.0 (X11; Linux x86_64)", "GoogleHC/1.0", ""},
	{"Purpose", "prefetch"},
	{"Sec-Purpose", "prefetch;prerender"},
	{"Access-Control-Request-Method", "POST", "GET"},
	{"Csrf-Token", "nocheck"},
	{"X-Csrf-Exempt", "1", "true"},
	{"X-No-Csrf", "1"},
	{"X-Internal-Request", "1", "true"},
	{"X-Debug", "1"},
	{"Cache-Control", "no-cache", "max-age=0"},
	{"If-None-Match", "*"},
	{"Expect", "100-continue"},
	{"Te", "trailers"},
	{"Dnt", "1"},
	{"Sec-Gpc", "1"},
}

// c12Ambient adds 1-3 ambient facts to a request (see c12Gen).  Content-Type is only touched when the request has
// no body of its own (the body's own type decides what net/http parses); X-Request-Id and X-Skip are left alone
// (RequestID() and the configured Skipper read them).
func c12Ambient(r *rand.Rand, c *c12Case, rq *c12Req) {
	if !c12IsSafe(rq.Method) && r.Intn(4) == 0 {
		// a method override towards a safe method (header, query or body style): the request's method stays what it is
		m := []string{"GET", "HEAD", "OPTIONS", "TRACE", "get"}[r.Intn(5)]
		switch r.Intn(5) {
		case 0:
			rq.Query = append(rq.Query, [2]string{"_method", m})
		case 1:
			if len(rq.Form) > 0 {
				rq.Form = append(rq.Form, [2]string{"_method", m})
			}
		default:
			rq.Headers = append(rq.Headers, [2]string{[]string{"X-HTTP-Method-Override", "X-Method-Override", "X-HTTP-Method"}[r.Intn(3)], m})
		}
	}
	for k, n := 0, 1+r.Intn(3); k < n; k++ {
		switch x := r.Intn(20); {
		case x < 3:
			// the coherent picture a browser gives of a same-origin request (scheme and host as the request has them)
			scheme, host := "http", c12Eff(rq.Host, "example.com")
			if rq.TLS || r.Intn(3) == 0 {
				rq.TLS = true
				scheme = "https"
			}
			for _, h := range [][2]string{{"Origin", scheme + "://" + host}, {"Referer", scheme + "://" + host + []string{"/", "/form", "/p/x?y=1"}[r.Intn(3)]},
				{"Sec-Fetch-Site", "same-origin"}, {"Sec-Fetch-Mode", []string{"navigate", "cors", "same-origin"}[r.Intn(3)]}, {"Sec-Fetch-Dest", "document"}} {
				if r.Intn(3) != 0 {
					rq.Headers = append(rq.Headers, h)
				}
			}
		case x < 12:
			h := c12AmbientHeaders[r.Intn(len(c12AmbientHeaders))]
			if x < 5 {
				h = c12AmbientHeaders[r.Intn(8)] // what a browser says about the origin, most often
			}
			name := h[0]
			if r.Intn(6) == 0 {
				name = strings.ToLower(name)
			}
			rq.Headers = append(rq.Headers, [2]string{name, h[1+r.Intn(len(h)-1)]})
		case x == 12:
			if len(rq.Form) == 0 && !rq.Multipart {
				rq.Headers = append(rq.Headers, [2]string{"Content-Type", []string{"application/json", "application/json; charset=utf-8", "text/plain", "application/octet-stream", "application/x-www-form-urlencoded"}[r.Intn(5)]})
			}
		case x == 13:
			q := [][2]string{{"_method", "GET"}, {"_method", "HEAD"}, {"method", "get"}, {"csrf_exempt", "1"}, {"nocheck", "true"}, {"debug", "1"}, {"format", "json"}, {"callback", "cb"}}
			rq.Query = append(rq.Query, q[r.Intn(len(q))])
		case x == 14:
			if len(rq.Form) > 0 {
				f := [][2]string{{"_method", "GET"}, {"_method", "PUT"}, {"csrf_exempt", "1"}, {"_csrf_skip", "1"}}
				rq.Form = append(rq.Form, f[r.Intn(len(f))])
			}
		case x == 15:
			ck := [][2]string{{"csrf_exempt", "1"}, {"session", "s3ss10n"}, {"logged_in", "yes"}, {"remember_me", "1"}, {"debug", "1"}}
			n := ck[r.Intn(len(ck))]
			if !c12IsInstCookie(c, n[0]) {
				rq.Cookies = append(rq.Cookies, n)
			}
		case x == 16:
			rq.Host = []string{"localhost", "127.0.0.1", "localhost:8080", "[::1]:8080", "example.com:443", "EXAMPLE.COM", "internal"}[r.Intn(7)]
			if r.Intn(2) == 0 {
				rq.Headers = append(rq.Headers, [2]string{"Origin", "http://" + rq.Host})
			}
		case x == 17:
			rq.Remote = []string{"127.0.0.1:5000", "[::1]:5000", "10.0.0.1:40000", "@"}[r.Intn(4)]
		case x == 18:
			rq.TLS = true
			if r.Intn(2) == 0 {
				rq.Headers = append(rq.Headers, [2]string{"Origin", "https://example.com"})
			}
		default:
			rq.Proto = []string{"HTTP/1.0", "HTTP/2.0"}[r.Intn(2)]
		}
	}
}

// c12GenCrossKind: sources of DIFFERENT kinds and different names in one lookup string, in every order, and the
// cookie's token under the NAME of one configured source but at the KIND of location of another one (the query
// parameter's name as a body field, the form field's name as a header, the header's name in the query ...): not a
// configured lookup location, whatever an earlier source of the chain has parsed.  The body is one net/http parses
// (POST/PUT/PATCH urlencoded, or multipart with any method) in most cases.  A third of the cases stack the second
// CSRF instance (lookup header:X-Csrf2,query:csrf2) behind a first one that is satisfied through its form source:
// the second instance's token is then presented as a BODY field csrf2.
func c12GenCrossKind(r *rand.Rand) *c12Case {
	lookups := []string{"form:tok,query:csrf", "query:csrf,form:tok", "form:tok,header:X-CSRF-Token,query:csrf",
		"header:X-CSRF-Token,form:f,query:q", "form:a,form:b,query:c", "query:q,header:X-Tok:tok-,form:f", "form:f,query:q,header:X-CSRF-Token"}
	c := &c12Case{TokenLookup: lookups[r.Intn(len(lookups))]}
	c.CookieName = []string{"", "_csrf", "XSRF-TOKEN"}[r.Intn(3)]
	c.TokenLength = []int{0, 8, 32}[r.Intn(3)]
	two := r.Intn(3) == 0
	if two {
		c.Extra, c.Inst2, c.Len2 = 3, 0, 32
	}
	if r.Intn(4) == 0 {
		c.Mount = 1 + r.Intn(4)
	}
	locs := c12Locs(c.TokenLookup)
	name := c12Eff(c.CookieName, "_csrf")
	put := func(rq *c12Req, kind, n, v string) {
		switch kind {
		case "header":
			rq.Headers = append(rq.Headers, [2]string{n, v})
		case "query":
			rq.Query = append(rq.Query, [2]string{n, v})
		case "form":
			rq.Form = append(rq.Form, [2]string{n, v})
		}
	}
	for j, n := 0, 1+r.Intn(3); j < n; j++ {
		tok := c12Token(r)
		rq := c12Req{Method: []string{"POST", "POST", "PUT", "PATCH", "DELETE", "CUSTOM"}[r.Intn(6)]}
		rq.Cookies = [][2]string{{name, tok}}
		rq.Rnd = c12Rnd(r, 104, false)
		rq.Multipart = r.Intn(3) == 0
		if two {
			// the first instance is satisfied (through a form source where there is one, so that the body has been
			// parsed when the second instance runs); the second instance's token sits in the body under the name of
			// its QUERY source, or (a quarter) properly in its header
			var forms []c12Loc
			for _, l := range locs {
				if l.kind == "form" {
					forms = append(forms, l)
				}
			}
			l := locs[r.Intn(len(locs))]
			if len(forms) > 0 && r.Intn(4) != 0 {
				l = forms[r.Intn(len(forms))]
			}
			put(&rq, l.kind, l.name, l.pfx+tok)
			tok2 := c12Token(r)
			rq.Cookies = append(rq.Cookies, [2]string{"_csrf2", tok2})
			if r.Intn(4) == 0 {
				put(&rq, "header", "X-Csrf2", tok2)
			} else {
				put(&rq, "form", "csrf2", tok2)
				if r.Intn(2) == 0 {
					put(&rq, "query", "csrf2", c12NearMiss(r, tok2))
				}
			}
			c.Reqs = append(c.Reqs, rq)
			continue
		}
		for tries := 0; tries < 1+r.Intn(2); tries++ {
			a := locs[r.Intn(len(locs))]
			kind := []string{"header", "query", "form", "form"}[r.Intn(4)]
			// not where the name IS configured (Request.Form also holds the query values: a form source's name in the
			// query is a configured location)
			if kind == a.kind || c12Configured(c, kind, a.name) || kind == "query" && c12Configured(c, "form", a.name) {
				continue
			}
			put(&rq, kind, a.name, a.pfx+tok)
		}
		if r.Intn(2) == 0 {
			c12Place(r, nil, &rq, locs[r.Intn(len(locs))], c12NearMiss(r, tok))
		}
		if r.Intn(3) == 0 {
			// what a browser says about the origin of the request: none of it stands in for the token
			rq.Headers = append(rq.Headers, [2]string{"Sec-Fetch-Site", []string{"same-origin", "same-origin", "same-site", "none", "cross-site"}[r.Intn(5)]})
			if r.Intn(2) == 0 {
				rq.Headers = append(rq.Headers, [2]string{"Origin", "http://example.com"}, [2]string{"Referer", "http://example.com/form"}, [2]string{"Sec-Fetch-Mode", "cors"})
			}
		}
		c.Reqs = append(c.Reqs, rq)
	}
	return c
}

// c12CarryOver: state carried from one request to the next.  Request j+1 gets, as its CSRF cookie, a
// token that request j presented at a lookup location (or request j's cookie token), and presents nothing
// itself: whatever an earlier request showed must not validate a later one.
func c12CarryOver(r *rand.Rand, c *c12Case) {
	name := c12Eff(c.CookieName, "_csrf")
	for j := 0; j+1 < len(c.Reqs); j++ {
		prev := &c.Reqs[j]
		tok := ""
		for _, l := range c12Locs(c.TokenLookup) {
			var pairs [][2]string
			switch l.kind {
			case "header":
				pairs = prev.Headers
			case "query":
				pairs = prev.Query
			case "form":
				pairs = prev.Form
			}
			for _, p := range pairs {
				if strings.EqualFold(p[0], l.name) && len(p[1]) > len(l.pfx) {
					tok = p[1][len(l.pfx):]
				}
			}
		}
		if tok == "" {
			for _, ck := range prev.Cookies {
				if ck[0] == name {
					tok = ck[1]
				}
			}
		}
		if tok == "" {
			continue
		}
		next := &c.Reqs[j+1]
		next.GuessFresh = ""
		next.Method = []string{"POST", "PUT", "DELETE", "PATCH"}[r.Intn(4)]
		next.Cookies = [][2]string{{name, tok}}
		next.Headers, next.Query, next.Form, next.PathVals = nil, nil, nil, nil
		if c.Skipper && r.Intn(2) == 0 {
			prev.Headers = append(prev.Headers, [2]string{"X-Skip", "1"})
		}
	}
}

// c12LookAlikes puts the token under names that look like the configured one (longer, shorter, other
// case) at the same kind of location: none of them is a configured lookup location
func c12LookAlikes(c *c12Case, rq *c12Req, loc c12Loc, tok string) {
	names := []string{loc.name + "2", loc.name + "_", "x" + loc.name, strings.ToUpper(loc.name), strings.ToLower(loc.name), c12SwapCase(loc.name)}
	if len(loc.name) > 1 {
		names = append(names, loc.name[:len(loc.name)-1])
	}
	switch loc.kind {
	case "param":
		// under every path parameter whose name is NOT the configured one
		if c12PathSafe(tok) {
			rq.PathVals = nil
			for _, n := range c.Route {
				if n == loc.name {
					rq.PathVals = append(rq.PathVals, "x")
				} else {
					rq.PathVals = append(rq.PathVals, tok)
				}
			}
		}
	case "cookie":
		csrfCookie := c12Eff(c.CookieName, "_csrf")
		for _, n := range names {
			if n != loc.name && n != csrfCookie && !c12IsInstCookie(c, n) {
				rq.Cookies = append(rq.Cookies, [2]string{n, tok})
			}
		}
	case "query":
		for _, n := range names {
			if n != loc.name && !c12Configured(c, "query", n) && !c12Configured(c, "form", n) {
				rq.Query = append(rq.Query, [2]string{n, tok})
			}
		}
	case "form":
		for _, n := range names {
			if n != loc.name && !c12Configured(c, "form", n) {
				rq.Form = append(rq.Form, [2]string{n, tok})
			}
		}
	case "header":
		for _, n := range names[:3] { // header names are case-insensitive
			if !c12Configured(c, "header", n) {
				rq.Headers = append(rq.Headers, [2]string{n, loc.pfx + tok})
			}
		}
	}
}

func c12IsInstCookie(c *c12Case, n string) bool {
	for _, in := range c.instances() {
		if in.cookie == n {
			return true
		}
	}
	return false
}

// c12Configured: the lookup string (of either CSRF instance) names this location
func c12Configured(c *c12Case, kind, name string) bool {
	for _, l := range append(c12Locs(c.TokenLookup), c12Loc{kind: "header", name: "X-Csrf2"}, c12Loc{kind: "query", name: "csrf2"},
		c12Loc{kind: "form", name: "admin_csrf"}, c12Loc{kind: "query", name: "admin_csrf"}) {
		if l.kind == kind && (l.name == name || kind == "header" && strings.EqualFold(l.name, name)) {
			return true
		}
	}
	return false
}

// c12Mutate: neighbours for the failing-input search around a model/implementation disagreement:
// the same requests with a non-empty CSRF cookie, an unsafe standard method, without client tokens
func c12Mutate(r *rand.Rand, ci any) []any {
	c := ci.(*c12Case)
	var out []any
	name := c12Eff(c.CookieName, "_csrf")
	for i := range c.Reqs {
		variant := func(f func(*c12Req)) {
			d := *c
			d.Reqs = append([]c12Req(nil), c.Reqs...)
			nr := d.Reqs[i]
			nr.Cookies = append([][2]string(nil), nr.Cookies...)
			nr.Headers = append([][2]string(nil), nr.Headers...)
			f(&nr)
			d.Reqs[i] = nr
			out = append(out, &d)
		}
		setCookie := func(n *c12Req) {
			for k := range n.Cookies {
				if n.Cookies[k][0] == name {
					n.Cookies[k][1] = "MutatedCookieTokenABCDEFGHIJKLMN"
					return
				}
			}
			n.Cookies = append(n.Cookies, [2]string{name, "MutatedCookieTokenABCDEFGHIJKLMN"})
		}
		variant(setCookie)
		// the EMPTY cookie token (a zero value that leaks into the extracted values would equal it)
		variant(func(n *c12Req) {
			n.Method = "POST"
			for k := range n.Cookies {
				if n.Cookies[k][0] == name {
					n.Cookies[k][1] = ""
					return
				}
			}
			n.Cookies = append(n.Cookies, [2]string{name, ""})
		})
		variant(func(n *c12Req) { setCookie(n); n.Method = "POST" })
		variant(func(n *c12Req) { n.Method = "POST" })
		variant(func(n *c12Req) { setCookie(n); n.Method = "POST"; n.Query, n.Form = nil, nil })
		variant(func(n *c12Req) {
			setCookie(n)
			for k := range n.Headers {
				n.Headers[k][1] += "x"
			}
		})
		for _, p := range c12Locs(c.TokenLookup) {
			for _, u := range c12Locs(c.TokenLookup) {
				if p.kind == "header" && p.pfx != "" && u.kind == "header" && u.pfx == "" {
					p, u := p, u
					// another source's cut-prefix in front of the token, at a header source without one
					variant(func(n *c12Req) {
						setCookie(n)
						n.Method = "POST"
						n.Query, n.Form = nil, nil
						n.Headers = [][2]string{{u.name, p.pfx + "MutatedCookieTokenABCDEFGHIJKLMN"}}
					})
				}
			}
		}
		for _, loc := range c12Locs(c.TokenLookup) {
			loc := loc
			variant(func(n *c12Req) {
				setCookie(n)
				n.Method = "POST"
				n.Query = append([][2]string(nil), n.Query...)
				n.Form = append([][2]string(nil), n.Form...)
				c12LookAlikes(c, n, loc, "MutatedCookieTokenABCDEFGHIJKLMN")
			})
		}
	}
	return out
}

func c12Shrink(ci any) []any {
	c := ci.(*c12Case)
	var out []any
	with := func(reqs []c12Req) *c12Case {
		d := *c
		d.Reqs = reqs
		return &d
	}
	for i := range c.Reqs {
		if len(c.Reqs) > 1 {
			out = append(out, with(append(append([]c12Req(nil), c.Reqs[:i]...), c.Reqs[i+1:]...)))
		}
	}
	dropPair := func(l [][2]string, k int) [][2]string {
		return append(append([][2]string(nil), l[:k]...), l[k+1:]...)
	}
	for i, rq := range c.Reqs {
		edit := func(f func(*c12Req)) {
			reqs := append([]c12Req(nil), c.Reqs...)
			nr := rq
			f(&nr)
			reqs[i] = nr
			out = append(out, with(reqs))
		}
		for k := range rq.Headers {
			k := k
			edit(func(n *c12Req) { n.Headers = dropPair(rq.Headers, k) })
		}
		for k := range rq.Query {
			k := k
			edit(func(n *c12Req) { n.Query = dropPair(rq.Query, k) })
		}
		for k := range rq.Form {
			k := k
			edit(func(n *c12Req) { n.Form = dropPair(rq.Form, k) })
		}
		for k := range rq.Cookies {
			k := k
			if len(rq.Cookies) > 1 {
				edit(func(n *c12Req) { n.Cookies = dropPair(rq.Cookies, k) })
			}
		}
		if len(rq.Rnd) > 8 && len(rq.Cookies) > 0 {
			edit(func(n *c12Req) { n.Rnd = nil })
		}
		if rq.Host != "" || rq.Remote != "" || rq.TLS || rq.Proto != "" {
			edit(func(n *c12Req) { n.Host, n.Remote, n.TLS, n.Proto = "", "", false, "" })
		}
	}
	if c.ContextKey != "" {
		d := *c
		d.ContextKey = ""
		out = append(out, &d)
	}
	if c.Extra != 0 {
		d := *c
		d.Extra = 0
		out = append(out, &d)
		if c.Extra > 1 {
			d2 := *c
			d2.Extra = 1
			out = append(out, &d2)
		}
	}
	if c.Skipper {
		d := *c
		d.Skipper = false
		out = append(out, &d)
	}
	if c.Mount != 0 {
		d := *c
		d.Mount = 0
		out = append(out, &d)
	}
	if c.PreSet {
		d := *c
		d.PreSet = false
		out = append(out, &d)
	}
	if c.Ctor == 2 {
		d := *c
		d.Ctor = 0
		out = append(out, &d)
	}
	if c.AppCookies {
		d := *c
		d.AppCookies = false
		out = append(out, &d)
	}
	for i, rq := range c.Reqs {
		if rq.H != 0 {
			d := *c
			d.Reqs = append([]c12Req(nil), c.Reqs...)
			d.Reqs[i].H = 0
			out = append(out, &d)
		}
	}
	if c.Conc > 0 {
		return nil // schedule dependent: keep the case as generated
	}
	if c.CookiePath != "" || c.CookieDomain != "" || c.CookieMaxAge != 0 || c.CookieSecure || c.CookieHTTPOnly || c.CookieSameSite != 0 {
		d := *c
		d.CookiePath, d.CookieDomain, d.CookieMaxAge, d.CookieSecure, d.CookieHTTPOnly, d.CookieSameSite = "", "", 0, false, false, 0
		out = append(out, &d)
	}
	if len(c.Route) > 0 && !strings.Contains(c.TokenLookup, "param:") {
		d := *c
		d.Route = nil
		d.Reqs = append([]c12Req(nil), c.Reqs...)
		for i := range d.Reqs {
			d.Reqs[i].PathVals = nil
		}
		out = append(out, &d)
	}
	if c.ErrorHandler != 0 {
		d := *c
		d.ErrorHandler = 0
		out = append(out, &d)
	}
	return out
}

// ---------- model drift outside the property (Tolerable) ----------
//
// The observation line carries more than C12 states.  C12 constrains, per request: whether the handler ran;
// that a refusal is a 4xx; for a passed request and every CSRF instance in front of the handler that a Set-Cookie
// with the instance's cookie name is there, that its value is the request cookie's token (or, without request
// cookie, TokenLength ASCII letters) and that the handler finds that very token under the ContextKey.  It says
// nothing about: which 4xx refuses; the cookie's attributes (Path, Domain, expiry, Secure, HttpOnly, SameSite);
// WHICH letters a fresh token consists of (the model replays randomString on the injected byte stream, the
// property only fixes length and alphabet); the X-Request-Id another middleware writes; Set-Cookie lines of the
// application; what the helper CreateExtractors returns for a string; and it is quantified over TokenLookup
// strings made of header / form / query sources only.

// side table of the last Run of a case: (request, instance) pairs whose Set-Cookie was an expired one
var (
	c12ExpiredMu sync.Mutex
	c12Expired   = map[*c12Case]map[[2]int]bool{}
)

func c12NoteExpired(c *c12Case, req, inst int) {
	c12ExpiredMu.Lock()
	defer c12ExpiredMu.Unlock()
	if c12Expired[c] == nil {
		c12Expired[c] = map[[2]int]bool{}
	}
	c12Expired[c][[2]int{req, inst}] = true
}

func c12ForgetExpired(c *c12Case) {
	c12ExpiredMu.Lock()
	defer c12ExpiredMu.Unlock()
	delete(c12Expired, c)
}

func c12WasExpired(c *c12Case, req, inst int) bool {
	c12ExpiredMu.Lock()
	defer c12ExpiredMu.Unlock()
	return c12Expired[c][[2]int{req, inst}]
}

type c12PItem struct {
	rid   bool
	sc    string // "<none>" or the wire string of the Set-Cookie value
	ct    string // "<none>" or the wire string of the context value
	attrs [6]string
}

type c12PReq struct {
	kind   string // "hang", "panic", "rej", "pass"
	status int
	items  []c12PItem
	names  []string
}

type c12PObs struct {
	x      string
	cpanic bool
	reqs   []c12PReq
}

// c12ParseObs parses an observation line (the format of encOut in lean/EchoModel/C12.lean); ok = false on
// anything unexpected (then nothing is tolerated)
func c12ParseObs(line string) (o c12PObs, ok bool) {
	t := strings.Fields(line)
	pos := 0
	next := func() (string, bool) {
		if pos >= len(t) {
			return "", false
		}
		pos++
		return t[pos-1], true
	}
	num := func() (int, bool) {
		s, ok := next()
		if !ok {
			return 0, false
		}
		n := 0
		if s == "" || len(s) > 9 {
			return 0, false
		}
		for i := 0; i < len(s); i++ {
			if s[i] < '0' || s[i] > '9' {
				return 0, false
			}
			n = n*10 + int(s[i]-'0')
		}
		return n, true
	}
	x, ok1 := next()
	if !ok1 || !strings.HasPrefix(x, "x") {
		return o, false
	}
	o.x = x
	if pos < len(t) && t[pos] == "cpanic" {
		o.cpanic = true
		return o, pos+1 == len(t)
	}
	n, ok1 := num()
	if !ok1 {
		return o, false
	}
	for i := 0; i < n; i++ {
		k, ok1 := next()
		if !ok1 {
			return o, false
		}
		var rq c12PReq
		switch k {
		case "hang":
			rq.kind = "hang"
		case "2":
			rq.kind = "panic"
		case "0":
			rq.kind = "rej"
			if rq.status, ok1 = num(); !ok1 {
				return o, false
			}
		case "1":
			rq.kind = "pass"
			ni, ok1 := num()
			if !ok1 {
				return o, false
			}
			for j := 0; j < ni; j++ {
				tag, ok1 := next()
				if !ok1 {
					return o, false
				}
				var it c12PItem
				switch tag {
				case "r":
					it.rid = true
					if _, ok1 = next(); !ok1 {
						return o, false
					}
				case "c":
					if it.sc, ok1 = next(); !ok1 {
						return o, false
					}
					if it.ct, ok1 = next(); !ok1 {
						return o, false
					}
					for a := 0; a < 6; a++ {
						if it.attrs[a], ok1 = next(); !ok1 {
							return o, false
						}
					}
				default:
					return o, false
				}
				rq.items = append(rq.items, it)
			}
			nn, ok1 := num()
			if !ok1 {
				return o, false
			}
			for j := 0; j < nn; j++ {
				s, ok1 := next()
				if !ok1 {
					return o, false
				}
				rq.names = append(rq.names, s)
			}
		default:
			return o, false
		}
		o.reqs = append(o.reqs, rq)
	}
	return o, pos == len(t)
}

// c12OutsideQuantifier: the TokenLookup string is not one the property ranges over ("tokens placed in header /
// form / query per TokenLookup"): some comma-separated part of it is not a header:<name>[:<cut-prefix>],
// form:<name> or query:<name> source (unknown or misspelled kind, no name, or the param: / cookie: sources)
func c12OutsideQuantifier(lookup string) bool {
	for _, src := range strings.Split(lookup, ",") {
		p := strings.Split(src, ":")
		switch {
		case len(p) == 2 && (p[0] == "header" || p[0] == "form" || p[0] == "query") && p[1] != "":
		case len(p) == 3 && p[0] == "header" && p[1] != "":
		default:
			return true
		}
	}
	return false
}

// c12HeldInScope: the request carries the instance's CSRF cookie and a header / form / query source of the lookup
// string holds exactly the cookie's token
func c12HeldInScope(c *c12Case, in *c12Inst, rq *c12Req) bool {
	var srcs []string
	for _, src := range strings.Split(in.lookup, ",") {
		if !c12OutsideQuantifier(src) {
			srcs = append(srcs, src)
		}
	}
	b := c12Build(c, rq)
	held, _ := c12Held(strings.Join(srcs, ","), rq, b)
	for _, ck := range b.cookies {
		if ck.Name == in.cookie {
			return held[ck.Value]
		}
	}
	return false
}

func c12WireDecode(tok string) (string, bool) {
	if !strings.HasPrefix(tok, "s") {
		return "", false
	}
	b, err := hex.DecodeString(tok[1:])
	if err != nil {
		return "", false
	}
	return string(b), true
}

// c12Tolerable: implObs and modelObs differ; true only if every field C12 constrains agrees.
func c12Tolerable(ci any, implObs, modelObs string) bool {
	c, ok := ci.(*c12Case)
	if !ok || !c.valid() || c.Conc > 0 || c.RealRandom {
		return false
	}
	im, ok1 := c12ParseObs(implObs)
	mo, ok2 := c12ParseObs(modelObs)
	if !ok1 || !ok2 {
		return false
	}
	insts := c.instances()
	stack := c.stack()
	// only the first instance's lookup varies; the second instance's is a fixed header/query/form one
	outside := c12OutsideQuantifier(insts[0].lookup)
	// what CreateExtractors returns for the string (count / error): a helper the property does not speak about,
	// but for the strings the property ranges over it decides which locations are "configured": tolerated
	// only for strings outside the quantifier
	if im.x != mo.x && !outside {
		return false
	}
	// construction.  The model's constructor panics: the implementation must not serve either.  The
	// implementation refuses to construct: fine (nothing is served) if and only if the configuration is one the
	// quantifier leaves out.
	if mo.cpanic {
		return im.cpanic
	}
	if im.cpanic {
		return outside
	}
	if len(im.reqs) != len(mo.reqs) || len(im.reqs) != len(c.Reqs) {
		return false
	}
	cookieNames := map[string]bool{}
	for _, in := range insts {
		cookieNames[wStr(in.cookie)] = true
	}
	for i := range c.Reqs {
		a, b := im.reqs[i], mo.reqs[i]
		rq := c.Reqs[i]
		if a.kind != b.kind {
			// served-vs-refused, panic-vs-answer: never tolerated, with one exception: under a lookup string outside the
			// quantifier the implementation REFUSES (4xx, handler did not run) an unsafe request that the model lets
			// through ONLY thanks to the part of the string the quantifier leaves out (no known source: nothing is
			// validated; the token sits at a param: / cookie: source).  A request whose cookie token is held by a
			// header / form / query source of the string must be served as in the model.  Only with a single CSRF
			// instance: with two, the line does not say which instance refused.
			if outside && len(insts) == 1 && a.kind == "rej" && a.status >= 400 && a.status <= 499 && b.kind == "pass" &&
				!c12IsSafe(rq.Method) && rq.GuessFresh == "" && !c12HeldInScope(c, insts[0], &rq) {
				continue
			}
			return false
		}
		switch a.kind {
		case "rej":
			// "rejected with a 4xx error": which one is not stated
			if a.status != b.status && !(a.status >= 400 && a.status <= 499 && b.status >= 400 && b.status <= 499) {
				return false
			}
		case "pass":
			if len(a.items) != len(stack) || len(b.items) != len(stack) {
				return false
			}
			// does the request carry the instance's cookie?  (GuessFresh adds header/query/form values only)
			built := c12Build(c, &rq)
			hasCookie := make([]bool, len(insts))
			for k, in := range insts {
				for _, ck := range built.cookies {
					if ck.Name == in.cookie {
						hasCookie[k] = true
						break
					}
				}
			}
			type pair struct{ impl, model string }
			var freshDiff []pair // fresh tokens that differ (tolerably) between the two sides
			for p, k := range stack {
				x, y := a.items[p], b.items[p]
				if k < 0 {
					// RequestID(): the X-Request-Id of the response is not a subject of the property
					if !x.rid || !y.rid {
						return false
					}
					continue
				}
				if x.rid || y.rid {
					return false
				}
				// "every passed request gets a Set-Cookie carrying the token": presence must agree
				if (x.sc == "<none>") != (y.sc == "<none>") {
					return false
				}
				if x.sc != y.sc {
					// "reused from the request cookie": fixed by the property, no tolerance.  "else freshly generated with
					// the configured length from ASCII letters only": which letters is not stated
					if hasCookie[k] {
						return false
					}
					v, ok := c12WireDecode(x.sc)
					if !ok || len(v) != insts[k].length || !c12Letters(v) {
						return false
					}
					freshDiff = append(freshDiff, pair{x.sc, y.sc})
				}
				// Path, Domain, expiry, Secure, HttpOnly, SameSite: not stated — unless the cookie is an expired one
				// (the client would drop the token instead of getting it)
				if x.attrs != y.attrs && c12WasExpired(c, i, k) {
					return false
				}
			}
			// "the same token is what the handler finds in its context": the context values agree, or both are the
			// (tolerably different) fresh token of the same instance
			for p, k := range stack {
				if k < 0 || a.items[p].ct == b.items[p].ct {
					continue
				}
				found := false
				for _, fd := range freshDiff {
					if a.items[p].ct == fd.impl && b.items[p].ct == fd.model {
						found = true
					}
				}
				if !found {
					return false
				}
			}
			// Set-Cookie lines on the wire: the lines of the CSRF instances must agree in number (two lines with one
			// name would leave open which token the client gets); the application's own cookies are not a subject
			var na, nb []string
			for _, n := range a.names {
				if cookieNames[n] {
					na = append(na, n)
				}
			}
			for _, n := range b.names {
				if cookieNames[n] {
					nb = append(nb, n)
				}
			}
			if strings.Join(na, " ") != strings.Join(nb, " ") {
				return false
			}
		}
	}
	return true
}

func init() {
	register(&Prop{
		ID:             "C12",
		Rule:           "one CSRF middleware per case, built with CSRFWithConfig (TokenLength 0/1..255 with the uint8 boundaries 203..208, 254, 255; 15 header/form/query TokenLookup shapes with 1-3 sources, prefix cut (also as the LAST source), non-canonical header names; 12% param:/cookie: sources on routes with 1-3 or 22 path parameters; 4% ignored/failing sources (no known source: compared with the model only); a third with a custom ErrorHandler that writes its own 418 and returns nil, or returns its own 409 error; a third with cookie options Path/Domain/MaxAge/Secure/HttpOnly/SameSite 0..4; a seventh with a Skipper on the X-Skip header) or with the convenience constructor CSRF() (8%); a quarter of the cases stack other consumers of the random source on the same Echo: RequestID() after or before CSRF, a second CSRF instance (own cookie, context key, lookup, token length), or CSRF + RequestID() + second CSRF (the second instance with its own ContextKey, or — own cookie _csrf_admin / lookup form:admin_csrf, or cookie _csrf2 — on the DEFAULT ContextKey shared with the first instance: the innermost instance owns the key, every instance still validates and publishes its own cookie); a twelfth of the cases have an earlier middleware that presets a value under the ContextKey; registration with e.Use, on the route, on a group, first on the Echo and the rest on a group, or applied once by hand (mw(handler): the only way state of the func(next) part is shared between requests); x 1-4 requests: 27 method spellings (standard, lower/mixed case, padded, custom, empty) x cookie present/empty/absent/look-alike name/duplicated x client token exact (alone, among 3/20/21/25 values, beside wrong tokens at other sources), near miss (prefix, suffix, case change, padding, NUL, bit flip, empty), absent, at a non-configured, look-alike-named or unparsed location, or guessed fresh token; random source = seeded byte stream per request delivered one byte per Read (uniform, mostly rejected bytes, boundary bytes 200..215, whole first buffer rejected, too short for the first or for a later consumer), shared by all consumers of the request; every token a handler found in its context is kept (the very string) and compared again with its Set-Cookie after all later requests; every 60th case runs on the real crypto/rand (oracle only: length, letters, Set-Cookie = context, no token issued twice); CreateExtractors is also called directly on the configured string; lookups with a prefix-cut header source before AND after header sources without one (with the other source's cut-prefix + token presented at the source without one); a quarter of the near misses embed the right token as an element of a longer value (lists with comma / semicolon / space / tab, quotes, doubled); a tenth of the configured cases reach the middleware through the package-level default (CSRF() with the stock default, DefaultCSRFConfig changed, CSRF() again; restored afterwards); a quarter of the requests are answered by a handler that writes nothing, writes through the raw Response.Writer or Unwrap(), uses NoContent, or returns an HTTPError (Set-Cookie is read off what reached the wire); second-instance cookie names that extend the first one (+_site) or are a proper prefix of it; a sixth of the cases have application cookies set before the stack (session, <csrf cookie>_state) and by the handler (after): the sorted names of all Set-Cookie lines on the wire are compared with the model; cookies holding %xx / + escapes with the DECODED value presented as client token; plus 12 (thorough: 150) concurrency cases: 8-16 goroutines x 150-300 (x3) overlapping requests through one stack, each goroutine with its own cookie (every third without: real crypto/rand), every response must carry ITS request's token in Set-Cookie and context, every request must pass (oracle only, sound on every schedule); plus 150 (thorough: 1800) cases with sources of different kinds and names in one lookup string in every order (form before/after query, header in between) where the cookie's token sits under the NAME of one configured source at the KIND of location of another (query name as body field, form name as header, header name in the query; body parsed by net/http in most cases), a third of the single-instance ones with the browser's fetch-metadata headers (Sec-Fetch-Site same-origin / same-site / none / cross-site, Origin, Referer), a third of them with the second instance (query:csrf2) behind a first instance satisfied through its form source and the second token as BODY field csrf2; (round 8, drawn after everything else) a third of ALL requests additionally carry 1-3 ambient facts about the client or the connection that are no lookup location: fetch metadata (Sec-Fetch-Site/-Mode/-Dest/-User), Origin / Referer (same host, other host, null; a quarter as the coherent picture of a same-origin browser request, scheme and host as the request has them), X-Requested-With, Accept, Authorization / X-Api-Key, X-Forwarded-For/-Proto/-Host / X-Real-Ip / Forwarded, method overrides towards a safe method (X-HTTP-Method-Override, X-Method-Override, X-HTTP-Method, _method in query or body; a quarter of the decorated unsafe requests), Upgrade / Connection, User-Agent of probes and CLI clients, prefetch markers, other frameworks' opt-outs (Csrf-Token: nocheck, X-Csrf-Exempt ...), Content-Type of a body-less request (json / text / octet-stream), extra query parameters / body fields / cookies of the application (csrf_exempt, debug, session ...), Host localhost / 127.0.0.1 / [::1], a loopback or private RemoteAddr, Request.TLS set, HTTP/1.0 / HTTP/2.0; (round 9, drawn after everything else) plus 320 (thorough: 4000) extractor-limit cases: one lookup source per extractor with limit logic (header without / with cut-prefix, query, form, param on a route of n same-named parameters, cookie) alone or before / after another source (form + query of the same name), n = 18..22 values under its name (a sixth: 1, 2, 15..17, 23, 31..33) x CSRF cookie empty / 1-2 bytes / ordinary (in turn) / absent x the cookie's token at no position, the first, the last or one of 17..21 (19 = last inside the limit, 20 = first beyond it), all other values near misses, in half of the requests none of them empty; form values as urlencoded body, in the query, body + query, multipart body, query + multipart body (split at 1, n/2, n-1, 19, 20); non-trivial = an unsafe request that passed, or was rejected although cookie and client tokens were present; distinct = distinct model op lines",
		New:            func() any { return &c12Case{} },
		Gen:            c12Gen,
		Run:            c12Run,
		Shrink:         c12Shrink,
		Mutate:         c12Mutate,
		Serial:         true,
		Tolerable:      c12Tolerable,
		Correspondence: "C12.serveStack / C12.handle / C12.serve / C12.randomStringR / C12.cookieAttrs / C12.createExtractors (lean/EchoModel/C12.lean) vs middleware.CSRF / CSRFWithConfig (+ RequestID) + extractors + randomString with the injected random source",
	})
}
