package main

// C12 — CSRF.  Real code: middleware.CSRFWithConfig driven through e.ServeHTTP; the random
// source of randomString is replaced per request by a seeded byte stream
// (middleware.VerifSetRandomSource), so fresh tokens are compared byte for byte.
// Model: lean/EchoModel/C12.lean (serve).

import (
	"bytes"
	"fmt"
	"math/rand"
	"net/http"
	"net/http/httptest"
	"net/url"
	"sort"
	"strings"
	"time"

	"github.com/labstack/echo/v4"
	"github.com/labstack/echo/v4/middleware"
)

type c12Req struct {
	Method  string      `json:"method"`
	Cookies [][2]string `json:"cookies"` // added with AddCookie, in order
	Headers [][2]string `json:"headers"` // added with Header.Add, in order
	Query   [][2]string `json:"query"`
	Form    [][2]string `json:"form"` // urlencoded body
	Rnd     []byte      `json:"rnd"`  // what the random source delivers
	// GuessFresh: the client token of this request is the token the random stream will
	// produce (learned by the harness from a safe request with the same stream); Guess
	// names where it is put: "header:<Name>[:prefix]", "query:<name>" or "form:<name>"
	GuessFresh string `json:"guess_fresh,omitempty"`
}

type c12Case struct {
	TokenLength int    `json:"token_length"`
	TokenLookup string `json:"token_lookup"`
	CookieName  string `json:"cookie_name"`
	ContextKey  string `json:"context_key"`
	// ErrorHandler: 0 = nil; 1 = custom handler that writes its own 418 and returns nil;
	// 2 = custom handler that returns its own 409 error
	ErrorHandler int      `json:"error_handler,omitempty"`
	Reqs         []c12Req `json:"reqs"`
}

func (c *c12Case) effCookie() string {
	if c.CookieName == "" {
		return "_csrf"
	}
	return c.CookieName
}
func (c *c12Case) effKey() string {
	if c.ContextKey == "" {
		return "csrf"
	}
	return c.ContextKey
}
func (c *c12Case) effLen() int {
	if c.TokenLength == 0 {
		return 32
	}
	return c.TokenLength
}
func (c *c12Case) effLookup() string {
	if c.TokenLookup == "" {
		return "header:X-CSRF-Token"
	}
	return c.TokenLookup
}

type c12Obs struct {
	panicked  bool
	hung      bool
	ran       bool
	status    int
	setCookie *string
	ctxTok    *string
}

// lengths for which a request was seen not to terminate (F15 on the unrepaired code): the
// spinning goroutine cannot be stopped, so such a length is not run again in this process.
var c12Hung = map[int]bool{}

type c12Built struct {
	req     *http.Request
	cookies []*http.Cookie
}

func c12Build(rq *c12Req) c12Built {
	q := url.Values{}
	for _, p := range rq.Query {
		q.Add(p[0], p[1])
	}
	target := "/"
	if len(q) > 0 {
		target += "?" + q.Encode()
	}
	var body *strings.Reader
	f := url.Values{}
	for _, p := range rq.Form {
		f.Add(p[0], p[1])
	}
	body = strings.NewReader(f.Encode())
	req := httptest.NewRequest(http.MethodPost, target, body)
	req.Method = rq.Method
	if len(rq.Form) > 0 {
		req.Header.Set("Content-Type", "application/x-www-form-urlencoded")
	}
	for _, h := range rq.Headers {
		req.Header.Add(h[0], h[1])
	}
	for _, ck := range rq.Cookies {
		req.AddCookie(&http.Cookie{Name: ck[0], Value: ck[1]})
	}
	return c12Built{req: req, cookies: req.Cookies()}
}

// c12Serve runs one request with the given random stream, guarded by a deadline.
func c12Serve(c *c12Case, e *echo.Echo, ranFlag *bool, ctxTok **string, req *http.Request, rnd []byte, needsRandom bool) c12Obs {
	if needsRandom && c12Hung[c.effLen()] {
		return c12Obs{hung: true}
	}
	done := make(chan c12Obs, 1)
	go func() {
		var o c12Obs
		defer func() {
			if r := recover(); r != nil {
				o = c12Obs{panicked: true}
			}
			done <- o
		}()
		restore := middleware.VerifSetRandomSource(bytes.NewReader(rnd))
		defer restore()
		*ranFlag, *ctxTok = false, nil
		rec := httptest.NewRecorder()
		e.ServeHTTP(rec, req)
		o.ran, o.status, o.ctxTok = *ranFlag, rec.Code, *ctxTok
		for _, ck := range rec.Result().Cookies() {
			if ck.Name == c.effCookie() {
				v := ck.Value
				o.setCookie = &v
				break
			}
		}
	}()
	select {
	case o := <-done:
		return o
	case <-time.After(3 * time.Second):
		c12Hung[c.effLen()] = true
		return c12Obs{hung: true}
	}
}

func c12IsSafe(m string) bool {
	return m == "GET" || m == "HEAD" || m == "OPTIONS" || m == "TRACE"
}

// every value found at a configured lookup location of the request (a superset of what the
// extractors return: no limits, no method rule for bodies)
func c12Held(c *c12Case, rq *c12Req, b c12Built) map[string]bool {
	held := map[string]bool{}
	for _, src := range strings.Split(c.effLookup(), ",") {
		parts := strings.Split(src, ":")
		if len(parts) < 2 {
			continue
		}
		switch parts[0] {
		case "header":
			pfx := ""
			if len(parts) > 2 {
				pfx = parts[2]
			}
			for _, v := range b.req.Header.Values(parts[1]) {
				if pfx == "" {
					held[v] = true
				} else if len(v) >= len(pfx) && strings.EqualFold(v[:len(pfx)], pfx) {
					held[v[len(pfx):]] = true
				}
			}
		case "query":
			for _, p := range rq.Query {
				if p[0] == parts[1] {
					held[p[1]] = true
				}
			}
		case "form":
			for _, p := range rq.Form {
				if p[0] == parts[1] {
					held[p[1]] = true
				}
			}
			for _, p := range rq.Query { // net/http: Request.Form also holds the query values
				if p[0] == parts[1] {
					held[p[1]] = true
				}
			}
		case "cookie":
			for _, ck := range b.cookies {
				if ck.Name == parts[1] {
					held[ck.Value] = true
				}
			}
		}
	}
	return held
}

// the stream holds `n` acceptable bytes (<= 207) within its whole buffers of n+n/4 bytes
func c12EnoughRandom(rnd []byte, n int) bool {
	chunk := n + n/4
	usable := len(rnd) / chunk * chunk
	cnt := 0
	for _, b := range rnd[:usable] {
		if b <= 207 {
			cnt++
		}
	}
	return cnt >= n
}

func c12Letters(s string) bool {
	for i := 0; i < len(s); i++ {
		ch := s[i]
		if !(ch >= 'A' && ch <= 'Z' || ch >= 'a' && ch <= 'z') {
			return false
		}
	}
	return true
}

func c12Run(ci any) Result {
	c := ci.(*c12Case)
	if c.TokenLength < 0 || c.TokenLength > 255 || c.ErrorHandler < 0 || c.ErrorHandler > 2 {
		return Result{Tags: []string{"invalid-case"}}
	}
	ops := []string{wInt(c.TokenLength), wStr(c.TokenLookup), wStr(c.CookieName), wInt(c.ErrorHandler), wInt(len(c.Reqs))}
	tagset := map[string]bool{}
	oracle := ""
	fail := func(i int, msg string) {
		if oracle == "" {
			oracle = fmt.Sprintf("request %d: %s", i, msg)
		}
	}
	// construction
	var e *echo.Echo
	ran := false
	var ctxTok *string
	cpanic := func() (p bool) {
		defer func() {
			if r := recover(); r != nil {
				p = true
			}
		}()
		e = echo.New()
		cfg := middleware.CSRFConfig{
			TokenLength: uint8(c.TokenLength),
			TokenLookup: c.TokenLookup,
			CookieName:  c.CookieName,
			ContextKey:  c.ContextKey,
		}
		switch c.ErrorHandler {
		case 1:
			cfg.ErrorHandler = func(err error, ctx echo.Context) error {
				return ctx.JSON(http.StatusTeapot, map[string]string{"message": "csrf check failed"})
			}
		case 2:
			cfg.ErrorHandler = func(err error, ctx echo.Context) error {
				return echo.NewHTTPError(http.StatusConflict, "csrf check failed")
			}
		}
		e.Use(middleware.CSRFWithConfig(cfg))
		return false
	}()
	if cpanic {
		for range c.Reqs {
			ops = append(ops, "s", "0", "0", "0", "0", "s")
		}
		return Result{Ops: strings.Join(ops, " "), Obs: "cpanic", Tags: []string{"constructor-panic"}}
	}
	h := func(ctx echo.Context) error {
		ran = true
		if v, ok := ctx.Get(c.effKey()).(string); ok {
			ctxTok = &v
		}
		return ctx.String(http.StatusOK, "ok")
	}
	methods := map[string]bool{}
	for _, rq := range c.Reqs {
		if !methods[rq.Method] {
			methods[rq.Method] = true
			e.Add(rq.Method, "/", h)
		}
	}
	obs := []string{wInt(len(c.Reqs))}
	nontrivial := false
	for i := range c.Reqs {
		rq := c.Reqs[i] // copy: GuessFresh fills in the token
		if rq.GuessFresh != "" {
			// learn the token this stream yields from a safe request, then present it
			tagset["guess-fresh-token"] = true
			probe := c12Req{Method: "GET", Rnd: rq.Rnd}
			if !methods["GET"] {
				methods["GET"] = true
				e.Add("GET", "/", h)
			}
			po := c12Serve(c, e, &ran, &ctxTok, c12Build(&probe).req, rq.Rnd, true)
			tok := ""
			if po.setCookie != nil {
				tok = *po.setCookie
			}
			parts := strings.SplitN(rq.GuessFresh, ":", 3)
			switch parts[0] {
			case "header":
				pfx := ""
				if len(parts) > 2 {
					pfx = parts[2]
				}
				rq.Headers = append(append([][2]string(nil), rq.Headers...), [2]string{parts[1], pfx + tok})
			case "query":
				rq.Query = append(append([][2]string(nil), rq.Query...), [2]string{parts[1], tok})
			case "form":
				rq.Form = append(append([][2]string(nil), rq.Form...), [2]string{parts[1], tok})
			}
		}
		b := c12Build(&rq)
		var reqCookie *string
		for _, ck := range b.cookies {
			if ck.Name == c.effCookie() {
				v := ck.Value
				reqCookie = &v
				break
			}
		}
		// model op
		ops = append(ops, wStr(rq.Method), wInt(len(b.cookies)))
		for _, ck := range b.cookies {
			ops = append(ops, wStr(ck.Name), wStr(ck.Value))
		}
		var keys []string
		nh := 0
		for k, vs := range b.req.Header {
			keys = append(keys, k)
			nh += len(vs)
		}
		sort.Strings(keys)
		ops = append(ops, wInt(nh))
		for _, k := range keys {
			for _, v := range b.req.Header[k] {
				ops = append(ops, wStr(k), wStr(v))
			}
		}
		ops = append(ops, wInt(len(rq.Query)))
		for _, p := range rq.Query {
			ops = append(ops, wStr(p[0]), wStr(p[1]))
		}
		ops = append(ops, wInt(len(rq.Form)))
		for _, p := range rq.Form {
			ops = append(ops, wStr(p[0]), wStr(p[1]))
		}
		ops = append(ops, wBytes(rq.Rnd))

		o := c12Serve(c, e, &ran, &ctxTok, b.req, rq.Rnd, reqCookie == nil)
		safe := c12IsSafe(rq.Method)
		// tags
		if safe {
			tagset["safe-method"] = true
		} else {
			tagset["unsafe-method"] = true
			if c12IsSafe(strings.ToUpper(strings.TrimSpace(rq.Method))) {
				tagset["safe-lookalike-method"] = true
			}
		}
		switch {
		case reqCookie == nil:
			tagset["cookie-absent"] = true
		case *reqCookie == "":
			tagset["cookie-empty"] = true
		default:
			tagset["cookie-present"] = true
		}
		switch {
		case o.hung:
			obs = append(obs, "hang")
			tagset["hang"] = true
			fail(i, fmt.Sprintf("the request did not complete within 3 s: randomString(%d) does not terminate", c.effLen()))
			continue
		case o.panicked:
			obs = append(obs, "2")
			tagset["panic"] = true
			if reqCookie != nil || c12EnoughRandom(rq.Rnd, c.effLen()) {
				fail(i, "panic although the random source had enough bytes (or was not needed)")
			}
			continue
		case o.ran:
			sc, ct := "<none>", "<none>"
			if o.setCookie != nil {
				sc = wStr(*o.setCookie)
			}
			if o.ctxTok != nil {
				ct = wStr(*o.ctxTok)
			}
			obs = append(obs, "1", sc, ct)
		default:
			obs = append(obs, "0", wInt(o.status))
		}
		// ---- model-free oracle: the property itself
		held := c12Held(c, &rq, b)
		if o.ran {
			tagset["passed"] = true
			if !safe {
				nontrivial = true
				tagset["unsafe-passed"] = true
				if reqCookie == nil {
					// Only a client that knows what the random source will deliver can do this
					// (the harness does, see GuessFresh); it must have presented exactly the fresh token.
					if o.setCookie == nil || !held[*o.setCookie] {
						fail(i, fmt.Sprintf("unsafe %q request passed without the CSRF cookie", rq.Method))
					} else {
						tagset["fresh-token-presented"] = true
					}
				} else if !held[*reqCookie] {
					fail(i, fmt.Sprintf("unsafe %q request passed although no configured lookup location holds the cookie token %q", rq.Method, *reqCookie))
				}
			}
			if o.setCookie == nil {
				fail(i, "passed without a Set-Cookie for the CSRF cookie")
			} else if o.ctxTok == nil || *o.ctxTok != *o.setCookie {
				fail(i, fmt.Sprintf("Set-Cookie token %q differs from the context token %v", *o.setCookie, o.ctxTok))
			} else if reqCookie != nil && *o.setCookie != *reqCookie {
				fail(i, fmt.Sprintf("token %q is not the request cookie's %q", *o.setCookie, *reqCookie))
			} else if reqCookie == nil && (len(*o.setCookie) != c.effLen() || !c12Letters(*o.setCookie)) {
				fail(i, fmt.Sprintf("fresh token %q: want %d ASCII letters", *o.setCookie, c.effLen()))
			}
			if o.status != http.StatusOK {
				fail(i, fmt.Sprintf("handler ran but status %d", o.status))
			}
		} else {
			tagset["rejected"] = true
			tagset[fmt.Sprintf("status-%d", o.status)] = true
			if safe {
				fail(i, fmt.Sprintf("safe method %s did not pass (status %d)", rq.Method, o.status))
			}
			if o.status < 400 || o.status > 499 {
				fail(i, fmt.Sprintf("rejected with status %d, not 4xx", o.status))
			}
			if reqCookie != nil && len(held) > 0 {
				nontrivial = true // a near miss: cookie and client token(s) present, no match
			}
		}
	}
	switch c.ErrorHandler {
	case 1:
		tagset["error-handler-writes-and-returns-nil"] = true
	case 2:
		tagset["error-handler-returns-own-error"] = true
	}
	var tags []string
	for t := range tagset {
		tags = append(tags, t)
	}
	sort.Strings(tags)
	return Result{Ops: strings.Join(ops, " "), Obs: strings.Join(obs, " "), Oracle: oracle, Tags: tags, Nontrivial: nontrivial}
}

// ---------- generator ----------

var c12Methods = []string{"GET", "HEAD", "OPTIONS", "TRACE", "POST", "POST", "POST", "PUT", "PATCH", "DELETE", "CONNECT",
	"get", "head", "options", "trace", "post", "Get", "gET", "GET ", " GET", "GETX", "TRACE2", "PROPFIND", "QUERY", "", "OPTION", "HEADS"}

var c12Lookups = []string{"", "header:X-CSRF-Token", "header:x-csrf-token", "form:csrf", "query:csrf",
	"header:X-CSRF-Token,form:csrf,query:csrf", "query:csrf,header:X-XSRF-TOKEN", "form:_csrf,query:_csrf",
	"header:Authorization:Bearer ", "header:X-Tok:tok-", "form:csrf,form:csrf2,header:X-CSRF-Token",
	"query:csrf,query:t"}

// rare: ignored / failing / out-of-scope sources (tie only where the property does not apply)
var c12OddLookups = []string{"headr:X-CSRF-Token", "header", "query:csrf,bogus", "param:id", "param:id,header:X-CSRF-Token",
	"Header:X-CSRF-Token", "query:csrf,Form:csrf", "cookie:_csrf"}

const c12CookieAlphabet = "ABCDEFGHIJKLMNOPQRSTUVWXYZabcdefghijklmnopqrstuvwxyz0123456789-_.~!#$%&'()*+/:<=>?@[]^`{|}"

func c12Token(r *rand.Rand) string {
	n := 32
	switch r.Intn(6) {
	case 0:
		n = 1 + r.Intn(4)
	case 1:
		n = 1 + r.Intn(64)
	}
	alpha := c12CookieAlphabet[:52]
	if r.Intn(4) == 0 {
		alpha = c12CookieAlphabet
	}
	b := make([]byte, n)
	for i := range b {
		b[i] = alpha[r.Intn(len(alpha))]
	}
	return string(b)
}

func c12SwapCase(s string) string {
	b := []byte(s)
	for i, ch := range b {
		if ch >= 'a' && ch <= 'z' {
			b[i] = ch - 32
			return string(b)
		} else if ch >= 'A' && ch <= 'Z' {
			b[i] = ch + 32
			return string(b)
		}
	}
	return s + "x"
}

func c12NearMiss(r *rand.Rand, t string) string {
	switch r.Intn(13) {
	case 10:
		// same length, same multiset of bytes: two distinct bytes exchanged (defeats comparisons that
		// accumulate with xor or sum instead of or)
		b := []byte(t)
		for tries := 0; tries < 8 && len(b) > 1; tries++ {
			i, j := r.Intn(len(b)), r.Intn(len(b))
			if b[i] != b[j] {
				b[i], b[j] = b[j], b[i]
				return string(b)
			}
		}
		return t + "y"
	case 11:
		// same length, two positions changed by the same bit mask (the differences cancel under xor)
		b := []byte(t)
		if len(b) > 1 {
			i := r.Intn(len(b) - 1)
			b[i] ^= 2
			b[i+1] ^= 2
			return string(b)
		}
		return t + "z"
	case 12:
		// reversed
		b := []byte(t)
		for i, j := 0, len(b)-1; i < j; i, j = i+1, j-1 {
			b[i], b[j] = b[j], b[i]
		}
		if string(b) == t {
			return t + "r"
		}
		return string(b)
	case 0:
		if len(t) > 0 {
			return t[:len(t)-1]
		}
		return "x"
	case 1:
		return t + "x"
	case 2:
		return c12SwapCase(t)
	case 3:
		return " " + t
	case 4:
		return t + " "
	case 5:
		if len(t) > 0 {
			return t[1:]
		}
		return " "
	case 6:
		if t == "" {
			return "\x00"
		}
		return ""
	case 7:
		return t + "\x00"
	case 8:
		return strings.ToUpper(t) + strings.ToLower(t)
	default:
		b := []byte(t)
		if len(b) == 0 {
			return "y"
		}
		i := r.Intn(len(b))
		b[i] ^= 1
		return string(b)
	}
}

type c12Loc struct{ kind, name, pfx string }

func c12Locs(lookup string) []c12Loc {
	if lookup == "" {
		lookup = "header:X-CSRF-Token"
	}
	var out []c12Loc
	for _, src := range strings.Split(lookup, ",") {
		p := strings.Split(src, ":")
		if len(p) < 2 {
			continue
		}
		l := c12Loc{kind: p[0], name: p[1]}
		if len(p) > 2 {
			l.pfx = p[2]
		}
		if l.kind == "header" || l.kind == "query" || l.kind == "form" {
			out = append(out, l)
		}
	}
	return out
}

func c12Place(r *rand.Rand, rq *c12Req, l c12Loc, v string) {
	switch l.kind {
	case "header":
		name := l.name
		if r.Intn(3) == 0 {
			name = strings.ToLower(name)
		}
		pfx := l.pfx
		if pfx != "" && r.Intn(3) == 0 {
			pfx = c12SwapCase(pfx)
		}
		rq.Headers = append(rq.Headers, [2]string{name, pfx + v})
	case "query":
		rq.Query = append(rq.Query, [2]string{l.name, v})
	case "form":
		rq.Form = append(rq.Form, [2]string{l.name, v})
	}
}

func c12Rnd(r *rand.Rand, n int, short bool) []byte {
	mode := r.Intn(6)
	size := 4*n + 64 + r.Intn(64)
	if mode < 3 {
		size = 12*n + 64
	}
	if short {
		size = r.Intn(n + n/4 + 1)
	}
	b := make([]byte, size)
	for i := range b {
		switch mode {
		case 0: // many rejected bytes
			if r.Intn(3) > 0 {
				b[i] = byte(208 + r.Intn(48))
			} else {
				b[i] = byte(r.Intn(256))
			}
		case 1: // around the acceptance boundary
			b[i] = byte(200 + r.Intn(16))
		case 2: // the whole first buffer is rejected
			if i < n+n/4 {
				b[i] = 255
			} else {
				b[i] = byte(r.Intn(256))
			}
		default:
			b[i] = byte(r.Intn(256))
		}
	}
	return b
}

func c12GenReq(r *rand.Rand, c *c12Case) c12Req {
	rq := c12Req{Method: c12Methods[r.Intn(len(c12Methods))]}
	if r.Intn(3) == 0 {
		rq.Method = []string{"POST", "PUT", "DELETE", "PATCH"}[r.Intn(4)]
	}
	locs := c12Locs(c.TokenLookup)
	cookieName := c.effCookie()
	tok := c12Token(r)
	hasCookie := false
	switch x := r.Intn(10); {
	case x < 6:
		rq.Cookies = append(rq.Cookies, [2]string{cookieName, tok})
		hasCookie = true
	case x < 7:
		tok = ""
		rq.Cookies = append(rq.Cookies, [2]string{cookieName, ""})
		hasCookie = true
	case x < 8: // only a look-alike cookie
		other := []string{"csrf", "_csrf", "_CSRF", "xsrf", "_csrf2"}[r.Intn(5)]
		if other != cookieName {
			rq.Cookies = append(rq.Cookies, [2]string{other, tok})
		}
	}
	if hasCookie && r.Intn(6) == 0 { // a second cookie of the same name: the first one counts
		rq.Cookies = append(rq.Cookies, [2]string{cookieName, c12Token(r)})
	}
	if r.Intn(5) == 0 {
		rq.Cookies = append([][2]string{{"session", "abc"}}, rq.Cookies...)
	}
	short := !hasCookie && r.Intn(25) == 0
	rq.Rnd = c12Rnd(r, c.effLen(), short)
	if len(locs) == 0 {
		if r.Intn(2) == 0 {
			rq.Headers = append(rq.Headers, [2]string{"X-CSRF-Token", tok})
		}
		return rq
	}
	loc := locs[r.Intn(len(locs))]
	switch x := r.Intn(20); {
	case x < 6: // exact token at a configured location, possibly among other values
		pos := 0
		nvals := 1
		switch r.Intn(8) {
		case 0:
			nvals, pos = 3, r.Intn(3)
		case 1:
			nvals, pos = 20, 19 // last value inside the limit
		case 2:
			nvals, pos = 21, 20 // first value beyond the limit
		case 3:
			nvals, pos = 25, 19+r.Intn(6)
		}
		for k := 0; k < nvals; k++ {
			if k == pos {
				c12Place(r, &rq, loc, tok)
			} else {
				c12Place(r, &rq, loc, c12NearMiss(r, tok))
			}
		}
		if r.Intn(3) == 0 && len(locs) > 1 { // a wrong token at another configured location
			c12Place(r, &rq, locs[r.Intn(len(locs))], c12NearMiss(r, tok))
		}
	case x < 11: // near misses only
		k := 1 + r.Intn(3)
		for i := 0; i < k; i++ {
			c12Place(r, &rq, locs[r.Intn(len(locs))], c12NearMiss(r, tok))
		}
	case x < 13: // nothing anywhere
	case x < 16: // the right token at a location that is NOT configured / not parsed
		switch r.Intn(7) {
		case 5, 6: // same name, other kind of location
			others := [][2]string{{"header", loc.name}, {"header", "X-" + loc.name}, {"query", loc.name}, {"form", loc.name}, {"cookie", loc.name}}
			for _, o := range others {
				if o[0] == loc.kind && o[1] == loc.name || r.Intn(2) == 0 {
					continue
				}
				configured := false
				for _, l2 := range locs {
					if l2.kind == o[0] && strings.EqualFold(l2.name, o[1]) || l2.kind == "form" && o[0] == "query" && l2.name == o[1] {
						configured = true
					}
				}
				if configured {
					continue
				}
				switch o[0] {
				case "header":
					rq.Headers = append(rq.Headers, [2]string{o[1], tok})
				case "query":
					rq.Query = append(rq.Query, [2]string{o[1], tok})
				case "form":
					rq.Form = append(rq.Form, [2]string{o[1], tok})
				case "cookie":
					if o[1] != cookieName {
						rq.Cookies = append(rq.Cookies, [2]string{o[1], tok})
					}
				}
			}
		case 0:
			rq.Query = append(rq.Query, [2]string{"CSRF", tok}, [2]string{"csrf_", tok})
		case 1:
			rq.Headers = append(rq.Headers, [2]string{"X-CSRF-Token-2", tok}, [2]string{"X-CSRFToken", tok})
		case 2:
			rq.Form = append(rq.Form, [2]string{"Csrf", tok})
		case 3: // in the body of a request whose body net/http does not parse
			rq.Method = []string{"DELETE", "post", "CUSTOM", "Put"}[r.Intn(4)]
			rq.Form = append(rq.Form, [2]string{"csrf", tok}, [2]string{"_csrf", tok}, [2]string{"csrf2", tok})
		default: // prefix configured but absent / wrong
			if loc.kind == "header" && loc.pfx != "" {
				wrong := "X" + loc.pfx[1:] // same length, different first byte
				rq.Headers = append(rq.Headers, [2]string{loc.name, tok}, [2]string{loc.name, "Basic " + tok}, [2]string{loc.name, loc.pfx}, [2]string{loc.name, wrong + tok})
			} else {
				rq.Headers = append(rq.Headers, [2]string{"Cookie2", tok})
			}
		}
	case x < 17: // the client presents the token the random source is about to produce
		if !hasCookie {
			rq.GuessFresh = loc.kind + ":" + loc.name
			if loc.pfx != "" {
				rq.GuessFresh += ":" + loc.pfx
			}
			if loc.kind == "form" {
				rq.Method = "POST"
			}
		} else {
			c12Place(r, &rq, loc, tok)
		}
	default: // exact, simplest form
		c12Place(r, &rq, loc, tok)
		if loc.kind == "form" && r.Intn(2) == 0 {
			rq.Method = []string{"POST", "PUT", "PATCH"}[r.Intn(3)]
		}
	}
	if r.Intn(6) == 0 {
		rq.Headers = append(rq.Headers, [2]string{"X-Requested-With", "XMLHttpRequest"})
	}
	if r.Intn(8) == 0 {
		rq.Query = append(rq.Query, [2]string{"page", "2"})
	}
	return rq
}

var c12Lengths = []int{0, 1, 2, 3, 4, 5, 7, 8, 31, 32, 33, 64, 100, 127, 128, 200, 203, 204, 205, 206, 207, 208, 254, 255}

func c12Gen(r *rand.Rand, tier string) []any {
	n := 2500
	if tier == "thorough" {
		n = 30000
	}
	var out []any
	for i := 0; i < n; i++ {
		c := &c12Case{}
		switch r.Intn(4) {
		case 0:
			c.TokenLength = 0
		case 1:
			c.TokenLength = 1 + r.Intn(255)
		default:
			c.TokenLength = c12Lengths[r.Intn(len(c12Lengths))]
		}
		c.TokenLookup = c12Lookups[r.Intn(len(c12Lookups))]
		if r.Intn(25) == 0 {
			c.TokenLookup = c12OddLookups[r.Intn(len(c12OddLookups))]
		}
		c.CookieName = []string{"", "_csrf", "csrf", "XSRF-TOKEN"}[r.Intn(4)]
		c.ContextKey = []string{"", "csrf", "tok"}[r.Intn(3)]
		if r.Intn(3) == 0 {
			c.ErrorHandler = 1 + r.Intn(2)
		}
		k := 1 + r.Intn(3)
		for j := 0; j < k; j++ {
			c.Reqs = append(c.Reqs, c12GenReq(r, c))
		}
		out = append(out, c)
	}
	return out
}

// the property's quantifier ranges over header/form/query lookups: configurations with an
// ignored, failing or cookie/param source are compared with the model only
func c12InScope(c *c12Case) bool {
	for _, src := range strings.Split(c.effLookup(), ",") {
		p := strings.Split(src, ":")
		if len(p) < 2 {
			return false
		}
		if p[0] != "header" && p[0] != "query" && p[0] != "form" {
			return false
		}
	}
	return true
}

func c12RunScoped(ci any) Result {
	res := c12Run(ci)
	c := ci.(*c12Case)
	if !c12InScope(c) {
		res.Tags = append(res.Tags, "lookup-out-of-scope(tie only)")
		if !strings.Contains(res.Oracle, "does not terminate") && !strings.Contains(res.Oracle, "panic") {
			res.Oracle = ""
		}
	}
	return res
}

func c12Shrink(ci any) []any {
	c := ci.(*c12Case)
	var out []any
	with := func(reqs []c12Req) *c12Case {
		d := *c
		d.Reqs = reqs
		return &d
	}
	for i := range c.Reqs {
		if len(c.Reqs) > 1 {
			out = append(out, with(append(append([]c12Req(nil), c.Reqs[:i]...), c.Reqs[i+1:]...)))
		}
	}
	dropPair := func(l [][2]string, k int) [][2]string {
		return append(append([][2]string(nil), l[:k]...), l[k+1:]...)
	}
	for i, rq := range c.Reqs {
		edit := func(f func(*c12Req)) {
			reqs := append([]c12Req(nil), c.Reqs...)
			nr := rq
			f(&nr)
			reqs[i] = nr
			out = append(out, with(reqs))
		}
		for k := range rq.Headers {
			k := k
			edit(func(n *c12Req) { n.Headers = dropPair(rq.Headers, k) })
		}
		for k := range rq.Query {
			k := k
			edit(func(n *c12Req) { n.Query = dropPair(rq.Query, k) })
		}
		for k := range rq.Form {
			k := k
			edit(func(n *c12Req) { n.Form = dropPair(rq.Form, k) })
		}
		for k := range rq.Cookies {
			k := k
			if len(rq.Cookies) > 1 {
				edit(func(n *c12Req) { n.Cookies = dropPair(rq.Cookies, k) })
			}
		}
		if len(rq.Rnd) > 8 && len(rq.Cookies) > 0 {
			edit(func(n *c12Req) { n.Rnd = nil })
		}
	}
	if c.ContextKey != "" {
		d := *c
		d.ContextKey = ""
		out = append(out, &d)
	}
	if c.ErrorHandler != 0 {
		d := *c
		d.ErrorHandler = 0
		out = append(out, &d)
	}
	return out
}

func init() {
	register(&Prop{
		ID:             "C12",
		Rule:           "one CSRF middleware per case (TokenLength 0/1..255 with the uint8 boundaries 203..208, 254, 255; 12 TokenLookup shapes with 1-3 sources, prefix cut, non-canonical header names; 4% ignored/failing/param/cookie sources, compared with the model only; a third with a custom ErrorHandler that writes its own 418 and returns nil, or returns its own 409 error) x 1-3 requests: 27 method spellings (standard, lower/mixed case, padded, custom, empty) x cookie present/empty/absent/look-alike name/duplicated x client token exact (alone, among 3/20/21/25 values, beside wrong tokens at other sources), near miss (prefix, suffix, case change, padding, NUL, bit flip, empty), absent, at a non-configured or unparsed location, or guessed fresh token; random source = seeded byte stream per request (uniform, mostly rejected bytes, boundary bytes 200..215, whole first buffer rejected, too short); non-trivial = an unsafe request that passed, or was rejected although cookie and client tokens were present; distinct = distinct model op lines",
		New:            func() any { return &c12Case{} },
		Gen:            c12Gen,
		Run:            c12RunScoped,
		Shrink:         c12Shrink,
		Serial:         true,
		Correspondence: "C12.serve / C12.randomString (lean/EchoModel/C12.lean) vs middleware.CSRFWithConfig + extractors + randomString with the injected random source",
	})
}
