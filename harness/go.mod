module verifharness

go 1.20

require (
	github.com/labstack/echo/v4 v4.0.0
	github.com/labstack/gommon v0.4.2
	golang.org/x/time v0.8.0
)

require (
	github.com/mattn/go-colorable v0.1.13 // indirect
	github.com/mattn/go-isatty v0.0.20 // indirect
	github.com/valyala/bytebufferpool v1.0.0 // indirect
	github.com/valyala/fasttemplate v1.2.2 // indirect
	golang.org/x/crypto v0.31.0 // indirect
	golang.org/x/net v0.33.0 // indirect
	golang.org/x/sys v0.28.0 // indirect
	golang.org/x/text v0.21.0 // indirect
)

replace github.com/labstack/echo/v4 => /repo
