package main

// C15 — Gzip / Decompress are transparent.
//
// Real code: middleware.Gzip / GzipWithConfig and middleware.Decompress / DecompressWithConfig
// installed with e.Use, driven through e.ServeHTTP (a recording writer, optionally with
// io.ReaderFrom / Pusher / Hijacker; for a few cases a real server over TCP); handlers act through
// c.Response().WriteHeader/Write/Flush/Hijack, c.Stream, http.ResponseController, and may return an error.
// Model: lean/EchoModel/C15.lean (serveNestedAllX, decompressSeqX).
// Oracle (model-free): the client side undoes the advertised Content-Encoding with
// compress/gzip and compares with what the handler wrote; Write counts; status; headers.

import (
	"bufio"
	"bytes"
	"compress/gzip"
	"context"
	"errors"
	"fmt"
	"io"
	"math/rand"
	"net"
	"net/http"
	"net/http/httptest"
	"runtime/debug"
	"strconv"
	"strings"
	"sync"
	"time"

	"github.com/labstack/echo/v4"
	"github.com/labstack/echo/v4/middleware"
)

type c15Op struct {
	// L setLen | H writeHeader | W write | F flush | S stream(chunk reader) | T stream(strings.Reader);
	// B: the handler announces its Content-Length from a Response.Before hook (res.Before(func(){ Header().Set(…) })),
	// i.e. at the moment the response is committed, as a middleware mounted inside Gzip would.  For the model this
	// is `L n` placed directly before the op that commits the response (see c15ModelProg);
	// not part of the model's program (they must not change the response, and must reach the
	// underlying writer exactly as without the middleware): P res.Writer.(http.Pusher).Push |
	// J res.Hijack() | D http.NewResponseController(res).SetWriteDeadline
	K      string   `json:"k"`
	Code   int      `json:"code,omitempty"`   // H, S, T
	N      int      `json:"n,omitempty"`      // L
	Data   a2bstr   `json:"data,omitempty"`   // W, T
	Chunks []a2bstr `json:"chunks,omitempty"` // S
	// S: the reader hands out its last chunk TOGETHER with io.EOF (an io.Reader may do that; callers must use the
	// bytes before they look at the error).  Nothing changes for the model: it is the same stream.
	EOFWithData bool `json:"eof_with_data,omitempty"`
	// S: the reader FAILS behind its last chunk with an error other than io.EOF: 1 the error comes alone `(0, err)`,
	// 2 it comes together with the last bytes `(n, err)` (same rule: the bytes count).  For the model: the flag
	// `readerFails` of the stream op (everything is written, then the helper reports the failure).
	ReaderErr int `json:"reader_err,omitempty"`
	// S: before the first byte of every chunk the reader returns `(0, nil)` once (allowed, if discouraged, by the
	// io.Reader contract: "nothing happened", in particular NOT the end of the stream).  Same stream for the model.
	ZeroReads bool `json:"zero_reads,omitempty"`
}

// A request may carry ONE nested request: the handler serves it through the same Echo (same
// middleware instance, same pools) from inside its own run — two requests alive at the same
// time, deterministically.
type c15Req struct {
	Nested *c15Req `json:"nested,omitempty"`  // served by the handler before its op number NestAt (after the last op if NestAt >= len)
	NestAt int     `json:"nest_at,omitempty"` //
	// NestRaw k >= 1: the nested request is served not between two ops of the handler but while the outer response is
	// being DELIVERED: from inside the k-th call the chain makes on the underlying http.ResponseWriter (WriteHeader,
	// Write or Flush - a client that is slow to take that piece while the server answers somebody else), before the
	// call is carried out; when the chain makes fewer calls, right after it has returned.  With Gzip in play these
	// calls are made by the switch to compression, by Flush and by the deferred finaliser (delayed status, buffered
	// body, gzip trailer) and - for a handler that failed unstarted - by the error handler after the chain has unwound.
	// For the model it is a nested request like any other (C15_nestedX_independent: where it happens does not matter).
	NestRaw int     `json:"nest_raw,omitempty"`
	AE      string  `json:"accept_encoding"`
	Ops     []c15Op `json:"ops"`
	Skip    bool    `json:"skip,omitempty"`      // the request carries the header the case's Skipper looks for
	Preset  bool    `json:"preset_ce,omitempty"` // the handler sets Content-Encoding: gzip itself, first thing
	Fail    int     `json:"fail,omitempty"`      // the handler returns echo.NewHTTPError(Fail) after its ops
}

type c15DReq struct {
	CE      string   `json:"content_encoding"`
	Gzip    bool     `json:"gzip"`              // body is a gzip stream of Members (else Plain as is)
	Plain   a2bstr   `json:"plain,omitempty"`   //
	Members []a2bstr `json:"members,omitempty"` // one gzip member per element
	Defect  int      `json:"defect,omitempty"`  // 0 none | 1 garbage after the trailer | 2 trailer cut | 3 wrong checksum
	// the handler reads NestAfter bytes of its body, serves Nested through the same Echo, then reads the rest
	Nested    *c15DReq `json:"nested,omitempty"`
	NestAfter int      `json:"nest_after,omitempty"`
	Skip      bool     `json:"skip,omitempty"`    // the request carries the header the case's Skipper looks for
	Unknown   bool     `json:"unknown,omitempty"` // the length of the body is not known up front (chunked upload): ContentLength -1
	Chunk     int      `json:"chunk,omitempty"`   // the body arrives in pieces of at most this many bytes (0: as one piece)
	// the reader the server hands to the chain returns the last bytes of the body TOGETHER with io.EOF (net/http's
	// own body readers do so when the length is known) instead of (n, nil) followed by (0, io.EOF)
	EOFWithData bool `json:"eof_with_data,omitempty"`
}

type c15Case struct {
	Kind       string `json:"kind"` // gzip | decompress
	MinLength  int    `json:"min_length"`
	Level      int    `json:"level"`
	Concurrent bool   `json:"concurrent"` // the requests run concurrently through the one instance
	// decompress: the middleware constructor is applied to the handler ONCE (h := Decompress()(handler), as the
	// package's own tests do) and every request goes through h; otherwise e.Use + e.ServeHTTP, where echo
	// re-applies the middleware function per request and Decompress therefore builds a new pool per request
	Once  bool      `json:"once,omitempty"`
	Reqs  []c15Req  `json:"reqs,omitempty"`
	DReqs []c15DReq `json:"dreqs,omitempty"`
	// round 4
	Ctor    string `json:"ctor,omitempty"`    // gzip: "" GzipWithConfig{MinLength, Level} | plain Gzip(); decompress: "" Decompress() | cfg0 DecompressWithConfig{} | cfgpool {GzipDecompressPool: &DefaultGzipDecompressPool{}}
	Skipper bool   `json:"skipper,omitempty"` // the config carries a Skipper (requests with X-Skip: 1 are skipped)
	Base    string `json:"base,omitempty"`    // the underlying http.ResponseWriter: "" minimal (+Flush) | rf also io.ReaderFrom | full also Pusher, Hijacker, SetWriteDeadline
	Wire    string `json:"wire,omitempty"`    // "" in-process with a recording writer | tcp a real net/http server and client (oracle only)
}

// ---------- the recording response writer (net/http's rule: the first WriteHeader wins, a
// Write or Flush before it implies 200; the header map is snapshotted at that moment) ----------

type c15Raw struct {
	hdr       http.Header
	committed bool
	status    int
	sent      http.Header
	body      []byte
	flushAt   []int
	readFroms int
	pushes    []string
	hijacks   int
	deadlines int
	calls     int    // WriteHeader / Write / Flush calls made on the recorder so far
	hookAt    int    // run hook from inside call number hookAt (1-based), before the call is carried out
	hook      func() //
}

func newC15Raw() *c15Raw { return &c15Raw{hdr: http.Header{}} }

// tick: one more call arrives at the connection; the client may be slow to take it
func (r *c15Raw) tick() {
	r.calls++
	if r.hook != nil && r.calls == r.hookAt {
		h := r.hook
		r.hook = nil
		h()
	}
}

func (r *c15Raw) commit(code int) {
	if r.committed {
		return
	}
	r.committed, r.status, r.sent = true, code, r.hdr.Clone()
}

func (r *c15Raw) Header() http.Header { return r.hdr }
func (r *c15Raw) WriteHeader(code int) {
	r.tick()
	r.commit(code)
}
func (r *c15Raw) Write(b []byte) (int, error) {
	r.tick()
	r.commit(http.StatusOK)
	r.body = append(r.body, b...)
	return len(b), nil
}
func (r *c15Raw) Flush() {
	r.tick()
	r.commit(http.StatusOK)
	r.flushAt = append(r.flushAt, len(r.body))
}

// the same recorder with the optional interfaces a real connection's writer has.  ReadFrom has
// net/http's contract: it is a Write of everything the source yields.
type c15RawRF struct{ *c15Raw }

func (w c15RawRF) ReadFrom(src io.Reader) (int64, error) {
	w.readFroms++
	return io.Copy(struct{ io.Writer }{w.c15Raw}, src)
}

type c15RawFull struct{ *c15Raw }

var errC15Hijack = errors.New("c15: the recorder's Hijack was reached")

func (w c15RawFull) ReadFrom(src io.Reader) (int64, error) {
	w.readFroms++
	return io.Copy(struct{ io.Writer }{w.c15Raw}, src)
}
func (w c15RawFull) Push(target string, opts *http.PushOptions) error {
	w.pushes = append(w.pushes, target)
	return nil
}
func (w c15RawFull) Hijack() (net.Conn, *bufio.ReadWriter, error) {
	w.hijacks++
	return nil, nil, errC15Hijack
}
func (w c15RawFull) SetWriteDeadline(t time.Time) error {
	w.deadlines++
	return nil
}

func (r *c15Raw) as(base string) http.ResponseWriter {
	switch base {
	case "rf":
		return c15RawRF{r}
	case "full":
		return c15RawFull{r}
	}
	return r
}

// ---------- reading the wire ----------

// c15Canon renders wire bytes in the model's format: `G data complete extra` when they start
// like a gzip member (lenient decode of the first member), `R bytes` otherwise.
func c15Canon(b []byte) string {
	if len(b) >= 2 && b[0] == 0x1f && b[1] == 0x8b {
		br := bytes.NewReader(b)
		if zr, err := gzip.NewReader(br); err == nil {
			zr.Multistream(false)
			data, err := io.ReadAll(zr)
			complete := err == nil
			extra := complete && br.Len() > 0
			return wJoin("G", wBytes(data), wBool(complete), wBool(extra))
		}
	}
	return wJoin("R", wBytes(b))
}

// c15Gunzip is what a client does with `Content-Encoding: gzip`.
func c15Gunzip(b []byte) ([]byte, error) {
	zr, err := gzip.NewReader(bytes.NewReader(b))
	if err != nil {
		return nil, err
	}
	return io.ReadAll(zr)
}

// ---------- the handler script ----------

type c15ChunkReader struct {
	chunks      [][]byte
	next        int // the chunk being handed out …
	off         int // … and how much of it has been
	res         *echo.Response
	eofWithData bool // the last bytes come with io.EOF
	failMode    int  // 0 | 1 fails behind the last chunk, error alone | 2 error together with the last bytes
	zeroReads   bool // one (0, nil) before every chunk
	zeroDone    bool
	// the log
	sizes   []int64    // Response.Size at every Read call
	pieces  []c15Piece // what every Read call handed out
	drained bool       // the reader has reported its end (io.EOF or its error)
}

// c15Piece: the bytes one Read call returned: n bytes of chunk number `chunk` (-1: none)
type c15Piece struct{ chunk, n int }

var errC15Reader = errors.New("c15: the reader failed")

func (r *c15ChunkReader) skipEmpty() {
	for r.next < len(r.chunks) && len(r.chunks[r.next]) == 0 {
		r.next++
	}
}

func (r *c15ChunkReader) end() error {
	r.drained = true
	if r.failMode != 0 {
		return errC15Reader
	}
	return io.EOF
}

func (r *c15ChunkReader) Read(p []byte) (int, error) {
	r.sizes = append(r.sizes, r.res.Size)
	r.skipEmpty()
	if r.next >= len(r.chunks) {
		r.pieces = append(r.pieces, c15Piece{-1, 0})
		return 0, r.end()
	}
	if len(p) == 0 || (r.zeroReads && r.off == 0 && !r.zeroDone) {
		r.zeroDone = true
		r.pieces = append(r.pieces, c15Piece{-1, 0})
		return 0, nil
	}
	n := copy(p, r.chunks[r.next][r.off:])
	r.pieces = append(r.pieces, c15Piece{r.next, n})
	r.off += n
	if r.off >= len(r.chunks[r.next]) {
		r.next, r.off, r.zeroDone = r.next+1, 0, false
	}
	r.skipEmpty()
	if r.next >= len(r.chunks) && (r.failMode == 2 || (r.failMode == 0 && r.eofWithData)) {
		return n, r.end()
	}
	return n, nil
}

type c15Trace struct {
	rets     []string // per op, model format
	wrote    []byte   // every byte the handler passed to a Write that was made
	anyWrite bool     // some Write call was made
	anyFlush bool
	badCount string   // first Write whose count was not len(b)
	chosen   int      // status the handler chose
	flushed  [][]byte // bytes written before each Flush
	nestAt   int      // serve the nested request before this op …
	sub      func()   // … by calling this (nil: no nested request)
	ran      bool     // the handler ran
	started  bool     // the handler started the response (some op other than setting a header)
	base     string   // which optional interfaces the underlying writer has
	raw      *c15Raw  // the underlying recorder (nil in tcp mode)
	iface    string   // first optional-interface call that did not behave as on the underlying writer
	tcp      bool     // real connection: the interface ops are left out
	fail     int      // the handler returns this error after its ops (0: none)
}

func c15RunOps(ctx echo.Context, ops []c15Op, tr *c15Trace) {
	res := ctx.Response()
	choose := func(code int) {
		if tr.chosen == 0 {
			tr.chosen = code
		}
	}
	noteCount := func(n int, b []byte, where string) {
		if n != len(b) && tr.badCount == "" {
			tr.badCount = fmt.Sprintf("%s of %d bytes returned %d", where, len(b), n)
		}
	}
	nested := func() {
		if tr.sub != nil {
			sub := tr.sub
			tr.sub = nil
			sub()
		}
	}
	defer nested() // NestAt beyond the last op
	noteIface := func(f string, a ...any) {
		if tr.iface == "" {
			tr.iface = fmt.Sprintf(f, a...)
		}
	}
	full := tr.base == "full"
	for i, op := range ops {
		if i == tr.nestAt {
			nested()
		}
		switch op.K {
		case "H", "W", "F", "S", "T":
			tr.started = true
		}
		switch op.K {
		case "P":
			if tr.tcp {
				break
			}
			// how handlers reach server push: a type assertion on the response's writer
			p, ok := res.Writer.(http.Pusher)
			var err error
			if ok {
				err = p.Push("/pushed", nil)
			}
			supported := ok && err == nil
			if supported != full {
				noteIface("op %d: Push: supported=%v (assertion ok=%v, err=%v) but the underlying writer is a Pusher: %v", i, supported, ok, err, full)
			}
			if ok && !full && !errors.Is(err, http.ErrNotSupported) {
				noteIface("op %d: Push on a writer that cannot push: err=%v, want http.ErrNotSupported", i, err)
			}
		case "J":
			if tr.tcp {
				break
			}
			before := tr.raw.hijacks
			_, _, err := res.Hijack()
			switch {
			case full && (err != errC15Hijack || tr.raw.hijacks != before+1):
				noteIface("op %d: Hijack did not reach the underlying writer (err=%v)", i, err)
			case !full && !errors.Is(err, http.ErrNotSupported):
				noteIface("op %d: Hijack on a writer that cannot be hijacked: err=%v, want http.ErrNotSupported", i, err)
			}
		case "D":
			if tr.tcp {
				break
			}
			before := tr.raw.deadlines
			err := http.NewResponseController(res).SetWriteDeadline(time.Time{})
			switch {
			case full && (err != nil || tr.raw.deadlines != before+1):
				noteIface("op %d: ResponseController.SetWriteDeadline did not reach the underlying writer (err=%v)", i, err)
			case !full && !errors.Is(err, http.ErrNotSupported):
				noteIface("op %d: SetWriteDeadline on a writer without deadlines: err=%v, want http.ErrNotSupported", i, err)
			}
		case "L":
			res.Header().Set(echo.HeaderContentLength, strconv.Itoa(op.N))
			tr.rets = append(tr.rets, "-")
		case "B":
			n := op.N
			res.Before(func() { res.Header().Set(echo.HeaderContentLength, strconv.Itoa(n)) })
			if c15HookAt(ops, i, tr.fail) >= 0 {
				tr.rets = append(tr.rets, "-") // the model's `L n` (every op between here and the commit returns nothing either)
			}
		case "H":
			choose(op.Code)
			res.WriteHeader(op.Code)
			tr.rets = append(tr.rets, "-")
		case "W":
			choose(http.StatusOK)
			b := []byte(op.Data)
			n, err := res.Write(b)
			tr.anyWrite = true
			tr.wrote = append(tr.wrote, b...)
			noteCount(n, b, fmt.Sprintf("op %d: Write", i))
			if err != nil && tr.badCount == "" {
				tr.badCount = fmt.Sprintf("op %d: Write failed: %v", i, err)
			}
			tr.rets = append(tr.rets, wJoin("w", wInt(n)))
		case "F":
			choose(http.StatusOK)
			res.Flush()
			tr.anyFlush = true
			tr.flushed = append(tr.flushed, append([]byte(nil), tr.wrote...))
			tr.rets = append(tr.rets, "-")
		case "S":
			choose(op.Code)
			var chunks [][]byte
			for _, c := range op.Chunks {
				chunks = append(chunks, []byte(c))
			}
			rd := &c15ChunkReader{chunks: chunks, res: res, eofWithData: op.EOFWithData, failMode: op.ReaderErr, zeroReads: op.ZeroReads}
			result := 0
			func() {
				defer func() {
					if p := recover(); p != nil {
						result = 2
					}
				}()
				if err := ctx.Stream(op.Code, "application/octet-stream", rd); err != nil {
					result = 1
				}
			}()
			wantResult := 0
			if op.ReaderErr != 0 {
				wantResult = 1 // the helper must hand the reader's error on - after having written what came before it
			}
			sizes := append(rd.sizes, res.Size)
			var counts []string
			total := 0
			for _, c := range op.Chunks {
				total += len(c)
			}
			if result == wantResult && rd.drained && len(rd.sizes) > 0 && int(res.Size-rd.sizes[0]) == total {
				// the helper ended as it should and the response has grown by exactly what the reader
				// yielded: every chunk went through with its own length (how the copy was cut into
				// Write calls - one per Read, or a ReadFrom fast path - is not the handler's business)
				for _, c := range op.Chunks {
					if len(c) == 0 {
						continue
					}
					tr.anyWrite = true
					tr.wrote = append(tr.wrote, c...)
					counts = append(counts, wInt(len(c)))
				}
			} else {
				// something went wrong: what Read call j handed out was passed to Write between Read call j
				// and Read call j+1 (the end of the helper for the last one); a chunk's count is the sum
				// over its pieces
				grown := make([]int, len(op.Chunks))
				asked := make([]bool, len(op.Chunks))
				for j, pc := range rd.pieces {
					if pc.chunk >= 0 && j+1 < len(sizes) {
						grown[pc.chunk] += int(sizes[j+1] - sizes[j])
						asked[pc.chunk] = true
					}
				}
				k := 0
				for ci, c := range op.Chunks {
					if len(c) == 0 {
						continue
					}
					if !asked[ci] {
						break // never asked for
					}
					n := grown[ci]
					tr.anyWrite = true
					tr.wrote = append(tr.wrote, c...)
					noteCount(n, []byte(c), fmt.Sprintf("op %d: Stream chunk %d", i, k))
					counts = append(counts, wInt(n))
					k++
					if n != len(c) {
						break
					}
				}
				if result == 0 && !rd.drained && tr.badCount == "" {
					tr.badCount = fmt.Sprintf("op %d: Stream reported success but stopped reading before the reader's end (%d of %d bytes asked for)", i, func() int {
						a := 0
						for _, pc := range rd.pieces {
							a += pc.n
						}
						return a
					}(), total)
				}
			}
			// (a helper that reports success although its reader failed has not broken what the client recovers:
			// that difference is left to the comparison with the model)
			if (result == 2 || (result == 1 && wantResult == 0)) && tr.badCount == "" {
				tr.badCount = fmt.Sprintf("op %d: Stream failed (result %d)", i, result)
			}
			tr.rets = append(tr.rets, wJoin(append([]string{"s", wInt(result), wInt(len(counts))}, counts...)...))
		case "T":
			choose(op.Code)
			before := res.Size
			result := 0
			func() {
				defer func() {
					if p := recover(); p != nil {
						result = 2
					}
				}()
				if err := ctx.Stream(op.Code, "text/plain", strings.NewReader(string(op.Data))); err != nil {
					result = 1
				}
			}()
			var counts []string
			if len(op.Data) > 0 {
				n := int(res.Size - before)
				tr.anyWrite = true
				tr.wrote = append(tr.wrote, op.Data...)
				noteCount(n, []byte(op.Data), fmt.Sprintf("op %d: Stream(strings.Reader)", i))
				counts = append(counts, wInt(n))
			}
			if result != 0 && tr.badCount == "" {
				tr.badCount = fmt.Sprintf("op %d: Stream(strings.Reader) failed (result %d)", i, result)
			}
			tr.rets = append(tr.rets, wJoin(append([]string{"s", wInt(result), wInt(len(counts))}, counts...)...))
		}
	}
}

func c15OpLine(op c15Op) string {
	switch op.K {
	case "L":
		return wJoin("L", wInt(op.N))
	case "H":
		return wJoin("H", wInt(op.Code))
	case "W":
		return wJoin("W", wStr(string(op.Data)))
	case "F":
		return "F"
	case "S":
		parts := []string{"S", wInt(op.Code), wInt(len(op.Chunks))}
		for _, c := range op.Chunks {
			parts = append(parts, wStr(string(c)))
		}
		parts = append(parts, wBool(op.ReaderErr != 0))
		return strings.Join(parts, " ")
	case "T":
		return wJoin("T", wInt(op.Code), wStr(string(op.Data)))
	}
	return "?"
}

// c15Commits: the op commits the response (echo.Response.WriteHeader runs, and with it the Before hooks)
func c15Commits(op c15Op) bool {
	switch op.K {
	case "H", "W", "F", "S", "T":
		return true
	}
	return false
}

// c15HookAt: where the Content-Length set by the Before hook that ops[i] (a "B" op) registers takes effect: the
// index of the op that commits the response (the hook runs inside it, before the writer below echo.Response sees
// the status); len(ops) when the commit is the error handler's answer; -1 when the hook never runs (the response
// was committed before the hook was registered, or is never committed by echo).
func c15HookAt(ops []c15Op, i int, fail int) int {
	for j := 0; j < i; j++ {
		if c15Commits(ops[j]) {
			return -1
		}
	}
	for j := i + 1; j < len(ops); j++ {
		if c15Commits(ops[j]) {
			return j
		}
	}
	if fail != 0 {
		return len(ops)
	}
	return -1
}

// c15MOp: one op of the program as the model sees it, and the index in the handler's program it belongs to
type c15MOp struct {
	op     c15Op
	anchor int
}

// c15ModelProg: the handler's program in the model's vocabulary: without the interface probes, and with every
// Before hook that sets Content-Length (B) as a plain `L n` directly before the op during which the hook runs.
func c15ModelProg(rq c15Req) []c15MOp {
	late := map[int][]c15Op{}
	for i, op := range rq.Ops {
		if op.K == "B" {
			if at := c15HookAt(rq.Ops, i, rq.Fail); at >= 0 {
				late[at] = append(late[at], c15Op{K: "L", N: op.N})
			}
		}
	}
	var out []c15MOp
	for i, op := range rq.Ops {
		for _, l := range late[i] {
			out = append(out, c15MOp{l, i})
		}
		if op.K != "B" && c15IsModelOp(op) {
			out = append(out, c15MOp{op, i})
		}
	}
	for _, l := range late[len(rq.Ops)] {
		out = append(out, c15MOp{l, len(rq.Ops)})
	}
	return out
}

// ---------- Run: Gzip ----------

type c15Out struct {
	obs    string
	oracle string
	tags   []string
	nontr  bool
	facts  c15Facts
}

// c15Facts: what c15Tolerable needs to know about one response beyond what its observation tokens say (the
// observation shows the DECODED body, so the number of bytes on the wire is not in it)
type c15Facts struct {
	known    bool     // the response was observed (no panic, not a placeholder)
	grey     bool     // Gzip: whether this Accept-Encoding value offers gzip is not fixed by the property (see c15Offer) and the request is not skipped
	bodyless bool     // Gzip: the handler made no Write and no Flush call
	ownCL    []string // Gzip: the Content-Length values the handler set itself (L and B ops)
	onOwn    bool     // Gzip: grey, and the handler labels its body itself: whether the middleware is in play - and with it who answers for Content-Encoding - is open
	encFree  bool     // Gzip: the client accepts gzip, the request is not skipped, the handler does not label the body itself and the compressor can be built
	badLevel bool     // Gzip: the middleware wraps this request but compress/gzip rejects the configured level (a configuration the property does not speak about)
	ran      bool     // the handler ran
	rawLen   int      // Gzip: bytes of body on the wire
	status   int      // status on the wire
}

// c15Side: the facts of the responses of a case, in the order of the observation line, keyed by the case (pointer)
var c15Side sync.Map

// c15Env: what the requests of one case share
type c15Env struct {
	e         *echo.Echo
	minLength int  // the threshold the middleware works with (after its defaults)
	skipper   bool // the config has a Skipper
	levelOK   bool // gzip.NewWriterLevel accepts the level
	base      string
}

func c15IsModelOp(op c15Op) bool { return op.K != "P" && op.K != "J" && op.K != "D" }

// c15ServeGzip serves a request and, from inside its handler, the request nested in it;
// results in pre-order (outer first).
// c15NestedOf: the request the handler of rq serves from inside.  None when it is open whether that handler runs at
// all - a grey-zone Accept-Encoding (c15Offer) under a compression level compress/gzip rejects: the middleware may
// refuse the request (it acts on it and cannot build its compressor) or serve it (it does not act on it) - because
// then it is open as well whether the nested request exists, and the number of responses could not be compared.
func c15NestedOf(env *c15Env, rq c15Req) *c15Req {
	if rq.Nested != nil && !env.levelOK && c15Offer(rq.AE) == 1 && !(env.skipper && rq.Skip) {
		return nil
	}
	return rq.Nested
}

func c15ServeGzip(env *c15Env, rq c15Req) []c15Out {
	rq.Nested = c15NestedOf(env, rq)
	var inner []c15Out
	var sub func()
	if rq.Nested != nil {
		n := *rq.Nested
		n.Nested = nil
		sub = func() { inner = c15ServeGzip(env, n) }
	}
	out, ran := c15ServeGzip1(env, rq, sub)
	if rq.Nested != nil {
		out.tags = append(out.tags, "nested-request")
		if rq.NestRaw > 0 {
			out.tags = append(out.tags, "nested-request:while-the-outer-response-is-delivered")
		}
		if ran && len(inner) == 0 {
			inner = []c15Out{{obs: "not-served", oracle: "the nested request was not served"}}
		}
		for i := range inner {
			if inner[i].oracle != "" {
				inner[i].oracle = "nested request: " + inner[i].oracle
			}
		}
	}
	return append([]c15Out{out}, inner...)
}

func c15ServeGzip1(env *c15Env, rq c15Req, sub func()) (out c15Out, ran bool) {
	defer func() {
		if p := recover(); p != nil {
			out.obs = "panic"
			out.oracle = fmt.Sprintf("panic: %v", p)
		}
	}()
	raw := newC15Raw()
	req := httptest.NewRequest(http.MethodGet, "/", nil)
	if rq.AE != "" {
		req.Header.Set(echo.HeaderAcceptEncoding, rq.AE)
	}
	if rq.Skip {
		req.Header.Set("X-Skip", "1")
	}
	tr := &c15Trace{nestAt: rq.NestAt, sub: sub, base: env.base, raw: raw}
	if rq.NestRaw > 0 && sub != nil {
		// the nested request is served while the outer response is being delivered (only if there is an outer
		// handler run to speak of: a request refused before its handler ran serves nothing)
		tr.sub, tr.nestAt = nil, -1
		raw.hookAt = rq.NestRaw
		raw.hook = func() {
			if tr.ran {
				sub()
			}
		}
	}
	req = req.WithContext(c15WithTrace(req.Context(), tr, rq))
	env.e.ServeHTTP(raw.as(env.base), req)
	if raw.hook != nil { // fewer calls than NestRaw: right after the chain has returned
		h := raw.hook
		raw.hook = nil
		h()
	}
	raw.commit(http.StatusOK) // what net/http does when the handler returns without writing

	// ---- observation
	ce := raw.sent.Get(echo.HeaderContentEncoding)
	cl := raw.sent.Get(echo.HeaderContentLength)
	vary := false
	for _, v := range raw.sent.Values(echo.HeaderVary) {
		if strings.Contains(v, echo.HeaderAcceptEncoding) {
			vary = true
		}
	}
	parts := []string{wInt(raw.status), wBool(ce == "gzip")}
	if cl == "" {
		parts = append(parts, "0")
	} else {
		parts = append(parts, "1", cl)
	}
	parts = append(parts, wBool(vary), c15Canon(raw.body), wInt(len(raw.flushAt)))
	for _, at := range raw.flushAt {
		parts = append(parts, c15Canon(raw.body[:at]))
	}
	parts = append(parts, wInt(len(tr.rets)))
	parts = append(parts, tr.rets...)
	out.obs = strings.Join(parts, " ")

	offer := c15Offer(rq.AE)
	mayAct := offer > 0 && !(env.skipper && rq.Skip)
	grey := offer == 1 && mayAct
	out.facts = c15Facts{known: true, encFree: mayAct && env.levelOK && !rq.Preset, badLevel: mayAct && !env.levelOK,
		grey: grey, onOwn: grey && env.levelOK && rq.Preset, bodyless: !tr.anyWrite && !tr.anyFlush, ownCL: c15OwnCL(rq),
		ran: tr.ran, rawLen: len(raw.body), status: raw.status}

	w := c15Wire{status: raw.status, ce: ce, cl: cl, body: raw.body, flushAt: raw.flushAt, haveFlush: true}
	c15JudgeGzip(env, rq, tr, w, &out)
	if env.base != "" && raw.readFroms > 0 {
		out.tags = append(out.tags, "base-writer:ReadFrom-reached")
	}
	return out, tr.ran
}

// c15Offer: does an Accept-Encoding value offer gzip?  2: yes - one of its comma separated elements is exactly the
// coding `gzip`, without a `q=0` parameter; 0: no - the letters "gzip" do not occur in it, in any case; 1: the grey zone
// (`GZIP`, `gzip;q=0`, `x-gzip`, `xgzip` …): the property quantifies over Accept-Encoding values without saying which
// of these count as an offer, so the middleware may or may not act on such a request - what it sends must be
// consistent with itself either way.
func c15Offer(ae string) int {
	if !strings.Contains(strings.ToLower(ae), "gzip") {
		return 0
	}
	for _, el := range strings.Split(ae, ",") {
		name, params, _ := strings.Cut(el, ";")
		if strings.TrimSpace(name) != "gzip" {
			continue
		}
		refused := false
		for _, p := range strings.Split(params, ";") {
			k, v, _ := strings.Cut(p, "=")
			if strings.EqualFold(strings.TrimSpace(k), "q") {
				if q, err := strconv.ParseFloat(strings.TrimSpace(v), 64); err != nil || q == 0 {
					refused = true // (an unparsable quality value is grey as well)
				}
			}
		}
		if !refused {
			return 2
		}
	}
	return 1
}

func c15OwnCL(rq c15Req) []string {
	var out []string
	for _, op := range rq.Ops {
		if op.K == "L" || op.K == "B" {
			out = append(out, strconv.Itoa(op.N))
		}
	}
	return out
}

// c15Wire: what the client got
type c15Wire struct {
	status    int
	ce, cl    string
	body      []byte
	flushAt   []int
	haveFlush bool // flushAt is known (recording writer)
}

// c15JudgeGzip is the model-free oracle for one response, and the evidence tags.
func c15JudgeGzip(env *c15Env, rq c15Req, tr *c15Trace, w c15Wire, out *c15Out) {
	fail := func(f string, a ...any) {
		if out.oracle == "" {
			out.oracle = fmt.Sprintf(f, a...)
		}
	}
	gz := strings.Contains(rq.AE, "gzip")
	skipped := env.skipper && rq.Skip
	active := gz && !skipped // the middleware wraps the writer (the rule of the code as it is: for the tags)
	// what the property fixes: an exact `gzip` token is an offer, no "gzip" anywhere is none; in between (c15Offer) the
	// middleware may act or not
	offer := c15Offer(rq.AE)
	mayAct := offer > 0 && !skipped
	mustAct := offer == 2 && !skipped
	ce, cl := w.ce, w.cl
	if mayAct && !env.levelOK && !tr.ran {
		// a compression level compress/gzip rejects: the property says nothing about a
		// middleware that cannot be built; what happens (500, handler not run) is compared with
		// the model only.  (Had the handler run, its response would be judged like any other.)
		out.tags = append(out.tags, "ae:"+rq.AE, "invalid-level:handler-not-run")
		return
	}
	if !tr.ran {
		fail("the handler did not run")
	}
	if tr.badCount != "" {
		fail("write count: %s", tr.badCount)
	}
	if tr.iface != "" {
		fail("optional interface: %s", tr.iface)
	}
	// what the client is to get: the handler's bytes and status; if the handler returned an
	// error without having started its response, the error handler's answer instead
	chosen := tr.chosen
	if chosen == 0 {
		chosen = http.StatusOK
	}
	wantBody := tr.wrote
	errorAnswer := rq.Fail != 0 && !tr.started
	if errorAnswer {
		chosen = rq.Fail
		wantBody = []byte(fmt.Sprintf("E%d", rq.Fail))
	}
	if w.status != chosen {
		fail("status on the wire %d, the handler chose %d", w.status, chosen)
	}
	// a handler that labels its own bytes as gzip is on its own as soon as it sends a body, or
	// when the middleware is not in play; with the middleware in play and no body the header must go
	// (grey zone: whether the middleware is in play is its own decision, so the handler's header may stay or go)
	lyingHandler := rq.Preset && (!mustAct || tr.anyWrite || tr.anyFlush)
	if !lyingHandler {
		decoded, isGz := w.body, false
		if d, err := c15Gunzip(w.body); err == nil {
			isGz = true
			if ce == "gzip" {
				decoded = d
			}
		} else if ce == "gzip" {
			fail("Content-Encoding: gzip but the body (%d bytes) is not a well-formed gzip stream: %v", len(w.body), err)
		}
		if ce != "" && ce != "gzip" {
			fail("unexpected Content-Encoding %q", ce)
		}
		if isGz && ce != "gzip" {
			fail("the body is a gzip stream but Content-Encoding: gzip is missing")
		}
		if out.oracle == "" && !bytes.Equal(decoded, wantBody) {
			fail("client recovers %d bytes %q, the handler wrote %d bytes %q", len(decoded), c15Clip(decoded), len(wantBody), c15Clip(wantBody))
		}
		if skipped && ce != "" {
			fail("skipped request went out with Content-Encoding %q", ce)
		}
	}
	// a length the handler announced truthfully must still be true on the wire (a handler that
	// announces a wrong length is on its own)
	honest := !errorAnswer
	for _, op := range rq.Ops {
		if (op.K == "L" || op.K == "B") && op.N != len(tr.wrote) {
			honest = false
		}
	}
	if cl != "" && honest {
		if n, err := strconv.Atoi(cl); err != nil || n != len(w.body) {
			fail("Content-Length %q on the wire, body has %d bytes", cl, len(w.body))
		}
	}
	if !tr.anyWrite && !tr.anyFlush && !errorAnswer && len(w.body) != 0 {
		fail("body-less response (no Write, no Flush) has %d bytes on the wire", len(w.body))
	}
	if w.haveFlush && !lyingHandler {
		for i, at := range w.flushAt {
			if i >= len(tr.flushed) {
				break
			}
			got := w.body[:at]
			if ce == "gzip" {
				// everything written before the Flush must be decodable from what is on the wire
				got = nil
				if zr, err := gzip.NewReader(bytes.NewReader(w.body[:at])); err == nil {
					got, _ = io.ReadAll(zr)
				}
			}
			if !bytes.Equal(got, tr.flushed[i]) {
				fail("after Flush %d the client can read %d bytes, the handler had written %d", i, len(got), len(tr.flushed[i]))
			}
		}
	}

	// ---- tags
	minLength := env.minLength
	out.tags = append(out.tags, "ae:"+rq.AE)
	switch {
	case len(w.body) == 0:
		out.tags = append(out.tags, "wire:empty")
	case ce == "gzip":
		out.tags = append(out.tags, "wire:gzip")
	default:
		out.tags = append(out.tags, "wire:identity")
	}
	if skipped {
		out.tags = append(out.tags, "skipped-by-Skipper")
	}
	if rq.Preset {
		out.tags = append(out.tags, "handler-set-content-encoding")
		if active && !tr.anyWrite && !tr.anyFlush {
			out.tags = append(out.tags, "handler-set-content-encoding:body-less")
		}
	}
	if rq.Fail != 0 {
		if errorAnswer {
			out.tags = append(out.tags, "handler-error:before-start(error handler answers)")
		} else {
			out.tags = append(out.tags, "handler-error:after-start")
		}
	}
	if active {
		// where did the switch to compression happen?
		buffered, bodyOps, switched := 0, 0, ""
		for _, op := range rq.Ops {
			var sizes []int
			switch op.K {
			case "W":
				sizes = []int{len(op.Data)}
			case "T":
				if len(op.Data) > 0 {
					sizes = []int{len(op.Data)}
				}
			case "S":
				for _, c := range op.Chunks {
					if len(c) > 0 {
						sizes = append(sizes, len(c))
					}
				}
			case "F":
				if switched == "" {
					switched = "by-flush"
					if bodyOps > 0 {
						switched = "by-flush-after-writes"
					}
				}
			}
			for _, n := range sizes {
				if switched == "" {
					buffered += n
					if buffered >= minLength {
						if bodyOps == 0 {
							switched = "first-write"
						} else {
							switched = "later-write"
						}
					}
				}
				bodyOps++
			}
		}
		if switched == "" {
			if bodyOps == 0 {
				switched = "no-body"
			} else {
				switched = "never(below-threshold)"
				if bodyOps >= 2 {
					out.nontr = true
				}
			}
		}
		out.tags = append(out.tags, "switch:"+switched)
		if switched == "later-write" || switched == "by-flush" || switched == "by-flush-after-writes" {
			out.nontr = true
		}
	}
	for _, op := range rq.Ops {
		switch op.K {
		case "S", "T":
			out.tags = append(out.tags, "stream")
			if op.K == "S" {
				some, big := false, false
				for _, c := range op.Chunks {
					some = some || len(c) > 0
					big = big || len(c) >= 32*1024
				}
				switch {
				case op.ReaderErr == 2 && some:
					out.tags = append(out.tags, "stream:last-bytes-with-error")
				case op.ReaderErr != 0:
					out.tags = append(out.tags, "stream:reader-fails-after-last-bytes")
				case op.EOFWithData && some:
					out.tags = append(out.tags, "stream:last-bytes-with-EOF")
				}
				if op.ZeroReads && some {
					out.tags = append(out.tags, "stream:reads-returning-(0,nil)")
				}
				if big {
					out.tags = append(out.tags, "stream:chunk>=32KiB(copy buffer)")
				}
			}
		case "P":
			out.tags = append(out.tags, "iface:Push")
		case "J":
			out.tags = append(out.tags, "iface:Hijack")
		case "D":
			out.tags = append(out.tags, "iface:ResponseController(Unwrap)")
		}
	}
	if len(rq.Ops) > 0 && rq.Ops[0].K == "L" {
		out.tags = append(out.tags, "handler-set-content-length")
	}
	for i, op := range rq.Ops {
		if op.K == "B" {
			if c15HookAt(rq.Ops, i, rq.Fail) >= 0 {
				out.tags = append(out.tags, "handler-set-content-length:from-Before-hook")
			} else {
				out.tags = append(out.tags, "handler-set-content-length:from-Before-hook(never run)")
			}
		}
	}
}

func c15Clip(b []byte) string {
	if len(b) > 40 {
		return string(b[:40]) + "…"
	}
	return string(b)
}

// ---------- Run: Decompress ----------

func c15Gz(data []byte) []byte {
	var buf bytes.Buffer
	zw := gzip.NewWriter(&buf)
	zw.Write(data)
	zw.Close()
	return buf.Bytes()
}

func c15DBody(d c15DReq) []byte {
	if !d.Gzip {
		return []byte(d.Plain)
	}
	var b []byte
	for _, m := range d.Members {
		b = append(b, c15Gz([]byte(m))...)
	}
	switch d.Defect {
	case 1:
		b = append(b, "xyz-not-gzip"...)
	case 2:
		b = b[:len(b)-4]
	case 3:
		b[len(b)-8] ^= 0x55
	}
	return b
}

// c15ServeDecompress serves a request and, from inside its handler (between two of its body
// reads), the request nested in it; results in pre-order.  The nested request is only there
// when the outer handler ran.
func c15ServeDecompress(e c15Server, skipper bool, d c15DReq) []c15Out {
	var inner []c15Out
	var sub func()
	if d.Nested != nil {
		n := *d.Nested
		n.Nested = nil
		sub = func() { inner = c15ServeDecompress(e, skipper, n) }
	}
	out, ran := c15ServeDecompress1(e, skipper, d, sub)
	if d.Nested != nil {
		out.tags = append(out.tags, "nested-request")
		if ran && len(inner) == 0 {
			inner = []c15Out{{obs: "not-served", oracle: "the nested request was not served"}}
		}
		for i := range inner {
			if inner[i].oracle != "" {
				inner[i].oracle = "nested request: " + inner[i].oracle
			}
		}
	}
	return append([]c15Out{out}, inner...)
}

type c15Server interface {
	ServeHTTP(http.ResponseWriter, *http.Request)
}

// c15Once serves every request through one handler chain built once from the constructor.
type c15Once struct {
	e *echo.Echo
	h echo.HandlerFunc
}

func (o c15Once) ServeHTTP(w http.ResponseWriter, r *http.Request) {
	ctx := o.e.NewContext(r, w)
	if err := o.h(ctx); err != nil {
		o.e.HTTPErrorHandler(err, ctx)
	}
}

// c15PieceReader hands out at most n bytes per Read (and hides the length of what it wraps)
type c15PieceReader struct {
	r           *bytes.Reader
	n           int
	eofWithData bool // the last bytes come together with io.EOF
}

func (p *c15PieceReader) Read(b []byte) (int, error) {
	if p.n > 0 && len(b) > p.n {
		b = b[:p.n]
	}
	n, err := p.r.Read(b)
	if p.eofWithData && err == nil && n > 0 && p.r.Len() == 0 {
		err = io.EOF
	}
	return n, err
}

// c15DRequestBody: the body as the server hands it to the handler chain
func c15DRequestBody(d c15DReq, wire []byte) io.Reader {
	if d.Unknown || d.Chunk > 0 || d.EOFWithData {
		return &c15PieceReader{bytes.NewReader(wire), d.Chunk, d.EOFWithData}
	}
	return bytes.NewReader(wire)
}

func c15ServeDecompress1(e c15Server, skipper bool, d c15DReq, sub func()) (out c15Out, ran bool) {
	defer func() {
		if p := recover(); p != nil {
			out.obs = "panic"
			out.oracle = fmt.Sprintf("panic: %v", p)
		}
	}()
	wire := c15DBody(d)
	req := httptest.NewRequest(http.MethodPost, "/", c15DRequestBody(d, wire))
	if d.Unknown {
		// what a server sets for a chunked upload
		req.ContentLength = -1
		req.TransferEncoding = []string{"chunked"}
	} else {
		req.ContentLength = int64(len(wire))
	}
	if d.CE != "" {
		req.Header.Set(echo.HeaderContentEncoding, d.CE)
	}
	if d.Skip {
		req.Header.Set("X-Skip", "1")
	}
	seen := &c15DSeen{nestAfter: d.NestAfter, sub: sub}
	req = req.WithContext(c15WithDSeen(req.Context(), seen))
	rec := httptest.NewRecorder()
	e.ServeHTTP(rec, req)
	c15JudgeDecompress(skipper, d, wire, seen, rec.Code, &out)
	out.facts = c15Facts{known: true, ran: seen.ran, status: rec.Code}
	return out, seen.ran
}

// c15JudgeDecompress: observation, model-free oracle and tags for one Decompress request
func c15JudgeDecompress(skipper bool, d c15DReq, wire []byte, seen *c15DSeen, status int, out *c15Out) {
	view := wJoin("B", wBytes(seen.data))
	if d.Gzip && seen.ran && bytes.Equal(seen.data, wire) {
		view = "U"
	}
	if !seen.ran {
		out.obs = wJoin("0", "B", "s", wBool(status >= 500))
	} else {
		out.obs = wJoin("1", view, wBool(seen.err != nil))
	}
	fail := func(f string, a ...any) {
		if out.oracle == "" {
			out.oracle = fmt.Sprintf(f, a...)
		}
	}
	var want []byte
	for _, m := range d.Members {
		want = append(want, m...)
	}
	if d.Unknown {
		out.tags = append(out.tags, "decompress:length-unknown(chunked)")
	}
	if d.Chunk > 0 {
		out.tags = append(out.tags, "decompress:body-in-pieces")
	}
	if d.EOFWithData && len(wire) > 0 {
		out.tags = append(out.tags, "decompress:last-bytes-with-EOF")
	}
	switch {
	case skipper && d.Skip:
		out.tags = append(out.tags, "decompress:skipped-by-Skipper")
		if !seen.ran || seen.err != nil || !bytes.Equal(seen.data, wire) {
			fail("skipped request: the body must reach the handler untouched (ran=%v err=%v, %d of %d bytes)", seen.ran, seen.err, len(seen.data), len(wire))
		}
	case d.CE != "gzip":
		out.tags = append(out.tags, "decompress:other-encoding")
		if !seen.ran || seen.err != nil || !bytes.Equal(seen.data, wire) {
			fail("Content-Encoding %q: the body must reach the handler untouched (ran=%v err=%v, %d of %d bytes)", d.CE, seen.ran, seen.err, len(seen.data), len(wire))
		}
	case d.Gzip && d.Defect == 0:
		out.tags = append(out.tags, "decompress:gzip")
		out.nontr = true
		if !seen.ran || seen.err != nil || !bytes.Equal(seen.data, want) {
			fail("gzip body: handler must see the %d decompressed bytes (ran=%v err=%v, saw %d bytes %q)", len(want), seen.ran, seen.err, len(seen.data), c15Clip(seen.data))
		}
	case d.Gzip:
		out.tags = append(out.tags, "decompress:damaged-gzip")
		if seen.ran && seen.err == nil {
			fail("damaged gzip body (defect %d) was read to the end without an error", d.Defect)
		}
		if seen.ran && !bytes.HasPrefix(want, seen.data) {
			fail("damaged gzip body: the handler saw bytes that are not in the original")
		}
	case len(wire) == 0:
		out.tags = append(out.tags, "decompress:empty-body")
		if !seen.ran || len(seen.data) != 0 {
			fail("empty body with Content-Encoding: gzip: handler must run and see an empty body")
		}
	default:
		out.tags = append(out.tags, "decompress:not-gzip-labelled-gzip")
		if seen.ran && seen.err == nil {
			fail("a body that is not gzip, labelled gzip, was read without an error")
		}
	}
}

// ---------- context plumbing between the harness and the handlers ----------

type c15Key int

const (
	c15TraceKey c15Key = iota
	c15DSeenKey
)

type c15Script struct {
	tr *c15Trace
	rq c15Req
	mu *sync.Mutex // tcp mode: held by the handler while it runs, taken by the client side before it reads tr
}

type c15DSeen struct {
	mu            sync.Mutex // tcp mode: held by the handler while it runs
	contentLength int64      // Request.ContentLength as the handler saw it (tcp mode)
	ran           bool
	data          []byte
	err           error
	nestAfter     int    // read this many bytes, then …
	sub           func() // … serve the nested request (nil: none), then read the rest
}

// c15ReadBody is the Decompress handler's body: all of the request body, with the nested
// request (if any) served in the middle.
func c15ReadBody(body io.Reader, seen *c15DSeen) {
	done := false
	if seen.sub != nil {
		buf := make([]byte, 37)
		for len(seen.data) < seen.nestAfter && !done {
			k := seen.nestAfter - len(seen.data)
			if k > len(buf) {
				k = len(buf)
			}
			n, err := body.Read(buf[:k])
			seen.data = append(seen.data, buf[:n]...)
			if err == io.EOF {
				done = true
			} else if err != nil {
				seen.err, done = err, true
			}
		}
		seen.sub()
	}
	if !done {
		rest, err := io.ReadAll(body)
		seen.data = append(seen.data, rest...)
		seen.err = err
	}
}

func c15WithTrace(ctx context.Context, tr *c15Trace, rq c15Req) context.Context {
	return context.WithValue(ctx, c15TraceKey, &c15Script{tr: tr, rq: rq})
}

func c15WithDSeen(ctx context.Context, seen *c15DSeen) context.Context {
	return context.WithValue(ctx, c15DSeenKey, seen)
}

// ---------- Run ----------

func c15SkipHeader(ctx echo.Context) bool { return ctx.Request().Header.Get("X-Skip") == "1" }

// c15ErrorHandler is the application's HTTPErrorHandler: like the default one it leaves a
// committed response alone; otherwise status = the error's code, body = "E<code>".
func c15ErrorHandler(err error, ctx echo.Context) {
	if ctx.Response().Committed {
		return
	}
	code := http.StatusInternalServerError
	var he *echo.HTTPError
	if errors.As(err, &he) {
		code = he.Code
	}
	_ = ctx.String(code, fmt.Sprintf("E%d", code))
}

func c15GzipHandler(table func(id string) *c15Script) echo.HandlerFunc {
	return func(ctx echo.Context) error {
		var sc *c15Script
		if id := ctx.Request().Header.Get("X-C15-Id"); id != "" && table != nil {
			sc = table(id)
		} else {
			sc, _ = ctx.Request().Context().Value(c15TraceKey).(*c15Script)
		}
		if sc == nil {
			return errors.New("c15: request without a script")
		}
		if sc.mu != nil {
			sc.mu.Lock()
			defer sc.mu.Unlock()
		}
		sc.tr.ran = true
		sc.tr.fail = sc.rq.Fail
		if sc.rq.Preset {
			ctx.Response().Header().Set(echo.HeaderContentEncoding, "gzip")
		}
		c15RunOps(ctx, sc.rq.Ops, sc.tr)
		if sc.rq.Fail != 0 {
			return echo.NewHTTPError(sc.rq.Fail)
		}
		return nil
	}
}

func wSigned(n int) string {
	if n < 0 {
		return wJoin(wBool(true), wInt(-n))
	}
	return wJoin(wBool(false), wInt(n))
}

func c15Run(ci any) (res Result) {
	c := ci.(*c15Case)
	defer func() {
		if p := recover(); p != nil {
			res.Obs = "panic"
			res.Oracle = fmt.Sprintf("panic: %v", p)
		}
	}()
	e := echo.New()
	e.HideBanner = true
	e.HTTPErrorHandler = c15ErrorHandler
	var outs []c15Out
	var ops []string
	tags := []string{"kind:" + c.Kind}
	switch c.Kind {
	case "gzip":
		env := &c15Env{e: e, base: c.Base}
		var mw echo.MiddlewareFunc
		if c.Ctor == "plain" {
			mw = middleware.Gzip()
			env.minLength, env.levelOK = 0, true
			tags = append(tags, "ctor:Gzip()")
			ops = []string{"G", wBool(true), wSigned(0), wSigned(0)}
		} else {
			cfg := middleware.GzipConfig{MinLength: c.MinLength, Level: c.Level}
			if c.Skipper {
				cfg.Skipper = c15SkipHeader
				env.skipper = true
				tags = append(tags, "config:Skipper")
			}
			mw = middleware.GzipWithConfig(cfg)
			env.minLength = c.MinLength
			if c.MinLength < 0 {
				env.minLength = 0
				tags = append(tags, "config:MinLength<0")
			}
			env.levelOK = c.Level >= gzip.HuffmanOnly && c.Level <= gzip.BestCompression
			if !env.levelOK {
				tags = append(tags, "config:invalid-level")
			}
			ops = []string{"G", wBool(false), wSigned(c.Level), wSigned(c.MinLength)}
		}
		if c.Base != "" {
			tags = append(tags, "base-writer:"+c.Base)
		}
		e.Use(mw)
		if c.Wire == "tcp" {
			return c15RunGzipTCP(c, env, tags)
		}
		e.GET("/", c15GzipHandler(nil))
		ops = append(ops, wInt(len(c.Reqs)))
		reqLine := func(rq c15Req) {
			ops = append(ops, wBool(env.skipper && rq.Skip), wBool(rq.Preset))
			if rq.Fail != 0 {
				ops = append(ops, "1", wInt(rq.Fail))
			} else {
				ops = append(ops, "0")
			}
			prog := c15ModelProg(rq)
			ops = append(ops, wStr(rq.AE), wInt(len(prog)))
			for _, m := range prog {
				ops = append(ops, c15OpLine(m.op))
			}
		}
		for _, rq := range c.Reqs {
			rq.Nested = c15NestedOf(env, rq)
			reqLine(rq)
			if rq.Nested == nil {
				ops = append(ops, "0")
			} else {
				// the position among the ops the model knows
				at := 0
				for _, m := range c15ModelProg(rq) {
					if m.anchor < rq.NestAt {
						at++
					}
				}
				if rq.NestAt >= len(rq.Ops) || rq.NestRaw > 0 {
					at = len(rq.Ops)
				}
				ops = append(ops, "1", wInt(at))
				reqLine(*rq.Nested)
			}
		}
		per := make([][]c15Out, len(c.Reqs))
		if c.Concurrent {
			var wg sync.WaitGroup
			for i := range c.Reqs {
				wg.Add(1)
				go func(i int) {
					defer wg.Done()
					per[i] = c15ServeGzip(env, c.Reqs[i])
				}(i)
			}
			wg.Wait()
		} else {
			for i := range c.Reqs {
				per[i] = c15ServeGzip(env, c.Reqs[i])
			}
		}
		for _, p := range per {
			outs = append(outs, p...)
		}
	case "decompress":
		handler := func(ctx echo.Context) error {
			seen, _ := ctx.Request().Context().Value(c15DSeenKey).(*c15DSeen)
			if seen == nil {
				return errors.New("c15: request without a record")
			}
			seen.ran = true
			c15ReadBody(ctx.Request().Body, seen)
			return ctx.NoContent(http.StatusOK)
		}
		mw, skipper := c15DecompressMw(c)
		tags = append(tags, "ctor:"+c15DCtorName(c))
		if c.Wire == "tcp" {
			return c15RunDecompressTCP(c, e, mw, skipper, tags)
		}
		var srv c15Server = e
		if c.Once {
			srv = c15Once{e, mw(handler)}
		} else {
			e.Use(mw)
			e.POST("/", handler)
		}
		ops = []string{"D", wInt(len(c.DReqs))}
		reqLine := func(d c15DReq) {
			ops = append(ops, wBool(skipper && d.Skip), wStr(d.CE))
			if d.Gzip {
				ops = append(ops, "Z", wInt(len(d.Members)))
				for _, m := range d.Members {
					ops = append(ops, wStr(string(m)))
				}
				ops = append(ops, wBool(d.Defect != 0))
			} else {
				ops = append(ops, "P", wStr(string(d.Plain)))
			}
		}
		for _, d := range c.DReqs {
			reqLine(d)
			if d.Nested == nil {
				ops = append(ops, "0")
			} else {
				ops = append(ops, "1")
				reqLine(*d.Nested)
			}
		}
		per := make([][]c15Out, len(c.DReqs))
		if c.Concurrent {
			var wg sync.WaitGroup
			for i := range c.DReqs {
				wg.Add(1)
				go func(i int) {
					defer wg.Done()
					per[i] = c15ServeDecompress(srv, skipper, c.DReqs[i])
				}(i)
			}
			wg.Wait()
		} else {
			for i := range c.DReqs {
				per[i] = c15ServeDecompress(srv, skipper, c.DReqs[i])
			}
		}
		for _, p := range per {
			outs = append(outs, p...)
		}
	default:
		return Result{Oracle: "harness: unknown kind " + c.Kind}
	}
	if c.Kind == "decompress" {
		if c.Once {
			tags = append(tags, "decompress:constructor-applied-once(shared pool)")
		} else {
			tags = append(tags, "decompress:e.Use(pool per request)")
		}
	}
	return c15Collect(c, strings.Join(ops, " "), outs, tags, c.Concurrent)
}

func c15Collect(c *c15Case, opsLine string, outs []c15Out, tags []string, concurrent bool) Result {
	if opsLine != "" {
		facts := make([]c15Facts, len(outs))
		for i, o := range outs {
			facts[i] = o.facts
		}
		c15Side.Store(c, facts)
	}
	obs := []string{wInt(len(outs))}
	if concurrent {
		tags = append(tags, "concurrent")
	}
	if len(outs) > 1 {
		tags = append(tags, "sequence")
	}
	oracle := ""
	nontr := false
	for i, o := range outs {
		obs = append(obs, o.obs)
		tags = append(tags, o.tags...)
		if o.oracle != "" && oracle == "" {
			oracle = fmt.Sprintf("response %d: %s", i, o.oracle)
		}
		nontr = nontr || o.nontr
	}
	return Result{Ops: opsLine, Obs: strings.Join(obs, " "), Oracle: oracle, Tags: tags, Nontrivial: nontr}
}

func c15DCtorName(c *c15Case) string {
	switch c.Ctor {
	case "cfg0":
		return "DecompressWithConfig{}"
	case "cfgpool":
		return "DecompressWithConfig{GzipDecompressPool}"
	}
	if c.Skipper {
		return "DecompressWithConfig{Skipper}"
	}
	return "Decompress()"
}

func c15DecompressMw(c *c15Case) (echo.MiddlewareFunc, bool) {
	cfg := middleware.DecompressConfig{}
	if c.Ctor == "cfgpool" {
		cfg.GzipDecompressPool = &middleware.DefaultGzipDecompressPool{}
	}
	if c.Skipper {
		cfg.Skipper = c15SkipHeader
	}
	if c.Ctor == "" && !c.Skipper {
		return middleware.Decompress(), false
	}
	return middleware.DecompressWithConfig(cfg), c.Skipper
}

// ---------- Run over a real connection (oracle only) ----------

func c15Client(srv *httptest.Server) *http.Client {
	tr := srv.Client().Transport.(*http.Transport).Clone()
	tr.DisableCompression = true // the test wants to see the Content-Encoding itself
	return &http.Client{Transport: tr, CheckRedirect: func(*http.Request, []*http.Request) error { return http.ErrUseLastResponse }}
}

// c15TCPOps: the program as it runs over a real connection — without the interface probes (a
// real Hijack takes the connection away) and without a Content-Length that is not the true one
// (net/http itself refuses to send such a response)
func c15TCPOps(ops []c15Op, fails bool) []c15Op {
	total := 0
	for _, op := range ops {
		total += len(op.Data)
		for _, ch := range op.Chunks {
			total += len(ch)
		}
	}
	var out []c15Op
	for _, op := range ops {
		switch {
		case !c15IsModelOp(op):
		case (op.K == "L" || op.K == "B") && (op.N != total || fails):
			// (a handler that announces a length and then returns an error instead of the body has
			// made the same promise it cannot keep)
		default:
			// statuses that forbid a body: net/http rejects the Write
			if (op.K == "H" || op.K == "S" || op.K == "T") && (op.Code == 204 || op.Code == 304 || op.Code < 200) {
				op.Code = 200
			}
			out = append(out, op)
		}
	}
	return out
}

func c15RunGzipTCP(c *c15Case, env *c15Env, tags []string) Result {
	var mu sync.Mutex
	scripts := map[string]*c15Script{}
	env.e.GET("/", c15GzipHandler(func(id string) *c15Script {
		mu.Lock()
		defer mu.Unlock()
		return scripts[id]
	}))
	srv := httptest.NewServer(env.e)
	defer srv.Close()
	client := c15Client(srv)
	defer client.CloseIdleConnections()
	tags = append(tags, "wire:real-tcp-connection")
	var outs []c15Out
	for i, rq := range c.Reqs {
		rq.Nested = nil
		rq.Ops = c15TCPOps(rq.Ops, rq.Fail != 0)
		if rq.Fail == 204 || rq.Fail == 304 {
			rq.Fail = 404
		}
		var out c15Out
		tr := &c15Trace{nestAt: -1, tcp: true}
		id := strconv.Itoa(i)
		hmu := &sync.Mutex{}
		mu.Lock()
		scripts[id] = &c15Script{tr: tr, rq: rq, mu: hmu}
		mu.Unlock()
		req, _ := http.NewRequest(http.MethodGet, srv.URL+"/", nil)
		req.Header.Set("X-C15-Id", id)
		if rq.AE != "" {
			req.Header.Set(echo.HeaderAcceptEncoding, rq.AE)
		}
		if rq.Skip {
			req.Header.Set("X-Skip", "1")
		}
		resp, err := client.Do(req)
		if err != nil {
			out.oracle = fmt.Sprintf("the client could not get a response: %v", err)
			outs = append(outs, out)
			continue
		}
		body, err := io.ReadAll(resp.Body)
		resp.Body.Close()
		if err != nil {
			out.oracle = fmt.Sprintf("the client could not read the response body: %v (after %d bytes)", err, len(body))
			outs = append(outs, out)
			continue
		}
		w := c15Wire{status: resp.StatusCode, ce: resp.Header.Get(echo.HeaderContentEncoding), cl: resp.Header.Get(echo.HeaderContentLength), body: body}
		out.obs = "tcp"
		hmu.Lock() // the handler has returned (the response is complete): its trace is ours now
		c15JudgeGzip(env, rq, tr, w, &out)
		hmu.Unlock()
		outs = append(outs, out)
	}
	return c15Collect(c, "", outs, tags, false)
}

func c15RunDecompressTCP(c *c15Case, e *echo.Echo, mw echo.MiddlewareFunc, skipper bool, tags []string) Result {
	var mu sync.Mutex
	records := map[string]*c15DSeen{}
	e.Use(mw)
	e.POST("/", func(ctx echo.Context) error {
		mu.Lock()
		seen := records[ctx.Request().Header.Get("X-C15-Id")]
		mu.Unlock()
		if seen == nil {
			return errors.New("c15: request without a record")
		}
		seen.mu.Lock()
		defer seen.mu.Unlock()
		seen.ran = true
		seen.contentLength = ctx.Request().ContentLength
		c15ReadBody(ctx.Request().Body, seen)
		return ctx.NoContent(http.StatusOK)
	})
	srv := httptest.NewServer(e)
	defer srv.Close()
	client := c15Client(srv)
	defer client.CloseIdleConnections()
	tags = append(tags, "wire:real-tcp-connection", "decompress:e.Use(pool per request)")
	var outs []c15Out
	for i, d := range c.DReqs {
		d.Nested = nil
		var out c15Out
		wire := c15DBody(d)
		seen := &c15DSeen{}
		id := strconv.Itoa(i)
		mu.Lock()
		records[id] = seen
		mu.Unlock()
		// a body whose type hides its length is sent with Transfer-Encoding: chunked
		req, _ := http.NewRequest(http.MethodPost, srv.URL+"/", c15DRequestBody(d, wire))
		if !d.Unknown {
			req.ContentLength = int64(len(wire))
			if len(wire) == 0 {
				req.Body = http.NoBody
			}
		}
		req.Header.Set("X-C15-Id", id)
		if d.CE != "" {
			req.Header.Set(echo.HeaderContentEncoding, d.CE)
		}
		if d.Skip {
			req.Header.Set("X-Skip", "1")
		}
		resp, err := client.Do(req)
		status := 0
		if err == nil {
			status = resp.StatusCode
			io.Copy(io.Discard, resp.Body)
			resp.Body.Close()
		}
		seen.mu.Lock() // the handler has returned
		c15JudgeDecompress(skipper, d, wire, seen, status, &out)
		if err != nil && out.oracle == "" {
			out.oracle = fmt.Sprintf("the client could not get a response: %v", err)
		}
		if seen.ran && d.Unknown && seen.contentLength != -1 && out.oracle == "" {
			out.oracle = fmt.Sprintf("harness: the upload was meant to be chunked but arrived with ContentLength %d", seen.contentLength)
		}
		seen.mu.Unlock()
		outs = append(outs, out)
	}
	return c15Collect(c, "", outs, tags, false)
}

// ---------- Gen ----------

const c15Alphabet = "abcdefghijklmnopqrstuvwxyzABCDEFGHIJKLMNOPQRSTUVWXYZ0123456789 <>{}\n"

func c15Data(r *rand.Rand, n int) a2bstr {
	if n < 0 {
		n = 0
	}
	b := make([]byte, n)
	if r.Intn(3) == 0 { // compressible
		ch := c15Alphabet[r.Intn(len(c15Alphabet))]
		for i := range b {
			b[i] = ch
		}
	} else {
		for i := range b {
			b[i] = c15Alphabet[r.Intn(len(c15Alphabet))]
		}
	}
	return a2bstr(b)
}

func c15Size(r *rand.Rand, m int, wide bool) int {
	switch r.Intn(10) {
	case 0:
		return 0
	case 1:
		return 1
	case 2:
		return m - 1
	case 3:
		return m
	case 4:
		return m + 1
	case 5:
		return m / 2
	case 6:
		return 2*m + r.Intn(3)
	case 7:
		if wide {
			return 30000 + r.Intn(40000) // larger than io.Copy's buffer
		}
		return 5 + r.Intn(20)
	default:
		return r.Intn(m + 4)
	}
}

var c15Codes = []int{200, 200, 201, 202, 206, 301, 302, 400, 404, 404, 500, 503, 204, 304}
var c15AEs = []string{"gzip", "gzip", "gzip", "gzip, deflate, br", "br, gzip", "gzip;q=0", "", "deflate", "identity", "*", "x-gzip",
	// more of the grey zone (c15Offer) and of the clear offers
	"gzip", "deflate, gzip;q=0.5", "GZIP", "Gzip;q=0.8", "xgzip", "gzip;q=0.0, br"}

func c15GenProg(r *rand.Rand, m int, wide bool) []c15Op {
	n := r.Intn(7)
	var ops []c15Op
	for i := 0; i < n; i++ {
		switch k := r.Intn(100); {
		case k < 45:
			ops = append(ops, c15Op{K: "W", Data: c15Data(r, c15Size(r, m, wide))})
		case k < 63:
			ops = append(ops, c15Op{K: "F"})
		case k < 78:
			ops = append(ops, c15Op{K: "H", Code: c15Codes[r.Intn(len(c15Codes))]})
		case k < 83:
			ops = append(ops, c15Op{K: []string{"P", "J", "D"}[r.Intn(3)]})
		case k < 94:
			op := c15Op{K: "S", Code: c15Codes[r.Intn(len(c15Codes))]}
			for j, nc := 0, r.Intn(4); j < nc; j++ {
				sz := c15Size(r, m, false)
				if sz > 30000 {
					sz = 30000
				}
				op.Chunks = append(op.Chunks, c15Data(r, sz))
			}
			op.EOFWithData = r.Intn(3) == 0
			// the other ways a reader may end or stall: an error instead of io.EOF (alone or together with the
			// last bytes), a Read that returns (0, nil)
			if r.Intn(6) == 0 {
				op.ReaderErr = 1 + r.Intn(2)
			}
			op.ZeroReads = r.Intn(8) == 0
			// a chunk at / beyond the size of io.Copy's buffer (32 KiB): the reader fills the buffer it is given
			// completely, the chunk arrives in more than one Read
			if len(op.Chunks) > 0 && r.Intn(40) == 0 {
				k := r.Intn(len(op.Chunks))
				op.Chunks[k] = c15Data(r, []int{32767, 32768, 32769, 65536, 65537, 33000 + r.Intn(40000)}[r.Intn(6)])
			}
			ops = append(ops, op)
		default:
			ops = append(ops, c15Op{K: "T", Code: c15Codes[r.Intn(len(c15Codes))], Data: c15Data(r, c15Size(r, m, wide))})
		}
	}
	// a handler that announces its (true) length first, as http.ServeContent or a proxy would
	if r.Intn(6) == 0 {
		total := 0
		for _, op := range ops {
			total += len(op.Data)
			for _, c := range op.Chunks {
				total += len(c)
			}
		}
		k := "L"
		if r.Intn(3) == 0 {
			k = "B" // … from a Response.Before hook (at commit time), as a middleware mounted inside Gzip would
		}
		ops = append([]c15Op{{K: k, N: total}}, ops...)
	}
	return ops
}

func c15GenDReq(r *rand.Rand) c15DReq {
	d := c15DReq{CE: []string{"gzip", "gzip", "gzip", "gzip", "gzip", "gzip", "", "identity", "deflate", "br", "GZIP", "gzip, identity"}[r.Intn(12)]}
	switch k := r.Intn(10); {
	case k < 6:
		d.Gzip = true
		for j, nm := 0, 1+r.Intn(2); j < nm; j++ {
			d.Members = append(d.Members, c15Data(r, []int{0, 1, 10, 100, 5000}[r.Intn(5)]+r.Intn(4)))
		}
		if r.Intn(5) == 0 {
			d.Defect = 1 + r.Intn(3)
		}
	case k < 7:
		d.Plain = ""
	default:
		d.Plain = c15Data(r, []int{1, 5, 9, 10, 11, 200}[r.Intn(6)])
	}
	// how the body arrives: length known or not (chunked upload), in one piece or in small ones
	d.Unknown = r.Intn(3) == 0
	if r.Intn(4) == 0 {
		d.Chunk = []int{1, 2, 3, 17, 64, 512}[r.Intn(6)]
	}
	d.EOFWithData = r.Intn(3) == 0
	return d
}

var c15FailCodes = []int{400, 401, 404, 404, 500, 503, 302, 418}

// c15GenReq: one request to the Gzip instance
func c15GenReq(r *rand.Rand, m int, wide, skipper bool) c15Req {
	rq := c15Req{AE: c15AEs[r.Intn(len(c15AEs))], Ops: c15GenProg(r, m, wide)}
	if skipper && r.Intn(3) == 0 {
		rq.Skip = true
	}
	// the handler returns an error: before it has started a response (the usual case: 404, 401 …)
	// or after
	if r.Intn(6) == 0 {
		rq.Fail = c15FailCodes[r.Intn(len(c15FailCodes))]
		if r.Intn(2) == 0 {
			var hdrOnly []c15Op
			for _, op := range rq.Ops {
				if op.K == "L" || op.K == "B" || !c15IsModelOp(op) {
					hdrOnly = append(hdrOnly, op)
				}
			}
			rq.Ops = hdrOnly
		}
	}
	// a handler that labels the response as gzip itself (pre-compressed content), mostly one that
	// then sends no body (HEAD, 304, an error)
	if r.Intn(25) == 0 {
		rq.Preset = true
		if r.Intn(4) != 0 {
			var bodyless []c15Op
			for _, op := range rq.Ops {
				if op.K == "L" || op.K == "B" || op.K == "H" || !c15IsModelOp(op) {
					bodyless = append(bodyless, op)
				}
			}
			rq.Ops = bodyless
		}
	}
	return rq
}

func c15GenCase(r *rand.Rand, tier string) *c15Case {
	if r.Intn(8) == 0 {
		c := &c15Case{Kind: "decompress", Concurrent: r.Intn(6) == 0, Once: r.Intn(3) != 0}
		// every way of building the middleware
		switch r.Intn(6) {
		case 0:
			c.Ctor = "cfg0"
		case 1:
			c.Ctor = "cfgpool"
		case 2:
			c.Skipper = true
		}
		// histories aimed at the pooled reader: a gzip-labelled request WITHOUT body (the path
		// that leaves Reset early) or a rejected one first, then requests that are alive at
		// the same time (a handler serving a nested request between its own reads)
		if r.Intn(3) == 0 {
			for i, n := 0, 1+r.Intn(2); i < n; i++ {
				d := c15DReq{CE: "gzip"}
				if r.Intn(4) == 0 {
					d.Plain = c15Data(r, 1+r.Intn(12))
				}
				c.DReqs = append(c.DReqs, d)
			}
		}
		for i, n := 0, 1+r.Intn(5); i < n; i++ {
			d := c15GenDReq(r)
			if r.Intn(3) == 0 {
				n := c15GenDReq(r)
				if r.Intn(3) != 0 { // mostly a well-formed gzip request inside a well-formed gzip request
					n.CE, n.Gzip, n.Defect, n.Plain = "gzip", true, 0, ""
					if len(n.Members) == 0 {
						n.Members = []a2bstr{c15Data(r, 1+r.Intn(300))}
					}
				}
				d.Nested = &n
				total := 0
				for _, m := range d.Members {
					total += len(m)
				}
				d.NestAfter = []int{0, 1, total / 2, total, total + 5}[r.Intn(5)]
			}
			if c.Skipper && r.Intn(3) == 0 {
				d.Skip = true
			}
			if c.Skipper && d.Nested != nil && r.Intn(3) == 0 {
				d.Nested.Skip = true
			}
			c.DReqs = append(c.DReqs, d)
		}
		// a real server and a real client (chunked uploads as the transport produces them)
		if r.Intn(10) == 0 {
			c.Wire, c.Concurrent, c.Once = "tcp", false, false
		}
		return c
	}
	ms := []int{0, 1, 10, 1000}
	if tier == "thorough" {
		ms = []int{0, 0, 1, 1, 2, 2, 10, 10, 10, 100, 100, 1000}
	}
	c := &c15Case{Kind: "gzip", MinLength: ms[r.Intn(len(ms))], Level: []int{0, 0, -1, 1, 9, -2}[r.Intn(6)], Concurrent: r.Intn(6) == 0}
	// a few cases with bodies larger than io.Copy's 32 KiB buffer and a threshold up there
	wide := tier == "thorough" && r.Intn(150) == 0
	if wide && r.Intn(2) == 0 {
		c.MinLength = 40000
	}
	// the other ways of building the middleware
	switch k := r.Intn(40); {
	case k < 3:
		c.Ctor = "plain" // Gzip()
	case k < 6:
		c.MinLength = -1 - r.Intn(9) // "use the default"
	case k < 7:
		c.Level = []int{10, -3, 42}[r.Intn(3)] // gzip.NewWriterLevel refuses
	}
	c.Skipper = r.Intn(8) == 0
	// what the underlying writer can do besides Write and Flush
	c.Base = []string{"", "", "rf", "full"}[r.Intn(4)]
	m := c.MinLength
	if m < 0 || c.Ctor == "plain" {
		m = 0
	}
	for i, n := 0, 1+r.Intn(5); i < n; i++ {
		rq := c15GenReq(r, m, wide, c.Skipper)
		// two responses alive at the same time through the one instance: the handler serves
		// another request between two of its own ops
		if r.Intn(5) == 0 {
			n := c15GenReq(r, m, false, c.Skipper)
			rq.Nested = &n
			rq.NestAt = r.Intn(len(rq.Ops) + 2)
			// … or while the outer response is on its way to a slow client
			if r.Intn(3) == 0 {
				rq.NestRaw = 1 + r.Intn(4)
			}
		}
		c.Reqs = append(c.Reqs, rq)
	}
	// a real server and a real client
	if r.Intn(25) == 0 {
		c.Wire, c.Concurrent, c.Base = "tcp", false, ""
	}
	return c
}

func c15Gen(r *rand.Rand, tier string) []any {
	// every case creates its own middleware instance and with it a flate compressor (~1 MB of
	// garbage each): keep the heap of a long run bounded
	debug.SetMemoryLimit(1500 << 20)
	n := 5000
	if tier == "thorough" {
		n = 60000
	}
	if c15RaceBuild {
		n = n * 3 / 5
	}
	out := make([]any, 0, n)
	for i := 0; i < n; i++ {
		c := c15GenCase(r, tier)
		// under the race detector: a third of the in-process cases run their requests concurrently (instead of 1 in 6)
		if c15RaceBuild && !c.Concurrent && c.Wire == "" && r.Intn(5) == 0 {
			c.Concurrent = true
		}
		out = append(out, c)
	}
	return out
}

// ---------- Shrink ----------

func c15Shrink(ci any) []any {
	c := ci.(*c15Case)
	var out []any
	if c.Concurrent {
		d := *c
		d.Concurrent = false
		out = append(out, &d)
	}
	if c.Level != 0 {
		d := *c
		d.Level = 0
		out = append(out, &d)
	}
	if c.Once {
		d := *c
		d.Once = false
		out = append(out, &d)
	}
	if c.Ctor != "" {
		d := *c
		d.Ctor = ""
		out = append(out, &d)
	}
	if c.Skipper {
		d := *c
		d.Skipper = false
		out = append(out, &d)
	}
	if c.Base != "" {
		d := *c
		d.Base = ""
		out = append(out, &d)
		if c.Base == "full" {
			d2 := *c
			d2.Base = "rf"
			out = append(out, &d2)
		}
	}
	if c.Wire != "" {
		d := *c
		d.Wire = ""
		out = append(out, &d)
	}
	if c.MinLength < 0 {
		d := *c
		d.MinLength = 0
		out = append(out, &d)
	}
	for i, rq := range c.Reqs {
		set := func(nr c15Req) {
			d := *c
			d.Reqs = append([]c15Req(nil), c.Reqs...)
			d.Reqs[i] = nr
			out = append(out, &d)
		}
		if rq.Skip {
			nr := rq
			nr.Skip = false
			set(nr)
		}
		if rq.Preset {
			nr := rq
			nr.Preset = false
			set(nr)
		}
		if rq.Fail != 0 {
			nr := rq
			nr.Fail = 0
			set(nr)
		}
	}
	for i, dq := range c.DReqs {
		set := func(nd c15DReq) {
			d := *c
			d.DReqs = append([]c15DReq(nil), c.DReqs...)
			d.DReqs[i] = nd
			out = append(out, &d)
		}
		if dq.Skip {
			nd := dq
			nd.Skip = false
			set(nd)
		}
		if dq.Unknown {
			nd := dq
			nd.Unknown = false
			set(nd)
		}
		if dq.Chunk != 0 {
			nd := dq
			nd.Chunk = 0
			set(nd)
		}
		if dq.EOFWithData {
			nd := dq
			nd.EOFWithData = false
			set(nd)
		}
	}
	for i := range c.Reqs {
		if len(c.Reqs) > 1 {
			d := *c
			d.Reqs = append(append([]c15Req(nil), c.Reqs[:i]...), c.Reqs[i+1:]...)
			out = append(out, &d)
		}
	}
	for i := range c.DReqs {
		if len(c.DReqs) > 1 {
			d := *c
			d.DReqs = append(append([]c15DReq(nil), c.DReqs[:i]...), c.DReqs[i+1:]...)
			out = append(out, &d)
		}
	}
	// nested requests: drop it, serve it first, let it take the outer one's place, make it smaller
	for i, rq := range c.Reqs {
		if rq.Nested == nil {
			continue
		}
		set := func(nr c15Req) {
			d := *c
			d.Reqs = append([]c15Req(nil), c.Reqs...)
			d.Reqs[i] = nr
			out = append(out, &d)
		}
		nr := rq
		nr.Nested, nr.NestAt, nr.NestRaw = nil, 0, 0
		set(nr)
		set(*rq.Nested)
		if rq.NestRaw != 0 {
			nr = rq
			nr.NestRaw = 0
			set(nr)
			if rq.NestRaw > 1 {
				nr.NestRaw = rq.NestRaw - 1
				set(nr)
			}
		}
		if rq.NestAt != 0 {
			nr = rq
			nr.NestAt = 0
			set(nr)
		}
		for j := range rq.Nested.Ops {
			in := *rq.Nested
			in.Ops = append(append([]c15Op(nil), rq.Nested.Ops[:j]...), rq.Nested.Ops[j+1:]...)
			nr = rq
			nr.Nested = &in
			set(nr)
		}
	}
	for i, dq := range c.DReqs {
		if dq.Nested == nil {
			continue
		}
		set := func(nd c15DReq) {
			d := *c
			d.DReqs = append([]c15DReq(nil), c.DReqs...)
			d.DReqs[i] = nd
			out = append(out, &d)
		}
		nd := dq
		nd.Nested, nd.NestAfter = nil, 0
		set(nd)
		set(*dq.Nested)
		if dq.NestAfter != 0 {
			nd = dq
			nd.NestAfter = 0
			set(nd)
		}
		in := *dq.Nested
		if len(in.Members) > 1 {
			in.Members = in.Members[:1]
			nd = dq
			nd.Nested = &in
			set(nd)
		}
		in = *dq.Nested
		for k, m := range in.Members {
			if len(m) > 1 {
				in2 := in
				in2.Members = append([]a2bstr(nil), in.Members...)
				in2.Members[k] = m[:len(m)/2]
				nd = dq
				nd.Nested = &in2
				set(nd)
			}
		}
	}
	setReq := func(i int, rq c15Req) {
		d := *c
		d.Reqs = append([]c15Req(nil), c.Reqs...)
		d.Reqs[i] = rq
		out = append(out, &d)
	}
	for i, rq := range c.Reqs {
		for j := range rq.Ops {
			nr := rq
			nr.Ops = append(append([]c15Op(nil), rq.Ops[:j]...), rq.Ops[j+1:]...)
			setReq(i, nr)
		}
		for j, op := range rq.Ops {
			repl := func(nop c15Op) {
				nr := rq
				nr.Ops = append([]c15Op(nil), rq.Ops...)
				nr.Ops[j] = nop
				setReq(i, nr)
			}
			switch op.K {
			case "W", "T":
				if len(op.Data) > 1 {
					nop := op
					nop.Data = op.Data[:len(op.Data)-1]
					repl(nop)
					nop.Data = op.Data[:len(op.Data)/2]
					repl(nop)
				}
				if op.K == "T" {
					repl(c15Op{K: "S", Code: op.Code, Chunks: []a2bstr{op.Data}})
				}
			case "S":
				for k := range op.Chunks {
					nop := op
					nop.Chunks = append(append([]a2bstr(nil), op.Chunks[:k]...), op.Chunks[k+1:]...)
					repl(nop)
					if len(op.Chunks[k]) > 1 {
						nop = op
						nop.Chunks = append([]a2bstr(nil), op.Chunks...)
						nop.Chunks[k] = op.Chunks[k][:len(op.Chunks[k])/2]
						repl(nop)
						nop.Chunks = append([]a2bstr(nil), op.Chunks...)
						nop.Chunks[k] = op.Chunks[k][:len(op.Chunks[k])-1]
						repl(nop)
					}
				}
				if len(op.Chunks) == 1 && op.ReaderErr == 0 {
					repl(c15Op{K: "W", Data: op.Chunks[0]})
				}
				if op.EOFWithData {
					nop := op
					nop.EOFWithData = false
					repl(nop)
				}
				if op.ReaderErr != 0 {
					nop := op
					nop.ReaderErr = 0
					repl(nop)
				}
				if op.ZeroReads {
					nop := op
					nop.ZeroReads = false
					repl(nop)
				}
			case "H":
				if op.Code != 201 {
					repl(c15Op{K: "H", Code: 201})
				}
			case "B":
				repl(c15Op{K: "L", N: op.N})
			}
		}
	}
	for i, dq := range c.DReqs {
		set := func(nd c15DReq) {
			d := *c
			d.DReqs = append([]c15DReq(nil), c.DReqs...)
			d.DReqs[i] = nd
			out = append(out, &d)
		}
		if len(dq.Members) > 1 {
			nd := dq
			nd.Members = dq.Members[:1]
			set(nd)
		}
		for k, m := range dq.Members {
			if len(m) > 1 {
				nd := dq
				nd.Members = append([]a2bstr(nil), dq.Members...)
				nd.Members[k] = m[:len(m)/2]
				set(nd)
			}
		}
		if len(dq.Plain) > 1 {
			nd := dq
			nd.Plain = dq.Plain[:len(dq.Plain)/2]
			set(nd)
		}
	}
	return out
}

// ---------- Tolerable: differences between implementation and model that the property does not constrain ----------
//
// The statement constrains, for a Gzip response: the status (the handler's), the bytes a client recovers after undoing
// the advertised Content-Encoding (the handler's), Content-Encoding: gzip <=> the body is a gzip stream, no stale
// Content-Length, body-less responses empty, the count every handler-side write reports; for Decompress: whether and what
// the handler sees of the request body.  All of these must agree between the two observation lines (or, where the
// clause is a consistency requirement on the response itself - Content-Encoding vs body, Content-Length vs body -
// hold on the implementation's response).  Not constrained, hence tolerated:
//   - Vary (a header the property does not mention): any difference;
//   - Content-Length: the implementation's response carries none, or one that IS the number of body bytes on the wire
//     (not stale), whatever the model's response carries;
//   - WHETHER a response is compressed (the property fixes what the client recovers, not when the threshold makes the
//     middleware compress): `ce=1, gzip stream of X` vs `ce=0, X` - only for a client that accepts gzip, a request the
//     middleware is in charge of (not skipped, compressor can be built), a handler that does not label its body
//     itself, header and body consistent on the implementation's side, and - for empty X - only in the direction
//     "the implementation sends nothing at all" ("body-less responses stay empty");
//   - the grey zone of Accept-Encoding (c15Offer: `GZIP`, `gzip;q=0`, `x-gzip`, `xgzip` …; the property fixes only "an
//     exact gzip token is an offer, no gzip anywhere is none"): either decision of the middleware, i.e. all of the
//     above in BOTH directions; for a handler that labels its body itself the header is then the handler's (kept or
//     removed); a Content-Length the handler set itself and that stays on an uncompressed response (any request);
//     under a rejected Level: refused by an error status although the model serves it, or the other way round;
//   - a request the middleware refuses because compress/gzip rejects the configured Level (the property quantifies
//     over MinLength, Accept-Encoding and handler programs, not over Level): which error status, and the error body;
//     and if the implementation ran the handler there after all, its response (the model-free oracle has judged it
//     like any other response);
//   - Decompress, handler not run on either side (a body labelled gzip that is not gzip): which error status (the
//     observation only says ">= 500 or not"), provided the implementation's status is an error status.
// Everything else - number of responses, status, decoded bytes (body and at each Flush), gzip stream complete / followed by
// garbage, number of flushes reaching the wire, every write count and stream result, handler ran or not, what the
// Decompress handler saw and whether its read failed - is never tolerated.

type c15PCanon struct {
	kind string // R | G | M
	data string // hex token
	rest string // G: "complete extra"
}

func (a c15PCanon) equal(b c15PCanon) bool { return a == b }

type c15PResp struct {
	status int
	ce     bool
	hasCL  bool
	cl     string
	vary   string
	body   c15PCanon
	snaps  []c15PCanon
	rets   string
}

type c15Toks struct {
	t   []string
	i   int
	bad bool
}

func (p *c15Toks) next() string {
	if p.i >= len(p.t) {
		p.bad = true
		return ""
	}
	p.i++
	return p.t[p.i-1]
}

func (p *c15Toks) nat() int {
	n, err := strconv.Atoi(p.next())
	if err != nil || n < 0 {
		p.bad = true
		return 0
	}
	return n
}

func (p *c15Toks) boolean() bool {
	switch p.next() {
	case "1":
		return true
	case "0":
		return false
	}
	p.bad = true
	return false
}

func (p *c15Toks) canon() c15PCanon {
	switch k := p.next(); k {
	case "R":
		return c15PCanon{kind: k, data: p.next()}
	case "G":
		d := p.next()
		c, e := p.boolean(), p.boolean()
		return c15PCanon{kind: k, data: d, rest: wJoin(wBool(c), wBool(e))}
	case "M":
		return c15PCanon{kind: k}
	}
	p.bad = true
	return c15PCanon{}
}

func (p *c15Toks) gzipResp() c15PResp {
	var r c15PResp
	r.status = p.nat()
	r.ce = p.boolean()
	if r.hasCL = p.boolean(); r.hasCL {
		r.cl = p.next()
	}
	r.vary = p.next()
	r.body = p.canon()
	for i, n := 0, p.nat(); i < n && !p.bad; i++ {
		r.snaps = append(r.snaps, p.canon())
	}
	start := p.i
	for i, n := 0, p.nat(); i < n && !p.bad; i++ {
		switch p.next() {
		case "-":
		case "w":
			p.nat()
		case "s":
			p.nat()
			for j, m := 0, p.nat(); j < m && !p.bad; j++ {
				p.nat()
			}
		default:
			p.bad = true
		}
	}
	if !p.bad {
		r.rets = strings.Join(p.t[start:p.i], " ")
	}
	return r
}

type c15PSeen struct {
	ran  bool
	view string
	err  bool
}

func (p *c15Toks) seen() c15PSeen {
	var d c15PSeen
	d.ran = p.boolean()
	switch k := p.next(); k {
	case "B":
		d.view = wJoin(k, p.next())
	case "U":
		d.view = k
	default:
		p.bad = true
	}
	d.err = p.boolean()
	return d
}

// c15SameBytesOtherCoding: one side shows X as it is, the other a complete gzip stream of X and nothing after it
func c15SameBytesOtherCoding(a, b c15PCanon, final bool) bool {
	if a.kind == b.kind || a.data != b.data {
		return false
	}
	for _, x := range []c15PCanon{a, b} {
		switch x.kind {
		case "R":
		case "G":
			if final && x.rest != "1 0" {
				return false
			}
		default:
			return false
		}
	}
	return true
}

func c15TolerableGzip(i, m c15PResp, f c15Facts) bool {
	if f.badLevel {
		// outside the quantifier.  Served after all: the oracle has judged the response.  Refused: by an error status.
		if f.ran {
			return true
		}
		refused := func(r c15PResp) bool { return r.status >= 400 && r.body.kind == "R" && len(r.snaps) == 0 }
		if !refused(i) {
			return false
		}
		if f.grey {
			return true // whether the middleware is in charge of this Accept-Encoding value at all is open: the model may serve what the implementation refuses
		}
		return refused(m) && i.ce == m.ce && i.rets == m.rets
	}
	if i.status != m.status || i.rets != m.rets || len(i.snaps) != len(m.snaps) {
		return false
	}
	free := f.encFree || f.onOwn
	// what the client recovers; whether it was compressed on the way is the middleware's business
	recoded := false
	if !i.body.equal(m.body) {
		if !free || !c15SameBytesOtherCoding(i.body, m.body, true) {
			return false
		}
		if i.body.data == "s" && i.body.kind != "R" && f.bodyless {
			// nothing to recover: an empty body (the implementation's) is fine, a gzip stream of nothing for a
			// handler that made no Write and no Flush call is not ("body-less responses stay empty")
			return false
		}
		recoded = true
	}
	for k := range i.snaps {
		if !i.snaps[k].equal(m.snaps[k]) {
			if !free || !c15SameBytesOtherCoding(i.snaps[k], m.snaps[k], false) {
				return false
			}
			recoded = true
		}
	}
	// Content-Encoding: gzip exactly when the body is a gzip stream (a handler that sets the header itself on a
	// request the middleware need not act on answers for it itself)
	if i.ce != m.ce || recoded {
		if !free || (!f.onOwn && i.ce != (i.body.kind == "G")) {
			return false
		}
	}
	// no stale Content-Length: none, the true one, or - on a response that goes out uncompressed - the very value the
	// handler set itself (not made stale by any compression; if it is wrong it is the handler's own wrong promise)
	if i.hasCL != m.hasCL || i.cl != m.cl {
		if i.hasCL && i.cl != strconv.Itoa(f.rawLen) {
			own := false
			for _, v := range f.ownCL {
				own = own || v == i.cl
			}
			if !own || i.body.kind != "R" || (i.ce && !f.onOwn) {
				return false
			}
		}
	}
	// (Vary: not mentioned by the property)
	return true
}

func c15Tolerable(ci any, implObs, modelObs string) bool {
	c, ok := ci.(*c15Case)
	if !ok {
		return false
	}
	v, ok := c15Side.Load(c)
	if !ok {
		return false
	}
	facts := v.([]c15Facts)
	ip := &c15Toks{t: strings.Fields(implObs)}
	mp := &c15Toks{t: strings.Fields(modelObs)}
	n := ip.nat()
	if mp.nat() != n || n != len(facts) || ip.bad || mp.bad {
		return false
	}
	for k := 0; k < n; k++ {
		if !facts[k].known {
			return false
		}
		switch c.Kind {
		case "gzip":
			i, m := ip.gzipResp(), mp.gzipResp()
			if ip.bad || mp.bad || !c15TolerableGzip(i, m, facts[k]) {
				return false
			}
		case "decompress":
			i, m := ip.seen(), mp.seen()
			if ip.bad || mp.bad || i.ran != m.ran || i.view != m.view {
				return false
			}
			if i.err != m.err {
				// handler not run on either side: the flag says which class of status refused the request
				if i.ran || facts[k].ran || facts[k].status < 400 {
					return false
				}
			}
		default:
			return false
		}
	}
	return ip.i == len(ip.t) && mp.i == len(mp.t)
}

func init() {
	register(&Prop{
		ID:             "C15",
		Rule:           "7 of 8 cases: sequences of 1-5 requests (1 in 6 cases: run concurrently) through ONE Gzip instance built by GzipWithConfig{MinLength in {0,1,10,1000} (thorough: also 2,100 and, rarely, 40000 with bodies beyond io.Copy's 32 KiB buffer), Level in {default,1,9,HuffmanOnly}} or - 3 in 40 each - by Gzip(), with a negative MinLength, or - 1 in 40 - with a level compress/gzip rejects; 1 case in 8 with a Skipper (a third of its requests are skipped); underlying http.ResponseWriter: recording writer without extras (half), + io.ReaderFrom, + ReaderFrom/Pusher/Hijacker/SetWriteDeadline (a quarter each); 1 case in 25 over a real net/http server and client (oracle only); Accept-Encoding in {gzip, 'gzip, deflate, br', 'br, gzip', 'deflate, gzip;q=0.5', none, deflate, identity, * and the grey zone gzip;q=0, 'gzip;q=0.0, br', x-gzip, xgzip, GZIP, Gzip;q=0.8 - for which oracle and Tolerable accept either decision of the middleware}; handler programs of 0-6 ops over {WriteHeader(code), Write(chunk), Flush, Stream(chunked reader without WriteTo), Stream(strings.Reader), and - outside the model's program - Pusher.Push, Response.Hijack, ResponseController.SetWriteDeadline} with chunk sizes {0,1,m-1,m,m+1,m/2,2m,random} around the threshold m, 1 in 6 preceded by an honest Content-Length set by the handler (a third of those from a Response.Before hook, i.e. at commit time), a third of the chunked readers handing out their last bytes together with io.EOF, 1 in 6 FAILING behind the last chunk (error alone or together with the last bytes), 1 in 8 returning (0, nil) before every chunk, 1 in 40 with a chunk of 32767..70000 bytes (at / beyond io.Copy's buffer), 1 in 6 RETURNING AN ERROR (half of those before anything was started), 1 in 25 setting Content-Encoding: gzip itself (mostly body-less), 1 request in 5 serving a NESTED request (own program and Accept-Encoding) through the same Echo between two of its ops or - a third of them - while the outer response is being DELIVERED (from inside the 1st..4th call the chain makes on the underlying writer: delayed status, buffered body, gzip header / trailer written by the finaliser, the error handler's answer). 1 of 8 cases: 1-5 requests through ONE Decompress instance built by Decompress() or DecompressWithConfig{} / {GzipDecompressPool} / {Skipper} - for two thirds of the cases the constructor applied once to the handler (one reader pool for all requests), else e.Use + e.ServeHTTP, 1 in 10 over a real server with real chunked uploads - (a third of the cases start with gzip-labelled requests that have no body or a rejected one; a third of the requests serve a NESTED request through the same Echo between two reads of their own body) with Content-Encoding in {gzip, none, identity, deflate, br, GZIP, 'gzip, identity'} x body in {gzip of 1-2 members, damaged gzip (garbage after trailer / cut trailer / wrong checksum), empty, plain bytes of 1..200} x length known or unknown (ContentLength -1, chunked) x delivered in one piece or in pieces of 1..512 bytes x (a third) last bytes together with io.EOF. non-trivial = a gzip-accepted request whose switch to compression happens on a second or later write or is forced by Flush, or that ends below the threshold after >= 2 writes; or a well-formed gzip request body labelled gzip. distinct = distinct model op lines",
		New:            func() any { return &c15Case{} },
		Gen:            c15Gen,
		Run:            c15Run,
		Shrink:         c15Shrink,
		Known:          func(c any, res Result, modelObs string) string { return "" },
		Tolerable:      c15Tolerable,
		Correspondence: "C15.serveNestedAllX (Gzip / GzipWithConfig defaults + Skipper + gzipResponseWriter + echo.Response + Context.Stream + the error handler after the chain) and C15.decompressSeqX (Decompress / DecompressWithConfig + Skipper) in lean/EchoModel/C15.lean vs the middleware driven through e.ServeHTTP with a recording http.ResponseWriter (with and without io.ReaderFrom / Pusher / Hijacker); wire bytes decoded with compress/gzip before comparison",
	})
}
