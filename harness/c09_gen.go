package main

// C09 generators: destination shapes (reflect.StructOf specs + hand catalogue + maps), key sets
// aimed at tags, at other sources' tags, at Go field names and at case variants, the same key in
// two or three sources, methods x content types x bodies; shrinking.

import (
	"fmt"
	"math/rand"
	"reflect"
	"strings"
)

var c09TagPool = []string{"id", "name", "a", "b", "role", "x-id", "q", "note", "owner", "admin", "x", "y", "token", "page", "ids[]", "tags[]", "-",
	"x_id", "user_id", "user-id", "userid", "X-Is-Admin", "x_legacy_id", "trace.id"}

type c09GenLeaf struct {
	Tags map[string]string
	Kind string
	Name string
}

func c09GenFields(r *rand.Rand, depth int, prefix string, leaves *[]c09GenLeaf) []c09Field {
	n := 2 + r.Intn(4)
	if depth == 0 {
		n = 2 + r.Intn(6)
	}
	var out []c09Field
	for i := 0; i < n; i++ {
		f := c09Field{Name: fmt.Sprintf("%sF%d", prefix, i)}
		switch k := r.Intn(100); {
		case k < 30:
			f.Kind = "string"
		case k < 42:
			f.Kind = "int"
		case k < 48:
			f.Kind = "int8"
		case k < 52:
			f.Kind = "uint16"
		case k < 58:
			f.Kind = "bool"
		case k < 63:
			f.Kind = "*string"
		case k < 68:
			f.Kind = "*int"
		case k < 74:
			f.Kind = "[]string"
		case k < 78:
			f.Kind = "[]int8"
		case k < 90:
			f.Kind = "struct"
		case k < 94:
			f.Kind = "*struct"
		case k < 95:
			f.Kind = "map"
		case k < 96:
			f.Kind = "iface"
		case k < 98:
			f.Kind = "unm"
		default:
			f.Kind = []string{"multi", "multi", "[]multi", "file*", "[]file*", "[]file", "file"}[r.Intn(7)]
		}
		if (f.Kind == "struct" || f.Kind == "*struct") && depth >= 3 {
			f.Kind = "string"
		}
		isStruct := f.Kind == "struct" || f.Kind == "*struct"
		f.Tags = map[string]string{"json": strings.ToLower(f.Name)}
		untagged := r.Intn(100) < 30
		if isStruct {
			untagged = r.Intn(100) < 85
		}
		if !untagged {
			base := c09TagPool[r.Intn(len(c09TagPool))]
			switch r.Intn(5) {
			case 0:
				base = strings.ToLower(f.Name)
			case 1:
				base = f.Name // tag spelled like the Go field
			}
			probs := map[string]int{"param": 35, "query": 55, "form": 45, "header": 25}
			for _, s := range c09Sources {
				if r.Intn(100) < probs[s] {
					t := base
					if r.Intn(5) == 0 { // differently tagged per source
						t = c09TagPool[r.Intn(len(c09TagPool))]
					}
					f.Tags[s] = t
				}
			}
		}
		if strings.Contains(f.Kind, "file") && r.Intn(4) != 0 {
			if f.Tags["form"] == "" {
				f.Tags["form"] = c09TagPool[r.Intn(len(c09TagPool))]
			}
		}
		if isStruct {
			f.Anon = r.Intn(100) < 30
			f.Sub = c09GenFields(r, depth+1, f.Name, leaves)
		} else {
			if r.Intn(100) < 5 {
				f.Unexp = true
				f.Name = "u" + f.Name
			}
			*leaves = append(*leaves, c09GenLeaf{Tags: f.Tags, Kind: f.Kind, Name: f.Name})
		}
		out = append(out, f)
	}
	return out
}

func c09CaseVariant(r *rand.Rand, s string) string {
	switch r.Intn(4) {
	case 0:
		return strings.ToUpper(s)
	case 1:
		return strings.Title(s)
	case 2:
		if len(s) > 1 {
			return s[:1] + strings.ToUpper(s[1:])
		}
		return strings.ToUpper(s)
	}
	return strings.ToLower(s)
}

func c09ValueFor(r *rand.Rand, kind string, pBad int) string {
	bad := r.Intn(100) < pBad
	switch kind {
	case "int", "*int":
		if bad {
			return []string{"abc", "1.5", "9223372036854775808", "0x10", " 1", "1_0"}[r.Intn(6)]
		}
		return fmt.Sprint(r.Intn(2000) - 1000)
	case "int8", "[]int8":
		if bad {
			return []string{"128", "-129", "x", "1e1"}[r.Intn(4)]
		}
		return fmt.Sprint(r.Intn(256) - 128)
	case "uint16":
		if bad {
			return []string{"65536", "-1", "+1", "z"}[r.Intn(4)]
		}
		return fmt.Sprint(r.Intn(65536))
	case "bool":
		if bad {
			return []string{"yes", "2", "TRue"}[r.Intn(3)]
		}
		return []string{"true", "false", "1", "0", "T", "f"}[r.Intn(6)]
	case "unm", "multi":
		if bad { // the unmarshaler's error value varies with the text (plain, *HTTPError 500 / 502 / 415 / 404, wrapped)
			return []string{"!no", "!500", "!502", "!415", "!404", "!wrap", "!400"}[r.Intn(7)]
		}
	}
	if r.Intn(16) == 0 { // the key is sent, its value is EMPTY (`?name=`): it still overrides
		return ""
	}
	if r.Intn(150) == 0 { // a value longer than a read buffer
		return strings.Repeat("long", 160) + fmt.Sprint(r.Intn(10))
	}
	return []string{"v", "w", "hello", "", "42", "über", "a b", "x=y&z", "true"}[r.Intn(9)] + fmt.Sprint(r.Intn(10))
}

// c09GenData: keys for one source
func c09GenData(r *rand.Rand, src string, leaves []c09GenLeaf, names []string, hot []c09GenLeaf, pBad int, single bool) []c09KV {
	var out []c09KV
	add := func(k, kind string) {
		nv := 1
		if !single && (strings.HasPrefix(kind, "[]") || kind == "multi" || r.Intn(8) == 0) {
			nv = 1 + r.Intn(3)
		}
		kv := c09KV{K: k}
		for i := 0; i < nv; i++ {
			kv.V = append(kv.V, c09ValueFor(r, kind, pBad))
		}
		out = append(out, kv)
	}
	for _, h := range hot {
		if t := h.Tags[src]; t != "" && r.Intn(4) != 0 {
			add(t, h.Kind)
		}
	}
	n := r.Intn(5)
	for i := 0; i < n; i++ {
		if len(leaves) == 0 {
			add("k"+fmt.Sprint(i), "string")
			continue
		}
		lf := leaves[r.Intn(len(leaves))]
		switch k := r.Intn(100); {
		case k < 40: // a tag of this source
			if t := lf.Tags[src]; t != "" {
				add(t, lf.Kind)
			} else {
				add(strings.ToLower(lf.Name), lf.Kind) // aimed at an untagged field
			}
		case k < 52: // another source's tag sent through this source
			other := c09Sources[r.Intn(len(c09Sources))]
			if t := lf.Tags[other]; t != "" {
				add(t, lf.Kind)
			}
		case k < 64: // the Go field name / json name
			if r.Intn(2) == 0 {
				add(lf.Name, lf.Kind)
			} else {
				add(strings.ToLower(lf.Name), lf.Kind)
			}
		case k < 76: // case variant of a tag
			if t := lf.Tags[src]; t != "" {
				add(c09CaseVariant(r, t), lf.Kind)
			} else if len(names) > 0 {
				add(c09CaseVariant(r, names[r.Intn(len(names))]), "string")
			}
		case k < 80: // unicode look-alike of a tag (K = Kelvin sign folds to k, ſ folds to s)
			if t := lf.Tags[src]; t != "" {
				add(strings.NewReplacer("k", "K", "s", "ſ").Replace(t), lf.Kind)
			}
		case k < 94: // near miss: the tag plus an affix (`role[]`, `ROLE[]`, `role.`, `x-role` …)
			if t := lf.Tags[src]; t != "" {
				add(c09NearMiss(r, t), lf.Kind)
			} else if len(names) > 0 {
				add(c09NearMiss(r, names[r.Intn(len(names))]), "string")
			}
		case k < 96: // the key of length 0 (`?=v`, body `=v`, a path parameter / header without a name)
			add("", lf.Kind)
		default:
			add([]string{"junk", "IsAdmin", "Role", "admin", "nested.owner", "Nested.Owner", "F0.F0", "f0[f0]"}[r.Intn(8)], "string")
		}
	}
	return out
}

// keys that are NOT equal to the tag under case folding but look like it to a lenient matcher:
// array / object spellings of other frameworks, separators, whitespace, plural, prefixes
var c09Affixes = []string{"[]", "[0]", "[1]", "[ ]", "[][]", ".", ".0", " ", "-", "_", "s", "%5B%5D", "[", "]", ":", "+"}
var c09Prefixes = []string{"[]", "x-", "_", " ", ".", "data[", "the"}

func c09NearMissAll(t string) []string {
	var out []string
	for _, a := range c09Affixes {
		out = append(out, t+a, strings.ToUpper(t)+a, t+strings.ToUpper(a))
	}
	for _, a := range c09Prefixes {
		out = append(out, a+t)
	}
	out = append(out, "data["+t+"]", t+t, t+"="+t)
	out = append(out, c09SeparatorVariants(t)...)
	if len(t) > 1 {
		out = append(out, t[:len(t)-1], t[1:])
	}
	var uniq []string
	seen := map[string]bool{}
	for _, k := range out {
		if !seen[k] && !strings.EqualFold(k, t) && k != "" {
			seen[k] = true
			uniq = append(uniq, k)
		}
	}
	return uniq
}

func c09NearMiss(r *rand.Rand, t string) string {
	l := c09NearMissAll(t)
	if len(l) == 0 {
		return t + "[]"
	}
	return l[r.Intn(len(l))]
}

var c09CTypes = []string{
	"application/json", "application/json; charset=utf-8", "application/json;charset=UTF-8", " application/json", "application/json ",
	"\tapplication/json\t;x=y", "Application/JSON", "application/jsonx", "application/json+ld", "text/json", "application/json,text/plain",
	";application/json", "application/xml", "text/xml", "text/xml; charset=utf-8", "application/xml ;q=1",
	"application/x-www-form-urlencoded", "application/x-www-form-urlencoded; charset=UTF-8", "APPLICATION/X-WWW-FORM-URLENCODED",
	"application/x-www-form-urlencoded ", "text/plain", "", "application/octet-stream", "application/msgpack", "multipart/mixed", "application",
	"multipart/form-data", "multipart/form-data; boundary=other", "Multipart/Form-Data; boundary=c09boundary", " multipart/form-data ;boundary=c09boundary",
	"multipart/form-data; boundary", "multipart/form-dataX; boundary=c09boundary",
}

const c09MultipartCT = "multipart/form-data; boundary=c09boundary"

func c09JSONBody(r *rand.Rand, leaves []c09GenLeaf) string {
	var parts []string
	n := r.Intn(4)
	for i := 0; i < n && len(leaves) > 0; i++ {
		lf := leaves[r.Intn(len(leaves))]
		key := lf.Tags["json"]
		if key == "" {
			key = lf.Name
		}
		var val string
		switch lf.Kind {
		case "int", "*int", "int8", "uint16":
			val = fmt.Sprint(r.Intn(100))
			if r.Intn(8) == 0 {
				val = `"str"`
			}
		case "bool":
			val = "true"
		case "[]string":
			val = `["j1","j2"]`
		case "[]int8":
			val = `[1,2]`
		case "map":
			val = `{"k":"v"}`
		default:
			val = fmt.Sprintf("%q", "json"+fmt.Sprint(r.Intn(10)))
		}
		parts = append(parts, fmt.Sprintf("%q:%s", key, val))
	}
	s := "{" + strings.Join(parts, ",") + "}"
	if r.Intn(12) == 0 {
		s = s[:len(s)-1] // truncated
	}
	return s
}

func c09XMLBody(r *rand.Rand, fields []c09Field) string {
	var sb strings.Builder
	sb.WriteString("<r>")
	for _, f := range fields {
		if f.Kind == "string" && r.Intn(2) == 0 {
			fmt.Fprintf(&sb, "<%s>xml%d</%s>", f.Name, r.Intn(10), f.Name)
		}
	}
	if r.Intn(10) != 0 {
		sb.WriteString("</r>")
	}
	return sb.String()
}

func c09GenCase(r *rand.Rand) *c09Case {
	c := &c09Case{InitSeed: r.Int63()}
	var leaves, hotTwin []c09GenLeaf
	switch k := r.Intn(100); {
	case k < 68:
		c.Dest = "struct"
		c.Fields = c09GenFields(r, 0, "", &leaves)
	case k < 76: // one of several distinct types that print alike, bound after the others
		fam := c09TwinFamilyNames[r.Intn(len(c09TwinFamilyNames))]
		vs := c09TwinFamilies[fam]
		k := r.Intn(len(vs))
		c.Dest = fmt.Sprintf("twin:%s:%d", fam, k)
		c.Warm = c09TwinWarm(r, fam, k)
		hotTwin = c09TypeLeaves(vs[k])
		for _, t := range vs { // keys are aimed at the tags of the whole family
			leaves = append(leaves, c09TypeLeaves(t)...)
		}
	case k < 88:
		name := c09CatNames[r.Intn(len(c09CatNames))]
		c.Dest = "cat:" + name
		leaves = c09CatLeaves(name)
	case k < 97:
		c.Dest = []string{"map:str", "map:iface", "map:strs", "map:int"}[r.Intn(4)]
	default:
		c.Dest = "nonstruct"
	}
	var names []string
	for _, l := range leaves {
		for _, s := range c09Sources {
			if l.Tags[s] != "" {
				names = append(names, l.Tags[s])
			}
		}
	}
	// hot fields: the same field addressed through several sources at once
	var hot []c09GenLeaf
	for i := 0; i < r.Intn(3) && len(leaves) > 0; i++ {
		hot = append(hot, leaves[r.Intn(len(leaves))])
	}
	if len(hotTwin) > 0 {
		hot = append(hot, hotTwin[r.Intn(len(hotTwin))])
	}
	// the same type through another source first, or some other type first (any destination)
	if c.Warm == nil && (c.Dest == "struct" || strings.HasPrefix(c.Dest, "cat:")) && r.Intn(8) == 0 {
		c.Warm = []c09WarmStep{{Dest: "self", Op: c09WarmOps[r.Intn(len(c09WarmOps))]}}
		if r.Intn(2) == 0 {
			c.Warm = append(c.Warm, c09WarmStep{Dest: "cat:" + c09CatNames[r.Intn(len(c09CatNames))], Op: c09WarmOps[r.Intn(len(c09WarmOps))]})
		}
	}
	pBad := []int{0, 0, 6, 25}[r.Intn(4)]
	if r.Intn(60) == 0 { // a large key set: the keys that matter come after hundreds of others
		c.Junk = []int{100, 255, 256, 257, 511, 513, 800}[r.Intn(7)]
	}
	switch k := r.Intn(100); {
	case k < 12:
		c.Op = "param"
	case k < 27:
		c.Op = "query"
	case k < 37:
		c.Op = "header"
	case k < 45:
		c.Op = "body"
	default:
		c.Op = "bind"
	}
	c.Params = c09GenData(r, "param", leaves, names, hot, pBad, true)
	c.Query = c09GenData(r, "query", leaves, names, hot, pBad, false)
	if c.Op == "header" {
		c.Header = c09GenData(r, "header", leaves, names, hot, pBad, false)
		c.RawHdr = r.Intn(4) == 0 // names as spelled, not canonicalised
	}
	if c.Op == "param" && len(c.Params) == 0 || c.Op == "query" && len(c.Query) == 0 {
		c.Query = append(c.Query, c09KV{K: "id", V: []string{"1"}})
		c.Params = append(c.Params, c09KV{K: "id", V: []string{"2"}})
	}
	if c.Op != "bind" && c.Op != "body" {
		return c
	}
	c.Method = []string{"GET", "GET", "POST", "POST", "PUT", "PATCH", "DELETE", "HEAD", "OPTIONS", "get"}[r.Intn(10)]
	bk := r.Intn(100)
	for _, l := range leaves {
		if strings.Contains(l.Kind, "file") && r.Intn(2) == 0 {
			bk = 50 // destinations with file fields: mostly multipart bodies
		}
	}
	switch k := bk; {
	case k < 18:
		c.BodyKind = "none"
		if r.Intn(2) == 0 {
			c.CType = c09CTypes[r.Intn(len(c09CTypes))]
		}
	case k < 48:
		c.BodyKind = "form"
		c.Form = c09GenData(r, "form", leaves, names, hot, pBad, false)
		c.CType = "application/x-www-form-urlencoded"
		if r.Intn(4) == 0 {
			c.CType = c09CTypes[r.Intn(len(c09CTypes))]
		}
	case k < 58:
		c.BodyKind = "multipart"
		c.Form = c09GenData(r, "form", leaves, names, hot, pBad, false)
		c.CType = c09MultipartCT
		if r.Intn(6) == 0 {
			c.CType = c09CTypes[r.Intn(len(c09CTypes))]
		}
		c.Files = c09GenFiles(r, leaves, names)
		switch r.Intn(14) { // damaged bodies: another boundary inside, cut short
		case 0:
			c.Boundary = "other"
		case 1:
			c.Truncate = 1 + r.Intn(40)
		}
	case k < 76:
		c.BodyKind = "raw"
		c.Body = c09JSONBody(r, leaves)
		if r.Intn(4) == 0 { // a defect in the middle of the document
			c.Body = c09DamageJSON(r, c.Body).Doc
		}
		c.CType = c09JSONTypes[r.Intn(len(c09JSONTypes))]
		if r.Intn(3) == 0 {
			c.CType = c09CTypes[r.Intn(len(c09CTypes))]
		}
	case k < 86:
		c.BodyKind = "raw"
		if t, err := c09DestType(c); err == nil && r.Intn(4) != 0 {
			c.Body = c09XMLOfType(r, t, false)
		} else {
			c.Body = c09XMLBody(r, c.Fields)
		}
		if r.Intn(3) == 0 { // a defect in the middle of the document
			c.Body = c09DamageXML(r, c.Body).Doc
		}
		c.CType = c09XMLTypes[r.Intn(len(c09XMLTypes))]
		if r.Intn(4) == 0 {
			c.CType = c09CTypes[r.Intn(len(c09CTypes))]
		}
	default:
		c.BodyKind = "raw"
		c.Body = []string{"hello", "id=5&name=x", "{}", "\x00\x01", "a=%zz"}[r.Intn(5)]
		c.CType = c09CTypes[r.Intn(len(c09CTypes))]
	}
	if r.Intn(4) == 0 { // header data present while Bind / BindBody run: they never look at it
		c.Header = c09GenData(r, "header", leaves, names, hot, pBad, false)
	}
	if r.Intn(14) == 0 { // a malformed pair in the URL query
		c.RawTail = []string{"&bad=%zz", "&%zz=1", "&a=%", ";a=1", "&x=%G1&id=5", "&name=%"}[r.Intn(6)]
		if len(c.Query) == 0 {
			c.RawTail = c.RawTail[1:]
		}
	}
	switch r.Intn(10) { // parts of the framework supplied by the application
	case 0:
		c.Serial = "raw"
	case 1:
		c.Serial = "strict"
	case 2:
		c.Binder = "delegate"
	case 3:
		c.Serial, c.Binder = "raw", "delegate"
	}
	switch k := r.Intn(100); { // how the length of the body is (not) declared
	case k < 12:
		c.LenMode = "unknown"
	case k < 20:
		c.LenMode = "chunked"
	case k < 27:
		c.LenMode = "zero"
	case k < 27+c09ServerPercent:
		c.LenMode = "server"
		if len(c.Params) > 0 && r.Intn(2) == 0 {
			c.Params = nil // a route without path parameters: the case really goes through the server
		}
	}
	return c
}

// uploaded files: aimed at form tags of file fields, at form tags of ordinary fields, at tags of
// other sources, at case variants and near misses of form tags (files are matched exactly)
func c09GenFiles(r *rand.Rand, leaves []c09GenLeaf, names []string) []c09KV {
	var out []c09KV
	add := func(k string) {
		kv := c09KV{K: k}
		for i := 0; i < 1+r.Intn(3); i++ {
			kv.V = append(kv.V, fmt.Sprintf("f%d.txt", r.Intn(10)))
		}
		out = append(out, kv)
	}
	var fileLeaves []c09GenLeaf
	for _, l := range leaves {
		if strings.Contains(l.Kind, "file") {
			fileLeaves = append(fileLeaves, l)
		}
	}
	n := r.Intn(3)
	if len(fileLeaves) > 0 {
		n = 1 + r.Intn(3)
	} else if r.Intn(3) != 0 {
		return nil
	}
	for i := 0; i < n; i++ {
		pool := leaves
		if len(fileLeaves) > 0 && r.Intn(4) != 0 {
			pool = fileLeaves
		}
		if len(pool) == 0 {
			add("upload")
			continue
		}
		lf := pool[r.Intn(len(pool))]
		t := lf.Tags["form"]
		switch k := r.Intn(10); {
		case k < 5 && t != "":
			add(t)
		case k < 6 && t != "":
			add(c09CaseVariant(r, t))
		case k < 7 && t != "":
			add(c09NearMiss(r, t))
		case k < 8:
			if o := lf.Tags[c09Sources[r.Intn(len(c09Sources))]]; o != "" {
				add(o)
			} else {
				add(lf.Name)
			}
		case k < 9:
			add(strings.ToLower(lf.Name))
		default:
			add("upload")
		}
	}
	return out
}

// leaves of the hand catalogue (tags and kinds the generator aims keys at)
func c09CatLeaves(name string) []c09GenLeaf {
	all := func(t string) map[string]string {
		return map[string]string{"param": t, "query": t, "form": t, "header": t}
	}
	switch name {
	case "embedded":
		return []c09GenLeaf{{all("a"), "string", "A"}, {map[string]string{}, "int", "B"}, {map[string]string{"query": "x"}, "string", "X"}, {map[string]string{}, "string", "Y"}}
	case "embedded-ptr":
		return []c09GenLeaf{{all("a"), "string", "A"}, {map[string]string{}, "int", "B"}, {map[string]string{"form": "x"}, "string", "X"}}
	case "embedded-tagged":
		return []c09GenLeaf{{all("a"), "string", "A"}, {map[string]string{"query": "inner", "form": "inner"}, "string", "C09Inner"}, {map[string]string{"query": "x", "param": "x"}, "string", "X"}}
	case "unexported":
		return []c09GenLeaf{{all("h"), "string", "H"}, {all("secret"), "string", "secret"}, {all("open"), "string", "Open"}}
	case "unmarshalers":
		return []c09GenLeaf{{all("u"), "unm", "U"}, {map[string]string{}, "unm", "V"}, {map[string]string{"query": "t", "form": "t"}, "unm", "T"}, {map[string]string{}, "unm", "W"},
			{map[string]string{"param": "id", "query": "id", "form": "id"}, "int", "ID"}}
	case "map-field":
		return []c09GenLeaf{{all("m"), "string", "M"}, {map[string]string{}, "string", "N"}, {map[string]string{"query": "i", "form": "i"}, "string", "I"}, {map[string]string{}, "string", "J"},
			{map[string]string{"query": "s", "form": "s", "param": "s"}, "string", "S"}, {map[string]string{"query": "p", "form": "p"}, "string", "P"}, {map[string]string{}, "string", "Q"},
			{all("a"), "string", "A"}, {all("id"), "string", "ID"}}
	case "files":
		return []c09GenLeaf{{map[string]string{"form": "doc", "query": "doc"}, "file*", "Doc"}, {map[string]string{"form": "docs"}, "[]file*", "Docs"},
			{map[string]string{"form": "vals", "param": "vals"}, "[]file", "Vals"}, {map[string]string{}, "file", "Plain"}, {map[string]string{}, "file*", "Hidden"},
			{map[string]string{"query": "qonly"}, "file*", "QOnly"}, {map[string]string{"form": "name", "query": "name"}, "string", "Name"},
			{all("m"), "multi", "M"}, {map[string]string{}, "multi", "N"}, {map[string]string{"form": "after"}, "string", "After"}}
	case "file-plain":
		return []c09GenLeaf{{map[string]string{"form": "before"}, "string", "Before"}, {map[string]string{"form": "f", "query": "f"}, "file", "F"},
			{map[string]string{"form": "after", "query": "after"}, "string", "After"}}
	case "separators":
		four := func(h, o string) map[string]string {
			return map[string]string{"header": h, "query": o, "form": o, "param": o}
		}
		return []c09GenLeaf{{four("X-Is-Admin", "is-admin"), "bool", "Dash"}, {four("x_legacy_id", "legacy_id"), "string", "Under"}, {four("x.trace", "trace.id"), "string", "Dot"},
			{all("userid"), "int", "Plain"}, {all("x-id"), "string", "Both1"}, {all("x_id"), "string", "Both2"}, {map[string]string{}, "string", "Untagged"}}
	case "mass":
		return []c09GenLeaf{{map[string]string{"param": "id"}, "int", "ID"}, {map[string]string{"query": "name", "form": "name"}, "string", "Name"}, {map[string]string{}, "bool", "IsAdmin"},
			{map[string]string{}, "string", "Role"}, {map[string]string{"header": "x-balance"}, "int", "Balance"}, {map[string]string{}, "string", "Owner"},
			{map[string]string{"form": "note", "query": "note"}, "string", "Note"}, {map[string]string{}, "string", "Nested"}}
	}
	return nil
}

func c09Gen(r *rand.Rand, tier string) []any {
	n := 9000
	c09ServerPercent = 2
	if tier == "thorough" {
		n = 120000
		c09ServerPercent = 8
	}
	out := c09NearMissBlock(r)
	out = append(out, c09FilesBlock(r)...)
	out = append(out, c09ProcessBlock(r)...)
	out = append(out, c09LengthBlock(r)...)
	out = append(out, c09Round7Block(r)...)
	out = append(out, c09SeparatorBlock(r)...)
	out = append(out, c09MalformedDocBlock(r)...)
	out = append(out, c09ManyKeysBlock(r)...)
	for i := 0; i < n; i++ {
		out = append(out, c09GenCase(r))
	}
	return out
}

// deterministic block of round 7:
//
//	(a) present-but-empty values: every leaf of the catalogue / twin types that is tagged for two
//	    sources gets a non-empty value from the earlier and `key=` from the later one (path < query,
//	    path < form, query-as-form < body); and `key=` alone into a pre-populated destination;
//	(b) JSON bodies (good, truncated, type mismatch, unknown field) x {default, raw, strict}
//	    serializer x {default, delegating} binder: malformed JSON is a 400 whoever decodes it;
//	(c) malformed values for tagged fields of NESTED untagged structs, per source: never silent
func c09Round7Block(r *rand.Rand) []any {
	var out []any
	type dl struct {
		dest   string
		leaves []c09GenLeaf
	}
	var dls []dl
	for _, n := range c09CatNames {
		dls = append(dls, dl{"cat:" + n, c09CatLeaves(n)})
	}
	for _, fam := range c09TwinFamilyNames {
		for k, t := range c09TwinFamilies[fam] {
			dls = append(dls, dl{fmt.Sprintf("twin:%s:%d", fam, k), c09TypeLeaves(t)})
		}
	}
	for _, d := range dls {
		for _, lf := range d.leaves {
			full := func() string { return c09ValueFor(r, lf.Kind, 0) }
			nonEmpty := func() string {
				for i := 0; i < 10; i++ {
					if v := full(); v != "" {
						return v
					}
				}
				return "1"
			}
			p, q, f := lf.Tags["param"], lf.Tags["query"], lf.Tags["form"]
			if p != "" && q != "" {
				out = append(out, &c09Case{Dest: d.dest, InitSeed: r.Int63(), Op: "bind", Method: []string{"GET", "DELETE"}[r.Intn(2)], BodyKind: "none",
					Params: []c09KV{{K: p, V: []string{nonEmpty()}}}, Query: []c09KV{{K: q, V: []string{""}}}})
			}
			if p != "" && f != "" {
				out = append(out, &c09Case{Dest: d.dest, InitSeed: r.Int63(), Op: "bind", Method: "POST", BodyKind: "form", CType: "application/x-www-form-urlencoded",
					Params: []c09KV{{K: p, V: []string{nonEmpty()}}}, Form: []c09KV{{K: f, V: []string{""}}}})
			}
			if q != "" && f != "" {
				out = append(out, &c09Case{Dest: d.dest, InitSeed: r.Int63(), Op: "bind", Method: "GET", BodyKind: "multipart", CType: c09MultipartCT,
					Query: []c09KV{{K: q, V: []string{nonEmpty()}}}, Form: []c09KV{{K: f, V: []string{""}}}})
			}
			for _, src := range c09Sources { // `key=` alone: the field ends up zero whatever it held
				t := lf.Tags[src]
				if t == "" {
					continue
				}
				c := &c09Case{Dest: d.dest, InitSeed: r.Int63()}
				kv := []c09KV{{K: t, V: []string{""}}}
				switch src {
				case "param":
					c.Op, c.Params = "param", kv
				case "query":
					c.Op, c.Query = "query", kv
				case "header":
					c.Op, c.Header = "header", kv
				default:
					c.Op, c.Method, c.Form, c.BodyKind, c.CType = "body", "POST", kv, "form", "application/x-www-form-urlencoded"
				}
				out = append(out, c)
			}
		}
	}
	// (b)
	bodies := []string{`{"id":5,"name":"j"}`, `{"id":5,"name":"j"`, `{"id":"x"}`, `{"id":5,"unknown_field":1}`, `[1,2]`, ``, `{"id":5} trailing`, `nope`}
	for _, dest := range []string{"cat:mass", "cat:unmarshalers", "map:str"} {
		for _, body := range bodies {
			for _, ser := range []string{"", "raw", "strict"} {
				for _, bnd := range []string{"", "delegate"} {
					out = append(out, &c09Case{Dest: dest, InitSeed: r.Int63(), Op: []string{"bind", "body"}[r.Intn(2)], Method: []string{"POST", "PUT"}[r.Intn(2)],
						Serial: ser, Binder: bnd, BodyKind: "raw", CType: "application/json", Body: body,
						LenMode: []string{"", "", "unknown"}[r.Intn(3)], Params: []c09KV{{K: "id", V: []string{"1"}}}})
				}
			}
		}
	}
	// (c) struct { ID int `…:"id"`; Page struct { Sort string; Limit int; Cursor string } (untagged) ; After string }
	nested := func(src string) []c09Field {
		tg := func(n string) map[string]string { return map[string]string{src: n} }
		return []c09Field{{Name: "ID", Kind: "int", Tags: tg("id")},
			{Name: "Page", Kind: "struct", Tags: map[string]string{}, Sub: []c09Field{{Name: "Sort", Kind: "string", Tags: tg("sort")},
				{Name: "Limit", Kind: "int", Tags: tg("limit")}, {Name: "Flag", Kind: "bool", Tags: tg("flag")}, {Name: "U", Kind: "unm", Tags: tg("u")},
				{Name: "Deep", Kind: "struct", Tags: map[string]string{}, Sub: []c09Field{{Name: "N", Kind: "int8", Tags: tg("n")}}},
				{Name: "Cursor", Kind: "string", Tags: tg("cursor")}}},
			{Name: "After", Kind: "string", Tags: tg("after")}}
	}
	for _, src := range c09Sources {
		for _, badKey := range []string{"limit", "flag", "u", "n"} {
			kv := []c09KV{{K: "id", V: []string{"5"}}, {K: "sort", V: []string{"asc"}}, {K: "cursor", V: []string{"abc"}}, {K: "after", V: []string{"z"}},
				{K: badKey, V: []string{map[string]string{"limit": "ten", "flag": "maybe", "u": "!500", "n": "128"}[badKey]}}}
			c := &c09Case{Dest: "struct", Fields: nested(src), InitSeed: r.Int63()}
			switch src {
			case "param":
				c.Op, c.Params = []string{"param", "bind"}[r.Intn(2)], kv
				c.Method = "GET"
			case "query":
				c.Op, c.Query, c.Method = []string{"query", "bind"}[r.Intn(2)], kv, "GET"
			case "header":
				c.Op, c.Header = "header", kv
			default:
				c.Op, c.Method, c.Form, c.BodyKind, c.CType = "bind", "POST", kv, "form", "application/x-www-form-urlencoded"
			}
			if c.Op == "bind" && c.BodyKind == "" {
				c.BodyKind = "none"
			}
			out = append(out, c)
		}
	}
	return out
}

// percentage of Bind / BindBody cases sent through the real server (set by c09Gen from the tier)
var c09ServerPercent = 2

// deterministic block: every body kind (urlencoded, multipart, JSON, XML, unsupported, no
// Content-Type) with a good and a malformed content x {ContentLength -1, -1 + chunked, real
// server} x methods x three destinations: precedence, 400 and 415 must not depend on how the
// length of the body is declared
func c09LengthBlock(r *rand.Rand) []any {
	var out []any
	type bk struct {
		kind, ctype, body string
		form              []c09KV
	}
	good := []c09KV{{K: "id", V: []string{"5"}}, {K: "name", V: []string{"n"}}, {K: "u", V: []string{"x"}}, {K: "note", V: []string{"t"}}}
	bad := []c09KV{{K: "id", V: []string{"abc"}}, {K: "u", V: []string{"!no"}}, {K: "name", V: []string{"n"}}}
	kinds := []bk{
		{"form", "application/x-www-form-urlencoded", "", good}, {"form", "application/x-www-form-urlencoded", "", bad},
		{"multipart", c09MultipartCT, "", good}, {"multipart", c09MultipartCT, "", bad},
		// bodies longer than one read buffer: the keys that matter come after 700 bytes of padding
		{"form", "application/x-www-form-urlencoded", "", append([]c09KV{{K: "pad", V: []string{strings.Repeat("x", 700)}}}, good...)},
		{"form", "application/x-www-form-urlencoded", "", append([]c09KV{{K: "a-pad", V: []string{strings.Repeat("x", 700)}}}, bad...)},
		{"multipart", c09MultipartCT, "", append([]c09KV{{K: "pad", V: []string{strings.Repeat("x", 700)}}}, good...)},
		{"raw", "application/json", `{"pad":"` + strings.Repeat("x", 700) + `","id":5,"name":"j"}`, nil},
		{"raw", "application/json", `{"id":5,"name":"j","ID":7}`, nil}, {"raw", "application/json", `{"id":"x"`, nil},
		{"raw", "application/xml", "<r><Name>x</Name><ID>3</ID></r>", nil}, {"raw", "text/xml", "<r><Name>x</Name>", nil},
		{"raw", "text/plain", "id=5&name=n", nil}, {"raw", "", "id=5", nil}, {"raw", "application/x-www-form-urlencoded", "id=%zz", nil},
	}
	for _, dest := range []string{"cat:unmarshalers", "cat:mass", "map:str"} {
		for _, k := range kinds {
			for _, mode := range []string{"unknown", "chunked", "server"} {
				for _, method := range []string{"POST", "GET"} {
					c := &c09Case{Dest: dest, InitSeed: r.Int63(), Op: []string{"bind", "body"}[r.Intn(2)], Method: method, LenMode: mode,
						BodyKind: k.kind, CType: k.ctype, Body: k.body, Form: k.form,
						Query: []c09KV{{K: "id", V: []string{"9"}}, {K: "name", V: []string{"q"}}}}
					if mode != "server" && r.Intn(2) == 0 {
						c.Params = []c09KV{{K: "id", V: []string{"1"}}}
					}
					out = append(out, c)
				}
			}
		}
	}
	return out
}

var c09WarmOps = []string{"param", "query", "header", "form"}

// warm-up of a twin case: every OTHER variant of the family first (random order, one or two
// sources each), sometimes the target itself through another source — then the target is bound
func c09TwinWarm(r *rand.Rand, fam string, k int) []c09WarmStep {
	var out []c09WarmStep
	for _, j := range r.Perm(len(c09TwinFamilies[fam])) {
		if j == k {
			continue
		}
		d := fmt.Sprintf("twin:%s:%d", fam, j)
		out = append(out, c09WarmStep{Dest: d, Op: c09WarmOps[r.Intn(len(c09WarmOps))]})
		if r.Intn(2) == 0 {
			out = append(out, c09WarmStep{Dest: d, Op: c09WarmOps[r.Intn(len(c09WarmOps))]})
		}
	}
	if r.Intn(3) == 0 {
		out = append(out, c09WarmStep{Dest: "self", Op: c09WarmOps[r.Intn(len(c09WarmOps))]})
	}
	return out
}

// deterministic block: every ordered pair (first, second) of a twin family x every source: `first`
// is bound through that source, then `second` receives every tag name of the family; and the empty
// key through every source into every catalogue type and twin
func c09ProcessBlock(r *rand.Rand) []any {
	var out []any
	for _, fam := range c09TwinFamilyNames {
		vs := c09TwinFamilies[fam]
		names := map[string]bool{}
		for _, t := range vs {
			c09AllTagNames(t, names)
		}
		var keys []string
		for n := range names {
			keys = append(keys, n)
		}
		sortStrings(keys)
		kvs := func(val string) []c09KV {
			var l []c09KV
			for _, n := range keys {
				l = append(l, c09KV{K: n, V: []string{val}})
			}
			return l
		}
		for first := range vs {
			for second := range vs {
				if first == second {
					continue
				}
				for _, op := range c09WarmOps {
					c := &c09Case{Dest: fmt.Sprintf("twin:%s:%d", fam, second), InitSeed: r.Int63(),
						Warm: []c09WarmStep{{Dest: fmt.Sprintf("twin:%s:%d", fam, first), Op: op}}}
					val := []string{"1", "5", "77"}[r.Intn(3)]
					switch op {
					case "param":
						c.Op, c.Params = "param", kvs(val)
					case "query":
						c.Op, c.Query = []string{"query", "bind"}[r.Intn(2)], kvs(val)
						c.Method = "GET"
					case "header":
						c.Op, c.Header = "header", kvs(val)
					default:
						c.Op, c.Method, c.Form = []string{"bind", "body"}[r.Intn(2)], "POST", kvs(val)
						c.BodyKind, c.CType = "form", "application/x-www-form-urlencoded"
					}
					out = append(out, c)
				}
			}
		}
	}
	// the empty key
	var dests []string
	for _, n := range c09CatNames {
		dests = append(dests, "cat:"+n)
	}
	for _, fam := range c09TwinFamilyNames {
		for k := range c09TwinFamilies[fam] {
			dests = append(dests, fmt.Sprintf("twin:%s:%d", fam, k))
		}
	}
	for _, d := range dests {
		for _, src := range []string{"param", "query", "bind-get", "header", "form", "body", "multipart"} {
			for _, val := range []string{"1", "admin"} {
				kv := []c09KV{{K: "", V: []string{val}}}
				if r.Intn(3) == 0 {
					kv = append(kv, c09KV{K: "id", V: []string{"3"}})
				}
				c := &c09Case{Dest: d, InitSeed: r.Int63()}
				switch src {
				case "param":
					c.Op, c.Params = "param", kv
				case "query":
					c.Op, c.Query = "query", kv
				case "bind-get":
					c.Op, c.Method, c.Query, c.Params = "bind", "GET", kv, kv
				case "header":
					c.Op, c.Header = "header", kv
				case "form":
					c.Op, c.Method, c.Form, c.BodyKind, c.CType = "bind", "POST", kv, "form", "application/x-www-form-urlencoded"
				case "body":
					c.Op, c.Method, c.Form, c.BodyKind, c.CType = "body", "PUT", kv, "form", "application/x-www-form-urlencoded"
				default:
					c.Op, c.Method, c.Form, c.BodyKind, c.CType = "bind", "POST", kv, "multipart", c09MultipartCT
					c.Files = []c09KV{{K: "", V: []string{"up.txt"}}}
				}
				out = append(out, c)
			}
		}
	}
	return out
}

func sortStrings(l []string) {
	for i := 1; i < len(l); i++ {
		for j := i; j > 0 && l[j] < l[j-1]; j-- {
			l[j], l[j-1] = l[j-1], l[j]
		}
	}
}

// deterministic block for multipart uploads: the two file catalogue types x file names under the
// exact form tags, case variants, near misses, tags of other sources and Go field names x 1-3 files
// per key x texts under the same keys x BindBody / Bind x methods x initial values
func c09FilesBlock(r *rand.Rand) []any {
	var out []any
	fileKeys := []string{"doc", "docs", "vals", "DOC", "Docs", "vals[]", "docs[0]", "qonly", "hidden", "Hidden", "plain", "Plain", "name", "m", "f", "F", "upload"}
	names := func(n int) []string { return []string{"a.txt", "b.png", "c"}[:n] }
	for _, cat := range []string{"files", "file-plain"} {
		for i, k := range fileKeys {
			for n := 1; n <= 3; n++ {
				for variant := 0; variant < 4; variant++ {
					c := &c09Case{Dest: "cat:" + cat, InitSeed: r.Int63(), Op: []string{"bind", "body"}[(i+n+variant)%2],
						Method: []string{"POST", "PUT", "GET", "PATCH"}[(i+variant)%4], BodyKind: "multipart", CType: c09MultipartCT,
						Files: []c09KV{{K: k, V: names(n)}}}
					switch variant {
					case 1: // ordinary fields next to the upload
						c.Form = []c09KV{{K: "name", V: []string{"n1"}}, {K: "after", V: []string{"a1"}}, {K: "before", V: []string{"b1"}}, {K: "m", V: []string{"x", "y"}}}
					case 2: // a text under the same key as the upload, and a second upload
						c.Form = []c09KV{{K: k, V: []string{"text"}}}
						c.Files = append(c.Files, c09KV{K: "docs", V: names(2)})
					case 3: // a text for another file field, query string present
						c.Form = []c09KV{{K: []string{"doc", "docs", "vals", "f"}[(i+n)%4], V: []string{"text"}}}
						c.Query = []c09KV{{K: "name", V: []string{"q"}}, {K: "doc", V: []string{"qdoc"}}}
					}
					out = append(out, c)
				}
			}
		}
	}
	return out
}

// deterministic block: every tagged leaf of every catalogue type x every source that carries its
// tag x every near-miss spelling of the tag (one key per request, the exact key absent): the field
// must stay as it was and the request must succeed.  Plus map destinations filled by two and three
// sources in one Bind, with and without entries of their own.
func c09NearMissBlock(r *rand.Rand) []any {
	var out []any
	for _, name := range c09CatNames {
		for _, lf := range c09CatLeaves(name) {
			for _, src := range c09Sources {
				t := lf.Tags[src]
				if t == "" {
					continue
				}
				all := c09NearMissAll(t)
				// the first three spellings (`tag[]`, `TAG[]`, `tag[0]`) always, the others sampled
				pick := append([]string(nil), all[:3]...)
				for i := 0; i < 3; i++ {
					pick = append(pick, all[r.Intn(len(all))])
				}
				if sv := c09SeparatorVariants(t); len(sv) > 0 {
					pick = append(pick, sv[r.Intn(len(sv))])
				}
				for _, key := range pick {
					kv := []c09KV{{K: key, V: []string{c09ValueFor(r, lf.Kind, 30)}}}
					c := &c09Case{Dest: "cat:" + name, InitSeed: r.Int63()}
					switch src {
					case "param":
						c.Op, c.Params = "param", kv
					case "query":
						c.Op, c.Query = "query", kv
						if r.Intn(2) == 0 {
							c.Op, c.Method = "bind", []string{"GET", "DELETE", "HEAD"}[r.Intn(3)]
						}
					case "header":
						c.Op, c.Header = "header", kv
					default:
						c.Op, c.Method, c.Form = []string{"bind", "body"}[r.Intn(2)], []string{"POST", "PUT", "PATCH"}[r.Intn(3)], kv
						c.BodyKind, c.CType = "form", "application/x-www-form-urlencoded"
						if r.Intn(3) == 0 {
							c.BodyKind, c.CType = "multipart", c09MultipartCT
						}
					}
					if src == "form" && strings.Contains(lf.Kind, "file") && r.Intn(2) == 0 {
						// the near-miss key names an uploaded FILE
						c.BodyKind, c.CType, c.Form = "multipart", c09MultipartCT, nil
						c.Files = []c09KV{{K: key, V: []string{"up.txt"}}}
					}
					out = append(out, c)
				}
			}
		}
	}
	for _, dest := range []string{"map:str", "map:iface", "map:strs"} {
		for seed := int64(1); seed <= 4; seed++ {
			for _, method := range []string{"GET", "DELETE", "POST", "PUT"} {
				for _, body := range []string{"none", "form", "multipart"} {
					c := &c09Case{Dest: dest, InitSeed: seed, Op: "bind", Method: method, BodyKind: body,
						Params: []c09KV{{K: "id", V: []string{"p1"}}, {K: "only-path", V: []string{"p2"}}},
						Query:  []c09KV{{K: "id", V: []string{"q1", "q1b"}}, {K: "only-query", V: []string{"q2"}}}}
					switch body {
					case "form":
						c.CType = "application/x-www-form-urlencoded"
						c.Form = []c09KV{{K: "id", V: []string{"f1"}}, {K: "only-form", V: []string{"f2", "f3"}}}
					case "multipart":
						c.CType = c09MultipartCT
						c.Form = []c09KV{{K: "id", V: []string{"m1"}}, {K: "only-form", V: []string{"m2"}}}
					}
					out = append(out, c)
				}
			}
		}
	}
	return out
}

// ---------- shrinking ----------

func c09DropKV(l []c09KV) [][]c09KV {
	var out [][]c09KV
	for i := range l {
		out = append(out, append(append([]c09KV(nil), l[:i]...), l[i+1:]...))
	}
	for i, kv := range l {
		if len(kv.V) > 1 {
			n := append([]c09KV(nil), l...)
			n[i] = c09KV{K: kv.K, V: kv.V[:1]}
			out = append(out, n)
		}
	}
	return out
}

func c09DropFields(fs []c09Field) [][]c09Field {
	var out [][]c09Field
	for i := range fs {
		if len(fs) > 1 {
			out = append(out, append(append([]c09Field(nil), fs[:i]...), fs[i+1:]...))
		}
	}
	for i, f := range fs {
		for _, sub := range c09DropFields(f.Sub) {
			n := append([]c09Field(nil), fs...)
			nf := f
			nf.Sub = sub
			n[i] = nf
			out = append(out, n)
		}
		// drop one tag
		for _, s := range c09Sources {
			if f.Tags[s] != "" {
				n := append([]c09Field(nil), fs...)
				nf := f
				nf.Tags = map[string]string{}
				for k, v := range f.Tags {
					if k != s {
						nf.Tags[k] = v
					}
				}
				n[i] = nf
				out = append(out, n)
			}
		}
	}
	return out
}

func c09Shrink(ci any) []any {
	c := ci.(*c09Case)
	var out []any
	for _, l := range c09DropKV(c.Params) {
		d := *c
		d.Params = l
		out = append(out, &d)
	}
	for _, l := range c09DropKV(c.Query) {
		d := *c
		d.Query = l
		out = append(out, &d)
	}
	for _, l := range c09DropKV(c.Header) {
		d := *c
		d.Header = l
		out = append(out, &d)
	}
	for _, l := range c09DropKV(c.Form) {
		d := *c
		d.Form = l
		out = append(out, &d)
	}
	if c.Dest == "struct" {
		for _, fs := range c09DropFields(c.Fields) {
			d := *c
			d.Fields = fs
			out = append(out, &d)
		}
	}
	// warm-up steps are never dropped: shrinking runs inside the process in which the failure was
	// seen, where process-wide state (the very thing these steps are for) is already set up, so a
	// case without them would still fail there but not when replayed in a fresh process
	for _, l := range c09DropKV(c.Files) {
		d := *c
		d.Files = l
		out = append(out, &d)
	}
	if c.Boundary != "" || c.Truncate != 0 {
		d := *c
		d.Boundary, d.Truncate = "", 0
		out = append(out, &d)
	}
	if c.LenMode != "" {
		d := *c
		d.LenMode = ""
		out = append(out, &d)
		if c.LenMode == "server" || c.LenMode == "chunked" {
			d2 := *c
			d2.LenMode = "unknown"
			out = append(out, &d2)
		}
	}
	if c.RawTail != "" {
		d := *c
		d.RawTail = ""
		out = append(out, &d)
	}
	if c.RawHdr {
		d := *c
		d.RawHdr = false
		out = append(out, &d)
	}
	for _, m := range c08ShrinkPad(c.Junk) {
		d := *c
		d.Junk = m
		out = append(out, &d)
	}
	if (c.Op == "bind" || c.Op == "body") && len(c.Header) > 0 {
		d := *c
		d.Header = nil
		out = append(out, &d)
	}
	if c.BodyKind == "raw" && len(c.Body) > 8 { // documents: drop a chunk from the front part, the middle, the end
		n := len(c.Body)
		for _, cut := range [][2]int{{n / 2, n}, {n / 4, n / 2}, {1, n / 4}, {n - 1, n}} {
			if cut[0] < cut[1] {
				d := *c
				d.Body = c.Body[:cut[0]] + c.Body[cut[1]:]
				out = append(out, &d)
			}
		}
	}
	if c.Serial != "" || c.Binder != "" {
		d := *c
		d.Serial, d.Binder = "", ""
		out = append(out, &d)
	}
	if (c.Op == "bind" || c.Op == "body") && c.BodyKind != "none" && c.BodyKind != "" {
		d := *c
		d.BodyKind, d.Body, d.Form, d.Files = "none", "", nil, nil
		out = append(out, &d)
	}
	if c.InitSeed != 1 {
		d := *c
		d.InitSeed = 1
		out = append(out, &d)
	}
	return out
}

// neighbours for the failing-input search: other methods, perturbed keys, other content types
func c09Mutate(r *rand.Rand, ci any) []any {
	c := ci.(*c09Case)
	var out []any
	// keys that DO hit: every tag the destination has for a source, value `1` (a tie on a request whose keys
	// reach nothing says little; the same request aimed at the tags shows which source is (not) applied)
	if t, err := c09DestType(c); err == nil && t.Kind() == reflect.Struct {
		aim := func(src string) []c09KV {
			var l []c09KV
			seen := map[string]bool{}
			for _, lf := range c09TypeLeaves(t) {
				if tg := lf.Tags[src]; tg != "" && !seen[tg] {
					seen[tg] = true
					l = append(l, c09KV{K: tg, V: []string{"1"}})
				}
			}
			return l
		}
		if len(c.Params) > 0 {
			d := *c
			d.Params = aim("param")
			out = append(out, &d)
		}
		if len(c.Query) > 0 {
			d := *c
			d.Query = aim("query")
			out = append(out, &d)
		}
		if len(c.Form) > 0 {
			d := *c
			d.Form = aim("form")
			out = append(out, &d)
		}
		if len(c.Header) > 0 {
			d := *c
			d.Header = aim("header")
			out = append(out, &d)
		}
	}
	for _, m := range []string{"GET", "POST", "DELETE", "PUT", "HEAD"} {
		if c.Op == "bind" && m != c.Method {
			d := *c
			d.Method = m
			out = append(out, &d)
		}
	}
	perturb := func(l []c09KV) [][]c09KV {
		var res [][]c09KV
		for i, kv := range l {
			alts := []string{kv.K + "x", strings.ToUpper(kv.K), strings.ToLower(kv.K), "x" + kv.K, kv.K + "[]", strings.TrimSuffix(kv.K, "[]"), kv.K + ".", "_" + kv.K}
			for _, k := range append(alts, c09SeparatorVariants(kv.K)...) {
				if k == kv.K {
					continue
				}
				n := append([]c09KV(nil), l...)
				n[i] = c09KV{K: k, V: kv.V}
				res = append(res, n)
			}
			for _, v := range []string{"abc", "1"} { // a text no numeric / bool field takes; a text every kind takes
				n := append([]c09KV(nil), l...)
				n[i] = c09KV{K: kv.K, V: []string{v}}
				res = append(res, n)
			}
		}
		return res
	}
	for _, l := range perturb(c.Params) {
		d := *c
		d.Params = l
		out = append(out, &d)
	}
	for _, l := range perturb(c.Query) {
		d := *c
		d.Query = l
		out = append(out, &d)
	}
	for _, l := range perturb(c.Form) {
		d := *c
		d.Form = l
		out = append(out, &d)
	}
	for _, l := range perturb(c.Files) {
		d := *c
		d.Files = l
		out = append(out, &d)
	}
	for _, l := range perturb(c.Header) {
		d := *c
		d.Header = l
		out = append(out, &d)
	}
	if c.Op == "bind" || c.Op == "body" {
		for k := 0; k < 4; k++ {
			d := *c
			d.CType = c09CTypes[r.Intn(len(c09CTypes))]
			out = append(out, &d)
		}
		if c.BodyKind == "raw" {
			isXML := strings.Contains(c.CType, "xml")
			for k := 0; k < 12; k++ {
				d := *c
				if isXML {
					d.Body, d.CType = c09DamageXML(r, c.Body).Doc, c09XMLTypes[r.Intn(len(c09XMLTypes))]
				} else {
					d.Body = c09DamageJSON(r, c.Body).Doc
				}
				out = append(out, &d)
			}
			// a complete document for this destination with exactly ONE defect of each kind (the case at hand may
			// be malformed in several ways at once, which hides which defect is being tolerated)
			if t, err := c09DestType(c); err == nil && isXML {
				doc := c09XMLOfType(r, t, true)
				for _, dm := range c09DamageXMLAt(doc, c09XMLBoundaries(doc)[0]) {
					d := *c
					d.Body = dm.Doc
					out = append(out, &d)
				}
			} else if strings.HasPrefix(c.Dest, "cat:") && !isXML {
				doc := c09JSONOfLeaves(r, c09CatLeaves(strings.TrimPrefix(c.Dest, "cat:")))
				b := c09JSONBoundaries(doc)
				for _, dm := range c09DamageJSONAt(doc, b[len(b)/2]) {
					d := *c
					d.Body = dm.Doc
					out = append(out, &d)
				}
			}
		}
	}
	if c.Op == "header" {
		d := *c
		d.RawHdr = !c.RawHdr
		out = append(out, &d)
	}
	return out
}

func init() {
	register(&Prop{
		ID:             "C09",
		Rule:           "destinations: reflect.StructOf shapes (2-8 fields, nesting depth <=3; string/int/int8/uint16/bool, pointers, slices, nested and embedded structs and pointers to structs, map / interface / unmarshaler / unexported fields; tagged for a random subset of {param,query,form,header}, untagged, or tagged differently per source), 7 hand-written catalogue types (embedded named / pointer / tagged embedded, unexported, unmarshalers, map and interface fields, mass-assignment), map[string]T and non-struct destinations; random initial values; requests: BindPathParams / BindQueryParams / BindHeaders / c.Bind x 10 method spellings x 26 Content-Type spellings x {no body, urlencoded, multipart, JSON, XML, junk} x ContentLength {exact, -1, 0}; keys = tags of the source, tags of OTHER sources, Go field names, json names, case variants, Unicode look-alikes, tag plus an affix, SEPARATOR variants of the tag (`-` / `_` / `.` / blank exchanged, dropped or inserted, CGI spelling HTTP_X_Y), junk; header names canonical or as spelled; header data present while Bind / BindBody run; key sets of 257 / 1025 / 4097 keys with the keys that matter last; JSON and XML documents with ONE defect in the middle (36 XML defects: stray / mismatched / overlapping end tags, bare &, HTML entities, unclosed <br>, unquoted attributes, control bytes, no root element …; 27 JSON defects: trailing / doubled comma, single quotes, unquoted keys, comments, NaN, 01, bad escapes …) under 8 spellings of the XML and 5 of the JSON media type; the same field addressed through 2-3 sources at once; non-trivial = some applied source carries a key equal (under folding) to a tag of a reachable field; distinct = distinct model op lines",
		New:            func() any { return &c09Case{} },
		Gen:            c09Gen,
		Run:            c09Run,
		Shrink:         c09Shrink,
		Mutate:         c09Mutate,
		Tolerable:      c09Tolerable,
		Correspondence: "C09.bindData / C09.bind (lean/EchoModel/C09.lean) vs DefaultBinder.BindPathParams/BindQueryParams/BindHeaders/Bind",
	})
}
