package main

// C19 end-to-end scenarios: echo + ProxyWithConfig in front of instrumented upstream servers.

import (
	"bufio"
	"bytes"
	"context"
	"fmt"
	"io"
	"math/rand"
	"net"
	"net/http"
	"net/http/httptest"
	"net/url"
	"regexp"
	"sort"
	"strings"
	"sync"
	"time"

	"github.com/labstack/echo/v4"
	"github.com/labstack/echo/v4/middleware"
)

const c19Slots = 4

// response header every upstream handler adds: tells a relayed upstream answer from an answer
// the proxy produced itself (e.g. an upstream's own 502 from the proxy's 502)
const c19Marker = "X-C19-Upstream"

const c19OnlyF16 = "[only F16-class failures] "

// F16 (known finding): behind a real http.Server a request WITH a non-empty body that is retried
// (second or later attempt) cannot be delivered to a live target: the first attempt closed the
// server's request body.  Signature: real-server case, every oracle failure of the case is a
// consequence of exactly that (see failRetryBody), and the model (which has this behaviour,
// Env.bodyOnce) agrees with the implementation.
func c19Known(ci any, res Result, modelObs string) string {
	c := ci.(*c19Case)
	if c.Kind == 5 && strings.HasPrefix(res.Oracle, c19OnlyF16) && res.Obs == modelObs {
		return "F16"
	}
	return ""
}

func c19GenReal(r *rand.Rand, tier string) *c19Case {
	c := c19GenE2E(r, tier, false)
	c.Kind = 5
	if len(c.Steps) > 5 {
		c.Steps = c.Steps[:5]
	}
	if r.Intn(3) == 0 { // aimed at the retry-with-body path
		c.RR = true
		c.Init = []c19Target{{"t0", 0}, {"t1", 1}, {"t2", 2}}[:2+r.Intn(2)]
		c.Alive = []bool{r.Intn(3) == 0, r.Intn(3) != 0, true, true}
		c.Retry = 1 + r.Intn(3)
	}
	for i := range c.Steps {
		if rq := c.Steps[i].Req; rq != nil {
			rq.Canceled = false
			if rq.Scheme != "" && (rq.Host == "" || r.Intn(2) == 0) {
				// the request line goes to the TCP connection as it is: empty authority, no path, userinfo,
				// any scheme in any case reach the real server's parser (round 9)
				rq.Raw = true
			} else if rq.Scheme != "" {
				rq.Scheme = "http" // an https target would make the client CONNECT
				if !strings.HasPrefix(rq.URI, "/") {
					rq.URI = "/" + rq.URI // net/http's client never sends an empty path
				}
				if k := strings.LastIndex(rq.Host, "@"); k >= 0 {
					rq.Host = rq.Host[k+1:] // net/http's client turns userinfo into an Authorization header
				}
			}
			rq.WS = r.Intn(5) == 0
			if rq.WS {
				// websocket upgrade over a plain TCP connection: Body / Resp.Body travel through the tunnel
				rq.Method, rq.Scheme, rq.Host, rq.Raw = "GET", "", "", false
				if !strings.HasPrefix(rq.URI, "/") {
					rq.URI = "/" + rq.URI // origin form again: a path-less target exists in absolute form only
				}
				rq.Body, rq.Resp.Body = c19GenBytes(r, "quick"), c19GenBytes(r, "quick")
				if r.Intn(4) == 0 {
					rq.Body = nil
				}
			}
			if len(rq.Body) > 8192 {
				rq.Body = rq.Body[:8192]
			}
			if r.Intn(2) == 0 && len(rq.Body) == 0 && !rq.WS {
				rq.Method = "POST"
				rq.Body = []byte("payload")
				rq.Chunked = r.Intn(2) == 0 // chunked upload
			}
			if (rq.Method == "GET" || rq.Method == "HEAD" || rq.Method == "OPTIONS") && !rq.WS {
				rq.Body = nil
			}
			if rq.WS || rq.Method == "GET" || rq.Method == "HEAD" || rq.Method == "OPTIONS" {
				rq.Chunked = false
			}
			// hop-by-hop request headers are consumed by the front server / real client here
			var hs [][2]string
			for _, kv := range rq.Headers {
				if !c19HopByHop[kv[0]] && kv[0] != "X-Drop-Me" && kv[0] != "Accept-Encoding" {
					hs = append(hs, kv)
				}
			}
			rq.Headers = hs
		}
	}
	c19FixShortWants(c)
	return c
}

type c19Hit struct {
	slot   int
	method string
	uri    string
	header http.Header
	body   []byte
	ws     bool
}

type c19Pool struct {
	servers [c19Slots]*httptest.Server
	live    [c19Slots]*url.URL
	dead    [c19Slots]*url.URL
	mu      sync.Mutex
	hits    []c19Hit
	script  c19Resp
	wsLen   int
	err     string
}

var (
	c19PoolOnce sync.Once
	c19ThePool  *c19Pool
)

const c19IOTimeout = 20 * time.Second

// websocket side of an upstream: answer 101 (+ marker + scripted headers), read the scripted number
// of bytes from the tunnel, log the hit, send the scripted bytes back and close
func (p *c19Pool) serveWS(slot int, w http.ResponseWriter, r *http.Request) {
	hj, ok := w.(http.Hijacker)
	if !ok {
		w.WriteHeader(598)
		return
	}
	conn, buf, err := hj.Hijack()
	if err != nil {
		return
	}
	defer conn.Close()
	p.mu.Lock()
	sc, n := p.script, p.wsLen
	p.mu.Unlock()
	conn.SetDeadline(time.Now().Add(c19IOTimeout))
	var sb strings.Builder
	sb.WriteString("HTTP/1.1 101 Switching Protocols\r\nUpgrade: websocket\r\nConnection: Upgrade\r\n")
	fmt.Fprintf(&sb, "%s: %d\r\n", c19Marker, slot)
	for _, kv := range sc.Headers {
		fmt.Fprintf(&sb, "%s: %s\r\n", kv[0], kv[1])
	}
	sb.WriteString("\r\n")
	buf.WriteString(sb.String())
	buf.Flush()
	got := make([]byte, n)
	m, _ := io.ReadFull(buf, got)
	p.mu.Lock()
	p.hits = append(p.hits, c19Hit{slot, r.Method, r.RequestURI, r.Header.Clone(), got[:m], true})
	p.mu.Unlock()
	buf.Write(sc.Body)
	buf.Flush()
}

// 4 upstream servers that live as long as the harness process, and 4 loopback ports below the
// ephemeral range on which nothing listens (connection refused = unreachable target; ports of
// closed httptest servers could be handed out again by the kernel, these cannot)
func c19GetPool() *c19Pool {
	c19PoolOnce.Do(func() {
		p := &c19Pool{}
		for i := 0; i < c19Slots; i++ {
			slot := i
			p.servers[i] = httptest.NewServer(http.HandlerFunc(func(w http.ResponseWriter, r *http.Request) {
				if strings.EqualFold(r.Header.Get("Upgrade"), "websocket") {
					p.serveWS(slot, w, r)
					return
				}
				body, err := io.ReadAll(r.Body)
				if err != nil {
					// a request whose body breaks off is not logged: when the proxy aborts an attempt the
					// upstream may notice before or after the client has its answer (timing), so only
					// completely received requests count as "reached the upstream"
					w.WriteHeader(599)
					return
				}
				p.mu.Lock()
				p.hits = append(p.hits, c19Hit{slot, r.Method, r.RequestURI, r.Header.Clone(), body, false})
				sc := p.script
				p.mu.Unlock()
				w.Header().Set(c19Marker, fmt.Sprint(slot))
				for _, kv := range sc.Headers {
					w.Header().Add(kv[0], kv[1])
				}
				w.WriteHeader(sc.Status)
				w.Write(sc.Body)
			}))
			p.live[i], _ = url.Parse(p.servers[i].URL)
		}
		n := 0
		for port := 1; port < 1024 && n < c19Slots; port++ {
			addr := fmt.Sprintf("127.0.0.1:%d", port)
			conn, err := net.DialTimeout("tcp", addr, 500*time.Millisecond)
			if err == nil {
				conn.Close()
				continue
			}
			if !strings.Contains(err.Error(), "refused") {
				continue
			}
			p.dead[n], _ = url.Parse("http://" + addr)
			n++
		}
		if n < c19Slots {
			p.err = "could not find 4 refused loopback ports"
		}
		c19ThePool = p
	})
	return c19ThePool
}

func (p *c19Pool) arm(sc c19Resp, wsLen int) {
	p.mu.Lock()
	p.hits = nil
	p.script = sc
	p.wsLen = wsLen
	p.mu.Unlock()
}

func (p *c19Pool) taken() []c19Hit {
	p.mu.Lock()
	defer p.mu.Unlock()
	h := p.hits
	p.hits = nil
	return h
}

// what the callbacks of one request saw
type c19FCall struct {
	err    int // class of the error passed in (see c19ErrClass)
	answer bool
	key    any // c.Get(ContextKey) at that moment
	npicks int // Next/NextTarget results so far
}

type c19Calls struct {
	mu       sync.Mutex
	picks    []*middleware.ProxyTarget
	filter   []c19FCall
	handler  []c19FCall
	provN    int      // NextTarget calls
	provErrs []int    // script of the current request
	nextN    int      // calls of the handler behind the middleware
	trips    []string // hosts addressed by the round trips of the logging Transport
	keyAfter any      // c.Get(ContextKey) when the middleware returned
	keySeen  bool
	done     chan struct{} // signalled when the middleware chain of a request has returned
}

// -1: not an *echo.HTTPError, else its code
func c19ErrClass(err error) int {
	if he, ok := err.(*echo.HTTPError); ok {
		return he.Code
	}
	return -1
}

func c19EncErr(class int) string {
	if class < 0 {
		return "o"
	}
	return fmt.Sprintf("h%d", class)
}

// balancer wrapper that records what the real balancer returned to the proxy
type c19RecBal struct {
	inner middleware.ProxyBalancer
	calls *c19Calls
}

func (b *c19RecBal) AddTarget(t *middleware.ProxyTarget) bool { return b.inner.AddTarget(t) }
func (b *c19RecBal) RemoveTarget(n string) bool               { return b.inner.RemoveTarget(n) }
func (b *c19RecBal) Next(c echo.Context) *middleware.ProxyTarget {
	t := b.inner.Next(c)
	b.calls.mu.Lock()
	b.calls.picks = append(b.calls.picks, t)
	b.calls.mu.Unlock()
	return t
}

// the same, as a TargetProvider that answers scripted errors
type c19RecProv struct{ *c19RecBal }

func (b *c19RecProv) NextTarget(c echo.Context) (*middleware.ProxyTarget, error) {
	b.calls.mu.Lock()
	k := b.calls.provN
	b.calls.provN++
	code := 0
	if k < len(b.calls.provErrs) {
		code = b.calls.provErrs[k]
	}
	b.calls.mu.Unlock()
	switch {
	case code < 0:
		return nil, fmt.Errorf("c19: provider error")
	case code > 0:
		return nil, echo.NewHTTPError(code, "c19: provider error")
	}
	return b.c19RecBal.Next(c), nil
}

var c19HopByHop = map[string]bool{
	"Connection": true, "Proxy-Connection": true, "Keep-Alive": true, "Proxy-Authenticate": true,
	"Proxy-Authorization": true, "Te": true, "Trailer": true, "Transfer-Encoding": true, "Upgrade": true,
}

// headers that are end-to-end for a given header set (RFC 7230 6.1)
func c19EndToEnd(h [][2]string) map[string][]string {
	drop := map[string]bool{}
	for _, kv := range h {
		if http.CanonicalHeaderKey(kv[0]) == "Connection" {
			for _, f := range strings.Split(kv[1], ",") {
				drop[http.CanonicalHeaderKey(strings.TrimSpace(f))] = true
			}
		}
	}
	out := map[string][]string{}
	for _, kv := range h {
		k := http.CanonicalHeaderKey(kv[0])
		if c19HopByHop[k] || drop[k] {
			continue
		}
		out[k] = append(out[k], kv[1])
	}
	return out
}

func c19Has(h [][2]string, name string) bool {
	for _, kv := range h {
		if http.CanonicalHeaderKey(kv[0]) == name {
			return true
		}
	}
	return false
}

func c19SameVals(a, b []string) bool {
	if len(a) != len(b) {
		return false
	}
	for i := range a {
		if a[i] != b[i] {
			return false
		}
	}
	return true
}

const c19SkipHeader = "X-C19-Skip"

// net/http (transfer.go, requestMethodUsuallyLacksBody)
var c19UsuallyLacksBody = map[string]bool{"GET": true, "HEAD": true, "DELETE": true, "OPTIONS": true, "PROPFIND": true, "SEARCH": true}

// ProxyConfig.Transport that logs which host every round trip of the reverse proxy addressed
type c19LogRT struct {
	inner http.RoundTripper
	calls *c19Calls
}

func (t *c19LogRT) RoundTrip(r *http.Request) (*http.Response, error) {
	t.calls.mu.Lock()
	t.calls.trips = append(t.calls.trips, r.URL.Host)
	t.calls.mu.Unlock()
	return t.inner.RoundTrip(r)
}

// the websocket client got no HTTP answer at all
type c19Dropped string

// the regexp rewriteRulesRegex documents for a glob rule (used when a rule is handed to the proxy
// through ProxyConfig.RegexRewrite instead of ProxyConfig.Rewrite)
func c19GlobRegexp(pat string) *regexp.Regexp {
	k := regexp.QuoteMeta(pat)
	k = strings.ReplaceAll(k, `\*`, "(.*?)")
	if strings.HasPrefix(k, `\^`) {
		k = strings.ReplaceAll(k, `\^`, "^")
	}
	return regexp.MustCompile(k + "$")
}

// websocket client over a plain TCP connection: sends the upgrade request, and after a 101 the
// payload; returns status, headers and everything the server sent after the header block
func c19WSClient(addr string, rq *c19Req) (*httptest.ResponseRecorder, error) {
	conn, err := net.DialTimeout("tcp", addr, c19IOTimeout)
	if err != nil {
		return nil, err
	}
	defer conn.Close()
	conn.SetDeadline(time.Now().Add(c19IOTimeout))
	var sb strings.Builder
	fmt.Fprintf(&sb, "%s %s HTTP/1.1\r\nHost: front.test\r\n", rq.Method, rq.URI)
	for _, kv := range rq.Headers {
		fmt.Fprintf(&sb, "%s: %s\r\n", kv[0], kv[1])
	}
	sb.WriteString("Connection: Upgrade\r\nUpgrade: websocket\r\nSec-WebSocket-Version: 13\r\nSec-WebSocket-Key: dmVyaWYtYzE5LWtleS0wMDE=\r\n\r\n")
	if _, err := io.WriteString(conn, sb.String()); err != nil {
		return nil, err
	}
	br := bufio.NewReader(conn)
	resp, err := http.ReadResponse(br, nil)
	if err != nil {
		return nil, fmt.Errorf("no HTTP response on the connection: %v", err)
	}
	w := httptest.NewRecorder()
	for k, vs := range resp.Header {
		w.Header()[k] = vs
	}
	w.Code = resp.StatusCode
	if resp.StatusCode == http.StatusSwitchingProtocols {
		if _, err := conn.Write(rq.Body); err != nil {
			return nil, err
		}
		b, _ := io.ReadAll(br) // until the tunnel is closed
		w.Body.Write(b)
		return w, nil
	}
	b, _ := io.ReadAll(resp.Body)
	resp.Body.Close()
	w.Body.Write(b)
	return w, nil
}

// a request whose target is in absolute form, written to a TCP connection byte for byte: what a
// forward-proxy client sends, including the forms net/http's own client cannot produce (empty
// authority, empty path, userinfo, schemes other than "http")
func c19RawAbsClient(addr string, rq *c19Req) (*httptest.ResponseRecorder, error) {
	conn, err := net.DialTimeout("tcp", addr, c19IOTimeout)
	if err != nil {
		return nil, err
	}
	defer conn.Close()
	conn.SetDeadline(time.Now().Add(c19IOTimeout))
	var sb strings.Builder
	fmt.Fprintf(&sb, "%s %s://%s%s HTTP/1.1\r\nHost: front.test\r\n", rq.Method, rq.Scheme, rq.Host, rq.URI)
	for _, kv := range rq.Headers {
		fmt.Fprintf(&sb, "%s: %s\r\n", kv[0], kv[1])
	}
	sb.WriteString("Connection: close\r\n")
	switch {
	case rq.Chunked && (len(rq.Body) > 0 || !c19UsuallyLacksBody[rq.Method]):
		sb.WriteString("Transfer-Encoding: chunked\r\n\r\n")
		for b := rq.Body; len(b) > 0; {
			n := len(b)
			if n > 1000 {
				n = 1000
			}
			fmt.Fprintf(&sb, "%x\r\n%s\r\n", n, b[:n])
			b = b[n:]
		}
		sb.WriteString("0\r\n\r\n")
	case len(rq.Body) > 0:
		fmt.Fprintf(&sb, "Content-Length: %d\r\n\r\n%s", len(rq.Body), rq.Body)
	default:
		sb.WriteString("\r\n")
	}
	if _, err := io.WriteString(conn, sb.String()); err != nil {
		return nil, err
	}
	resp, err := http.ReadResponse(bufio.NewReader(conn), &http.Request{Method: rq.Method})
	if err != nil {
		return nil, fmt.Errorf("no HTTP response on the connection: %v", err)
	}
	w := httptest.NewRecorder()
	for k, vs := range resp.Header {
		w.Header()[k] = vs
	}
	w.Code = resp.StatusCode
	b, _ := io.ReadAll(resp.Body)
	resp.Body.Close()
	w.Body.Write(b)
	return w, nil
}

func c19RunE2E(c *c19Case) (res Result) {
	p := c19GetPool()
	if p.err != "" {
		return Result{Oracle: "harness: " + p.err}
	}
	sh := &c19Shadow{id: map[*middleware.ProxyTarget]c19Target{}}
	alive := func(u int) bool { return u >= 0 && u < len(c.Alive) && c.Alive[u] }
	mk := func(t c19Target) *middleware.ProxyTarget {
		u := p.dead[((t.URL%c19Slots)+c19Slots)%c19Slots]
		if alive(t.URL) {
			u = p.live[t.URL%c19Slots]
		}
		pt := &middleware.ProxyTarget{Name: t.Name, URL: u}
		sh.id[pt] = t
		return pt
	}
	var init []*middleware.ProxyTarget
	for _, t := range c.Init {
		init = append(init, mk(t))
	}
	sh.cur = append(sh.cur, init...)
	calls := &c19Calls{done: make(chan struct{}, 1)}
	rec := &c19RecBal{inner: c19NewBalancer(c.RR, append([]*middleware.ProxyTarget(nil), init...)), calls: calls}
	var bal middleware.ProxyBalancer = rec
	if c.Provider {
		bal = &c19RecProv{rec}
	}

	// ---- the configuration in force
	viaProxy := c.Ctor == 1
	retry, rules, filter, handler, skipper, key := c.Retry, c.Rules, c.Filter, c.Handler, c.Skipper, c.CtxKey
	if viaProxy {
		retry, rules, filter, handler, skipper, key = 0, nil, nil, 0, false, "target"
	}
	if retry < 0 {
		retry = 0
	}
	var baseTr *http.Transport
	if !viaProxy && c.Transport != 0 {
		baseTr = &http.Transport{DisableKeepAlives: true}
		defer baseTr.CloseIdleConnections()
	}
	mkMW := func() echo.MiddlewareFunc {
		if viaProxy {
			return middleware.Proxy(bal)
		}
		{
			cfg := middleware.ProxyConfig{Balancer: bal, RetryCount: c.Retry, ContextKey: key}
			for j, r := range rules {
				if c.RegexCfg && j%2 == 1 {
					if cfg.RegexRewrite == nil {
						cfg.RegexRewrite = map[*regexp.Regexp]string{}
					}
					cfg.RegexRewrite[c19GlobRegexp(r.Pat)] = r.Tmpl
					continue
				}
				if cfg.Rewrite == nil {
					cfg.Rewrite = map[string]string{}
				}
				cfg.Rewrite[r.Pat] = r.Tmpl
			}
			if filter != nil {
				f := filter
				cfg.RetryFilter = func(ec echo.Context, err error) bool {
					calls.mu.Lock()
					defer calls.mu.Unlock()
					k := len(calls.filter)
					ans := false
					switch f.Kind {
					case 1:
						ans = f.Rest
						if k < len(f.Answers) {
							ans = f.Answers[k]
						}
					case 2:
						cl := c19ErrClass(err)
						for _, x := range f.Codes {
							if x == cl {
								ans = true
							}
						}
					}
					calls.filter = append(calls.filter, c19FCall{c19ErrClass(err), ans, ec.Get(key), len(calls.picks)})
					return ans
				}
			}
			if handler != 0 {
				cfg.ErrorHandler = func(ec echo.Context, err error) error {
					calls.mu.Lock()
					calls.handler = append(calls.handler, c19FCall{c19ErrClass(err), false, ec.Get(key), len(calls.picks)})
					calls.mu.Unlock()
					if handler < 0 {
						return ec.String(http.StatusNonAuthoritativeInfo, "handled")
					}
					return echo.NewHTTPError(handler, "c19: mapped")
				}
			}
			if skipper {
				cfg.Skipper = func(ec echo.Context) bool { return ec.Request().Header.Get(c19SkipHeader) != "" }
			}
			switch c.Transport {
			case 1:
				cfg.Transport = baseTr
			case 2:
				cfg.Transport = &c19LogRT{baseTr, calls}
			}
			return middleware.ProxyWithConfig(cfg)
		}
	}
	mkEcho := func() *echo.Echo {
		mw := mkMW()
		e := echo.New()
		e.Logger.SetOutput(io.Discard)
		// outer middleware: looks at the context after the proxy middleware returned
		e.Use(func(next echo.HandlerFunc) echo.HandlerFunc {
			return func(ec echo.Context) error {
				err := next(ec)
				calls.mu.Lock()
				calls.keyAfter, calls.keySeen = ec.Get(key), true
				calls.mu.Unlock()
				select {
				case calls.done <- struct{}{}:
				default:
				}
				return err
			}
		})
		e.Use(mw)
		// what a skipped request falls through to
		e.Any("/*", func(ec echo.Context) error {
			calls.mu.Lock()
			calls.nextN++
			calls.mu.Unlock()
			return ec.String(299, "next")
		})
		return e
	}
	insts := []*echo.Echo{mkEcho()}
	if c.TwoInst {
		insts = append(insts, mkEcho())
	}

	ops := []string{"1", wBool(c.RR), wBool(viaProxy), wInt(retry), wBool(c.Provider)}
	switch {
	case c.Filter == nil:
		ops = append(ops, "0")
	case c.Filter.Kind == 1:
		ops = append(ops, "1", wInt(len(c.Filter.Answers)))
		for _, a := range c.Filter.Answers {
			ops = append(ops, wBool(a))
		}
		ops = append(ops, wBool(c.Filter.Rest))
	default:
		ops = append(ops, "2", wInt(len(c.Filter.Codes)))
		for _, x := range c.Filter.Codes {
			ops = append(ops, wInt(x))
		}
	}
	ops = append(ops, wBool(c.Skipper), c19EncTargets(c.Init), wInt(len(c.Alive)))
	for _, a := range c.Alive {
		ops = append(ops, wBool(a))
	}
	ops = append(ops, wInt(len(c.Rules)))
	for _, r := range c.Rules {
		ops = append(ops, wStr(r.Pat), wStr(r.Tmpl))
	}
	ops = append(ops, wInt(len(c.Steps)))
	var obs []string
	var fails []string
	// F16 class: behind a real http.Server every attempt closes the request body, so a retry of a
	// request WITH a body cannot succeed on a live target.  Failures that are consequences of
	// exactly that are prefixed "F16:" (see c19Known); f16 is set per request below.
	f16 := false
	fail := func(i int, msg string) {
		fails = append(fails, fmt.Sprintf("step %d: %s", i, msg))
	}
	failRetryBody := func(i int, msg string) {
		if f16 {
			fails = append(fails, fmt.Sprintf("F16: step %d: %s", i, msg))
		} else {
			fail(i, msg)
		}
	}
	tagset := map[string]bool{}
	window := map[*middleware.ProxyTarget]int{}
	nontrivial := false
	var fronts []*httptest.Server
	var client *http.Client
	var absClients []*http.Client
	if c.Kind == 5 {
		noRedirect := func(*http.Request, []*http.Request) error { return http.ErrUseLastResponse }
		client = &http.Client{Transport: &http.Transport{DisableKeepAlives: true}, CheckRedirect: noRedirect}
		for _, e := range insts {
			front := httptest.NewServer(e)
			defer front.Close()
			fronts = append(fronts, front)
			fu, _ := url.Parse(front.URL)
			// a client that talks to echo as to a forward proxy sends request targets in absolute form
			absClients = append(absClients, &http.Client{Transport: &http.Transport{DisableKeepAlives: true, Proxy: http.ProxyURL(fu)}, CheckRedirect: noRedirect})
		}
	}

	for i, st := range c.Steps {
		switch st.K {
		case 0:
			pt := mk(c19Target{st.Name, st.URL})
			ops = append(ops, "0", wStr(st.Name), wInt(st.URL))
			existed := sh.has(st.Name)
			ok := rec.AddTarget(pt)
			obs = append(obs, wBool(ok))
			if ok == existed {
				fail(i, fmt.Sprintf("AddTarget(%q) returned %v, existed=%v", st.Name, ok, existed))
			}
			if ok {
				sh.cur = append(sh.cur, pt)
				window = map[*middleware.ProxyTarget]int{}
				tagset["e2e-add"] = true
			}
			continue
		case 1:
			ops = append(ops, "1", wStr(st.Name))
			existed := sh.has(st.Name)
			ok := rec.RemoveTarget(st.Name)
			obs = append(obs, wBool(ok))
			if ok != existed {
				fail(i, fmt.Sprintf("RemoveTarget(%q) returned %v, existed=%v", st.Name, ok, existed))
			}
			if ok {
				sh.remove(st.Name)
				window = map[*middleware.ProxyTarget]int{}
				tagset["e2e-remove"] = true
			}
			continue
		}
		rq := st.Req
		if rq == nil {
			continue
		}
		// ---- one proxied request
		wsLen := 0
		if rq.WS {
			wsLen = len(rq.Body)
		}
		p.arm(rq.Resp, wsLen)
		calls.mu.Lock()
		calls.picks, calls.filter, calls.handler, calls.provN, calls.nextN, calls.trips = nil, nil, nil, 0, 0, nil
		calls.provErrs = rq.ProvErr
		calls.keyAfter, calls.keySeen = nil, false
		calls.mu.Unlock()
		var rr *httptest.ResponseRecorder
		var panicked any
		abs := rq.Scheme != "" // the authority may be empty
		hijackable := c.Kind == 5
		// a zero-byte upload of unknown length is still a (chunked) server body — unless the method usually
		// has no body: then net/http's client probes the reader and sends no body at all
		bodyOnce := c.Kind == 5 && (len(rq.Body) > 0 || rq.Chunked && !c19UsuallyLacksBody[rq.Method]) && !rq.WS
		inst := 0
		if rq.Inst == 1 && len(insts) > 1 {
			inst = 1
		}
		e := insts[inst]
		var front *httptest.Server
		var absClient *http.Client
		if c.Kind == 5 {
			front, absClient = fronts[inst], absClients[inst]
		}
		hdrs := rq.Headers
		if rq.Skip {
			hdrs = append(append([][2]string(nil), hdrs...), [2]string{c19SkipHeader, "1"})
		}
		func() {
			defer func() { panicked = recover() }()
			var body io.Reader
			if len(rq.Body) > 0 && !rq.WS {
				body = bytes.NewReader(rq.Body)
			}
			if rq.Chunked && !rq.WS {
				// a reader whose length net/http cannot know: ContentLength -1 in-process, a chunked
				// upload over the wire (also with zero bytes)
				body = struct{ io.Reader }{bytes.NewReader(rq.Body)}
			}
			if c.Kind == 5 && rq.WS {
				q := *rq
				q.Headers = hdrs
				w, err := c19WSClient(front.Listener.Addr().String(), &q)
				if err != nil {
					panic(c19Dropped(fmt.Sprintf("the client's connection was dropped without an answer (%v)", err)))
				}
				rr = w
				return
			}
			if c.Kind == 5 && abs && (rq.Raw || rq.Host == "") {
				q := *rq
				q.Headers = hdrs
				w, err := c19RawAbsClient(front.Listener.Addr().String(), &q)
				if err != nil {
					panic(c19Dropped(fmt.Sprintf("the client's connection was dropped without an answer (%v)", err)))
				}
				rr = w
				return
			}
			if c.Kind == 5 {
				// through a real http.Server and TCP: the request body is net/http's server body
				target, cl := front.URL+rq.URI, client
				if abs {
					target, cl = rq.Scheme+"://"+rq.Host+rq.URI, absClient
				}
				req, err := http.NewRequest(rq.Method, target, body)
				if err != nil {
					panic(err)
				}
				for _, kv := range hdrs {
					req.Header.Add(kv[0], kv[1])
				}
				resp, err := cl.Do(req)
				if err != nil {
					panic(fmt.Sprintf("client error (server side panic?): %v", err))
				}
				defer resp.Body.Close()
				b, _ := io.ReadAll(resp.Body)
				w := httptest.NewRecorder()
				for k, vs := range resp.Header {
					w.Header()[k] = vs
				}
				w.Code = resp.StatusCode
				w.Body.Write(b)
				rr = w
				return
			}
			target := rq.URI
			if abs {
				target = rq.Scheme + "://" + rq.Host + rq.URI
			}
			req := httptest.NewRequest(rq.Method, target, body)
			for _, kv := range hdrs {
				req.Header.Add(kv[0], kv[1])
			}
			if rq.WS {
				req.Header.Set("Connection", "Upgrade")
				req.Header.Set("Upgrade", "websocket")
			}
			if rq.Canceled {
				ctx, cancel := context.WithCancel(req.Context())
				cancel()
				req = req.WithContext(ctx)
			}
			w := httptest.NewRecorder()
			e.ServeHTTP(w, req)
			rr = w
		}()
		if c.Kind == 5 {
			// the client may have its answer before the server side handler has returned
			select {
			case <-calls.done:
			case <-time.After(c19IOTimeout):
			}
		} else {
			select {
			case <-calls.done:
			default:
			}
		}
		hits := p.taken()
		calls.mu.Lock()
		picks := append([]*middleware.ProxyTarget(nil), calls.picks...)
		fcalls := append([]c19FCall(nil), calls.filter...)
		hcalls := append([]c19FCall(nil), calls.handler...)
		provN, nextN, keyAfter, keySeen := calls.provN, calls.nextN, calls.keyAfter, calls.keySeen
		trips := append([]string(nil), calls.trips...)
		calls.mu.Unlock()

		var hints []string
		if !c.RR {
			for _, t := range picks {
				if t != nil {
					hints = append(hints, t.Name)
				}
			}
		}
		raw := rq.URI
		if abs {
			raw = rq.Scheme + "://" + rq.Host + rq.URI
		}
		pathq := rq.URI // path and query as the upstream is asked for them when no rule fires
		if abs && !strings.HasPrefix(pathq, "/") {
			pathq = "/" + pathq
		}
		ops = append(ops, "3", wStr(raw), wStr(pathq), wBool(rq.Canceled), wBool(bodyOnce),
			wBool(rq.WS), wBool(hijackable), wBool(rq.Skip), wInt(len(rq.ProvErr)))
		for _, x := range rq.ProvErr {
			switch {
			case x == 0:
				ops = append(ops, "0")
			case x < 0:
				ops = append(ops, "1", "0")
			default:
				ops = append(ops, "1", wInt(x))
			}
		}
		ops = append(ops, wStrs(hints))
		f16 = bodyOnce && len(picks) >= 2

		skipped := skipper && rq.Skip
		relayed := panicked == nil && rr.Header().Get(c19Marker) != ""
		// class of the error the request ended with: what a custom ErrorHandler was given, else what
		// the default one shows the client (HTTPError code; 500 for any other error)
		endErr := 0
		if panicked == nil && !relayed {
			switch {
			case len(hcalls) > 0:
				endErr = hcalls[len(hcalls)-1].err
			case rr.Code == http.StatusInternalServerError:
				endErr = -1
			default:
				endErr = rr.Code
			}
		}

		// observation
		// what a skipped request falls through to: the catch-all route, or echo's 404 for a path-less target
		fellThrough := panicked == nil && (nextN == 1 && rr.Code == 299 || nextN == 0 && !strings.HasPrefix(rq.URI, "/") && rr.Code == http.StatusNotFound)
		if skipped && len(picks) == 0 && !relayed && fellThrough {
			obs = append(obs, "5")
		} else {
			o := []string{wInt(len(picks))}
			for _, t := range picks {
				o = append(o, c19EncPick(sh, t))
			}
			switch {
			case panicked != nil:
				o = append(o, "4", wStr(""))
			case relayed:
				u := ""
				if len(hits) > 0 {
					u = hits[len(hits)-1].uri
				}
				o = append(o, "1", wStr(u))
			default:
				o = append(o, "2", c19EncErr(endErr), wStr(""))
			}
			if filter != nil {
				o = append(o, "1", wInt(len(fcalls)))
				for _, f := range fcalls {
					o = append(o, c19EncErr(f.err))
				}
			} else {
				o = append(o, "0")
			}
			obs = append(obs, o...)
		}

		// ---- model-free oracle: the property itself on what was observed
		if d, ok := panicked.(c19Dropped); ok {
			fail(i, fmt.Sprintf("websocket request over %d picks: %s; every request must be answered (by a live target, else 502)", len(picks), string(d)))
			tagset["e2e-dropped"] = true
			continue
		}
		if panicked != nil {
			fail(i, fmt.Sprintf("panic while proxying (%d current targets): %v", len(sh.cur), panicked))
			tagset["e2e-panic"] = true
			continue
		}
		if rq.WS {
			tagset["e2e-websocket"] = true
		}
		if abs {
			tagset["e2e-absolute-form"] = true
		}
		if skipped {
			// Skipper: the request is none of the proxy's business
			tagset["e2e-skipped"] = true
			if len(picks) > 0 || provN > 0 {
				fail(i, "a skipped request consulted the balancer")
			}
			if len(hits) > 0 || relayed {
				fail(i, "a skipped request reached an upstream")
			}
			if !fellThrough {
				fail(i, fmt.Sprintf("a skipped request must be answered by the next handler (called %d times, client got %d)", nextN, rr.Code))
			}
			continue
		}
		if nextN > 0 {
			fail(i, "the handler behind the proxy middleware ran for a request that was not skipped")
		}
		// TargetProvider script: index of the first NextTarget call that answers an error
		provAt := -1
		if c.Provider {
			for k, x := range rq.ProvErr {
				if x != 0 {
					provAt = k
					break
				}
			}
		}
		provEnded := provAt >= 0 && provN == provAt+1 && len(picks) == provAt
		if c.Provider {
			tagset["e2e-provider"] = true
			if provAt >= 0 && len(picks) > provAt {
				fail(i, fmt.Sprintf("NextTarget call %d answered an error and the proxy went on to attempt %d", provAt, len(picks)))
			}
			if provEnded {
				tagset["e2e-provider-error"] = true
				want := rq.ProvErr[provAt]
				if endErr != want {
					fail(i, fmt.Sprintf("the TargetProvider's error (class %d) was not what the request ended with (class %d)", want, endErr))
				}
			}
		}
		if (len(picks) < 1 && c.Kind != 3 && !provEnded) || len(picks) > retry+1 { // kind 3: a rewrite error answers before any attempt
			fail(i, fmt.Sprintf("%d attempts with RetryCount %d", len(picks), retry))
		}
		wsArtefact := rq.WS && !hijackable // a ResponseRecorder cannot be hijacked: no tunnel, whatever the target
		allDead := true
		for k, t := range picks {
			if t == nil {
				if len(sh.cur) != 0 {
					fail(i, "balancer returned no target although it has targets")
				}
				continue
			}
			if !sh.member(t) {
				fail(i, fmt.Sprintf("attempt %d used %q which is not a current target", k, t.Name))
			}
			if alive(sh.id[t].URL) && !wsArtefact {
				allDead = false
				if k != len(picks)-1 && !rq.Canceled && k == 0 {
					fail(i, fmt.Sprintf("attempt 0 reached the live target %q and the request was attempted again", t.Name))
				} else if k != len(picks)-1 && !rq.Canceled {
					failRetryBody(i, fmt.Sprintf("attempt %d reached the live target %q and the request was attempted again", k, t.Name))
				}
			}
			if c.RR && k > 0 && len(sh.cur) >= 2 && picks[k-1] != nil {
				if picks[k-1] == t {
					fail(i, fmt.Sprintf("retry %d used the same target %q again", k, t.Name))
				} else if sh.pos(t) != (sh.pos(picks[k-1])+1)%len(sh.cur) {
					fail(i, fmt.Sprintf("retry %d went to %q, not to the target after %q", k, t.Name, picks[k-1].Name))
				}
			}
		}
		if c.RR && len(picks) > 0 && picks[0] != nil {
			window[picks[0]]++
			if msg := c19Unfair(window, sh.cur); msg != "" {
				fail(i, msg)
			}
		}
		if len(picks) > 1 {
			tagset["e2e-retried"] = true
			if len(sh.cur) >= 2 {
				nontrivial = true
			}
		}
		lastNil := len(picks) > 0 && picks[len(picks)-1] == nil
		var lastPick *middleware.ProxyTarget // what ContextKey must hold: the last target handed to an attempt
		for _, t := range picks {
			if t != nil {
				lastPick = t
			}
		}
		// ---- RetryFilter / ErrorHandler / ContextKey contracts (ProxyConfig documentation)
		rewriteFailed := c.Kind == 3 && len(picks) == 0 // the rewritten string did not parse: answered before any attempt
		if rewriteFailed {
			// nothing to check here
		} else if filter != nil {
			tagset["e2e-custom-filter"] = true
			if len(fcalls) > retry {
				fail(i, fmt.Sprintf("RetryFilter was called %d times with RetryCount %d", len(fcalls), retry))
			}
			trues := 0
			for j, f := range fcalls {
				if f.npicks != j+1 {
					fail(i, fmt.Sprintf("RetryFilter call %d came after %d attempts", j, f.npicks))
				}
				if j < len(picks) && picks[j] != nil && f.key != any(picks[j]) {
					fail(i, fmt.Sprintf("RetryFilter call %d: context key %q does not hold the target of the failed attempt", j, key))
				}
				if f.answer {
					trues++
				} else if j != len(fcalls)-1 || len(picks) != j+1 {
					fail(i, fmt.Sprintf("RetryFilter answered false at call %d and the request was attempted again", j))
				}
			}
			if !provEnded && !lastNil && len(picks) != trues+1 {
				fail(i, fmt.Sprintf("RetryFilter allowed %d retries, the request was attempted %d times", trues, len(picks)))
			}
			if !relayed && !provEnded && !lastNil && len(picks) < retry+1 && (len(fcalls) == 0 || fcalls[len(fcalls)-1].answer) {
				fail(i, fmt.Sprintf("the request failed after %d of %d allowed attempts although the RetryFilter never declined a retry", len(picks), retry+1))
			}
		} else if !relayed && !provEnded && !lastNil && endErr == http.StatusBadGateway && len(picks) != retry+1 {
			// default RetryFilter: every 502 is retried while retries are left, whatever the request
			fail(i, fmt.Sprintf("the client got 502 after %d attempt(s) although RetryCount %d allows %d: an unreachable target must be retried (%s request)", len(picks), retry, retry+1, rq.Method))
		}
		if handler != 0 {
			tagset["e2e-custom-handler"] = true
			switch {
			case relayed && len(hcalls) > 0:
				fail(i, "ErrorHandler was called although an upstream answer was relayed")
			case !relayed && len(hcalls) != 1 && c.Kind != 3:
				fail(i, fmt.Sprintf("ErrorHandler was called %d times for a request that failed", len(hcalls)))
			case !relayed && len(hcalls) == 1:
				if hcalls[0].npicks != len(picks) {
					fail(i, "ErrorHandler was called before the last attempt")
				}
				want := handler
				if handler < 0 {
					want = http.StatusNonAuthoritativeInfo
				}
				if rr.Code != want {
					fail(i, fmt.Sprintf("the ErrorHandler's answer %d reached the client as %d", want, rr.Code))
				}
			}
		}
		if keySeen && lastPick != nil && keyAfter != any(lastPick) {
			fail(i, fmt.Sprintf("context key %q does not hold the selected target %q after the request", key, lastPick.Name))
		}
		if !keySeen {
			fail(i, "the proxy middleware did not return")
		}

		if !viaProxy && c.Transport == 2 && !rq.WS {
			// one round trip per attempt, addressed to the target of that attempt
			tagset["e2e-transport-logged"] = true
			var wantTrips []string
			for _, t := range picks {
				if t != nil {
					wantTrips = append(wantTrips, t.URL.Host)
				}
			}
			if !c19SameVals(trips, wantTrips) {
				fail(i, fmt.Sprintf("the attempts selected %q, the configured Transport was asked for %q", wantTrips, trips))
			}
		}
		if inst == 1 {
			tagset["e2e-second-instance"] = true
		}
		if len(hits) > 1 {
			fail(i, fmt.Sprintf("%d upstream servers/requests were hit by one client request", len(hits)))
		}
		if rq.Canceled {
			tagset["e2e-canceled"] = true
			if len(hits) > 0 {
				fail(i, "a request whose client context was already cancelled reached an upstream")
			}
			continue
		}
		if len(hits) == 0 {
			if !allDead {
				failRetryBody(i, fmt.Sprintf("client got %d and no upstream was reached although an attempted target was alive", rr.Code))
			}
			if relayed {
				fail(i, "the client got an upstream answer although no upstream logged the request")
			}
			attempted := false // a target was handed to an attempt
			for _, t := range picks {
				if t != nil {
					attempted = true
				}
			}
			switch {
			case handler != 0 || provEnded || wsArtefact || c.Kind == 3:
				// the client sees what the configured handler / the provider's error says
			case !attempted:
				// The balancer had no target to offer: nothing was attempted.  The property's 502 clause is
				// about attempts that failed ("502 only when every attempt failed"); which refusal answers
				// a request that could not be attempted at all is left open — it must be a refusal (5xx),
				// and no upstream is hit (len(hits) == 0 here).
				if rr.Code < 500 || rr.Code > 599 {
					fail(i, fmt.Sprintf("no target could be attempted and the client got %d, not a 5xx refusal", rr.Code))
				}
			case rr.Code == http.StatusBadGateway:
				tagset["e2e-502"] = true
			default:
				fail(i, fmt.Sprintf("every attempt failed and the client got %d, not 502", rr.Code))
			}
			if len(sh.cur) == 0 {
				tagset["e2e-no-target"] = true
			}
			continue
		}
		h := hits[0]
		tagset["e2e-relayed"] = true
		if _, q, ok := strings.Cut(rq.URI, "?"); ok {
			if _, err := url.ParseQuery(q); err != nil || strings.Contains(q, ";") {
				tagset["e2e-raw-query-unparseable"] = true
			} else if q != "" {
				tagset["e2e-query"] = true
			}
		}
		if rr.Header().Get(c19Marker) != fmt.Sprint(h.slot) {
			fail(i, fmt.Sprintf("upstream %d received the request but its answer did not reach the client (status %d)", h.slot, rr.Code))
		}
		last := picks[len(picks)-1]
		if last == nil || !alive(sh.id[last].URL) || sh.id[last].URL%c19Slots != h.slot {
			fail(i, fmt.Sprintf("upstream %d was hit but the last selected target was not that (live) one", h.slot))
		}
		// request fidelity
		if h.method != rq.Method {
			fail(i, fmt.Sprintf("method %q arrived as %q", rq.Method, h.method))
		}
		wants := rq.Want
		if viaProxy { // no rewrite rules in force
			wants = []string{pathq}
		}
		if len(wants) > 0 {
			ok := false
			for _, w := range wants {
				if w == h.uri {
					ok = true
				}
			}
			if !ok {
				gp, gq, _ := strings.Cut(h.uri, "?")
				wp, wq, _ := strings.Cut(wants[0], "?")
				if len(wants) == 1 && gp == wp && gq != wq {
					fail(i, fmt.Sprintf("raw query not intact: request target %q must reach the upstream with query %q, it arrived with %q", raw, wq, gq))
				} else {
					fail(i, fmt.Sprintf("request target %q with rules %v arrived as %q, expected %q", raw, rules, h.uri, wants))
				}
			}
			if h.uri != pathq {
				tagset["e2e-rewritten"] = true
				nontrivial = true
				if len(rq.URI) < 2 {
					tagset["e2e-rewritten-root-or-empty-target"] = true
				}
				if len(rq.URI) > 1000 {
					tagset["e2e-rewritten-long-target"] = true
				}
			}
		}
		if len(wants) == 0 && len(rules) == 0 {
			if h.uri != pathq {
				fail(i, fmt.Sprintf("request target %q (no rewrite rules) arrived as %q", raw, h.uri))
			}
		}
		if !bytes.Equal(h.body, rq.Body) {
			how := ""
			if rq.Chunked {
				how = " sent with unknown length (ContentLength -1 / chunked)"
			}
			fail(i, fmt.Sprintf("body of %d bytes%s arrived as %d bytes (or altered)", len(rq.Body), how, len(h.body)))
		}
		if rq.Chunked && !rq.WS {
			tagset["e2e-body-unknown-length"] = true
		}
		for k, vs := range c19EndToEnd(hdrs) {
			if k == "X-Forwarded-For" && !rq.WS { // extended by the reverse proxy by design
				continue
			}
			if !c19SameVals(h.header.Values(k), vs) {
				fail(i, fmt.Sprintf("end-to-end request header %s: %q arrived as %q", k, vs, h.header.Values(k)))
			}
		}
		proto := "http"
		if abs && rq.Scheme == "https" && c.Kind != 5 {
			proto = "https" // httptest.NewRequest marks such a request as received over TLS
		}
		if !c19Has(rq.Headers, "X-Forwarded-Proto") && h.header.Get("X-Forwarded-Proto") != proto {
			fail(i, fmt.Sprintf("X-Forwarded-Proto arrived as %q", h.header.Get("X-Forwarded-Proto")))
		}
		if !c19Has(rq.Headers, "X-Real-Ip") && h.header.Get("X-Real-Ip") == "" {
			fail(i, "X-Real-Ip not set for the upstream")
		}
		if rq.WS {
			// the tunnel: the upgrade headers must arrive (they are what makes the upstream switch
			// protocols), the 101 and everything after it passes through byte for byte
			if !h.ws || !strings.EqualFold(h.header.Get("Upgrade"), "websocket") || !strings.EqualFold(h.header.Get("Connection"), "upgrade") {
				fail(i, "the upgrade headers did not reach the upstream")
			}
			if !c19Has(rq.Headers, "X-Forwarded-For") && h.header.Get("X-Forwarded-For") == "" {
				fail(i, "X-Forwarded-For not set for the upstream of a websocket request")
			}
			if rr.Code != http.StatusSwitchingProtocols {
				fail(i, fmt.Sprintf("the upstream's 101 reached the client as %d", rr.Code))
			}
			if !bytes.Equal(rr.Body.Bytes(), rq.Resp.Body) {
				fail(i, fmt.Sprintf("the upstream sent %d bytes through the tunnel, the client received %d (or altered)", len(rq.Resp.Body), rr.Body.Len()))
			}
			for k, vs := range c19EndToEnd(rq.Resp.Headers) {
				if !c19SameVals(rr.Header().Values(k), vs) {
					fail(i, fmt.Sprintf("upstream response header %s: %q relayed as %q", k, vs, rr.Header().Values(k)))
				}
			}
			tagset["e2e-websocket-tunnel"] = true
			continue
		}
		// response fidelity
		if rr.Code != rq.Resp.Status {
			fail(i, fmt.Sprintf("upstream status %d relayed as %d", rq.Resp.Status, rr.Code))
		}
		if rq.Method != http.MethodHead && !bytes.Equal(rr.Body.Bytes(), rq.Resp.Body) {
			fail(i, fmt.Sprintf("upstream body of %d bytes relayed as %d bytes (or altered)", len(rq.Resp.Body), rr.Body.Len()))
		}
		want := c19EndToEnd(rq.Resp.Headers)
		for k, vs := range want {
			if !c19SameVals(rr.Header().Values(k), vs) {
				fail(i, fmt.Sprintf("upstream response header %s: %q relayed as %q", k, vs, rr.Header().Values(k)))
			}
		}
		for k := range rr.Header() {
			if _, ok := want[k]; !ok && k != "Date" && k != "Content-Length" && k != "Content-Type" && k != c19Marker {
				fail(i, fmt.Sprintf("response header %s was not sent by the upstream", k))
			}
		}
		if rq.Resp.Status == http.StatusBadGateway {
			tagset["e2e-upstream-502-relayed"] = true
		}
	}
	var tags []string
	for t := range tagset {
		tags = append(tags, t)
	}
	sort.Strings(tags)
	if c.RR {
		tags = append(tags, "e2e-rr")
	} else {
		tags = append(tags, "e2e-random")
	}
	if viaProxy {
		tags = append(tags, "e2e-ctor-Proxy")
	}
	if c.RegexCfg && len(rules) > 1 {
		tags = append(tags, "e2e-RegexRewrite+Rewrite")
	}
	onlyF16 := len(fails) > 0
	for _, f := range fails {
		if !strings.HasPrefix(f, "F16:") {
			onlyF16 = false
		}
	}
	if len(fails) > 4 {
		fails = append(fails[:4], fmt.Sprintf("(+%d more)", len(fails)-4))
	}
	oracle := strings.Join(fails, " ;; ")
	if onlyF16 {
		oracle = c19OnlyF16 + oracle
	}
	out := Result{Obs: strings.Join(obs, " "), Oracle: oracle, Tags: tags, Nontrivial: nontrivial}
	if c.Kind == 5 {
		out.Tags = append(out.Tags, "e2e-real-server")
	}
	if c.Kind == 1 || c.Kind == 5 {
		out.Ops = strings.Join(ops, " ")
	} else {
		out.Tags = append(out.Tags, "e2e-oracle-only")
	}
	return out
}

// ---------------- generation ----------------

var c19CapAtoms = []string{"A", "B", "Z", "0", "7", "42", "-", "_", "~", "%2F", "%41", "%20", "%C3%A9", "%2f", "X.Y", "K9", "$", "$1", "+", ",", "=", "@", ":"}

// look-alikes of the absolute form inside an ORIGIN-form target: a scheme, "://", "//", userinfo,
// host:port — in a path segment they are ordinary bytes (none starts with a slash: a rewritten
// target must not begin with "//")
var c19LookAlikes = []string{"http:", "u@h:80", ":80", "%3A%2F%2F", "u:p@"}
var c19LookAlikesSlash = []string{"http://x", "a://b@c", "x//y", "s3://", "https://u:p@h:8/p", "HTTP://EX.test"}

func c19GenCap(r *rand.Rand, allowSlash bool) string {
	n := r.Intn(4)
	var sb strings.Builder
	for i := 0; i < n; i++ {
		if i > 0 && allowSlash && r.Intn(3) == 0 {
			sb.WriteString("/")
		}
		a := c19CapAtoms[r.Intn(len(c19CapAtoms))]
		if r.Intn(6) == 0 {
			a = c19LookAlikes[r.Intn(len(c19LookAlikes))]
			if allowSlash && r.Intn(2) == 0 {
				a = c19LookAlikesSlash[r.Intn(len(c19LookAlikesSlash))]
			}
		}
		if strings.HasPrefix(a, "$") && r.Intn(3) != 0 {
			a = "Q"
		}
		sb.WriteString(a)
	}
	if r.Intn(40) == 0 {
		sb.WriteString(c19GenLong(r, allowSlash)) // rare size class: a capture of 63 … 8200 bytes
	}
	return sb.String()
}

func c19GenQuery(r *rand.Rand) string {
	if r.Intn(2) == 0 {
		return ""
	}
	qs := []string{"?a=1", "?a=1&b=2", "?q=%20x&r=%2F", "?", "?k", "?x=A+B&x=C", "?u=%C3%A9"}
	if r.Intn(2) == 0 {
		// raw queries a proxy must pass on byte for byte although url.ParseQuery rejects or
		// normalises them: `;`, malformed percent escapes, `+`, empty keys/values, repeated
		// keys, encoded separators, empty pairs
		qs = []string{"?q=a;b&x=1", "?a;b", "?x=%zz&y=2", "?x=1&y=%", "?x=%2&y=2", "?%zz", "?a=+&b=+c+", "?=v&k=&=", "?&&a=1&&",
			"?k=1&k=2&k=1", "?a=%26%3D&b=%3d%26", "?a=b=c&d", "?x=1;y=2;z", "?p=%&q=;", "?a=1&b=%C3%28"}
	} else if r.Intn(3) == 0 {
		// URLs and other look-alikes of the absolute form as query values (redirect targets, callbacks):
		// "://", "//", "@", a second "?" — the request target is still in origin form
		qs = []string{"?to=http://example.com/landing", "?next=https://u:p@h:8/p?q=1", "?u=//x/y", "?r=a://b?c=d", "?x=@", "?cb=http://ex.test",
			"?://", "?a=1&to=HTTP://EX.test/x", "?to=http%3A%2F%2Fx%2Fy", "?q=u@h:80&s=s3://bucket/key"}
	}
	return qs[r.Intn(len(qs))]
}

type c19RuleGen struct {
	rule c19Rule
	gen  func(r *rand.Rand) (uri string, want string)
}

func c19Subst(tmpl string, caps ...string) string {
	var pairs []string
	for i, c := range caps {
		pairs = append(pairs, fmt.Sprintf("$%d", i+1), c)
	}
	// independent of echo: sequential scan, keys $1..$n (n ≤ 9 here)
	var sb strings.Builder
	for i := 0; i < len(tmpl); {
		done := false
		for k := 0; k+1 < len(pairs); k += 2 {
			if strings.HasPrefix(tmpl[i:], pairs[k]) {
				sb.WriteString(pairs[k+1])
				i += len(pairs[k])
				done = true
				break
			}
		}
		if !done {
			sb.WriteByte(tmpl[i])
			i++
		}
	}
	return sb.String()
}

// rule shapes; j makes the literal marker of the rule unique within a rule set, so that at
// most one rule of the set can match any generated request target
func c19GenRule(r *rand.Rand, j int) c19RuleGen {
	pre := func(r *rand.Rand) string {
		if r.Intn(4) == 0 {
			return "/P" + c19GenCap(r, false)
		}
		return ""
	}
	switch r.Intn(9) {
	case 7: // the result of the rule matches the rule again: rewriting twice differs from rewriting once
		pat := fmt.Sprintf("/re%d/*", j)
		tmpl := []string{"/$1", fmt.Sprintf("/re%d/in/$1", j)}[r.Intn(2)]
		return c19RuleGen{c19Rule{pat, tmpl}, func(r *rand.Rand) (string, string) {
			cap := c19GenCap(r, true) + c19GenQuery(r)
			if r.Intn(2) == 0 {
				cap = fmt.Sprintf("re%d/", j) + cap
			}
			return pre(r) + fmt.Sprintf("/re%d/", j) + cap, c19Subst(tmpl, cap)
		}}
	case 0: // no star: suffix match (the regexp is not anchored at the start)
		pat, tmpl := fmt.Sprintf("/old%d", j), fmt.Sprintf("/new%d", j)
		return c19RuleGen{c19Rule{pat, tmpl}, func(r *rand.Rand) (string, string) {
			switch r.Intn(5) {
			case 0:
				u := pat + "/more"
				return u, u
			case 1:
				u := pat + "?a=1"
				return u, u
			case 2:
				return "/P7" + pat, tmpl
			}
			return pat, tmpl
		}}
	case 1: // one trailing star
		pat := fmt.Sprintf("/api%d/*", j)
		tmpl := []string{"/$1", "/v2/$1", "/d$1/$1", "/x$2/$1", "/$1$10"}[r.Intn(5)]
		return c19RuleGen{c19Rule{pat, tmpl}, func(r *rand.Rand) (string, string) {
			if r.Intn(6) == 0 {
				u := fmt.Sprintf("/api%d", j) // near miss: no trailing slash
				return u, u
			}
			cap := c19GenCap(r, true) + c19GenQuery(r)
			return pre(r) + fmt.Sprintf("/api%d/", j) + cap, c19Subst(tmpl, cap)
		}}
	case 2: // two stars
		pat := fmt.Sprintf("/users%d/*/orders/*", j)
		tmpl := []string{"/user/$1/order/$2", "/r$2/$1", "/o/$2", "/$1-$2-$1"}[r.Intn(4)]
		return c19RuleGen{c19Rule{pat, tmpl}, func(r *rand.Rand) (string, string) {
			c1 := c19GenCap(r, true)
			c2 := c19GenCap(r, true) + c19GenQuery(r)
			if r.Intn(6) == 0 {
				u := fmt.Sprintf("/users%d/%s/order/%s", j, c1, c2) // near miss
				return u, u
			}
			return pre(r) + fmt.Sprintf("/users%d/%s/orders/%s", j, c1, c2), c19Subst(tmpl, c1, c2)
		}}
	case 3: // anchored
		pat := fmt.Sprintf("^/s%d/*", j)
		tmpl := "/static/$1"
		return c19RuleGen{c19Rule{pat, tmpl}, func(r *rand.Rand) (string, string) {
			cap := c19GenCap(r, true) + c19GenQuery(r)
			if r.Intn(3) == 0 {
				u := fmt.Sprintf("/P/s%d/%s", j, cap) // anchored: a prefix prevents the match
				return u, u
			}
			return fmt.Sprintf("/s%d/%s", j, cap), c19Subst(tmpl, cap)
		}}
	case 4: // star in the middle, literal suffix
		pat := fmt.Sprintf("/js%d/*.map", j)
		tmpl := "/maps/$1"
		return c19RuleGen{c19Rule{pat, tmpl}, func(r *rand.Rand) (string, string) {
			cap := c19GenCap(r, true)
			switch r.Intn(5) {
			case 0:
				u := fmt.Sprintf("/js%d/%s.map?v=1", j, cap) // `$` : the query prevents the match
				return u, u
			case 1:
				cap += ".map"
			}
			return pre(r) + fmt.Sprintf("/js%d/%s.map", j, cap), c19Subst(tmpl, cap)
		}}
	case 5: // leading star
		pat := fmt.Sprintf("*/tail%d", j)
		tmpl := "/head$1"
		return c19RuleGen{c19Rule{pat, tmpl}, func(r *rand.Rand) (string, string) {
			cap := "/" + c19GenCap(r, false)
			return cap + fmt.Sprintf("/tail%d", j), c19Subst(tmpl, cap)
		}}
	case 6: // regexp meta characters in the pattern are literals
		pat := fmt.Sprintf("/m%d.(x)+/*", j)
		tmpl := "/meta/$1"
		return c19RuleGen{c19Rule{pat, tmpl}, func(r *rand.Rand) (string, string) {
			cap := c19GenCap(r, true)
			if r.Intn(3) == 0 {
				u := fmt.Sprintf("/m%dZ(x)+/%s", j, cap) // `.` must not act as a wildcard
				return u, u
			}
			return fmt.Sprintf("/m%d.(x)+/%s", j, cap), c19Subst(tmpl, cap)
		}}
	default: // three stars, lazy splitting at the first separator
		pat := fmt.Sprintf("/t%d/*/sep/*/sep/*", j)
		tmpl := "/r$3/$2/$1"
		return c19RuleGen{c19Rule{pat, tmpl}, func(r *rand.Rand) (string, string) {
			c1, c2 := c19GenCap(r, false), c19GenCap(r, false)
			c3 := c19GenCap(r, true)
			if r.Intn(3) == 0 {
				c3 += "/sep/" + c19GenCap(r, false) // the last star takes the rest, including separators
			}
			return fmt.Sprintf("/t%d/%s/sep/%s/sep/%s", j, c1, c2, c3), c19Subst(tmpl, c1, c2, c3)
		}}
	}
}

// ---- rules that match the SHORTEST request targets ("", "/", "/?", "/a") and everything else too
//
// The marker rules above all need a literal of several bytes, so no generated target shorter than
// that is ever rewritten.  These shapes close the size class: catch-all rules (alone in their rule
// set: they overlap with everything) and exact rules for the root / the empty target (disjoint from
// every marker rule, so they are appended to ordinary rule sets).  `in` is what rewriteURL matches
// against: the origin-form target, or for an absolute-form target what follows the authority
// ("" for `GET http://host HTTP/1.1`).  The expectation is written down per shape, by hand, from
// the documented meaning of the rule (`*` = any run of bytes, `^` = start, implicit end anchor).
type c19ShortShape struct {
	pat   string
	tmpls []string
	excl  bool // overlaps with other rules: only as the single rule of a set
	apply func(tmpl, in string) (string, bool)
}

var c19ShortShapes = []c19ShortShape{
	{"/*", []string{"/app/$1", "/a$1", "/v2/$1/end", "/app/$1"}, true, func(t, in string) (string, bool) {
		k := strings.Index(in, "/") // leftmost slash; the star takes the rest
		if k < 0 {
			return "", false
		}
		return c19Subst(t, in[k+1:]), true
	}},
	{"^/*", []string{"/app/$1", "/a$1", "/d$1/$1"}, true, func(t, in string) (string, bool) {
		if !strings.HasPrefix(in, "/") {
			return "", false
		}
		return c19Subst(t, in[1:]), true
	}},
	{"*", []string{"/all$1", "/all$1$1"}, true, func(t, in string) (string, bool) { return c19Subst(t, in), true }},
	{"^*", []string{"/all$1"}, true, func(t, in string) (string, bool) { return c19Subst(t, in), true }},
	{"/", []string{"/index.html", "/dir/index?from=slash"}, true, func(t, in string) (string, bool) { return t, strings.HasSuffix(in, "/") }},
	{"", []string{"/fixed"}, true, func(t, in string) (string, bool) { return t, true }},
	{"^/", []string{"/index.html", "/home?from=root", "/$1"}, false, func(t, in string) (string, bool) { return t, in == "/" }},
	{"^", []string{"/root", "/root?empty=1"}, false, func(t, in string) (string, bool) { return t, in == "" }},
	{"^/?*", []string{"/q?$1", "/search/$1"}, false, func(t, in string) (string, bool) {
		if !strings.HasPrefix(in, "/?") {
			return "", false
		}
		return c19Subst(t, in[2:]), true
	}},
}

func c19ShortShapeOf(pat string) *c19ShortShape {
	for k := range c19ShortShapes {
		if c19ShortShapes[k].pat == pat {
			return &c19ShortShapes[k]
		}
	}
	return nil
}

// by-construction expectation for a request target when short-target rules are in force: the result
// of the (only) short rule that matches `in`; ok = false when none does
func c19ShortWant(rules []c19Rule, in string) (want string, rule int, ok bool) {
	for j, ru := range rules {
		if sh := c19ShortShapeOf(ru.Pat); sh != nil {
			if w, m := sh.apply(ru.Tmpl, in); m {
				return w, j + 1, true
			}
		}
	}
	return "", 0, false
}

// sets Want / Rule of every request a short-target rule applies to (after the request targets are
// final: the absolute-form and real-server adjustments change what is matched)
func c19FixShortWants(c *c19Case) {
	if c.Ctor == 1 || c.Kind == 3 {
		return
	}
	for _, st := range c.Steps {
		if rq := st.Req; rq != nil {
			if w, j, ok := c19ShortWant(c.Rules, rq.URI); ok {
				rq.Want, rq.Rule = []string{w}, j
			} else if rq.Rule > 0 && rq.Rule <= len(c.Rules) && c19ShortShapeOf(c.Rules[rq.Rule-1].Pat) != nil {
				// an expectation made for an earlier form of the target (the real-server kind turns a
				// path-less absolute-form target into "/"): no short rule applies to the final one
				u := rq.URI
				if !strings.HasPrefix(u, "/") {
					u = "/" + u
				}
				rq.Want, rq.Rule = []string{u}, 0
			}
		}
	}
}

// very short and very long request targets (rare size classes of the matched string)
func c19GenShortTarget(r *rand.Rand, generic bool) string {
	pool := []string{"/", "/", "/", "/?", "/?x=1", "/?a=1&b=/", "/a", "/a/", "/ab", "/%2F", "/a?b", "/~", "/a/b", "/?/", "/x/"}
	if generic && r.Intn(3) == 0 {
		u := "/" + c19GenCap(r, true) + c19GenQuery(r)
		if r.Intn(4) == 0 {
			u = "/" + c19GenLong(r, true) + c19GenQuery(r)
		}
		return u
	}
	return pool[r.Intn(len(pool))]
}

// a run of unreserved bytes around the sizes at which buffers and "fast paths" change: 63/64/65,
// 255/256/257, 1 KiB, 4 KiB, 8 KiB
func c19GenLong(r *rand.Rand, allowSlash bool) string {
	n := []int{63, 64, 65, 255, 256, 257, 1023, 1025, 2049, 4095, 4097, 8200}[r.Intn(12)]
	atoms := []string{"L", "o", "n", "g", "-", "0", "/"}
	if !allowSlash {
		atoms = atoms[:6]
	}
	var sb strings.Builder
	for sb.Len() < n {
		sb.WriteString(atoms[r.Intn(len(atoms))])
	}
	s := strings.ReplaceAll(sb.String()[:n], "//", "/_")
	// like every capture: no slash at either end (a rewritten target must not begin with "//")
	if strings.HasPrefix(s, "/") {
		s = "L" + s[1:]
	}
	if strings.HasSuffix(s, "/") {
		s = s[:len(s)-1] + "g"
	}
	return s
}

var c19Methods = []string{"GET", "GET", "GET", "POST", "POST", "PUT", "DELETE", "PATCH", "HEAD", "OPTIONS", "PROPFIND"}

func c19GenBytes(r *rand.Rand, tier string) []byte {
	var n int
	switch r.Intn(6) {
	case 0:
		n = 0
	case 1:
		n = 1
	case 2:
		n = 4096 + r.Intn(100)
		if tier == "thorough" {
			n = 70000 + r.Intn(1000)
		}
	default:
		n = r.Intn(200)
	}
	b := make([]byte, n)
	for i := range b {
		b[i] = byte(r.Intn(256))
	}
	return b
}

func c19GenReqHeaders(r *rand.Rand) [][2]string {
	var h [][2]string
	pool := [][2]string{
		{"Accept", "text/html, application/json;q=0.9"}, {"Authorization", "Bearer abc.def"}, {"Cookie", "a=1; b=2"},
		{"User-Agent", "verif/1.0"}, {"Content-Type", "application/octet-stream"}, {"X-Custom-One", "v 1"},
		{"X-Custom-One", "v,2"}, {"X-Custom-Two", "é-utf8"}, {"X-Empty", ""}, {"Accept-Encoding", "identity"},
		{"X-Forwarded-For", "10.1.2.3"}, {"X-Real-Ip", "10.9.9.9"}, {"X-Forwarded-Proto", "https"},
		{"Connection", "X-Drop-Me"}, {"X-Drop-Me", "1"}, {"Connection", "close"}, {"Keep-Alive", "timeout=5"},
		{"Te", "trailers"}, {"Upgrade", "h2c"}, {"Accept-Language", "en"}, {"If-None-Match", "\"x\""}, {"Range", "bytes=0-9"},
	}
	n := r.Intn(7)
	for _, i := range r.Perm(len(pool))[:n] { // no (name, value) pair twice: net/http sends only one User-Agent
		h = append(h, pool[i])
	}
	return h
}

func c19GenResp(r *rand.Rand, tier string) c19Resp {
	st := []int{200, 200, 200, 201, 202, 204, 302, 400, 404, 418, 500, 502, 502, 503}[r.Intn(14)]
	rs := c19Resp{Status: st}
	pool := [][2]string{
		{"X-Up-One", "1"}, {"X-Up-One", "2"}, {"Content-Type", "text/x-verif"}, {"Set-Cookie", "a=1; Path=/"},
		{"Set-Cookie", "b=2"}, {"Cache-Control", "no-store"}, {"Location", "/elsewhere?x=1"}, {"Etag", "\"v\""},
		{"X-Up-Empty", ""}, {"Vary", "Accept"}, {"Server", "up"}, {"Www-Authenticate", "Basic"},
	}
	n := r.Intn(5)
	for i := 0; i < n; i++ {
		rs.Headers = append(rs.Headers, pool[r.Intn(len(pool))])
	}
	if st != 204 {
		rs.Body = c19GenBytes(r, tier)
	}
	if !c19Has(rs.Headers, "Content-Type") {
		// keep net/http from sniffing a type (a response header the upstream handler did not set)
		rs.Headers = append(rs.Headers, [2]string{"Content-Type", "application/x-verif"})
	}
	return rs
}

func c19GenE2E(r *rand.Rand, tier string, weird bool) *c19Case {
	c := &c19Case{Kind: 1, RR: r.Intn(4) != 0}
	if weird {
		c.Kind = 3
	}
	nT := []int{0, 1, 2, 2, 3, 3, 4, 2}[r.Intn(8)]
	if r.Intn(12) != 0 && nT == 0 {
		nT = 2
	}
	for i := 0; i < nT; i++ {
		c.Init = append(c.Init, c19Target{fmt.Sprintf("t%d", i), (i + r.Intn(2)*r.Intn(c19Slots)) % c19Slots})
	}
	c.Alive = make([]bool, c19Slots)
	switch r.Intn(8) {
	case 0, 1:
		for i := range c.Alive {
			c.Alive[i] = true
		}
	case 2:
	default:
		for i := range c.Alive {
			c.Alive[i] = r.Intn(2) == 0
		}
	}
	c.Retry = []int{0, 0, 1, 1, 2, 3, 3, -1}[r.Intn(8)]
	if tier == "thorough" && r.Intn(10) == 0 {
		c.Retry = 4 + r.Intn(4)
	}
	var gens []c19RuleGen
	nR := r.Intn(4)
	for j := 0; j < nR; j++ {
		g := c19GenRule(r, j)
		gens = append(gens, g)
		c.Rules = append(c.Rules, g.rule)
	}
	// rules for the shortest targets: a catch-all rule alone, or exact root / empty-target rules beside
	// the marker rules
	short := 0
	if !weird {
		switch r.Intn(8) {
		case 0:
			short = 1
			sh := c19ShortShapes[r.Intn(6)]
			gens, c.Rules = nil, []c19Rule{{sh.pat, sh.tmpls[r.Intn(len(sh.tmpls))]}}
		case 1:
			short = 2
			for _, k := range r.Perm(3)[:1+r.Intn(3)] {
				sh := c19ShortShapes[6+k]
				c.Rules = append(c.Rules, c19Rule{sh.pat, sh.tmpls[r.Intn(len(sh.tmpls))]})
			}
		}
	}
	if weird {
		gens = nil
		switch r.Intn(6) {
		case 0: // overlapping rules: the winner depends on Go's map iteration order
			c.Rules = []c19Rule{{"/ov/*", "/a/$1"}, {"/ov/v1/*", "/b/$1"}}
		case 1: // rewritten string does not parse
			c.Rules = []c19Rule{{"/bad/*", "/%zz/$1"}}
		case 2: // dot segments are resolved by URL.Parse
			c.Rules = []c19Rule{{"/dots/*", "/a/../b/./$1"}}
		case 3: // scheme-relative / absolute result
			c.Rules = []c19Rule{{"/abs/*", "//other.test/$1"}, {"/abs2/*", "http://other.test/$1"}}
		case 4: // fragment and empty template
			c.Rules = []c19Rule{{"/frag/*", "/x#$1"}, {"/empty", ""}}
		default: // `^` in the middle of an anchored pattern
			c.Rules = []c19Rule{{"^/c^d/*", "/never/$1"}, {"/c^d/*", "/caret/$1"}}
		}
	}
	// configuration surface: convenience constructor, TargetProvider balancer, custom RetryFilter /
	// ErrorHandler / Skipper, ContextKey, rules handed over as RegexRewrite
	if !weird && r.Intn(8) == 0 {
		c.Ctor = 1 // middleware.Proxy(balancer): DefaultProxyConfig is in force
		c.Retry, c.Rules, gens, short = 0, nil, nil, 0
	} else {
		switch r.Intn(3) {
		case 0:
			f := &c19Filter{Kind: 1, Rest: r.Intn(2) == 0}
			for n := r.Intn(4); n > 0; n-- {
				f.Answers = append(f.Answers, r.Intn(3) != 0)
			}
			c.Filter = f
		case 1:
			if r.Intn(2) == 0 {
				c.Filter = &c19Filter{Kind: 2, Codes: [][]int{{502}, {502, 499}, {499}, nil, {503, 502}}[r.Intn(5)]}
			}
		}
		if r.Intn(4) == 0 {
			c.Handler = []int{503, 418, 502, -1}[r.Intn(4)]
		}
		c.Skipper = r.Intn(4) == 0
		c.CtxKey = []string{"", "target", "c19-key"}[r.Intn(3)]
		c.RegexCfg = r.Intn(3) == 0
		c.Transport = []int{0, 0, 1, 2}[r.Intn(4)]
	}
	c.TwoInst = r.Intn(4) == 0
	c.Provider = r.Intn(4) == 0
	nS := 1 + r.Intn(10)
	if tier == "thorough" && r.Intn(5) == 0 {
		nS = 10 + r.Intn(30)
	}
	added := 0
	for i := 0; i < nS; i++ {
		switch k := r.Intn(12); {
		case k == 0:
			nm := fmt.Sprintf("t%d", r.Intn(5))
			if r.Intn(3) == 0 {
				added++
				nm = fmt.Sprintf("n%d", added)
			}
			c.Steps = append(c.Steps, c19Step{K: 0, Name: nm, URL: r.Intn(c19Slots)})
		case k == 1:
			c.Steps = append(c.Steps, c19Step{K: 1, Name: fmt.Sprintf("t%d", r.Intn(5))})
		default:
			rq := &c19Req{Method: c19Methods[r.Intn(len(c19Methods))], Headers: c19GenReqHeaders(r), Resp: c19GenResp(r, tier)}
			if rq.Method != "GET" && rq.Method != "HEAD" && rq.Method != "OPTIONS" || r.Intn(10) == 0 {
				rq.Body = c19GenBytes(r, tier)
			}
			rq.Canceled = r.Intn(25) == 0
			if rq.Method != "GET" && rq.Method != "HEAD" && rq.Method != "OPTIONS" && r.Intn(3) == 0 {
				rq.Chunked = true // streamed upload: the length is not known up front
			}
			if weird {
				uris := map[string][]string{
					"/ov/v1/X?q=1": {"/a/v1/X?q=1", "/b/X?q=1"}, "/ov/Y": {"/a/Y"}, "/bad/x": nil, "/dots/k": nil, "/abs/p": nil,
					"/abs2/p": nil, "/frag/z": nil, "/empty": nil, "/c^d/x": nil, "/plain/%41?x=1": {"/plain/%41?x=1"},
				}
				keys := make([]string, 0, len(uris))
				for k := range uris {
					keys = append(keys, k)
				}
				sort.Strings(keys)
				rq.URI = keys[r.Intn(len(keys))]
				rq.Want = uris[rq.URI]
				if len(c.Rules) != 2 || c.Rules[0].Pat != "/ov/*" {
					if strings.HasPrefix(rq.URI, "/ov/") {
						rq.Want = []string{rq.URI}
					}
				}
			} else if short != 0 && r.Intn(2*short) == 0 {
				// aimed at the short-target rules (the expectation is filled in by c19FixShortWants)
				rq.URI = c19GenShortTarget(r, short == 1)
				rq.Want = []string{rq.URI}
			} else if len(gens) > 0 && r.Intn(5) != 0 {
				j := r.Intn(len(gens))
				u, w := gens[j].gen(r)
				rq.URI, rq.Want, rq.Rule = u, []string{w}, j+1
			} else {
				u := "/plain/" + c19GenCap(r, true) + c19GenQuery(r)
				switch r.Intn(10) {
				case 0:
					u = "/"
				case 1, 2, 3:
					// origin form with a URL inside: as query value or as the rest of the path; when there
					// are rules the inner URL's path is one a rule WOULD match if the target were cut there
					front := []string{"/plain/go?to=http://example.com", "/proxy/http://x.test", "/plain/r?a=1&u=HTTPS://u@h:8", "/p://h",
						"//cdn.test/a://b", "//u@h:8/r?to=http://e"}[r.Intn(6)] // the last two: a path that begins with "//" is still origin form
					u = front + "/landing"
					if len(gens) > 0 {
						j := r.Intn(len(gens))
						for k := range gens { // an anchored rule, if there is one: it tells a cut target from an intact one
							if strings.HasPrefix(gens[k].rule.Pat, "^") && r.Intn(3) != 0 {
								j = k
							}
						}
						inner, innerWant := gens[j].gen(r)
						switch pat := gens[j].rule.Pat; {
						case strings.HasPrefix(pat, "^"):
							// anchored: the rule must NOT fire (it would if the target were cut at the inner URL)
							u = front + inner
						case !strings.HasPrefix(pat, "*"):
							// not anchored: the rule matches where its literal starts, whatever precedes it
							u, rq.Want, rq.Rule = front+inner, []string{innerWant}, j+1
							if innerWant == inner {
								rq.Want = []string{u}
							}
						}
					}
				}
				rq.URI = u
				if rq.Want == nil {
					rq.Want = []string{u}
				}
			}
			if c.Skipper && r.Intn(3) == 0 || r.Intn(25) == 0 {
				rq.Skip = true // without a configured Skipper the header is an ordinary end-to-end header
			}
			if c.Provider && r.Intn(4) == 0 {
				for k := r.Intn(3); k > 0; k-- {
					rq.ProvErr = append(rq.ProvErr, 0)
				}
				rq.ProvErr = append(rq.ProvErr, []int{503, 502, 429, -1}[r.Intn(4)])
			}
			if !weird && r.Intn(6) == 0 {
				// request target in absolute form
				rq.Scheme = []string{"http", "http", "https"}[r.Intn(3)]
				rq.Host = []string{"ex.test", "EX.test:8080", "127.0.0.1:80", "[::1]:9", "a-b.c", "api"}[r.Intn(6)]
				if r.Intn(3) == 0 {
					// the authority as a size / shape class of its own (round 9): EMPTY (`http:///p`, `http://`,
					// `http://?x=1` — net/http accepts them, the Host header names the host), one byte, a
					// bare port, IPv6 literals without / with port.  What the rules are matched against starts
					// at the first `/` or `?` after "://", wherever that is — also at offset 0.
					rq.Host = []string{"", "", "", "h", "h", ":80", "[::1]", "[2001:db8::1]:8080", "9"}[r.Intn(9)]
				}
				if r.Intn(8) == 0 || short != 0 && r.Intn(3) == 0 {
					// no path at all: `GET http://host HTTP/1.1`, `GET http://host?x=1 HTTP/1.1` (the upstream is asked for `/`);
					// a `?` before any `/` ends the authority: slashes after it belong to the query
					rq.URI = []string{"", "?x=1", "?", "?/", "?u=/a/b&v=//c"}[r.Intn(5)]
					rq.Want, rq.Rule = []string{"/" + rq.URI}, 0
					if short == 0 && len(gens) > 0 && r.Intn(2) == 0 { // (beside `^/?*` the two rules would overlap once the target reads `/?to=…`)
						// the query carries a path a rule is made for: an anchored rule must NOT fire (the matched
						// string starts with `?`), a rule without anchor matches where its literal starts (as in
						// origin form, see the look-alike targets above)
						j := r.Intn(len(gens))
						inner, innerWant := gens[j].gen(r)
						switch pat := gens[j].rule.Pat; {
						case strings.HasPrefix(pat, "^"):
							rq.URI = "?to=" + inner
							rq.Want = []string{"/" + rq.URI}
						case !strings.HasPrefix(pat, "*"):
							rq.URI = "?to=" + inner
							rq.Want, rq.Rule = []string{innerWant}, j+1
							if innerWant == inner {
								rq.Want, rq.Rule = []string{"/" + rq.URI}, 0
							}
						}
					}
				}
				if r.Intn(4) == 0 {
					// legal but unusual: scheme not in lower case (RFC 3986 3.1), userinfo in the authority
					switch r.Intn(3) {
					case 0:
						rq.Scheme = []string{"HTTP", "Http", "hTTps"}[r.Intn(3)]
					case 1:
						rq.Host = []string{"u@", "u:p@", "%41:@"}[r.Intn(3)] + rq.Host
					default:
						rq.Scheme, rq.Host = "HTTP", "U@"+rq.Host
					}
				}
			}
			if !weird && r.Intn(30) == 0 {
				// websocket upgrade (through e.ServeHTTP the response writer cannot be hijacked)
				rq.WS, rq.Method, rq.Body = true, "GET", nil
			}
			if c.TwoInst && r.Intn(2) == 0 {
				rq.Inst = 1
			}
			c.Steps = append(c.Steps, c19Step{K: 3, Req: rq})
		}
	}
	c19FixShortWants(c)
	return c
}

func c19ShrinkE2E(c *c19Case) []any {
	var out []any
	for i := range c.Steps {
		d := *c
		d.Steps = append(append([]c19Step(nil), c.Steps[:i]...), c.Steps[i+1:]...)
		out = append(out, &d)
	}
	for i := range c.Init {
		d := *c
		d.Init = append(append([]c19Target(nil), c.Init[:i]...), c.Init[i+1:]...)
		out = append(out, &d)
	}
	if c.Retry > 0 {
		d := *c
		d.Retry = c.Retry - 1
		out = append(out, &d)
	}
	if c.Kind != 3 {
		for j := range c.Rules {
			usedBy := false
			for _, st := range c.Steps {
				if st.Req != nil && st.Req.Rule == j+1 {
					usedBy = true
				}
			}
			if usedBy {
				continue
			}
			d := *c
			d.Rules = append(append([]c19Rule(nil), c.Rules[:j]...), c.Rules[j+1:]...)
			d.Steps = append([]c19Step(nil), c.Steps...)
			for i, st := range d.Steps {
				if st.Req != nil && st.Req.Rule > j+1 {
					q := *st.Req
					q.Rule--
					d.Steps[i].Req = &q
				}
			}
			out = append(out, &d)
		}
	}
	// drop configuration
	for _, v := range []func(d *c19Case) bool{
		func(d *c19Case) bool { ok := d.Provider; d.Provider = false; return ok },
		func(d *c19Case) bool { ok := d.Filter != nil; d.Filter = nil; return ok },
		func(d *c19Case) bool { ok := d.Handler != 0; d.Handler = 0; return ok },
		func(d *c19Case) bool { ok := d.Skipper; d.Skipper = false; return ok },
		func(d *c19Case) bool { ok := d.CtxKey != ""; d.CtxKey = ""; return ok },
		func(d *c19Case) bool { ok := d.RegexCfg; d.RegexCfg = false; return ok },
		func(d *c19Case) bool { ok := d.Transport != 0; d.Transport = 0; return ok },
		func(d *c19Case) bool { ok := d.TwoInst; d.TwoInst = false; return ok },
		func(d *c19Case) bool { ok := d.Ctor != 0 && len(d.Rules) == 0; d.Ctor = 0; return ok },
	} {
		d := *c
		if v(&d) {
			out = append(out, &d)
		}
	}
	// simplify single requests: drop headers, bodies, response decoration
	for i, st := range c.Steps {
		if st.Req == nil {
			continue
		}
		variants := []func(q *c19Req) bool{
			func(q *c19Req) bool { ok := len(q.Headers) > 0; q.Headers = nil; return ok },
			func(q *c19Req) bool { ok := len(q.Body) > 0; q.Body = nil; return ok },
			func(q *c19Req) bool { ok := len(q.Body) > 1; q.Body = []byte("x"); return ok },
			func(q *c19Req) bool { ok := len(q.Resp.Body) > 1; q.Resp.Body = []byte("x"); return ok },
			func(q *c19Req) bool {
				ok := len(q.Resp.Headers) > 1
				q.Resp.Headers = [][2]string{{"Content-Type", "application/x-verif"}}
				return ok
			},
			func(q *c19Req) bool { ok := q.Method != "GET" && len(q.Body) == 0; q.Method = "GET"; return ok },
			func(q *c19Req) bool { ok := q.Resp.Status != 200; q.Resp.Status = 200; return ok },
			func(q *c19Req) bool {
				ok := q.Scheme != "" && strings.HasPrefix(q.URI, "/") // a path-less target exists in absolute form only
				q.Host, q.Scheme, q.Raw = "", "", false
				return ok
			},
			func(q *c19Req) bool { // an ordinary authority
				ok := q.Scheme != "" && q.Host != "h"
				q.Host = "h"
				return ok
			},
			func(q *c19Req) bool { ok := q.WS; q.WS = false; return ok },
			func(q *c19Req) bool { ok := q.Chunked; q.Chunked = false; return ok },
			func(q *c19Req) bool { ok := q.Skip; q.Skip = false; return ok },
			func(q *c19Req) bool { ok := len(q.ProvErr) > 0; q.ProvErr = nil; return ok },
		}
		for _, v := range variants {
			q := *st.Req
			if v(&q) {
				d := *c
				d.Steps = append([]c19Step(nil), c.Steps...)
				d.Steps[i].Req = &q
				out = append(out, &d)
			}
		}
	}
	return out
}
