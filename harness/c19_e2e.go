package main

// C19 end-to-end scenarios: echo + ProxyWithConfig in front of instrumented upstream servers.

import (
	"bytes"
	"context"
	"fmt"
	"io"
	"math/rand"
	"net"
	"net/http"
	"net/http/httptest"
	"net/url"
	"sort"
	"strings"
	"sync"
	"time"

	"github.com/labstack/echo/v4"
	"github.com/labstack/echo/v4/middleware"
)

const c19Slots = 4

// response header every upstream handler adds: tells a relayed upstream answer from an answer
// the proxy produced itself (e.g. an upstream's own 502 from the proxy's 502)
const c19Marker = "X-C19-Upstream"

const c19OnlyF16 = "[only F16-class failures] "

// F16 (known finding): behind a real http.Server a request WITH a non-empty body that is retried
// (second or later attempt) cannot be delivered to a live target: the first attempt closed the
// server's request body.  Signature: real-server case, every oracle failure of the case is a
// consequence of exactly that (see failRetryBody), and the model (which has this behaviour,
// Env.bodyOnce) agrees with the implementation.
func c19Known(ci any, res Result, modelObs string) string {
	c := ci.(*c19Case)
	if c.Kind == 5 && strings.HasPrefix(res.Oracle, c19OnlyF16) && res.Obs == modelObs {
		return "F16"
	}
	return ""
}

func c19GenReal(r *rand.Rand, tier string) *c19Case {
	c := c19GenE2E(r, tier, false)
	c.Kind = 5
	if len(c.Steps) > 5 {
		c.Steps = c.Steps[:5]
	}
	if r.Intn(3) == 0 { // aimed at the retry-with-body path
		c.RR = true
		c.Init = []c19Target{{"t0", 0}, {"t1", 1}, {"t2", 2}}[:2+r.Intn(2)]
		c.Alive = []bool{r.Intn(3) == 0, r.Intn(3) != 0, true, true}
		c.Retry = 1 + r.Intn(3)
	}
	for i := range c.Steps {
		if rq := c.Steps[i].Req; rq != nil {
			rq.Canceled = false
			if len(rq.Body) > 8192 {
				rq.Body = rq.Body[:8192]
			}
			if r.Intn(2) == 0 && len(rq.Body) == 0 {
				rq.Method = "POST"
				rq.Body = []byte("payload")
			}
			if rq.Method == "GET" || rq.Method == "HEAD" || rq.Method == "OPTIONS" {
				rq.Body = nil
			}
			// hop-by-hop request headers are consumed by the front server / real client here
			var hs [][2]string
			for _, kv := range rq.Headers {
				if !c19HopByHop[kv[0]] && kv[0] != "X-Drop-Me" && kv[0] != "Accept-Encoding" {
					hs = append(hs, kv)
				}
			}
			rq.Headers = hs
		}
	}
	return c
}

type c19Hit struct {
	slot   int
	method string
	uri    string
	header http.Header
	body   []byte
}

type c19Pool struct {
	servers [c19Slots]*httptest.Server
	live    [c19Slots]*url.URL
	dead    [c19Slots]*url.URL
	mu      sync.Mutex
	hits    []c19Hit
	script  c19Resp
	err     string
}

var (
	c19PoolOnce sync.Once
	c19ThePool  *c19Pool
)

// 4 upstream servers that live as long as the harness process, and 4 loopback ports below the
// ephemeral range on which nothing listens (connection refused = unreachable target; ports of
// closed httptest servers could be handed out again by the kernel, these cannot)
func c19GetPool() *c19Pool {
	c19PoolOnce.Do(func() {
		p := &c19Pool{}
		for i := 0; i < c19Slots; i++ {
			slot := i
			p.servers[i] = httptest.NewServer(http.HandlerFunc(func(w http.ResponseWriter, r *http.Request) {
				body, err := io.ReadAll(r.Body)
				if err != nil {
					// a request whose body breaks off is not logged: when the proxy aborts an attempt the
					// upstream may notice before or after the client has its answer (timing), so only
					// completely received requests count as "reached the upstream"
					w.WriteHeader(599)
					return
				}
				p.mu.Lock()
				p.hits = append(p.hits, c19Hit{slot, r.Method, r.RequestURI, r.Header.Clone(), body})
				sc := p.script
				p.mu.Unlock()
				w.Header().Set(c19Marker, fmt.Sprint(slot))
				for _, kv := range sc.Headers {
					w.Header().Add(kv[0], kv[1])
				}
				w.WriteHeader(sc.Status)
				w.Write(sc.Body)
			}))
			p.live[i], _ = url.Parse(p.servers[i].URL)
		}
		n := 0
		for port := 1; port < 1024 && n < c19Slots; port++ {
			addr := fmt.Sprintf("127.0.0.1:%d", port)
			conn, err := net.DialTimeout("tcp", addr, 500*time.Millisecond)
			if err == nil {
				conn.Close()
				continue
			}
			if !strings.Contains(err.Error(), "refused") {
				continue
			}
			p.dead[n], _ = url.Parse("http://" + addr)
			n++
		}
		if n < c19Slots {
			p.err = "could not find 4 refused loopback ports"
		}
		c19ThePool = p
	})
	return c19ThePool
}

func (p *c19Pool) arm(sc c19Resp) {
	p.mu.Lock()
	p.hits = nil
	p.script = sc
	p.mu.Unlock()
}

func (p *c19Pool) taken() []c19Hit {
	p.mu.Lock()
	defer p.mu.Unlock()
	h := p.hits
	p.hits = nil
	return h
}

// balancer wrapper that records what the real balancer returned to the proxy
type c19RecBal struct {
	inner middleware.ProxyBalancer
	mu    sync.Mutex
	picks []*middleware.ProxyTarget
}

func (b *c19RecBal) AddTarget(t *middleware.ProxyTarget) bool { return b.inner.AddTarget(t) }
func (b *c19RecBal) RemoveTarget(n string) bool               { return b.inner.RemoveTarget(n) }
func (b *c19RecBal) Next(c echo.Context) *middleware.ProxyTarget {
	t := b.inner.Next(c)
	b.mu.Lock()
	b.picks = append(b.picks, t)
	b.mu.Unlock()
	return t
}

var c19HopByHop = map[string]bool{
	"Connection": true, "Proxy-Connection": true, "Keep-Alive": true, "Proxy-Authenticate": true,
	"Proxy-Authorization": true, "Te": true, "Trailer": true, "Transfer-Encoding": true, "Upgrade": true,
}

// headers that are end-to-end for a given header set (RFC 7230 6.1)
func c19EndToEnd(h [][2]string) map[string][]string {
	drop := map[string]bool{}
	for _, kv := range h {
		if http.CanonicalHeaderKey(kv[0]) == "Connection" {
			for _, f := range strings.Split(kv[1], ",") {
				drop[http.CanonicalHeaderKey(strings.TrimSpace(f))] = true
			}
		}
	}
	out := map[string][]string{}
	for _, kv := range h {
		k := http.CanonicalHeaderKey(kv[0])
		if c19HopByHop[k] || drop[k] {
			continue
		}
		out[k] = append(out[k], kv[1])
	}
	return out
}

func c19Has(h [][2]string, name string) bool {
	for _, kv := range h {
		if http.CanonicalHeaderKey(kv[0]) == name {
			return true
		}
	}
	return false
}

func c19SameVals(a, b []string) bool {
	if len(a) != len(b) {
		return false
	}
	for i := range a {
		if a[i] != b[i] {
			return false
		}
	}
	return true
}

func c19RunE2E(c *c19Case) (res Result) {
	p := c19GetPool()
	if p.err != "" {
		return Result{Oracle: "harness: " + p.err}
	}
	sh := &c19Shadow{id: map[*middleware.ProxyTarget]c19Target{}}
	alive := func(u int) bool { return u >= 0 && u < len(c.Alive) && c.Alive[u] }
	mk := func(t c19Target) *middleware.ProxyTarget {
		u := p.dead[((t.URL%c19Slots)+c19Slots)%c19Slots]
		if alive(t.URL) {
			u = p.live[t.URL%c19Slots]
		}
		pt := &middleware.ProxyTarget{Name: t.Name, URL: u}
		sh.id[pt] = t
		return pt
	}
	var init []*middleware.ProxyTarget
	for _, t := range c.Init {
		init = append(init, mk(t))
	}
	sh.cur = append(sh.cur, init...)
	rec := &c19RecBal{inner: c19NewBalancer(c.RR, append([]*middleware.ProxyTarget(nil), init...))}
	cfg := middleware.ProxyConfig{Balancer: rec, RetryCount: c.Retry}
	if len(c.Rules) > 0 {
		cfg.Rewrite = map[string]string{}
		for _, r := range c.Rules {
			cfg.Rewrite[r.Pat] = r.Tmpl
		}
	}
	e := echo.New()
	e.Use(middleware.ProxyWithConfig(cfg))

	retry := c.Retry
	if retry < 0 {
		retry = 0
	}
	ops := []string{"1", wBool(c.RR), wInt(retry), c19EncTargets(c.Init), wInt(len(c.Alive))}
	for _, a := range c.Alive {
		ops = append(ops, wBool(a))
	}
	ops = append(ops, wInt(len(c.Rules)))
	for _, r := range c.Rules {
		ops = append(ops, wStr(r.Pat), wStr(r.Tmpl))
	}
	ops = append(ops, wInt(len(c.Steps)))
	var obs []string
	var fails []string
	// F16 class: behind a real http.Server every attempt closes the request body, so a retry of a
	// request WITH a body cannot succeed on a live target.  Failures that are consequences of
	// exactly that are prefixed "F16:" (see c19Known); f16 is set per request below.
	f16 := false
	fail := func(i int, msg string) {
		fails = append(fails, fmt.Sprintf("step %d: %s", i, msg))
	}
	failRetryBody := func(i int, msg string) {
		if f16 {
			fails = append(fails, fmt.Sprintf("F16: step %d: %s", i, msg))
		} else {
			fail(i, msg)
		}
	}
	tagset := map[string]bool{}
	window := map[*middleware.ProxyTarget]int{}
	nontrivial := false
	var front *httptest.Server
	var client *http.Client
	if c.Kind == 5 {
		front = httptest.NewServer(e)
		defer front.Close()
		client = &http.Client{Transport: &http.Transport{DisableKeepAlives: true},
			CheckRedirect: func(*http.Request, []*http.Request) error { return http.ErrUseLastResponse }}
	}

	for i, st := range c.Steps {
		switch st.K {
		case 0:
			pt := mk(c19Target{st.Name, st.URL})
			ops = append(ops, "0", wStr(st.Name), wInt(st.URL))
			existed := sh.has(st.Name)
			ok := rec.AddTarget(pt)
			obs = append(obs, wBool(ok))
			if ok == existed {
				fail(i, fmt.Sprintf("AddTarget(%q) returned %v, existed=%v", st.Name, ok, existed))
			}
			if ok {
				sh.cur = append(sh.cur, pt)
				window = map[*middleware.ProxyTarget]int{}
				tagset["e2e-add"] = true
			}
			continue
		case 1:
			ops = append(ops, "1", wStr(st.Name))
			existed := sh.has(st.Name)
			ok := rec.RemoveTarget(st.Name)
			obs = append(obs, wBool(ok))
			if ok != existed {
				fail(i, fmt.Sprintf("RemoveTarget(%q) returned %v, existed=%v", st.Name, ok, existed))
			}
			if ok {
				sh.remove(st.Name)
				window = map[*middleware.ProxyTarget]int{}
				tagset["e2e-remove"] = true
			}
			continue
		}
		rq := st.Req
		if rq == nil {
			continue
		}
		// ---- one proxied request
		p.arm(rq.Resp)
		rec.mu.Lock()
		rec.picks = nil
		rec.mu.Unlock()
		var rr *httptest.ResponseRecorder
		var panicked any
		bodyOnce := c.Kind == 5 && len(rq.Body) > 0
		func() {
			defer func() { panicked = recover() }()
			var body io.Reader
			if len(rq.Body) > 0 {
				body = bytes.NewReader(rq.Body)
			}
			if c.Kind == 5 {
				// through a real http.Server and TCP: the request body is net/http's server body
				req, err := http.NewRequest(rq.Method, front.URL+rq.URI, body)
				if err != nil {
					panic(err)
				}
				for _, kv := range rq.Headers {
					req.Header.Add(kv[0], kv[1])
				}
				resp, err := client.Do(req)
				if err != nil {
					panic(fmt.Sprintf("client error (server side panic?): %v", err))
				}
				defer resp.Body.Close()
				b, _ := io.ReadAll(resp.Body)
				w := httptest.NewRecorder()
				for k, vs := range resp.Header {
					w.Header()[k] = vs
				}
				w.Code = resp.StatusCode
				w.Body.Write(b)
				rr = w
				return
			}
			req := httptest.NewRequest(rq.Method, rq.URI, body)
			for _, kv := range rq.Headers {
				req.Header.Add(kv[0], kv[1])
			}
			if rq.Canceled {
				ctx, cancel := context.WithCancel(req.Context())
				cancel()
				req = req.WithContext(ctx)
			}
			w := httptest.NewRecorder()
			e.ServeHTTP(w, req)
			rr = w
		}()
		hits := p.taken()
		rec.mu.Lock()
		picks := append([]*middleware.ProxyTarget(nil), rec.picks...)
		rec.mu.Unlock()

		var hints []string
		if !c.RR {
			for _, t := range picks {
				if t != nil {
					hints = append(hints, t.Name)
				}
			}
		}
		ops = append(ops, "3", wStr(rq.URI), wBool(rq.Canceled), wBool(bodyOnce), wStrs(hints))
		f16 = bodyOnce && len(picks) >= 2

		// observation
		o := []string{wInt(len(picks))}
		for _, t := range picks {
			o = append(o, c19EncPick(sh, t))
		}
		lastNil := len(picks) > 0 && picks[len(picks)-1] == nil
		switch {
		case panicked != nil:
			o = append(o, "4", wStr(""))
		case rr.Header().Get(c19Marker) != "":
			u := ""
			if len(hits) > 0 {
				u = hits[len(hits)-1].uri
			}
			o = append(o, "1", wStr(u))
		case rr.Code == middleware.StatusCodeContextCanceled:
			o = append(o, "3", wStr(""))
		case rr.Code == http.StatusBadGateway && lastNil:
			o = append(o, "0", wStr(""))
		case rr.Code == http.StatusBadGateway:
			o = append(o, "2", wStr(""))
		default:
			o = append(o, fmt.Sprintf("9%d", rr.Code), wStr(""))
		}
		obs = append(obs, o...)

		// ---- model-free oracle: the property itself on what was observed
		if panicked != nil {
			fail(i, fmt.Sprintf("panic while proxying (%d current targets): %v", len(sh.cur), panicked))
			tagset["e2e-panic"] = true
			continue
		}
		if (len(picks) < 1 && c.Kind != 3) || len(picks) > retry+1 { // kind 3: a rewrite error answers before any attempt
			fail(i, fmt.Sprintf("%d attempts with RetryCount %d", len(picks), c.Retry))
		}
		allDead := true
		for k, t := range picks {
			if t == nil {
				if len(sh.cur) != 0 {
					fail(i, "balancer returned no target although it has targets")
				}
				continue
			}
			if !sh.member(t) {
				fail(i, fmt.Sprintf("attempt %d used %q which is not a current target", k, t.Name))
			}
			if alive(sh.id[t].URL) {
				allDead = false
				if k != len(picks)-1 && !rq.Canceled && k == 0 {
					fail(i, fmt.Sprintf("attempt 0 reached the live target %q and the request was attempted again", t.Name))
				} else if k != len(picks)-1 && !rq.Canceled {
					failRetryBody(i, fmt.Sprintf("attempt %d reached the live target %q and the request was attempted again", k, t.Name))
				}
			}
			if c.RR && k > 0 && len(sh.cur) >= 2 && picks[k-1] != nil {
				if picks[k-1] == t {
					fail(i, fmt.Sprintf("retry %d used the same target %q again", k, t.Name))
				} else if sh.pos(t) != (sh.pos(picks[k-1])+1)%len(sh.cur) {
					fail(i, fmt.Sprintf("retry %d went to %q, not to the target after %q", k, t.Name, picks[k-1].Name))
				}
			}
		}
		if c.RR && len(picks) > 0 && picks[0] != nil {
			window[picks[0]]++
			if msg := c19Unfair(window, sh.cur); msg != "" {
				fail(i, msg)
			}
		}
		if len(picks) > 1 {
			tagset["e2e-retried"] = true
			if len(sh.cur) >= 2 {
				nontrivial = true
			}
		}
		if len(hits) > 1 {
			fail(i, fmt.Sprintf("%d upstream servers/requests were hit by one client request", len(hits)))
		}
		if rq.Canceled {
			tagset["e2e-canceled"] = true
			if len(hits) > 0 {
				fail(i, "a request whose client context was already cancelled reached an upstream")
			}
			continue
		}
		if len(hits) == 0 {
			if !allDead {
				failRetryBody(i, fmt.Sprintf("client got %d and no upstream was reached although an attempted target was alive", rr.Code))
			}
			if rr.Code == http.StatusBadGateway {
				tagset["e2e-502"] = true
			} else if c.Kind != 3 {
				fail(i, fmt.Sprintf("every attempt failed and the client got %d, not 502", rr.Code))
			}
			if len(sh.cur) == 0 {
				tagset["e2e-no-target"] = true
			}
			continue
		}
		h := hits[0]
		tagset["e2e-relayed"] = true
		if _, q, ok := strings.Cut(rq.URI, "?"); ok {
			if _, err := url.ParseQuery(q); err != nil || strings.Contains(q, ";") {
				tagset["e2e-raw-query-unparseable"] = true
			} else if q != "" {
				tagset["e2e-query"] = true
			}
		}
		if rr.Header().Get(c19Marker) != fmt.Sprint(h.slot) {
			fail(i, fmt.Sprintf("upstream %d received the request but its answer did not reach the client (status %d)", h.slot, rr.Code))
		}
		last := picks[len(picks)-1]
		if last == nil || !alive(sh.id[last].URL) || sh.id[last].URL%c19Slots != h.slot {
			fail(i, fmt.Sprintf("upstream %d was hit but the last selected target was not that (live) one", h.slot))
		}
		// request fidelity
		if h.method != rq.Method {
			fail(i, fmt.Sprintf("method %q arrived as %q", rq.Method, h.method))
		}
		if len(rq.Want) > 0 {
			ok := false
			for _, w := range rq.Want {
				if w == h.uri {
					ok = true
				}
			}
			if !ok {
				gp, gq, _ := strings.Cut(h.uri, "?")
				wp, wq, _ := strings.Cut(rq.Want[0], "?")
				if len(rq.Want) == 1 && gp == wp && gq != wq {
					fail(i, fmt.Sprintf("raw query not intact: request target %q must reach the upstream with query %q, it arrived with %q", rq.URI, wq, gq))
				} else {
					fail(i, fmt.Sprintf("request target %q with rules %v arrived as %q, expected %q", rq.URI, c.Rules, h.uri, rq.Want))
				}
			}
			if h.uri != rq.URI {
				tagset["e2e-rewritten"] = true
				nontrivial = true
			}
		}
		if len(rq.Want) == 0 && len(c.Rules) == 0 {
			if h.uri != rq.URI {
				fail(i, fmt.Sprintf("request target %q (no rewrite rules) arrived as %q", rq.URI, h.uri))
			}
		}
		if !bytes.Equal(h.body, rq.Body) {
			fail(i, fmt.Sprintf("body of %d bytes arrived as %d bytes (or altered)", len(rq.Body), len(h.body)))
		}
		for k, vs := range c19EndToEnd(rq.Headers) {
			if k == "X-Forwarded-For" { // extended by the reverse proxy by design
				continue
			}
			if !c19SameVals(h.header.Values(k), vs) {
				fail(i, fmt.Sprintf("end-to-end request header %s: %q arrived as %q", k, vs, h.header.Values(k)))
			}
		}
		if !c19Has(rq.Headers, "X-Forwarded-Proto") && h.header.Get("X-Forwarded-Proto") != "http" {
			fail(i, fmt.Sprintf("X-Forwarded-Proto arrived as %q", h.header.Get("X-Forwarded-Proto")))
		}
		if !c19Has(rq.Headers, "X-Real-Ip") && h.header.Get("X-Real-Ip") == "" {
			fail(i, "X-Real-Ip not set for the upstream")
		}
		// response fidelity
		if rr.Code != rq.Resp.Status {
			fail(i, fmt.Sprintf("upstream status %d relayed as %d", rq.Resp.Status, rr.Code))
		}
		if rq.Method != http.MethodHead && !bytes.Equal(rr.Body.Bytes(), rq.Resp.Body) {
			fail(i, fmt.Sprintf("upstream body of %d bytes relayed as %d bytes (or altered)", len(rq.Resp.Body), rr.Body.Len()))
		}
		want := c19EndToEnd(rq.Resp.Headers)
		for k, vs := range want {
			if !c19SameVals(rr.Header().Values(k), vs) {
				fail(i, fmt.Sprintf("upstream response header %s: %q relayed as %q", k, vs, rr.Header().Values(k)))
			}
		}
		for k := range rr.Header() {
			if _, ok := want[k]; !ok && k != "Date" && k != "Content-Length" && k != "Content-Type" && k != c19Marker {
				fail(i, fmt.Sprintf("response header %s was not sent by the upstream", k))
			}
		}
		if rq.Resp.Status == http.StatusBadGateway {
			tagset["e2e-upstream-502-relayed"] = true
		}
	}
	var tags []string
	for t := range tagset {
		tags = append(tags, t)
	}
	sort.Strings(tags)
	if c.RR {
		tags = append(tags, "e2e-rr")
	} else {
		tags = append(tags, "e2e-random")
	}
	onlyF16 := len(fails) > 0
	for _, f := range fails {
		if !strings.HasPrefix(f, "F16:") {
			onlyF16 = false
		}
	}
	if len(fails) > 4 {
		fails = append(fails[:4], fmt.Sprintf("(+%d more)", len(fails)-4))
	}
	oracle := strings.Join(fails, " ;; ")
	if onlyF16 {
		oracle = c19OnlyF16 + oracle
	}
	out := Result{Obs: strings.Join(obs, " "), Oracle: oracle, Tags: tags, Nontrivial: nontrivial}
	if c.Kind == 5 {
		out.Tags = append(out.Tags, "e2e-real-server")
	}
	if c.Kind == 1 || c.Kind == 5 {
		out.Ops = strings.Join(ops, " ")
	} else {
		out.Tags = append(out.Tags, "e2e-oracle-only")
	}
	return out
}

// ---------------- generation ----------------

var c19CapAtoms = []string{"A", "B", "Z", "0", "7", "42", "-", "_", "~", "%2F", "%41", "%20", "%C3%A9", "%2f", "X.Y", "K9", "$", "$1", "+", ",", "=", "@", ":"}

func c19GenCap(r *rand.Rand, allowSlash bool) string {
	n := r.Intn(4)
	var sb strings.Builder
	for i := 0; i < n; i++ {
		if i > 0 && allowSlash && r.Intn(3) == 0 {
			sb.WriteString("/")
		}
		a := c19CapAtoms[r.Intn(len(c19CapAtoms))]
		if strings.HasPrefix(a, "$") && r.Intn(3) != 0 {
			a = "Q"
		}
		sb.WriteString(a)
	}
	return sb.String()
}

func c19GenQuery(r *rand.Rand) string {
	if r.Intn(2) == 0 {
		return ""
	}
	qs := []string{"?a=1", "?a=1&b=2", "?q=%20x&r=%2F", "?", "?k", "?x=A+B&x=C", "?u=%C3%A9"}
	if r.Intn(2) == 0 {
		// raw queries a proxy must pass on byte for byte although url.ParseQuery rejects or
		// normalises them: `;`, malformed percent escapes, `+`, empty keys/values, repeated
		// keys, encoded separators, empty pairs
		qs = []string{"?q=a;b&x=1", "?a;b", "?x=%zz&y=2", "?x=1&y=%", "?x=%2&y=2", "?%zz", "?a=+&b=+c+", "?=v&k=&=", "?&&a=1&&",
			"?k=1&k=2&k=1", "?a=%26%3D&b=%3d%26", "?a=b=c&d", "?x=1;y=2;z", "?p=%&q=;", "?a=1&b=%C3%28"}
	}
	return qs[r.Intn(len(qs))]
}

type c19RuleGen struct {
	rule c19Rule
	gen  func(r *rand.Rand) (uri string, want string)
}

func c19Subst(tmpl string, caps ...string) string {
	var pairs []string
	for i, c := range caps {
		pairs = append(pairs, fmt.Sprintf("$%d", i+1), c)
	}
	// independent of echo: sequential scan, keys $1..$n (n ≤ 9 here)
	var sb strings.Builder
	for i := 0; i < len(tmpl); {
		done := false
		for k := 0; k+1 < len(pairs); k += 2 {
			if strings.HasPrefix(tmpl[i:], pairs[k]) {
				sb.WriteString(pairs[k+1])
				i += len(pairs[k])
				done = true
				break
			}
		}
		if !done {
			sb.WriteByte(tmpl[i])
			i++
		}
	}
	return sb.String()
}

// rule shapes; j makes the literal marker of the rule unique within a rule set, so that at
// most one rule of the set can match any generated request target
func c19GenRule(r *rand.Rand, j int) c19RuleGen {
	pre := func(r *rand.Rand) string {
		if r.Intn(4) == 0 {
			return "/P" + c19GenCap(r, false)
		}
		return ""
	}
	switch r.Intn(8) {
	case 0: // no star: suffix match (the regexp is not anchored at the start)
		pat, tmpl := fmt.Sprintf("/old%d", j), fmt.Sprintf("/new%d", j)
		return c19RuleGen{c19Rule{pat, tmpl}, func(r *rand.Rand) (string, string) {
			switch r.Intn(5) {
			case 0:
				u := pat + "/more"
				return u, u
			case 1:
				u := pat + "?a=1"
				return u, u
			case 2:
				return "/P7" + pat, tmpl
			}
			return pat, tmpl
		}}
	case 1: // one trailing star
		pat := fmt.Sprintf("/api%d/*", j)
		tmpl := []string{"/$1", "/v2/$1", "/d$1/$1", "/x$2/$1", "/$1$10"}[r.Intn(5)]
		return c19RuleGen{c19Rule{pat, tmpl}, func(r *rand.Rand) (string, string) {
			if r.Intn(6) == 0 {
				u := fmt.Sprintf("/api%d", j) // near miss: no trailing slash
				return u, u
			}
			cap := c19GenCap(r, true) + c19GenQuery(r)
			return pre(r) + fmt.Sprintf("/api%d/", j) + cap, c19Subst(tmpl, cap)
		}}
	case 2: // two stars
		pat := fmt.Sprintf("/users%d/*/orders/*", j)
		tmpl := []string{"/user/$1/order/$2", "/r$2/$1", "/o/$2", "/$1-$2-$1"}[r.Intn(4)]
		return c19RuleGen{c19Rule{pat, tmpl}, func(r *rand.Rand) (string, string) {
			c1 := c19GenCap(r, true)
			c2 := c19GenCap(r, true) + c19GenQuery(r)
			if r.Intn(6) == 0 {
				u := fmt.Sprintf("/users%d/%s/order/%s", j, c1, c2) // near miss
				return u, u
			}
			return pre(r) + fmt.Sprintf("/users%d/%s/orders/%s", j, c1, c2), c19Subst(tmpl, c1, c2)
		}}
	case 3: // anchored
		pat := fmt.Sprintf("^/s%d/*", j)
		tmpl := "/static/$1"
		return c19RuleGen{c19Rule{pat, tmpl}, func(r *rand.Rand) (string, string) {
			cap := c19GenCap(r, true) + c19GenQuery(r)
			if r.Intn(3) == 0 {
				u := fmt.Sprintf("/P/s%d/%s", j, cap) // anchored: a prefix prevents the match
				return u, u
			}
			return fmt.Sprintf("/s%d/%s", j, cap), c19Subst(tmpl, cap)
		}}
	case 4: // star in the middle, literal suffix
		pat := fmt.Sprintf("/js%d/*.map", j)
		tmpl := "/maps/$1"
		return c19RuleGen{c19Rule{pat, tmpl}, func(r *rand.Rand) (string, string) {
			cap := c19GenCap(r, true)
			switch r.Intn(5) {
			case 0:
				u := fmt.Sprintf("/js%d/%s.map?v=1", j, cap) // `$` : the query prevents the match
				return u, u
			case 1:
				cap += ".map"
			}
			return pre(r) + fmt.Sprintf("/js%d/%s.map", j, cap), c19Subst(tmpl, cap)
		}}
	case 5: // leading star
		pat := fmt.Sprintf("*/tail%d", j)
		tmpl := "/head$1"
		return c19RuleGen{c19Rule{pat, tmpl}, func(r *rand.Rand) (string, string) {
			cap := "/" + c19GenCap(r, false)
			return cap + fmt.Sprintf("/tail%d", j), c19Subst(tmpl, cap)
		}}
	case 6: // regexp meta characters in the pattern are literals
		pat := fmt.Sprintf("/m%d.(x)+/*", j)
		tmpl := "/meta/$1"
		return c19RuleGen{c19Rule{pat, tmpl}, func(r *rand.Rand) (string, string) {
			cap := c19GenCap(r, true)
			if r.Intn(3) == 0 {
				u := fmt.Sprintf("/m%dZ(x)+/%s", j, cap) // `.` must not act as a wildcard
				return u, u
			}
			return fmt.Sprintf("/m%d.(x)+/%s", j, cap), c19Subst(tmpl, cap)
		}}
	default: // three stars, lazy splitting at the first separator
		pat := fmt.Sprintf("/t%d/*/sep/*/sep/*", j)
		tmpl := "/r$3/$2/$1"
		return c19RuleGen{c19Rule{pat, tmpl}, func(r *rand.Rand) (string, string) {
			c1, c2 := c19GenCap(r, false), c19GenCap(r, false)
			c3 := c19GenCap(r, true)
			if r.Intn(3) == 0 {
				c3 += "/sep/" + c19GenCap(r, false) // the last star takes the rest, including separators
			}
			return fmt.Sprintf("/t%d/%s/sep/%s/sep/%s", j, c1, c2, c3), c19Subst(tmpl, c1, c2, c3)
		}}
	}
}

var c19Methods = []string{"GET", "GET", "GET", "POST", "PUT", "DELETE", "PATCH", "HEAD", "OPTIONS"}

func c19GenBytes(r *rand.Rand, tier string) []byte {
	var n int
	switch r.Intn(6) {
	case 0:
		n = 0
	case 1:
		n = 1
	case 2:
		n = 4096 + r.Intn(100)
		if tier == "thorough" {
			n = 70000 + r.Intn(1000)
		}
	default:
		n = r.Intn(200)
	}
	b := make([]byte, n)
	for i := range b {
		b[i] = byte(r.Intn(256))
	}
	return b
}

func c19GenReqHeaders(r *rand.Rand) [][2]string {
	var h [][2]string
	pool := [][2]string{
		{"Accept", "text/html, application/json;q=0.9"}, {"Authorization", "Bearer abc.def"}, {"Cookie", "a=1; b=2"},
		{"User-Agent", "verif/1.0"}, {"Content-Type", "application/octet-stream"}, {"X-Custom-One", "v 1"},
		{"X-Custom-One", "v,2"}, {"X-Custom-Two", "é-utf8"}, {"X-Empty", ""}, {"Accept-Encoding", "identity"},
		{"X-Forwarded-For", "10.1.2.3"}, {"X-Real-Ip", "10.9.9.9"}, {"X-Forwarded-Proto", "https"},
		{"Connection", "X-Drop-Me"}, {"X-Drop-Me", "1"}, {"Connection", "close"}, {"Keep-Alive", "timeout=5"},
		{"Te", "trailers"}, {"Upgrade", "h2c"}, {"Accept-Language", "en"}, {"If-None-Match", "\"x\""}, {"Range", "bytes=0-9"},
	}
	n := r.Intn(7)
	for _, i := range r.Perm(len(pool))[:n] { // no (name, value) pair twice: net/http sends only one User-Agent
		h = append(h, pool[i])
	}
	return h
}

func c19GenResp(r *rand.Rand, tier string) c19Resp {
	st := []int{200, 200, 200, 201, 202, 204, 302, 400, 404, 418, 500, 502, 502, 503}[r.Intn(14)]
	rs := c19Resp{Status: st}
	pool := [][2]string{
		{"X-Up-One", "1"}, {"X-Up-One", "2"}, {"Content-Type", "text/x-verif"}, {"Set-Cookie", "a=1; Path=/"},
		{"Set-Cookie", "b=2"}, {"Cache-Control", "no-store"}, {"Location", "/elsewhere?x=1"}, {"Etag", "\"v\""},
		{"X-Up-Empty", ""}, {"Vary", "Accept"}, {"Server", "up"}, {"Www-Authenticate", "Basic"},
	}
	n := r.Intn(5)
	for i := 0; i < n; i++ {
		rs.Headers = append(rs.Headers, pool[r.Intn(len(pool))])
	}
	if st != 204 {
		rs.Body = c19GenBytes(r, tier)
	}
	if !c19Has(rs.Headers, "Content-Type") {
		// keep net/http from sniffing a type (a response header the upstream handler did not set)
		rs.Headers = append(rs.Headers, [2]string{"Content-Type", "application/x-verif"})
	}
	return rs
}

func c19GenE2E(r *rand.Rand, tier string, weird bool) *c19Case {
	c := &c19Case{Kind: 1, RR: r.Intn(4) != 0}
	if weird {
		c.Kind = 3
	}
	nT := []int{0, 1, 2, 2, 3, 3, 4, 2}[r.Intn(8)]
	if r.Intn(12) != 0 && nT == 0 {
		nT = 2
	}
	for i := 0; i < nT; i++ {
		c.Init = append(c.Init, c19Target{fmt.Sprintf("t%d", i), (i + r.Intn(2)*r.Intn(c19Slots)) % c19Slots})
	}
	c.Alive = make([]bool, c19Slots)
	switch r.Intn(8) {
	case 0, 1:
		for i := range c.Alive {
			c.Alive[i] = true
		}
	case 2:
	default:
		for i := range c.Alive {
			c.Alive[i] = r.Intn(2) == 0
		}
	}
	c.Retry = []int{0, 0, 1, 1, 2, 3, 3, -1}[r.Intn(8)]
	if tier == "thorough" && r.Intn(10) == 0 {
		c.Retry = 4 + r.Intn(4)
	}
	var gens []c19RuleGen
	nR := r.Intn(4)
	for j := 0; j < nR; j++ {
		g := c19GenRule(r, j)
		gens = append(gens, g)
		c.Rules = append(c.Rules, g.rule)
	}
	if weird {
		gens = nil
		switch r.Intn(6) {
		case 0: // overlapping rules: the winner depends on Go's map iteration order
			c.Rules = []c19Rule{{"/ov/*", "/a/$1"}, {"/ov/v1/*", "/b/$1"}}
		case 1: // rewritten string does not parse
			c.Rules = []c19Rule{{"/bad/*", "/%zz/$1"}}
		case 2: // dot segments are resolved by URL.Parse
			c.Rules = []c19Rule{{"/dots/*", "/a/../b/./$1"}}
		case 3: // scheme-relative / absolute result
			c.Rules = []c19Rule{{"/abs/*", "//other.test/$1"}, {"/abs2/*", "http://other.test/$1"}}
		case 4: // fragment and empty template
			c.Rules = []c19Rule{{"/frag/*", "/x#$1"}, {"/empty", ""}}
		default: // `^` in the middle of an anchored pattern
			c.Rules = []c19Rule{{"^/c^d/*", "/never/$1"}, {"/c^d/*", "/caret/$1"}}
		}
	}
	nS := 1 + r.Intn(10)
	if tier == "thorough" && r.Intn(5) == 0 {
		nS = 10 + r.Intn(30)
	}
	added := 0
	for i := 0; i < nS; i++ {
		switch k := r.Intn(12); {
		case k == 0:
			nm := fmt.Sprintf("t%d", r.Intn(5))
			if r.Intn(3) == 0 {
				added++
				nm = fmt.Sprintf("n%d", added)
			}
			c.Steps = append(c.Steps, c19Step{K: 0, Name: nm, URL: r.Intn(c19Slots)})
		case k == 1:
			c.Steps = append(c.Steps, c19Step{K: 1, Name: fmt.Sprintf("t%d", r.Intn(5))})
		default:
			rq := &c19Req{Method: c19Methods[r.Intn(len(c19Methods))], Headers: c19GenReqHeaders(r), Resp: c19GenResp(r, tier)}
			if rq.Method != "GET" && rq.Method != "HEAD" && rq.Method != "OPTIONS" || r.Intn(10) == 0 {
				rq.Body = c19GenBytes(r, tier)
			}
			rq.Canceled = r.Intn(25) == 0
			if weird {
				uris := map[string][]string{
					"/ov/v1/X?q=1": {"/a/v1/X?q=1", "/b/X?q=1"}, "/ov/Y": {"/a/Y"}, "/bad/x": nil, "/dots/k": nil, "/abs/p": nil,
					"/abs2/p": nil, "/frag/z": nil, "/empty": nil, "/c^d/x": nil, "/plain/%41?x=1": {"/plain/%41?x=1"},
				}
				keys := make([]string, 0, len(uris))
				for k := range uris {
					keys = append(keys, k)
				}
				sort.Strings(keys)
				rq.URI = keys[r.Intn(len(keys))]
				rq.Want = uris[rq.URI]
				if len(c.Rules) != 2 || c.Rules[0].Pat != "/ov/*" {
					if strings.HasPrefix(rq.URI, "/ov/") {
						rq.Want = []string{rq.URI}
					}
				}
			} else if len(gens) > 0 && r.Intn(5) != 0 {
				j := r.Intn(len(gens))
				u, w := gens[j].gen(r)
				rq.URI, rq.Want, rq.Rule = u, []string{w}, j+1
			} else {
				u := "/plain/" + c19GenCap(r, true) + c19GenQuery(r)
				if r.Intn(10) == 0 {
					u = "/"
				}
				rq.URI, rq.Want = u, []string{u}
			}
			c.Steps = append(c.Steps, c19Step{K: 3, Req: rq})
		}
	}
	return c
}

func c19ShrinkE2E(c *c19Case) []any {
	var out []any
	for i := range c.Steps {
		d := *c
		d.Steps = append(append([]c19Step(nil), c.Steps[:i]...), c.Steps[i+1:]...)
		out = append(out, &d)
	}
	for i := range c.Init {
		d := *c
		d.Init = append(append([]c19Target(nil), c.Init[:i]...), c.Init[i+1:]...)
		out = append(out, &d)
	}
	if c.Retry > 0 {
		d := *c
		d.Retry = c.Retry - 1
		out = append(out, &d)
	}
	if c.Kind != 3 {
		for j := range c.Rules {
			usedBy := false
			for _, st := range c.Steps {
				if st.Req != nil && st.Req.Rule == j+1 {
					usedBy = true
				}
			}
			if usedBy {
				continue
			}
			d := *c
			d.Rules = append(append([]c19Rule(nil), c.Rules[:j]...), c.Rules[j+1:]...)
			d.Steps = append([]c19Step(nil), c.Steps...)
			for i, st := range d.Steps {
				if st.Req != nil && st.Req.Rule > j+1 {
					q := *st.Req
					q.Rule--
					d.Steps[i].Req = &q
				}
			}
			out = append(out, &d)
		}
	}
	// simplify single requests: drop headers, bodies, response decoration
	for i, st := range c.Steps {
		if st.Req == nil {
			continue
		}
		variants := []func(q *c19Req) bool{
			func(q *c19Req) bool { ok := len(q.Headers) > 0; q.Headers = nil; return ok },
			func(q *c19Req) bool { ok := len(q.Body) > 0; q.Body = nil; return ok },
			func(q *c19Req) bool { ok := len(q.Resp.Body) > 1; q.Resp.Body = []byte("x"); return ok },
			func(q *c19Req) bool {
				ok := len(q.Resp.Headers) > 1
				q.Resp.Headers = [][2]string{{"Content-Type", "application/x-verif"}}
				return ok
			},
			func(q *c19Req) bool { ok := q.Method != "GET" && len(q.Body) == 0; q.Method = "GET"; return ok },
			func(q *c19Req) bool { ok := q.Resp.Status != 200; q.Resp.Status = 200; return ok },
		}
		for _, v := range variants {
			q := *st.Req
			if v(&q) {
				d := *c
				d.Steps = append([]c19Step(nil), c.Steps...)
				d.Steps[i].Req = &q
				out = append(out, &d)
			}
		}
	}
	return out
}
