package main

// C11 — CORS grants access only to origins the configuration allows.
// Real code: middleware.CORS / CORSWithConfig (and the package variable middleware.DefaultCORSConfig they read) over
// e.ServeHTTP with an instrumented handler.
// Model: lean/EchoModel/C11.lean (setup, serveEntry).

import (
	"encoding/base64"
	"encoding/json"
	"errors"
	"fmt"
	"io"
	"math/rand"
	"net/http"
	"net/http/httptest"
	"sort"
	"strings"
	"sync"
	"unicode/utf8"

	"github.com/labstack/echo/v4"
	"github.com/labstack/echo/v4/middleware"
)

type c11Case struct {
	Allow  []string `json:"allow"`  // AllowOrigins
	Creds  bool     `json:"creds"`  // AllowCredentials
	Unsafe bool     `json:"unsafe"` // UnsafeWildcardOriginWithAllowCredentials
	Method string   `json:"method"`
	Origin []string `json:"origin"` // Origin header values (usually one)
	Note   string   `json:"note,omitempty"`

	// round 4: the rest of the public surface
	Ctor    int      `json:"ctor,omitempty"`    // 1 = middleware.CORS() (every option of the case is then ignored)
	Skipper int      `json:"skipper,omitempty"` // 1 = custom Skipper: skips exactly the requests carrying X-Verif-Skip
	Skip    bool     `json:"skip,omitempty"`    // the request carries that header
	Func    *c11Func `json:"func,omitempty"`    // AllowOriginFunc (AllowOrigins is then ignored by the middleware)
	Methods []string `json:"methods,omitempty"` // AllowMethods
	Headers []string `json:"headers,omitempty"` // AllowHeaders
	Expose  []string `json:"expose,omitempty"`  // ExposeHeaders
	MaxAge  int      `json:"max_age,omitempty"`
	// methods registered for "/" (nil: all of them, e.Any); when OPTIONS is missing the router puts its Allow
	// value into the context.  The request's own method is always registered when the handler can be reached.
	Routes []string `json:"routes,omitempty"`
	// what a middleware in front of CORS does with the context key echo.ContextKeyHeaderAllow:
	// 0 leaves the router's value, 1 sets the string CtxAllow, 2 sets a value that is not a string
	CtxKind    int      `json:"ctx_kind,omitempty"`
	CtxAllow   string   `json:"ctx_allow,omitempty"`
	ReqHeaders []string `json:"req_headers,omitempty"` // Access-Control-Request-Headers values
	Pre        bool     `json:"pre,omitempty"`         // installed with e.Pre instead of e.Use
	Before     []string `json:"before,omitempty"`      // Origins of requests served through the same instance first

	// round 5: further CORS instances on the path of the same request, inside the one described above (which is
	// installed with e.Use / e.Pre): each at e.Use level (At 0), on the route's group (At 1) or on the route (At 2)
	Stack []c11Layer `json:"stack,omitempty"`

	// round 6: further request headers that a short-cut might key on (name, value); the name `Host` sets the
	// request's Host.  None of them is consulted by the middleware.
	Decoy [][2]string `json:"decoy,omitempty"`

	// round 7: the state of the shared response when the first instance is entered, made by a middleware in front
	Entry *c11EntryState `json:"entry,omitempty"`

	// round 8: the order of the set-up calls around the package variable middleware.DefaultCORSConfig, which both
	// constructors read when they are called.  The set-up of a case is a script: [Earlier: assignment? constructor call
	// whose instance is NOT on the request's path]* , then per instance on the path (outermost first): its Dflt
	// assignment (if any) and its constructor call, then the Late assignment (if any); then the request is served.
	// A case that assigns anything starts with one CORS() call under the pristine value (some library, an earlier
	// group, the previous case have called it), and the pristine value is restored afterwards.
	Dflt    *c11Defaults `json:"dflt,omitempty"`    // assigned before the case's own instance is built
	Earlier []c11Earlier `json:"earlier,omitempty"` // what happened before
	Late    *c11Defaults `json:"late,omitempty"`    // assigned after the last constructor call, before the request
}

// a value assigned to middleware.DefaultCORSConfig (fields as in c11Case; Skipper 0 = DefaultSkipper)
type c11Defaults struct {
	Pristine bool     `json:"pristine,omitempty"` // the value the package is shipped with; the other fields are ignored
	Allow    []string `json:"allow"`
	Creds    bool     `json:"creds,omitempty"`
	Unsafe   bool     `json:"unsafe,omitempty"`
	Skipper  int      `json:"skipper,omitempty"`
	Func     *c11Func `json:"func,omitempty"`
	Methods  []string `json:"methods,omitempty"` // empty: the six methods the package is shipped with, unless NoMethods
	NoMeth   bool     `json:"no_methods,omitempty"`
	Headers  []string `json:"headers,omitempty"`
	Expose   []string `json:"expose,omitempty"`
	MaxAge   int      `json:"max_age,omitempty"`
}

// an earlier step of the set-up: an assignment (Dflt, may be nil) followed by a constructor call whose instance is not
// on the request's path: Ctor 1 = CORS(), 0 = CORSWithConfig(CORSConfig{}), 2 = no call (assignment only)
type c11Earlier struct {
	Dflt *c11Defaults `json:"dflt,omitempty"`
	Ctor int          `json:"ctor"`
}

var c11DefaultMethods = []string{http.MethodGet, http.MethodHead, http.MethodPut, http.MethodPatch, http.MethodPost, http.MethodDelete}

// the value as a layer-shaped record (what CORS() would be configured with)
func (d *c11Defaults) layer() c11Layer {
	if d == nil || d.Pristine {
		return c11Layer{Allow: []string{"*"}, Methods: c11DefaultMethods}
	}
	m := d.Methods
	if d.NoMeth {
		m = nil
	} else if len(m) == 0 {
		m = c11DefaultMethods
	}
	return c11Layer{Allow: d.Allow, Creds: d.Creds, Unsafe: d.Unsafe, Skipper: d.Skipper, Func: d.Func, Methods: m,
		Headers: d.Headers, Expose: d.Expose, MaxAge: d.MaxAge}
}

func (d *c11Defaults) mapStrings(f func(string) string) *c11Defaults {
	if d == nil {
		return nil
	}
	x := *d
	x.Allow = a3MapStrs(d.Allow, f)
	if d.Func != nil {
		fn := *d.Func
		fn.Allow, fn.Err = a3MapStrs(d.Func.Allow, f), a3MapStrs(d.Func.Err, f)
		x.Func = &fn
	}
	return &x
}

// middleware.DefaultCORSConfig is process-wide: a case that assigns it runs alone (write lock for the whole Run),
// every other case holds the read lock for its whole Run, so that no case ever sees another case's value
var c11DefaultsMu sync.RWMutex
var c11PristineSkipper = middleware.DefaultCORSConfig.Skipper

func c11SkipperFunc(kind int) middleware.Skipper {
	if kind == 1 {
		return func(ctx echo.Context) bool { return ctx.Request().Header.Get(c11SkipHeader) != "" }
	}
	return c11PristineSkipper
}

// c11Assign performs `middleware.DefaultCORSConfig = <value>` (fresh slices every time)
func c11Assign(d *c11Defaults, fcalls *[]string) {
	l := d.layer()
	cp := func(x []string) []string {
		if x == nil {
			return nil
		}
		return append([]string{}, x...)
	}
	cfg := middleware.CORSConfig{
		Skipper:                                  c11SkipperFunc(l.Skipper),
		AllowOrigins:                             cp(l.Allow),
		AllowCredentials:                         l.Creds,
		UnsafeWildcardOriginWithAllowCredentials: l.Unsafe,
		AllowMethods:                             cp(l.Methods),
		AllowHeaders:                             cp(l.Headers),
		ExposeHeaders:                            cp(l.Expose),
		MaxAge:                                   l.MaxAge,
	}
	if l.Func != nil {
		cfg.AllowOriginFunc = c11OriginFunc(l.Func, fcalls)
	}
	middleware.DefaultCORSConfig = cfg
}

func c11OriginFunc(f *c11Func, fcalls *[]string) func(string) (bool, error) {
	return func(o string) (bool, error) {
		*fcalls = append(*fcalls, o)
		switch k := f.class(o); {
		case k == 1:
			return true, nil
		case k == 2:
			return false, nil
		case k == 500:
			return f.ErrTrue, errC11Func
		default:
			return f.ErrTrue, echo.NewHTTPError(k)
		}
	}
}

func (c *c11Case) assigns() bool {
	if c.Dflt != nil || c.Late != nil || len(c.Earlier) > 0 {
		return true
	}
	for _, l := range c.Stack {
		if l.Dflt != nil {
			return true
		}
	}
	return false
}

// what an earlier middleware did to the response before calling next: CORS-looking headers already there, the Status
// field preset, or the response already STARTED (Commit = status written; How 0 WriteHeader, 1 Write of a byte
// (implicit 200), 2 WriteHeader + Flush)
type c11EntryState struct {
	Commit int      `json:"commit,omitempty"`
	How    int      `json:"how,omitempty"`
	ACAO   string   `json:"acao,omitempty"`
	ACAC   bool     `json:"acac,omitempty"`
	Vary   []string `json:"vary,omitempty"`
	Status int      `json:"status,omitempty"`
}

func (en *c11EntryState) commitStatus() int {
	switch {
	case en == nil || en.Commit == 0:
		return 0
	case en.How == 1:
		// Write starts the response with the preset Status field, 200 when none
		if en.Status != 0 {
			return en.Status
		}
		return http.StatusOK
	case en.Commit < 200 || en.Commit > 599:
		return http.StatusOK
	}
	return en.Commit
}

func c11Early(en *c11EntryState) echo.MiddlewareFunc {
	return func(next echo.HandlerFunc) echo.HandlerFunc {
		return func(ctx echo.Context) error {
			if en != nil {
				res := ctx.Response()
				if en.ACAO != "" {
					res.Header().Set("Access-Control-Allow-Origin", en.ACAO)
				}
				if en.ACAC {
					res.Header().Set("Access-Control-Allow-Credentials", "true")
				}
				for _, v := range en.Vary {
					res.Header().Add("Vary", v)
				}
				if en.Status != 0 {
					res.Status = en.Status
				}
				if en.Commit != 0 {
					switch en.How {
					case 1:
						_, _ = res.Write([]byte("x"))
					case 2:
						res.WriteHeader(en.commitStatus())
						res.Flush()
					default:
						res.WriteHeader(en.commitStatus())
					}
				}
			}
			return next(ctx)
		}
	}
}

// one more CORS instance (same meaning of the fields as in c11Case)
type c11Layer struct {
	At      int      `json:"at"`
	Ctor    int      `json:"ctor,omitempty"`
	Allow   []string `json:"allow"`
	Creds   bool     `json:"creds,omitempty"`
	Unsafe  bool     `json:"unsafe,omitempty"`
	Skipper int      `json:"skipper,omitempty"`
	Func    *c11Func `json:"func,omitempty"`
	Methods []string `json:"methods,omitempty"`
	Headers []string `json:"headers,omitempty"`
	Expose  []string `json:"expose,omitempty"`
	MaxAge  int      `json:"max_age,omitempty"`
	// round 8: middleware.DefaultCORSConfig is assigned this value just before the instance is built
	Dflt *c11Defaults `json:"dflt,omitempty"`
	// round 8: no constructor call - the case's own MiddlewareFunc VALUE is installed once more at this level (every
	// other field is ignored).  Honoured only when no instance of the stack assigns the variable.
	Same bool `json:"same,omitempty"`
}

func c11NormLayer(l c11Layer) c11Layer {
	if l.Ctor == 1 {
		l.Allow, l.Creds, l.Unsafe, l.Func, l.Skipper = nil, false, false, nil, 0
		l.Methods, l.Headers, l.Expose, l.MaxAge = nil, nil, nil, 0
	}
	return l
}

// all instances on the request's path, outermost first: the case's own one, then the stack ordered by level
func (c *c11Case) layers() []c11Layer {
	out := []c11Layer{c11NormLayer(c11Layer{At: -1, Ctor: c.Ctor, Allow: c.Allow, Creds: c.Creds, Unsafe: c.Unsafe, Skipper: c.Skipper,
		Func: c.Func, Methods: c.Methods, Headers: c.Headers, Expose: c.Expose, MaxAge: c.MaxAge, Dflt: c.Dflt})}
	sameOK := true
	for _, l := range c.Stack {
		if l.Dflt != nil {
			sameOK = false
		}
	}
	for at := 0; at <= 2; at++ {
		for _, l := range c.Stack {
			k := l.At
			if k < 0 || k > 2 {
				k = 2
			}
			if k == at {
				if l.Same && sameOK {
					l = out[0]
					l.Same, l.Dflt = true, nil
				} else {
					l.Same = false
				}
				l.At = k
				out = append(out, c11NormLayer(l))
			}
		}
	}
	return out
}

func c11BuildCORS(l c11Layer, fcalls *[]string) echo.MiddlewareFunc {
	if l.Ctor == 1 {
		return middleware.CORS()
	}
	cfg := middleware.CORSConfig{
		AllowOrigins:                             l.Allow,
		AllowCredentials:                         l.Creds,
		UnsafeWildcardOriginWithAllowCredentials: l.Unsafe,
		AllowMethods:                             l.Methods,
		AllowHeaders:                             l.Headers,
		ExposeHeaders:                            l.Expose,
		MaxAge:                                   l.MaxAge,
	}
	if l.Skipper == 1 {
		cfg.Skipper = c11SkipperFunc(1)
	}
	if l.Func != nil {
		cfg.AllowOriginFunc = c11OriginFunc(l.Func, fcalls)
	}
	return middleware.CORSWithConfig(cfg)
}

// configuration tokens as the application wrote them: `creds unsafe allow func methods headers expose maxAge`
func c11ConfigOps(l c11Layer, origin string) string {
	fn := 0
	if l.Func != nil {
		fn = l.Func.class(origin)
	}
	return strings.Join([]string{wBool(l.Creds), wBool(l.Unsafe), wStrs(l.Allow), wInt(fn),
		wStrs(l.Methods), wStrs(l.Headers), wStrs(l.Expose), wInt(l.MaxAge)}, " ")
}

// a constructor call of the set-up script: `1 keep ownSkipper skip routerAllow ctor` + configuration tokens
func c11CallOps(l c11Layer, keep, skipMarked bool, routerAllow, origin string) string {
	return strings.Join([]string{"1", wBool(keep), wBool(l.Skipper == 1), wBool(l.Skipper == 1 && skipMarked), wStr(routerAllow), wInt(l.Ctor),
		c11ConfigOps(l, origin)}, " ")
}

// an assignment of the set-up script: `0 skip` + configuration tokens
func c11AssignOps(d *c11Defaults, skipMarked bool, origin string) string {
	l := d.layer()
	return strings.Join([]string{"0", wBool(l.Skipper == 1 && skipMarked), c11ConfigOps(l, origin)}, " ")
}

// c11Effective: the configuration in force for an instance built while the package variable held `d` (the oracle's own
// reading of the documentation): CORS() is configured by the variable, CORSWithConfig by its argument, a nil Skipper is
// the variable's.  An EMPTY allow-list: the documented default is `*`, the code takes the variable's list - the two
// agree for the pristine value only, so in every other case the property does not fix the verdict (listDefinite false).
func c11Effective(l c11Layer, d *c11Defaults) (eff c11Layer, listDefinite bool) {
	dl := d.layer()
	pristineList := len(dl.Allow) == 1 && dl.Allow[0] == "*"
	if l.Ctor == 1 {
		eff = dl
		eff.At, eff.Ctor = l.At, 1
		return eff, len(dl.Allow) > 0
	}
	eff = l
	if l.Skipper == 0 {
		eff.Skipper = dl.Skipper
	}
	if len(l.Allow) == 0 {
		eff.Allow = dl.Allow
		return eff, pristineList
	}
	return eff, true
}

// AllowOriginFunc as a table: error (status Code; 500 = a plain error) for the origins in Err, true for those in
// Allow, false otherwise
type c11Func struct {
	Allow   []string `json:"allow,omitempty"`
	Err     []string `json:"err,omitempty"`
	Code    int      `json:"code,omitempty"`
	ErrTrue bool     `json:"err_true,omitempty"` // an erroring function returns (true, err) instead of (false, err)
}

// 1 allow, 2 deny, >= 100 error answered with that status
func (f *c11Func) class(origin string) int {
	for _, o := range f.Err {
		if o == origin {
			if f.Code < 100 {
				return 500
			}
			return f.Code
		}
	}
	for _, o := range f.Allow {
		if o == origin {
			return 1
		}
	}
	return 2
}

// Strings of a case may hold bytes that are not UTF-8 (entries that do not compile, origins copied from them).
// encoding/json would replace those by U+FFFD, so such a string travels as marker + base64 and replays stay exact.
const a3BinMarker = "\x00b64:"

func a3EncStr(s string) string {
	if utf8.ValidString(s) && !strings.HasPrefix(s, a3BinMarker) {
		return s
	}
	return a3BinMarker + base64.StdEncoding.EncodeToString([]byte(s))
}

func a3DecStr(s string) string {
	if strings.HasPrefix(s, a3BinMarker) {
		if b, err := base64.StdEncoding.DecodeString(s[len(a3BinMarker):]); err == nil {
			return string(b)
		}
	}
	return s
}

func a3MapStrs(l []string, f func(string) string) []string {
	if l == nil {
		return nil
	}
	out := make([]string, len(l))
	for i, s := range l {
		out[i] = f(s)
	}
	return out
}

type c11Alias c11Case

func (c *c11Case) mapStrings(f func(string) string) c11Alias {
	a := c11Alias(*c)
	a.Allow, a.Origin, a.Before = a3MapStrs(c.Allow, f), a3MapStrs(c.Origin, f), a3MapStrs(c.Before, f)
	a.ReqHeaders, a.CtxAllow = a3MapStrs(c.ReqHeaders, f), f(c.CtxAllow)
	a.Dflt, a.Late = c.Dflt.mapStrings(f), c.Late.mapStrings(f)
	if c.Earlier != nil {
		a.Earlier = make([]c11Earlier, len(c.Earlier))
		for i, e := range c.Earlier {
			a.Earlier[i] = c11Earlier{Dflt: e.Dflt.mapStrings(f), Ctor: e.Ctor}
		}
	}
	if c.Func != nil {
		fn := *c.Func
		fn.Allow, fn.Err = a3MapStrs(c.Func.Allow, f), a3MapStrs(c.Func.Err, f)
		a.Func = &fn
	}
	if c.Stack != nil {
		a.Stack = make([]c11Layer, len(c.Stack))
		for i, l := range c.Stack {
			l.Allow = a3MapStrs(l.Allow, f)
			l.Dflt = l.Dflt.mapStrings(f)
			if l.Func != nil {
				fn := *l.Func
				fn.Allow, fn.Err = a3MapStrs(l.Func.Allow, f), a3MapStrs(l.Func.Err, f)
				l.Func = &fn
			}
			a.Stack[i] = l
		}
	}
	return a
}

func (c c11Case) MarshalJSON() ([]byte, error) {
	a := c.mapStrings(a3EncStr)
	return json.Marshal(&a)
}

func (c *c11Case) UnmarshalJSON(data []byte) error {
	var a c11Alias
	if err := json.Unmarshal(data, &a); err != nil {
		return err
	}
	d := c11Case(a)
	*c = c11Case(d.mapStrings(a3DecStr))
	return nil
}

const c11SkipHeader = "X-Verif-Skip"

var errC11Func = errors.New("origin backend failed")

func c11Norm(c *c11Case) *c11Case {
	d := *c
	if d.Ctor == 1 {
		d.Allow, d.Creds, d.Unsafe, d.Func, d.Skipper = nil, false, false, nil, 0
		d.Methods, d.Headers, d.Expose, d.MaxAge = nil, nil, nil, 0
	}
	return &d
}

// c11Glob: `*` = any run of bytes (also empty), `?` = exactly one byte, every other byte itself, whole
// string.  Written directly (two-pointer scan with backtracking to the last star), independent of regexp.
func c11Glob(p, s string) bool {
	pi, si := 0, 0
	star, mark := -1, 0
	for si < len(s) {
		switch {
		case pi < len(p) && p[pi] == '*':
			star, mark = pi, si
			pi++
		case pi < len(p) && (p[pi] == '?' || p[pi] == s[si]):
			pi++
			si++
		case star >= 0:
			mark++
			si = mark
			pi = star + 1
		default:
			return false
		}
	}
	for pi < len(p) && p[pi] == '*' {
		pi++
	}
	return pi == len(p)
}

// syntactically valid origin in the sense of the property: printable ASCII, scheme "://" host[:port],
// one "://", scheme without ':' and host part without '/', host (without an explicit port) at most 253 bytes
func c11ValidOrigin(o string) bool {
	for i := 0; i < len(o); i++ {
		if o[i] <= 0x20 || o[i] >= 0x7f {
			return false
		}
	}
	i := strings.Index(o, "://")
	if i <= 0 {
		return false
	}
	scheme, host := o[:i], o[i+3:]
	// the 253-byte limit is the host's; an explicit port does not count towards it
	name := host
	if k := strings.LastIndex(host, ":"); k >= 0 && k+1 < len(host) && strings.Trim(host[k+1:], "0123456789") == "" {
		name = host[:k]
	}
	if strings.ContainsAny(scheme, ":/") || host == "" || strings.Contains(host, "/") || len(name) > 253 {
		return false
	}
	return true
}

// an allow-list entry is origin shaped when its first colon (if any) is the one of "://"
func c11EntryShaped(p string) bool {
	i := strings.Index(p, ":")
	return i < 0 || strings.HasPrefix(p[i:], "://")
}

// the list in force (after the defaulting of an empty AllowOrigins, see c11Effective); an empty one allows nothing
func c11Allowed(allow []string, origin string) bool {
	for _, a := range allow {
		if a == "*" || a == origin || c11Glob(a, origin) {
			return true
		}
	}
	return false
}

func c11Has(l []string, x string) bool {
	for _, y := range l {
		if y == x {
			return true
		}
	}
	return false
}

// the set-up script of a case: the steps in order, which value the variable holds when each instance on the path is
// built (atBuild), the configuration in force of each instance (eff, listDefinite: see c11Effective), whether its
// AllowOriginFunc is the one in the package variable, and what its Skipper says about the case's request.
// step.call == nil: an assignment; step.keep: index of the instance on the path, -1 = the instance is dropped
type c11Step struct {
	assign *c11Defaults
	call   *c11Layer
	keep   int
}

type c11Plan struct {
	script       []c11Step
	atBuild      []*c11Defaults
	eff          []c11Layer
	listDefinite []bool
	dfltFunc     []bool
	skipped      []bool
	allSkipped   bool
	grouped      bool
}

func c11PlanOf(c *c11Case, layers []c11Layer) *c11Plan {
	n := len(layers)
	var script []c11Step
	if c.assigns() {
		script = append(script, c11Step{call: &c11Layer{Ctor: 1}, keep: -1})
		for _, e := range c.Earlier {
			if e.Dflt != nil {
				script = append(script, c11Step{assign: e.Dflt})
			}
			if e.Ctor == 0 || e.Ctor == 1 {
				script = append(script, c11Step{call: &c11Layer{Ctor: e.Ctor}, keep: -1})
			}
		}
	}
	// (an instance installed a second time is, for the model, a second call with the same argument under the same
	// value of the variable: C11_setup_no_memory)
	for i := range layers {
		if layers[i].Dflt != nil {
			script = append(script, c11Step{assign: layers[i].Dflt})
		}
		script = append(script, c11Step{call: &layers[i], keep: i})
	}
	if c.Late != nil {
		script = append(script, c11Step{assign: c.Late})
	}
	p := &c11Plan{script: script, atBuild: make([]*c11Defaults, n), eff: make([]c11Layer, n), listDefinite: make([]bool, n),
		dfltFunc: make([]bool, n), skipped: make([]bool, n), allSkipped: true}
	var cur *c11Defaults
	for _, st := range script {
		if st.assign != nil {
			cur = st.assign
		}
		if st.call != nil && st.keep >= 0 {
			p.atBuild[st.keep] = cur
			p.eff[st.keep], p.listDefinite[st.keep] = c11Effective(*st.call, cur)
			p.dfltFunc[st.keep] = st.call.Ctor == 1 && p.eff[st.keep].Func != nil
		}
	}
	for i, l := range layers {
		p.skipped[i] = p.eff[i].Skipper == 1 && c.Skip
		if !p.skipped[i] {
			p.allSkipped = false
		}
		if l.At >= 1 {
			p.grouped = true
		}
	}
	return p
}

func c11Run(ci any) (res Result) {
	c := c11Norm(ci.(*c11Case))
	layers := c.layers()
	n := len(layers)
	ran := false
	fcalls := make([][]string, n)
	var dcalls []string // calls of an AllowOriginFunc that sits in the package variable
	routerAllow := make([]string, n)
	preflight := c.Method == http.MethodOptions
	origin := ""
	if len(c.Origin) > 0 {
		origin = c.Origin[0]
	}
	assigns := c.assigns()
	if assigns {
		c11DefaultsMu.Lock()
		defer c11DefaultsMu.Unlock()
		defer c11Assign(nil, &dcalls) // restore the pristine value
	} else {
		c11DefaultsMu.RLock()
		defer c11DefaultsMu.RUnlock()
	}

	plan := c11PlanOf(c, layers)
	script, atBuild, eff, listDefinite, dfltFunc := plan.script, plan.atBuild, plan.eff, plan.listDefinite, plan.dfltFunc
	skipped, allSkipped, grouped := plan.skipped, plan.allSkipped, plan.grouped

	e := echo.New()
	// in front of every instance: what it will find under echo.ContextKeyHeaderAllow (the first probe may replace it)
	probe := func(i int) echo.MiddlewareFunc {
		return func(next echo.HandlerFunc) echo.HandlerFunc {
			return func(ctx echo.Context) error {
				if i == 0 {
					switch c.CtxKind {
					case 1:
						ctx.Set(echo.ContextKeyHeaderAllow, c.CtxAllow)
					case 2:
						ctx.Set(echo.ContextKeyHeaderAllow, 42)
					}
				}
				routerAllow[i] = ""
				if v, ok := ctx.Get(echo.ContextKeyHeaderAllow).(string); ok {
					routerAllow[i] = v
				}
				return next(ctx)
			}
		}
	}
	e.Logger.SetOutput(io.Discard)
	if c.Pre {
		e.Pre(c11Early(c.Entry))
	} else {
		e.Use(c11Early(c.Entry))
	}
	var groupMW, routeMW []echo.MiddlewareFunc
	built := make([]echo.MiddlewareFunc, n)
	var dropped []echo.MiddlewareFunc
	for _, st := range script {
		if st.assign != nil {
			c11Assign(st.assign, &dcalls)
		}
		if st.call != nil {
			if st.keep > 0 && st.call.Same {
				built[st.keep] = built[0]
			} else if st.keep >= 0 {
				built[st.keep] = c11BuildCORS(*st.call, &fcalls[st.keep])
			} else {
				dropped = append(dropped, c11BuildCORS(*st.call, &dcalls))
			}
		}
	}
	_ = dropped
	for i, l := range layers {
		i := i
		mw := built[i]
		switch {
		case l.At == -1 && c.Pre:
			e.Pre(probe(i), mw)
		case l.At <= 0:
			e.Use(probe(i), mw)
		case l.At == 1:
			groupMW = append(groupMW, probe(i), mw)
		default:
			routeMW = append(routeMW, probe(i), mw)
		}
	}
	h := func(ctx echo.Context) error {
		ran = true
		return ctx.NoContent(http.StatusOK)
	}
	path, rpath := "/", "/"
	g := e.Group("")
	if grouped {
		g = e.Group("/g", groupMW...)
		path, rpath = "/g/x", "/x"
	}
	if c.Routes == nil {
		g.Any(rpath, h, routeMW...)
	} else {
		routes := append([]string(nil), c.Routes...)
		need := []string{}
		if !preflight || c.Skip {
			need = append(need, c.Method)
		}
		if len(c.Before) > 0 {
			need = append(need, http.MethodGet)
		}
		for _, m := range need {
			if !c11Has(routes, m) {
				routes = append(routes, m)
			}
		}
		done := map[string]bool{}
		for _, m := range routes {
			if !done[m] {
				done[m] = true
				g.Add(m, rpath, h, routeMW...)
			}
		}
	}
	mkReq := func(method string, origins []string) *http.Request {
		req := httptest.NewRequest(method, path, nil)
		for _, o := range origins {
			req.Header["Origin"] = append(req.Header["Origin"], o)
		}
		return req
	}
	req := mkReq(c.Method, c.Origin)
	for _, d := range c.Decoy {
		switch k := http.CanonicalHeaderKey(d[0]); k {
		case "Host":
			req.Host = d[1]
		case "Origin", "Access-Control-Request-Headers", c11SkipHeader:
			// not decoys
		default:
			req.Header[k] = append(req.Header[k], d[1])
		}
	}
	for _, v := range c.ReqHeaders {
		req.Header["Access-Control-Request-Headers"] = append(req.Header["Access-Control-Request-Headers"], v)
	}
	if c.Skip {
		req.Header.Set(c11SkipHeader, "1")
	}
	rec := httptest.NewRecorder()

	panicked := func() (p bool) {
		defer func() {
			if r := recover(); r != nil {
				p = true
				res.Oracle = fmt.Sprintf("CORS panicked: %v", r)
			}
		}()
		// requests served through the same instances first: nothing of them may carry over
		for i, o := range c.Before {
			m := http.MethodGet
			if i%2 == 1 {
				m = http.MethodOptions
			}
			e.ServeHTTP(httptest.NewRecorder(), mkReq(m, []string{o}))
		}
		ran = false
		for i := range fcalls {
			fcalls[i], routerAllow[i] = nil, ""
		}
		dcalls = nil
		e.ServeHTTP(rec, req)
		return false
	}()
	for i := range layers {
		if dfltFunc[i] {
			fcalls[i] = dcalls
		} else if layers[i].Same {
			fcalls[i] = fcalls[0]
		}
	}

	en := c.Entry
	if en == nil {
		en = &c11EntryState{}
	}
	committed := en.commitStatus() != 0
	ops := []string{wInt(en.commitStatus())}
	if en.ACAO != "" {
		ops = append(ops, "1", wStr(en.ACAO))
	} else {
		ops = append(ops, "0")
	}
	ops = append(ops, wBool(en.ACAC), wStrs(en.Vary))
	ops = append(ops, c13HeadOps(req)...)
	ops = append(ops, wInt(len(script)))
	for _, st := range script {
		switch {
		case st.assign != nil:
			ops = append(ops, c11AssignOps(st.assign, c.Skip, origin))
		case st.keep >= 0:
			ops = append(ops, c11CallOps(*st.call, true, c.Skip, routerAllow[st.keep], origin))
		default:
			ops = append(ops, c11CallOps(*st.call, false, c.Skip, "", origin))
		}
	}
	res.Ops = strings.Join(ops, " ")
	if panicked {
		res.Obs = "panic"
		return res
	}
	hd := rec.Header()
	if committed {
		hd = rec.Result().Header // what went over the wire: later header changes are not sent
	}
	acao, hasACAO := hd["Access-Control-Allow-Origin"]
	hasACAO = hasACAO && len(acao) > 0
	acac := hd.Get("Access-Control-Allow-Credentials")
	_, hasACAC := hd["Access-Control-Allow-Credentials"]
	vary := hd.Values("Vary")
	obs := []string{wInt(rec.Code), wBool(ran)}
	if hasACAO {
		obs = append(obs, "1", wStr(acao[0]))
	} else {
		obs = append(obs, "0")
	}
	obs = append(obs, wBool(hasACAC), wStrs(vary))
	for _, k := range []string{"Allow", "Access-Control-Allow-Methods", "Access-Control-Allow-Headers", "Access-Control-Expose-Headers", "Access-Control-Max-Age"} {
		if v, ok := hd[k]; ok && len(v) > 0 {
			obs = append(obs, "1", wStr(v[0]))
			res.Tags = append(res.Tags, "hdr:"+k)
		} else {
			obs = append(obs, "0")
		}
	}
	res.Obs = strings.Join(obs, " ")

	// ---- model-free oracle: the property itself, instance by instance
	fail := func(s string) {
		if res.Oracle == "" {
			res.Oracle = s
		}
	}
	// headers the middleware in front had put there are not the CORS middleware's doing
	presetMasks := false
	if hasACAO && en.ACAO != "" && acao[0] == en.ACAO {
		hasACAO, presetMasks = false, true // cannot tell a grant of the same value from the preset one
	}
	if en.ACAC {
		hasACAC = false
	}
	valid := c11ValidOrigin(origin)
	// verdict of instance i about the Origin: allows it; and whether that verdict is one the property fixes
	// (AllowOriginFunc: its table; allow-list: syntactically valid origin and origin-shaped entries)
	allows, definite := make([]bool, n), make([]bool, n)
	anyCreds, onlyFuncs, firstActive := false, true, -1
	for i, l := range eff {
		if l.Func != nil {
			allows[i], definite[i] = l.Func.class(origin) == 1, true
		} else {
			shaped := true
			for _, a := range l.Allow {
				if !c11EntryShaped(a) {
					shaped = false
				}
			}
			allows[i], definite[i] = c11Allowed(l.Allow, origin), valid && shaped && listDefinite[i]
		}
		if skipped[i] {
			continue
		}
		if firstActive < 0 {
			firstActive = i
		}
		if l.Creds {
			anyCreds = true
		}
		if l.Func == nil {
			onlyFuncs = false
		}
	}
	where := func(i int) string {
		if n == 1 {
			return ""
		}
		return fmt.Sprintf(" (instance %d of %d on the request's path)", i, n)
	}
	if len(acao) > 1 {
		fail(fmt.Sprintf("%d Access-Control-Allow-Origin values", len(acao)))
	}
	for i, l := range eff {
		if l.Func == nil {
			continue
		}
		// AllowOriginFunc is asked about the Origin verbatim
		for _, o := range fcalls[i] {
			if o != origin {
				fail(fmt.Sprintf("AllowOriginFunc asked about %q, the request's Origin is %q%s", o, origin, where(i)))
			}
		}
	}
	if allSkipped {
		// the configured Skipper takes the request out of the middleware
		if !ran {
			fail(fmt.Sprintf("the configured Skipper skips this request, but the handler did not run (status %d)", rec.Code))
		}
		if hasACAO || hasACAC {
			fail("CORS grant headers on a request the configured Skipper skips")
		}
	} else {
		if hasACAO {
			v := acao[0]
			if v != "*" && v != origin {
				fail(fmt.Sprintf("Access-Control-Allow-Origin %q is neither * nor the request's Origin %q", v, origin))
			}
			if onlyFuncs && v != origin {
				fail(fmt.Sprintf("Access-Control-Allow-Origin %q is not the Origin %q that AllowOriginFunc allowed", v, origin))
			}
			// some instance that looked at the request must allow the origin
			granted, undecided, asked := false, false, false
			for i := range layers {
				if skipped[i] {
					continue
				}
				if !definite[i] {
					undecided = true
				} else if allows[i] {
					granted = true
				}
				if len(fcalls[i]) > 0 {
					asked = true
				}
			}
			if !granted && !undecided {
				if onlyFuncs {
					fail(fmt.Sprintf("Access-Control-Allow-Origin %q although AllowOriginFunc did not allow %q", v, origin))
				} else {
					fail(fmt.Sprintf("Access-Control-Allow-Origin %q emitted for origin %q, which no instance on the path allows (first allow-list in force %q: equality, *, or */? pattern over the whole origin)", v, origin, eff[0].Allow))
				}
			}
			if onlyFuncs && !asked {
				fail("Access-Control-Allow-Origin granted without asking AllowOriginFunc")
			}
		}
		// behind any stack every instance must pass the request on its own
		if ran && origin != "" {
			for i := range layers {
				if !skipped[i] && definite[i] && !allows[i] {
					if eff[i].Func != nil {
						fail(fmt.Sprintf("request from %q reached the handler although AllowOriginFunc did not allow it (answer class %d)%s", origin, eff[i].Func.class(origin), where(i)))
					} else {
						fail(fmt.Sprintf("non-preflight %s from disallowed origin %q reached the handler (status %d): allow-list in force %q%s", c.Method, origin, rec.Code, eff[i].Allow, where(i)))
					}
				}
			}
		}
	}
	if hasACAC {
		if !anyCreds {
			fail("Access-Control-Allow-Credentials sent although AllowCredentials is off")
		}
		if !hasACAO && !presetMasks {
			fail("Access-Control-Allow-Credentials sent without an allowed origin")
		}
		if acac != "true" {
			fail(fmt.Sprintf("Access-Control-Allow-Credentials: %q", acac))
		}
	}
	if preflight && !allSkipped {
		fl := eff[firstActive]
		funcErr := fl.Func != nil && origin != "" && fl.Func.class(origin) >= 100 && rec.Code == fl.Func.class(origin)
		if ran || (rec.Code != http.StatusNoContent && !funcErr && !committed) {
			fail(fmt.Sprintf("OPTIONS preflight answered %d, handler ran=%v (expected 204 without the handler)", rec.Code, ran))
		}
	}

	// ---- tags
	switch {
	case allSkipped:
		res.Tags = append(res.Tags, "skipped")
	case origin == "":
		res.Tags = append(res.Tags, "no-origin")
	case hasACAO && acao[0] == "*":
		res.Tags = append(res.Tags, "acao-star")
	case hasACAO:
		res.Tags = append(res.Tags, "acao-echo")
	default:
		res.Tags = append(res.Tags, "denied")
	}
	if preflight {
		res.Tags = append(res.Tags, "preflight")
	}
	if !valid && origin != "" {
		res.Tags = append(res.Tags, "origin-not-valid")
	}
	if c.Note != "" {
		res.Tags = append(res.Tags, "gen:"+c.Note)
		if hasACAO {
			res.Tags = append(res.Tags, "granted:"+c.Note)
		}
	}
	if hasACAC {
		res.Tags = append(res.Tags, "acac")
	}
	if c.Pre {
		res.Tags = append(res.Tags, "pre")
	}
	if committed {
		res.Tags = append(res.Tags, "entry:response-already-started")
	}
	if en.ACAO != "" || en.ACAC || len(en.Vary) > 0 {
		res.Tags = append(res.Tags, "entry:cors-headers-already-present")
	}
	if len(c.Before) > 0 {
		res.Tags = append(res.Tags, "second-request-through-instance")
	}
	for _, d := range c.Decoy {
		res.Tags = append(res.Tags, "decoy:"+http.CanonicalHeaderKey(d[0]))
	}
	if n > 1 {
		res.Tags = append(res.Tags, fmt.Sprintf("stack:%d-instances", n))
		outerOnly := false
		for i := 1; i < n; i++ {
			res.Tags = append(res.Tags, fmt.Sprintf("stack:inner-at-%d", layers[i].At))
			if !skipped[0] && allows[0] && !skipped[i] && definite[i] && !allows[i] && origin != "" {
				outerOnly = true
			}
		}
		if outerOnly {
			res.Tags = append(res.Tags, "stack:outer-allows-inner-rejects")
			if !preflight {
				res.Tags = append(res.Tags, "stack:outer-allows-inner-rejects-simple")
			}
		}
	}
	if assigns {
		res.Tags = append(res.Tags, "setup:DefaultCORSConfig-assigned")
		if len(c.Earlier) > 0 {
			res.Tags = append(res.Tags, "setup:earlier-steps")
		}
		if c.Late != nil {
			res.Tags = append(res.Tags, "setup:assigned-after-the-last-constructor-call")
		}
		for i, l := range layers {
			if atBuild[i] == nil || atBuild[i].Pristine {
				if i > 0 && atBuild[i] != nil {
					res.Tags = append(res.Tags, "setup:built-after-reset-to-pristine")
				}
				continue
			}
			switch {
			case l.Ctor == 1 && i > 0 && l.Dflt != nil:
				res.Tags = append(res.Tags, "setup:CORS()-again-after-assignment")
			case l.Ctor == 1:
				res.Tags = append(res.Tags, "setup:CORS()-under-assigned-value")
			case len(l.Allow) == 0 && l.Func == nil:
				res.Tags = append(res.Tags, "setup:CORSWithConfig-takes-the-variable's-list")
			default:
				res.Tags = append(res.Tags, "setup:CORSWithConfig-own-list-under-assigned-value")
			}
			if len(eff[i].Allow) == 0 && eff[i].Func == nil {
				res.Tags = append(res.Tags, "setup:both-lists-empty")
			}
			if l.Skipper == 0 && eff[i].Skipper == 1 {
				res.Tags = append(res.Tags, "setup:skipper-from-the-variable")
			}
			if dfltFunc[i] {
				res.Tags = append(res.Tags, "setup:AllowOriginFunc-from-the-variable")
			}
		}
	}
	for _, l := range layers {
		if l.Same {
			res.Tags = append(res.Tags, "stack:same-instance-installed-twice")
		}
	}
	hasPattern := false
	for i, l := range eff {
		if l.Ctor == 1 {
			res.Tags = append(res.Tags, "ctor-CORS()")
		}
		if l.Skipper == 1 {
			res.Tags = append(res.Tags, "custom-skipper")
		}
		if l.Func != nil {
			k := l.Func.class(origin)
			if k >= 100 {
				k = 100
			}
			res.Tags = append(res.Tags, fmt.Sprintf("origin-func:%d", k))
		}
		if routerAllow[i] != "" && preflight {
			res.Tags = append(res.Tags, "router-allow")
		}
		if l.Unsafe && !l.Creds {
			res.Tags = append(res.Tags, "unsafe-flag-without-credentials")
		}
		blankOnly := len(l.Allow) > 0
		for _, a := range l.Allow {
			if a != "*" && strings.ContainsAny(a, "*?") {
				hasPattern = true
			}
			if a != "" {
				blankOnly = false
			}
			if !utf8.ValidString(a) {
				res.Tags = append(res.Tags, "entry-not-utf8")
			}
		}
		if blankOnly {
			res.Tags = append(res.Tags, "allow-list-of-blanks")
		}
		if l.Func != nil {
			hasPattern = true
		}
	}
	res.Nontrivial = hasPattern && origin != ""
	return res
}

// ---------- generator ----------

func c11Pick[T any](r *rand.Rand, l []T) T { return l[r.Intn(len(l))] }

var c11Labels = []string{"a", "b", "api", "www", "evil", "example", "foo", "x1", "co", "shop", "a-b", "m"}
var c11TLDs = []string{"com", "org", "co.uk", "io", "test"}
var c11Schemes = []string{"https", "https", "https", "http", "http", "ftp", "app"}
var c11Meta = []string{"a+b", "(x)", "[ab]", "a|b", "^a$", "a\\b", "a{2}", "x$", "a\\", "\\d", "(?i)a", "a..b"}

type c11Parts struct {
	scheme string
	labels []string
	port   string // "" or ":8080"
}

func (p c11Parts) String() string { return p.scheme + "://" + strings.Join(p.labels, ".") + p.port }

func c11Base(r *rand.Rand) c11Parts {
	p := c11Parts{scheme: c11Pick(r, c11Schemes)}
	n := 1 + r.Intn(3)
	for i := 0; i < n; i++ {
		p.labels = append(p.labels, c11Pick(r, c11Labels))
	}
	p.labels = append(p.labels, strings.Split(c11Pick(r, c11TLDs), ".")...)
	if r.Intn(4) == 0 {
		p.port = c11Pick(r, []string{":8080", ":80", ":443", ":3000"})
	}
	return p
}

func c11WildLabel(r *rand.Rand, l string) string {
	if l == "" {
		return "*"
	}
	i := r.Intn(len(l))
	switch r.Intn(6) {
	case 0:
		return "*" + l[i:]
	case 1:
		return l[:i] + "*"
	case 2:
		return l[:i] + "*" + l[i:]
	case 3:
		return l[:i] + "?" + l[i+1:]
	case 4:
		return "?" + l
	}
	return "*"
}

// an allow-list entry derived from a base origin
func c11Entry(r *rand.Rand, b c11Parts) string {
	p := c11Parts{scheme: b.scheme, labels: append([]string(nil), b.labels...), port: b.port}
	switch r.Intn(13) {
	case 12: // an IPv6 literal (brackets are regexp metacharacters too), mostly with a wildcard port
		return c11Pick(r, []string{"http", "https"}) + "://" + c11Pick(r, []string{"[::1]", "[2001:db8::a]", "[fe80::1]", "[::ffff:10.0.0.1]"}) +
			c11Pick(r, []string{":*", ":*", ":80?0", "", ":8080", "*"})
	case 0, 1: // literal
	case 2, 3: // classic sub-domain wildcard
		p.labels[0] = "*"
	case 4: // star label in the middle (F9 family) or at the end
		p.labels[r.Intn(len(p.labels))] = "*"
	case 5: // partial label wildcards
		i := r.Intn(len(p.labels))
		p.labels[i] = c11WildLabel(r, p.labels[i])
	case 6: // several wildcards
		for k := 0; k < 2+r.Intn(2); k++ {
			i := r.Intn(len(p.labels))
			p.labels[i] = c11WildLabel(r, p.labels[i])
		}
	case 7: // scheme wildcard
		p.scheme = c11Pick(r, []string{"http?", "http*", "*", "htt?s", "?ttps"})
		if r.Intn(2) == 0 {
			p.labels[0] = "*"
		}
	case 8: // port wildcard
		p.port = c11Pick(r, []string{":*", ":80?0", ":?", ":80*", ":8080"})
		if r.Intn(2) == 0 {
			p.labels[0] = "*"
		}
	case 9: // regexp metacharacters in a label
		p.labels[r.Intn(len(p.labels))] = c11Pick(r, c11Meta)
		if r.Intn(2) == 0 {
			p.labels[0] = "*"
		}
	case 10: // sub-domain wildcard plus another one further right
		p.labels[0] = "*"
		i := r.Intn(len(p.labels))
		p.labels[i] = c11WildLabel(r, p.labels[i])
	case 11:
		return c11Pick(r, []string{"*", "*", "", "null", "https://*", "*://*", "https://*.*", "?", "https://"})
	}
	if r.Intn(25) == 0 {
		// a byte that can never be part of valid UTF-8 inside a label: the entry does not compile as a regexp and
		// is silently dropped from the patterns, but still takes part in the literal / sub-domain comparisons
		i := r.Intn(len(p.labels))
		l := p.labels[i]
		k := r.Intn(len(l) + 1)
		p.labels[i] = l[:k] + c11Pick(r, []string{"\xff", "\xfe", "\xf8", "\xc0", "\xc1", "\xff\xfe"}) + l[k:]
	}
	return p.String()
}

// fragments of UTF-8: complete sequences of every length, boundary code points, truncated, overlong, surrogate and
// out-of-range forms, lone continuation and impossible bytes
var c11Utf8 = []string{"\xc3\xa9", "\xe2\x82\xac", "\xf0\x9f\x98\x80", "\xc3", "\xa9", "\xe2\x82", "\xed\xa0\x80", "\xc0\x80",
	"\xf4\x90\x80\x80", "\xf8", "\xff", "a", "-", "\xe0\x80\x80", "\xef\xbf\xbd", "\xf0\x80\x80\x80", "\xed\x9f\xbf", "\xee\x80\x80",
	"\xf4\x8f\xbf\xbf", "\xdf\xbf", "\xc2\x80", "\xe0\xa0\x80", "\xf0\x90\x80\x80", "\xc1\xbf", "\xf5\x80\x80\x80", "\xf0\x9f\x98", "\x80",
	"\xe1\x80", "\xf1\x80\x80\x80", "\xf3\xbf\xbf\xbf", "\xec\xbf\xbf", "\xe0\x9f\xbf", "\xf0\x8f\xbf\xbf", "\xf4\x80\x80\x80", "\x7f"}

// c11GenProbe: does an entry compile?  The single entry `x://<bytes>?` and the origin `x://<bytes>z` differ only
// where the `?` meets an ASCII letter, so the origin is granted exactly when the entry compiled, i.e. when <bytes>
// is valid UTF-8 (neither literal equality nor matchSubdomain can grant it).
func c11GenProbe(r *rand.Rand) *c11Case {
	var b strings.Builder
	for k := 1 + r.Intn(3); k > 0; k-- {
		b.WriteString(c11Pick(r, c11Utf8))
	}
	host := b.String()
	c := &c11Case{Allow: []string{"x://" + host + "?"}, Method: c11Pick(r, []string{"GET", "OPTIONS", "POST"}),
		Origin: []string{"x://" + host + "z"}, Note: "entry-compiles-probe", Creds: r.Intn(3) == 0}
	if r.Intn(3) == 0 {
		c.Allow = append(c.Allow, c11Pick(r, []string{"https://a.example.com", "x://other", ""}))
	}
	return c
}

// per allow-list: the rest of the configuration and of the installation
func c11GenConfig(r *rand.Rand, base *c11Case, allow []string) {
	if r.Intn(20) == 0 {
		base.Ctor = 1
	}
	if r.Intn(6) == 0 {
		base.Skipper = 1
	}
	if r.Intn(8) == 0 {
		// AllowOriginFunc over concrete origins: instances of the list's own entries
		f := &c11Func{Code: c11Pick(r, []int{500, 403, 418, 400, 401}), ErrTrue: r.Intn(2) == 0}
		for k := 1 + r.Intn(3); k > 0; k-- {
			o := c11Base(r).String()
			if len(allow) > 0 && r.Intn(2) == 0 {
				if x := c11Fill(r, c11Pick(r, allow), false); x != "" {
					o = x
				}
			}
			if r.Intn(4) == 0 {
				f.Err = append(f.Err, o)
			} else {
				f.Allow = append(f.Allow, o)
			}
		}
		base.Func = f
	}
	switch r.Intn(6) {
	case 0:
		base.Methods = c11Pick(r, [][]string{{"GET"}, {"GET", "POST"}, {""}, {"PUT", "DELETE", "PATCH"}, {"get"}})
	case 1, 2:
		base.Methods = nil
	case 3:
		base.Methods = []string{}
	}
	switch r.Intn(5) {
	case 0:
		base.Headers = c11Pick(r, [][]string{{"X-A", "X-B"}, {""}, {"", ""}, {"Content-Type"}})
	}
	switch r.Intn(5) {
	case 0:
		base.Expose = c11Pick(r, [][]string{{"X-E"}, {"X-E", "X-F"}, {""}, {"", ""}})
	}
	switch r.Intn(4) {
	case 0:
		base.MaxAge = c11Pick(r, []int{600, -1, 1, 86400, -600, 2147483647})
	}
	if r.Intn(2) == 0 {
		base.Routes = c11Pick(r, [][]string{{"GET"}, {"GET", "POST"}, {"GET", "OPTIONS"}, {"PUT", "DELETE", "HEAD"}, {}, {"POST"}, {"OPTIONS"}})
	}
	if r.Intn(10) == 0 {
		base.Pre = true
	}
	if r.Intn(5) == 0 {
		c11GenStack(r, base, allow)
	}
	if r.Intn(6) == 0 {
		c11GenSetup(r, base, allow)
	}
}

// a value for middleware.DefaultCORSConfig: mostly the list at hand (so that the origins derived from it aim at the
// variable's list), sometimes `*`, an empty list, an unrelated or a narrowed one; every other field now and then
func c11GenDefaults(r *rand.Rand, allow []string, creds, unsafe bool) *c11Defaults {
	d := &c11Defaults{Creds: creds, Unsafe: unsafe}
	switch r.Intn(12) {
	case 0:
		return &c11Defaults{Pristine: true}
	case 1:
		d.Allow = c11Pick(r, [][]string{nil, {}})
	case 2:
		d.Allow = []string{"*"}
	case 3:
		for k := 1 + r.Intn(2); k > 0; k-- {
			d.Allow = append(d.Allow, c11Entry(r, c11Base(r)))
		}
	case 4:
		for _, a := range allow {
			if x := c11Fill(r, a, false); x != "" && r.Intn(2) == 0 {
				d.Allow = append(d.Allow, x)
			}
		}
		if len(d.Allow) == 0 {
			d.Allow = []string{c11Base(r).String()}
		}
	default:
		d.Allow = append([]string(nil), allow...)
	}
	if r.Intn(4) == 0 {
		d.Creds = !d.Creds
	}
	if d.Creds && r.Intn(4) == 0 {
		d.Unsafe = true
	}
	if r.Intn(6) == 0 {
		d.Skipper = 1
	}
	if r.Intn(10) == 0 {
		f := &c11Func{Code: c11Pick(r, []int{500, 403, 418}), ErrTrue: r.Intn(2) == 0}
		for _, a := range allow {
			if x := c11Fill(r, a, false); x != "" && r.Intn(2) == 0 {
				if r.Intn(5) == 0 {
					f.Err = append(f.Err, x)
				} else {
					f.Allow = append(f.Allow, x)
				}
			}
		}
		d.Func = f
	}
	switch r.Intn(4) {
	case 0:
		d.NoMeth = true // an application that wants the router's Allow value clears the list
	case 1:
		d.Methods = c11Pick(r, [][]string{{"GET"}, {"GET", "POST"}, {"PUT", "DELETE", "PATCH"}, {""}})
	}
	if r.Intn(5) == 0 {
		d.Headers = c11Pick(r, [][]string{{"X-A", "X-B"}, {""}, {"Content-Type"}})
	}
	if r.Intn(5) == 0 {
		d.Expose = c11Pick(r, [][]string{{"X-E"}, {"X-E", "X-F"}, {""}})
	}
	if r.Intn(5) == 0 {
		d.MaxAge = c11Pick(r, []int{600, -1, 1, 86400})
	}
	return d
}

// c11GenSetup: the order of the set-up calls around middleware.DefaultCORSConfig.  Shapes: CORS() under an assigned
// value (the documented way of changing the defaults); CORS() once under the pristine value and AGAIN after the
// assignment (root and group); the reverse (assigned, then reset to pristine); CORSWithConfig with an empty list
// taking the variable's; CORSWithConfig with its own list under a foreign value; earlier constructor calls under other
// values; an assignment after the last constructor call.
func c11GenSetup(r *rand.Rand, base *c11Case, allow []string) {
	mk := func() *c11Defaults { return c11GenDefaults(r, allow, base.Creds, base.Unsafe) }
	other := func() *c11Defaults {
		switch r.Intn(3) {
		case 0:
			return &c11Defaults{Pristine: true}
		case 1:
			return &c11Defaults{Allow: []string{"*"}, Creds: r.Intn(2) == 0}
		}
		var l []string
		for k := 1 + r.Intn(2); k > 0; k-- {
			l = append(l, c11Entry(r, c11Base(r)))
		}
		return c11GenDefaults(r, l, r.Intn(3) == 0, false)
	}
	switch r.Intn(9) {
	case 0, 1:
		base.Ctor, base.Dflt = 1, mk()
	case 2:
		// CORS() on the root under the pristine value, assignment, CORS() again further in
		base.Ctor, base.Dflt = 1, nil
		base.Stack = append([]c11Layer{{Ctor: 1, Dflt: mk(), At: c11Pick(r, []int{0, 1, 1, 2})}}, base.Stack...)
	case 3:
		base.Ctor, base.Dflt = 1, mk()
		base.Stack = append([]c11Layer{{Ctor: 1, Dflt: &c11Defaults{Pristine: true}, At: c11Pick(r, []int{0, 1, 2})}}, base.Stack...)
	case 4:
		// an empty list of its own: the variable's list is taken
		base.Ctor, base.Func, base.Allow, base.Dflt = 0, nil, nil, mk()
	case 5:
		// its own list: of the variable only Skipper and AllowMethods may show
		base.Ctor, base.Dflt = 0, other()
	case 6:
		base.Ctor, base.Dflt = 1, mk()
		for k := 1 + r.Intn(2); k > 0; k-- {
			base.Earlier = append(base.Earlier, c11Earlier{Dflt: other(), Ctor: c11Pick(r, []int{1, 1, 0, 2})})
		}
	case 7:
		base.Late = other()
		if r.Intn(2) == 0 {
			base.Ctor = 1
			if r.Intn(2) == 0 {
				base.Dflt = mk()
			}
		}
	default:
		// two values one after the other, an instance built under each
		base.Ctor, base.Dflt = 1, mk()
		base.Stack = append(base.Stack, c11Layer{Ctor: c11Pick(r, []int{0, 1}), Dflt: other(), At: c11Pick(r, []int{0, 1, 2}), Creds: r.Intn(3) == 0})
	}
	if base.Late == nil && r.Intn(5) == 0 {
		base.Late = other()
	}
	if len(base.Earlier) == 0 && r.Intn(5) == 0 {
		base.Earlier = []c11Earlier{{Dflt: other(), Ctor: c11Pick(r, []int{1, 0})}}
	}
	if r.Intn(6) == 0 {
		// no assignment in between: the earlier call alone must leave nothing behind
		base.Earlier = append(base.Earlier, c11Earlier{Ctor: c11Pick(r, []int{1, 0})})
	}
}

// c11GenStack: further instances on the request's path.  The typical shapes: a permissive instance on the root
// (CORS(), `*`, a wide pattern) with a strict one on the group / route; the same list twice; two unrelated lists;
// a narrowed copy (one entry dropped / literal instances only) inside or outside.
func c11GenStack(r *rand.Rand, base *c11Case, allow []string) {
	strict := func() c11Layer {
		l := c11Layer{Creds: r.Intn(3) == 0}
		switch r.Intn(6) {
		case 0: // same list again
			l.Allow = append([]string(nil), allow...)
		case 1: // narrowed: literal instances of some of the entries
			for _, a := range allow {
				if r.Intn(2) == 0 {
					if x := c11Fill(r, a, false); x != "" {
						l.Allow = append(l.Allow, x)
					}
				}
			}
			if len(l.Allow) == 0 {
				l.Allow = []string{c11Base(r).String()}
			}
		case 2: // one entry dropped
			if len(allow) > 1 {
				k := r.Intn(len(allow))
				l.Allow = append(append([]string(nil), allow[:k]...), allow[k+1:]...)
			} else {
				l.Allow = []string{c11Entry(r, c11Base(r))}
			}
		case 3: // unrelated list
			for k := 1 + r.Intn(2); k > 0; k-- {
				l.Allow = append(l.Allow, c11Entry(r, c11Base(r)))
			}
		case 4: // AllowOriginFunc over instances
			f := &c11Func{Code: c11Pick(r, []int{500, 403, 418}), ErrTrue: r.Intn(2) == 0}
			for _, a := range allow {
				if x := c11Fill(r, a, false); x != "" && r.Intn(2) == 0 {
					if r.Intn(5) == 0 {
						f.Err = append(f.Err, x)
					} else {
						f.Allow = append(f.Allow, x)
					}
				}
			}
			l.Func = f
		default: // blank / empty-looking lists
			l.Allow = c11Pick(r, [][]string{{""}, {"null"}, {"https://"}})
		}
		if r.Intn(8) == 0 {
			l.Skipper = 1
		}
		if r.Intn(6) == 0 {
			l.Expose = []string{"X-Inner"}
		}
		return l
	}
	permissive := func() c11Layer {
		switch r.Intn(4) {
		case 0:
			return c11Layer{Ctor: 1}
		case 1:
			return c11Layer{Allow: []string{"*"}, Creds: r.Intn(2) == 0, Unsafe: r.Intn(2) == 0}
		case 2:
			return c11Layer{Allow: c11Pick(r, [][]string{{"*://*"}, {"http*://*"}, {"https://*"}, nil})}
		}
		return c11Layer{Allow: append([]string(nil), allow...), Creds: r.Intn(3) == 0}
	}
	switch r.Intn(5) {
	case 0, 1:
		// permissive outside (replaces the case's own instance), strict inside
		keep := c11Layer{Allow: base.Allow, Creds: base.Creds, Unsafe: base.Unsafe, Func: base.Func, Skipper: base.Skipper,
			Methods: base.Methods, Headers: base.Headers, Expose: base.Expose, MaxAge: base.MaxAge, Ctor: base.Ctor}
		p := permissive()
		base.Ctor, base.Allow, base.Creds, base.Unsafe, base.Func, base.Skipper = p.Ctor, p.Allow, p.Creds, p.Unsafe, nil, 0
		if r.Intn(2) == 0 {
			keep = strict()
		}
		keep.At = c11Pick(r, []int{0, 1, 1, 2, 2})
		base.Stack = []c11Layer{keep}
	case 2:
		// strict outside (the case's own), permissive inside
		p := permissive()
		p.At = c11Pick(r, []int{0, 1, 2})
		base.Stack = []c11Layer{p}
	default:
		for k := 1 + r.Intn(2); k > 0; k-- {
			l := strict()
			l.At = c11Pick(r, []int{0, 1, 2, 2})
			base.Stack = append(base.Stack, l)
		}
	}
	if r.Intn(4) == 0 {
		l := strict()
		l.At = 2
		base.Stack = append(base.Stack, l)
	}
	if r.Intn(6) == 0 {
		// `mw := CORS...(); e.Use(mw); g.Use(mw)`: one constructor call, the value installed twice on the path
		base.Stack = append(base.Stack, c11Layer{Same: true, At: c11Pick(r, []int{0, 1, 2})})
	}
}

// per request: the parts that vary inside one configuration
// request headers a short-cut might key on: the marks of a "real" preflight, of a same-origin / same-site request, of an
// authenticated or internal one
var c11DecoyPool = [][2]string{
	{"Access-Control-Request-Method", "GET"}, {"Access-Control-Request-Method", "DELETE"}, {"Access-Control-Request-Method", ""},
	{"Sec-Fetch-Site", "same-origin"}, {"Sec-Fetch-Site", "same-site"}, {"Sec-Fetch-Site", "none"}, {"Sec-Fetch-Mode", "no-cors"}, {"Sec-Fetch-Mode", "navigate"},
	{"Sec-Fetch-Dest", "document"}, {"X-Requested-With", "XMLHttpRequest"}, {"Authorization", "Bearer tok"}, {"Cookie", "session=abc"},
	{"Upgrade", "websocket"}, {"Connection", "Upgrade"}, {"Referer", "https://app.example.com/"}, {"X-Forwarded-Host", "app.example.com"},
	{"X-Forwarded-Proto", "https"}, {"X-Forwarded-For", "127.0.0.1"}, {"User-Agent", "curl/8.0"}, {"Content-Type", "text/plain"},
	{"Content-Type", "application/json"}, {"Access-Control-Allow-Origin", "*"}, {"Vary", "Origin"}, {"X-Http-Method-Override", "GET"},
}

func c11GenRequest(r *rand.Rand, c *c11Case) {
	viaVariable := c.Dflt != nil && c.Dflt.Skipper == 1
	for _, l := range c.Stack {
		if l.Dflt != nil && l.Dflt.Skipper == 1 {
			viaVariable = true
		}
	}
	if c.Skipper == 1 || viaVariable || r.Intn(40) == 0 {
		c.Skip = r.Intn(3) == 0
	}
	switch r.Intn(12) {
	case 0:
		c.CtxKind, c.CtxAllow = 1, c11Pick(r, []string{"", "OPTIONS, GET", "X", "OPTIONS, GET, POST"})
	case 1:
		c.CtxKind = 2
	}
	switch r.Intn(6) {
	case 0:
		c.ReqHeaders = c11Pick(r, [][]string{{"X-Req, Content-Type"}, {"", "X"}, {"A", "B"}, {""}, {"x-custom"}})
	}
	if r.Intn(3) == 0 {
		for k := 1 + r.Intn(3); k > 0; k-- {
			c.Decoy = append(c.Decoy, c11Pick(r, c11DecoyPool))
		}
	}
	if r.Intn(8) == 0 {
		en := &c11EntryState{}
		switch r.Intn(3) {
		case 0:
			en.Commit, en.How = c11Pick(r, []int{200, 200, 202, 206, 404}), r.Intn(3)
		case 1:
			en.ACAO = c11Pick(r, []string{"https://preset.invalid", "*", "null"})
			en.ACAC = r.Intn(2) == 0
			if r.Intn(2) == 0 {
				en.Vary = c11Pick(r, [][]string{{"Origin"}, {"Accept-Encoding"}, {"Origin", "Accept-Encoding"}})
			}
		default:
			en.Commit, en.How = c11Pick(r, []int{200, 202}), r.Intn(3)
			en.ACAO = c11Pick(r, []string{"https://preset.invalid", "*"})
			en.Vary = []string{"Origin"}
		}
		if r.Intn(4) == 0 {
			en.Status = c11Pick(r, []int{202, 204, 401, 500})
		}
		c.Entry = en
	}
	if r.Intn(10) == 0 {
		for k := 1 + r.Intn(2); k > 0; k-- {
			o := c11Base(r).String()
			if len(c.Allow) > 0 && r.Intn(2) == 0 {
				if x := c11Fill(r, c11Pick(r, c.Allow), false); x != "" {
					o = x
				}
			}
			c.Before = append(c.Before, o)
		}
	}
}

// c11Fill instantiates the wildcards of an entry; with nearMiss one `?` is filled with zero or two characters
func c11Fill(r *rand.Rand, pat string, nearMiss bool) string {
	var b strings.Builder
	miss := -1
	if nearMiss {
		var qs []int
		for i := 0; i < len(pat); i++ {
			if pat[i] == '?' {
				qs = append(qs, i)
			}
		}
		if len(qs) > 0 {
			miss = qs[r.Intn(len(qs))]
		}
	}
	for i := 0; i < len(pat); i++ {
		switch pat[i] {
		case '*':
			b.WriteString(c11Pick(r, []string{"", "a", "www", "evil", "a.b", "x.y.z", "evil.com", ".", "-", "a*b", "8"}))
		case '?':
			if i == miss {
				b.WriteString(c11Pick(r, []string{"", "", "xy", "s."}))
				continue
			}
			b.WriteString(c11Pick(r, []string{"s", "x", ".", "0", "?", "-"}))
		default:
			b.WriteByte(pat[i])
		}
	}
	return b.String()
}

func c11PadHost(o string, hostLen int) string {
	i := strings.Index(o, "://")
	if i < 0 {
		return o
	}
	host := o[i+3:]
	if len(host) >= hostLen {
		return o
	}
	pad := strings.Repeat("a", hostLen-len(host)-1) + "." // one long label; echo does not check label sizes
	return o[:i+3] + pad + host
}

// c11RegexpReading: what a matcher that forgets to quote a metacharacter would accept instead of the entry's literal
// text: the fragment is replaced by a string its READING AS A REGULAR EXPRESSION matches (a member of the bracket class,
// one or two repetitions for `+` / `{2}`, the group's content, one branch of the alternation - which then is anchored on
// one side only -, a digit for `\d`, the other case behind `(?i)`, any characters for the dots of `a..b`)
func c11RegexpReading(r *rand.Rand, entry string) (string, bool) {
	type alt struct {
		frag string
		repl []string
	}
	alts := []alt{{"[ab]", []string{"a", "b"}}, {"a+b", []string{"ab", "aab", "aaab"}}, {"(x)", []string{"x"}}, {"a{2}", []string{"aa"}},
		{"\\d", []string{"7", "0"}}, {"(?i)a", []string{"A", "a"}}, {"a..b", []string{"axyb", "a--b", "a.xb"}}}
	r.Shuffle(len(alts), func(i, j int) { alts[i], alts[j] = alts[j], alts[i] })
	for _, a := range alts {
		if i := strings.Index(entry, a.frag); i >= 0 {
			return c11Fill(r, entry[:i]+c11Pick(r, a.repl)+entry[i+len(a.frag):], false), true
		}
	}
	if i := strings.Index(entry, "["); i >= 0 {
		// any bracket expression: one member of the class instead of the bracketed text
		if j := strings.Index(entry[i:], "]"); j > 1 {
			class := entry[i+1 : i+j]
			return c11Fill(r, entry[:i]+string(class[r.Intn(len(class))])+entry[i+j+1:], false), true
		}
	}
	if i := strings.Index(entry, "a|b"); i >= 0 {
		// `^<left>a|b<right>$`: everything that starts with <left>a, everything that ends with b<right>
		if r.Intn(2) == 0 {
			return c11Fill(r, entry[:i+1], false) + c11Pick(r, []string{".evil.com", "", "x", ".example.com:8080"}), true
		}
		return c11Pick(r, []string{"https://evil.", "https://", "x", "http://evil.com/"}) + c11Fill(r, entry[i+2:], false), true
	}
	return "", false
}

// origins derived from one entry: instances and look-alikes
func c11Derive(r *rand.Rand, entry string) (string, string) {
	if r.Intn(3) == 0 {
		if o, ok := c11RegexpReading(r, entry); ok {
			return o, "regexp-reading-of-a-metacharacter"
		}
	}
	inst := c11Fill(r, entry, false)
	if strings.Contains(entry, "?") && r.Intn(4) == 0 {
		return c11Fill(r, entry, true), "question-mark-zero-or-two"
	}
	if inst == "" {
		return c11Base(r).String(), "unrelated"
	}
	host := ""
	if i := strings.Index(inst, "://"); i >= 0 {
		host = inst[i+3:]
	}
	scheme := strings.TrimSuffix(inst, "://"+host)
	switch r.Intn(24) {
	case 21, 22: // other spellings of the same origin that a normalising comparison would accept
		switch r.Intn(12) {
		case 0:
			if scheme == "https" {
				return inst + ":443", "noncanonical-spelling"
			}
			return inst + ":80", "noncanonical-spelling"
		case 1:
			return inst + "/", "noncanonical-spelling"
		case 2:
			return inst + ".", "noncanonical-spelling"
		case 3:
			return c11Pick(r, []string{" ", "\t"}) + inst, "noncanonical-spelling"
		case 4:
			return inst + c11Pick(r, []string{" ", "\t", "\r"}), "noncanonical-spelling"
		case 5:
			return scheme + "://" + strings.ToUpper(host), "noncanonical-spelling"
		case 6:
			return strings.ToUpper(scheme) + "://" + host, "noncanonical-spelling"
		case 7:
			return inst + ", " + inst, "noncanonical-spelling"
		case 8:
			if len(host) > 0 {
				i := r.Intn(len(host))
				return scheme + "://" + host[:i] + fmt.Sprintf("%%%02x", host[i]) + host[i+1:], "noncanonical-spelling"
			}
		case 9:
			return inst + c11Pick(r, []string{"#", "?", "/.", "//", ":"}), "noncanonical-spelling"
		case 10:
			return scheme + "://" + host + ":0" + c11Pick(r, []string{"80", "443", "8080"}), "noncanonical-spelling"
		default:
			return scheme + ":" + host, "noncanonical-spelling"
		}
	case 20: // the host's labels in reverse order (a matcher that walks one side the wrong way round accepts these)
		ls := strings.Split(host, ".")
		if len(ls) > 1 {
			for i, j := 0, len(ls)-1; i < j; i, j = i+1, j-1 {
				ls[i], ls[j] = ls[j], ls[i]
			}
			if r.Intn(2) == 0 {
				ls[0] = c11Pick(r, []string{"evil", "66", "attacker"})
			}
			return scheme + "://" + strings.Join(ls, "."), "labels-reversed"
		}
	case 19: // one byte replaced by another one
		if len(inst) > 0 {
			i := r.Intn(len(inst))
			if r.Intn(2) == 0 {
				// prefer a byte that is not plain ASCII, if there is one
				for k := range inst {
					if inst[k] >= 0x80 {
						i = k
						break
					}
				}
			}
			rc := c11Pick(r, []string{"x", ".", "a", "-", "0", "X"})
			if string(inst[i]) == rc {
				rc = "y"
			}
			return inst[:i] + rc + inst[i+1:], "char-replaced"
		}
	case 0, 1, 2:
		return inst, "instance"
	case 3:
		return inst + c11Pick(r, []string{".evil.com", "x", ".", ":80", "/", "evil"}), "suffix-extension"
	case 4:
		return scheme + "://" + c11Pick(r, []string{"evil", "evil.", "x", "."}) + host, "prefix-extension"
	case 5: // extra / replaced left-most labels
		ls := strings.Split(host, ".")
		if len(ls) > 1 {
			k := 1 + r.Intn(len(ls)-1)
			return scheme + "://" + c11Pick(r, []string{"evil.b", "evil", "a.evil", "x.y.z"}) + "." + strings.Join(ls[k:], "."), "left-labels-replaced"
		}
	case 6: // a dot replaced by another character
		if i := strings.Index(host, "."); i >= 0 {
			ds := []int{}
			for k := 0; k < len(host); k++ {
				if host[k] == '.' {
					ds = append(ds, k)
				}
			}
			k := ds[r.Intn(len(ds))]
			return scheme + "://" + host[:k] + c11Pick(r, []string{"x", "-", "", "..", "%2e"}) + host[k+1:], "dot-replaced"
		}
	case 7:
		return c11Pick(r, []string{"http", "https", "ftp", scheme + "s", "x" + scheme, strings.ToUpper(scheme)}) + "://" + host, "other-scheme"
	case 8:
		return strings.Replace(inst, "://", c11Pick(r, []string{":/", "//", ":", "", ":///", "://:"}), 1), "separator-mangled"
	case 9:
		n := c11Pick(r, []int{249, 252, 253, 254, 255, 300})
		if r.Intn(2) == 0 && !strings.Contains(host, ":") {
			return c11PadHost(inst, n) + c11Pick(r, []string{":8443", ":80", ":1"}), "long-host-with-port"
		}
		return c11PadHost(inst, n), "long-host"
	case 10: // total length around 261
		n := c11Pick(r, []int{260, 261, 262}) - len(scheme) - 3
		return c11PadHost(inst, n), "long-origin"
	case 11:
		return entry, "entry-text-itself"
	case 12:
		return strings.ToUpper(inst[:1]) + inst[1:], "case-changed"
	case 13:
		ls := strings.Split(host, ".")
		i := r.Intn(len(ls))
		ls = append(ls[:i], append([]string{c11Pick(r, []string{"evil", "", "b", "*"})}, ls[i:]...)...)
		return scheme + "://" + strings.Join(ls, "."), "label-inserted"
	case 14:
		ls := strings.Split(host, ".")
		if len(ls) > 1 {
			i := r.Intn(len(ls))
			ls = append(ls[:i], ls[i+1:]...)
			return scheme + "://" + strings.Join(ls, "."), "label-dropped"
		}
	case 15:
		if len(inst) > 1 {
			i := r.Intn(len(inst))
			return inst[:i] + inst[i+1:], "char-dropped"
		}
	case 16:
		i := r.Intn(len(inst) + 1)
		return inst[:i] + c11Pick(r, []string{"x", ".", ":", "/", "*", "?", "a"}) + inst[i:], "char-inserted"
	case 17:
		return scheme + "://" + host + c11Pick(r, []string{":8080", ":80", ":443"}), "port-added"
	case 18:
		return scheme + "://" + "user@" + host, "userinfo"
	}
	return inst, "instance"
}

func c11Gen(r *rand.Rand, tier string) []any {
	nlists, per := 500, 60
	if tier == "thorough" {
		nlists, per = 6000, 70
	}
	var out []any
	for i := 0; i < nlists; i++ {
		base := c11Base(r)
		var allow []string
		n := 1 + r.Intn(5)
		if r.Intn(25) == 0 {
			n = 0
		}
		for k := 0; k < n; k++ {
			b := base
			if r.Intn(3) == 0 {
				b = c11Base(r)
			}
			allow = append(allow, c11Entry(r, b))
		}
		if r.Intn(40) == 0 {
			// lists that hold nothing but blank entries (an unset variable split at commas, an empty yaml item)
			allow = c11Pick(r, [][]string{{""}, {"", ""}, {"", "", ""}})
		}
		creds := r.Intn(3) == 0
		unsafe := creds && r.Intn(3) == 0 || r.Intn(8) == 0
		cfgBase := &c11Case{Allow: allow, Creds: creds, Unsafe: unsafe}
		c11GenConfig(r, cfgBase, allow)
		// what the origins of this list are derived from: its entries, and the origins its AllowOriginFunc knows
		derive := append([]string(nil), allow...)
		fromDflt := func(d *c11Defaults) {
			if d != nil && !d.Pristine {
				derive = append(derive, d.Allow...)
				if d.Func != nil {
					derive = append(append(derive, d.Func.Allow...), d.Func.Err...)
				}
			}
		}
		for _, l := range cfgBase.Stack {
			derive = append(derive, l.Allow...)
			if l.Func != nil {
				derive = append(append(derive, l.Func.Allow...), l.Func.Err...)
			}
			fromDflt(l.Dflt)
		}
		fromDflt(cfgBase.Dflt)
		fromDflt(cfgBase.Late)
		for _, e := range cfgBase.Earlier {
			fromDflt(e.Dflt)
		}
		derive = append(derive, cfgBase.Allow...)
		if cfgBase.Func != nil {
			derive = append(append(derive, cfgBase.Func.Allow...), cfgBase.Func.Err...)
			if r.Intn(2) == 0 {
				derive = append(append([]string(nil), cfgBase.Func.Allow...), cfgBase.Func.Err...)
			}
		}
		for k := 0; k < per; k++ {
			cc := *cfgBase
			c := &cc
			c11GenRequest(r, c)
			c.Method = c11Pick(r, []string{"GET", "GET", "GET", "OPTIONS", "OPTIONS", "POST", "PUT", "HEAD"})
			var o string
			if len(derive) > 0 && r.Intn(10) != 0 {
				o, c.Note = c11Derive(r, c11Pick(r, derive))
			} else {
				o, c.Note = c11Base(r).String(), "unrelated"
			}
			switch r.Intn(30) {
			case 0:
				c.Origin = nil
				c.Note = "no-origin-header"
			case 1:
				c.Origin = []string{o, c11Base(r).String()}
			case 2:
				c.Origin = []string{""}
				c.Note = "empty-origin"
			default:
				c.Origin = []string{o}
			}
			if r.Intn(12) == 0 {
				// the request's Host equals the Origin's host: "same origin" as a short-cut would see it
				if i := strings.Index(o, "://"); i >= 0 {
					c.Decoy = append(c.Decoy, [2]string{"Host", o[i+3:]})
				}
			}
			if len(c.Before) > 0 && r.Intn(2) == 0 {
				// earlier requests through the same instance that resemble this one
				c.Before = nil
				for k := 1 + r.Intn(2); k > 0; k-- {
					switch r.Intn(4) {
					case 0:
						c.Before = append(c.Before, strings.ToLower(o))
					case 1:
						c.Before = append(c.Before, o)
					case 2:
						if i := strings.Index(o, "://"); i >= 0 {
							c.Before = append(c.Before, o[:i+3]+"evil."+o[i+3:])
						}
					default:
						if len(derive) > 0 {
							if x := c11Fill(r, c11Pick(r, derive), false); x != "" {
								c.Before = append(c.Before, x)
							}
						}
					}
				}
			}
			out = append(out, c)
		}
	}
	for i := 0; i < nlists; i++ {
		out = append(out, c11GenProbe(r))
	}
	return out
}

func c11Shrink(ci any) []any {
	c := ci.(*c11Case)
	var out []any
	cp := func() *c11Case {
		d := *c
		d.Allow = append([]string(nil), c.Allow...)
		d.Origin = append([]string(nil), c.Origin...)
		d.Note = ""
		return &d
	}
	if len(c.Allow) > 1 {
		for i := range c.Allow {
			d := cp()
			d.Allow = append(d.Allow[:i], d.Allow[i+1:]...)
			out = append(out, d)
		}
	}
	if len(c.Origin) > 1 {
		d := cp()
		d.Origin = d.Origin[:1]
		out = append(out, d)
	}
	if c.Creds {
		d := cp()
		d.Creds = false
		out = append(out, d)
	}
	if c.Unsafe {
		d := cp()
		d.Unsafe = false
		out = append(out, d)
	}
	if c.Method != "GET" && c.Method != "OPTIONS" {
		d := cp()
		d.Method = "GET"
		out = append(out, d)
	}
	simpler := func(f func(d *c11Case)) {
		d := cp()
		f(d)
		out = append(out, d)
	}
	if c.Ctor != 0 {
		simpler(func(d *c11Case) { d.Ctor = 0 })
		// what CORS() ignores anyway
		if c.Allow != nil || c.Creds || c.Unsafe || c.Func != nil || c.Skipper != 0 || c.Methods != nil || c.Headers != nil || c.Expose != nil || c.MaxAge != 0 {
			simpler(func(d *c11Case) {
				d.Allow, d.Creds, d.Unsafe, d.Func, d.Skipper = nil, false, false, nil, 0
				d.Methods, d.Headers, d.Expose, d.MaxAge = nil, nil, nil, 0
			})
		}
	}
	if c.Skipper != 0 {
		simpler(func(d *c11Case) { d.Skipper = 0 })
	}
	if c.Skip {
		simpler(func(d *c11Case) { d.Skip = false })
	}
	if c.Func != nil {
		simpler(func(d *c11Case) { d.Func = nil })
		if c.Func.ErrTrue {
			simpler(func(d *c11Case) {
				f := *c.Func
				f.ErrTrue = false
				d.Func = &f
			})
		}
		for i := range c.Func.Allow {
			simpler(func(d *c11Case) {
				f := *c.Func
				f.Allow = append(append([]string(nil), c.Func.Allow[:i]...), c.Func.Allow[i+1:]...)
				d.Func = &f
			})
		}
		for i := range c.Func.Err {
			simpler(func(d *c11Case) {
				f := *c.Func
				f.Err = append(append([]string(nil), c.Func.Err[:i]...), c.Func.Err[i+1:]...)
				d.Func = &f
			})
		}
	}
	if len(c.Methods) > 0 {
		simpler(func(d *c11Case) { d.Methods = nil })
	}
	if len(c.Headers) > 0 {
		simpler(func(d *c11Case) { d.Headers = nil })
	}
	if len(c.Expose) > 0 {
		simpler(func(d *c11Case) { d.Expose = nil })
	}
	if c.MaxAge != 0 {
		simpler(func(d *c11Case) { d.MaxAge = 0 })
	}
	if c.Routes != nil {
		simpler(func(d *c11Case) { d.Routes = nil })
	}
	if c.CtxKind != 0 {
		simpler(func(d *c11Case) { d.CtxKind, d.CtxAllow = 0, "" })
	}
	if len(c.ReqHeaders) > 0 {
		simpler(func(d *c11Case) { d.ReqHeaders = nil })
	}
	if c.Pre {
		simpler(func(d *c11Case) { d.Pre = false })
	}
	if len(c.Before) > 0 {
		simpler(func(d *c11Case) { d.Before = nil })
	}
	if c.Entry != nil {
		simpler(func(d *c11Case) { d.Entry = nil })
		simpler(func(d *c11Case) { d.Entry = &c11EntryState{Commit: c.Entry.Commit} })
		simpler(func(d *c11Case) { d.Entry = &c11EntryState{ACAO: c.Entry.ACAO, ACAC: c.Entry.ACAC, Vary: c.Entry.Vary} })
	}
	// the set-up script
	dfltSimpler := func(x *c11Defaults, put func(d *c11Case, y *c11Defaults)) {
		if x == nil {
			return
		}
		simpler(func(d *c11Case) { put(d, nil) })
		if x.Pristine {
			return
		}
		simpler(func(d *c11Case) { put(d, &c11Defaults{Pristine: true}) })
		if x.Creds || x.Unsafe || x.Skipper != 0 || x.Func != nil || len(x.Methods) > 0 || x.NoMeth || len(x.Headers) > 0 || len(x.Expose) > 0 || x.MaxAge != 0 {
			simpler(func(d *c11Case) { put(d, &c11Defaults{Allow: x.Allow}) })
			simpler(func(d *c11Case) { put(d, &c11Defaults{Allow: x.Allow, Creds: x.Creds, Unsafe: x.Unsafe}) })
			simpler(func(d *c11Case) { y := *x; y.Func = nil; put(d, &y) })
		}
		if len(x.Allow) > 1 {
			for k := range x.Allow {
				k := k
				simpler(func(d *c11Case) {
					y := *x
					y.Allow = append(append([]string(nil), x.Allow[:k]...), x.Allow[k+1:]...)
					put(d, &y)
				})
			}
		}
		if len(x.Allow) == 1 {
			a := x.Allow[0]
			for i := len(a) - 1; i >= 0; i-- {
				i := i
				simpler(func(d *c11Case) { y := *x; y.Allow = []string{a[:i] + a[i+1:]}; put(d, &y) })
			}
		}
	}
	dfltSimpler(c.Dflt, func(d *c11Case, y *c11Defaults) { d.Dflt = y })
	dfltSimpler(c.Late, func(d *c11Case, y *c11Defaults) { d.Late = y })
	if len(c.Earlier) > 0 {
		simpler(func(d *c11Case) { d.Earlier = nil })
	}
	for i, e := range c.Earlier {
		i, e := i, e
		if len(c.Earlier) > 1 {
			simpler(func(d *c11Case) { d.Earlier = append(append([]c11Earlier(nil), c.Earlier[:i]...), c.Earlier[i+1:]...) })
		}
		dfltSimpler(e.Dflt, func(d *c11Case, y *c11Defaults) {
			d.Earlier = append([]c11Earlier(nil), c.Earlier...)
			d.Earlier[i].Dflt = y
		})
	}
	for i, l := range c.Stack {
		i := i
		dfltSimpler(l.Dflt, func(d *c11Case, y *c11Defaults) {
			d.Stack = append([]c11Layer(nil), c.Stack...)
			d.Stack[i].Dflt = y
		})
	}
	for i := range c.Decoy {
		i := i
		simpler(func(d *c11Case) { d.Decoy = append(append([][2]string(nil), c.Decoy[:i]...), c.Decoy[i+1:]...) })
	}
	cpStack := func(d *c11Case) {
		d.Stack = append([]c11Layer(nil), c.Stack...)
		for i := range d.Stack {
			d.Stack[i].Allow = append([]string(nil), c.Stack[i].Allow...)
		}
	}
	for i, l := range c.Stack {
		i, l := i, l
		simpler(func(d *c11Case) { d.Stack = append(append([]c11Layer(nil), c.Stack[:i]...), c.Stack[i+1:]...) })
		// the inner instance alone, in place of the case's own one
		simpler(func(d *c11Case) {
			d.Stack = nil
			d.Ctor, d.Allow, d.Creds, d.Unsafe, d.Func, d.Skipper = l.Ctor, l.Allow, l.Creds, l.Unsafe, l.Func, l.Skipper
			d.Methods, d.Headers, d.Expose, d.MaxAge = l.Methods, l.Headers, l.Expose, l.MaxAge
			if l.Dflt != nil {
				d.Dflt = l.Dflt
			}
		})
		if l.At != 0 {
			simpler(func(d *c11Case) { cpStack(d); d.Stack[i].At = 0 })
		}
		if l.Creds || l.Unsafe || l.Skipper != 0 || l.Expose != nil || l.Methods != nil || l.Headers != nil || l.MaxAge != 0 {
			simpler(func(d *c11Case) {
				cpStack(d)
				x := &d.Stack[i]
				x.Creds, x.Unsafe, x.Skipper, x.Expose, x.Methods, x.Headers, x.MaxAge = false, false, 0, nil, nil, nil, 0
			})
		}
		if l.Func != nil {
			simpler(func(d *c11Case) { cpStack(d); d.Stack[i].Func = nil })
		}
		if len(l.Allow) > 1 {
			for k := range l.Allow {
				k := k
				simpler(func(d *c11Case) {
					cpStack(d)
					d.Stack[i].Allow = append(append([]string(nil), l.Allow[:k]...), l.Allow[k+1:]...)
				})
			}
		}
		for k, a := range l.Allow {
			for x := len(a) - 1; x >= 0; x-- {
				k, x, a := k, x, a
				simpler(func(d *c11Case) { cpStack(d); d.Stack[i].Allow[k] = a[:x] + a[x+1:] })
			}
		}
	}
	// drop one character of the origin / of an entry (keeps "://")
	if len(c.Origin) > 0 {
		o := c.Origin[0]
		idx := []int{}
		for i := range o {
			idx = append(idx, i)
		}
		sort.Sort(sort.Reverse(sort.IntSlice(idx)))
		for _, i := range idx {
			d := cp()
			d.Origin[0] = o[:i] + o[i+1:]
			out = append(out, d)
		}
	}
	for k, a := range c.Allow {
		for i := len(a) - 1; i >= 0; i-- {
			d := cp()
			d.Allow[k] = a[:i] + a[i+1:]
			out = append(out, d)
		}
	}
	// a candidate that IS the case would be "progress" for ever
	self := *c
	self.Note = ""
	same := string(caseJSON(&self))
	kept := out[:0]
	for _, d := range out {
		if string(caseJSON(d)) != same {
			kept = append(kept, d)
		}
	}
	return kept
}

func c11Known(ci any, res Result, modelObs string) string { return "" }

// c11Mutate: neighbours of a case on which model and code disagree that may turn the disagreement into a failure of the
// property itself: a simple request instead of a preflight, credentials on, the same request once or twice before
func c11Mutate(r *rand.Rand, ci any) []any {
	c := ci.(*c11Case)
	var out []any
	v := func(f func(d *c11Case)) {
		d := *c
		d.Note = ""
		f(&d)
		out = append(out, &d)
	}
	v(func(d *c11Case) { d.Method = "GET" })
	v(func(d *c11Case) { d.Method, d.Creds = "GET", true })
	// a configuration that allows (next to) nothing: whatever lets this request through is then a violation
	strict := func(d *c11Case) {
		d.Ctor, d.Func, d.Stack, d.Skipper, d.Unsafe = 0, nil, nil, 0, false
		d.Allow = []string{"https://only.allowed.example"}
		if len(d.Origin) == 0 || !c11ValidOrigin(d.Origin[0]) {
			d.Origin = []string{"https://evil.example"}
		}
	}
	v(func(d *c11Case) { strict(d); d.Method = "GET" })
	v(func(d *c11Case) { strict(d); d.Method, d.Creds = "POST", true })
	v(func(d *c11Case) {
		strict(d)
		d.Method = "GET"
		for i := range d.Decoy {
			if d.Decoy[i][0] == "Host" {
				o := d.Origin[0]
				d.Decoy = append([][2]string(nil), d.Decoy...)
				d.Decoy[i][1] = o[strings.Index(o, "://")+3:]
			}
		}
	})
	// the same strictness by way of the package variable: CORS() under an assigned value; CORS() under the pristine value
	// and again after the assignment; an assignment after the constructor call, which must not reach the instance
	only := &c11Defaults{Allow: []string{"https://only.allowed.example"}}
	viaDflt := func(d *c11Case) {
		strict(d)
		d.Method, d.Ctor, d.Allow, d.Creds, d.Dflt, d.Earlier, d.Late = "GET", 1, nil, false, only, nil, nil
	}
	v(viaDflt)
	v(func(d *c11Case) { viaDflt(d); d.Dflt, d.Stack = nil, []c11Layer{{Ctor: 1, Dflt: only, At: 1}} })
	v(func(d *c11Case) { viaDflt(d); d.Late = &c11Defaults{Pristine: true} })
	v(func(d *c11Case) {
		viaDflt(d)
		d.Earlier = []c11Earlier{{Dflt: &c11Defaults{Allow: []string{"*"}, Creds: true}, Ctor: 1}}
	})
	v(func(d *c11Case) { strict(d); d.Method, d.Late = "GET", &c11Defaults{Allow: []string{"*"}, Creds: true} })
	v(func(d *c11Case) {
		strict(d)
		d.Method, d.Allow, d.Dflt = "GET", nil, &c11Defaults{Pristine: true}
		d.Earlier = []c11Earlier{{Dflt: only, Ctor: 1}}
	})
	if len(c.Origin) > 0 {
		o := c.Origin[0]
		v(func(d *c11Case) { d.Method, d.Before = "GET", []string{o} })
		v(func(d *c11Case) { d.Method, d.Before = "GET", []string{o, o} })
		for _, a := range c.Allow {
			if x := c11Fill(r, a, false); x != "" {
				v(func(d *c11Case) { d.Method, d.Before = "GET", []string{x} })
			}
		}
	}
	return out
}

func init() {
	register(&Prop{
		ID:             "C11",
		Rule:           "allow-lists of 0-5 entries built from base origins: literals, `*`, sub-domain wildcard, `*` label in the middle / at the end, partial-label `*`/`?`, several wildcards, wildcard in scheme / port, regexp metacharacters, degenerate entries, lists of nothing but blank entries, entries with bytes that are not UTF-8 (do not compile); per list ~60 requests whose Origin is derived from one of ITS entries (or of the origins its AllowOriginFunc knows): instances (wildcards filled with labels, dotted runs, empty) and look-alikes (`?` filled with zero or two characters, suffix / prefix extension, left labels replaced, dot replaced, label inserted / dropped, other scheme, mangled `://`, hosts of 252-255 and origins of 260-262 bytes, the entry text itself, case change, char dropped / inserted / replaced, port, userinfo) x GET/POST/PUT/HEAD/OPTIONS x credentials / unsafe-wildcard flags (all four combinations). Round 4, per list: CORS() vs CORSWithConfig, custom Skipper (skips requests carrying a marker header), AllowOriginFunc as a table (allow / refuse / error with (false|true, err)), AllowMethods / AllowHeaders / ExposeHeaders (nil, empty, blank items) / MaxAge (0, positive, negative), routes with or without an OPTIONS handler (router-provided Allow in the context), e.Use or e.Pre; per request: skip marker, a middleware in front that replaces the context's Allow value by a string / an empty string / a non-string, Access-Control-Request-Headers, 0-2 earlier requests through the same instance (unrelated or resembling this one); plus one probe per list deciding whether an entry of valid / truncated / overlong / surrogate / out-of-range UTF-8 compiled. Round 5: for 1/5 of the lists 1-3 further CORS instances on the path of the same request (e.Use, the route's group, the route; twice on one route): permissive outside (CORS(), `*`, wide patterns) with a strict one inside, strict outside with a permissive one inside, the same list twice, narrowed copies, unrelated lists, AllowOriginFunc instances, per-instance Skipper; the context's Allow value is recorded in front of every instance; plus the `labels-reversed` look-alike. Round 6: 1/3 of the requests carry 1-3 decoy headers a short-cut might key on (Access-Control-Request-Method present / empty, Sec-Fetch-Site same-origin, Sec-Fetch-Mode, X-Requested-With, Authorization, Cookie, Upgrade, X-Forwarded-*, request-side Access-Control-Allow-Origin / Vary, ...), 1/12 a Host equal to the Origin's host; the whole request head (method, every header line) is the model's input; look-alikes `noncanonical-spelling` (default port :443 / :80, trailing slash or dot, blanks around, upper-case host or scheme, comma-joined, a percent-encoded host byte, `#` / `?` / `:` appended, leading-zero port, `scheme:host`) and `long-host-with-port` (host of 249-300 bytes plus a port). Round 7: for 1/8 of the requests a middleware in front of the first instance has prepared the shared response: CORS-looking headers already present (Access-Control-Allow-Origin `*` / a foreign origin / null, -Credentials, Vary), the Status field preset, or the response already STARTED (WriteHeader / Write / WriteHeader+Flush with 200 / 202 / 206 / 404) before next is called; the state is an input of the model, and once the response is started the observation is what went over the wire (recorder snapshot). Round 8: for 1/6 of the lists the set-up is a SCRIPT around the package variable middleware.DefaultCORSConfig, which both constructors read when they are called: the variable assigned (the list at hand, `*`, an empty / unrelated / narrowed list, credentials, unsafe flag, a marker-header Skipper, an AllowOriginFunc, AllowMethods cleared or replaced, headers, max-age; or reset to the shipped value) before the CORS() / CORSWithConfig call of an instance on the path, CORS() on the root under the shipped value and AGAIN after an assignment for the group / route, the reverse, CORSWithConfig with an empty list (takes the variable's) or with its own list under a foreign value, earlier constructor calls (CORS() / CORSWithConfig(CORSConfig{}), with or without an assignment in front) whose instance is not on the path, an assignment after the last constructor call; every case that assigns anything starts with one CORS() call under the shipped value, runs alone (process-wide lock) and restores the shipped value; the whole script is the model's input. Oracle decides Allowed with its own glob matcher (no regexp), AllowOriginFunc cases by its table and call log. With several instances the oracle judges each one on its own: the handler ran => every unskipped instance allows the Origin; a grant in the response => some instance that looked at the request allows it. Non-trivial = (the allow-list has a wildcard pattern or AllowOriginFunc is set) and the request has an Origin; distinct = distinct model op lines",
		New:            func() any { return &c11Case{} },
		Gen:            c11Gen,
		Run:            c11Run,
		Shrink:         c11Shrink,
		Known:          c11Known,
		Mutate:         c11Mutate,
		Tolerable:      c11Tolerable,
		Correspondence: "C11.serveEntry / C11.serveStack over C11.serveFull on the instances C11.setup builds from the set-up script (lean/EchoModel/C11.lean: glob, validUtf8, matchScheme, matchSubdomain, allowLoop, decideOrigin, preflight / simple-request headers, Call.build / withConfig / corsDefault over the value of DefaultCORSConfig) vs middleware.CORS / CORSWithConfig + middleware.DefaultCORSConfig + matchSubdomain + regexp",
	})
}
