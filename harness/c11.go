package main

// C11 — CORS grants access only to origins the configuration allows.
// Real code: middleware.CORSWithConfig over e.ServeHTTP with an instrumented handler.
// Model: lean/EchoModel/C11.lean (serve).

import (
	"fmt"
	"math/rand"
	"net/http"
	"net/http/httptest"
	"sort"
	"strings"

	"github.com/labstack/echo/v4"
	"github.com/labstack/echo/v4/middleware"
)

type c11Case struct {
	Allow  []string `json:"allow"`  // AllowOrigins
	Creds  bool     `json:"creds"`  // AllowCredentials
	Unsafe bool     `json:"unsafe"` // UnsafeWildcardOriginWithAllowCredentials
	Method string   `json:"method"`
	Origin []string `json:"origin"` // Origin header values (usually one)
	Note   string   `json:"note,omitempty"`
}

// c11Glob: `*` = any run of bytes (also empty), `?` = exactly one byte, every other byte itself, whole
// string.  Written directly (two-pointer scan with backtracking to the last star), independent of regexp.
func c11Glob(p, s string) bool {
	pi, si := 0, 0
	star, mark := -1, 0
	for si < len(s) {
		switch {
		case pi < len(p) && p[pi] == '*':
			star, mark = pi, si
			pi++
		case pi < len(p) && (p[pi] == '?' || p[pi] == s[si]):
			pi++
			si++
		case star >= 0:
			mark++
			si = mark
			pi = star + 1
		default:
			return false
		}
	}
	for pi < len(p) && p[pi] == '*' {
		pi++
	}
	return pi == len(p)
}

// syntactically valid origin in the sense of the property: printable ASCII, scheme "://" host[:port],
// one "://", scheme without ':' and host part without '/', host[:port] at most 253 bytes
func c11ValidOrigin(o string) bool {
	for i := 0; i < len(o); i++ {
		if o[i] <= 0x20 || o[i] >= 0x7f {
			return false
		}
	}
	i := strings.Index(o, "://")
	if i <= 0 {
		return false
	}
	scheme, host := o[:i], o[i+3:]
	if strings.ContainsAny(scheme, ":/") || host == "" || strings.Contains(host, "/") || len(host) > 253 {
		return false
	}
	return true
}

// an allow-list entry is origin shaped when its first colon (if any) is the one of "://"
func c11EntryShaped(p string) bool {
	i := strings.Index(p, ":")
	return i < 0 || strings.HasPrefix(p[i:], "://")
}

func c11Allowed(allow []string, origin string) bool {
	if len(allow) == 0 {
		return true // default AllowOrigins is ["*"]
	}
	for _, a := range allow {
		if a == "*" || a == origin || c11Glob(a, origin) {
			return true
		}
	}
	return false
}

func c11Run(ci any) (res Result) {
	c := ci.(*c11Case)
	ran := false
	e := echo.New()
	e.Use(middleware.CORSWithConfig(middleware.CORSConfig{
		AllowOrigins:                             c.Allow,
		AllowCredentials:                         c.Creds,
		UnsafeWildcardOriginWithAllowCredentials: c.Unsafe,
	}))
	e.Any("/", func(ctx echo.Context) error {
		ran = true
		return ctx.NoContent(http.StatusOK)
	})
	req := httptest.NewRequest(c.Method, "/", nil)
	for _, o := range c.Origin {
		req.Header["Origin"] = append(req.Header["Origin"], o)
	}
	rec := httptest.NewRecorder()
	preflight := c.Method == http.MethodOptions

	ops := []string{wBool(c.Creds), wBool(c.Unsafe), wStrs(c.Allow), wBool(preflight), wStrs(c.Origin)}
	res.Ops = strings.Join(ops, " ")

	panicked := func() (p bool) {
		defer func() {
			if r := recover(); r != nil {
				p = true
				res.Oracle = fmt.Sprintf("CORS panicked: %v", r)
			}
		}()
		e.ServeHTTP(rec, req)
		return false
	}()
	if panicked {
		res.Obs = "panic"
		return res
	}
	h := rec.Header()
	acao, hasACAO := h["Access-Control-Allow-Origin"]
	acac := h.Get("Access-Control-Allow-Credentials")
	vary := h.Values("Vary")
	obs := []string{wInt(rec.Code), wBool(ran)}
	if hasACAO && len(acao) > 0 {
		obs = append(obs, "1", wStr(acao[0]))
	} else {
		obs = append(obs, "0")
	}
	obs = append(obs, wBool(acac != ""), wStrs(vary))
	res.Obs = strings.Join(obs, " ")

	// ---- model-free oracle: the property itself
	fail := func(s string) {
		if res.Oracle == "" {
			res.Oracle = s
		}
	}
	origin := ""
	if len(c.Origin) > 0 {
		origin = c.Origin[0]
	}
	valid := c11ValidOrigin(origin)
	shaped := true
	for _, a := range c.Allow {
		if !c11EntryShaped(a) {
			shaped = false
		}
	}
	allowed := c11Allowed(c.Allow, origin)
	if len(acao) > 1 {
		fail(fmt.Sprintf("%d Access-Control-Allow-Origin values", len(acao)))
	}
	if hasACAO && len(acao) > 0 {
		v := acao[0]
		if v != "*" && v != origin {
			fail(fmt.Sprintf("Access-Control-Allow-Origin %q is neither * nor the request's Origin %q", v, origin))
		}
		if valid && shaped && !allowed {
			fail(fmt.Sprintf("Access-Control-Allow-Origin %q emitted for origin %q, which no entry of %q allows (equality, *, or */? pattern over the whole origin)", v, origin, c.Allow))
		}
	}
	if acac != "" {
		if !c.Creds {
			fail("Access-Control-Allow-Credentials sent although AllowCredentials is off")
		}
		if !hasACAO {
			fail("Access-Control-Allow-Credentials sent without an allowed origin")
		}
		if acac != "true" {
			fail(fmt.Sprintf("Access-Control-Allow-Credentials: %q", acac))
		}
	}
	if preflight {
		if rec.Code != http.StatusNoContent || ran {
			fail(fmt.Sprintf("OPTIONS preflight answered %d, handler ran=%v (expected 204 without the handler)", rec.Code, ran))
		}
	} else if origin != "" && valid && shaped && !allowed {
		if ran {
			fail(fmt.Sprintf("non-preflight %s from disallowed origin %q reached the handler (status %d)", c.Method, origin, rec.Code))
		}
	}

	// ---- tags
	switch {
	case origin == "":
		res.Tags = append(res.Tags, "no-origin")
	case hasACAO && acao[0] == "*":
		res.Tags = append(res.Tags, "acao-star")
	case hasACAO:
		res.Tags = append(res.Tags, "acao-echo")
	default:
		res.Tags = append(res.Tags, "denied")
	}
	if preflight {
		res.Tags = append(res.Tags, "preflight")
	}
	if !valid && origin != "" {
		res.Tags = append(res.Tags, "origin-not-valid")
	}
	if c.Note != "" {
		res.Tags = append(res.Tags, "gen:"+c.Note)
		if hasACAO {
			res.Tags = append(res.Tags, "granted:"+c.Note)
		}
	}
	if acac != "" {
		res.Tags = append(res.Tags, "acac")
	}
	hasPattern := false
	for _, a := range c.Allow {
		if a != "*" && strings.ContainsAny(a, "*?") {
			hasPattern = true
		}
	}
	res.Nontrivial = hasPattern && origin != ""
	return res
}

// ---------- generator ----------

func c11Pick[T any](r *rand.Rand, l []T) T { return l[r.Intn(len(l))] }

var c11Labels = []string{"a", "b", "api", "www", "evil", "example", "foo", "x1", "co", "shop", "a-b", "m"}
var c11TLDs = []string{"com", "org", "co.uk", "io", "test"}
var c11Schemes = []string{"https", "https", "https", "http", "http", "ftp", "app"}
var c11Meta = []string{"a+b", "(x)", "[ab]", "a|b", "^a$", "a\\b", "a{2}", "x$", "a\\", "\\d", "(?i)a", "a..b"}

type c11Parts struct {
	scheme string
	labels []string
	port   string // "" or ":8080"
}

func (p c11Parts) String() string { return p.scheme + "://" + strings.Join(p.labels, ".") + p.port }

func c11Base(r *rand.Rand) c11Parts {
	p := c11Parts{scheme: c11Pick(r, c11Schemes)}
	n := 1 + r.Intn(3)
	for i := 0; i < n; i++ {
		p.labels = append(p.labels, c11Pick(r, c11Labels))
	}
	p.labels = append(p.labels, strings.Split(c11Pick(r, c11TLDs), ".")...)
	if r.Intn(4) == 0 {
		p.port = c11Pick(r, []string{":8080", ":80", ":443", ":3000"})
	}
	return p
}

func c11WildLabel(r *rand.Rand, l string) string {
	if l == "" {
		return "*"
	}
	i := r.Intn(len(l))
	switch r.Intn(6) {
	case 0:
		return "*" + l[i:]
	case 1:
		return l[:i] + "*"
	case 2:
		return l[:i] + "*" + l[i:]
	case 3:
		return l[:i] + "?" + l[i+1:]
	case 4:
		return "?" + l
	}
	return "*"
}

// an allow-list entry derived from a base origin
func c11Entry(r *rand.Rand, b c11Parts) string {
	p := c11Parts{scheme: b.scheme, labels: append([]string(nil), b.labels...), port: b.port}
	switch r.Intn(12) {
	case 0, 1: // literal
	case 2, 3: // classic sub-domain wildcard
		p.labels[0] = "*"
	case 4: // star label in the middle (F9 family) or at the end
		p.labels[r.Intn(len(p.labels))] = "*"
	case 5: // partial label wildcards
		i := r.Intn(len(p.labels))
		p.labels[i] = c11WildLabel(r, p.labels[i])
	case 6: // several wildcards
		for k := 0; k < 2+r.Intn(2); k++ {
			i := r.Intn(len(p.labels))
			p.labels[i] = c11WildLabel(r, p.labels[i])
		}
	case 7: // scheme wildcard
		p.scheme = c11Pick(r, []string{"http?", "http*", "*", "htt?s", "?ttps"})
		if r.Intn(2) == 0 {
			p.labels[0] = "*"
		}
	case 8: // port wildcard
		p.port = c11Pick(r, []string{":*", ":80?0", ":?", ":80*", ":8080"})
		if r.Intn(2) == 0 {
			p.labels[0] = "*"
		}
	case 9: // regexp metacharacters in a label
		p.labels[r.Intn(len(p.labels))] = c11Pick(r, c11Meta)
		if r.Intn(2) == 0 {
			p.labels[0] = "*"
		}
	case 10: // sub-domain wildcard plus another one further right
		p.labels[0] = "*"
		i := r.Intn(len(p.labels))
		p.labels[i] = c11WildLabel(r, p.labels[i])
	case 11:
		return c11Pick(r, []string{"*", "*", "", "null", "https://*", "*://*", "https://*.*", "?", "https://"})
	}
	return p.String()
}

// c11Fill instantiates the wildcards of an entry; with nearMiss one `?` is filled with zero or two characters
func c11Fill(r *rand.Rand, pat string, nearMiss bool) string {
	var b strings.Builder
	miss := -1
	if nearMiss {
		var qs []int
		for i := 0; i < len(pat); i++ {
			if pat[i] == '?' {
				qs = append(qs, i)
			}
		}
		if len(qs) > 0 {
			miss = qs[r.Intn(len(qs))]
		}
	}
	for i := 0; i < len(pat); i++ {
		switch pat[i] {
		case '*':
			b.WriteString(c11Pick(r, []string{"", "a", "www", "evil", "a.b", "x.y.z", "evil.com", ".", "-", "a*b", "8"}))
		case '?':
			if i == miss {
				b.WriteString(c11Pick(r, []string{"", "", "xy", "s."}))
				continue
			}
			b.WriteString(c11Pick(r, []string{"s", "x", ".", "0", "?", "-"}))
		default:
			b.WriteByte(pat[i])
		}
	}
	return b.String()
}

func c11PadHost(o string, hostLen int) string {
	i := strings.Index(o, "://")
	if i < 0 {
		return o
	}
	host := o[i+3:]
	if len(host) >= hostLen {
		return o
	}
	pad := strings.Repeat("a", hostLen-len(host)-1) + "." // one long label; echo does not check label sizes
	return o[:i+3] + pad + host
}

// origins derived from one entry: instances and look-alikes
func c11Derive(r *rand.Rand, entry string) (string, string) {
	inst := c11Fill(r, entry, false)
	if strings.Contains(entry, "?") && r.Intn(4) == 0 {
		return c11Fill(r, entry, true), "question-mark-zero-or-two"
	}
	if inst == "" {
		return c11Base(r).String(), "unrelated"
	}
	host := ""
	if i := strings.Index(inst, "://"); i >= 0 {
		host = inst[i+3:]
	}
	scheme := strings.TrimSuffix(inst, "://"+host)
	switch r.Intn(20) {
	case 0, 1, 2:
		return inst, "instance"
	case 3:
		return inst + c11Pick(r, []string{".evil.com", "x", ".", ":80", "/", "evil"}), "suffix-extension"
	case 4:
		return scheme + "://" + c11Pick(r, []string{"evil", "evil.", "x", "."}) + host, "prefix-extension"
	case 5: // extra / replaced left-most labels
		ls := strings.Split(host, ".")
		if len(ls) > 1 {
			k := 1 + r.Intn(len(ls)-1)
			return scheme + "://" + c11Pick(r, []string{"evil.b", "evil", "a.evil", "x.y.z"}) + "." + strings.Join(ls[k:], "."), "left-labels-replaced"
		}
	case 6: // a dot replaced by another character
		if i := strings.Index(host, "."); i >= 0 {
			ds := []int{}
			for k := 0; k < len(host); k++ {
				if host[k] == '.' {
					ds = append(ds, k)
				}
			}
			k := ds[r.Intn(len(ds))]
			return scheme + "://" + host[:k] + c11Pick(r, []string{"x", "-", "", "..", "%2e"}) + host[k+1:], "dot-replaced"
		}
	case 7:
		return c11Pick(r, []string{"http", "https", "ftp", scheme + "s", "x" + scheme, strings.ToUpper(scheme)}) + "://" + host, "other-scheme"
	case 8:
		return strings.Replace(inst, "://", c11Pick(r, []string{":/", "//", ":", "", ":///", "://:"}), 1), "separator-mangled"
	case 9:
		n := c11Pick(r, []int{252, 253, 254, 255, 300})
		return c11PadHost(inst, n), "long-host"
	case 10: // total length around 261
		n := c11Pick(r, []int{260, 261, 262}) - len(scheme) - 3
		return c11PadHost(inst, n), "long-origin"
	case 11:
		return entry, "entry-text-itself"
	case 12:
		return strings.ToUpper(inst[:1]) + inst[1:], "case-changed"
	case 13:
		ls := strings.Split(host, ".")
		i := r.Intn(len(ls))
		ls = append(ls[:i], append([]string{c11Pick(r, []string{"evil", "", "b", "*"})}, ls[i:]...)...)
		return scheme + "://" + strings.Join(ls, "."), "label-inserted"
	case 14:
		ls := strings.Split(host, ".")
		if len(ls) > 1 {
			i := r.Intn(len(ls))
			ls = append(ls[:i], ls[i+1:]...)
			return scheme + "://" + strings.Join(ls, "."), "label-dropped"
		}
	case 15:
		if len(inst) > 1 {
			i := r.Intn(len(inst))
			return inst[:i] + inst[i+1:], "char-dropped"
		}
	case 16:
		i := r.Intn(len(inst) + 1)
		return inst[:i] + c11Pick(r, []string{"x", ".", ":", "/", "*", "?", "a"}) + inst[i:], "char-inserted"
	case 17:
		return scheme + "://" + host + c11Pick(r, []string{":8080", ":80", ":443"}), "port-added"
	case 18:
		return scheme + "://" + "user@" + host, "userinfo"
	}
	return inst, "instance"
}

func c11Gen(r *rand.Rand, tier string) []any {
	nlists, per := 500, 60
	if tier == "thorough" {
		nlists, per = 6000, 70
	}
	var out []any
	for i := 0; i < nlists; i++ {
		base := c11Base(r)
		var allow []string
		n := 1 + r.Intn(5)
		if r.Intn(25) == 0 {
			n = 0
		}
		for k := 0; k < n; k++ {
			b := base
			if r.Intn(3) == 0 {
				b = c11Base(r)
			}
			allow = append(allow, c11Entry(r, b))
		}
		creds := r.Intn(3) == 0
		unsafe := creds && r.Intn(3) == 0 || r.Intn(12) == 0
		for k := 0; k < per; k++ {
			c := &c11Case{Allow: allow, Creds: creds, Unsafe: unsafe}
			c.Method = c11Pick(r, []string{"GET", "GET", "GET", "OPTIONS", "OPTIONS", "POST", "PUT", "HEAD"})
			var o string
			if len(allow) > 0 && r.Intn(10) != 0 {
				o, c.Note = c11Derive(r, c11Pick(r, allow))
			} else {
				o, c.Note = c11Base(r).String(), "unrelated"
			}
			switch r.Intn(30) {
			case 0:
				c.Origin = nil
				c.Note = "no-origin-header"
			case 1:
				c.Origin = []string{o, c11Base(r).String()}
			case 2:
				c.Origin = []string{""}
				c.Note = "empty-origin"
			default:
				c.Origin = []string{o}
			}
			out = append(out, c)
		}
	}
	return out
}

func c11Shrink(ci any) []any {
	c := ci.(*c11Case)
	var out []any
	cp := func() *c11Case {
		d := *c
		d.Allow = append([]string(nil), c.Allow...)
		d.Origin = append([]string(nil), c.Origin...)
		d.Note = ""
		return &d
	}
	if len(c.Allow) > 1 {
		for i := range c.Allow {
			d := cp()
			d.Allow = append(d.Allow[:i], d.Allow[i+1:]...)
			out = append(out, d)
		}
	}
	if len(c.Origin) > 1 {
		d := cp()
		d.Origin = d.Origin[:1]
		out = append(out, d)
	}
	if c.Creds {
		d := cp()
		d.Creds = false
		out = append(out, d)
	}
	if c.Unsafe {
		d := cp()
		d.Unsafe = false
		out = append(out, d)
	}
	if c.Method != "GET" && c.Method != "OPTIONS" {
		d := cp()
		d.Method = "GET"
		out = append(out, d)
	}
	// drop one character of the origin / of an entry (keeps "://")
	if len(c.Origin) > 0 {
		o := c.Origin[0]
		idx := []int{}
		for i := range o {
			idx = append(idx, i)
		}
		sort.Sort(sort.Reverse(sort.IntSlice(idx)))
		for _, i := range idx {
			d := cp()
			d.Origin[0] = o[:i] + o[i+1:]
			out = append(out, d)
		}
	}
	for k, a := range c.Allow {
		for i := len(a) - 1; i >= 0; i-- {
			d := cp()
			d.Allow[k] = a[:i] + a[i+1:]
			out = append(out, d)
		}
	}
	return out
}

func c11Known(ci any, res Result, modelObs string) string { return "" }

func init() {
	register(&Prop{
		ID:             "C11",
		Rule:           "allow-lists of 0-5 entries built from base origins: literals, `*`, sub-domain wildcard, `*` label in the middle / at the end, partial-label `*`/`?`, several wildcards, wildcard in scheme / port, regexp metacharacters, degenerate entries; per list ~60 requests whose Origin is derived from one of ITS entries: instances (wildcards filled with labels, dotted runs, empty) and look-alikes (`?` filled with zero or two characters, suffix / prefix extension, left labels replaced, dot replaced, label inserted / dropped, other scheme, mangled `://`, hosts of 252-255 and origins of 260-262 bytes, the entry text itself, case change, char dropped / inserted, port, userinfo) x GET/POST/PUT/HEAD/OPTIONS x credentials / unsafe-wildcard flags; oracle decides Allowed with its own glob matcher (no regexp). Non-trivial = the allow-list has a wildcard pattern and the request has an Origin; distinct = distinct model op lines",
		New:            func() any { return &c11Case{} },
		Gen:            c11Gen,
		Run:            c11Run,
		Shrink:         c11Shrink,
		Known:          c11Known,
		Correspondence: "C11.serve (lean/EchoModel/C11.lean: glob, matchScheme, matchSubdomain, allowLoop) vs middleware.CORSWithConfig + matchSubdomain + regexp",
	})
}
