package main

// C03 — 404 / 405 / OPTIONS contract and truthful Allow header.
// Model: C03.answer (respond ∘ Router.Spec.routeTable).

import (
	"fmt"
	"math/rand"
	"net/http"
	"strings"

	"github.com/labstack/echo/v4"
	"github.com/labstack/echo/v4/middleware"
)

type c03Case struct {
	Routes []rRoute `json:"routes"`
	Req    rReq     `json:"req"`
	// Warm > 0: only Routes[:Warm] are registered at first; the request (and an OPTIONS and an
	// unregistered-method request to the same path) is served; then the remaining routes are
	// registered.  The answers must describe what is registered NOW.
	Warm int `json:"warm,omitempty"`
	// Host: the table is registered on the router of this host, through the host group's own helpers ("" = the
	// default router).  Other: a second table on the OTHER router (the default router when Host is set, else the
	// router of c03OtherHost).  The request's Host value decides — by exact equality, as the property family reads
	// "exactly that Host value" — which of the two tables has to answer; the contract is checked against that one.
	Host  string   `json:"host,omitempty"`
	Other []rRoute `json:"other,omitempty"`
	// Mw: what the application has installed around the router (bits): 1 a Use middleware that passes a context of
	// its own (struct embedding echo.Context) down the chain; 2 a Use middleware that keeps values in the context
	// store; 4 a custom HTTPErrorHandler; 8 a Use middleware that wraps the response writer; 16 a no-op Pre
	// middleware; 32 a Use middleware that reports the error itself (c.Error) and returns nil; 64 a Pre middleware
	// that keeps values in the context store before the router runs
	Mw int `json:"mw,omitempty"`
	// NoAutoHost: false = when Host, Other and Req.Host are all empty the case is a plain single-table case and a
	// fifth of those (chosen by their content) are mounted on a host router as a whole (earlier rounds' behaviour)
}

const c03OtherHost = "other.example"

// c03Ctx: an application's own context type (the documented way of extending echo.Context)
type c03Ctx struct {
	echo.Context
	hits int
}

type c03Writer struct{ http.ResponseWriter }

// c03Install: the middleware / handlers selected by the Mw bits
func c03Install(e *echo.Echo, mw int) {
	if mw&16 != 0 {
		e.Pre(func(next echo.HandlerFunc) echo.HandlerFunc { return func(c echo.Context) error { return next(c) } })
	}
	if mw&64 != 0 {
		// a Pre middleware that keeps values in the context store BEFORE the router runs
		e.Pre(func(next echo.HandlerFunc) echo.HandlerFunc {
			return func(c echo.Context) error {
				c.Set("trace-id", "t-"+c.Request().Method)
				c.Set("started", len(c.Request().URL.Path))
				return next(c)
			}
		})
	}
	if mw&32 != 0 {
		e.Use(func(next echo.HandlerFunc) echo.HandlerFunc {
			return func(c echo.Context) error {
				if err := next(c); err != nil {
					c.Error(err)
				}
				return nil
			}
		})
	}
	if mw&8 != 0 {
		e.Use(func(next echo.HandlerFunc) echo.HandlerFunc {
			return func(c echo.Context) error {
				c.Response().Writer = &c03Writer{c.Response().Writer}
				return next(c)
			}
		})
	}
	if mw&2 != 0 {
		e.Use(func(next echo.HandlerFunc) echo.HandlerFunc {
			return func(c echo.Context) error {
				c.Set("user", "u1")
				c.Set("request-id", len(c.Request().URL.Path))
				err := next(c)
				_ = c.Get("user")
				return err
			}
		})
	}
	if mw&1 != 0 {
		e.Use(func(next echo.HandlerFunc) echo.HandlerFunc {
			return func(c echo.Context) error { return next(&c03Ctx{Context: c}) }
		})
	}
	if mw&4 != 0 {
		e.HTTPErrorHandler = func(err error, c echo.Context) {
			code := http.StatusInternalServerError
			if he, ok := err.(*echo.HTTPError); ok {
				code = he.Code
			}
			if !c.Response().Committed {
				c.JSON(code, map[string]any{"error": http.StatusText(code)})
			}
		}
	}
}

func c03Wire(routes []rRoute, o rObs) string {
	switch o.Kind {
	case 'D':
		return wJoin("H", wInt(o.Hid), wStr(routes[o.Hid].Method))
	case 'N', 'M':
		return wJoin("S", wInt(o.Status), wStrs(o.Allow))
	}
	return "P"
}

func c03Run(ci any) Result {
	c := ci.(*c03Case)
	var cur, oth rObs
	host := c.Host
	if c.Host == "" && len(c.Other) == 0 && c.Req.Host == "" {
		host = rHostForC03(c.Routes)
		c.Req.Host = host
	}
	// which table has to answer: exactly the registered Host value selects the host router, everything else the default one
	main, other := c.Routes, c.Other
	mainHost, otherHost := host, ""
	if host == "" {
		otherHost = c03OtherHost
	}
	// the request belongs to the second table (which may be empty: nothing registered on the default router)
	swapped := mainHost != "" && c.Req.Host != mainHost || mainHost == "" && len(other) > 0 && c.Req.Host == otherHost
	e := echo.New()
	e.Logger.SetOutput(nopWriter{})
	regFor := func(h string) rRegistrar {
		if h == "" {
			return e
		}
		return e.Host(h)
	}
	warm := c.Warm
	if warm <= 0 || warm > len(main) {
		warm = len(main)
	}
	mainReg := regFor(mainHost)
	rAddRoutes(mainReg, e, main[:warm], 0, &cur)
	if len(other) > 0 {
		rAddRoutes(regFor(otherHost), e, other, 0, &oth)
	}
	rhost := c.Req.Host
	if warm < len(main) {
		for _, q := range []rReq{c.Req, {Method: http.MethodOptions, Path: c.Req.Path, Host: rhost}, {Method: "X-UNREGISTERED", Path: c.Req.Path, Host: rhost}} {
			rServe(e, &cur, q)
		}
		rAddRoutes(mainReg, e, main, warm, &cur)
	}
	cur, oth = cur.keep(), oth.keep()
	c03Install(e, c.Mw)
	if c.Req.Override {
		e.Pre(middleware.MethodOverride())
	}
	// sel: the table that has to answer, rec: where its handlers record, wrong: where the other table's handlers record
	sel, rec, wrong := main, &cur, &oth
	if swapped {
		sel, rec, wrong = other, &oth, &cur
	}
	serve := func(q rReq) {
		*wrong = wrong.keep()
		rServe(e, rec, q)
	}
	strayed := func() bool { return wrong.Kind == 'D' || wrong.Kind == 'P' }
	prior := false
	if (len(c.Req.Path)+len(c.Routes))%2 == 0 {
		// the pooled context has served a request that reached a handler just before: what that request left
		// behind (handler, route path, values) must not answer this one
		k := 0
		if len(sel) > 0 {
			k = len(c.Req.Path) % len(sel)
		}
		if len(sel) > 0 && sel[k].Method != routeNotFound {
			toks, names, _ := rNorm(sel[k].Path)
			vals := make([]string, len(names))
			for i := range vals {
				vals[i] = "v" + wInt(i)
			}
			if pp, ok := rInst(toks, vals); ok {
				serve(rReq{Method: sel[k].Method, Path: pp, Host: rhost})
				prior = rec.Kind == 'D'
			}
		}
	}
	serve(c.Req)
	first := *rec
	wrongTable := strayed()
	res := Result{
		Ops: wJoin(rTableWire(sel), wStr(c.Req.Method), wStr(c.Req.Path)),
		Obs: c03Wire(sel, first),
	}
	tags := []string{"outcome-" + string(first.Kind)}
	if prior {
		tags = append(tags, "after-a-served-request(recycled-context)")
	}
	if c.Warm > 0 && c.Warm < len(sel) {
		tags = append(tags, "requests-before-later-registrations")
	}
	fail := func(s string) {
		if res.Oracle == "" {
			res.Oracle = s
		}
	}
	if wrongTable {
		res.Obs = "X"
		fail(fmt.Sprintf("a request with Host %q was answered by a handler of the table registered for %s", c.Req.Host, map[bool]string{true: "the host " + fmt.Sprintf("%q", mainHost), false: "another host (or the default router)"}[swapped]))
	}
	if c.Mw != 0 {
		tags = append(tags, fmt.Sprintf("app-middleware-bits-%d", c.Mw))
	}
	if mainHost != "" {
		tags = append(tags, "table-on-a-host-router")
	}
	if len(c.Other) > 0 {
		tags = append(tags, "second-table-on-the-other-router")
		if swapped {
			tags = append(tags, "request-for-the-second-table")
		}
	}
	clash := rColonClash(sel) || rHasTextAfterStar(sel)
	anyReal, anyNF := false, false
	for _, r := range sel {
		toks, _, _ := rNorm(r.Path)
		if rMatchConservative(toks, c.Req.Path) {
			if r.Method == routeNotFound {
				anyNF = true
			} else {
				anyReal = true
			}
		}
	}
	switch first.Kind {
	case 'P':
		fail("routing panicked: " + first.Panic)
	case '?':
		// no registered handler ran, and the answer is none of the three the contract knows
		if !wrongTable {
			fail(fmt.Sprintf("%s %q is answered with status %d and Allow %q by the router itself: neither 404, nor 405 with Allow, nor (OPTIONS) 204 with Allow", c.Req.Method, c.Req.Path, first.Status, first.Allow))
		}
	case 'N':
		if first.Status != http.StatusNotFound {
			fail(fmt.Sprintf("not-found outcome with status %d", first.Status))
		}
		if (anyReal || anyNF) && !clash {
			fail(fmt.Sprintf("some registered pattern matches %q but the answer is 404", c.Req.Path))
		}
		if c03CatchAllCovers(sel, c.Req.Path) && !clash {
			fail(fmt.Sprintf("a RouteNotFound catch-all covers %q but the router answered 404 itself", c.Req.Path))
		}
	case 'M':
		tags = append(tags, "allow-checked")
		if c03CatchAllCovers(sel, c.Req.Path) && !clash {
			// "... unless a custom not-found route covers the path, in which case that handler runs": for a
			// RouteNotFound route that is literal text, or literal text followed by `*`, this is unambiguous
			// (Lean: Router.Tree.find_covered).  A RouteNotFound route that sits on a parameter position while
			// a more specific literal position also matches the path is NOT demanded here: the priority search
			// ends at the literal position (static > param), whose 405 is the documented answer.
			fail(fmt.Sprintf("a RouteNotFound catch-all covers %q but the router answered %d itself", c.Req.Path, first.Status))
		}
		if c.Req.Method == http.MethodOptions {
			if first.Status != http.StatusNoContent {
				fail(fmt.Sprintf("OPTIONS on a path served for other methods: status %d, want 204", first.Status))
			}
		} else if first.Status != http.StatusMethodNotAllowed {
			fail(fmt.Sprintf("status %d, want 405", first.Status))
		}
		hasOptions := false
		for _, m := range first.Allow {
			if m == http.MethodOptions {
				hasOptions = true
			}
		}
		if len(first.Allow) == 0 || !hasOptions {
			fail(fmt.Sprintf("Allow %q must be non-empty and list OPTIONS", first.Allow))
		}
		// retry oracle: every advertised method, sent to the same path, reaches a real handler
		for _, m := range first.Allow {
			if m == http.MethodOptions {
				continue
			}
			serve(rReq{Method: m, Path: c.Req.Path, Host: rhost})
			if strayed() {
				fail(fmt.Sprintf("Allow advertises %s but %s %q (Host %q) is answered by a handler of the table of another host", m, m, c.Req.Path, c.Req.Host))
			} else if rec.Kind != 'D' || sel[rec.Hid].Method != m {
				fail(fmt.Sprintf("Allow advertises %s but %s %q gives %s", m, m, c.Req.Path, rec.wire()))
			}
		}
		// an OPTIONS request gets the same Allow as any other unmatched method
		otherM := "X-UNREGISTERED"
		if c.Req.Method != http.MethodOptions {
			otherM = http.MethodOptions
		}
		serve(rReq{Method: otherM, Path: c.Req.Path, Host: rhost})
		if rec.Kind == 'M' && strings.Join(rec.Allow, ",") != strings.Join(first.Allow, ",") {
			fail(fmt.Sprintf("Allow differs between %s (%q) and %s (%q)", c.Req.Method, first.Allow, otherM, rec.Allow))
		}
		res.Nontrivial = len(first.Allow) > 1 && len(sel) > 1
	case 'D':
		if sel[first.Hid].Method == routeNotFound {
			tags = append(tags, "custom-404-route")
		}
		// "a request whose path is matched only by routes for other methods is answered 405": the handler of a
		// route registered for another method must not run
		if m := sel[first.Hid].Method; m != routeNotFound && m != c.Req.Method {
			fail(fmt.Sprintf("handler of %s %q ran for a %s request", m, sel[first.Hid].Path, c.Req.Method))
		}
		// "a request whose path no registered pattern matches is answered 404": a handler must not run for it
		anyLiberal := false
		for _, r := range sel {
			toks, _, _ := rNorm(r.Path)
			if rMatchLiberal(toks, c.Req.Path) {
				anyLiberal = true
			}
		}
		if !anyLiberal && !clash {
			fail(fmt.Sprintf("no registered pattern matches %q but the handler of route %d (%s %q) ran", c.Req.Path, first.Hid, sel[first.Hid].Method, sel[first.Hid].Path))
		}
	}
	res.Tags = tags
	return res
}

// c03CatchAllCovers: some RouteNotFound route is exactly the path as literal text, or a literal prefix of the
// path followed by `*`; or a RouteNotFound route matches the path and every other pattern that matches the
// path is the very same pattern (so the search can only end at that position).
func c03CatchAllCovers(routes []rRoute, path string) bool {
	for _, r := range routes {
		if r.Method != routeNotFound {
			continue
		}
		toks, _, after := rNorm(r.Path)
		if after || !rMatchConservative(toks, path) {
			continue
		}
		only := true
		for _, o := range routes {
			ot, _, oa := rNorm(o.Path)
			if oa || rTokKey(ot) != rTokKey(toks) && rMatchLiberal(ot, path) {
				only = false
			}
		}
		if only {
			return true
		}
	}
	for _, r := range routes {
		if r.Method != routeNotFound {
			continue
		}
		toks, _, after := rNorm(r.Path)
		if after {
			continue
		}
		lit := ""
		ok, star := true, false
		for i, t := range toks {
			switch t.kind {
			case 'l':
				lit += string(t.c)
			case 'a':
				star = i == len(toks)-1
				ok = ok && star
			default:
				ok = false
			}
		}
		if !ok || strings.ContainsAny(lit, ":*\\") {
			continue
		}
		if star && strings.HasPrefix(path, lit) || !star && path == lit {
			return true
		}
	}
	return false
}

// host names as applications register them (upper case, port, trailing dot, IDN, IPv6 literal) ...
var c03Hosts = []string{"Shop.Example.com:8443", "api.example.com", "API.example.com", "EXAMPLE.ORG", "example.org.", "xn--bcher-kva.example", "B\xc3\xbccher.example", "[::1]:8080", "localhost:80", "a.com"}

// ... and what a client may send instead of the registered name: by the exact-equality reading every one of them
// (except the name itself) belongs to the default router
func c03VaryHost(r *rand.Rand, h string) string {
	switch r.Intn(9) {
	case 0:
		return strings.ToLower(h)
	case 1:
		return strings.ToUpper(h)
	case 2:
		return h + ":80"
	case 3:
		if i := strings.LastIndexByte(h, ':'); i > 0 && !strings.HasSuffix(h, "]") {
			return h[:i]
		}
		return h + ":8443"
	case 4:
		return h + "."
	case 5:
		return strings.TrimSuffix(h, ".")
	case 6:
		return "www." + h
	case 7:
		return ""
	}
	return c03OtherHost
}

func c03Gen(r *rand.Rand, tier string) []any {
	tables, per := 700, 10
	if tier == "thorough" {
		tables, per = 9000, 16
	}
	var out []any
	for i := 0; i < tables; i++ {
		routes := rGenTable(r, rGenOpts{escaped: r.Intn(6) == 0, maxRoute: 8})
		// a third of the tables share the Echo instance with a second table on the other router; half of those are
		// themselves mounted on a host router
		var other []rRoute
		host := ""
		if r.Intn(3) == 0 {
			other = rGenTable(r, rGenOpts{maxRoute: 5})
			if r.Intn(2) == 0 {
				// the second table shares patterns with the first, under other methods
				for k := range other {
					if r.Intn(2) == 0 {
						other[k].Path = routes[r.Intn(len(routes))].Path
					}
				}
				// (no route twice: C03's tables are without re-registrations)
				seen := map[string]bool{}
				uniq := other[:0]
				for _, rt := range other {
					toks, _, _ := rNorm(rt.Path)
					if key := rt.Method + " " + rTokKey(toks); !seen[key] {
						seen[key] = true
						uniq = append(uniq, rt)
					}
				}
				other = uniq
			}
			if r.Intn(2) == 0 {
				host = c03Hosts[r.Intn(len(c03Hosts))]
			}
		} else if r.Intn(8) == 0 {
			host = c03Hosts[r.Intn(len(c03Hosts))] // nothing at all on the default router
		}
		for k := 0; k < per; k++ {
			m := rGenMethod(r, routes)
			if r.Intn(3) == 0 {
				m = []string{"OPTIONS", "PATCH", "HEAD", "X-UNREGISTERED", "TRACE"}[r.Intn(5)]
			}
			cs := &c03Case{Routes: routes, Req: rReq{Method: m, Path: rGenPath(r, routes)}, Host: host, Other: other}
			cs.Req.Override = m != "" && r.Intn(8) == 0 // arrives as POST + X-HTTP-Method-Override under e.Pre(MethodOverride())
			if len(routes) > 1 && r.Intn(3) == 0 {
				cs.Warm = 1 + r.Intn(len(routes)-1)
			}
			if host != "" || len(other) > 0 {
				// whose request it is: the table's own host, the other router's, or a look-alike of the registered name
				own := host
				if host == "" {
					own = c03OtherHost
				}
				switch r.Intn(5) {
				case 0, 1:
					cs.Req.Host = host
				case 2:
					cs.Req.Host = c03VaryHost(r, own)
				case 3:
					if host == "" {
						cs.Req.Host = c03OtherHost
					}
				default:
					cs.Req.Host = []string{"", "unrelated.example", own}[r.Intn(3)]
				}
				if len(other) > 0 && r.Intn(3) == 0 {
					// a path / method of the second table
					cs.Req.Path = rGenPath(r, other)
					cs.Req.Method = rGenMethod(r, other)
				}
				if cs.Req.Host == "" && host == "" && len(other) == 0 {
					cs.Req.Host = "plain.example" // (all three empty would mean "plain single-table case")
				}
			}
			if r.Intn(3) == 0 {
				cs.Mw = 1 << r.Intn(7)
				if r.Intn(3) == 0 {
					cs.Mw |= 1 << r.Intn(7)
				}
			}
			out = append(out, cs)
		}
	}
	return out
}

func c03Shrink(ci any) []any {
	c := ci.(*c03Case)
	var out []any
	for i, rs := range rShrinkRoutes(c.Routes) {
		d := *c
		d.Routes = rs
		if i < c.Warm {
			d.Warm--
		}
		out = append(out, &d)
	}
	if c.Warm > 0 {
		d := *c
		d.Warm = 0
		out = append(out, &d)
	}
	for b := 1; b <= 64; b <<= 1 {
		if c.Mw&b != 0 {
			d := *c
			d.Mw &^= b
			out = append(out, &d)
		}
	}
	if len(c.Other) > 0 {
		d := *c
		d.Other = nil
		if d.Host == "" && d.Req.Host == "" {
			d.Req.Host = "plain.example"
		}
		out = append(out, &d)
	}
	if c.Host != "" && c.Req.Host == c.Host {
		d := *c
		d.Host, d.Req.Host = "", "plain.example"
		out = append(out, &d)
	}
	for i := range c.Other {
		if len(c.Other) > 1 {
			d := *c
			d.Other = append(append([]rRoute(nil), c.Other[:i]...), c.Other[i+1:]...)
			out = append(out, &d)
		}
	}
	for _, p := range rShrinkString(c.Req.Path) {
		d := *c
		d.Req.Path = p
		out = append(out, &d)
	}
	return out
}

func c03Known(ci any, res Result, modelObs string) string {
	c := ci.(*c03Case)
	if rColonClash(c.Routes) || rColonClash(c.Other) {
		return "F2"
	}
	return ""
}

func init() {
	register(&Prop{
		ID:             "C03",
		Rule:           "random route tables (as C01; custom method names and RouteNotFound routes included) x paths derived from the patterns x methods incl. OPTIONS / unregistered / custom; for every 405/204 answer every advertised method is re-sent to the same path (retry oracle) and a second unmatched method checks that Allow is the same; a third of the tables share the Echo instance with a second table on the other router (default router / host router with names in upper case, with port, trailing dot, IDN, IPv6) and the request's Host value (the registered name, look-alikes of it, others) decides by exact equality which table the contract is checked against; a third of the cases run behind application middleware (own context type, context store, wrapped response writer, error reported by the middleware, custom HTTPErrorHandler, Pre); non-trivial = a 405/204 answer advertising at least one method besides OPTIONS in a table of >= 2 routes; distinct = distinct model op lines",
		New:            func() any { return &c03Case{} },
		Gen:            c03Gen,
		Run:            c03Run,
		Shrink:         c03Shrink,
		Known:          c03Known,
		Correspondence: "C03.answer = respond ∘ Router.Spec.routeTable (lean/EchoModel/C03.lean) vs Echo.ServeHTTP status + Allow header",
	})
}
