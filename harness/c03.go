package main

// C03 — 404 / 405 / OPTIONS contract and truthful Allow header.
// Model: C03.answer (respond ∘ Router.Spec.routeTable).

import (
	"fmt"
	"math/rand"
	"net/http"
	"strings"

	"github.com/labstack/echo/v4/middleware"
)

type c03Case struct {
	Routes []rRoute `json:"routes"`
	Req    rReq     `json:"req"`
	// Warm > 0: only Routes[:Warm] are registered at first; the request (and an OPTIONS and an
	// unregistered-method request to the same path) is served; then the remaining routes are
	// registered.  The answers must describe what is registered NOW.
	Warm int `json:"warm,omitempty"`
}

func c03Wire(routes []rRoute, o rObs) string {
	switch o.Kind {
	case 'D':
		return wJoin("H", wInt(o.Hid), wStr(routes[o.Hid].Method))
	case 'N', 'M':
		return wJoin("S", wInt(o.Status), wStrs(o.Allow))
	}
	return "P"
}

func c03Run(ci any) Result {
	c := ci.(*c03Case)
	var cur rObs
	host := rHostForC03(c.Routes)
	c.Req.Host = host
	e := rEchoWarmHost(host, c.Routes, c.Warm, []rReq{c.Req, {Method: http.MethodOptions, Path: c.Req.Path, Host: host}, {Method: "X-UNREGISTERED", Path: c.Req.Path, Host: host}}, &cur)
	if c.Req.Override {
		e.Pre(middleware.MethodOverride())
	}
	prior := false
	if (len(c.Req.Path)+len(c.Routes))%2 == 0 {
		// the pooled context has served a request that reached a handler just before: what that request left
		// behind (handler, route path, values) must not answer this one
		k := len(c.Req.Path) % len(c.Routes)
		if c.Routes[k].Method != routeNotFound {
			toks, names, _ := rNorm(c.Routes[k].Path)
			vals := make([]string, len(names))
			for i := range vals {
				vals[i] = "v" + wInt(i)
			}
			if pp, ok := rInst(toks, vals); ok {
				rServe(e, &cur, rReq{Method: c.Routes[k].Method, Path: pp, Host: host})
				prior = cur.Kind == 'D'
			}
		}
	}
	rServe(e, &cur, c.Req)
	first := cur
	res := Result{
		Ops: wJoin(rTableWire(c.Routes), wStr(c.Req.Method), wStr(c.Req.Path)),
		Obs: c03Wire(c.Routes, first),
	}
	tags := []string{"outcome-" + string(first.Kind)}
	if prior {
		tags = append(tags, "after-a-served-request(recycled-context)")
	}
	if c.Warm > 0 && c.Warm < len(c.Routes) {
		tags = append(tags, "requests-before-later-registrations")
	}
	fail := func(s string) {
		if res.Oracle == "" {
			res.Oracle = s
		}
	}
	clash := rColonClash(c.Routes) || rHasTextAfterStar(c.Routes)
	anyReal, anyNF := false, false
	for _, r := range c.Routes {
		toks, _, _ := rNorm(r.Path)
		if rMatchConservative(toks, c.Req.Path) {
			if r.Method == routeNotFound {
				anyNF = true
			} else {
				anyReal = true
			}
		}
	}
	switch first.Kind {
	case 'P':
		fail("routing panicked: " + first.Panic)
	case 'N':
		if first.Status != http.StatusNotFound {
			fail(fmt.Sprintf("not-found outcome with status %d", first.Status))
		}
		if (anyReal || anyNF) && !clash {
			fail(fmt.Sprintf("some registered pattern matches %q but the answer is 404", c.Req.Path))
		}
		if c03CatchAllCovers(c.Routes, c.Req.Path) && !clash {
			fail(fmt.Sprintf("a RouteNotFound catch-all covers %q but the router answered 404 itself", c.Req.Path))
		}
	case 'M':
		tags = append(tags, "allow-checked")
		if c03CatchAllCovers(c.Routes, c.Req.Path) && !clash {
			// "... unless a custom not-found route covers the path, in which case that handler runs": for a
			// RouteNotFound route that is literal text, or literal text followed by `*`, this is unambiguous
			// (Lean: Router.Tree.find_covered).  A RouteNotFound route that sits on a parameter position while
			// a more specific literal position also matches the path is NOT demanded here: the priority search
			// ends at the literal position (static > param), whose 405 is the documented answer.
			fail(fmt.Sprintf("a RouteNotFound catch-all covers %q but the router answered %d itself", c.Req.Path, first.Status))
		}
		if c.Req.Method == http.MethodOptions {
			if first.Status != http.StatusNoContent {
				fail(fmt.Sprintf("OPTIONS on a path served for other methods: status %d, want 204", first.Status))
			}
		} else if first.Status != http.StatusMethodNotAllowed {
			fail(fmt.Sprintf("status %d, want 405", first.Status))
		}
		hasOptions := false
		for _, m := range first.Allow {
			if m == http.MethodOptions {
				hasOptions = true
			}
		}
		if len(first.Allow) == 0 || !hasOptions {
			fail(fmt.Sprintf("Allow %q must be non-empty and list OPTIONS", first.Allow))
		}
		// retry oracle: every advertised method, sent to the same path, reaches a real handler
		for _, m := range first.Allow {
			if m == http.MethodOptions {
				continue
			}
			rServe(e, &cur, rReq{Method: m, Path: c.Req.Path, Host: host})
			if cur.Kind != 'D' || c.Routes[cur.Hid].Method != m {
				fail(fmt.Sprintf("Allow advertises %s but %s %q gives %s", m, m, c.Req.Path, cur.wire()))
			}
		}
		// an OPTIONS request gets the same Allow as any other unmatched method
		other := "X-UNREGISTERED"
		if c.Req.Method != http.MethodOptions {
			other = http.MethodOptions
		}
		rServe(e, &cur, rReq{Method: other, Path: c.Req.Path, Host: host})
		if cur.Kind == 'M' && strings.Join(cur.Allow, ",") != strings.Join(first.Allow, ",") {
			fail(fmt.Sprintf("Allow differs between %s (%q) and %s (%q)", c.Req.Method, first.Allow, other, cur.Allow))
		}
		res.Nontrivial = len(first.Allow) > 1 && len(c.Routes) > 1
	case 'D':
		if c.Routes[first.Hid].Method == routeNotFound {
			tags = append(tags, "custom-404-route")
		}
		// "a request whose path is matched only by routes for other methods is answered 405": the handler of a
		// route registered for another method must not run
		if m := c.Routes[first.Hid].Method; m != routeNotFound && m != c.Req.Method {
			fail(fmt.Sprintf("handler of %s %q ran for a %s request", m, c.Routes[first.Hid].Path, c.Req.Method))
		}
		// "a request whose path no registered pattern matches is answered 404": a handler must not run for it
		anyLiberal := false
		for _, r := range c.Routes {
			toks, _, _ := rNorm(r.Path)
			if rMatchLiberal(toks, c.Req.Path) {
				anyLiberal = true
			}
		}
		if !anyLiberal && !clash {
			fail(fmt.Sprintf("no registered pattern matches %q but the handler of route %d (%s %q) ran", c.Req.Path, first.Hid, c.Routes[first.Hid].Method, c.Routes[first.Hid].Path))
		}
	}
	res.Tags = tags
	return res
}

// c03CatchAllCovers: some RouteNotFound route is exactly the path as literal text, or a literal prefix of the
// path followed by `*`; or a RouteNotFound route matches the path and every other pattern that matches the
// path is the very same pattern (so the search can only end at that position).
func c03CatchAllCovers(routes []rRoute, path string) bool {
	for _, r := range routes {
		if r.Method != routeNotFound {
			continue
		}
		toks, _, after := rNorm(r.Path)
		if after || !rMatchConservative(toks, path) {
			continue
		}
		only := true
		for _, o := range routes {
			ot, _, oa := rNorm(o.Path)
			if oa || rTokKey(ot) != rTokKey(toks) && rMatchLiberal(ot, path) {
				only = false
			}
		}
		if only {
			return true
		}
	}
	for _, r := range routes {
		if r.Method != routeNotFound {
			continue
		}
		toks, _, after := rNorm(r.Path)
		if after {
			continue
		}
		lit := ""
		ok, star := true, false
		for i, t := range toks {
			switch t.kind {
			case 'l':
				lit += string(t.c)
			case 'a':
				star = i == len(toks)-1
				ok = ok && star
			default:
				ok = false
			}
		}
		if !ok || strings.ContainsAny(lit, ":*\\") {
			continue
		}
		if star && strings.HasPrefix(path, lit) || !star && path == lit {
			return true
		}
	}
	return false
}

func c03Gen(r *rand.Rand, tier string) []any {
	tables, per := 700, 10
	if tier == "thorough" {
		tables, per = 9000, 16
	}
	var out []any
	for i := 0; i < tables; i++ {
		routes := rGenTable(r, rGenOpts{escaped: r.Intn(6) == 0, maxRoute: 8})
		for k := 0; k < per; k++ {
			m := rGenMethod(r, routes)
			if r.Intn(3) == 0 {
				m = []string{"OPTIONS", "PATCH", "HEAD", "X-UNREGISTERED", "TRACE"}[r.Intn(5)]
			}
			cs := &c03Case{Routes: routes, Req: rReq{Method: m, Path: rGenPath(r, routes)}}
			cs.Req.Override = m != "" && r.Intn(8) == 0 // arrives as POST + X-HTTP-Method-Override under e.Pre(MethodOverride())
			if len(routes) > 1 && r.Intn(3) == 0 {
				cs.Warm = 1 + r.Intn(len(routes)-1)
			}
			out = append(out, cs)
		}
	}
	return out
}

func c03Shrink(ci any) []any {
	c := ci.(*c03Case)
	var out []any
	for i, rs := range rShrinkRoutes(c.Routes) {
		d := *c
		d.Routes = rs
		if i < c.Warm {
			d.Warm--
		}
		out = append(out, &d)
	}
	if c.Warm > 0 {
		d := *c
		d.Warm = 0
		out = append(out, &d)
	}
	for _, p := range rShrinkString(c.Req.Path) {
		d := *c
		d.Req.Path = p
		out = append(out, &d)
	}
	return out
}

func c03Known(ci any, res Result, modelObs string) string {
	c := ci.(*c03Case)
	if rColonClash(c.Routes) {
		return "F2"
	}
	return ""
}

func init() {
	register(&Prop{
		ID:             "C03",
		Rule:           "random route tables (as C01; custom method names and RouteNotFound routes included) x paths derived from the patterns x methods incl. OPTIONS / unregistered / custom; for every 405/204 answer every advertised method is re-sent to the same path (retry oracle) and a second unmatched method checks that Allow is the same; non-trivial = a 405/204 answer advertising at least one method besides OPTIONS in a table of >= 2 routes; distinct = distinct model op lines",
		New:            func() any { return &c03Case{} },
		Gen:            c03Gen,
		Run:            c03Run,
		Shrink:         c03Shrink,
		Known:          c03Known,
		Correspondence: "C03.answer = respond ∘ Router.Spec.routeTable (lean/EchoModel/C03.lean) vs Echo.ServeHTTP status + Allow header",
	})
}
