package main

// C14 — BodyLimit.  Real code: middleware.BodyLimit over e.ServeHTTP with a scripted body
// reader.  Model: lean/EchoModel/C14.lean (serveAll).

import (
	"context"
	"errors"
	"fmt"
	"io"
	"math/rand"
	"net/http"
	"net/http/httptest"
	"strings"

	"github.com/labstack/echo/v4"
	"github.com/labstack/echo/v4/middleware"
)

type c14Req struct {
	Declared    int64    `json:"declared"`
	Chunks      [][]byte `json:"chunks"`
	Final       int      `json:"final"` // 1 = io.EOF, 2 = other error
	EOFWithLast bool     `json:"eof_with_last"`
	Reads       []int    `json:"reads"`                // handler buffer sizes; it stops at the first error
	Inner       bool     `json:"inner,omitempty"`      // goes to the route that carries a second BodyLimit instance
	Close       bool     `json:"close,omitempty"`      // the handler closes the body before it returns
	Copy        bool     `json:"copy,omitempty"`       // the handler streams the body with io.Copy instead of Read calls
	Nested      *c14Req  `json:"nested,omitempty"`     // served by the handler, on the same application, ...
	NestAfter   int      `json:"nest_after,omitempty"` // ... before its read number NestAfter
	// Errs[i] = 2: the underlying reader hands out chunk i together with a (temporary) error and goes on with
	// chunk i+1 at the next call (io.Reader allows data and error in one answer; timeouts are not terminal)
	Errs []int `json:"errs,omitempty"`
	// Persist: the handler goes on reading after an error (bufio.Reader forgets an error once it has reported it)
	Persist bool `json:"persist,omitempty"`
	// Bind: the handler consumes the body with the framework's binder (json.Decoder chooses the read sizes);
	// the body is then a JSON string literal
	Bind bool `json:"bind,omitempty"`
}

type c14Case struct {
	Limit    int64    `json:"limit"`
	LimitStr string   `json:"limit_str"`
	Inner    int64    `json:"inner,omitempty"` // limit of the second instance on the route /inner ("" = no such route)
	InnerStr string   `json:"inner_str,omitempty"`
	Debug    bool     `json:"debug,omitempty"` // Echo.Debug: the limit and its error are no matter of the mode the application runs in
	Reqs     []c14Req `json:"reqs"`
}

type c14Resp struct {
	data []byte
	err  int
}

var errC14Other = errors.New("underlying reader failed")

type c14Reader struct {
	chunks      [][]byte
	errs        []int // parallel to chunks (may be shorter)
	final       int
	eofWithLast bool
	log         []c14Resp
}

func (r *c14Reader) finalErr() error {
	if r.final == 2 {
		return errC14Other
	}
	return io.EOF
}

func (r *c14Reader) Read(b []byte) (int, error) {
	if len(r.chunks) == 0 {
		r.log = append(r.log, c14Resp{nil, r.final})
		return 0, r.finalErr()
	}
	c := r.chunks[0]
	n := copy(b, c)
	var err error
	code := 0
	if n < len(c) {
		r.chunks[0] = c[n:]
	} else {
		// an empty chunk is an answer (0, nil): "nothing happened", legal for an io.Reader
		r.chunks = r.chunks[1:]
		if len(r.errs) > 0 {
			if r.errs[0] == 2 {
				err, code = errC14Other, 2
			}
			r.errs = r.errs[1:]
		}
	}
	if len(r.chunks) == 0 && r.eofWithLast {
		err = r.finalErr()
		code = r.final
	}
	r.log = append(r.log, c14Resp{append([]byte(nil), b[:n]...), code})
	return n, err
}
func (r *c14Reader) Close() error { return nil }

// ReadByte makes the scripted body an io.ByteReader (like the bufio-backed bodies of some servers and test
// doubles).  The BodyLimit reader does not offer ReadByte, so a handler never gets here through it; if a
// version of it forwards ReadByte, the bytes handed out this way are logged like any other read.
func (r *c14Reader) ReadByte() (byte, error) {
	var b [1]byte
	n, err := r.Read(b[:])
	if n == 1 {
		return b[0], nil // (an error that came with the byte shows at the next call: the script is then empty)
	}
	return 0, err
}

func c14ErrClass(err error) int {
	switch {
	case err == nil:
		return 0
	case err == io.EOF:
		return 1
	case errors.Is(err, echo.ErrStatusRequestEntityTooLarge):
		return 3
	}
	var he *echo.HTTPError
	if errors.As(err, &he) && he.Code == http.StatusRequestEntityTooLarge {
		return 3
	}
	return 2
}

func c14EncResps(l []c14Resp) string {
	parts := []string{wInt(len(l))}
	for _, r := range l {
		parts = append(parts, wBytes(r.data), wInt(r.err))
	}
	return strings.Join(parts, " ")
}

// c14Recorder sits between the handler's consumer (the binder) and the body the middleware installed: it
// records what every read returned
type c14Recorder struct {
	body  io.ReadCloser
	seen  []c14Resp
	first error // the first over-limit error a read reported
}

func (r *c14Recorder) Read(b []byte) (int, error) {
	n, err := r.body.Read(b)
	cl := c14ErrClass(err)
	r.seen = append(r.seen, c14Resp{append([]byte(nil), b[:n]...), cl})
	if cl == 3 && r.first == nil {
		r.first = err
	}
	return n, err
}
func (r *c14Recorder) Close() error { return r.body.Close() }

var c14Methods = []string{"POST", "PUT", "PATCH", "DELETE", "GET", "PROPFIND", "REPORT", "X-BULK", "HEAD", "OPTIONS"}

type c14Sink struct{ chunks [][]byte }

func (s *c14Sink) Write(b []byte) (int, error) {
	s.chunks = append(s.chunks, append([]byte(nil), b...))
	return len(b), nil
}

type c14State struct {
	rq      *c14Req
	copied  [][]byte // io.Copy mode: what reached the sink
	copyErr int      // io.Copy mode: class of the error io.Copy returned (1 = clean end)
	seen    []c14Resp
	ran     bool
	sub     func(*c14Req) // serves a nested request on the same application
	ret413  bool          // the handler returned the over-limit error a read gave it
	bound   string        // Bind mode: the value the binder produced
	bindErr int           // Bind mode: 0 = bound, 3 = failed with an *echo.HTTPError of status 413, 2 = failed otherwise
}

type c14Key struct{}

// c14Served is one request as it was served: the request, what the underlying reader answered,
// what the handler saw, the status.
type c14Served struct {
	rq      *c14Req
	log     []c14Resp
	seen    []c14Resp
	ran     bool
	code    int
	ret413  bool
	bound   string
	bindErr int
}

func c14Run(ci any) Result {
	c := ci.(*c14Case)
	e := echo.New()
	e.Debug = c.Debug
	if c.Limit%3 == 2 && len(c.Reqs)%2 == 0 {
		e.Pre(middleware.BodyLimit(c.LimitStr)) // installed before the router
	} else if len(c.Reqs)%2 == 0 {
		e.Use(middleware.BodyLimit(c.LimitStr))
	} else {
		// the same middleware through its other constructor (no Skipper given: the default one is filled in)
		e.Use(middleware.BodyLimitWithConfig(middleware.BodyLimitConfig{Limit: c.LimitStr}))
	}
	h := func(ctx echo.Context) error {
		st := ctx.Request().Context().Value(c14Key{}).(*c14State)
		st.ran = true
		body := ctx.Request().Body
		ret := error(nil)
		defer func() { st.ret413 = ret != nil }()
		if st.rq.Bind {
			if st.rq.Nested != nil {
				st.sub(st.rq.Nested)
			}
			rec := &c14Recorder{body: body}
			ctx.Request().Body = rec
			var v any
			err := (&echo.DefaultBinder{}).BindBody(ctx, &v)
			st.seen = rec.seen
			switch t := v.(type) {
			case string:
				st.bound = t
			case []any:
				if len(t) == 1 {
					st.bound, _ = t[0].(string)
				}
			}
			if err != nil {
				st.bindErr = 2
				// the way echo itself recognises an error that carries a status: by its type
				if he, ok := err.(*echo.HTTPError); ok && he.Code == http.StatusRequestEntityTooLarge {
					st.bindErr = 3
					ret = err
				}
			}
			if ret == nil && rec.first != nil {
				ret = rec.first // the decoder had what it needed and dropped the error: the handler passes it on
			}
			if st.rq.Close {
				rec.Close()
			}
			if ret != nil {
				return ret
			}
			if err != nil {
				return err
			}
			return ctx.NoContent(200)
		}
		if st.rq.Copy {
			// the handler streams the body with io.Copy (which prefers the source's WriteTo, if it has one)
			if st.rq.Nested != nil {
				st.sub(st.rq.Nested)
			}
			sink := &c14Sink{}
			_, err := io.Copy(sink, body)
			st.copied = sink.chunks
			st.copyErr = c14ErrClass(err)
			if st.copyErr == 0 {
				st.copyErr = 1 // io.Copy reports a clean end-of-body as nil
			}
			if st.copyErr == 3 {
				ret = err
			}
			if st.rq.Close {
				body.Close()
			}
			if ret != nil {
				return ret
			}
			return ctx.NoContent(200)
		}
		for k, sz := range st.rq.Reads {
			if st.rq.Nested != nil && k == st.rq.NestAfter {
				st.sub(st.rq.Nested)
			}
			buf := make([]byte, sz)
			var n int
			var err error
			if br, ok := body.(io.ByteReader); ok && sz == 1 {
				// a byte-wise consumer (xml / flate decoders do this) uses ReadByte when the body offers it
				var b byte
				if b, err = br.ReadByte(); err == nil {
					buf[0], n = b, 1
				}
			} else {
				n, err = body.Read(buf)
			}
			st.seen = append(st.seen, c14Resp{append([]byte(nil), buf[:n]...), c14ErrClass(err)})
			if err != nil {
				if c14ErrClass(err) == 3 && ret == nil {
					ret = err
				}
				if !st.rq.Persist {
					break
				}
			}
		}
		if st.rq.Nested != nil && st.rq.NestAfter >= len(st.rq.Reads) {
			st.sub(st.rq.Nested)
		}
		if st.rq.Close {
			body.Close() // a handler may close the body it was given
		}
		if ret != nil {
			return ret
		}
		return ctx.NoContent(200)
	}
	if c.Limit%3 == 1 {
		// the application wrapped its handler once (mw(handler)) instead of handing the middleware to echo: the
		// per-chain state of the middleware is then shared by all requests, also by overlapping (nested) ones
		e = echo.New()
		e.Debug = c.Debug
		e.Match(c14Methods, "/", middleware.BodyLimit(c.LimitStr)(h))
		if c.InnerStr != "" {
			e.Match(c14Methods, "/inner", middleware.BodyLimit(c.LimitStr)(h), middleware.BodyLimit(c.InnerStr))
		}
	} else {
		e.Match(c14Methods, "/", h)
	}
	if c.InnerStr != "" && c.Limit%3 != 1 {
		e.Match(c14Methods, "/inner", h, middleware.BodyLimit(c.InnerStr))
	}
	var served []c14Served
	var serve func(rq *c14Req)
	serve = func(rq *c14Req) {
		var chunks [][]byte
		for _, ch := range rq.Chunks {
			chunks = append(chunks, append([]byte(nil), ch...))
		}
		rd := &c14Reader{chunks: chunks, errs: append([]int(nil), rq.Errs...), final: rq.Final, eofWithLast: rq.EOFWithLast}
		path := "/"
		if rq.Inner && c.InnerStr != "" {
			path = "/inner"
		}
		st := &c14State{rq: rq, sub: serve}
		// any method may carry a body (the limit is not a property of POST)
		req := httptest.NewRequest(http.MethodPost, path, nil)
		req.Method = c14Methods[(len(rq.Chunks)+len(rq.Reads)+int(rq.Declared+1))%len(c14Methods)]
		switch (len(rq.Chunks) + 2*len(rq.Reads)) % 5 {
		case 0: // request headers that look like something else: the limit is about the body, whatever they say
			req.Header.Set("Upgrade", "websocket")
			req.Header.Set("Connection", "Upgrade")
		case 1:
			req.Header.Set("Content-Type", "multipart/form-data; boundary=x")
			req.Header.Set("Expect", "100-continue")
		case 2:
			req.Header.Set("Content-Encoding", "gzip")
			req.Header.Set("Transfer-Encoding", "chunked")
		}
		if rq.Bind {
			req.Header.Set("Content-Type", "application/json; charset=utf-8")
		}
		req = req.WithContext(context.WithValue(req.Context(), c14Key{}, st))
		req.Body = rd
		req.ContentLength = rq.Declared
		rec := httptest.NewRecorder()
		idx := len(served)
		served = append(served, c14Served{rq: rq}) // pre-order: the outer request before the one nested in it
		e.ServeHTTP(rec, req)
		if rq.Copy && st.ran {
			// rebuild the per-read view from the underlying reader's answers: io.Copy passes every read with
			// data on to the sink and stops at the first error
			var all, und []byte
			for _, ch := range st.copied {
				all = append(all, ch...)
			}
			for k, a := range rd.log {
				und = append(und, a.data...)
				e := 0
				if k == len(rd.log)-1 {
					e = st.copyErr
				}
				st.seen = append(st.seen, c14Resp{a.data, e})
			}
			if string(all) != string(und) {
				st.seen = append(st.seen, c14Resp{all, 2}) // the sink got other bytes than the body reader served
			}
		}
		served[idx] = c14Served{rq: rq, log: rd.log, seen: st.seen, ran: st.ran, code: rec.Code, ret413: st.ret413, bound: st.bound, bindErr: st.bindErr}
	}
	for i := range c.Reqs {
		serve(&c.Reqs[i])
	}
	ops := []string{wInt64(c.Limit), wInt(len(served))}
	obs := []string{wInt(len(served))}
	oracle := ""
	fail := func(i int, msg string) {
		if oracle == "" {
			oracle = fmt.Sprintf("request %d: %s", i, msg)
		}
	}
	tags := []string{}
	nontrivial := false
	prevRead := false
	for i, sv := range served {
		rq := sv.rq
		limit := c.Limit
		if rq.Inner && c.InnerStr != "" {
			ops = append(ops, "1", wInt64(c.Inner))
			tags = append(tags, "two-instances")
			if c.Inner < limit {
				limit = c.Inner
			}
		} else {
			ops = append(ops, "0")
		}
		if rq.Nested != nil {
			tags = append(tags, "nested-request")
		}
		if rq.Close {
			tags = append(tags, "handler-closes-body")
		}
		realLen := 0
		for _, ch := range rq.Chunks {
			realLen += len(ch)
		}
		ops = append(ops, wInt64(rq.Declared), c14EncResps(sv.log))
		if !sv.ran {
			obs = append(obs, "0")
		} else {
			obs = append(obs, "1", c14EncResps(sv.seen), wBool(sv.code == http.StatusRequestEntityTooLarge))
		}
		if c.Debug {
			tags = append(tags, "debug-mode")
		}
		// model-free oracle
		if rq.Declared > limit {
			tags = append(tags, "declared-too-large")
			if sv.ran || sv.code != http.StatusRequestEntityTooLarge {
				fail(i, fmt.Sprintf("declared length %d > limit %d but handler ran=%v status=%d", rq.Declared, limit, sv.ran, sv.code))
			}
			continue
		}
		if !sv.ran {
			fail(i, fmt.Sprintf("declared length %d <= limit %d but the handler did not run (status %d)", rq.Declared, limit, sv.code))
			continue
		}
		cum := int64(0)
		saw413 := false
		// "gets a 413 error": an error that echo answers with status 413 when the handler hands it back
		if sv.ret413 && sv.code != http.StatusRequestEntityTooLarge {
			fail(i, fmt.Sprintf("the handler returned the error its read past the limit of %d gave it, and the response status is %d: not a 413 error", limit, sv.code))
		}
		if rq.Bind && rq.Declared != 0 {
			tags = append(tags, "binder-reads")
			plain := rq.Final == 1
			for _, x := range rq.Errs {
				plain = plain && x == 0
			}
			var all []byte
			for _, ch := range rq.Chunks {
				all = append(all, ch...)
			}
			want := ""
			if len(all) >= 4 && all[0] == '[' {
				want = string(all[2 : len(all)-2])
			} else if len(all) >= 2 {
				want = string(all[1 : len(all)-1])
			}
			switch {
			case sv.bindErr == 0 && sv.bound != want:
				fail(i, "the binder produced another value than the body carries")
			case sv.bindErr == 0 && int64(len(all)) > limit:
				tags = append(tags, "binder-done-before-error")
			case sv.bindErr != 0 && plain && int64(len(all)) <= limit:
				fail(i, fmt.Sprintf("a well-formed body of %d <= %d bytes was not delivered to the binder unchanged (binding failed)", len(all), limit))
			case sv.bindErr == 2 && plain:
				fail(i, fmt.Sprintf("binding a well-formed body of %d > %d bytes failed, but not with a 413 error", len(all), limit))
			}
		}
		if rq.Persist {
			tags = append(tags, "reads-on-after-error")
		}
		for k, a := range sv.log {
			if len(a.data) == 0 && a.err == 0 && k < len(sv.seen) && len(rq.Reads) > k && (rq.Copy || rq.Bind || rq.Reads[k] > 0) {
				tags = append(tags, "reader-answers-nothing")
				break
			}
		}
		if rq.Errs != nil {
			tags = append(tags, "reader-temporary-error")
		}
		for k, s := range sv.seen {
			cum += int64(len(s.data))
			if s.err == 3 {
				saw413 = true
				if cum <= limit {
					fail(i, fmt.Sprintf("read %d reported 413 although only %d <= %d bytes were delivered", k, cum, limit))
				}
			} else if cum > limit {
				fail(i, fmt.Sprintf("read %d: %d > %d bytes delivered without a 413 error (err class %d)", k, cum, limit, s.err))
			}
		}
		// whatever the length: the handler's reads are the underlying reader's answers, byte for byte,
		// only the error of the reads past the limit is replaced
		// (the property promises delivery "unchanged" for bodies of at most L bytes; for a longer body it fixes what happens up
		//  to the read that reports the 413 error — what later reads of a handler that carries on return is left open: they may
		//  keep handing out the reader's answers with the error, or answer nothing more)
		first413 := -1
		for k, sn := range sv.seen {
			if sn.err == 3 {
				first413 = k
				break
			}
		}
		if int64(realLen) <= limit || first413 < 0 {
			if len(sv.seen) != len(sv.log) {
				fail(i, fmt.Sprintf("the handler made %d reads but the request's own body reader served %d", len(sv.seen), len(sv.log)))
			} else {
				for k := range sv.seen {
					if string(sv.seen[k].data) != string(sv.log[k].data) {
						fail(i, fmt.Sprintf("bytes altered at read %d", k))
					}
				}
			}
		} else {
			if len(sv.log) < first413+1 {
				fail(i, fmt.Sprintf("the handler made %d reads up to the 413 error but the request's own body reader served %d", first413+1, len(sv.log)))
			} else {
				for k := 0; k <= first413; k++ {
					if string(sv.seen[k].data) != string(sv.log[k].data) {
						fail(i, fmt.Sprintf("bytes altered at read %d", k))
					}
				}
			}
			for k := first413 + 1; k < len(sv.seen); k++ {
				if len(sv.seen[k].data) > 0 && sv.seen[k].err != 3 {
					fail(i, fmt.Sprintf("read %d, after the 413 error, handed out %d more bytes without that error", k, len(sv.seen[k].data)))
				}
			}
		}
		if rq.Copy {
			tags = append(tags, "io-copy")
		}
		if int64(realLen) > limit && !saw413 {
			// a handler that reached the end of the body must have been told
			for _, sn := range sv.seen {
				if sn.err == 1 {
					fail(i, fmt.Sprintf("the body has %d > %d bytes but the handler was given a clean end-of-body after %d bytes", realLen, limit, cum))
				}
			}
		}
		if int64(realLen) <= limit {
			tags = append(tags, "short-body")
			if len(sv.seen) == len(sv.log) {
				for k := range sv.seen {
					if sv.seen[k].err != sv.log[k].err {
						fail(i, fmt.Sprintf("short body altered at read %d", k))
					}
				}
			}
		} else {
			tags = append(tags, "long-body")
			if saw413 {
				tags = append(tags, "saw-413")
			}
		}
		if int64(realLen) == limit || int64(realLen) == limit+1 {
			tags = append(tags, "boundary")
		}
		if prevRead && cum > 0 {
			nontrivial = true
			tags = append(tags, "reuse-after-read")
		}
		if cum > 0 {
			prevRead = true
		}
	}
	return Result{Ops: strings.Join(ops, " "), Obs: strings.Join(obs, " "), Oracle: oracle, Tags: tags, Nontrivial: nontrivial}
}

func c14GenReq(r *rand.Rand, L int64) c14Req { return c14GenReqK(r, L, false) }

// c14GenReqK: bind = the body is a JSON string literal and the handler consumes it with the binder
func c14GenReqK(r *rand.Rand, L int64, bind bool) c14Req {
	var n int64
	switch r.Intn(8) {
	case 0:
		n = 0
	case 1:
		n = L - 1
	case 2:
		n = L
	case 3:
		n = L + 1
	case 4:
		n = 10*L + int64(r.Intn(5))
	case 5:
		n = L + int64(r.Intn(8))
	default:
		n = int64(r.Intn(int(2*L + 3)))
	}
	if n < 0 {
		n = 0
	}
	if n > 6000 {
		n = 6000
	}
	if bind && n < 2 {
		n = 2
	}
	body := make([]byte, n)
	for i := range body {
		body[i] = byte(r.Intn(256))
		if bind {
			body[i] = "abcdefghijklmnopqrstuvwxyz0123456789 "[r.Intn(37)]
		}
	}
	var rq c14Req
	if bind {
		rq.Bind = true
		body[0], body[n-1] = '"', '"'
		if n >= 4 && r.Intn(2) == 0 {
			// a one-element array: the decoder is done at the closing bracket and drops an error that comes with it
			body[0], body[1], body[n-2], body[n-1] = '[', '"', '"', ']'
		}
	}
	// rare answers of the underlying reader: (0, nil) before, between and after the data; data together with a
	// temporary error
	empties, miderr := 0, 0
	if r.Intn(5) == 0 {
		empties = 1 + r.Intn(3)
	}
	if !bind && r.Intn(12) == 0 {
		miderr = 3
	}
	for len(body) > 0 {
		if empties > 0 && r.Intn(3) == 0 {
			rq.Chunks = append(rq.Chunks, []byte{})
		}
		k := 1 + r.Intn(len(body))
		if r.Intn(3) == 0 {
			k = 1 + r.Intn(1+len(body)/4)
		}
		rq.Chunks = append(rq.Chunks, body[:k])
		body = body[k:]
	}
	for ; empties > 0 && (len(rq.Chunks) == 0 || r.Intn(2) == 0); empties-- {
		// at a random place: also first, last, and two in a row
		at := r.Intn(len(rq.Chunks) + 1)
		rq.Chunks = append(rq.Chunks[:at], append([][]byte{{}}, rq.Chunks[at:]...)...)
	}
	if miderr > 0 && len(rq.Chunks) > 1 {
		rq.Errs = make([]int, len(rq.Chunks))
		for i := range rq.Errs {
			if r.Intn(miderr) == 0 {
				rq.Errs[i] = 2
			}
		}
	}
	rq.Final = 1
	if r.Intn(10) == 0 {
		rq.Final = 2
	}
	rq.EOFWithLast = r.Intn(2) == 0
	switch r.Intn(6) {
	case 0, 1:
		rq.Declared = n
	case 2:
		rq.Declared = -1
	case 3:
		rq.Declared = n / 2
	case 4:
		rq.Declared = L + int64(r.Intn(3))
	default:
		rq.Declared = int64(r.Intn(int(L + 2)))
	}
	nreads := 60
	if r.Intn(6) == 0 {
		nreads = r.Intn(4)
	}
	// a consumer that goes on after an error (always when the reader hands out temporary errors)
	rq.Persist = rq.Errs != nil || r.Intn(6) == 0
	bytewise := r.Intn(8) == 0 // a byte-wise consumer reads the whole body one byte at a time
	if bytewise {
		nreads = int(n) + 3
	}
	for i := 0; i < nreads; i++ {
		var sz int
		if bytewise {
			rq.Reads = append(rq.Reads, 1)
			continue
		}
		switch r.Intn(5) {
		case 0:
			sz = 1
		case 1:
			sz = int(L) + r.Intn(3)
		case 2:
			sz = 4096
		default:
			sz = r.Intn(int(n) + 3)
		}
		rq.Reads = append(rq.Reads, sz)
	}
	return rq
}

func c14Gen(r *rand.Rand, tier string) []any {
	n := 4000
	if tier == "thorough" {
		n = 60000
	}
	var out []any
	for i := 0; i < n; i++ {
		var L int64
		ls := ""
		switch r.Intn(10) {
		case 0:
			k := int64(1 + r.Intn(2))
			if r.Intn(2) == 0 {
				L, ls = 1000*k, fmt.Sprintf("%dK", k) // gommon/bytes: K = KB = 1000
			} else {
				L, ls = 1024*k, fmt.Sprintf("%dKiB", k)
			}
		case 1:
			L = 0
			ls = "0B"
		default:
			L = int64(1 + r.Intn(64))
			if r.Intn(2) == 0 {
				ls = fmt.Sprintf("%dB", L)
			} else {
				ls = fmt.Sprintf("%d", L)
			}
		}
		c := &c14Case{Limit: L, LimitStr: ls, Debug: r.Intn(3) == 0}
		if r.Intn(4) == 0 {
			// a second instance on one route: stricter, equal or more generous than the global one
			c.Inner = []int64{L / 2, L - 1, L, L + 1, 2*L + 1, L + 7}[r.Intn(6)]
			if c.Inner < 0 {
				c.Inner = 0
			}
			c.InnerStr = fmt.Sprintf("%dB", c.Inner)
		}
		k := 1 + r.Intn(6)
		for j := 0; j < k; j++ {
			lim := L
			bind := r.Intn(8) == 0
			rq := c14GenReqK(r, lim, bind)
			if c.InnerStr != "" && r.Intn(2) == 0 {
				if r.Intn(2) == 0 {
					rq = c14GenReqK(r, c.Inner, bind)
				}
				rq.Inner = true
			}
			rq.Close = r.Intn(6) == 0
			rq.Copy = !bind && r.Intn(5) == 0
			if r.Intn(8) == 0 {
				n := c14GenReq(r, L)
				n.Inner = c.InnerStr != "" && r.Intn(2) == 0
				n.Close = r.Intn(4) == 0
				rq.Nested = &n
				rq.NestAfter = r.Intn(3)
			}
			c.Reqs = append(c.Reqs, rq)
		}
		out = append(out, c)
	}
	return out
}

func c14Shrink(ci any) []any {
	c := ci.(*c14Case)
	var out []any
	for i := range c.Reqs {
		if len(c.Reqs) > 1 {
			d := *c
			d.Reqs = append(append([]c14Req(nil), c.Reqs[:i]...), c.Reqs[i+1:]...)
			out = append(out, &d)
		}
	}
	if c.InnerStr != "" {
		d := *c
		d.Inner, d.InnerStr = 0, ""
		out = append(out, &d)
	}
	if c.Debug {
		d := *c
		d.Debug = false
		out = append(out, &d)
	}
	for i, rq := range c.Reqs {
		if rq.Persist || rq.Errs != nil {
			d := *c
			d.Reqs = append([]c14Req(nil), c.Reqs...)
			nr := rq
			if rq.Errs != nil {
				nr.Errs = nil
			} else {
				nr.Persist = false
			}
			d.Reqs[i] = nr
			out = append(out, &d)
		}
		if rq.Errs == nil {
			// drop the empty answers of the reader, all at once or one at a time
			var ne [][]byte
			for _, ch := range rq.Chunks {
				if len(ch) > 0 {
					ne = append(ne, ch)
				}
			}
			if len(ne) < len(rq.Chunks) {
				d := *c
				d.Reqs = append([]c14Req(nil), c.Reqs...)
				nr := rq
				nr.Chunks = ne
				d.Reqs[i] = nr
				out = append(out, &d)
				for k, ch := range rq.Chunks {
					if len(ch) == 0 && len(rq.Chunks)-len(ne) > 1 {
						d := *c
						d.Reqs = append([]c14Req(nil), c.Reqs...)
						nr := rq
						nr.Chunks = append(append([][]byte(nil), rq.Chunks[:k]...), rq.Chunks[k+1:]...)
						d.Reqs[i] = nr
						out = append(out, &d)
						break
					}
				}
			}
		}
		if rq.Nested != nil || rq.Close || rq.Inner {
			d := *c
			d.Reqs = append([]c14Req(nil), c.Reqs...)
			nr := rq
			if rq.Nested != nil {
				nr.Nested = nil
			} else if rq.Close {
				nr.Close = false
			} else {
				nr.Inner = false
			}
			d.Reqs[i] = nr
			out = append(out, &d)
		}
		if rq.Nested != nil && (rq.Nested.Close || len(rq.Nested.Reads) > 1) {
			d := *c
			d.Reqs = append([]c14Req(nil), c.Reqs...)
			nr := rq
			nn := *rq.Nested
			if nn.Close {
				nn.Close = false
			} else {
				nn.Reads = nn.Reads[:len(nn.Reads)/2]
			}
			nr.Nested = &nn
			d.Reqs[i] = nr
			out = append(out, &d)
		}
		if len(rq.Chunks) > 1 && rq.Errs == nil {
			// merge all chunks
			var all []byte
			for _, ch := range rq.Chunks {
				all = append(all, ch...)
			}
			d := *c
			d.Reqs = append([]c14Req(nil), c.Reqs...)
			nr := rq
			nr.Chunks = [][]byte{all}
			d.Reqs[i] = nr
			out = append(out, &d)
		}
		if len(rq.Reads) > 1 {
			d := *c
			d.Reqs = append([]c14Req(nil), c.Reqs...)
			nr := rq
			nr.Reads = rq.Reads[:len(rq.Reads)/2]
			d.Reqs[i] = nr
			out = append(out, &d)
		}
	}
	return out
}

func init() {
	register(&Prop{
		ID:             "C14",
		Rule:           "random limits (0, 1..64 bytes, 1K/2K) x sequences of 1-6 requests through ONE BodyLimit instance; a quarter of the applications carry a second instance (stricter / equal / more generous) on one route; a sixth of the handlers close the body, an eighth serve a nested request on the same application between two of their own reads; body lengths {0, L-1, L, L+1, 10L, random}, random chunkings, EOF with or after the last chunk, a fifth of the bodies with answers (0, nil) of the underlying reader (first, in between, last, two in a row), a twelfth with data that comes together with a temporary error, declared length {exact, -1, half, around L}, random handler read sizes; a sixth of the handlers read on after an error, an eighth consume the body with the framework's binder (JSON string / one-element array; json.Decoder chooses the reads), a fifth with io.Copy; a third of the applications run with Echo.Debug; the response status is part of the observation (413 exactly when the handler hands back an over-limit error); non-trivial = a request that reads body bytes through a pooled reader that an earlier request of the same sequence already read bytes through; distinct = distinct model op lines",
		New:            func() any { return &c14Case{} },
		Gen:            c14Gen,
		Run:            c14Run,
		Shrink:         c14Shrink,
		Tolerable:      c14Tolerable,
		Correspondence: "C14.serveAllN (lean/EchoModel/C14.lean; = serveAll without a route-level instance, serveAllN_none) vs middleware.BodyLimit + limitedReader.Read",
	})
}
