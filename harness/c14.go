package main

// C14 — BodyLimit.  Real code: middleware.BodyLimit over e.ServeHTTP with a scripted body
// reader.  Model: lean/EchoModel/C14.lean (serveAll).

import (
	"errors"
	"fmt"
	"io"
	"math/rand"
	"net/http"
	"net/http/httptest"
	"strings"

	"github.com/labstack/echo/v4"
	"github.com/labstack/echo/v4/middleware"
)

type c14Req struct {
	Declared    int64    `json:"declared"`
	Chunks      [][]byte `json:"chunks"`
	Final       int      `json:"final"` // 1 = io.EOF, 2 = other error
	EOFWithLast bool     `json:"eof_with_last"`
	Reads       []int    `json:"reads"` // handler buffer sizes; it stops at the first error
}

type c14Case struct {
	Limit    int64    `json:"limit"`
	LimitStr string   `json:"limit_str"`
	Reqs     []c14Req `json:"reqs"`
}

type c14Resp struct {
	data []byte
	err  int
}

var errC14Other = errors.New("underlying reader failed")

type c14Reader struct {
	chunks      [][]byte
	final       int
	eofWithLast bool
	log         []c14Resp
}

func (r *c14Reader) finalErr() error {
	if r.final == 2 {
		return errC14Other
	}
	return io.EOF
}

func (r *c14Reader) Read(b []byte) (int, error) {
	if len(r.chunks) == 0 {
		r.log = append(r.log, c14Resp{nil, r.final})
		return 0, r.finalErr()
	}
	c := r.chunks[0]
	n := copy(b, c)
	if n < len(c) {
		r.chunks[0] = c[n:]
	} else {
		r.chunks = r.chunks[1:]
	}
	var err error
	code := 0
	if len(r.chunks) == 0 && r.eofWithLast {
		err = r.finalErr()
		code = r.final
	}
	r.log = append(r.log, c14Resp{append([]byte(nil), b[:n]...), code})
	return n, err
}
func (r *c14Reader) Close() error { return nil }

func c14ErrClass(err error) int {
	switch {
	case err == nil:
		return 0
	case err == io.EOF:
		return 1
	case errors.Is(err, echo.ErrStatusRequestEntityTooLarge):
		return 3
	}
	var he *echo.HTTPError
	if errors.As(err, &he) && he.Code == http.StatusRequestEntityTooLarge {
		return 3
	}
	return 2
}

func c14EncResps(l []c14Resp) string {
	parts := []string{wInt(len(l))}
	for _, r := range l {
		parts = append(parts, wBytes(r.data), wInt(r.err))
	}
	return strings.Join(parts, " ")
}

func c14Run(ci any) Result {
	c := ci.(*c14Case)
	e := echo.New()
	var seen []c14Resp
	ran := false
	var reads []int
	e.Use(middleware.BodyLimit(c.LimitStr))
	e.POST("/", func(ctx echo.Context) error {
		ran = true
		body := ctx.Request().Body
		for _, sz := range reads {
			buf := make([]byte, sz)
			n, err := body.Read(buf)
			seen = append(seen, c14Resp{append([]byte(nil), buf[:n]...), c14ErrClass(err)})
			if err != nil {
				if c14ErrClass(err) == 3 {
					return err
				}
				break
			}
		}
		return ctx.NoContent(200)
	})
	ops := []string{wInt64(c.Limit), wInt(len(c.Reqs))}
	obs := []string{wInt(len(c.Reqs))}
	oracle := ""
	fail := func(i int, msg string) {
		if oracle == "" {
			oracle = fmt.Sprintf("request %d: %s", i, msg)
		}
	}
	tags := []string{}
	nontrivial := false
	prevRead := false
	for i, rq := range c.Reqs {
		seen, ran, reads = nil, false, rq.Reads
		var chunks [][]byte
		realLen := 0
		for _, ch := range rq.Chunks {
			chunks = append(chunks, append([]byte(nil), ch...))
			realLen += len(ch)
		}
		rd := &c14Reader{chunks: chunks, final: rq.Final, eofWithLast: rq.EOFWithLast}
		req := httptest.NewRequest(http.MethodPost, "/", nil)
		req.Body = rd
		req.ContentLength = rq.Declared
		rec := httptest.NewRecorder()
		e.ServeHTTP(rec, req)

		ops = append(ops, wInt64(rq.Declared), c14EncResps(rd.log))
		if !ran {
			obs = append(obs, "0")
		} else {
			obs = append(obs, "1", c14EncResps(seen))
		}
		// model-free oracle
		if rq.Declared > c.Limit {
			tags = append(tags, "declared-too-large")
			if ran || rec.Code != http.StatusRequestEntityTooLarge {
				fail(i, fmt.Sprintf("declared length %d > limit %d but handler ran=%v status=%d", rq.Declared, c.Limit, ran, rec.Code))
			}
			continue
		}
		if !ran {
			fail(i, fmt.Sprintf("declared length %d <= limit %d but the handler did not run (status %d)", rq.Declared, c.Limit, rec.Code))
			continue
		}
		cum := int64(0)
		saw413 := false
		for k, s := range seen {
			cum += int64(len(s.data))
			if s.err == 3 {
				saw413 = true
				if cum <= c.Limit {
					fail(i, fmt.Sprintf("read %d reported 413 although only %d <= %d bytes were delivered", k, cum, c.Limit))
				}
			} else if cum > c.Limit {
				fail(i, fmt.Sprintf("read %d: %d > %d bytes delivered without a 413 error (err class %d)", k, cum, c.Limit, s.err))
			}
		}
		if int64(realLen) <= c.Limit {
			tags = append(tags, "short-body")
			if len(seen) != len(rd.log) {
				fail(i, "short body: handler saw a different number of reads than the underlying reader served")
			} else {
				for k := range seen {
					if string(seen[k].data) != string(rd.log[k].data) || seen[k].err != rd.log[k].err {
						fail(i, fmt.Sprintf("short body altered at read %d", k))
					}
				}
			}
		} else {
			tags = append(tags, "long-body")
			if saw413 {
				tags = append(tags, "saw-413")
			}
		}
		if int64(realLen) == c.Limit || int64(realLen) == c.Limit+1 {
			tags = append(tags, "boundary")
		}
		if prevRead && cum > 0 {
			nontrivial = true
			tags = append(tags, "reuse-after-read")
		}
		if cum > 0 {
			prevRead = true
		}
	}
	return Result{Ops: strings.Join(ops, " "), Obs: strings.Join(obs, " "), Oracle: oracle, Tags: tags, Nontrivial: nontrivial}
}

func c14GenReq(r *rand.Rand, L int64) c14Req {
	var n int64
	switch r.Intn(8) {
	case 0:
		n = 0
	case 1:
		n = L - 1
	case 2:
		n = L
	case 3:
		n = L + 1
	case 4:
		n = 10*L + int64(r.Intn(5))
	case 5:
		n = L + int64(r.Intn(8))
	default:
		n = int64(r.Intn(int(2*L + 3)))
	}
	if n < 0 {
		n = 0
	}
	if n > 6000 {
		n = 6000
	}
	body := make([]byte, n)
	for i := range body {
		body[i] = byte(r.Intn(256))
	}
	var rq c14Req
	for len(body) > 0 {
		k := 1 + r.Intn(len(body))
		if r.Intn(3) == 0 {
			k = 1 + r.Intn(1+len(body)/4)
		}
		rq.Chunks = append(rq.Chunks, body[:k])
		body = body[k:]
	}
	rq.Final = 1
	if r.Intn(10) == 0 {
		rq.Final = 2
	}
	rq.EOFWithLast = r.Intn(2) == 0
	switch r.Intn(6) {
	case 0, 1:
		rq.Declared = n
	case 2:
		rq.Declared = -1
	case 3:
		rq.Declared = n / 2
	case 4:
		rq.Declared = L + int64(r.Intn(3))
	default:
		rq.Declared = int64(r.Intn(int(L + 2)))
	}
	nreads := 60
	if r.Intn(6) == 0 {
		nreads = r.Intn(4)
	}
	for i := 0; i < nreads; i++ {
		var sz int
		switch r.Intn(5) {
		case 0:
			sz = 1
		case 1:
			sz = int(L) + r.Intn(3)
		case 2:
			sz = 4096
		default:
			sz = r.Intn(int(n) + 3)
		}
		rq.Reads = append(rq.Reads, sz)
	}
	return rq
}

func c14Gen(r *rand.Rand, tier string) []any {
	n := 4000
	if tier == "thorough" {
		n = 60000
	}
	var out []any
	for i := 0; i < n; i++ {
		var L int64
		ls := ""
		switch r.Intn(10) {
		case 0:
			k := int64(1 + r.Intn(2))
			if r.Intn(2) == 0 {
				L, ls = 1000*k, fmt.Sprintf("%dK", k) // gommon/bytes: K = KB = 1000
			} else {
				L, ls = 1024*k, fmt.Sprintf("%dKiB", k)
			}
		case 1:
			L = 0
			ls = "0B"
		default:
			L = int64(1 + r.Intn(64))
			if r.Intn(2) == 0 {
				ls = fmt.Sprintf("%dB", L)
			} else {
				ls = fmt.Sprintf("%d", L)
			}
		}
		c := &c14Case{Limit: L, LimitStr: ls}
		k := 1 + r.Intn(6)
		for j := 0; j < k; j++ {
			c.Reqs = append(c.Reqs, c14GenReq(r, L))
		}
		out = append(out, c)
	}
	return out
}

func c14Shrink(ci any) []any {
	c := ci.(*c14Case)
	var out []any
	for i := range c.Reqs {
		if len(c.Reqs) > 1 {
			d := *c
			d.Reqs = append(append([]c14Req(nil), c.Reqs[:i]...), c.Reqs[i+1:]...)
			out = append(out, &d)
		}
	}
	for i, rq := range c.Reqs {
		if len(rq.Chunks) > 1 {
			// merge all chunks
			var all []byte
			for _, ch := range rq.Chunks {
				all = append(all, ch...)
			}
			d := *c
			d.Reqs = append([]c14Req(nil), c.Reqs...)
			nr := rq
			nr.Chunks = [][]byte{all}
			d.Reqs[i] = nr
			out = append(out, &d)
		}
		if len(rq.Reads) > 1 {
			d := *c
			d.Reqs = append([]c14Req(nil), c.Reqs...)
			nr := rq
			nr.Reads = rq.Reads[:len(rq.Reads)/2]
			d.Reqs[i] = nr
			out = append(out, &d)
		}
	}
	return out
}

func init() {
	register(&Prop{
		ID:             "C14",
		Rule:           "random limits (0, 1..64 bytes, 1K/2K) x sequences of 1-6 requests through ONE BodyLimit instance; body lengths {0, L-1, L, L+1, 10L, random}, random chunkings, EOF with or after the last chunk, declared length {exact, -1, half, around L}, random handler read sizes; non-trivial = a request that reads body bytes through a pooled reader that an earlier request of the same sequence already read bytes through; distinct = distinct model op lines",
		New:            func() any { return &c14Case{} },
		Gen:            c14Gen,
		Run:            c14Run,
		Shrink:         c14Shrink,
		Correspondence: "C14.serveAll (lean/EchoModel/C14.lean) vs middleware.BodyLimit + limitedReader.Read",
	})
}
