package main

// C05 — requests are isolated from each other under context recycling and concurrency.
// Real code: one Echo instance serving a history of requests (handlers dirty every setter,
// panic or fail midway) interleaved with route registrations.  Model: C05.runSteps.
// Model-free oracle: what a handler observes at start equals what it observes on a FRESH
// Echo (same routes) serving only that request.

import (
	"fmt"
	"math/rand"
	"net/http"
	"net/http/httptest"
	"strconv"
	"strings"
	"sync"

	"github.com/labstack/echo/v4"
	"github.com/labstack/gommon/log"
)

type c05HOp struct {
	Kind string   `json:"kind"`
	A    int      `json:"a,omitempty"`
	B    int      `json:"b,omitempty"`
	L    []string `json:"l,omitempty"`
	S    string   `json:"s,omitempty"`
}

type c05Step struct {
	Register *rRoute  `json:"register,omitempty"`
	Req      *rReq    `json:"req,omitempty"`
	Prog     []c05HOp `json:"prog,omitempty"`
	Probe    bool     `json:"probe,omitempty"` // the observer names six parameters for a moment to look into the spare value slots
}

type c05Case struct {
	Steps      []c05Step `json:"steps"`
	Concurrent int       `json:"concurrent,omitempty"` // >0: serve the requests from that many goroutines (oracle only)
}

type c05Logger struct {
	echo.Logger
	id    int
	owner int // the request that installed this logger
	env   *c05Env
}

// a request-scoped logger must only ever be used while its own request is being served
func (l *c05Logger) used() {
	if l.env != nil && !l.env.concurrent && l.env.serving != 0 && l.env.serving != l.owner {
		l.env.leak = fmt.Sprintf("logger installed by request %d was used while request %d was served", l.owner, l.env.serving)
	}
}
func (l *c05Logger) Print(i ...interface{})                    { l.used() }
func (l *c05Logger) Printf(format string, args ...interface{}) { l.used() }
func (l *c05Logger) Printj(j log.JSON)                         { l.used() }
func (l *c05Logger) Debug(i ...interface{})                    { l.used() }
func (l *c05Logger) Debugf(format string, args ...interface{}) { l.used() }
func (l *c05Logger) Debugj(j log.JSON)                         { l.used() }
func (l *c05Logger) Info(i ...interface{})                     { l.used() }
func (l *c05Logger) Infof(format string, args ...interface{})  { l.used() }
func (l *c05Logger) Infoj(j log.JSON)                          { l.used() }
func (l *c05Logger) Warn(i ...interface{})                     { l.used() }
func (l *c05Logger) Warnf(format string, args ...interface{})  { l.used() }
func (l *c05Logger) Warnj(j log.JSON)                          { l.used() }
func (l *c05Logger) Error(i ...interface{})                    { l.used() }
func (l *c05Logger) Errorf(format string, args ...interface{}) { l.used() }
func (l *c05Logger) Errorj(j log.JSON)                         { l.used() }

type c05Obs struct {
	kind, hid     int
	path          string
	names, values []string
	staleQuery    string
	store         []string
	logger        string
	status        int
	size          int64
	committed     bool
	staleBefore   int
	staleAfter    int
}

func (o c05Obs) wire() string {
	st := []string{wInt(len(o.store))}
	st = append(st, o.store...)
	return wJoin(wInt(o.kind), wInt(o.hid), wStr(o.path), wStrs(o.names), wStrs(o.values), o.staleQuery,
		strings.Join(st, " "), o.logger, wInt(o.status), wInt64(o.size), wBool(o.committed), wInt(o.staleBefore), wInt(o.staleAfter), "|")
}

type c05Env struct {
	e      *echo.Echo
	nroute int
	shared []string // an application-level slice the handlers pass to SetParamValues again and again
	// sequential histories only: which request is being served, and a logger leak seen meanwhile
	serving    int
	leak       string
	concurrent bool
}

var c05SharedPristine = []string{"s1", "s2", "s3", "s4", "s5", "s6"}

type c05ReqState struct {
	flushed bool // the handler flushed its response
	swapped bool // the handler replaced the response object
	id    int
	probe bool // look into the spare value slots before the handler runs
	prog  []c05HOp
	obs   c05Obs
	inner []c05Inner
}

type c05Inner struct {
	q   rReq
	id  int
	obs c05Obs
}

const c05Key = "c05-state"

func c05NewEnv() *c05Env {
	e := echo.New()
	e.Logger.SetOutput(nopWriter{})
	env := &c05Env{e: e, shared: append([]string{}, c05SharedPristine...)}
	// the application derives the client address from a header of its own (a custom IPExtractor)
	e.IPExtractor = func(r *http.Request) string { return r.Header.Get("X-Client") }
	e.Use(func(next echo.HandlerFunc) echo.HandlerFunc {
		return func(c echo.Context) error {
			st := c.Request().Context().Value(c05CtxKey{}).(*c05ReqState)
			// observation at start, before anything request-specific is stored
			o := &st.obs
			o.kind = 1
			o.path = c.Path()
			o.names = append([]string{}, c.ParamNames()...)
			func() {
				defer func() {
					if r := recover(); r != nil {
						o.values = []string{"PANIC"}
					}
				}()
				o.values = append([]string{}, c.ParamValues()...)
			}()
			if st.probe {
				// an application may name more parameters than the route has (SetParamNames): whatever
				// becomes visible that way must be blank, not a value of an earlier request
				names := append([]string{}, c.ParamNames()...)
				c.SetParamNames("q0", "q1", "q2", "q3", "q4", "q5")
				func() {
					defer func() { recover() }()
					all := c.ParamValues()
					for i := len(names); i < len(all); i++ {
						if all[i] != "" {
							o.store = append(o.store, "stale-value-in-spare-slot", strconv.Itoa(i), all[i])
						}
					}
				}()
				c.SetParamNames(names...)
			}
			if ip := c.RealIP(); ip != c.Request().Header.Get("X-Client") {
				o.store = append(o.store, "client-address-of-another-request", ip)
			}
			q := c.QueryParam("q")
			if q == c.Request().URL.Query().Get("q") && c.QueryParam("leak") == "" {
				o.staleQuery = "-"
			} else {
				o.staleQuery = "stale" + q
			}
			for k := 0; k < 4; k++ {
				if v := c.Get("k" + strconv.Itoa(k)); v != nil {
					o.store = append(o.store, strconv.Itoa(k), fmt.Sprint(v))
				}
			}
			if l, ok := c.Logger().(*c05Logger); ok {
				o.logger = strconv.Itoa(l.id)
			} else {
				o.logger = "-"
			}
			// the application's own slice must never be written through by the framework
			for i, v := range env.shared {
				if v != c05SharedPristine[i] {
					o.store = append(o.store, "shared-slice-clobbered", strconv.Itoa(i))
					env.shared[i] = c05SharedPristine[i]
				}
			}
			o.status = c.Response().Status
			o.size = c.Response().Size
			o.committed = c.Response().Committed
			return next(c)
		}
	})
	return env
}

type c05CtxKey struct{}

func (env *c05Env) register(r rRoute) {
	hid := env.nroute
	env.nroute++
	env.e.Add(r.Method, r.Path, func(c echo.Context) error {
		st := c.Request().Context().Value(c05CtxKey{}).(*c05ReqState)
		st.obs.kind = 0
		st.obs.hid = hid
		if v := c.Get(echo.ContextKeyHeaderAllow); v != nil {
			// the router leaves the Allow value of a 405 / automatic OPTIONS answer in the store of THAT request only;
			// a request that is dispatched to a route has none
			st.obs.store = append(st.obs.store, "allow-value-of-another-request", fmt.Sprint(v))
		}
		failed, silent := false, false
		for _, op := range st.prog {
			switch op.Kind {
			case "set":
				c.Set("k"+strconv.Itoa(op.A), op.B)
			case "setParamNames":
				c.SetParamNames(op.L...)
			case "setParamValues":
				c.SetParamValues(op.L...)
			case "setSharedValues":
				c.SetParamValues(env.shared[:op.A]...)
			case "silent":
				silent = true // the handler will return nil without writing a response itself
			case "setPath":
				c.SetPath(op.S)
			case "setLogger":
				c.SetLogger(&c05Logger{Logger: log.New("x"), id: op.A, owner: st.id, env: env})
			case "queryParam":
				c.QueryParam("q")
			case "writeHeader":
				c.Response().WriteHeader(op.A)
			case "write":
				c.Response().Write(make([]byte, op.A))
			case "flush":
				c.Response().Flush()
				st.flushed = !st.swapped // (after SetResponse the flush rightly goes to the handler's own response)
			case "before":
				owner := st.id
				c.Response().Before(func() {
					cur := c.Request().Context().Value(c05CtxKey{}).(*c05ReqState)
					if cur.id != owner {
						cur.obs.staleBefore++
					}
				})
			case "after":
				owner := st.id
				c.Response().After(func() {
					cur := c.Request().Context().Value(c05CtxKey{}).(*c05ReqState)
					if cur.id != owner {
						cur.obs.staleAfter++
					}
				})
			case "nested":
				// the handler serves another request on the same Echo, synchronously, and then looks at
				// its own context again: the inner request must have had a context of its own
				snap := func() string {
					vals := "PANIC"
					func() {
						defer func() { recover() }()
						vals = strings.Join(c.ParamValues(), ",")
					}()
					cur, _ := c.Request().Context().Value(c05CtxKey{}).(*c05ReqState)
					id := -1
					if cur != nil {
						id = cur.id
					}
					return fmt.Sprintf("path=%s names=%s values=%s k=%v,%v,%v,%v q=%s req=%d status=%d size=%d committed=%v", c.Path(), strings.Join(c.ParamNames(), ","), vals,
						c.Get("k0"), c.Get("k1"), c.Get("k2"), c.Get("k3"), c.QueryParam("q"), id, c.Response().Status, c.Response().Size, c.Response().Committed)
				}
				before := snap()
				inner := env.serve(1000+st.id, rReq{Method: "GET", Path: op.S}, nil)
				if after := snap(); after != before {
					st.obs.store = append(st.obs.store, "nested-request-clobbered-the-outer-context", before, after)
				}
				st.inner = append(st.inner, c05Inner{rReq{Method: "GET", Path: op.S}, 1000 + st.id, inner})
			case "setRequest":
				// the handler replaces the request (as a rewriting middleware would): same identity for the
				// observer, another query string, and the query cache is filled from it
				r2 := c.Request().Clone(c.Request().Context())
				if op.A == 0 {
					r2.URL.RawQuery = "q=9999&leak=1"
					c.SetRequest(r2)
					c.QueryParam("q")
				} else {
					// cache filled from the original query first, then the request is replaced by one whose
					// query string equals that of other requests
					c.QueryParam("q")
					r2.URL.RawQuery = "q=same"
					c.SetRequest(r2)
				}
			case "poisonQuery":
				// the handler edits the parsed query it was given
				c.QueryParams()["q"] = []string{"poisoned"}
				c.QueryParams()["leak"] = []string{"1"}
			case "setResponse":
				// the handler swaps the response object for one of its own and dirties it
				c.SetResponse(echo.NewResponse(httptest.NewRecorder(), env.e))
				st.swapped = true
				if op.A > 0 {
					c.Response().WriteHeader(op.A)
				}
			case "setHandler":
				c.SetHandler(func(echo.Context) error { return echo.NewHTTPError(http.StatusTeapot, "left-over handler") })
			case "panic":
				panic("handler panics midway")
			case "fail":
				failed = true
			}
		}
		if failed {
			return echo.NewHTTPError(http.StatusTeapot, "handler failed")
		}
		if silent {
			return nil
		}
		if !c.Response().Committed {
			return c.NoContent(http.StatusOK)
		}
		_, err := c.Response().Write([]byte("x")) // make after-hooks of the response fire
		return err
	})
}

// borrowContext: AcquireContext / use / ReleaseContext, as an application does for work outside a request.
func (env *c05Env) borrowContext(id int) {
	defer func() { recover() }()
	c := env.e.AcquireContext()
	target := "/borrowed?q=borrowed"
	if id%2 == 0 {
		target = "/borrowed" // no query string at all
	}
	req := httptest.NewRequest("GET", target, nil)
	c.Reset(req, httptest.NewRecorder())
	c.SetPath("/borrowed/:b1/:b2")
	c.SetParamNames("b1", "b2", "b3", "b4", "b5", "b6")
	c.SetParamValues("bv1", "bv2", "bv3", "bv4", "bv5", "bv6")
	c.Set("k"+strconv.Itoa(id%4), "borrowed")
	c.QueryParam("q")
	c.QueryParams()["leak"] = []string{"1"}
	c.SetLogger(&c05Logger{Logger: log.New("x"), id: 77, owner: -1, env: env})
	c.Response().Before(func() {})
	c.Response().WriteHeader(http.StatusTeapot)
	c.Response().Write([]byte("borrowed"))
	env.e.ReleaseContext(c)
}

func (env *c05Env) serve(id int, q rReq, prog []c05HOp) c05Obs {
	o, _ := env.serve2(id, q, prog)
	return o
}

func (env *c05Env) serve2(id int, q rReq, prog []c05HOp) (c05Obs, []c05Inner) {
	return env.serve3(id, q, prog, false)
}

func (env *c05Env) serve3(id int, q rReq, prog []c05HOp, probe bool) (ro c05Obs, rin []c05Inner) {
	st := &c05ReqState{id: id, prog: prog, probe: probe}
	if !env.concurrent {
		outer := env.serving
		env.serving = id
		defer func() {
			env.serving = outer
			if env.leak != "" {
				ro.store = append(ro.store, "logger-leak", env.leak)
				env.leak = ""
			}
		}()
	}
	func() {
		defer func() {
			if r := recover(); r != nil {
				if st.obs.kind != 0 {
					// panic before any handler ran: inside routing
					st.obs = c05Obs{kind: 3, staleQuery: "-", logger: "-", status: 200}
				}
			}
		}()
		req := rNewRequest(q)
		req.URL.RawQuery = "q=" + strconv.Itoa(id)
		if id%3 == 0 {
			// some requests carry byte-identical query strings (what a handler did to the parsed query of
			// one of them must not show in another)
			req.URL.RawQuery = "q=same"
		}
		if id%5 == 0 {
			req.URL.RawQuery = "" // ... and some carry none at all
		}
		req = req.WithContext(contextWith(req, st))
		req.Header.Set("X-Client", "client-"+strconv.Itoa(id))
		rec := httptest.NewRecorder()
		env.e.ServeHTTP(rec, req)
		if st.flushed && !rec.Flushed {
			st.obs.store = append(st.obs.store, "flush-did-not-reach-this-request's-writer")
		}
		if st.obs.kind == 1 && (rec.Code == http.StatusMethodNotAllowed || (rec.Code == http.StatusNoContent && rec.Result().Header.Get("Allow") != "")) {
			st.obs.kind = 2
		}
	}()
	return st.obs, st.inner
}

func c05HOpWire(op c05HOp) string {
	switch op.Kind {
	case "set":
		return wJoin("0", wInt(op.A), wInt(op.B))
	case "setParamNames":
		return wJoin("1", wStrs(op.L))
	case "setParamValues":
		return wJoin("2", wStrs(op.L))
	case "setPath":
		return wJoin("3", wStr(op.S))
	case "setLogger":
		return wJoin("4", wInt(op.A))
	case "queryParam":
		return "5"
	case "writeHeader":
		return wJoin("6", wInt(op.A))
	case "write":
		return wJoin("7", wInt(op.A))
	case "flush":
		return "6 200" // an uncommitted response is committed with the pending status (200); else nothing
	case "before":
		return wJoin("8", wInt(op.A))
	case "after":
		return wJoin("9", wInt(op.A))
	case "panic":
		return "10"
	case "setSharedValues":
		return wJoin("2", wStrs(c05SharedPristine[:op.A]))
	case "nested":
		return "5" // nothing happens to the outer context
	case "setRequest":
		if op.A == 0 {
			return "12 9999\x005" // two ops: SetRequest, then the query cache is filled from the new request
		}
		return "5\x0012 9998" // two ops: cache filled from the original request, then SetRequest
	case "poisonQuery":
		return "13 9997"
	case "setHandler":
		return "14 1"
	case "setResponse":
		return wJoin("15", wInt(op.A))
	case "silent":
		return "11" // like fail for the context: nothing more happens to it
	}
	return "11"
}

func c05Run(ci any) Result {
	c := ci.(*c05Case)
	env := c05NewEnv()
	var routes []rRoute
	ops := []string{"<nsteps>"}
	nsteps := len(c.Steps)
	var obsParts []string
	res := Result{}
	fail := func(s string) {
		if res.Oracle == "" {
			res.Oracle = s
		}
	}
	tags := []string{}
	type job struct {
		id     int
		q      rReq
		prog   []c05HOp
		routes []rRoute
	}
	var jobs []job
	reqID := 0
	maxParamBefore := 0
	for _, s := range c.Steps {
		if s.Register != nil {
			env.register(*s.Register)
			routes = append(routes, *s.Register)
			ops = append(ops, "1", wStr(s.Register.Method), wStr(s.Register.Path), wInt(len(routes)-1))
			if mp := rMaxParam(routes); mp > maxParamBefore && reqID > 0 {
				tags = append(tags, "registration-raises-maxparam")
				res.Nontrivial = true
			}
			maxParamBefore = rMaxParam(routes)
			continue
		}
		reqID++
		jobs = append(jobs, job{reqID, *s.Req, s.Prog, append([]rRoute(nil), routes...)})
		var o c05Obs
		var inner []c05Inner
		if c.Concurrent == 0 && reqID == 2 && len(c.Steps)%2 == 0 {
			// between two requests the application also registers a route with MORE parameters than any other on a
			// host router, and serves a request for that host: no later request may fail, the new one included
			func() {
				defer func() {
					if r := recover(); r != nil {
						fail(fmt.Sprintf("request for a route registered on a host router between requests failed: %v", r))
					}
				}()
				ran := false
				env.e.Host("many.example").GET("/h/:a/:b/:c/:d/:e/:f/:g/:h/:i", func(c echo.Context) error {
					ran = len(c.ParamValues()) == 9 && c.Param("i") == "9"
					return c.NoContent(http.StatusOK)
				})
				rq := httptest.NewRequest("GET", "/h/1/2/3/4/5/6/7/8/9", nil)
				rq.Host = "many.example"
				rq = rq.WithContext(contextWith(rq, &c05ReqState{id: 5000}))
				rec := httptest.NewRecorder()
				env.e.ServeHTTP(rec, rq)
				if !ran {
					fail(fmt.Sprintf("route registered on a host router between requests was not served: status %d", rec.Code))
				}
			}()
			tags = append(tags, "host-route-with-more-params-registered")
		}
		if c.Concurrent == 0 {
			if (reqID*7+len(s.Req.Path))%4 == 0 {
				// the application borrows a context from the pool (Echo.AcquireContext), uses it for work of its
				// own and gives it back (Echo.ReleaseContext): whatever it left in it must not reach a request
				env.borrowContext(reqID)
				tags = append(tags, "app-borrowed-pooled-context")
				// the same for the model: Reset(id 7777); SetPath; SetParamNames(6); SetParamValues(6); Set; QueryParam;
				// SetLogger; Before; WriteHeader(418); Write(8)
				six := func(p string) []string {
					var l []string
					for i := 1; i <= 6; i++ {
						l = append(l, p+strconv.Itoa(i))
					}
					return l
				}
				bops := []string{wJoin("3", wStr("/borrowed/:b1/:b2")), wJoin("1", wStrs(six("b"))), wJoin("2", wStrs(six("bv"))),
					wJoin("0", wInt(reqID%4), "99"), "5", "13 9997", "4 77", "8 0", "6 418", "7 8"}
				ops = append(ops, "2", "7777", wInt(len(bops))+" "+strings.Join(bops, " "))
				nsteps++
			}
			o, inner = env.serve3(reqID, *s.Req, s.Prog, s.Probe)
		}
		{
			progW := []string{}
			if s.Probe && c.Concurrent == 0 && o.kind != 3 && (o.kind == 0 || o.kind == 1 || o.kind == 2) {
				// for the model the probe is: SetParamNames(six names); SetParamNames(the route's names)
				progW = append(progW, wJoin("1", wStrs([]string{"q0", "q1", "q2", "q3", "q4", "q5"})), wJoin("1", wStrs(o.names)))
				tags = append(tags, "spare-slot-probe")
			}
			for _, op := range s.Prog {
				progW = append(progW, strings.Split(c05HOpWire(op), "\x00")...)
			}
			ops = append(ops, "0", wInt(reqID), wStr(s.Req.Method), wStr(s.Req.Path), wInt(len(progW))+" "+strings.Join(progW, " "))
		}
		if c.Concurrent == 0 {
			obsParts = append(obsParts, o.wire())
			for _, in := range inner {
				tags = append(tags, "nested-request")
				fresh := c05NewEnv()
				for _, r := range routes {
					fresh.register(r)
				}
				if want := fresh.serve(in.id, in.q, nil); in.obs.wire() != want.wire() {
					fail(fmt.Sprintf("request %d nested in request %d (GET %q): handler observes %s, on a fresh Echo %s", in.id, reqID, in.q.Path, in.obs.wire(), want.wire()))
				}
			}
			// model-free oracle: a fresh Echo with the same routes serving only this request
			fresh := c05NewEnv()
			for _, r := range routes {
				fresh.register(r)
			}
			want := fresh.serve(reqID, *s.Req, nil)
			if o.wire() != want.wire() {
				fail(fmt.Sprintf("request %d (%s %q): handler observes %s, on a fresh Echo %s", reqID, s.Req.Method, s.Req.Path, o.wire(), want.wire()))
			}
			if o.kind == 3 {
				fail(fmt.Sprintf("request %d (%s %q) failed inside routing after earlier requests/registrations", reqID, s.Req.Method, s.Req.Path))
			}
			tags = append(tags, "outcome-"+strconv.Itoa(o.kind))
			for _, op := range s.Prog {
				if op.Kind == "panic" {
					tags = append(tags, "handler-panic")
				}
			}
		}
	}
	if c.Concurrent > 0 {
		// all registrations happened (quiescent); now fire the requests from several goroutines
		env.concurrent = true
		tags = append(tags, "concurrent")
		want := make([]string, len(jobs))
		for i, j := range jobs {
			fresh := c05NewEnv()
			for _, r := range routes {
				fresh.register(r)
			}
			want[i] = fresh.serve(j.id, j.q, nil).wire()
		}
		got := make([]string, len(jobs))
		var wg sync.WaitGroup
		// two host routers with a route of their own: requests for them run concurrently with everything else and
		// must be answered by their own host's handler
		hostBad := make([]string, 2)
		for h := 0; h < 2; h++ {
			h := h
			env.e.Host("host"+strconv.Itoa(h)+".example").GET("/who/:x", func(c echo.Context) error {
				return c.String(http.StatusOK, "host"+strconv.Itoa(h)+":"+c.Param("x"))
			})
		}
		for h := 0; h < 2; h++ {
			wg.Add(1)
			go func(h int) {
				defer wg.Done()
				defer func() { recover() }()
				for it := 0; it < 400; it++ {
					rq := httptest.NewRequest("GET", "/who/"+strconv.Itoa(it), nil)
					rq.Host = "host" + strconv.Itoa(h) + ".example"
					rq = rq.WithContext(contextWith(rq, &c05ReqState{id: 9000 + h}))
					rec := httptest.NewRecorder()
					env.e.ServeHTTP(rec, rq)
					if want := "host" + strconv.Itoa(h) + ":" + strconv.Itoa(it); rec.Body.String() != want && hostBad[h] == "" {
						hostBad[h] = fmt.Sprintf("concurrent request for host%d.example /who/%d answered %d %q, want %q", h, it, rec.Code, rec.Body.String(), want)
					}
				}
			}(h)
		}

		for g := 0; g < c.Concurrent; g++ {
			wg.Add(1)
			go func(g int) {
				defer wg.Done()
				for rep := 0; rep < 3; rep++ {
					for i := g; i < len(jobs); i += c.Concurrent {
						got[i] = env.serve(jobs[i].id, jobs[i].q, jobs[i].prog).wire()
					}
				}
			}(g)
		}
		wg.Wait()
		for _, b := range hostBad {
			if b != "" {
				fail(b)
			}
		}
		for i := range jobs {
			if got[i] != want[i] {
				fail(fmt.Sprintf("concurrent request %d (%s %q): handler observes %s, on a fresh Echo %s", jobs[i].id, jobs[i].q.Method, jobs[i].q.Path, got[i], want[i]))
			}
		}
		res.Nontrivial = true
		res.Tags = tags
		return res
	}
	if reqID >= 2 {
		res.Nontrivial = true
	}
	ops[0] = wInt(nsteps)
	res.Ops = strings.Join(ops, " ")
	res.Obs = strings.Join(obsParts, " ")
	res.Tags = tags
	return res
}

var c05Paths = []string{"/", "/a", "/a/:x", "/b/:x/:y", "/c/:x/:y/:z", "/d/:p/:q/:r/:s", "/a/:x/e", "/files/*", "/b/:x/*"}

func c05GenProg(r *rand.Rand) []c05HOp {
	n := r.Intn(7)
	var p []c05HOp
	for i := 0; i < n; i++ {
		switch r.Intn(14) % 13 {
		case 0:
			p = append(p, c05HOp{Kind: "set", A: r.Intn(4), B: 1 + r.Intn(9)})
		case 1:
			p = append(p, c05HOp{Kind: "setParamNames", L: []string{"u", "v", "w", "x", "y", "z"}[:r.Intn(7)]})
		case 2:
			p = append(p, c05HOp{Kind: "setParamValues", L: []string{"dirty1", "dirty2", "dirty3", "dirty4", "dirty5", "dirty6"}[:r.Intn(7)]})
		case 3:
			p = append(p, c05HOp{Kind: "setPath", S: "/dirty"})
		case 4:
			p = append(p, c05HOp{Kind: "setLogger", A: 1 + r.Intn(5)})
		case 5:
			p = append(p, c05HOp{Kind: "queryParam"})
		case 6:
			p = append(p, c05HOp{Kind: "writeHeader", A: []int{200, 201, 404, 500}[r.Intn(4)]})
		case 7:
			if r.Intn(4) == 0 {
				p = append(p, c05HOp{Kind: "flush"})
			} else {
				p = append(p, c05HOp{Kind: "write", A: 1 + r.Intn(20)})
			}
		case 8:
			p = append(p, c05HOp{Kind: "before", A: 1 + r.Intn(5)})
		case 9:
			p = append(p, c05HOp{Kind: "after", A: 1 + r.Intn(5)})
		case 10:
			if r.Intn(3) == 0 {
				p = append(p, c05HOp{Kind: "panic"})
			}
		case 11:
			p = append(p, c05HOp{Kind: "fail"})
		case 12:
			if r.Intn(3) == 0 {
				p = append(p, c05HOp{Kind: "nested", S: []string{"/", "/a/n1", "/b/n1/n2", "/c/n1/n2/n3", "/files/n", "/nowhere"}[r.Intn(6)]})
			} else if r.Intn(2) == 0 {
				p = append(p, c05HOp{Kind: "setSharedValues", A: 1 + r.Intn(6)})
			} else if r.Intn(2) == 0 {
				p = append(p, c05HOp{Kind: []string{"setRequest", "setResponse", "setHandler", "poisonQuery"}[r.Intn(4)], A: []int{0, 201, 500}[r.Intn(3)]})
			} else {
				p = append(p, c05HOp{Kind: "silent"})
			}
		}
	}
	return p
}

func c05Gen(r *rand.Rand, tier string) []any {
	n := 1500
	if tier == "thorough" {
		n = 20000
	}
	var out []any
	for i := 0; i < n; i++ {
		c := &c05Case{}
		var routes []rRoute
		reg := func() {
			rt := rRoute{Method: []string{"GET", "GET", "POST"}[r.Intn(3)], Path: c05Paths[r.Intn(len(c05Paths))]}
			routes = append(routes, rt)
			c.Steps = append(c.Steps, c05Step{Register: &rt})
		}
		k := 1 + r.Intn(3)
		for j := 0; j < k; j++ {
			reg()
		}
		nreq := 2 + r.Intn(10)
		for j := 0; j < nreq; j++ {
			if r.Intn(5) == 0 {
				reg()
			}
			q := rReq{Method: rGenMethod(r, routes), Path: rGenPath(r, routes)}
			c.Steps = append(c.Steps, c05Step{Req: &q, Prog: c05GenProg(r), Probe: r.Intn(3) == 0})
		}
		if tier == "thorough" && i%10 == 0 || tier != "thorough" && i%25 == 0 {
			c.Concurrent = 4 + r.Intn(12)
			// registrations only at the start (quiescent point) for the concurrent variant
			var regs, reqs []c05Step
			for _, s := range c.Steps {
				if s.Register != nil {
					regs = append(regs, s)
				} else {
					reqs = append(reqs, s)
				}
			}
			c.Steps = append(regs, reqs...)
		}
		out = append(out, c)
	}
	return out
}

func c05Shrink(ci any) []any {
	c := ci.(*c05Case)
	var out []any
	for i := range c.Steps {
		if len(c.Steps) <= 1 {
			break
		}
		d := *c
		d.Steps = append(append([]c05Step(nil), c.Steps[:i]...), c.Steps[i+1:]...)
		out = append(out, &d)
	}
	for i, s := range c.Steps {
		if len(s.Prog) > 0 {
			d := *c
			d.Steps = append([]c05Step(nil), c.Steps...)
			s2 := s
			s2.Prog = s.Prog[:len(s.Prog)-1]
			d.Steps[i] = s2
			out = append(out, &d)
		}
	}
	return out
}

func init() {
	register(&Prop{
		ID:             "C05",
		Rule:           "histories of 2-12 requests through ONE Echo (routes with 0-4 parameters and wildcards) whose handlers dirty every setter (Set, SetParamNames/Values, SetPath, SetLogger, QueryParam cache, WriteHeader/Write, Before/After hooks), panic or fail midway, interleaved with route registrations (some raising the max parameter count); every request's observation at handler start is compared with a FRESH Echo serving only that request; 4% (quick) / 10% (thorough) of the histories are served from 4-15 goroutines (oracle only); non-trivial = history with >= 2 requests, or a registration raising maxParam after a request, or concurrent; distinct = distinct model op lines / cases",
		New:            func() any { return &c05Case{} },
		Gen:            c05Gen,
		Run:            c05Run,
		Shrink:         c05Shrink,
		Correspondence: "C05.runSteps (lean/EchoModel/C05.lean: pool + Reset + Router.find + handler programs) vs Echo.ServeHTTP on one Echo instance",
	})
}
