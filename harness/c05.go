package main

// C05 — requests are isolated from each other under context recycling and concurrency.
// Real code: one Echo instance serving a history of requests (handlers dirty every setter,
// panic or fail midway) interleaved with route registrations.  Model: C05.runSteps.
// Model-free oracle: what a handler observes at start equals what it observes on a FRESH
// Echo (same routes) serving only that request.

import (
	"fmt"
	"math/rand"
	"net/http"
	"net/http/httptest"
	"strconv"
	"strings"
	"sync"

	"github.com/labstack/echo/v4"
	"github.com/labstack/echo/v4/middleware"
	"github.com/labstack/gommon/log"
)

type c05HOp struct {
	Kind string   `json:"kind"`
	A    int      `json:"a,omitempty"`
	B    int      `json:"b,omitempty"`
	L    []string `json:"l,omitempty"`
	S    string   `json:"s,omitempty"`
}

type c05Step struct {
	Register *rRoute  `json:"register,omitempty"`
	Req      *rReq    `json:"req,omitempty"`
	Prog     []c05HOp `json:"prog,omitempty"`
	Probe    bool     `json:"probe,omitempty"` // the observer names six parameters for a moment to look into the spare value slots
	// Wrap (with Register): the route carries a net/http middleware adapted with echo.WrapMiddleware
	Wrap bool `json:"wrap,omitempty"`
}

type c05Case struct {
	Steps      []c05Step `json:"steps"`
	Concurrent int       `json:"concurrent,omitempty"` // >0: serve the requests from that many goroutines (oracle only)
	// Recover: the application installs middleware.Recover() in front of everything: a request whose handler
	// panics midway is answered with 500 and its context goes back to the pool as the handler left it
	Recover bool `json:"recover,omitempty"`
}

type c05Logger struct {
	echo.Logger
	id    int
	owner int // the request that installed this logger
	env   *c05Env
}

// a request-scoped logger must only ever be used while its own request is being served
func (l *c05Logger) used() {
	if l.env != nil && !l.env.concurrent && l.env.serving != 0 && l.env.serving != l.owner {
		l.env.leak = fmt.Sprintf("logger installed by request %d was used while request %d was served", l.owner, l.env.serving)
	}
}
func (l *c05Logger) Print(i ...interface{})                    { l.used() }
func (l *c05Logger) Printf(format string, args ...interface{}) { l.used() }
func (l *c05Logger) Printj(j log.JSON)                         { l.used() }
func (l *c05Logger) Debug(i ...interface{})                    { l.used() }
func (l *c05Logger) Debugf(format string, args ...interface{}) { l.used() }
func (l *c05Logger) Debugj(j log.JSON)                         { l.used() }
func (l *c05Logger) Info(i ...interface{})                     { l.used() }
func (l *c05Logger) Infof(format string, args ...interface{})  { l.used() }
func (l *c05Logger) Infoj(j log.JSON)                          { l.used() }
func (l *c05Logger) Warn(i ...interface{})                     { l.used() }
func (l *c05Logger) Warnf(format string, args ...interface{})  { l.used() }
func (l *c05Logger) Warnj(j log.JSON)                          { l.used() }
func (l *c05Logger) Error(i ...interface{})                    { l.used() }
func (l *c05Logger) Errorf(format string, args ...interface{}) { l.used() }
func (l *c05Logger) Errorj(j log.JSON)                         { l.used() }

type c05Obs struct {
	kind, hid     int
	path          string
	names, values []string
	staleQuery    string
	store         []string
	logger        string
	status        int
	size          int64
	committed     bool
	staleBefore   int
	staleAfter    int
}

func (o c05Obs) wire() string {
	st := []string{wInt(len(o.store))}
	st = append(st, o.store...)
	return wJoin(wInt(o.kind), wInt(o.hid), wStr(o.path), wStrs(o.names), wStrs(o.values), o.staleQuery,
		strings.Join(st, " "), o.logger, wInt(o.status), wInt64(o.size), wBool(o.committed), wInt(o.staleBefore), wInt(o.staleAfter), "|")
}

type c05Env struct {
	e      *echo.Echo
	nroute int
	shared []string // an application-level slice the handlers pass to SetParamValues again and again
	// sequential histories only: which request is being served, and a logger leak seen meanwhile
	serving    int
	leak       string
	concurrent bool
	recover    bool
	// a second Echo instance of the application (what it mounts below a path with echo.WrapHandler, or serves
	// sub-requests with): fixed routes, the same observer
	mountOnce sync.Once
	mountEnv  *c05Env
}

// c05MountRoutes are the routes of the second instance
var c05MountRoutes = []rRoute{{Method: "GET", Path: "/"}, {Method: "GET", Path: "/a/:x"}, {Method: "GET", Path: "/b/:x/:y"}}

func (env *c05Env) mount() *c05Env {
	env.mountOnce.Do(func() {
		m := c05NewEnvR(env.recover)
		m.concurrent = true // (no request-scoped loggers are installed there)
		for _, r := range c05MountRoutes {
			m.register(r, false)
		}
		env.mountEnv = m
	})
	return env.mountEnv
}

// c05StdWriter / c05Std: a net/http middleware as applications adapt them with echo.WrapMiddleware; it puts a
// writer of its own around the one it is given
type c05StdWriter struct {
	http.ResponseWriter
	st    *c05ReqState
	depth int
}

// A writer chain that leads back to this writer would recurse until the process dies; the writer notices,
// breaks the loop and reports it as an observation of the request.
func (w *c05StdWriter) enter() bool {
	w.depth++
	if w.depth > 3 {
		if w.st != nil {
			w.st.loop = true
		}
		return false
	}
	return true
}
func (w *c05StdWriter) Header() http.Header {
	defer func() { w.depth-- }()
	if !w.enter() {
		return http.Header{}
	}
	return w.ResponseWriter.Header()
}
func (w *c05StdWriter) WriteHeader(code int) {
	defer func() { w.depth-- }()
	if w.enter() {
		w.ResponseWriter.WriteHeader(code)
	}
}
func (w *c05StdWriter) Write(b []byte) (int, error) {
	defer func() { w.depth-- }()
	if !w.enter() {
		return len(b), nil
	}
	return w.ResponseWriter.Write(b)
}
func (w *c05StdWriter) Flush() {
	defer func() { w.depth-- }()
	if w.enter() {
		http.NewResponseController(w.ResponseWriter).Flush()
	}
}

// c05WriterLoop: does the chain of writers behind w lead back to a writer it already contains?
func c05WriterLoop(w http.ResponseWriter) bool {
	seen := map[http.ResponseWriter]bool{}
	for i := 0; i < 32 && w != nil; i++ {
		if seen[w] {
			return true
		}
		seen[w] = true
		u, ok := w.(interface{ Unwrap() http.ResponseWriter })
		if !ok {
			break
		}
		w = u.Unwrap()
	}
	return false
}

func c05Std(next http.Handler) http.Handler {
	return http.HandlerFunc(func(w http.ResponseWriter, r *http.Request) {
		st, _ := r.Context().Value(c05CtxKey{}).(*c05ReqState)
		next.ServeHTTP(&c05StdWriter{ResponseWriter: w, st: st}, r)
	})
}

var c05SharedPristine = []string{"s1", "s2", "s3", "s4", "s5", "s6"}

type c05ReqState struct {
	flushed bool // the handler flushed its response
	swapped bool // the handler replaced the response object
	id      int
	probe   bool // look into the spare value slots before the handler runs
	prog    []c05HOp
	obs     c05Obs
	inner   []c05Inner
	fwd     []c05Fwd
	loop    bool // a response writer of this request was reached again through its own chain of writers
}

type c05Inner struct {
	q     rReq
	id    int
	obs   c05Obs
	mount bool // served by the second instance
}

// c05Fwd: what a forwarded request did to the response it was served on
type c05Fwd struct {
	committed bool
	status    int
	grew      int64
}

const c05Key = "c05-state"

func c05NewEnv() *c05Env { return c05NewEnvR(false) }

func c05NewEnvR(rec bool) *c05Env {
	e := echo.New()
	e.Logger.SetOutput(nopWriter{})
	env := &c05Env{e: e, shared: append([]string{}, c05SharedPristine...), recover: rec}
	if rec {
		e.Use(middleware.RecoverWithConfig(middleware.RecoverConfig{DisablePrintStack: true, DisableStackAll: true, StackSize: 1 << 10}))
	}
	// the application derives the client address from a header of its own (a custom IPExtractor)
	e.IPExtractor = func(r *http.Request) string { return r.Header.Get("X-Client") }
	e.Use(func(next echo.HandlerFunc) echo.HandlerFunc {
		return func(c echo.Context) error {
			st := c.Request().Context().Value(c05CtxKey{}).(*c05ReqState)
			// observation at start, before anything request-specific is stored
			o := &st.obs
			o.kind = 1
			o.path = c.Path()
			o.names = append([]string{}, c.ParamNames()...)
			func() {
				defer func() {
					if r := recover(); r != nil {
						o.values = []string{"PANIC"}
					}
				}()
				o.values = append([]string{}, c.ParamValues()...)
			}()
			if st.probe {
				// an application may name more parameters than the route has (SetParamNames): whatever
				// becomes visible that way must be blank, not a value of an earlier request
				names := append([]string{}, c.ParamNames()...)
				c.SetParamNames("q0", "q1", "q2", "q3", "q4", "q5")
				func() {
					defer func() { recover() }()
					all := c.ParamValues()
					for i := len(names); i < len(all); i++ {
						if all[i] != "" {
							o.store = append(o.store, "stale-value-in-spare-slot", strconv.Itoa(i), all[i])
						}
					}
				}()
				c.SetParamNames(names...)
			}
			if ip := c.RealIP(); ip != c.Request().Header.Get("X-Client") {
				o.store = append(o.store, "client-address-of-another-request", ip)
			}
			q := c.QueryParam("q")
			if q == c.Request().URL.Query().Get("q") && c.QueryParam("leak") == "" {
				o.staleQuery = "-"
			} else {
				o.staleQuery = "stale" + q
			}
			for k := 0; k < 4; k++ {
				if v := c.Get("k" + strconv.Itoa(k)); v != nil {
					o.store = append(o.store, strconv.Itoa(k), fmt.Sprint(v))
				}
			}
			if l, ok := c.Logger().(*c05Logger); ok {
				o.logger = strconv.Itoa(l.id)
			} else {
				o.logger = "-"
			}
			// the application's own slice must never be written through by the framework
			for i, v := range env.shared {
				if v != c05SharedPristine[i] {
					o.store = append(o.store, "shared-slice-clobbered", strconv.Itoa(i))
					env.shared[i] = c05SharedPristine[i]
				}
			}
			o.status = c.Response().Status
			o.size = c.Response().Size
			o.committed = c.Response().Committed
			// the chain of writers behind the response ends at the writer this request was given; if it leads back
			// to a writer it already contains, every write would recurse until the process dies: report and stop
			if c05WriterLoop(c.Response()) {
				st.loop = true
				return nil
			}
			return next(c)
		}
	})
	return env
}

type c05CtxKey struct{}

func (env *c05Env) register(r rRoute, wrap bool) {
	hid := env.nroute
	env.nroute++
	var rmw []echo.MiddlewareFunc
	if wrap {
		rmw = append(rmw, echo.WrapMiddleware(c05Std))
	}
	// snap: what the handler can see of its own context (resp = with the response bookkeeping)
	snapOf := func(c echo.Context, resp bool) string {
		vals := "PANIC"
		func() {
			defer func() { recover() }()
			vals = strings.Join(c.ParamValues(), ",")
		}()
		cur, _ := c.Request().Context().Value(c05CtxKey{}).(*c05ReqState)
		id := -1
		if cur != nil {
			id = cur.id
		}
		s := fmt.Sprintf("path=%s names=%s values=%s k=%v,%v,%v,%v q=%s req=%d", c.Path(), strings.Join(c.ParamNames(), ","), vals,
			c.Get("k0"), c.Get("k1"), c.Get("k2"), c.Get("k3"), c.QueryParam("q"), id)
		if resp {
			s += fmt.Sprintf(" status=%d size=%d committed=%v", c.Response().Status, c.Response().Size, c.Response().Committed)
		}
		return s
	}
	env.e.Add(r.Method, r.Path, func(c echo.Context) error {
		st := c.Request().Context().Value(c05CtxKey{}).(*c05ReqState)
		st.obs.kind = 0
		st.obs.hid = hid
		if c05WriterLoop(c.Response()) {
			st.loop = true // (the route's own middleware may have put the response together anew)
			return nil
		}
		if v := c.Get(echo.ContextKeyHeaderAllow); v != nil {
			// the router leaves the Allow value of a 405 / automatic OPTIONS answer in the store of THAT request only;
			// a request that is dispatched to a route has none
			st.obs.store = append(st.obs.store, "allow-value-of-another-request", fmt.Sprint(v))
		}
		failed, silent := false, false
		for _, op := range st.prog {
			switch op.Kind {
			case "set":
				c.Set("k"+strconv.Itoa(op.A), op.B)
			case "setParamNames":
				c.SetParamNames(op.L...)
			case "setParamValues":
				c.SetParamValues(op.L...)
			case "setSharedValues":
				c.SetParamValues(env.shared[:op.A]...)
			case "silent":
				silent = true // the handler will return nil without writing a response itself
			case "setPath":
				c.SetPath(op.S)
			case "setLogger":
				c.SetLogger(&c05Logger{Logger: log.New("x"), id: op.A, owner: st.id, env: env})
			case "queryParam":
				c.QueryParam("q")
			case "writeHeader":
				c.Response().WriteHeader(op.A)
			case "write":
				c.Response().Write(make([]byte, op.A))
			case "flush":
				c.Response().Flush()
				st.flushed = !st.swapped // (after SetResponse the flush rightly goes to the handler's own response)
			case "before":
				owner := st.id
				c.Response().Before(func() {
					cur := c.Request().Context().Value(c05CtxKey{}).(*c05ReqState)
					if cur.id != owner {
						cur.obs.staleBefore++
					}
				})
			case "after":
				owner := st.id
				c.Response().After(func() {
					cur := c.Request().Context().Value(c05CtxKey{}).(*c05ReqState)
					if cur.id != owner {
						cur.obs.staleAfter++
					}
				})
			case "nested":
				// the handler serves another request on the same Echo, synchronously, and then looks at
				// its own context again: the inner request must have had a context of its own
				// (A = 1: the other request goes to the application's second Echo instance)
				snap := func() string { return snapOf(c, true) }
				before := snap()
				target := env
				if op.A == 1 {
					target = env.mount()
				}
				inner := target.serve(1000+st.id, rReq{Method: "GET", Path: op.S}, nil)
				if after := snap(); after != before {
					st.obs.store = append(st.obs.store, "nested-request-clobbered-the-outer-context", before, after)
				}
				st.inner = append(st.inner, c05Inner{rReq{Method: "GET", Path: op.S}, 1000 + st.id, inner, op.A == 1})
				if c05WriterLoop(c.Response()) {
					st.loop = true
					return nil
				}
			case "fanout":
				// the handler fans out: op.A goroutines use THIS request's context store at the same time (Set and Get,
				// keys of their own, a key another goroutine writes, one key all of them write) and are joined before
				// the handler goes on.  Every value a goroutine set and nobody overwrote is read back; nothing but
				// values of this request shows.
				n, rounds := op.A, 3
				bad := make([]string, n+1)
				var wg sync.WaitGroup
				for g := 0; g < n; g++ {
					wg.Add(1)
					go func(g int) {
						defer wg.Done()
						defer func() {
							if r := recover(); r != nil {
								bad[g] = fmt.Sprint("panic: ", r)
							}
						}()
						own, other := "k"+strconv.Itoa(g), "k"+strconv.Itoa((g+1)%n)
						for i := 0; i < rounds; i++ {
							v := c05FanVal(st.id, g, i)
							c.Set(own, v)
							c.Set("fs", v)
							if got := c.Get(own); got != v {
								bad[g] = fmt.Sprintf("%s: set %d, read back %v", own, v, got)
							}
							for _, k := range []string{other, "fs"} {
								if got, ok := c.Get(k).(int); ok && got >= 1000 && got/1000 != st.id {
									bad[g] = fmt.Sprintf("%s holds %d, a value of another request", k, got)
								}
							}
						}
					}(g)
				}
				wg.Wait()
				for g := 0; g < n; g++ {
					if got := c.Get("k" + strconv.Itoa(g)); got != c05FanVal(st.id, g, rounds-1) {
						bad[n] = fmt.Sprintf("after the goroutines were joined k%d holds %v, goroutine %d had set %d last", g, got, g, c05FanVal(st.id, g, rounds-1))
					}
				}
				if fs, ok := c.Get("fs").(int); !ok || fs/1000 != st.id {
					bad[n] = fmt.Sprintf("after the goroutines were joined the key all of them set holds %v", c.Get("fs"))
				}
				for _, b := range bad {
					if b != "" {
						st.obs.store = append(st.obs.store, "fanout-value-lost-or-foreign", b)
						break
					}
				}
			case "forward":
				// the handler hands the request on: another request is served ON THIS REQUEST'S RESPONSE, by the same
				// Echo (an internal redirect: e.ServeHTTP(c.Response(), r2)) or by the second instance (a mount:
				// echo.WrapHandler(inner)).  The other request has a context of its own, with bookkeeping of its own;
				// this context keeps everything but what was written to its response meanwhile.
				before := snapOf(c, false)
				target := env
				if op.A == 1 {
					target = env.mount()
				}
				r0 := *c.Response()
				inner, _ := target.serve4(2000+st.id, rReq{Method: "GET", Path: op.S}, nil, false, c.Response())
				if after := snapOf(c, false); after != before {
					st.obs.store = append(st.obs.store, "forwarded-request-clobbered-the-outer-context", before, after)
				}
				st.inner = append(st.inner, c05Inner{rReq{Method: "GET", Path: op.S}, 2000 + st.id, inner, op.A == 1})
				st.fwd = append(st.fwd, c05Fwd{committed: !r0.Committed && c.Response().Committed, status: c.Response().Status, grew: c.Response().Size - r0.Size})
				if c05WriterLoop(c.Response()) {
					st.loop = true
					return nil
				}
			case "setRequest":
				// the handler replaces the request (as a rewriting middleware would): same identity for the
				// observer, another query string, and the query cache is filled from it
				r2 := c.Request().Clone(c.Request().Context())
				if op.A == 0 {
					r2.URL.RawQuery = "q=9999&leak=1"
					c.SetRequest(r2)
					c.QueryParam("q")
				} else {
					// cache filled from the original query first, then the request is replaced by one whose
					// query string equals that of other requests
					c.QueryParam("q")
					r2.URL.RawQuery = "q=same"
					c.SetRequest(r2)
				}
			case "poisonQuery":
				// the handler edits the parsed query it was given
				c.QueryParams()["q"] = []string{"poisoned"}
				c.QueryParams()["leak"] = []string{"1"}
			case "setResponse":
				// the handler swaps the response object for one of its own and dirties it
				c.SetResponse(echo.NewResponse(httptest.NewRecorder(), env.e))
				st.swapped = true
				if op.A > 0 {
					c.Response().WriteHeader(op.A)
				}
			case "setHandler":
				c.SetHandler(func(echo.Context) error { return echo.NewHTTPError(http.StatusTeapot, "left-over handler") })
			case "panic":
				panic("handler panics midway")
			case "fail":
				failed = true
			}
		}
		if failed {
			return echo.NewHTTPError(http.StatusTeapot, "handler failed")
		}
		if silent {
			return nil
		}
		if !c.Response().Committed {
			return c.NoContent(http.StatusOK)
		}
		_, err := c.Response().Write([]byte("x")) // make after-hooks of the response fire
		return err
	}, rmw...)
}

// borrowContext: AcquireContext / use / ReleaseContext, as an application does for work outside a request.
func (env *c05Env) borrowContext(id int) {
	defer func() { recover() }()
	c := env.e.AcquireContext()
	target := "/borrowed?q=borrowed"
	if id%2 == 0 {
		target = "/borrowed" // no query string at all
	}
	req := httptest.NewRequest("GET", target, nil)
	c.Reset(req, httptest.NewRecorder())
	c.SetPath("/borrowed/:b1/:b2")
	c.SetParamNames("b1", "b2", "b3", "b4", "b5", "b6")
	c.SetParamValues("bv1", "bv2", "bv3", "bv4", "bv5", "bv6")
	c.Set("k"+strconv.Itoa(id%4), "borrowed")
	c.QueryParam("q")
	c.QueryParams()["leak"] = []string{"1"}
	c.SetLogger(&c05Logger{Logger: log.New("x"), id: 77, owner: -1, env: env})
	c.Response().Before(func() {})
	c.Response().WriteHeader(http.StatusTeapot)
	c.Response().Write([]byte("borrowed"))
	env.e.ReleaseContext(c)
}

func (env *c05Env) serve(id int, q rReq, prog []c05HOp) c05Obs {
	o, _ := env.serve2(id, q, prog)
	return o
}

func (env *c05Env) serve2(id int, q rReq, prog []c05HOp) (c05Obs, []c05Inner) {
	return env.serve3(id, q, prog, false)
}

func (env *c05Env) serve3(id int, q rReq, prog []c05HOp, probe bool) (ro c05Obs, rin []c05Inner) {
	st := env.serve5(id, q, prog, probe, nil)
	return st.obs, st.inner
}

// serve4: like serve3, on the writer `on` (nil: a recorder of its own)
func (env *c05Env) serve4(id int, q rReq, prog []c05HOp, probe bool, on http.ResponseWriter) (ro c05Obs, rin []c05Inner) {
	st := env.serve5(id, q, prog, probe, on)
	return st.obs, st.inner
}

func (env *c05Env) serve5(id int, q rReq, prog []c05HOp, probe bool, on http.ResponseWriter) (rst *c05ReqState) {
	st := &c05ReqState{id: id, prog: prog, probe: probe}
	rst = st
	ro := &st.obs
	if !env.concurrent {
		outer := env.serving
		env.serving = id
		defer func() {
			env.serving = outer
			if env.leak != "" {
				ro.store = append(ro.store, "logger-leak", env.leak)
				env.leak = ""
			}
		}()
	}
	func() {
		defer func() {
			if r := recover(); r != nil {
				if st.obs.kind != 0 {
					// panic before any handler ran: inside routing
					st.obs = c05Obs{kind: 3, staleQuery: "-", logger: "-", status: 200}
				}
			}
		}()
		req := rNewRequest(q)
		req.URL.RawQuery = "q=" + strconv.Itoa(id)
		if id%3 == 0 {
			// some requests carry byte-identical query strings (what a handler did to the parsed query of
			// one of them must not show in another)
			req.URL.RawQuery = "q=same"
		}
		if id%5 == 0 {
			req.URL.RawQuery = "" // ... and some carry none at all
		}
		req = req.WithContext(contextWith(req, st))
		req.Header.Set("X-Client", "client-"+strconv.Itoa(id))
		rec := httptest.NewRecorder()
		defer func() {
			if st.loop {
				st.obs.store = append(st.obs.store, "response-writer-chain-leads-back-to-itself")
			}
		}()
		if on != nil {
			// (the status of a response that is committed already says nothing about this request: a 405 / automatic
			// OPTIONS answer is recognised by the Allow header it sets)
			on.Header().Del("Allow")
			env.e.ServeHTTP(on, req)
			if c05WriterLoop(on) {
				st.loop = true
				return
			}
			if st.obs.kind == 1 && on.Header().Get("Allow") != "" {
				st.obs.kind = 2
			}
			return
		}
		env.e.ServeHTTP(rec, req)
		if st.flushed && !rec.Flushed {
			st.obs.store = append(st.obs.store, "flush-did-not-reach-this-request's-writer")
		}
		if st.obs.kind == 1 && (rec.Code == http.StatusMethodNotAllowed || (rec.Code == http.StatusNoContent && rec.Result().Header.Get("Allow") != "")) {
			st.obs.kind = 2
		}
	}()
	return st
}

// c05FanVal: what goroutine g of request id stores in round i
func c05FanVal(id, g, i int) int { return id*1000 + 100*(g+1) + i }

func c05HOpWire(op c05HOp) string {
	switch op.Kind {
	case "set":
		return wJoin("0", wInt(op.A), wInt(op.B))
	case "setParamNames":
		return wJoin("1", wStrs(op.L))
	case "setParamValues":
		return wJoin("2", wStrs(op.L))
	case "setPath":
		return wJoin("3", wStr(op.S))
	case "setLogger":
		return wJoin("4", wInt(op.A))
	case "queryParam":
		return "5"
	case "writeHeader":
		return wJoin("6", wInt(op.A))
	case "write":
		return wJoin("7", wInt(op.A))
	case "flush":
		return "6 200" // an uncommitted response is committed with the pending status (200); else nothing
	case "before":
		return wJoin("8", wInt(op.A))
	case "after":
		return wJoin("9", wInt(op.A))
	case "panic":
		return "10"
	case "setSharedValues":
		return wJoin("2", wStrs(c05SharedPristine[:op.A]))
	case "nested", "forward":
		return "5" // nothing happens to the outer context (what a forwarded request writes to the response: see c05Run)
	case "setRequest":
		if op.A == 0 {
			return "12 9999\x005" // two ops: SetRequest, then the query cache is filled from the new request
		}
		return "5\x0012 9998" // two ops: cache filled from the original request, then SetRequest
	case "poisonQuery":
		return "13 9997"
	case "setHandler":
		return "14 1"
	case "setResponse":
		return wJoin("15", wInt(op.A))
	case "silent":
		return "11" // like fail for the context: nothing more happens to it
	}
	return "11"
}

func c05Run(ci any) Result {
	c := ci.(*c05Case)
	env := c05NewEnvR(c.Recover)
	var routes []rRoute
	var wraps []bool
	freshEnv := func() *c05Env {
		f := c05NewEnvR(c.Recover)
		for i, r := range routes {
			f.register(r, wraps[i])
		}
		return f
	}
	freshMount := func() *c05Env { return c05NewEnvR(c.Recover).mount() }
	ops := []string{"<nsteps>"}
	nsteps := len(c.Steps)
	var obsParts []string
	res := Result{}
	fail := func(s string) {
		if res.Oracle == "" {
			res.Oracle = s
		}
	}
	tags := []string{}
	type job struct {
		id     int
		q      rReq
		prog   []c05HOp
		routes []rRoute
	}
	var jobs []job
	reqID := 0
	maxParamBefore := 0
	for _, s := range c.Steps {
		if s.Register != nil {
			env.register(*s.Register, s.Wrap)
			routes = append(routes, *s.Register)
			wraps = append(wraps, s.Wrap)
			if s.Wrap {
				tags = append(tags, "route-with-wrapped-std-middleware")
			}
			ops = append(ops, "1", wStr(s.Register.Method), wStr(s.Register.Path), wInt(len(routes)-1))
			if mp := rMaxParam(routes); mp > maxParamBefore && reqID > 0 {
				tags = append(tags, "registration-raises-maxparam")
				res.Nontrivial = true
			}
			maxParamBefore = rMaxParam(routes)
			continue
		}
		reqID++
		jobs = append(jobs, job{reqID, *s.Req, s.Prog, append([]rRoute(nil), routes...)})
		var o c05Obs
		var inner []c05Inner
		var fwd []c05Fwd
		if c.Concurrent == 0 && reqID == 2 && len(c.Steps)%2 == 0 {
			// between two requests the application also registers a route with MORE parameters than any other on a
			// host router, and serves a request for that host: no later request may fail, the new one included
			func() {
				defer func() {
					if r := recover(); r != nil {
						fail(fmt.Sprintf("request for a route registered on a host router between requests failed: %v", r))
					}
				}()
				ran := false
				env.e.Host("many.example").GET("/h/:a/:b/:c/:d/:e/:f/:g/:h/:i", func(c echo.Context) error {
					ran = len(c.ParamValues()) == 9 && c.Param("i") == "9"
					return c.NoContent(http.StatusOK)
				})
				rq := httptest.NewRequest("GET", "/h/1/2/3/4/5/6/7/8/9", nil)
				rq.Host = "many.example"
				rq = rq.WithContext(contextWith(rq, &c05ReqState{id: 5000}))
				rec := httptest.NewRecorder()
				env.e.ServeHTTP(rec, rq)
				if !ran {
					fail(fmt.Sprintf("route registered on a host router between requests was not served: status %d", rec.Code))
				}
			}()
			tags = append(tags, "host-route-with-more-params-registered")
		}
		if c.Concurrent == 0 {
			if (reqID*7+len(s.Req.Path))%4 == 0 {
				// the application borrows a context from the pool (Echo.AcquireContext), uses it for work of its
				// own and gives it back (Echo.ReleaseContext): whatever it left in it must not reach a request
				env.borrowContext(reqID)
				tags = append(tags, "app-borrowed-pooled-context")
				// the same for the model: Reset(id 7777); SetPath; SetParamNames(6); SetParamValues(6); Set; QueryParam;
				// SetLogger; Before; WriteHeader(418); Write(8)
				six := func(p string) []string {
					var l []string
					for i := 1; i <= 6; i++ {
						l = append(l, p+strconv.Itoa(i))
					}
					return l
				}
				bops := []string{wJoin("3", wStr("/borrowed/:b1/:b2")), wJoin("1", wStrs(six("b"))), wJoin("2", wStrs(six("bv"))),
					wJoin("0", wInt(reqID%4), "99"), "5", "13 9997", "4 77", "8 0", "6 418", "7 8"}
				ops = append(ops, "2", "7777", wInt(len(bops))+" "+strings.Join(bops, " "))
				nsteps++
			}
			st := env.serve5(reqID, *s.Req, s.Prog, s.Probe, nil)
			o, inner, fwd = st.obs, st.inner, st.fwd
		}
		{
			progW := []string{}
			if s.Probe && c.Concurrent == 0 && o.kind != 3 && (o.kind == 0 || o.kind == 1 || o.kind == 2) {
				// for the model the probe is: SetParamNames(six names); SetParamNames(the route's names)
				progW = append(progW, wJoin("1", wStrs([]string{"q0", "q1", "q2", "q3", "q4", "q5"})), wJoin("1", wStrs(o.names)))
				tags = append(tags, "spare-slot-probe")
			}
			if o.kind == 0 && o.hid < len(wraps) && wraps[o.hid] {
				// echo.WrapMiddleware: SetRequest (the same request), SetResponse(NewResponse(..)), not undone
				progW = append(progW, "15 0")
			}
			for _, op := range s.Prog {
				if op.Kind == "panic" && c.Recover {
					// the recover middleware ends the request here; the context goes back to the pool as it is
					tags = append(tags, "panic-recovered-context-recycled")
					break
				}
				if op.Kind == "fanout" {
					// for the model: the values that are in the store when the goroutines have been joined
					for g := 0; g < op.A; g++ {
						progW = append(progW, wJoin("0", wInt(g), wInt(c05FanVal(reqID, g, 2))))
					}
					tags = append(tags, "handler-fans-out-on-its-context")
					continue
				}
				if op.Kind == "forward" && len(fwd) > 0 {
					// for this context a forwarded request is what it wrote to the response
					if fwd[0].committed {
						progW = append(progW, wJoin("6", wInt(fwd[0].status)))
					}
					if fwd[0].grew > 0 {
						progW = append(progW, wJoin("7", wInt64(fwd[0].grew)))
					}
					fwd = fwd[1:]
					continue
				}
				progW = append(progW, strings.Split(c05HOpWire(op), "\x00")...)
			}
			ops = append(ops, "0", wInt(reqID), wStr(s.Req.Method), wStr(s.Req.Path), wInt(len(progW))+" "+strings.Join(progW, " "))
		}
		if c.Concurrent == 0 {
			obsParts = append(obsParts, o.wire())
			for _, in := range inner {
				how := "nested in"
				if in.id >= 2000 {
					how = "served on the response of"
					tags = append(tags, "forwarded-request")
				} else {
					tags = append(tags, "nested-request")
				}
				fresh := freshEnv()
				if in.mount {
					fresh = freshMount()
					tags = append(tags, "second-echo-instance")
				}
				if want := fresh.serve(in.id, in.q, nil); in.obs.wire() != want.wire() {
					fail(fmt.Sprintf("request %d %s request %d (GET %q): handler observes %s, on a fresh Echo %s", in.id, how, reqID, in.q.Path, in.obs.wire(), want.wire()))
				}
			}
			// model-free oracle: a fresh Echo with the same routes serving only this request
			fresh := freshEnv()
			want := fresh.serve(reqID, *s.Req, nil)
			if o.wire() != want.wire() {
				fail(fmt.Sprintf("request %d (%s %q): handler observes %s, on a fresh Echo %s", reqID, s.Req.Method, s.Req.Path, o.wire(), want.wire()))
			}
			if o.kind == 3 {
				fail(fmt.Sprintf("request %d (%s %q) failed inside routing after earlier requests/registrations", reqID, s.Req.Method, s.Req.Path))
			}
			tags = append(tags, "outcome-"+strconv.Itoa(o.kind))
			for _, op := range s.Prog {
				if op.Kind == "panic" {
					tags = append(tags, "handler-panic")
				}
			}
		}
	}
	if c.Concurrent > 0 {
		// all registrations happened (quiescent); now fire the requests from several goroutines
		env.concurrent = true
		tags = append(tags, "concurrent")
		want := make([]string, len(jobs))
		for i, j := range jobs {
			want[i] = freshEnv().serve(j.id, j.q, nil).wire()
		}
		env.mount()
		got := make([]string, len(jobs))
		var wg sync.WaitGroup
		// two host routers with a route of their own: requests for them run concurrently with everything else and
		// must be answered by their own host's handler
		hostBad := make([]string, 2)
		for h := 0; h < 2; h++ {
			h := h
			env.e.Host("host"+strconv.Itoa(h)+".example").GET("/who/:x", func(c echo.Context) error {
				return c.String(http.StatusOK, "host"+strconv.Itoa(h)+":"+c.Param("x"))
			})
		}
		for h := 0; h < 2; h++ {
			wg.Add(1)
			go func(h int) {
				defer wg.Done()
				defer func() { recover() }()
				for it := 0; it < 400; it++ {
					rq := httptest.NewRequest("GET", "/who/"+strconv.Itoa(it), nil)
					rq.Host = "host" + strconv.Itoa(h) + ".example"
					rq = rq.WithContext(contextWith(rq, &c05ReqState{id: 9000 + h}))
					rec := httptest.NewRecorder()
					env.e.ServeHTTP(rec, rq)
					if want := "host" + strconv.Itoa(h) + ":" + strconv.Itoa(it); rec.Body.String() != want && hostBad[h] == "" {
						hostBad[h] = fmt.Sprintf("concurrent request for host%d.example /who/%d answered %d %q, want %q", h, it, rec.Code, rec.Body.String(), want)
					}
				}
			}(h)
		}

		for g := 0; g < c.Concurrent; g++ {
			wg.Add(1)
			go func(g int) {
				defer wg.Done()
				for rep := 0; rep < 3; rep++ {
					for i := g; i < len(jobs); i += c.Concurrent {
						got[i] = env.serve(jobs[i].id, jobs[i].q, jobs[i].prog).wire()
					}
				}
			}(g)
		}
		wg.Wait()
		for _, b := range hostBad {
			if b != "" {
				fail(b)
			}
		}
		for i := range jobs {
			if got[i] != want[i] {
				fail(fmt.Sprintf("concurrent request %d (%s %q): handler observes %s, on a fresh Echo %s", jobs[i].id, jobs[i].q.Method, jobs[i].q.Path, got[i], want[i]))
			}
		}
		res.Nontrivial = true
		res.Tags = tags
		return res
	}
	if reqID >= 2 {
		res.Nontrivial = true
	}
	ops[0] = wInt(nsteps)
	res.Ops = strings.Join(ops, " ")
	res.Obs = strings.Join(obsParts, " ")
	res.Tags = tags
	return res
}

var c05Paths = []string{"/", "/a", "/a/:x", "/b/:x/:y", "/c/:x/:y/:z", "/d/:p/:q/:r/:s", "/a/:x/e", "/files/*", "/b/:x/*"}

func c05GenProg(r *rand.Rand) []c05HOp {
	n := r.Intn(7)
	var p []c05HOp
	for i := 0; i < n; i++ {
		if r.Intn(16) == 0 {
			p = append(p, c05HOp{Kind: "fanout", A: 2 + r.Intn(3)})
			continue
		}
		switch r.Intn(14) % 13 {
		case 0:
			p = append(p, c05HOp{Kind: "set", A: r.Intn(4), B: 1 + r.Intn(9)})
		case 1:
			p = append(p, c05HOp{Kind: "setParamNames", L: []string{"u", "v", "w", "x", "y", "z"}[:r.Intn(7)]})
		case 2:
			p = append(p, c05HOp{Kind: "setParamValues", L: []string{"dirty1", "dirty2", "dirty3", "dirty4", "dirty5", "dirty6"}[:r.Intn(7)]})
		case 3:
			p = append(p, c05HOp{Kind: "setPath", S: "/dirty"})
		case 4:
			p = append(p, c05HOp{Kind: "setLogger", A: 1 + r.Intn(5)})
		case 5:
			p = append(p, c05HOp{Kind: "queryParam"})
		case 6:
			p = append(p, c05HOp{Kind: "writeHeader", A: []int{200, 201, 404, 500}[r.Intn(4)]})
		case 7:
			if r.Intn(4) == 0 {
				p = append(p, c05HOp{Kind: "flush"})
			} else {
				p = append(p, c05HOp{Kind: "write", A: 1 + r.Intn(20)})
			}
		case 8:
			p = append(p, c05HOp{Kind: "before", A: 1 + r.Intn(5)})
		case 9:
			p = append(p, c05HOp{Kind: "after", A: 1 + r.Intn(5)})
		case 10:
			if r.Intn(3) == 0 {
				p = append(p, c05HOp{Kind: "panic"})
			}
		case 11:
			p = append(p, c05HOp{Kind: "fail"})
		case 12:
			if r.Intn(3) == 0 {
				p = append(p, c05GenSub(r))
			} else if r.Intn(2) == 0 {
				p = append(p, c05HOp{Kind: "setSharedValues", A: 1 + r.Intn(6)})
			} else if r.Intn(2) == 0 {
				p = append(p, c05HOp{Kind: []string{"setRequest", "setResponse", "setHandler", "poisonQuery"}[r.Intn(4)], A: []int{0, 201, 500}[r.Intn(3)]})
			} else {
				p = append(p, c05HOp{Kind: "silent"})
			}
		}
	}
	return p
}

// c05GenSub: the handler causes another request to be served while its own is in progress: on a recorder of its
// own (nested) or on this request's response (forward); by the same Echo or by the application's second instance
func c05GenSub(r *rand.Rand) c05HOp {
	op := c05HOp{Kind: []string{"nested", "nested", "forward"}[r.Intn(3)], S: []string{"/", "/a/n1", "/b/n1/n2", "/c/n1/n2/n3", "/files/n", "/nowhere"}[r.Intn(6)]}
	if r.Intn(3) == 0 {
		op.A = 1
		op.S = []string{"/", "/a/n1", "/b/n1/n2", "/nowhere"}[r.Intn(4)]
	}
	return op
}

func c05Gen(r *rand.Rand, tier string) []any {
	n := 1500
	if tier == "thorough" {
		n = 20000
	}
	var out []any
	for i := 0; i < n; i++ {
		c := &c05Case{Recover: r.Intn(3) == 0}
		var routes []rRoute
		wrapSome := r.Intn(3) == 0
		// overlap: a history aimed at two requests being in progress at once after something unusual happened to
		// a pooled object (a recovered panic below a wrapped middleware, a request served on another's response)
		overlap := r.Intn(8) == 0
		if overlap {
			c.Recover, wrapSome = true, true
		}
		reg := func() {
			rt := rRoute{Method: []string{"GET", "GET", "POST"}[r.Intn(3)], Path: c05Paths[r.Intn(len(c05Paths))]}
			if overlap {
				rt.Method = "GET"
			}
			routes = append(routes, rt)
			c.Steps = append(c.Steps, c05Step{Register: &rt, Wrap: wrapSome && r.Intn(2) == 0})
		}
		k := 1 + r.Intn(3)
		for j := 0; j < k; j++ {
			reg()
		}
		nreq := 2 + r.Intn(10)
		for j := 0; j < nreq; j++ {
			if r.Intn(5) == 0 {
				reg()
			}
			q := rReq{Method: rGenMethod(r, routes), Path: rGenPath(r, routes)}
			prog := c05GenProg(r)
			if r.Intn(6) == 0 {
				// the fan-out is the first thing that touches the store of the recycled context
				prog = append([]c05HOp{{Kind: "fanout", A: 2 + r.Intn(3)}}, prog...)
			}
			if overlap {
				// first half of the history: panics and forwards; second half: sub-requests in the middle of the handler
				var extra c05HOp
				if j < nreq/2 {
					extra = []c05HOp{{Kind: "panic"}, {Kind: "forward", S: "/a/n1"}, {Kind: "forward", S: "/", A: 1}, {Kind: "forward", S: "/nowhere"}}[r.Intn(4)]
				} else {
					extra = c05GenSub(r)
				}
				at := r.Intn(len(prog) + 1)
				prog = append(prog[:at:at], append([]c05HOp{extra}, prog[at:]...)...)
				q.Method = "GET"
			}
			c.Steps = append(c.Steps, c05Step{Req: &q, Prog: prog, Probe: r.Intn(3) == 0})
		}
		if tier == "thorough" && i%10 == 0 || tier != "thorough" && i%25 == 0 {
			c.Concurrent = 4 + r.Intn(12)
			// registrations only at the start (quiescent point) for the concurrent variant
			var regs, reqs []c05Step
			for _, s := range c.Steps {
				if s.Register != nil {
					regs = append(regs, s)
				} else {
					reqs = append(reqs, s)
				}
			}
			c.Steps = append(regs, reqs...)
		}
		out = append(out, c)
	}
	return out
}

func c05Shrink(ci any) []any {
	c := ci.(*c05Case)
	var out []any
	if c.Recover {
		d := *c
		d.Recover = false
		out = append(out, &d)
	}
	for i, s := range c.Steps {
		if s.Wrap {
			d := *c
			d.Steps = append([]c05Step(nil), c.Steps...)
			d.Steps[i].Wrap = false
			out = append(out, &d)
		}
	}
	for i := range c.Steps {
		if len(c.Steps) <= 1 {
			break
		}
		d := *c
		d.Steps = append(append([]c05Step(nil), c.Steps[:i]...), c.Steps[i+1:]...)
		out = append(out, &d)
	}
	for i, s := range c.Steps {
		if len(s.Prog) > 0 {
			d := *c
			d.Steps = append([]c05Step(nil), c.Steps...)
			s2 := s
			s2.Prog = s.Prog[:len(s.Prog)-1]
			d.Steps[i] = s2
			out = append(out, &d)
		}
	}
	return out
}

func init() {
	register(&Prop{
		ID:             "C05",
		Rule:           "histories of 2-12 requests through ONE Echo (routes with 0-4 parameters and wildcards) whose handlers dirty every setter (Set, SetParamNames/Values, SetPath, SetLogger, QueryParam cache, WriteHeader/Write, Before/After hooks), panic or fail midway (a third of the applications install middleware.Recover: the context of a panicking request is recycled as it is), serve another request in the middle of their own (on a recorder of its own, or ON THEIR OWN RESPONSE: forward / mount; by the same Echo or by a second instance), fan out into 2-4 goroutines that Set/Get on the request's own context (also as the first use of the store after recycling); a third of the applications put echo.WrapMiddleware(net/http middleware) on some routes; interleaved with route registrations (some raising the max parameter count); every request's observation at handler start is compared with a FRESH Echo serving only that request; 4% (quick) / 10% (thorough) of the histories are served from 4-15 goroutines (oracle only); non-trivial = history with >= 2 requests, or a registration raising maxParam after a request, or concurrent; distinct = distinct model op lines / cases",
		New:            func() any { return &c05Case{} },
		Gen:            c05Gen,
		Run:            c05Run,
		Shrink:         c05Shrink,
		Correspondence: "C05.runSteps (lean/EchoModel/C05.lean: pool + Reset + Router.find + handler programs) vs Echo.ServeHTTP on one Echo instance",
	})
}
