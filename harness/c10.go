package main

// C10 — configured client-IP extraction cannot be steered by forgeable headers.
// Real code: echo.ExtractIPDirect / ExtractIPFromRealIPHeader / ExtractIPFromXFFHeader with
// every TrustOption, called directly and through Context.RealIP (e.ServeHTTP).
// Model: lean/EchoModel/C10.lean (realIPCtx, trust).

import (
	"encoding/json"
	"fmt"
	"math/rand"
	"net"
	"net/http"
	"net/http/httptest"
	"net/netip"
	"strings"
	"sync"

	"github.com/labstack/echo/v4"
)

// lat1 is a Go byte string that survives JSON: every byte is written as the rune of that
// code point (Latin-1 view) and read back the same way.
type lat1 string

func (s lat1) MarshalJSON() ([]byte, error) {
	r := make([]rune, 0, len(s))
	for i := 0; i < len(s); i++ {
		r = append(r, rune(s[i]))
	}
	return json.Marshal(string(r))
}

func (s *lat1) UnmarshalJSON(b []byte) error {
	var t string
	if err := json.Unmarshal(b, &t); err != nil {
		return err
	}
	out := make([]byte, 0, len(t))
	for _, r := range t {
		out = append(out, byte(r))
	}
	*s = lat1(out)
	return nil
}

func lat1s(l []string) []lat1 {
	out := make([]lat1, len(l))
	for i, s := range l {
		out[i] = lat1(s)
	}
	return out
}

func unlat1s(l []lat1) []string {
	out := make([]string, len(l))
	for i, s := range l {
		out[i] = string(s)
	}
	return out
}

type c10Net struct {
	IP   []byte `json:"ip"`
	Mask []byte `json:"mask"`
}

// c10Opt is one TrustOption as passed to the extractor constructor.
type c10Opt struct {
	K   int     `json:"k"`             // 0 TrustLoopback(V), 1 TrustLinkLocal(V), 2 TrustPrivateNet(V), 3 TrustIPRange(Net)
	V   bool    `json:"v,omitempty"`   // K 0..2
	Net *c10Net `json:"net,omitempty"` // K 3
}

type c10ReqJ struct {
	Remote lat1   `json:"remote"`
	Real   []lat1 `json:"real"`
	XFF    []lat1 `json:"xff"`
}

type c10Phase struct {
	Ext  int       `json:"ext"`
	Opts []c10Opt  `json:"opts"`
	Reqs []c10ReqJ `json:"reqs"`
}

type c10Case struct {
	Kind int `json:"kind"` // 0 = requests through one extractor, 1 = classification table
	Ext  int `json:"ext"`  // 0 direct, 1 X-Real-IP, 2 X-Forwarded-For
	// the options in the order they are given to ExtractIPFrom...Header(opts...): any
	// interleaving of flag and range options, flags repeated, flags absent (default true)
	Opts []c10Opt `json:"opts"`
	// the property's reading of Opts (derive): a flag is the last value given for it, true when
	// the option is absent; every range counts
	LB   bool     `json:"-"`
	LL   bool     `json:"-"`
	PN   bool     `json:"-"`
	Nets []c10Net `json:"-"`
	// further, unrelated requests served afterwards by the same Echo instance / extractor
	// closure; the base request is repeated after them and must give the same answer
	More []c10ReqJ `json:"more"`
	// round 6: the application REPLACES Echo.IPExtractor after the requests above were served (and while a
	// context acquired earlier is still held): these requests go through the same Echo instance afterwards
	Phase2 *c10Phase `json:"phase2,omitempty"`
	// Kind 2: the requests of More are issued concurrently through ONE extractor / one Echo
	Par  int `json:"par,omitempty"`  // goroutines
	Iter int `json:"iter,omitempty"` // calls per goroutine
	// Kind 0
	Remote lat1     `json:"remote"`
	Real   []lat1   `json:"real"`     // X-Real-Ip values
	XFF    []lat1   `json:"xff"`      // X-Forwarded-For lines
	Alt    [][]lat1 `json:"alt"`      // attacker-chosen replacement prefixes (lists of entries)
	AltR   []lat1   `json:"alt_real"` // attacker-chosen replacement X-Real-Ip values
	// round 8: OTHER request headers an attacker (or an intermediary) may add — Forwarded, X-Client-IP, True-Client-IP,
	// CF-Connecting-IP, X-Forwarded-Host ...: name, value.  The base request is served once more with them; no extractor may
	// look at anything but RemoteAddr and its own header
	Extra [][2]lat1 `json:"extra,omitempty"`
	// Kind 1
	Addrs []string `json:"addrs"` // IP literals
	// Kind 3 (c10_parse.go): tokens for net.ParseIP vs the model's parseIP
	Toks []lat1 `json:"toks,omitempty"`
}

type c10Req struct {
	remote string
	real   []string
	xff    []string
	extra  [][2]string // further request headers (neither X-Real-Ip nor X-Forwarded-For)
}

// derive evaluates the option list the way the property reads it.
func (c *c10Case) derive() {
	c.LB, c.LL, c.PN, c.Nets = true, true, true, nil
	for _, o := range c.Opts {
		switch o.K {
		case 0:
			c.LB = o.V
		case 1:
			c.LL = o.V
		case 2:
			c.PN = o.V
		default:
			if o.Net != nil {
				c.Nets = append(c.Nets, *o.Net)
			}
		}
	}
}

func (n c10Net) ipnet() *net.IPNet {
	nn := &net.IPNet{IP: net.IP(append([]byte(nil), n.IP...)), Mask: net.IPMask(append([]byte(nil), n.Mask...))}
	if len(n.IP) == 0 {
		nn.IP = nil
	}
	if len(n.Mask) == 0 {
		nn.Mask = nil
	}
	return nn
}

// options builds the real TrustOption values in the order of c.Opts and, separately, the
// ranges for the reference reading (own copies).
func (c *c10Case) options() ([]echo.TrustOption, []*net.IPNet) {
	c.derive()
	var opts []echo.TrustOption
	for _, o := range c.Opts {
		switch o.K {
		case 0:
			opts = append(opts, echo.TrustLoopback(o.V))
		case 1:
			opts = append(opts, echo.TrustLinkLocal(o.V))
		case 2:
			opts = append(opts, echo.TrustPrivateNet(o.V))
		default:
			if o.Net != nil {
				opts = append(opts, echo.TrustIPRange(o.Net.ipnet()))
			}
		}
	}
	var nets []*net.IPNet
	for _, n := range c.Nets {
		nets = append(nets, n.ipnet())
	}
	return opts, nets
}

func (c *c10Case) cfgWire() string {
	var parts []string
	k := 0
	for _, o := range c.Opts {
		switch o.K {
		case 0, 1, 2:
			parts = append(parts, wInt(o.K), wBool(o.V))
			k++
		default:
			if o.Net != nil {
				parts = append(parts, "3", wBytes(o.Net.IP), wBytes(o.Net.Mask))
				k++
			}
		}
	}
	return strings.Join(append([]string{wInt(k)}, parts...), " ")
}

func (c *c10Case) optTags() []string {
	t := []string{fmt.Sprintf("opts-%d", c10Min(len(c.Opts), 8))}
	seenFlag, rangeFirst, repeated, sameTwice := map[int]bool{}, false, false, false
	nr := 0
	for i, o := range c.Opts {
		if o.K == 3 {
			nr++
			for _, p := range c.Opts[i+1:] {
				if p.K != 3 {
					rangeFirst = true
				}
			}
			continue
		}
		if seenFlag[o.K] {
			repeated = true
			for _, p := range c.Opts[:i] {
				if p.K == o.K && p.V == o.V {
					sameTwice = true
				}
			}
		}
		seenFlag[o.K] = true
	}
	if len(seenFlag) < 3 {
		t = append(t, "opts-flag-defaulted")
	}
	if rangeFirst {
		t = append(t, "opts-range-before-flag")
	}
	if repeated {
		t = append(t, "opts-flag-repeated")
	}
	if sameTwice {
		t = append(t, "opts-same-option-twice")
	}
	if nr > 2 {
		t = append(t, "opts-many-ranges")
	}
	return t
}

var (
	c10pfx = func(s string) netip.Prefix { return netip.MustParsePrefix(s) }
	// the RFC ranges named by the property (RFC 1122/4291 loopback, RFC 3927/4291 link-local,
	// RFC 1918/4193 private)
	c10Loopback  = []netip.Prefix{c10pfx("127.0.0.0/8"), c10pfx("::1/128")}
	c10LinkLocal = []netip.Prefix{c10pfx("169.254.0.0/16"), c10pfx("fe80::/10")}
	c10Private   = []netip.Prefix{c10pfx("10.0.0.0/8"), c10pfx("172.16.0.0/12"), c10pfx("192.168.0.0/16"), c10pfx("fc00::/7")}
)

func c10In(l []netip.Prefix, a netip.Addr) bool {
	for _, p := range l {
		if p.Contains(a) {
			return true
		}
	}
	return false
}

// c10RefTrusted is the property's own notion of "inside the trusted ranges": the RFC
// prefixes (IPv4-mapped IPv6 counts as the IPv4 address) plus the configured extra ranges
// with the semantics of their own net.IPNet.Contains.
func c10RefTrusted(c *c10Case, nets []*net.IPNet, ip net.IP) bool {
	if a, ok := netip.AddrFromSlice(ip); ok {
		a = a.Unmap()
		if c.LB && c10In(c10Loopback, a) || c.LL && c10In(c10LinkLocal, a) || c.PN && c10In(c10Private, a) {
			return true
		}
	}
	for _, n := range nets {
		if n.Contains(ip) {
			return true
		}
	}
	return false
}

func c10Host(remote string) string {
	h, _, err := net.SplitHostPort(remote)
	if err != nil {
		return ""
	}
	return h
}

func c10Strip(s string) string {
	return strings.TrimSuffix(strings.TrimPrefix(s, "["), "]")
}

func c10Norm(s string) string { return c10Strip(strings.TrimSpace(s)) }

func c10Entries(lines []string) []string {
	return strings.Split(strings.Join(lines, ","), ",")
}

func c10SameIP(a, b string) bool {
	x, y := net.ParseIP(a), net.ParseIP(b)
	return x != nil && y != nil && x.Equal(y)
}

func c10BuildReq(q c10Req) *http.Request {
	req := httptest.NewRequest(http.MethodGet, "/", nil)
	req.RemoteAddr = q.remote
	if len(q.xff) > 0 {
		req.Header[echo.HeaderXForwardedFor] = append([]string(nil), q.xff...)
	}
	if len(q.real) > 0 {
		req.Header[echo.HeaderXRealIP] = append([]string(nil), q.real...)
	}
	for _, h := range q.extra {
		if k := http.CanonicalHeaderKey(h[0]); k != echo.HeaderXRealIP && k != echo.HeaderXForwardedFor {
			req.Header.Add(h[0], h[1]) // as net/http stores it: canonical key
		}
	}
	return req
}

func c10Extractor(ext int, opts []echo.TrustOption) echo.IPExtractor {
	switch ext {
	case 0:
		return echo.ExtractIPDirect()
	case 1:
		return echo.ExtractIPFromRealIPHeader(opts...)
	default:
		return echo.ExtractIPFromXFFHeader(opts...)
	}
}

func c10Run(ci any) (res Result) {
	c := ci.(*c10Case)
	defer func() {
		if p := recover(); p != nil {
			res.Obs = "panic"
			res.Oracle = fmt.Sprintf("panic in the extractor: %v", p)
		}
	}()
	if c.Kind == 1 {
		return c10RunTable(c)
	}
	if c.Kind == 2 {
		return c10RunConcurrent(c)
	}
	if c.Kind == 3 {
		return c10RunParse(c)
	}
	opts, nets := c.options()
	ext := c10Extractor(c.Ext, opts)
	// the options are applied when the extractor is constructed: what the application does with its option
	// slice afterwards (reuse for another extractor with other values) must not reach this one
	for i := range opts {
		opts[i] = []echo.TrustOption{echo.TrustLoopback(false), echo.TrustLinkLocal(false), echo.TrustPrivateNet(false), echo.TrustPrivateNet(true)}[i%4]
	}
	e := echo.New()
	e.IPExtractor = ext
	// a context taken from the pool and one created directly while the FIRST extractor is installed; both
	// are used again after the extractor was replaced (Phase2)
	held := e.AcquireContext()
	defer e.ReleaseContext(held)
	made := e.NewContext(httptest.NewRequest(http.MethodGet, "/", nil), httptest.NewRecorder())
	var seen string
	e.GET("/", func(ctx echo.Context) error {
		seen = ctx.RealIP()
		return ctx.NoContent(http.StatusNoContent)
	})

	oracle := ""
	fail := func(format string, a ...any) {
		if oracle == "" {
			oracle = fmt.Sprintf(format, a...)
		}
	}
	tags := []string{fmt.Sprintf("ext-%d", c.Ext), fmt.Sprintf("nets-%d", len(c.Nets)),
		fmt.Sprintf("flags-%s%s%s", wBool(c.LB), wBool(c.LL), wBool(c.PN))}

	tags = append(tags, c.optTags()...)
	base := c10Req{remote: string(c.Remote), real: unlat1s(c.Real), xff: unlat1s(c.XFF)}
	host := c10Host(base.remote)
	hostIP := net.ParseIP(host)
	reqs := []c10Req{base}
	// kind of expectation for request i (index into reqs, i >= 1)
	const (
		relExact  = iota // same string as the base result
		relSameIP        // same address (peer decisive, header absent vs present: literal vs canonical form)
		relIndep         // an unrelated request: its own reference reading
	)
	var rel []int

	// ---- reference reading of the property: find the decisive hop
	expect, decisive, tag := c10Ref(c, nets, base)
	haveExpect := true
	if tag != "" {
		tags = append(tags, tag)
	}
	switch c.Ext {
	case 0:
		for _, a := range c.Alt {
			reqs = append(reqs, c10Req{remote: base.remote, real: base.real, xff: unlat1s(a)})
			rel = append(rel, relExact)
		}
		for _, a := range c.AltR {
			reqs = append(reqs, c10Req{remote: base.remote, real: []string{string(a)}, xff: base.xff})
			rel = append(rel, relExact)
		}
	case 1:
		if !c10RefTrusted(c, nets, hostIP) {
			tags = append(tags, "realip-untrusted-peer")
			// an untrusted peer controls every header: none of them may matter
			for _, a := range c.AltR {
				reqs = append(reqs, c10Req{remote: base.remote, real: []string{string(a)}, xff: base.xff})
				rel = append(rel, relExact)
			}
			reqs = append(reqs, c10Req{remote: base.remote, real: nil, xff: nil})
			rel = append(rel, relExact)
		}
	case 2:
		if len(base.xff) == 0 {
			break
		}
		ents := c10Entries(base.xff)
		nAll := len(ents) + 1
		if decisive == nAll-1 {
			tags = append(tags, "xff-peer-decisive")
			// the peer itself is the right-most untrusted hop: the whole header is forgeable
			for k, a := range c.Alt {
				if len(a) == 0 {
					reqs = append(reqs, c10Req{remote: base.remote, real: base.real, xff: nil})
					rel = append(rel, relSameIP)
					continue
				}
				reqs = append(reqs, c10Req{remote: base.remote, real: base.real, xff: c10Lines(unlat1s(a), k)})
				rel = append(rel, relExact)
			}
		} else if decisive >= 0 {
			tags = append(tags, fmt.Sprintf("xff-decisive-depth-%d", c10Min(nAll-1-decisive, 4)))
			keep := ents[decisive:]
			for k, a := range c.Alt {
				v := append(append([]string(nil), unlat1s(a)...), keep...)
				reqs = append(reqs, c10Req{remote: base.remote, real: base.real, xff: c10Lines(v, k)})
				rel = append(rel, relExact)
			}
		}
	}
	nExtra := -1
	if len(c.Extra) > 0 {
		x := base
		for _, h := range c.Extra {
			x.extra = append(x.extra, [2]string{string(h[0]), string(h[1])})
		}
		nExtra = len(rel)
		reqs = append(reqs, x)
		rel = append(rel, relExact)
		tags = append(tags, "extra-headers")
	}
	nRel := len(rel)
	// unrelated requests through the same Echo / the same extractor closure, then the base
	// request once more: nothing may be carried over from one request to the next
	for _, m := range c.More {
		reqs = append(reqs, c10Req{remote: string(m.Remote), real: unlat1s(m.Real), xff: unlat1s(m.XFF)})
		rel = append(rel, relIndep)
	}
	if len(c.More) > 0 {
		reqs = append(reqs, base)
		rel = append(rel, relExact)
		tags = append(tags, fmt.Sprintf("sequence-%d", c10Min(len(c.More), 4)))
	}

	// ---- run the real code and collect the tokens handed to net.ParseIP
	type entry struct {
		tok string
		ip  net.IP
	}
	var table []entry
	seenTok := map[string]bool{}
	addTok := func(t string) {
		if seenTok[t] {
			return
		}
		seenTok[t] = true
		c10TableTokens.Add(1)
		ip := net.ParseIP(t)
		table = append(table, entry{t, ip})
		if ip != nil {
			// contract of net.ParseIP / IP.String assumed by C10_valid_literal
			if strings.TrimSpace(t) != t {
				fail("net.ParseIP accepted %q with surrounding white space (parse contract)", t)
			}
			if back := net.ParseIP(ip.String()); back == nil || !back.Equal(ip) {
				fail("IP.String of ParseIP(%q) does not parse back (parse contract)", t)
			}
		}
	}
	results := make([]string, len(reqs))
	var reqWire, obs []string
	var ambiguous []bool // per (host, result) pair of the observation line, for c10Tolerable
	defer func() { c10NoteShape(c, ambiguous) }()
	tokensFor := func(extKind int, q c10Req) {
		h := c10Host(q.remote)
		switch extKind {
		case 1:
			addTok(h)
			hv := ""
			if len(q.real) > 0 {
				hv = q.real[0]
			}
			addTok(c10Strip(hv))
		case 2:
			addTok(c10Norm(h))
			for _, t := range c10Entries(q.xff) {
				addTok(c10Norm(t))
			}
		}
	}
	for i, q := range reqs {
		h := c10Host(q.remote)
		tokensFor(c.Ext, q)
		seen = "<handler did not run>"
		rec := httptest.NewRecorder()
		e.ServeHTTP(rec, c10BuildReq(q))
		direct := ext(c10BuildReq(q))
		if seen != direct {
			fail("request %d: Context.RealIP()=%q but the configured extractor returns %q", i, seen, direct)
		}
		results[i] = seen
		reqWire = append(reqWire, wStr(q.remote), wStrs(q.real), wStrs(q.xff))
		obs = append(obs, wStr(h), wStr(seen))
		ambiguous = append(ambiguous, c10AmbiguousReal(c.Ext, q))
		if i == 0 {
			held.Reset(c10BuildReq(q), httptest.NewRecorder())
			made.SetRequest(c10BuildReq(q))
			if hv, mv := held.RealIP(), made.RealIP(); hv != seen || mv != seen {
				fail("request 0: an acquired context answers %q, a context from NewContext %q, the handler's context %q", hv, mv, seen)
			}
		}
	}

	// ---- the application replaces the extractor; the same Echo instance (same context pool, the held
	// contexts) serves further requests: every answer must come from the NEW extractor
	var reqWire2, obs2 []string
	var c2 *c10Case
	if c.Phase2 != nil {
		c2 = &c10Case{Ext: c.Phase2.Ext, Opts: c.Phase2.Opts}
		opts2, nets2 := c2.options()
		ext2 := c10Extractor(c2.Ext, opts2)
		e.IPExtractor = ext2
		tags = append(tags, fmt.Sprintf("replaced-ext-%d-by-%d", c.Ext, c2.Ext))
		for i, m := range c.Phase2.Reqs {
			q := c10Req{remote: string(m.Remote), real: unlat1s(m.Real), xff: unlat1s(m.XFF)}
			tokensFor(c2.Ext, q)
			seen = "<handler did not run>"
			e.ServeHTTP(httptest.NewRecorder(), c10BuildReq(q))
			want, _, _ := c10Ref(c2, nets2, q)
			ambiguous = append(ambiguous, c10AmbiguousReal(c2.Ext, q))
			if !c10AgreeReq(c2.Ext, q, seen, want) {
				fail("after Echo.IPExtractor was replaced (extractor %d -> %d), request %d (peer %q X-Real-Ip=%q X-Forwarded-For=%q): RealIP() = %q, the installed extractor's reading gives %q",
					c.Ext, c2.Ext, i, q.remote, strings.Join(q.real, "|"), strings.Join(q.xff, "|"), seen, want)
			}
			if d := ext2(c10BuildReq(q)); d != seen {
				fail("after the replacement, request %d: Context.RealIP()=%q but the installed extractor returns %q", i, seen, d)
			}
			held.Reset(c10BuildReq(q), httptest.NewRecorder())
			made.SetRequest(c10BuildReq(q))
			if hv, mv := held.RealIP(), made.RealIP(); !c10AgreeReq(c2.Ext, q, hv, want) || !c10AgreeReq(c2.Ext, q, mv, want) {
				fail("after Echo.IPExtractor was replaced (extractor %d -> %d), request %d: a context acquired before the replacement answers %q, one created by NewContext before it %q; the installed extractor's reading gives %q",
					c.Ext, c2.Ext, i, hv, mv, want)
			}
			if seen != c10Host(q.remote) {
				tags = append(tags, "phase2-result-from-header")
			}
			reqWire2 = append(reqWire2, wStr(q.remote), wStrs(q.real), wStrs(q.xff))
			obs2 = append(obs2, wStr(c10Host(q.remote)), wStr(seen))
		}
	}

	// ---- model-free oracle
	r0 := results[0]
	if hostIP != nil && net.ParseIP(r0) == nil {
		fail("peer %q is a valid IP literal but the result %q is not", host, r0)
	}
	if haveExpect && !c10AgreeReq(c.Ext, base, r0, expect) {
		switch c.Ext {
		case 0:
			fail("direct extractor returned %q, peer is %q", r0, expect)
		case 1:
			fail("X-Real-IP extractor returned %q; peer %q trusted=%v header=%q: expected %q", r0, host, c10RefTrusted(c, nets, hostIP), strings.Join(base.real, "|"), expect)
		case 2:
			if decisive == -1 {
				fail("X-Forwarded-For extractor returned %q; every hop including the peer is trusted, the left-most entry is %q", r0, expect)
			} else {
				fail("X-Forwarded-For extractor returned %q; the right-most hop outside the trusted ranges (entry %d of %d, peer last) gives %q", r0, decisive, len(c10Entries(base.xff))+1, expect)
			}
		}
	}
	for k, kind := range rel {
		rv := results[k+1]
		if kind == relIndep {
			q := reqs[k+1]
			want, _, _ := c10Ref(c, nets, q)
			if !c10AgreeReq(c.Ext, q, rv, want) {
				fail("request %d of the sequence (peer %q X-Real-Ip=%q X-Forwarded-For=%q): extractor %d returned %q, the property's reading gives %q",
					k+1, q.remote, strings.Join(q.real, "|"), strings.Join(q.xff, "|"), c.Ext, rv, want)
			}
			if ph := c10Host(q.remote); net.ParseIP(ph) != nil && net.ParseIP(rv) == nil {
				fail("request %d of the sequence: peer %q is a valid IP literal but the result %q is not", k+1, ph, rv)
			}
			continue
		}
		// the same ADDRESS (the property does not fix its spelling); texts only when one side is no IP literal
		ok := c10Agree(rv, r0)
		if !ok && k == nExtra {
			var hs []string
			for _, h := range reqs[k+1].extra {
				hs = append(hs, h[0]+": "+h[1])
			}
			fail("adding request headers that are neither X-Real-Ip nor X-Forwarded-For (%q) changed the result of extractor %d from %q to %q", hs, c.Ext, r0, rv)
		} else if !ok && k >= nRel {
			fail("the base request served again after %d other requests through the same Echo gives %q, the first time it gave %q", len(c.More), rv, r0)
		} else if !ok {
			fail("changing only attacker-controlled input (variant %d: X-Real-Ip=%q X-Forwarded-For=%q) changed the result from %q to %q",
				k+1, strings.Join(reqs[k+1].real, "|"), strings.Join(reqs[k+1].xff, "|"), r0, rv)
		}
	}
	if nRel > 0 {
		tags = append(tags, "relational")
	}
	if hostIP == nil {
		tags = append(tags, "peer-unparsable")
	}
	if r0 != host {
		tags = append(tags, "result-from-header")
	}

	tw := []string{wInt(len(table))}
	for _, t := range table {
		tw = append(tw, wStr(t.tok))
		if t.ip == nil {
			tw = append(tw, "0")
		} else {
			tw = append(tw, "1", wBytes(t.ip))
		}
	}
	if c2 != nil {
		n2 := len(c.Phase2.Reqs)
		ops := wJoin("2", c.cfgWire(), wInt(c.Ext), strings.Join(tw, " "), wInt(len(reqs)), strings.Join(reqWire, " "),
			c2.cfgWire(), wInt(c2.Ext), wInt(n2), strings.Join(reqWire2, " "))
		return Result{Ops: ops, Obs: wJoin(wInt(len(reqs)+n2), strings.Join(append(obs, obs2...), " ")), Oracle: oracle, Tags: tags, Nontrivial: true}
	}
	ops := wJoin("0", c.cfgWire(), wInt(c.Ext), strings.Join(tw, " "), wInt(len(reqs)), strings.Join(reqWire, " "))
	return Result{Ops: ops, Obs: wJoin(wInt(len(reqs)), strings.Join(obs, " ")), Oracle: oracle, Tags: tags,
		Nontrivial: r0 != host || len(rel) > 0}
}

// c10RunConcurrent: Par goroutines issue the requests of More Iter times each, at the same time, through ONE
// extractor value and ONE Echo instance (half of the goroutines call the extractor, the others go through
// ServeHTTP and Context.RealIP).  Every single answer must be the answer the property's reading gives for that
// request — which is also what the same call returns when nothing else is running.  The model sees the
// sequential run of the request set.
func c10RunConcurrent(c *c10Case) Result {
	if len(c.More) == 0 {
		return Result{Obs: "0", Ops: "", Tags: []string{"concurrent-empty"}}
	}
	opts, nets := c.options()
	ext := c10Extractor(c.Ext, opts)
	// the options are applied when the extractor is constructed: what the application does with its option
	// slice afterwards (reuse for another extractor with other values) must not reach this one
	for i := range opts {
		opts[i] = []echo.TrustOption{echo.TrustLoopback(false), echo.TrustLinkLocal(false), echo.TrustPrivateNet(false), echo.TrustPrivateNet(true)}[i%4]
	}
	e := echo.New()
	e.IPExtractor = ext
	e.GET("/", func(ctx echo.Context) error { return ctx.String(http.StatusOK, ctx.RealIP()) })
	oracle := ""
	var reqs []c10Req
	for _, m := range c.More {
		reqs = append(reqs, c10Req{remote: string(m.Remote), real: unlat1s(m.Real), xff: unlat1s(m.XFF)})
	}
	// sequential pass: reference reading, model line
	seenTok := map[string]bool{}
	tw := []string{}
	nt := 0
	addTok := func(t string) {
		if seenTok[t] {
			return
		}
		seenTok[t] = true
		nt++
		tw = append(tw, wStr(t))
		if ip := net.ParseIP(t); ip == nil {
			tw = append(tw, "0")
		} else {
			tw = append(tw, "1", wBytes(ip))
		}
	}
	want := make([]string, len(reqs))
	var reqWire, obs []string
	var ambiguous []bool
	defer func() { c10NoteShape(c, ambiguous) }()
	for i, q := range reqs {
		h := c10Host(q.remote)
		switch c.Ext {
		case 1:
			addTok(h)
			hv := ""
			if len(q.real) > 0 {
				hv = q.real[0]
			}
			addTok(c10Strip(hv))
		case 2:
			addTok(c10Norm(h))
			for _, t := range c10Entries(q.xff) {
				addTok(c10Norm(t))
			}
		}
		want[i], _, _ = c10Ref(c, nets, q)
		got := ext(c10BuildReq(q))
		ambiguous = append(ambiguous, c10AmbiguousReal(c.Ext, q))
		if !c10AgreeReq(c.Ext, q, got, want[i]) && oracle == "" {
			oracle = fmt.Sprintf("request %d alone: extractor %d returned %q, the property's reading gives %q", i, c.Ext, got, want[i])
		}
		reqWire = append(reqWire, wStr(q.remote), wStrs(q.real), wStrs(q.xff))
		obs = append(obs, wStr(h), wStr(got))
	}
	// concurrent pass
	par, iter := c.Par, c.Iter
	if par < 2 {
		par = 2
	}
	if iter < 1 {
		iter = 1
	}
	type bad struct {
		g, it, i int
		got      string
		panicked bool
	}
	bads := make([]*bad, par)
	var wg sync.WaitGroup
	start := make(chan struct{})
	for g := 0; g < par; g++ {
		wg.Add(1)
		go func(g int) {
			defer wg.Done()
			defer func() {
				if p := recover(); p != nil && bads[g] == nil {
					bads[g] = &bad{g: g, got: fmt.Sprint(p), panicked: true}
				}
			}()
			// every goroutine owns its request objects
			mine := make([]*http.Request, len(reqs))
			for i, q := range reqs {
				mine[i] = c10BuildReq(q)
			}
			<-start
			for it := 0; it < iter; it++ {
				i := (it*7 + g*3) % len(reqs)
				var got string
				if g%2 == 0 {
					got = ext(mine[i])
				} else {
					rec := httptest.NewRecorder()
					e.ServeHTTP(rec, mine[i])
					got = rec.Body.String()
				}
				if got != want[i] && !c10AgreeReq(c.Ext, reqs[i], got, want[i]) {
					bads[g] = &bad{g: g, it: it, i: i, got: got}
					return
				}
			}
		}(g)
	}
	close(start)
	wg.Wait()
	for _, b := range bads {
		if b == nil || oracle != "" {
			continue
		}
		if b.panicked {
			oracle = fmt.Sprintf("panic in goroutine %d of %d calling one extractor concurrently: %s", b.g, par, b.got)
			continue
		}
		q := reqs[b.i]
		oracle = fmt.Sprintf("%d goroutines calling ONE extractor (%d) concurrently: call %d of goroutine %d for request %d (peer %q X-Forwarded-For=%q) returned %q; alone the same request gives %q",
			par, c.Ext, b.it, b.g, b.i, q.remote, strings.Join(q.xff, "|"), b.got, want[b.i])
	}
	tags := append([]string{"concurrent", fmt.Sprintf("concurrent-ext-%d", c.Ext), fmt.Sprintf("concurrent-reqs-%d", c10Min(len(reqs), 8))}, c.optTags()...)
	ops := wJoin("0", c.cfgWire(), wInt(c.Ext), wInt(nt), strings.Join(tw, " "), wInt(len(reqs)), strings.Join(reqWire, " "))
	return Result{Ops: ops, Obs: wJoin(wInt(len(reqs)), strings.Join(obs, " ")), Oracle: oracle, Tags: tags, Nontrivial: true}
}

// c10Ref is the property's own reading for one request: the expected result, the index of the
// decisive hop among the X-Forwarded-For entries followed by the peer (-2 not applicable, -1
// every hop trusted), and a tag for the evidence histogram.
func c10Ref(c *c10Case, nets []*net.IPNet, q c10Req) (expect string, decisive int, tag string) {
	host := c10Host(q.remote)
	switch c.Ext {
	case 0:
		return host, -2, ""
	case 1:
		hdr := ""
		if len(q.real) > 0 {
			hdr = q.real[0]
		}
		if hdr != "" && c10RefTrusted(c, nets, net.ParseIP(host)) && net.ParseIP(c10Strip(hdr)) != nil {
			return c10Strip(hdr), -2, "realip-header-used"
		}
		return host, -2, ""
	}
	if len(q.xff) == 0 {
		return host, -2, "xff-absent"
	}
	all := append(c10Entries(q.xff), host)
	for i := len(all) - 1; i >= 0; i-- {
		ip := net.ParseIP(c10Norm(all[i]))
		if ip == nil {
			return host, i, "xff-decisive-unparsable"
		}
		if !c10RefTrusted(c, nets, ip) {
			return ip.String(), i, "xff-decisive-untrusted"
		}
	}
	return c10Norm(all[0]), -1, "xff-all-trusted"
}

// c10Lines spreads entries over header lines in a way determined by k.
func c10Lines(ents []string, k int) []string {
	switch k % 3 {
	case 0:
		return []string{strings.Join(ents, ",")}
	case 1:
		return append([]string(nil), ents...)
	default:
		if len(ents) < 2 {
			return []string{strings.Join(ents, ", ")}
		}
		m := len(ents) / 2
		return []string{strings.Join(ents[:m], ","), strings.Join(ents[m:], ",")}
	}
}

func c10RunTable(c *c10Case) Result {
	opts, nets := c.options()
	xr := echo.ExtractIPFromRealIPHeader(opts...)
	xf := echo.ExtractIPFromXFFHeader(opts...)
	oracle := ""
	fail := func(format string, a ...any) {
		if oracle == "" {
			oracle = fmt.Sprintf(format, a...)
		}
	}
	var sb strings.Builder
	wire := []string{"1", c.cfgWire(), wInt(len(c.Addrs))}
	nt, nu := 0, 0
	req := httptest.NewRequest(http.MethodGet, "/", nil)
	for _, text := range c.Addrs {
		ip := net.ParseIP(text)
		if ip == nil {
			fail("table address %q is not an IP literal (generator error)", text)
			wire = append(wire, wBytes(nil))
			sb.WriteByte('?')
			continue
		}
		wire = append(wire, wBytes(ip))
		sentinel := "198.51.100.7"
		if ip.Equal(net.ParseIP(sentinel)) {
			sentinel = "198.51.100.8"
		}
		if strings.Contains(text, ":") {
			req.RemoteAddr = "[" + text + "]:4711"
		} else {
			req.RemoteAddr = text + ":4711"
		}
		req.Header = http.Header{echo.HeaderXRealIP: {sentinel}, echo.HeaderXForwardedFor: {sentinel}}
		d1 := xr(req) == sentinel
		d2 := xf(req) == sentinel
		if d1 != d2 {
			fail("peer %s: X-Real-IP extractor trusts=%v but X-Forwarded-For extractor trusts=%v", text, d1, d2)
		}
		want := c10RefTrusted(c, nets, ip)
		if d1 != want {
			fail("peer %s: extractor trust decision %v, the configured ranges (RFC classes switched on + extra ranges) say %v (loopback=%v linklocal=%v private=%v, %d extra ranges)", text, d1, want, c.LB, c.LL, c.PN, len(c.Nets))
		}
		if d1 {
			sb.WriteByte('1')
			nt++
		} else {
			sb.WriteByte('0')
			nu++
		}
	}
	tags := append([]string{"table", fmt.Sprintf("table-flags-%s%s%s", wBool(c.LB), wBool(c.LL), wBool(c.PN))}, c.optTags()...)
	return Result{Ops: strings.Join(wire, " "), Obs: sb.String(), Oracle: oracle, Tags: tags, Nontrivial: nt > 0 && nu > 0}
}

// ---------- generators ----------

var c10Public = []string{"8.8.8.8", "203.0.113.9", "1.1.1.1", "172.15.255.255", "172.32.0.1", "11.0.0.1", "9.255.255.255",
	"192.167.255.255", "192.169.0.0", "126.255.255.255", "128.0.0.1", "169.253.255.255", "169.255.0.0", "100.64.0.1",
	"0.0.0.0", "255.255.255.255", "224.0.0.1", "172.0.16.1", "10.0.0.1.", "198.51.100.7",
	"2001:db8::1", "fec0::1", "fe7f:ffff::1", "fbff:ffff::1", "fe00::1", "::2", "::", "1::", "::10.0.0.1", "::127.0.0.1",
	"64:ff9b::a00:1", "::ffff:8.8.8.8", "::ffff:172.32.0.1", "0:0:0:0:0:ffff:0808:0808", "::fffe:10.0.0.1", "::1:0:0:1",
	"2001:DB8::A", "fc00::1:2:3:4:5:6:7"}
var c10LoopbackS = []string{"127.0.0.1", "127.255.255.254", "127.0.0.0", "::1", "0:0:0:0:0:0:0:1", "::ffff:127.0.0.1", "::ffff:7f00:1"}
var c10LinkLocalS = []string{"169.254.0.1", "169.254.255.255", "169.254.0.0", "fe80::1", "febf:ffff::1", "fe80::", "FE80::ABCD", "::ffff:169.254.3.4"}
var c10PrivateS = []string{"10.0.0.1", "10.255.255.255", "172.16.0.0", "172.31.255.255", "172.20.1.1", "192.168.0.1", "192.168.255.255",
	"fc00::1", "fdff:ffff::1", "fd12:3456::1", "::ffff:10.0.0.1", "::ffff:192.168.1.1", "::ffff:ac10:1", "0:0:0:0:0:ffff:a00:1"}
var c10Garbage = []string{"", " ", "unknown", "1.2.3", "1.2.3.4.5", "01.2.3.4", "1.2.3.256", "::1%eth0", "fe80::1%lo", "[::1", "::1]",
	"[[::1]]", "1.2.3.4:80", "[::1]:80", "_hidden", "localhost", "127.1", "0x7f.0.0.1", "\t", "1.2.3.4;5.6.7.8",
	"12\xef\xbc\x97.0.0.1", "10.0.0.1\x00", "10.0.0.1 x", "[]", "[", "]", "::ffff:1.2.3", ":::1", "1:2:3:4:5:6:7:8:9", "10.0.0.1/8",
	"\xff\xfe", "-1.2.3.4", "1.2.3.4\xc2\xa0x", "\xc2", "\xa0"}
var c10Spaces = []string{" ", "  ", "\t", "\n", "\r\n", "\v", "\f", "\xc2\xa0", "\xc2\x85", "\xe2\x80\x83", "\xe3\x80\x80", "\xe1\x9a\x80", " \xc2\xa0 "}

var c10CIDRs = []string{"203.0.113.0/24", "8.8.0.0/16", "100.64.0.0/10", "2001:db8::/32", "::ffff:203.0.113.0/120", "0.0.0.0/0", "::/0",
	"1.1.1.1/32", "172.32.0.0/11", "203.0.112.0/23", "198.51.100.0/31", "11.0.0.0/8", "fec0::/10", "::/96", "::ffff:0:0/96",
	"8.8.8.8/31", "128.0.0.0/1", "2001:db8::1/128", "fe00::/9", "9.0.0.0/7", "172.0.0.0/12", "::2/127"}

// ranges lying inside (or straddling the border of) a built-in class: what an operator lists
// explicitly for "my proxies", possibly together with TrustPrivateNet(false)
var c10ClassCIDRs = []string{"10.0.0.0/8", "10.1.0.0/16", "10.0.0.1/32", "172.16.0.0/12", "172.20.0.0/14", "192.168.0.0/16", "192.168.1.0/24",
	"127.0.0.0/8", "127.0.0.1/32", "169.254.0.0/16", "169.254.169.254/32", "fc00::/7", "fd00::/8", "fd12:3456::/32", "fe80::/10", "fe80::/64",
	"::1/128", "::ffff:10.0.0.0/104", "::ffff:192.168.0.0/112", "172.16.0.0/11", "192.168.0.0/15", "fe80::/9", "fc00::/6", "126.0.0.0/7", "10.0.0.0/7"}

func c10Pick(r *rand.Rand, l []string) string { return l[r.Intn(len(l))] }

func c10RandV4(r *rand.Rand) string {
	b0s := []int{9, 10, 11, 126, 127, 128, 168, 169, 170, 171, 172, 173, 191, 192, 193, 0, 255, 100, 198, 203}
	b1s := []int{0, 1, 15, 16, 17, 31, 32, 63, 64, 127, 128, 167, 168, 169, 253, 254, 255}
	b0, b1 := b0s[r.Intn(len(b0s))], b1s[r.Intn(len(b1s))]
	if r.Intn(4) == 0 {
		b0 = r.Intn(256)
	}
	if r.Intn(4) == 0 {
		b1 = r.Intn(256)
	}
	return fmt.Sprintf("%d.%d.%d.%d", b0, b1, r.Intn(256), r.Intn(256))
}

func c10RandV6(r *rand.Rand) string {
	heads := [][2]byte{{0xfb, 0xff}, {0xfc, 0x00}, {0xfc, 0xff}, {0xfd, 0x00}, {0xfd, 0xff}, {0xfe, 0x00}, {0xfe, 0x7f}, {0xfe, 0x80},
		{0xfe, 0x81}, {0xfe, 0xbf}, {0xfe, 0xc0}, {0xff, 0x02}, {0x00, 0x00}, {0x20, 0x01}, {0xfe, 0x90}, {0xfe, 0xa0}}
	ip := make(net.IP, 16)
	h := heads[r.Intn(len(heads))]
	ip[0], ip[1] = h[0], h[1]
	switch r.Intn(4) {
	case 0: // rest zero
	case 1:
		ip[15] = byte(1 + r.Intn(3))
	case 2: // sparse
		for k := 0; k < 3; k++ {
			ip[2+r.Intn(14)] = byte(r.Intn(256))
		}
	default:
		for i := 2; i < 16; i++ {
			ip[i] = byte(r.Intn(256))
		}
	}
	if r.Intn(12) == 0 { // IPv4-mapped / compatible neighbourhood
		copy(ip, make([]byte, 16))
		ip[10], ip[11] = 0xff, 0xff
		if r.Intn(3) == 0 {
			ip[10] = byte(r.Intn(256))
		}
		v4 := net.ParseIP(c10RandV4(r)).To4()
		copy(ip[12:], v4)
		if r.Intn(2) == 0 {
			return fmt.Sprintf("::%x:%x:%x", int(ip[10])<<8|int(ip[11]), int(ip[12])<<8|int(ip[13]), int(ip[14])<<8|int(ip[15]))
		}
	}
	s := ip.String()
	if !strings.Contains(s, ":") { // mapped rendered dotted: keep a v6 spelling
		return "::ffff:" + s
	}
	return s
}

// an address of the requested class under the trust flags: 0 trusted, 1 untrusted, 2 anything
func c10Addr(r *rand.Rand, c *c10Case, class int) string {
	switch class {
	case 0:
		var pool []string
		if c.LB {
			pool = append(pool, c10LoopbackS...)
		}
		if c.LL {
			pool = append(pool, c10LinkLocalS...)
		}
		if c.PN {
			pool = append(pool, c10PrivateS...)
		}
		if len(c.Nets) > 0 && (len(pool) == 0 || r.Intn(3) == 0) {
			// an address inside one of the extra ranges: network address, last address or random host bits
			n := c.Nets[r.Intn(len(c.Nets))]
			if (len(n.IP) == 4 || len(n.IP) == 16) && len(n.Mask) == len(n.IP) {
				ip := append(net.IP(nil), n.IP...)
				switch r.Intn(3) {
				case 0:
				case 1:
					for i := range ip {
						ip[i] |= ^n.Mask[i]
					}
				default:
					for i := range ip {
						ip[i] = ip[i]&n.Mask[i] | byte(r.Intn(256))&^n.Mask[i]
					}
				}
				s := ip.String()
				if len(ip) == 16 && !strings.Contains(s, ":") {
					s = "::ffff:" + s
				}
				return s
			}
		}
		if len(pool) == 0 {
			return c10Pick(r, c10Public)
		}
		return c10Pick(r, pool)
	case 1:
		if r.Intn(3) == 0 {
			// addresses that are trusted only under a flag that may be off
			return c10Pick(r, [][]string{c10LoopbackS, c10LinkLocalS, c10PrivateS}[r.Intn(3)])
		}
		return c10Pick(r, c10Public)
	}
	switch r.Intn(6) {
	case 0:
		return c10RandV4(r)
	case 1:
		return c10RandV6(r)
	case 2:
		return c10Pick(r, c10Garbage)
	case 3:
		return c10Pick(r, c10Public)
	case 4:
		return c10Pick(r, [][]string{c10LoopbackS, c10LinkLocalS, c10PrivateS}[r.Intn(3)])
	}
	return c10Pick(r, c10PrivateS)
}

func c10Decorate(r *rand.Rand, s string) string {
	switch r.Intn(12) {
	case 0:
		return " " + s
	case 1:
		return s + " "
	case 2:
		return c10Pick(r, c10Spaces) + s + c10Pick(r, c10Spaces)
	case 3:
		return "[" + s + "]"
	case 4:
		return " [" + s + "] "
	case 5:
		switch r.Intn(5) {
		case 0:
			return "[" + s
		case 1:
			return s + "]"
		case 2:
			return "[ " + s + " ]"
		case 3:
			return "[[" + s + "]]"
		}
		return "[" + s + "]" + c10Pick(r, c10Spaces) + "]"
	}
	return s
}

// c10DecorateOK only adds what the extractor strips again (white space, one pair of brackets).
func c10DecorateOK(r *rand.Rand, s string) string {
	switch r.Intn(8) {
	case 0:
		return " " + s
	case 1:
		return c10Pick(r, c10Spaces) + s + c10Pick(r, c10Spaces)
	case 2:
		return "[" + s + "]"
	case 3:
		return "\t[" + s + "] "
	}
	return s
}

func c10Remote(r *rand.Rand, host string) string {
	port := fmt.Sprintf("%d", 1+r.Intn(65535))
	k := 99
	if r.Intn(6) == 0 {
		k = r.Intn(12)
	}
	switch k {
	case 0:
		return host // no port
	case 1:
		return host + ":" // empty port
	case 2:
		return "[" + host + "]" // missing port
	case 3:
		return "[" + host + "]:" + port + ":" + port
	case 4:
		return "[" + host + ":" + port
	case 5:
		return host + "]:" + port
	case 6:
		return ":" + port
	case 7:
		return "[" + host + "]" + port
	case 8:
		return "[[" + host + "]]:" + port
	case 9:
		return c10Pick(r, []string{"", "", "@", "/var/run/app.sock", "pipe", "unix:@app", host + ":http", "localhost:" + port})
	case 10:
		return "[" + host + "%eth0]:" + port
	case 11:
		return host + ":" + port // v6 without brackets -> too many colons
	}
	if strings.Contains(host, ":") || r.Intn(10) == 0 {
		return "[" + host + "]:" + port
	}
	return host + ":" + port
}

func c10ParseNet(s string) c10Net {
	_, n, err := net.ParseCIDR(s)
	if err != nil {
		panic(err)
	}
	return c10Net{IP: []byte(n.IP), Mask: []byte(n.Mask)}
}

func c10GenNets(r *rand.Rand) []c10Net {
	var out []c10Net
	k := 0
	switch r.Intn(12) {
	case 0, 1, 2, 3:
		k = 1
	case 4, 5:
		k = 2
	case 6:
		k = 3 + r.Intn(3)
	case 7:
		if r.Intn(6) == 0 {
			k = 20 + r.Intn(2) // a long allow-list
		}
	}
	for i := 0; i < k; i++ {
		switch r.Intn(20) {
		case 5, 6, 7, 8, 9, 10:
			out = append(out, c10ParseNet(c10Pick(r, c10ClassCIDRs)))
		case 0: // 16-byte forms of an IPv4 range
			out = append(out, c10Net{IP: []byte(net.ParseIP("203.0.113.0")), Mask: []byte(net.CIDRMask(120, 128))})
		case 1: // 4-byte address with a 16-byte mask
			out = append(out, c10Net{IP: []byte{8, 8, 0, 0}, Mask: []byte(net.CIDRMask(112, 128))})
		case 2: // non-contiguous mask
			out = append(out, c10Net{IP: []byte{203, 0, 0, 9}, Mask: []byte{255, 0, 0, 255}})
		case 3: // IPv6 address with a 4-byte mask: matches nothing
			out = append(out, c10Net{IP: []byte(net.ParseIP("2001:db8::")), Mask: []byte{255, 255, 0, 0}})
		case 4: // random prefix length
			if r.Intn(2) == 0 {
				bits := r.Intn(33)
				ip := net.ParseIP(c10RandV4(r)).To4().Mask(net.CIDRMask(bits, 32))
				out = append(out, c10Net{IP: []byte(ip), Mask: []byte(net.CIDRMask(bits, 32))})
			} else {
				bits := r.Intn(129)
				ip := net.ParseIP(c10RandV6(r)).Mask(net.CIDRMask(bits, 128))
				out = append(out, c10Net{IP: []byte(ip), Mask: []byte(net.CIDRMask(bits, 128))})
			}
		default:
			out = append(out, c10ParseNet(c10Pick(r, c10CIDRs)))
		}
	}
	return out
}

// c10MkOpts turns a configuration (flags + ranges) into the option list an application might
// write: canonical order, only the non-default flags, any interleaving (ranges before the
// flags), flags given twice (the last one counts), no option at all for the defaults.
func c10MkOpts(r *rand.Rand, lb, ll, pn bool, nets []c10Net) []c10Opt {
	flags := []c10Opt{{K: 0, V: lb}, {K: 1, V: ll}, {K: 2, V: pn}}
	var rng []c10Opt
	for i := range nets {
		n := nets[i]
		rng = append(rng, c10Opt{K: 3, Net: &n})
	}
	onlyNonDefault := func() []c10Opt {
		var o []c10Opt
		for _, f := range flags {
			if !f.V {
				o = append(o, f)
			}
		}
		return o
	}
	var out []c10Opt
	if r.Intn(4) == 0 {
		// the same option 2, 3 or 4 times ("base options" + "deployment options" appended): each flag gets a
		// sequence of values whose LAST one is the configured value — equal values repeated (false, false),
		// (false, false, false), (true, true) as well as changing ones (false, true, false); ranges repeated too
		for _, f := range flags {
			n := 1 + r.Intn(4)
			for i := 0; i < n-1; i++ {
				v := f.V
				if r.Intn(3) == 0 {
					v = !v
				}
				out = append(out, c10Opt{K: f.K, V: v})
			}
			out = append(out, f)
		}
		for _, n := range rng {
			for k := 1 + r.Intn(3); k > 0; k-- {
				out = append(out, n)
			}
		}
		// keep the relative order of the options of one flag (the last value must stay last), mix the rest
		if r.Intn(2) == 0 {
			var keys [4][]c10Opt
			for _, o := range out {
				keys[o.K] = append(keys[o.K], o)
			}
			out = out[:0]
			for len(keys[0])+len(keys[1])+len(keys[2])+len(keys[3]) > 0 {
				k := r.Intn(4)
				if len(keys[k]) > 0 {
					out = append(out, keys[k][0])
					keys[k] = keys[k][1:]
				}
			}
		}
		return out
	}
	switch r.Intn(8) {
	case 0: // canonical: the three flags, then the ranges
		out = append(append(out, flags...), rng...)
	case 1: // only what differs from the defaults, ranges last
		out = append(onlyNonDefault(), rng...)
	case 2: // ranges first, then only what differs from the defaults
		out = append(append(out, rng...), onlyNonDefault()...)
	case 3: // ranges first, then all flags
		out = append(append(out, rng...), flags...)
	case 4, 5: // any interleaving
		out = append(append(out, flags...), rng...)
		if r.Intn(2) == 0 {
			out = append(onlyNonDefault(), rng...)
		}
		r.Shuffle(len(out), func(i, j int) { out[i], out[j] = out[j], out[i] })
	default: // flags given twice: an earlier, opposite value that must not survive; ranges in between
		for _, f := range flags {
			if r.Intn(2) == 0 {
				out = append(out, c10Opt{K: f.K, V: !f.V})
			}
		}
		for _, n := range rng {
			if r.Intn(2) == 0 {
				out = append(out, n)
			}
		}
		r.Shuffle(len(out), func(i, j int) { out[i], out[j] = out[j], out[i] })
		tail := append([]c10Opt(nil), flags...)
		for _, n := range rng {
			found := false
			for _, o := range out {
				if o.Net == n.Net {
					found = true
				}
			}
			if !found {
				tail = append(tail, n)
			}
		}
		r.Shuffle(len(tail), func(i, j int) { tail[i], tail[j] = tail[j], tail[i] })
		out = append(out, tail...)
	}
	return out
}

func (c *c10Case) setCfg(r *rand.Rand, lb, ll, pn bool, nets []c10Net) {
	c.Opts = c10MkOpts(r, lb, ll, pn, nets)
	c.derive()
}

func c10GenList(r *rand.Rand, c *c10Case, n int) []string {
	var out []string
	for i := 0; i < n; i++ {
		out = append(out, c10Decorate(r, c10Addr(r, c, 2)))
	}
	return out
}

// header names other than the two the extractors are configured for: what proxies, CDNs and "get the client IP"
// snippets look at
var c10OtherHeaders = []string{"Forwarded", "X-Forwarded", "X-Forwarded-Host", "X-Forwarded-Proto", "X-Forwarded-Port", "X-Forwarded-Server", "X-Client-IP", "X-Cluster-Client-IP",
	"True-Client-IP", "CF-Connecting-IP", "Fastly-Client-IP", "X-Original-Forwarded-For", "X-Originating-IP", "X-Remote-IP", "X-Remote-Addr", "Client-IP", "Via",
	"X-Envoy-External-Address", "X-Real-IP-Override", "X-Forwarded-For-Original", "X-ProxyUser-Ip", "X-Appengine-User-Ip", "Proxy-Client-IP", "WL-Proxy-Client-IP", "X-Host", "Remote-Addr"}

func c10GenExtra(r *rand.Rand, c *c10Case) [][2]lat1 {
	var out [][2]lat1
	for n := 1 + r.Intn(3); n > 0; n-- {
		name := c10Pick(r, c10OtherHeaders)
		v := c10Addr(r, c, r.Intn(3))
		switch {
		case name == "Forwarded":
			if strings.Contains(v, ":") {
				v = "\"[" + v + "]\""
			}
			v = "for=" + v + c10Pick(r, []string{"", ";proto=https", ";by=10.0.0.1", ", for=10.0.0.2"})
		case r.Intn(4) == 0:
			v = v + ", " + c10Addr(r, c, 0)
		case r.Intn(6) == 0:
			v = c10Decorate(r, v)
		}
		if r.Intn(5) == 0 {
			name = strings.ToLower(name) // net/http canonicalises the key
		}
		out = append(out, [2]lat1{lat1(name), lat1(v)})
	}
	return out
}

func c10GenReqCase(r *rand.Rand, big bool) *c10Case {
	c := &c10Case{Kind: 0}
	f := r.Intn(8)
	if r.Intn(3) == 0 {
		f = 7 // the default configuration
	}
	nets := c10GenNets(r)
	if r.Intn(6) == 0 {
		// "only my proxies": a class switched off, ranges inside it listed explicitly
		f = []int{3, 5, 6, 0, 1, 2, 4}[r.Intn(7)]
		for k := 1 + r.Intn(2); k > 0; k-- {
			nets = append(nets, c10ParseNet(c10Pick(r, c10ClassCIDRs)))
		}
	}
	c.setCfg(r, f&1 != 0, f&2 != 0, f&4 != 0, nets)
	switch r.Intn(10) {
	case 0:
		c.Ext = 0
	case 1, 2, 3:
		c.Ext = 1
	default:
		c.Ext = 2
	}
	q := c10GenReq(r, c, big)
	c.Remote, c.Real, c.XFF = q.Remote, q.Real, q.XFF
	for k := 1 + r.Intn(3); k > 0; k-- {
		c.Alt = append(c.Alt, lat1s(c10GenList(r, c, r.Intn(4))))
	}
	c.AltR = lat1s(c10GenList(r, c, 1+r.Intn(2)))
	if r.Intn(3) == 0 {
		c.Extra = c10GenExtra(r, c)
	}
	if r.Intn(5) == 0 {
		c.Phase2 = c10GenPhase2(r, c)
	}
	if r.Intn(3) == 0 {
		n := 1 + r.Intn(3)
		if r.Intn(10) == 0 {
			n = 5 + r.Intn(8)
		}
		for ; n > 0; n-- {
			m := c10GenReq(r, c, false)
			if r.Intn(3) == 0 {
				m.Remote = q.Remote // the same peer again, with other headers
			}
			c.More = append(c.More, m)
		}
	}
	return c
}

// c10GenPhase2: the extractor the application installs later.  Mostly a STRICTER one than the first (direct
// instead of a header extractor, a class switched off, ranges removed), with requests whose peers and chains
// were chosen for the first configuration — what the old extractor would still accept.
func c10GenPhase2(r *rand.Rand, c *c10Case) *c10Phase {
	p := &c10Phase{}
	c2 := &c10Case{}
	switch r.Intn(6) {
	case 0, 1: // header extractor -> direct
		p.Ext = 0
	case 2: // same kind, private networks no longer trusted, ranges dropped
		p.Ext = c.Ext
		p.Opts = []c10Opt{{K: 2, V: false}}
	case 3: // same kind, nothing trusted but the ranges
		p.Ext = c.Ext
		p.Opts = []c10Opt{{K: 0, V: false}, {K: 1, V: false}, {K: 2, V: false}}
		for _, n := range c.Nets {
			n := n
			if r.Intn(2) == 0 {
				p.Opts = append(p.Opts, c10Opt{K: 3, Net: &n})
			}
		}
	case 4: // the other header
		p.Ext = 3 - c.Ext
		if p.Ext < 1 || p.Ext > 2 {
			p.Ext = 2
		}
		p.Opts = append([]c10Opt(nil), c.Opts...)
	default: // anything
		p.Ext = r.Intn(3)
		f := r.Intn(8)
		c2.setCfg(r, f&1 != 0, f&2 != 0, f&4 != 0, c10GenNets(r))
		p.Opts = c2.Opts
	}
	c2.Ext, c2.Opts = p.Ext, p.Opts
	c2.derive()
	for n := 1 + r.Intn(4); n > 0; n-- {
		src := c
		if r.Intn(3) == 0 {
			src = c2
		}
		q := c10GenReq(r, src, false)
		if r.Intn(4) == 0 {
			q.Remote = c.Remote
		}
		p.Reqs = append(p.Reqs, q)
	}
	if r.Intn(2) == 0 {
		// the base request once more, now under the new extractor
		p.Reqs = append(p.Reqs, c10ReqJ{Remote: c.Remote, Real: c.Real, XFF: c.XFF})
	}
	return p
}

// c10GenConcurrent: one extractor, a set of requests with different chains, many goroutines.
func c10GenConcurrent(r *rand.Rand, tier string) *c10Case {
	c := &c10Case{Kind: 2, Ext: 2, Par: 8, Iter: 1500}
	if tier == "thorough" {
		c.Par, c.Iter = 8+r.Intn(9), 4000
	}
	if r.Intn(5) == 0 {
		c.Ext = 1
	}
	f := 7
	if r.Intn(3) == 0 {
		f = r.Intn(8)
	}
	c.setCfg(r, f&1 != 0, f&2 != 0, f&4 != 0, c10GenNets(r))
	for n := 3 + r.Intn(10); n > 0; n-- {
		q := c10GenReq(r, c, r.Intn(3) == 0)
		if len(q.XFF) == 0 {
			q.XFF = lat1s([]string{c10Addr(r, c, 1) + ", " + c10Addr(r, c, 0)})
		}
		c.More = append(c.More, q)
	}
	return c
}

// c10GenReq generates one request for the configuration of c.
func c10GenReq(r *rand.Rand, c *c10Case, big bool) c10ReqJ {
	var q c10ReqJ
	// peer: mostly a trusted proxy (otherwise headers never matter)
	peerClass := 0
	switch r.Intn(10) {
	case 0, 1:
		peerClass = 1
	case 2:
		peerClass = 2
	}
	q.Remote = lat1(c10Remote(r, c10Addr(r, c, peerClass)))
	// X-Forwarded-For: client, ..., proxies; built as pre ++ [e] ++ suf with suf trusted
	maxN := 5
	if big {
		maxN = 12
	}
	long := r.Intn(12) == 0 // a very long chain: dozens of forged entries before the ones the proxies appended
	if long {
		maxN = 20 + r.Intn(60)
	}
	if r.Intn(10) != 0 {
		var ents []string
		switch r.Intn(4) {
		case 0: // free form
			ents = c10GenList(r, c, r.Intn(maxN+1))
		default:
			ents = c10GenList(r, c, r.Intn(3))
			if long {
				ents = c10GenList(r, c, 10+r.Intn(maxN))
			}
			e := c10Addr(r, c, 1)
			if r.Intn(4) == 0 {
				e = c10Pick(r, c10Garbage)
			}
			if r.Intn(5) == 0 {
				ents = append(ents, c10Decorate(r, e))
			} else {
				ents = append(ents, c10DecorateOK(r, e))
			}
			for k := r.Intn(maxN); k > 0; k-- {
				ents = append(ents, c10DecorateOK(r, c10Addr(r, c, 0)))
			}
		}
		// spread over lines
		var lines []string
		for len(ents) > 0 {
			k := 1 + r.Intn(len(ents))
			sep := ","
			if r.Intn(2) == 0 {
				sep = ", "
			}
			lines = append(lines, strings.Join(ents[:k], sep))
			ents = ents[k:]
		}
		if r.Intn(15) == 0 {
			lines = append(lines, "")
		}
		if r.Intn(15) == 0 {
			lines = append([]string{""}, lines...)
		}
		q.XFF = lat1s(lines)
	}
	if r.Intn(3) != 0 || c.Ext == 1 {
		n := 1
		if r.Intn(8) == 0 {
			n = 2
		}
		if r.Intn(12) == 0 {
			n = 0
		}
		q.Real = lat1s(c10GenList(r, c, n))
	}
	return q
}

var c10TableFlags = [][3]bool{{true, true, true}, {true, false, false}, {false, true, false}, {false, false, true}}

func c10GenTables(r *rand.Rand, tier string) []any {
	var out []any
	b1s := []int{0, 1, 15, 16, 17, 31, 32, 63, 64, 127, 128, 167, 168, 169, 253, 254, 255}
	if tier == "thorough" {
		b1s = nil
		for i := 0; i < 256; i++ {
			b1s = append(b1s, i)
		}
	}
	for b0 := 0; b0 < 256; b0++ {
		var addrs []string
		for _, b1 := range b1s {
			addrs = append(addrs, fmt.Sprintf("%d.%d.0.1", b0, b1), fmt.Sprintf("%d.%d.255.254", b0, b1))
		}
		fl := c10TableFlags
		if tier != "thorough" {
			fl = [][3]bool{c10TableFlags[0], c10TableFlags[1+b0%3]}
		}
		for _, f := range fl {
			tc := &c10Case{Kind: 1, Addrs: addrs}
			tc.setCfg(r, f[0], f[1], f[2], nil)
			out = append(out, tc)
		}
	}
	// structured IPv6 samples: every first byte x second-byte borders, ::/127 neighbourhood, mapped IPv4
	v6 := []string{"::", "::1", "::2", "::1:0", "1::1", "::ffff:127.0.0.1", "::ffff:10.0.0.1", "::ffff:172.16.0.1", "::ffff:172.32.0.1",
		"::ffff:192.168.0.1", "::ffff:169.254.0.1", "::ffff:8.8.8.8", "::fffe:10.0.0.1", "::127.0.0.1", "::10.0.0.1", "::1:ffff:10.0.0.1",
		"0:0:0:0:0:ffff:7f00:1", "64:ff9b::7f00:1", "8000::1", "ffff:ffff:ffff:ffff:ffff:ffff:ffff:ffff"}
	for b0 := 0; b0 < 256; b0++ {
		for _, b1 := range []int{0x00, 0x3f, 0x40, 0x7f, 0x80, 0xbf, 0xc0, 0xff} {
			v6 = append(v6, fmt.Sprintf("%x::", b0<<8|b1), fmt.Sprintf("%x:ffff:ffff:ffff:ffff:ffff:ffff:ffff", b0<<8|b1), fmt.Sprintf("%x::1", b0<<8|b1))
		}
	}
	n := 40
	if tier == "thorough" {
		n = 4000
	}
	for i := 0; i < n; i++ {
		v6 = append(v6, c10RandV6(r))
	}
	for i := 0; i < len(v6); i += 512 {
		j := c10Min(i+512, len(v6))
		for _, f := range c10TableFlags {
			tc := &c10Case{Kind: 1, Addrs: v6[i:j]}
			tc.setCfg(r, f[0], f[1], f[2], nil)
			out = append(out, tc)
		}
	}
	// tables under extra ranges
	m := 20
	if tier == "thorough" {
		m = 300
	}
	for i := 0; i < m; i++ {
		c := &c10Case{Kind: 1}
		var tn []c10Net
		for len(tn) == 0 {
			tn = c10GenNets(r)
		}
		c.setCfg(r, r.Intn(2) == 0, r.Intn(2) == 0, r.Intn(2) == 0, tn)
		for k := 0; k < 64; k++ {
			switch r.Intn(3) {
			case 0:
				c.Addrs = append(c.Addrs, c10RandV4(r))
			case 1:
				c.Addrs = append(c.Addrs, c10RandV6(r))
			default:
				s := c10Addr(r, c, r.Intn(2))
				if net.ParseIP(s) != nil {
					c.Addrs = append(c.Addrs, s)
				}
			}
		}
		// both sides of every range border
		for _, n := range c.Nets {
			nn := &net.IPNet{IP: n.IP, Mask: n.Mask}
			if len(n.IP) != len(n.Mask) || (len(n.IP) != 4 && len(n.IP) != 16) {
				continue
			}
			lo := append(net.IP(nil), nn.IP.Mask(nn.Mask)...)
			hi := append(net.IP(nil), lo...)
			for k := range hi {
				hi[k] |= ^n.Mask[k]
			}
			for _, a := range []net.IP{lo, hi, c10Step(lo, -1), c10Step(hi, 1)} {
				if a != nil {
					s := a.String()
					if len(a) == 16 && !strings.Contains(s, ":") {
						s = "::ffff:" + s
					}
					c.Addrs = append(c.Addrs, s)
				}
			}
		}
		out = append(out, c)
	}
	return out
}

// c10Step returns ip+d (d = ±1) or nil on wrap-around.
func c10Step(ip net.IP, d int) net.IP {
	out := append(net.IP(nil), ip...)
	for i := len(out) - 1; i >= 0; i-- {
		if d > 0 {
			out[i]++
			if out[i] != 0 {
				return out
			}
		} else {
			out[i]--
			if out[i] != 0xff {
				return out
			}
		}
	}
	return nil
}

func c10Gen(r *rand.Rand, tier string) []any {
	n := 6000
	if tier == "thorough" {
		n = 90000
	}
	out := c10GenTables(r, tier)
	for i := 0; i < n; i++ {
		out = append(out, c10GenReqCase(r, tier == "thorough" && i%4 == 0))
	}
	nc := 30
	if tier == "thorough" {
		nc = 200
	}
	for i := 0; i < nc; i++ {
		out = append(out, c10GenConcurrent(r, tier))
	}
	// (d) net.ParseIP vs the model's parseIP on every token of the cases above + adversarial families
	out = append(out, c10GenParse(r, tier, out)...)
	return out
}

// ---------- shrinking ----------

func c10Shrink(ci any) []any {
	c := ci.(*c10Case)
	var out []any
	if c.Kind == 3 {
		if n := len(c.Toks); n > 1 {
			out = append(out, &c10Case{Kind: 3, Toks: c.Toks[:n/2]}, &c10Case{Kind: 3, Toks: c.Toks[n/2:]})
		}
		return out
	}
	cp := func() *c10Case {
		d := *c
		d.Opts = append([]c10Opt(nil), c.Opts...)
		d.More = append([]c10ReqJ(nil), c.More...)
		d.Real = append([]lat1(nil), c.Real...)
		d.XFF = append([]lat1(nil), c.XFF...)
		d.Alt = append([][]lat1(nil), c.Alt...)
		d.AltR = append([]lat1(nil), c.AltR...)
		d.Addrs = append([]string(nil), c.Addrs...)
		return &d
	}
	if c.Kind == 1 {
		if len(c.Addrs) > 1 {
			h := len(c.Addrs) / 2
			d := cp()
			d.Addrs = d.Addrs[:h]
			out = append(out, d)
			d = cp()
			d.Addrs = d.Addrs[h:]
			out = append(out, d)
		}
		if len(c.Addrs) <= 8 {
			for i := range c.Addrs {
				d := cp()
				d.Addrs = append(d.Addrs[:i], d.Addrs[i+1:]...)
				out = append(out, d)
			}
		}
	}
	if len(c.Extra) > 0 {
		d := cp()
		d.Extra = nil
		out = append(out, d)
		if len(c.Extra) > 1 {
			for i := range c.Extra {
				d := cp()
				d.Extra = append(append([][2]lat1(nil), c.Extra[:i]...), c.Extra[i+1:]...)
				out = append(out, d)
			}
		}
	}
	for i := range c.Opts {
		d := cp()
		d.Opts = append(d.Opts[:i], d.Opts[i+1:]...)
		out = append(out, d)
	}
	if c.Kind == 1 {
		return out
	}
	if c.Kind == 2 {
		// keep the concurrency, drop requests and options
		if len(c.More) > 2 {
			for i := range c.More {
				d := cp()
				d.More = append(d.More[:i], d.More[i+1:]...)
				out = append(out, d)
			}
		}
		return out
	}
	if c.Phase2 != nil {
		d := cp()
		d.Phase2 = nil
		out = append(out, d)
		for i := range c.Phase2.Reqs {
			d := cp()
			p := *c.Phase2
			p.Reqs = append(append([]c10ReqJ(nil), p.Reqs[:i]...), p.Reqs[i+1:]...)
			d.Phase2 = &p
			out = append(out, d)
		}
		for i := range c.Phase2.Opts {
			d := cp()
			p := *c.Phase2
			p.Opts = append(append([]c10Opt(nil), p.Opts[:i]...), p.Opts[i+1:]...)
			d.Phase2 = &p
			out = append(out, d)
		}
	}
	if len(c.More) > 0 {
		d := cp()
		d.More = nil
		out = append(out, d)
		for i := range c.More {
			d := cp()
			d.More = append(d.More[:i], d.More[i+1:]...)
			out = append(out, d)
			// a failing request of the sequence on its own
			d = cp()
			d.Remote, d.Real, d.XFF, d.More = c.More[i].Remote, c.More[i].Real, c.More[i].XFF, nil
			out = append(out, d)
		}
	}
	for i := range c.Alt {
		d := cp()
		d.Alt = append(d.Alt[:i], d.Alt[i+1:]...)
		out = append(out, d)
		if len(c.Alt[i]) > 1 {
			d = cp()
			d.Alt[i] = c.Alt[i][1:]
			out = append(out, d)
		}
	}
	for i := range c.AltR {
		d := cp()
		d.AltR = append(d.AltR[:i], d.AltR[i+1:]...)
		out = append(out, d)
	}
	for i := range c.Real {
		d := cp()
		d.Real = append(d.Real[:i], d.Real[i+1:]...)
		out = append(out, d)
	}
	// merge the X-Forwarded-For lines into one, then drop entries
	if len(c.XFF) > 1 {
		d := cp()
		d.XFF = []lat1{lat1(strings.Join(unlat1s(c.XFF), ","))}
		out = append(out, d)
	}
	for i := range c.XFF {
		d := cp()
		d.XFF = append(d.XFF[:i], d.XFF[i+1:]...)
		out = append(out, d)
		ents := strings.Split(string(c.XFF[i]), ",")
		if len(ents) > 1 {
			for k := range ents {
				d := cp()
				e2 := append(append([]string(nil), ents[:k]...), ents[k+1:]...)
				d.XFF[i] = lat1(strings.Join(e2, ","))
				out = append(out, d)
			}
		}
		for k := range ents {
			if t := strings.TrimSpace(ents[k]); t != ents[k] {
				d := cp()
				e2 := append([]string(nil), ents...)
				e2[k] = t
				d.XFF[i] = lat1(strings.Join(e2, ","))
				out = append(out, d)
			}
		}
	}
	return out
}

func c10Min(a, b int) int {
	if a < b {
		return a
	}
	return b
}

func init() {
	register(&Prop{
		ID:             "C10",
		Rule:           "(a) requests: extractor {direct, X-Real-IP, X-Forwarded-For} x all 8 trust-flag combinations x 0-5 (rarely 20/21) extra ranges (CIDR pool incl. ranges inside / straddling the built-in classes, random prefix lengths, 16-byte / mixed-length / non-contiguous IPNets), passed as an ORDERED option list: canonical, only the non-default flags (down to no option at all), ranges before flags, any interleaving, flags given twice with the last value counting, the SAME option 2-4 times with equal and with changing arguments, ranges repeated; the option slice is overwritten after the extractor was constructed x peers (RemoteAddr with ports, brackets, malformed) x X-Forwarded-For lists built as prefix ++ [untrusted or unparsable entry] ++ trusted suffix over 0-4 header lines with spaces (ASCII and Unicode), brackets, garbage, IPv4 / IPv6 / IPv4-mapped literals, plus free-form lists; every case also runs variants that differ only in attacker-controlled input (entries left of the decisive hop, headers of an untrusted peer) and requires the same result; a third of the cases serve the base request once more with 1-3 OTHER headers added (Forwarded, X-Client-IP, True-Client-IP, CF-Connecting-IP, X-Forwarded-Host, Via ... with forged / trusted / garbage values): no extractor may look at anything but RemoteAddr and its own header; RemoteAddr also in the shapes of unix-socket listeners (`@`, a path); reported addresses are compared with the reference as ADDRESSES when both are IP literals (spelling free), as texts otherwise; each request goes through Context.RealIP and the extractor directly; a third of the cases continue with 1-12 unrelated requests (own reference reading each) through the same Echo instance and extractor closure and then repeat the base request; a fifth then REPLACE Echo.IPExtractor (mostly by a stricter one: direct, a class switched off, ranges dropped) and serve 1-5 more requests through the same Echo, also through a context acquired and one created by NewContext BEFORE the replacement. (c) concurrency: 30 (thorough 200) cases in which 8-16 goroutines issue a set of 3-12 requests with different chains 1500-4000 times each through ONE extractor value and ONE Echo (extractor calls and ServeHTTP mixed); every single answer must equal the property's reading for its own request. (b) classification tables: for every first octet and every (thorough) or boundary (quick) second octet the trust decision for b0.b1.0.1 and b0.b1.255.254 observed through both header extractors, under all-flags and single-flag configurations; structured IPv6 samples (every first byte x second-byte borders, ::1 neighbourhood, IPv4-mapped); tables around the borders of extra ranges. (d) net.ParseIP against the model's parseIP (EchoModel/C10Parse.lean): token lists (64 per case) holding every text of the cases above that can reach net.ParseIP (peer hosts, raw and normalised X-Forwarded-For entries, X-Real-Ip values, replacement entries, table addresses), a fixed adversarial set (leading zeros, 256, 3/5 fields, dots, signs, hex in IPv4, ::, ::1, 1::, 8 groups + ::, 9 groups, :::, embedded IPv4 in every position, zones, both hex cases, 5-digit groups, empty groups, white space incl. Unicode, non-ASCII digits, NUL), structured families (every decimal field 0..300 per position with/without leading zeros, every count of groups before/after :: with/without embedded IPv4, IP.String of all 256 zero/non-zero group patterns plus uncompressed and non-canonical spellings, inputs of 2000-5000 bytes) and 6000 (thorough 60000) random one/two-byte edits of valid literals; per token the oracle also checks net.ParseIP against netip.ParseAddr, the alphabet of accepted texts and the String round trip; the request cases additionally make the model compare parseIP with every entry of the parse table they ship. non-trivial = a request whose result differs from the peer or that ran relational variants, or a table containing both trusted and untrusted addresses, or a token list with accepted and rejected tokens; distinct = distinct model op lines",
		New:            func() any { return &c10Case{} },
		Gen:            c10Gen,
		Run:            c10Run,
		Shrink:         c10Shrink,
		Extra:          c10ParseExtra,
		Tolerable:      c10Tolerable,
		Correspondence: "C10.realIPCtx / C10.trust (lean/EchoModel/C10.lean) vs echo.ExtractIPDirect, ExtractIPFromRealIPHeader, ExtractIPFromXFFHeader through Context.RealIP; C10.parseIP (lean/EchoModel/C10Parse.lean) vs net.ParseIP",
	})
}
