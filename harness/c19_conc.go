package main

// C19 kind 4: concurrent AddTarget/RemoveTarget/Next (supporting evidence for the
// "concurrently with traffic" clause; the proof side is C19_linearizable, which takes the
// atomicity of the mutex-protected operations as given).
//
// Every name is added at most once in a case, so "removed before the call started and not
// re-added" is decidable from the recorded call intervals (logical clock = atomic counter).

import (
	"fmt"
	"math/rand"
	"net/http"
	"net/http/httptest"
	"net/url"
	"sort"
	"sync"
	"sync/atomic"

	"github.com/labstack/echo/v4"
	"github.com/labstack/echo/v4/middleware"
)

type c19Ev struct {
	op         c19Op
	start, end int64
	ok         bool
	got        string // name returned by Next ("" + nilRet for nil)
	nilRet     bool
}

// removal storm: a long list, every goroutine removes its own share of the names (all goroutines are
// inside RemoveTarget at the same time, the lock is handed from one to the next) with a few picks in
// between; aimed at index-based splicing that is not atomic with the search
func c19GenStorm(r *rand.Rand, tier string) *c19Case {
	c := &c19Case{Kind: 4, RR: r.Intn(3) != 0, Conc: &c19Conc{}}
	n := 24 + r.Intn(40)
	if tier == "thorough" {
		n = 40 + r.Intn(100)
	}
	for i := 0; i < n; i++ {
		c.Init = append(c.Init, c19Target{fmt.Sprintf("i%d", i), i % 6})
	}
	g := 4 + r.Intn(5)
	keep := r.Intn(4) // names nobody removes
	scripts := make([][]c19Op, g)
	nctx := make([]int, g)
	for _, i := range r.Perm(n)[keep:] {
		k := i % g
		scripts[k] = append(scripts[k], c19Op{K: 1, Name: fmt.Sprintf("i%d", i)})
		if r.Intn(4) == 0 {
			scripts[k] = append(scripts[k], c19Op{K: 2, Ctx: nctx[k]})
			nctx[k]++
		}
	}
	c.Conc.Scripts = scripts
	return c
}

func c19GenConc(r *rand.Rand, tier string) *c19Case {
	if r.Intn(2) == 0 {
		return c19GenStorm(r, tier)
	}
	c := &c19Case{Kind: 4, RR: r.Intn(3) != 0, Conc: &c19Conc{}}
	nInit := r.Intn(4)
	var names []string
	for i := 0; i < nInit; i++ {
		nm := fmt.Sprintf("i%d", i)
		c.Init = append(c.Init, c19Target{nm, i})
		names = append(names, nm)
	}
	g := 2 + r.Intn(5)
	perG := 20 + r.Intn(120)
	if tier == "thorough" {
		perG = 50 + r.Intn(600)
	}
	// names that will be added: decided up front so other goroutines can try to remove them
	planned := make([][]string, g)
	for k := 0; k < g; k++ {
		n := 1 + r.Intn(6)
		for j := 0; j < n; j++ {
			nm := fmt.Sprintf("g%d_%d", k, j)
			planned[k] = append(planned[k], nm)
			names = append(names, nm)
		}
	}
	for k := 0; k < g; k++ {
		var ops []c19Op
		next := 0
		nctx := 0
		for i := 0; i < perG; i++ {
			switch x := r.Intn(10); {
			case x == 0 && next < len(planned[k]):
				ops = append(ops, c19Op{K: 0, Name: planned[k][next], URL: r.Intn(6)})
				next++
			case x == 1 || x == 2:
				ops = append(ops, c19Op{K: 1, Name: names[r.Intn(len(names))]})
			default:
				if nctx == 0 || r.Intn(3) != 0 {
					ops = append(ops, c19Op{K: 2, Ctx: nctx})
					nctx++
				} else {
					ops = append(ops, c19Op{K: 2, Ctx: r.Intn(nctx)})
				}
			}
		}
		c.Conc.Scripts = append(c.Conc.Scripts, ops)
	}
	return c
}

func c19RunConc(c *c19Case) Result {
	if c.Conc == nil {
		return Result{Oracle: "no scripts"}
	}
	var init []*middleware.ProxyTarget
	isInit := map[string]bool{}
	for _, t := range c.Init {
		u, _ := url.Parse(fmt.Sprintf("http://h%d.test", t.URL))
		init = append(init, &middleware.ProxyTarget{Name: t.Name, URL: u})
		isInit[t.Name] = true
	}
	bal := c19NewBalancer(c.RR, init)
	e := echo.New()
	var clock int64
	logs := make([][]c19Ev, len(c.Conc.Scripts))
	panics := make([]any, len(c.Conc.Scripts))
	var wg sync.WaitGroup
	startGate := make(chan struct{})
	for g, script := range c.Conc.Scripts {
		wg.Add(1)
		go func(g int, script []c19Op) {
			defer wg.Done()
			defer func() {
				if r := recover(); r != nil {
					panics[g] = r
				}
			}()
			ctxs := map[int]echo.Context{}
			<-startGate
			for _, op := range script {
				ev := c19Ev{op: op}
				switch op.K {
				case 0:
					u, _ := url.Parse(fmt.Sprintf("http://h%d.test", op.URL))
					pt := &middleware.ProxyTarget{Name: op.Name, URL: u}
					ev.start = atomic.AddInt64(&clock, 1)
					ev.ok = bal.AddTarget(pt)
					ev.end = atomic.AddInt64(&clock, 1)
				case 1:
					ev.start = atomic.AddInt64(&clock, 1)
					ev.ok = bal.RemoveTarget(op.Name)
					ev.end = atomic.AddInt64(&clock, 1)
				case 2:
					ctx, ok := ctxs[op.Ctx]
					if !ok {
						ctx = e.NewContext(httptest.NewRequest(http.MethodGet, "/", nil), httptest.NewRecorder())
						ctxs[op.Ctx] = ctx
					}
					ev.start = atomic.AddInt64(&clock, 1)
					t := bal.Next(ctx)
					ev.end = atomic.AddInt64(&clock, 1)
					if t == nil {
						ev.nilRet = true
					} else {
						ev.got = t.Name
					}
				}
				logs[g] = append(logs[g], ev)
			}
		}(g, script)
	}
	close(startGate)
	wg.Wait()

	oracle := ""
	fail := func(msg string) {
		if oracle == "" {
			oracle = msg
		}
	}
	for g, p := range panics {
		if p != nil {
			fail(fmt.Sprintf("goroutine %d panicked: %v", g, p))
		}
	}
	addEv := map[string]*c19Ev{}
	rmEv := map[string]*c19Ev{}
	var nexts []*c19Ev
	nOps := 0
	for g := range logs {
		for i := range logs[g] {
			ev := &logs[g][i]
			nOps++
			switch ev.op.K {
			case 0:
				if !ev.ok {
					fail(fmt.Sprintf("AddTarget(%q) returned false although that name was never added before", ev.op.Name))
				}
				addEv[ev.op.Name] = ev
			case 1:
				if ev.ok {
					if rmEv[ev.op.Name] != nil {
						fail(fmt.Sprintf("RemoveTarget(%q) succeeded twice although the name was added once", ev.op.Name))
					}
					rmEv[ev.op.Name] = ev
				}
			case 2:
				nexts = append(nexts, ev)
			}
		}
	}
	for name, rm := range rmEv {
		if !isInit[name] {
			if ad := addEv[name]; ad == nil || ad.start > rm.end {
				fail(fmt.Sprintf("RemoveTarget(%q) succeeded before the target was added", name))
			}
		}
	}
	for _, nx := range nexts {
		if nx.nilRet {
			// nil is only right for an empty list.  A target that was there before the call started
			// (initial, or its AddTarget had returned) and whose removal — if any — started only after
			// the call returned was in the list at every moment of the call.
			var present []string
			for name := range isInit {
				present = append(present, name)
			}
			for name := range addEv {
				present = append(present, name)
			}
			sort.Strings(present)
			for _, name := range present {
				if ad := addEv[name]; !isInit[name] && (ad == nil || !ad.ok || ad.end >= nx.start) {
					continue
				}
				if rm := rmEv[name]; rm != nil && rm.start <= nx.end {
					continue
				}
				fail(fmt.Sprintf("Next returned nil although target %q was in the list during the whole call", name))
				break
			}
			continue
		}
		if rm := rmEv[nx.got]; rm != nil && rm.end < nx.start {
			fail(fmt.Sprintf("Next returned %q although RemoveTarget(%q) had returned true before the call started (and the name is never re-added)", nx.got, nx.got))
		}
		if !isInit[nx.got] {
			if ad := addEv[nx.got]; ad == nil || ad.start > nx.end {
				fail(fmt.Sprintf("Next returned %q before it was added", nx.got))
			}
		}
	}
	// final membership: every added and not removed target is still served, nothing else is
	expect := map[string]bool{}
	for n := range isInit {
		expect[n] = true
	}
	for n, ad := range addEv {
		if ad.ok {
			expect[n] = true
		}
	}
	for n := range rmEv {
		delete(expect, n)
	}
	seen := map[string]int{}
	func() {
		defer func() {
			if r := recover(); r != nil {
				fail(fmt.Sprintf("panic in Next after the concurrent phase: %v", r))
			}
		}()
		rounds := len(expect)
		if !c.RR {
			rounds = 300 * len(expect)
		}
		if rounds == 0 {
			rounds = 1
		}
		for i := 0; i < rounds; i++ {
			ctx := e.NewContext(httptest.NewRequest(http.MethodGet, "/", nil), httptest.NewRecorder())
			t := bal.Next(ctx)
			if t == nil {
				if len(expect) != 0 {
					fail("Next returned nil after the concurrent phase although targets remain")
				}
				return
			}
			seen[t.Name]++
		}
	}()
	var exp []string
	for n := range expect {
		exp = append(exp, n)
	}
	sort.Strings(exp)
	for n := range seen {
		if !expect[n] {
			fail(fmt.Sprintf("after the concurrent phase Next still returns %q (removed or never added)", n))
		}
	}
	for _, n := range exp {
		if seen[n] == 0 {
			fail(fmt.Sprintf("added target %q is never returned after the concurrent phase (lost)", n))
		} else if c.RR && seen[n] != 1 {
			fail(fmt.Sprintf("round robin returned %q %d times in %d consecutive picks", n, seen[n], len(exp)))
		}
	}
	tags := []string{"conc"}
	if c.RR {
		tags = append(tags, "conc-rr")
	} else {
		tags = append(tags, "conc-random")
	}
	return Result{Oracle: oracle, Tags: tags, Nontrivial: len(rmEv) > 0 && len(addEv) > 0 && nOps > 50}
}
