package main

// C19 kind 4: concurrent AddTarget/RemoveTarget/Next (supporting evidence for the
// "concurrently with traffic" clause; the proof side is C19_linearizable, which takes the
// atomicity of the mutex-protected operations as given).
//
// Every name is added at most once in a case, so "removed before the call started and not
// re-added" is decidable from the recorded call intervals (logical clock = atomic counter).

import (
	"fmt"
	"math/rand"
	"net/http"
	"net/http/httptest"
	"net/url"
	"runtime"
	"sort"
	"sync"
	"sync/atomic"
	"time"

	"github.com/labstack/echo/v4"
	"github.com/labstack/echo/v4/middleware"
)

type c19Ev struct {
	op         c19Op
	start, end int64
	ok         bool
	got        string // name returned by Next ("" + nilRet for nil)
	nilRet     bool
}

// removal storm: a long list, every goroutine removes its own share of the names (all goroutines are
// inside RemoveTarget at the same time, the lock is handed from one to the next) with a few picks in
// between; aimed at index-based splicing that is not atomic with the search
func c19GenStorm(r *rand.Rand, tier string) *c19Case {
	c := &c19Case{Kind: 4, RR: r.Intn(3) != 0, Conc: &c19Conc{}}
	n := 24 + r.Intn(40)
	if tier == "thorough" {
		n = 40 + r.Intn(100)
	}
	for i := 0; i < n; i++ {
		c.Init = append(c.Init, c19Target{fmt.Sprintf("i%d", i), i % 6})
	}
	g := 4 + r.Intn(5)
	keep := r.Intn(4) // names nobody removes
	scripts := make([][]c19Op, g)
	nctx := make([]int, g)
	for _, i := range r.Perm(n)[keep:] {
		k := i % g
		scripts[k] = append(scripts[k], c19Op{K: 1, Name: fmt.Sprintf("i%d", i)})
		if r.Intn(4) == 0 {
			scripts[k] = append(scripts[k], c19Op{K: 2, Ctx: nctx[k]})
			nctx[k]++
		}
	}
	c.Conc.Scripts = scripts
	return c
}

func c19GenConc(r *rand.Rand, tier string) *c19Case {
	if r.Intn(2) == 0 {
		return c19GenStorm(r, tier)
	}
	c := &c19Case{Kind: 4, RR: r.Intn(3) != 0, Conc: &c19Conc{}}
	nInit := r.Intn(4)
	var names []string
	for i := 0; i < nInit; i++ {
		nm := fmt.Sprintf("i%d", i)
		c.Init = append(c.Init, c19Target{nm, i})
		names = append(names, nm)
	}
	g := 2 + r.Intn(5)
	perG := 20 + r.Intn(120)
	if tier == "thorough" {
		perG = 50 + r.Intn(600)
	}
	// names that will be added: decided up front so other goroutines can try to remove them
	planned := make([][]string, g)
	for k := 0; k < g; k++ {
		n := 1 + r.Intn(6)
		for j := 0; j < n; j++ {
			nm := fmt.Sprintf("g%d_%d", k, j)
			planned[k] = append(planned[k], nm)
			names = append(names, nm)
		}
	}
	for k := 0; k < g; k++ {
		var ops []c19Op
		next := 0
		nctx := 0
		for i := 0; i < perG; i++ {
			switch x := r.Intn(10); {
			case x == 0 && next < len(planned[k]):
				ops = append(ops, c19Op{K: 0, Name: planned[k][next], URL: r.Intn(6)})
				next++
			case x == 1 || x == 2:
				ops = append(ops, c19Op{K: 1, Name: names[r.Intn(len(names))]})
			default:
				if nctx == 0 || r.Intn(3) != 0 {
					ops = append(ops, c19Op{K: 2, Ctx: nctx})
					nctx++
				} else {
					ops = append(ops, c19Op{K: 2, Ctx: r.Intn(nctx)})
				}
			}
		}
		c.Conc.Scripts = append(c.Conc.Scripts, ops)
	}
	return c
}

func c19RunConc(c *c19Case) Result {
	if c.Conc == nil {
		return Result{Oracle: "no scripts"}
	}
	if len(c.Conc.Rounds) > 0 {
		return c19RunRounds(c)
	}
	var init []*middleware.ProxyTarget
	isInit := map[string]bool{}
	for _, t := range c.Init {
		u, _ := url.Parse(fmt.Sprintf("http://h%d.test", t.URL))
		init = append(init, &middleware.ProxyTarget{Name: t.Name, URL: u})
		isInit[t.Name] = true
	}
	bal := c19NewBalancer(c.RR, init)
	e := echo.New()
	var clock int64
	logs := make([][]c19Ev, len(c.Conc.Scripts))
	panics := make([]any, len(c.Conc.Scripts))
	var wg sync.WaitGroup
	startGate := make(chan struct{})
	for g, script := range c.Conc.Scripts {
		wg.Add(1)
		go func(g int, script []c19Op) {
			defer wg.Done()
			defer func() {
				if r := recover(); r != nil {
					panics[g] = r
				}
			}()
			ctxs := map[int]echo.Context{}
			<-startGate
			for _, op := range script {
				ev := c19Ev{op: op}
				switch op.K {
				case 0:
					u, _ := url.Parse(fmt.Sprintf("http://h%d.test", op.URL))
					pt := &middleware.ProxyTarget{Name: op.Name, URL: u}
					ev.start = atomic.AddInt64(&clock, 1)
					ev.ok = bal.AddTarget(pt)
					ev.end = atomic.AddInt64(&clock, 1)
				case 1:
					ev.start = atomic.AddInt64(&clock, 1)
					ev.ok = bal.RemoveTarget(op.Name)
					ev.end = atomic.AddInt64(&clock, 1)
				case 2:
					ctx, ok := ctxs[op.Ctx]
					if !ok {
						ctx = e.NewContext(httptest.NewRequest(http.MethodGet, "/", nil), httptest.NewRecorder())
						ctxs[op.Ctx] = ctx
					}
					ev.start = atomic.AddInt64(&clock, 1)
					t := bal.Next(ctx)
					ev.end = atomic.AddInt64(&clock, 1)
					if t == nil {
						ev.nilRet = true
					} else {
						ev.got = t.Name
					}
				}
				logs[g] = append(logs[g], ev)
			}
		}(g, script)
	}
	close(startGate)
	wg.Wait()

	oracle := ""
	fail := func(msg string) {
		if oracle == "" {
			oracle = msg
		}
	}
	for g, p := range panics {
		if p != nil {
			fail(fmt.Sprintf("goroutine %d panicked: %v", g, p))
		}
	}
	addEv := map[string]*c19Ev{}
	rmEv := map[string]*c19Ev{}
	var nexts []*c19Ev
	nOps := 0
	for g := range logs {
		for i := range logs[g] {
			ev := &logs[g][i]
			nOps++
			switch ev.op.K {
			case 0:
				if !ev.ok {
					fail(fmt.Sprintf("AddTarget(%q) returned false although that name was never added before", ev.op.Name))
				}
				addEv[ev.op.Name] = ev
			case 1:
				if ev.ok {
					if rmEv[ev.op.Name] != nil {
						fail(fmt.Sprintf("RemoveTarget(%q) succeeded twice although the name was added once", ev.op.Name))
					}
					rmEv[ev.op.Name] = ev
				}
			case 2:
				nexts = append(nexts, ev)
			}
		}
	}
	for name, rm := range rmEv {
		if !isInit[name] {
			if ad := addEv[name]; ad == nil || ad.start > rm.end {
				fail(fmt.Sprintf("RemoveTarget(%q) succeeded before the target was added", name))
			}
		}
	}
	for _, nx := range nexts {
		if nx.nilRet {
			// nil is only right for an empty list.  A target that was there before the call started
			// (initial, or its AddTarget had returned) and whose removal — if any — started only after
			// the call returned was in the list at every moment of the call.
			var present []string
			for name := range isInit {
				present = append(present, name)
			}
			for name := range addEv {
				present = append(present, name)
			}
			sort.Strings(present)
			for _, name := range present {
				if ad := addEv[name]; !isInit[name] && (ad == nil || !ad.ok || ad.end >= nx.start) {
					continue
				}
				if rm := rmEv[name]; rm != nil && rm.start <= nx.end {
					continue
				}
				fail(fmt.Sprintf("Next returned nil although target %q was in the list during the whole call", name))
				break
			}
			continue
		}
		if rm := rmEv[nx.got]; rm != nil && rm.end < nx.start {
			fail(fmt.Sprintf("Next returned %q although RemoveTarget(%q) had returned true before the call started (and the name is never re-added)", nx.got, nx.got))
		}
		if !isInit[nx.got] {
			if ad := addEv[nx.got]; ad == nil || ad.start > nx.end {
				fail(fmt.Sprintf("Next returned %q before it was added", nx.got))
			}
		}
	}
	// final membership: every added and not removed target is still served, nothing else is
	expect := map[string]bool{}
	for n := range isInit {
		expect[n] = true
	}
	for n, ad := range addEv {
		if ad.ok {
			expect[n] = true
		}
	}
	for n := range rmEv {
		delete(expect, n)
	}
	seen := map[string]int{}
	func() {
		defer func() {
			if r := recover(); r != nil {
				fail(fmt.Sprintf("panic in Next after the concurrent phase: %v", r))
			}
		}()
		rounds := len(expect)
		if !c.RR {
			rounds = 300 * len(expect)
		}
		if rounds == 0 {
			rounds = 1
		}
		for i := 0; i < rounds; i++ {
			ctx := e.NewContext(httptest.NewRequest(http.MethodGet, "/", nil), httptest.NewRecorder())
			t := bal.Next(ctx)
			if t == nil {
				if len(expect) != 0 {
					fail("Next returned nil after the concurrent phase although targets remain")
				}
				return
			}
			seen[t.Name]++
		}
	}()
	var exp []string
	for n := range expect {
		exp = append(exp, n)
	}
	sort.Strings(exp)
	for n := range seen {
		if !expect[n] {
			fail(fmt.Sprintf("after the concurrent phase Next still returns %q (removed or never added)", n))
		}
	}
	for _, n := range exp {
		if seen[n] == 0 {
			fail(fmt.Sprintf("added target %q is never returned after the concurrent phase (lost)", n))
		} else if c.RR && seen[n] != 1 {
			fail(fmt.Sprintf("round robin returned %q %d times in %d consecutive picks", n, seen[n], len(exp)))
		}
	}
	tags := []string{"conc"}
	if c.RR {
		tags = append(tags, "conc-rr")
	} else {
		tags = append(tags, "conc-random")
	}
	return Result{Oracle: oracle, Tags: tags, Nontrivial: len(rmEv) > 0 && len(addEv) > 0 && nOps > 50}
}

// ---------------- kind 4, simultaneous rounds ----------------
//
// Calls on the SAME name at the same moment (two discovery watchers report one instance; two
// health checkers take one instance out) and bursts of calls on different names.  The random
// scripts above add every name once, so two AddTarget calls never compete for a name there.
//
// One round = one call per goroutine, all released together by a spin barrier (the goroutines
// leave it within nanoseconds of one another: a window of a few instructions between two lock
// acquisitions is hit within a few rounds), joined before the next round starts.  Between two
// rounds the harness therefore knows the exact membership, and the calls of one round overlap
// pairwise, so ANY order of them is a candidate linearization.
//
// Oracle (no model): per name the balancer is a present/absent bit — AddTarget answers true iff the
// name is absent and makes it present, RemoveTarget answers true iff it is present and makes it
// absent (C19_add, C19_remove; names stay unique: C19_names_unique).  Whatever the order,
//     present before + successful adds = successful removes + present after      (C19_name_balance)
// so the successes of one round differ by at most one in the direction the state before allows,
// a false from AddTarget needs a moment at which the name was present, a false from RemoveTarget
// a moment at which it was absent.  After the round the membership that follows is probed
// sequentially (AddTarget of a member / RemoveTarget of a non-member must answer false, a
// round-robin cycle visits every member once), and at the end the list is drained: every member
// can be removed exactly once and then Next answers nil.

const c19BarrierWait = 50 * time.Millisecond

func c19GenRounds(r *rand.Rand, tier string) *c19Case {
	c := &c19Case{Kind: 4, RR: r.Intn(3) != 0, Conc: &c19Conc{}}
	L := []int{0, 0, 1, 2, 3, 8, 30, 200, 1500}[r.Intn(9)]
	if tier == "thorough" && r.Intn(10) == 0 {
		L = 4000
	}
	c.Conc.Fill = L
	hot := []string{"x", "y", "z"}[:1+r.Intn(3)]
	nRounds := 10 + r.Intn(30)
	if tier == "thorough" {
		nRounds = 20 + r.Intn(100)
	}
	fresh := 0
	var known []string // names that were the subject of an AddTarget so far (may or may not be present)
	someName := func() string {
		switch k := r.Intn(3); {
		case k == 0 && L > 0:
			return fmt.Sprintf("i%d", r.Intn(L))
		case k == 1 && len(known) > 0:
			return known[r.Intn(len(known))]
		}
		return hot[r.Intn(len(hot))]
	}
	for len(c.Conc.Rounds) < nRounds {
		g := 2 + r.Intn(7)
		var rd []c19Op
		switch r.Intn(6) {
		case 0: // everybody adds the same name; often followed by: everybody removes it
			nm := hot[r.Intn(len(hot))]
			for k := 0; k < g; k++ {
				rd = append(rd, c19Op{K: 0, Name: nm, URL: r.Intn(6)})
			}
			if r.Intn(3) != 0 {
				c.Conc.Rounds = append(c.Conc.Rounds, rd)
				rd = nil
				for k := 2 + r.Intn(7); k > 0; k-- {
					rd = append(rd, c19Op{K: 1, Name: nm})
				}
			}
		case 1: // everybody removes the same name
			nm := someName()
			for k := 0; k < g; k++ {
				rd = append(rd, c19Op{K: 1, Name: nm})
			}
		case 2: // adds and removes of one name, with picks
			nm := hot[r.Intn(len(hot))]
			for k := 0; k < g; k++ {
				switch r.Intn(5) {
				case 0, 1:
					rd = append(rd, c19Op{K: 0, Name: nm, URL: r.Intn(6)})
				case 2, 3:
					rd = append(rd, c19Op{K: 1, Name: nm})
				default:
					rd = append(rd, c19Op{K: 2})
				}
			}
		case 3: // a burst of registrations: different new names at once
			for k := 0; k < g; k++ {
				fresh++
				nm := fmt.Sprintf("n%d", fresh)
				known = append(known, nm)
				rd = append(rd, c19Op{K: 0, Name: nm, URL: r.Intn(6)})
			}
		case 4: // a burst of removals of different names, with picks
			seen := map[string]bool{}
			for k := 0; k < g; k++ {
				nm := someName()
				if seen[nm] || r.Intn(5) == 0 {
					rd = append(rd, c19Op{K: 2})
					continue
				}
				seen[nm] = true
				rd = append(rd, c19Op{K: 1, Name: nm})
			}
		default: // anything on a small set of names
			for k := 0; k < g; k++ {
				switch r.Intn(3) {
				case 0:
					rd = append(rd, c19Op{K: 0, Name: someName(), URL: r.Intn(6)})
				case 1:
					rd = append(rd, c19Op{K: 1, Name: someName()})
				default:
					rd = append(rd, c19Op{K: 2})
				}
			}
		}
		c.Conc.Rounds = append(c.Conc.Rounds, rd)
	}
	return c
}

func c19RunRounds(c *c19Case) Result {
	oracle := ""
	fail := func(round int, msg string) {
		if oracle == "" {
			if round >= 0 {
				msg = fmt.Sprintf("round %d: %s", round, msg)
			}
			oracle = msg
		}
	}
	present := map[string]bool{}
	var init []*middleware.ProxyTarget
	start := make([]c19Target, 0, c.Conc.Fill+len(c.Init))
	for i := 0; i < c.Conc.Fill; i++ {
		start = append(start, c19Target{fmt.Sprintf("i%d", i), i % 6})
	}
	for _, t := range append(start, c.Init...) {
		if present[t.Name] {
			continue // this kind starts from distinct names (the constructors do not check)
		}
		u, _ := url.Parse(fmt.Sprintf("http://h%d.test", t.URL))
		init = append(init, &middleware.ProxyTarget{Name: t.Name, URL: u})
		present[t.Name] = true
	}
	bal := c19NewBalancer(c.RR, init)
	e := echo.New()
	newCtx := func() echo.Context {
		return e.NewContext(httptest.NewRequest(http.MethodGet, "/", nil), httptest.NewRecorder())
	}
	tagset := map[string]bool{"conc": true, "conc-rounds": true}
	contended := false

	type outT struct {
		ok       bool
		got      string
		nilRet   bool
		panicked any
	}
	type tally struct{ n, addOk, addFail, rmOk, rmFail int }
	members := func() []string {
		var ms []string
		for n, p := range present {
			if p {
				ms = append(ms, n)
			}
		}
		sort.Strings(ms)
		return ms
	}

	for ri, round := range c.Conc.Rounds {
		g := len(round)
		outs := make([]outT, g)
		ctxs := make([]echo.Context, g)
		pts := make([]*middleware.ProxyTarget, g)
		for k, op := range round {
			switch op.K {
			case 0:
				u, _ := url.Parse(fmt.Sprintf("http://h%d.test", op.URL))
				pts[k] = &middleware.ProxyTarget{Name: op.Name, URL: u}
			case 2:
				ctxs[k] = newCtx()
			}
		}
		var ready int32
		var wg sync.WaitGroup
		for k, op := range round {
			wg.Add(1)
			go func(k int, op c19Op) {
				defer wg.Done()
				defer func() {
					if r := recover(); r != nil {
						outs[k].panicked = r
					}
				}()
				// spin barrier (never blocks for good: gives up after c19BarrierWait, which only costs simultaneity)
				deadline := time.Now().Add(c19BarrierWait)
				atomic.AddInt32(&ready, 1)
				for spins := 1; atomic.LoadInt32(&ready) < int32(g); spins++ {
					if spins&(1<<18-1) == 0 { // about once per millisecond: the wait itself stays a pure spin
						if time.Now().After(deadline) {
							break
						}
						runtime.Gosched()
					}
				}
				switch op.K {
				case 0:
					outs[k].ok = bal.AddTarget(pts[k])
				case 1:
					outs[k].ok = bal.RemoveTarget(op.Name)
				case 2:
					if t := bal.Next(ctxs[k]); t == nil {
						outs[k].nilRet = true
					} else {
						outs[k].got = t.Name
					}
				}
			}(k, op)
		}
		wg.Wait()

		// ---- accounting
		tl := map[string]*tally{}
		var names []string
		for k, op := range round {
			if outs[k].panicked != nil {
				fail(ri, fmt.Sprintf("call %d of %d simultaneous calls panicked: %v", k, g, outs[k].panicked))
				continue
			}
			if op.K == 2 {
				continue
			}
			t := tl[op.Name]
			if t == nil {
				t = &tally{}
				tl[op.Name] = t
				names = append(names, op.Name)
			}
			t.n++
			switch {
			case op.K == 0 && outs[k].ok:
				t.addOk++
			case op.K == 0:
				t.addFail++
			case outs[k].ok:
				t.rmOk++
			default:
				t.rmFail++
			}
		}
		sort.Strings(names)
		before := map[string]bool{}
		for _, nm := range names {
			before[nm] = present[nm]
		}
		if len(names) >= 2 {
			tagset["conc-rounds-different-names"] = true
		}
		for _, nm := range names {
			t := tl[nm]
			was := present[nm]
			if t.n >= 2 {
				contended = true
				if t.addOk+t.addFail >= 2 && !was {
					tagset["conc-same-name-add"] = true
				}
				if t.rmOk+t.rmFail >= 2 && was {
					tagset["conc-same-name-remove"] = true
				}
			}
			w := 0
			if was {
				w = 1
			}
			// present before + successful adds = successful removes + present after, present ∈ {0, 1}
			after := w + t.addOk - t.rmOk
			switch {
			case after > 1:
				// show what it means: how often the name can be removed now
				extra := 0
				for extra < 16 && bal.RemoveTarget(nm) {
					extra++
				}
				how := fmt.Sprintf("the name is on the list more than once — RemoveTarget(%q) then succeeded %d times in a row, so one RemoveTarget leaves a removed target in use", nm, extra)
				if extra < 2 {
					how = fmt.Sprintf("a name can be added once, and RemoveTarget(%q) then succeeded %d time(s): a target whose AddTarget returned true is not on the list (an added target was lost)", nm, extra)
				}
				fail(ri, fmt.Sprintf("%d of %d simultaneous AddTarget(%q) calls returned true (name on the list before: %v, successful RemoveTarget calls in the round: %d): %s",
					t.addOk, t.addOk+t.addFail, nm, was, t.rmOk, how))
				present[nm] = false
				continue
			case after < 0:
				fail(ri, fmt.Sprintf("%d of %d simultaneous RemoveTarget(%q) calls returned true (name on the list before: %v, successful AddTarget calls in the round: %d): one entry cannot be removed twice — another target was taken off the list",
					t.rmOk, t.rmOk+t.rmFail, nm, was, t.addOk))
				after = 0
			}
			if t.addFail > 0 && !was && t.addOk == 0 {
				fail(ri, fmt.Sprintf("AddTarget(%q) returned false although the name was not on the list before the round and nobody added it", nm))
			}
			if t.rmFail > 0 && was && t.rmOk == 0 {
				fail(ri, fmt.Sprintf("RemoveTarget(%q) returned false although the name was on the list before the round and nobody removed it", nm))
			}
			present[nm] = after == 1
		}
		// picks of the round: a target that was on the list at some moment of the round
		for k, op := range round {
			if op.K != 2 || outs[k].panicked != nil {
				continue
			}
			if outs[k].nilRet {
				// a name that was there before and that nobody removed successfully was there all the time
				for _, n := range members() {
					if t := tl[n]; t == nil || (before[n] && t.rmOk == 0) {
						fail(ri, fmt.Sprintf("Next returned nil although target %q was on the list during the whole round", n))
						break
					}
				}
				continue
			}
			n := outs[k].got
			t := tl[n]
			if (t == nil && !present[n]) || (t != nil && !before[n] && t.addOk == 0) {
				fail(ri, fmt.Sprintf("Next returned %q which was not on the list at any moment of the round (removed earlier or never added)", n))
			}
		}
		// ---- the membership that follows, probed sequentially
		for _, nm := range names {
			if present[nm] {
				u, _ := url.Parse("http://probe.test")
				if bal.AddTarget(&middleware.ProxyTarget{Name: nm, URL: u}) {
					fail(ri, fmt.Sprintf("after the round AddTarget(%q) succeeded although the name had been added successfully and not removed: an added target was lost", nm))
				}
			} else if bal.RemoveTarget(nm) {
				fail(ri, fmt.Sprintf("after the round RemoveTarget(%q) succeeded although the name had been removed (or never added): a second entry of the name was on the list, the balancer kept using a removed target", nm))
			}
		}
		if ms := members(); len(ms) <= 48 && oracle == "" {
			func() {
				defer func() {
					if r := recover(); r != nil {
						fail(ri, fmt.Sprintf("panic in Next after the round: %v", r))
					}
				}()
				seen := map[string]int{}
				picks := len(ms)
				if !c.RR {
					picks = 2 * len(ms)
				}
				if picks == 0 {
					if t := bal.Next(newCtx()); t != nil {
						fail(ri, fmt.Sprintf("Next returned %q although every target was removed", t.Name))
					}
				}
				for i := 0; i < picks; i++ {
					t := bal.Next(newCtx())
					if t == nil {
						fail(ri, fmt.Sprintf("Next returned nil after the round although %d targets remain", len(ms)))
						return
					}
					if !present[t.Name] {
						fail(ri, fmt.Sprintf("after the round Next returned %q (removed or never added)", t.Name))
					}
					seen[t.Name]++
				}
				if c.RR {
					for _, n := range ms {
						if seen[n] != 1 {
							fail(ri, fmt.Sprintf("after the round round robin returned %q %d times in %d consecutive first-time picks over %d targets", n, seen[n], picks, len(ms)))
						}
					}
				}
			}()
		}
		if oracle != "" {
			break // the membership is no longer known
		}
	}
	// ---- drain: every member can be removed exactly once, then nothing is left
	if oracle == "" {
		func() {
			defer func() {
				if r := recover(); r != nil {
					fail(-1, fmt.Sprintf("panic while draining the balancer: %v", r))
				}
			}()
			ms := members()
			for i := len(ms) - 1; i >= 0; i-- { // from the back: initial names are in list order, so every scan is short
				if !bal.RemoveTarget(ms[i]) {
					fail(-1, fmt.Sprintf("at the end RemoveTarget(%q) returned false: an added target was lost", ms[i]))
				}
			}
			if t := bal.Next(newCtx()); t != nil {
				fail(-1, fmt.Sprintf("after every target had been removed Next still returned %q: the balancer keeps using a removed target", t.Name))
			}
		}()
	}
	var tags []string
	for t := range tagset {
		tags = append(tags, t)
	}
	sort.Strings(tags)
	if c.RR {
		tags = append(tags, "conc-rr")
	} else {
		tags = append(tags, "conc-random")
	}
	return Result{Oracle: oracle, Tags: tags, Nontrivial: contended}
}
