package main

import (
	"context"
	"net/http"
)

func contextWith(req *http.Request, st *c05ReqState) context.Context {
	return context.WithValue(req.Context(), c05CtxKey{}, st)
}
