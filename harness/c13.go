package main

// C13 — BasicAuth / KeyAuth: the handler runs only after the validator said yes.
// Real code: middleware.BasicAuthWithConfig / middleware.KeyAuthWithConfig over e.ServeHTTP with
// an instrumented validator (call log) and an instrumented handler (ran flag).
// Model: lean/EchoModel/C13.lean (basicAuth, keyAuth).

import (
	"bytes"
	"encoding/base64"
	"encoding/json"
	"errors"
	"fmt"
	"html"
	"io"
	"math/rand"
	"mime/multipart"
	"net/http"
	"net/http/httptest"
	"net/url"
	"sort"
	"strconv"
	"strings"

	"github.com/labstack/echo/v4"
	"github.com/labstack/echo/v4/middleware"
)

// validator table entry: credentials -> outcome (0 = false, 1 = true, n >= 100 = error mapping to status n)
type c13Entry struct {
	U   []byte `json:"u"` // user (basic) / key (key auth)
	P   []byte `json:"p,omitempty"`
	Out int    `json:"out"`
}

type c13KV struct {
	K []byte `json:"k"`
	V []byte `json:"v"`
}

type c13Hdr struct {
	Name   string   `json:"name"`
	Values [][]byte `json:"values"`
}

type c13Case struct {
	Mode int `json:"mode"` // 0 = BasicAuth, 1 = KeyAuth, 2 = overlapping requests through ONE middleware instance (c13_conc.go), 3 = exported CreateExtractors(Lookup) applied to the request

	// which public entry point builds the middleware: 0 = ...WithConfig(config), 1 = the convenience constructor
	// BasicAuth(fn) / KeyAuth(fn) (every other option at its default: Realm, Lookup, Scheme, EH, Cont, Skipper of
	// the case are then ignored), 2 / 3 = the same two with a nil validator (the constructor must panic)
	Ctor int `json:"ctor,omitempty"`
	// Skipper: 0 = not set (default, never skips), 1 = custom: skips exactly the requests that carry the header
	// X-Verif-Skip.  Skip: the request carries that header.
	Skipper int  `json:"skipper,omitempty"`
	Skip    bool `json:"skip,omitempty"`

	// round 5: further BasicAuth / KeyAuth instances on the path of the same request, inside the one this case
	// describes (which is installed with e.Use).  Of a stack entry only the configuration counts (Mode 0 / 1,
	// validator table, Realm / Lookup / Scheme / EH / Cont / Ctor / Skipper) and At: 0 = e.Use, 1 = the route's
	// group, 2 = the route.  All instances see the one request of the outer case.
	Stack []*c13Case `json:"stack,omitempty"`
	At    int        `json:"at,omitempty"`

	// round 7: the state of the response when the middleware is entered.  Commit != 0: a middleware registered in
	// front has already started the response with this status (CommitHow 0 WriteHeader, 1 Write of a byte, 2
	// WriteHeader + Flush) and then calls next.
	Commit    int `json:"commit,omitempty"`
	CommitHow int `json:"commit_how,omitempty"`

	// mode 2: the requests (Sub[0] also carries the configuration and the validator table) and, per request,
	// the index of the validator call inside which it waits until the next request has been served (-1: never)
	Sub     []*c13Case `json:"sub,omitempty"`
	BlockAt []int      `json:"block_at,omitempty"`

	// validator
	Default  int        `json:"default"`
	Table    []c13Entry `json:"table"`
	ErrValid bool       `json:"err_valid"` // an erroring validator returns (true, err) instead of (false, err)

	// BasicAuth
	Auth  [][]byte `json:"auth,omitempty"` // Authorization header values, in order
	Realm string   `json:"realm,omitempty"`

	// KeyAuth
	Lookup  string   `json:"lookup,omitempty"`
	Scheme  string   `json:"scheme,omitempty"`
	EH      int      `json:"eh,omitempty"` // 0 none, 1 returns nil, 2 returns the error it got, >=100 returns HTTPError(code)
	Cont    bool     `json:"cont,omitempty"`
	Headers []c13Hdr `json:"headers,omitempty"`
	Query   []c13KV  `json:"query,omitempty"`
	Form    []c13KV  `json:"form,omitempty"`
	Cookie  []string `json:"cookie,omitempty"` // raw Cookie header lines
	Params  []string `json:"params,omitempty"` // nil: GET/POST "/"; two URL-safe values: "/p/<key>/<other>" on route /p/:key/:other; 22 values: route /m/... with 22 parameters, six of them named key (indices 0, 5, 18-21)

	// the REST of the query string / body: raw fragments joined with "&" around the well-formed pairs (bad
	// %-escapes, semicolons, duplicate and very long fields, ...); RawFirst puts them in front
	RawQuery []string `json:"raw_query,omitempty"`
	RawBody  []string `json:"raw_body,omitempty"`
	RawFirst bool     `json:"raw_first,omitempty"`
	// body shape: Method "" = POST when there is a body; Multipart: Form pairs travel as multipart/form-data
	// parts with this Boundary; CT = spelling of the media type (with parameters, boundary appended for
	// multipart), "" = the canonical lower-case one
	Method    string `json:"method,omitempty"`
	Multipart bool   `json:"multipart,omitempty"`
	Boundary  string `json:"boundary,omitempty"`
	CT        string `json:"ct,omitempty"`
}

type c13Alias c13Case

// raw Cookie lines may hold bytes that are not UTF-8; they travel as marker + base64 (a3EncStr) so that replays are exact
func (c *c13Case) mapStrings(f func(string) string) c13Alias {
	a := c13Alias(*c)
	a.Cookie, a.RawQuery, a.RawBody = a3MapStrs(c.Cookie, f), a3MapStrs(c.RawQuery, f), a3MapStrs(c.RawBody, f)
	return a
}

func (c c13Case) MarshalJSON() ([]byte, error) {
	a := c.mapStrings(a3EncStr)
	return json.Marshal(&a)
}

func (c *c13Case) UnmarshalJSON(data []byte) error {
	var a c13Alias
	if err := json.Unmarshal(data, &a); err != nil {
		return err
	}
	d := c13Case(a)
	*c = c13Case(d.mapStrings(a3DecStr))
	return nil
}

var errC13Validator = errors.New("validator backend failed")

func c13Outcome(out int, errValid bool) (bool, error) {
	switch {
	case out == 0:
		return false, nil
	case out == 1:
		return true, nil
	case out == 500:
		return errValid, errC13Validator
	default:
		return errValid, echo.NewHTTPError(out)
	}
}

func (c *c13Case) lookup(u, p []byte) int {
	for _, e := range c.Table {
		if bytes.Equal(e.U, u) && bytes.Equal(e.P, p) {
			return e.Out
		}
	}
	return c.Default
}

func c13Table(c *c13Case, basic bool) string {
	parts := []string{wInt(c.Default), wInt(len(c.Table))}
	for _, e := range c.Table {
		if basic {
			parts = append(parts, wBytes(e.U), wBytes(e.P), wInt(e.Out))
		} else {
			parts = append(parts, wBytes(e.U), wInt(e.Out))
		}
	}
	return strings.Join(parts, " ")
}

type c13Call struct{ u, p string }

func c13Run(ci any) Result {
	c := ci.(*c13Case)
	if len(c.Stack) > 0 && (c.Mode == 0 || c.Mode == 1) {
		return c13RunStack(c)
	}
	switch c.Mode {
	case 0:
		return c13RunBasic(c13Norm(c))
	case 2:
		return c13RunConc(c)
	case 3:
		return c13RunExtractors(c13Norm(c))
	}
	return c13RunKey(c13Norm(c))
}

const c13SkipHeader = "X-Verif-Skip"

// the configuration that is really in force: the convenience constructors take nothing but the validator
func c13Norm(c *c13Case) *c13Case {
	d := *c
	if d.Ctor == 1 || d.Ctor == 3 {
		d.Realm, d.Lookup, d.Scheme, d.EH, d.Cont, d.Skipper = "", "", "", 0, false, 0
	}
	if d.Mode == 3 {
		d.Ctor, d.Skipper, d.Scheme, d.EH, d.Cont = 0, 0, "", 0, false
	}
	return &d
}

func (c *c13Case) skipped() bool { return c.Skipper == 1 && c.Skip }

func c13Skipper(c *c13Case) middleware.Skipper {
	if c.Skipper == 0 {
		return nil
	}
	return func(ctx echo.Context) bool { return ctx.Request().Header.Get(c13SkipHeader) != "" }
}

// route with 22 path parameters: the looked-up name `key` sits at indices 0, 5, 18, 19, 20, 21, so the
// index-based limit of valuesFromParam (stop after a match at index >= 19) is reached
func c13ParamNames(n int) []string {
	if n == 2 {
		return []string{"key", "other"}
	}
	var out []string
	for i := 0; i < n; i++ {
		switch i {
		case 0, 5, 18, 19, 20, 21:
			out = append(out, "key")
		default:
			out = append(out, "o"+strconv.Itoa(i))
		}
	}
	return out
}

func c13ManyRoute() string {
	var b strings.Builder
	b.WriteString("/m")
	for _, n := range c13ParamNames(22) {
		b.WriteString("/:" + n)
	}
	return b.String()
}

// ---------- BasicAuth ----------

func c13RunBasic(c *c13Case) (res Result) {
	var calls []c13Call
	ran := false
	e := echo.New()
	var validator middleware.BasicAuthValidator = func(u, p string, _ echo.Context) (bool, error) {
		calls = append(calls, c13Call{u, p})
		return c13Outcome(c.lookup([]byte(u), []byte(p)), c.ErrValid)
	}
	if c.Ctor >= 2 {
		validator = nil
	}
	ops := []string{wInt(c.commitStatus()), "0", wInt(c.Ctor), wBool(c.skipped()), wStr(c.Realm), wStr(strconv.Quote(c.Realm))}
	ops = append(ops, c13HeadOps(c13BasicRequest(c))...)
	ops = append(ops, c13Table(c, true))
	res.Ops = strings.Join(ops, " ")

	var mw echo.MiddlewareFunc
	ctorPanic := func() (p bool) {
		defer func() {
			if r := recover(); r != nil {
				p = true
			}
		}()
		if c.Ctor == 1 || c.Ctor == 3 {
			mw = middleware.BasicAuth(validator)
		} else {
			mw = middleware.BasicAuthWithConfig(middleware.BasicAuthConfig{Skipper: c13Skipper(c), Realm: c.Realm, Validator: validator})
		}
		return false
	}()
	if ctorPanic || c.Ctor >= 2 {
		// a nil validator is the one documented constructor panic; anything else is a failure
		res.Obs = "config-panic"
		if !ctorPanic {
			res.Obs = "constructor accepted a nil validator"
		} else if c.Ctor < 2 {
			res.Obs = "constructor panicked"
			res.Oracle = "BasicAuth constructor panicked although a validator was given"
		}
		res.Tags = []string{"basic:nil-validator"}
		return res
	}
	e.Logger.SetOutput(io.Discard)
	e.Use(c13Early(c), mw)
	e.Any("/", func(ctx echo.Context) error {
		ran = true
		return ctx.NoContent(http.StatusOK)
	})
	req := c13BasicRequest(c)
	rec := httptest.NewRecorder()

	panicked := func() (p bool) {
		defer func() {
			if r := recover(); r != nil {
				p = true
				res.Oracle = fmt.Sprintf("BasicAuth panicked: %v", r)
			}
		}()
		e.ServeHTTP(rec, req)
		return false
	}()
	if panicked {
		res.Obs = "panic"
		res.Tags = []string{"basic:panic"}
		return res
	}
	wwwValue := c13WireHeader(c, rec, "WWW-Authenticate")
	www := wwwValue != ""
	obs := []string{wBool(ran), wInt(rec.Code), wBool(www), wInt(len(calls))}
	for _, cl := range calls {
		obs = append(obs, wStr(cl.u), wStr(cl.p))
	}
	obs = append(obs, wStr(wwwValue))
	res.Obs = strings.Join(obs, " ")

	oracle, derived, wellFormed := c13BasicOracle(c, calls, ran, rec.Code)
	res.Oracle = oracle

	if c.Ctor == 1 {
		res.Tags = append(res.Tags, "basic:ctor-BasicAuth(fn)")
	}
	if c.Skipper == 1 {
		res.Tags = append(res.Tags, "basic:custom-skipper")
	}
	if derived {
		if du, dp := c13BasicDecoded(c); du != strings.TrimSpace(du) || dp != strings.TrimSpace(dp) {
			res.Tags = append(res.Tags, "basic:boundary-whitespace-in-credentials")
		}
	}
	switch {
	case c.skipped():
		res.Tags = append(res.Tags, "basic:skipped")
	case ran:
		res.Tags = append(res.Tags, "basic:ran")
	case rec.Code == 400:
		res.Tags = append(res.Tags, "basic:bad-base64")
	case len(calls) > 0 && rec.Code == 401:
		res.Tags = append(res.Tags, "basic:validator-no")
	case len(calls) > 0:
		res.Tags = append(res.Tags, "basic:validator-error")
	default:
		res.Tags = append(res.Tags, "basic:401-no-call")
	}
	if len(c.Auth) > 1 {
		res.Tags = append(res.Tags, "basic:repeated-header")
	}
	if c.Method != "" && c.Method != http.MethodGet {
		res.Tags = append(res.Tags, "basic:method-"+c.Method)
	}
	c13DecoyTags(&res, req, "basic")
	if c.Commit != 0 {
		res.Tags = append(res.Tags, "basic:response-already-started")
	}
	if derived && !wellFormed {
		res.Tags = append(res.Tags, "basic:separator-not-space")
	}
	res.Nontrivial = len(calls) > 0 || rec.Code == 400
	return res
}

// the request head as the model gets it: method, then every header line (canonical name, value), names sorted
func c13HeadOps(req *http.Request) []string {
	var names []string
	n := 0
	for k, vs := range req.Header {
		names = append(names, k)
		n += len(vs)
	}
	sort.Strings(names)
	out := []string{wStr(req.Method), wInt(n)}
	for _, k := range names {
		for _, v := range req.Header[k] {
			out = append(out, wStr(k), wStr(v))
		}
	}
	return out
}

// request headers a short-cut might key on (none of them is a place credentials are looked up at)
var c13DecoyPool = [][2]string{
	{"Access-Control-Request-Method", "GET"}, {"Access-Control-Request-Method", "POST"}, {"Access-Control-Request-Method", "DELETE"},
	{"Access-Control-Request-Headers", "authorization, content-type"}, {"Origin", "https://app.example.com"}, {"Origin", "null"},
	{"X-Requested-With", "XMLHttpRequest"}, {"Upgrade", "websocket"}, {"Connection", "Upgrade"}, {"Connection", "keep-alive, Upgrade"},
	{"Sec-Websocket-Key", "dGhlIHNhbXBsZSBub25jZQ=="}, {"Sec-Fetch-Mode", "cors"}, {"Sec-Fetch-Site", "same-origin"}, {"Sec-Fetch-Dest", "empty"},
	{"X-Forwarded-For", "127.0.0.1"}, {"X-Forwarded-Proto", "https"}, {"X-Forwarded-Host", "localhost"}, {"X-Real-Ip", "::1"},
	{"X-Http-Method-Override", "GET"}, {"X-Forwarded-User", "admin"}, {"X-Authenticated", "true"}, {"Remote-User", "admin"},
	{"Accept", "text/event-stream"}, {"User-Agent", "kube-probe/1.27"}, {"User-Agent", "ELB-HealthChecker/2.0"}, {"Referer", "https://app.example.com/login"},
	{"Expect", "100-continue"}, {"Purpose", "prefetch"}, {"Content-Type", "application/json"}, {"Content-Length-Hint", "0"},
}

// c13Decoys: 1-4 such headers; often the complete shape of a CORS preflight / a websocket upgrade
func c13Decoys(r *rand.Rand, c *c13Case) {
	add := func(k, v string) {
		if k == "Content-Type" && (len(c.Form) > 0 || len(c.RawBody) > 0) {
			return // would change how the body is parsed
		}
		c.Headers = append(c.Headers, c13Hdr{Name: k, Values: [][]byte{[]byte(v)}})
	}
	switch r.Intn(4) {
	case 0: // preflight shape
		if c.Method == "" || r.Intn(2) == 0 {
			if len(c.Form) == 0 && len(c.RawBody) == 0 {
				c.Method = http.MethodOptions
			}
		}
		add("Access-Control-Request-Method", c13Pick(r, []string{"GET", "POST", "PUT", "DELETE"}))
		add("Origin", c13Pick(r, []string{"https://app.example.com", "null", "http://localhost:3000"}))
		if r.Intn(2) == 0 {
			add("Access-Control-Request-Headers", "authorization")
		}
	case 1: // upgrade shape
		add("Upgrade", "websocket")
		add("Connection", "Upgrade")
		if r.Intn(2) == 0 {
			add("Sec-Websocket-Key", "dGhlIHNhbXBsZSBub25jZQ==")
		}
	default:
		for k := 1 + r.Intn(3); k > 0; k-- {
			d := c13Pick(r, c13DecoyPool)
			add(d[0], d[1])
		}
	}
}

// c13Early: the middleware in front that has started the response already
func c13Early(c *c13Case) echo.MiddlewareFunc {
	return func(next echo.HandlerFunc) echo.HandlerFunc {
		return func(ctx echo.Context) error {
			if c.Commit != 0 {
				switch c.CommitHow {
				case 1:
					_, _ = ctx.Response().Write([]byte("x"))
				case 2:
					ctx.Response().WriteHeader(c.commitStatus())
					ctx.Response().Flush()
				default:
					ctx.Response().WriteHeader(c.commitStatus())
				}
			}
			return next(ctx)
		}
	}
}

// the status that is on the wire when the middleware is entered (0: none)
func (c *c13Case) commitStatus() int {
	switch {
	case c.Commit == 0:
		return 0
	case c.CommitHow == 1:
		return http.StatusOK // implicit
	case c.Commit < 200 || c.Commit > 599:
		return http.StatusOK
	}
	return c.Commit
}

// what went over the wire: once the response has been started, later header changes are not sent
func c13WireHeader(c *c13Case, rec *httptest.ResponseRecorder, name string) string {
	if c.Commit != 0 {
		return rec.Result().Header.Get(name)
	}
	return rec.Header().Get(name)
}

func c13DecoyTags(res *Result, req *http.Request, kind string) {
	if req.Header.Get("Access-Control-Request-Method") != "" {
		res.Tags = append(res.Tags, kind+":decoy-preflight-headers")
		if req.Method == http.MethodOptions {
			res.Tags = append(res.Tags, kind+":decoy-complete-preflight")
		}
	}
	if req.Header.Get("Upgrade") != "" {
		res.Tags = append(res.Tags, kind+":decoy-upgrade")
	}
	for _, k := range []string{"X-Requested-With", "X-Forwarded-For", "X-Forwarded-User", "X-Http-Method-Override", "User-Agent", "Sec-Fetch-Mode"} {
		if req.Header.Get(k) != "" {
			res.Tags = append(res.Tags, kind+":decoy-other")
			break
		}
	}
}

func c13BasicRequest(c *c13Case) *http.Request {
	method := c.Method
	if method == "" {
		method = http.MethodGet
	}
	req := httptest.NewRequest(method, "/", nil)
	for _, h := range c.Headers {
		k := http.CanonicalHeaderKey(h.Name)
		for _, v := range h.Values {
			req.Header[k] = append(req.Header[k], string(v))
		}
	}
	for _, a := range c.Auth {
		req.Header["Authorization"] = append(req.Header["Authorization"], string(a))
	}
	if c.Skip {
		req.Header.Set(c13SkipHeader, "1")
	}
	return req
}

// request methods a middleware might be tempted to wave through (preflights, probes) besides the usual ones
var c13Methods = []string{"OPTIONS", "OPTIONS", "HEAD", "HEAD", "TRACE", "PROPFIND", "DELETE", "PUT", "POST", "PATCH", "REPORT"}

// ---------- KeyAuth ----------

type c13Src struct {
	kind, name string
	pre        string // effective cut-prefix
}

// the lookup sources the configuration names (kind and name only; the cut prefix is the third part or,
// for `header:Authorization`, the AuthScheme followed by a space)
func c13Sources(c *c13Case) ([]c13Src, bool) {
	lookup, scheme := c.Lookup, c.Scheme
	if c.Mode == 3 {
		// exported CreateExtractors: no defaults, no AuthScheme
		if lookup == "" {
			return nil, true
		}
		scheme = ""
	} else {
		if lookup == "" {
			lookup = "header:Authorization"
		}
		if scheme == "" {
			scheme = "Bearer"
		}
	}
	var out []c13Src
	for _, s := range strings.Split(lookup, ",") {
		parts := strings.Split(s, ":")
		if len(parts) < 2 {
			return nil, false
		}
		src := c13Src{kind: parts[0], name: parts[1]}
		switch parts[0] {
		case "header":
			if len(parts) > 2 {
				src.pre = parts[2]
			} else if parts[1] == "Authorization" && scheme != "" {
				src.pre = scheme
				if !strings.HasSuffix(src.pre, " ") {
					src.pre += " "
				}
			}
		case "query", "form", "cookie", "param":
		default:
			continue
		}
		out = append(out, src)
	}
	return out, true
}

func c13EncodePairs(kvs []c13KV) string {
	var parts []string
	for _, kv := range kvs {
		parts = append(parts, url.QueryEscape(string(kv.K))+"="+url.QueryEscape(string(kv.V)))
	}
	return strings.Join(parts, "&")
}

func c13JoinRaw(pairs string, raw []string, first bool) string {
	var parts []string
	if first {
		parts = append(parts, raw...)
	}
	if pairs != "" {
		parts = append(parts, pairs)
	}
	if !first {
		parts = append(parts, raw...)
	}
	return strings.Join(parts, "&")
}

// boundary parameter value as it may appear in a Content-Type header (quoted when it needs to be)
func c13BoundaryParam(b string) string {
	for i := 0; i < len(b); i++ {
		ch := b[i]
		if !(ch >= 'a' && ch <= 'z' || ch >= 'A' && ch <= 'Z' || ch >= '0' && ch <= '9' || ch == '-' || ch == '_' || ch == '.' || ch == '+' || ch == '\'') {
			return `"` + b + `"`
		}
	}
	return b
}

func (c *c13Case) grouped() bool {
	for _, l := range c.Stack {
		if l.At >= 1 {
			return true
		}
	}
	return false
}

func c13Request(c *c13Case) *http.Request {
	target := "/"
	if len(c.Params) == 2 {
		target = "/p/" + c.Params[0] + "/" + c.Params[1]
	} else if len(c.Params) == 22 {
		target = "/m/" + strings.Join(c.Params, "/")
	}
	if c.grouped() {
		target = "/g" + target
	}
	hasBody := len(c.Form) > 0 || len(c.RawBody) > 0
	method := c.Method
	if method == "" {
		method = http.MethodGet
		if hasBody {
			method = http.MethodPost
		}
	}
	var req *http.Request
	switch {
	case hasBody && c.Multipart:
		var buf bytes.Buffer
		w := multipart.NewWriter(&buf)
		boundary := c.Boundary
		if boundary == "" || w.SetBoundary(boundary) != nil {
			boundary = "c13verifboundary"
			_ = w.SetBoundary(boundary)
		}
		for _, kv := range c.Form {
			fw, err := w.CreateFormField(string(kv.K))
			if err == nil {
				_, _ = fw.Write(kv.V)
			}
		}
		_ = w.Close()
		req = httptest.NewRequest(method, target, &buf)
		ct := c.CT
		if ct == "" {
			ct = "multipart/form-data"
		}
		if strings.Contains(ct, "%s") {
			ct = strings.Replace(ct, "%s", c13BoundaryParam(boundary), 1)
		} else {
			ct += "; boundary=" + c13BoundaryParam(boundary)
		}
		req.Header.Set("Content-Type", ct)
	case hasBody:
		req = httptest.NewRequest(method, target, strings.NewReader(c13JoinRaw(c13EncodePairs(c.Form), c.RawBody, c.RawFirst)))
		ct := c.CT
		if ct == "" {
			ct = "application/x-www-form-urlencoded"
		}
		req.Header.Set("Content-Type", ct)
	default:
		req = httptest.NewRequest(method, target, nil)
	}
	// set directly: the raw fragments need not survive a request-line parser
	req.URL.RawQuery = c13JoinRaw(c13EncodePairs(c.Query), c.RawQuery, c.RawFirst)
	for _, h := range c.Headers {
		k := http.CanonicalHeaderKey(h.Name)
		for _, v := range h.Values {
			req.Header[k] = append(req.Header[k], string(v))
		}
	}
	for _, a := range c.Auth {
		req.Header["Authorization"] = append(req.Header["Authorization"], string(a))
	}
	for _, ck := range c.Cookie {
		req.Header["Cookie"] = append(req.Header["Cookie"], ck)
	}
	if c.Skip {
		req.Header.Set(c13SkipHeader, "1")
	}
	return req
}

type c13Pair struct{ name, value string }

// what net/http finds at a lookup location of the request (computed on a second, identical request)
func c13Located(c *c13Case, src c13Src) []c13Pair {
	req := c13Request(c)
	var out []c13Pair
	switch src.kind {
	case "header":
		for _, v := range req.Header.Values(src.name) {
			out = append(out, c13Pair{src.name, v})
		}
	case "query":
		for _, v := range req.URL.Query()[src.name] {
			out = append(out, c13Pair{src.name, v})
		}
	case "form":
		_ = req.ParseMultipartForm(32 << 20)
		for _, v := range req.Form[src.name] {
			out = append(out, c13Pair{src.name, v})
		}
	case "cookie":
		for _, ck := range req.Cookies() {
			out = append(out, c13Pair{ck.Name, ck.Value})
		}
	case "param":
		if len(c.Params) == 2 || len(c.Params) == 22 {
			for i, n := range c13ParamNames(len(c.Params)) {
				out = append(out, c13Pair{n, c.Params[i]})
			}
		}
	}
	return out
}

// keys literally present at a location: the value, with the cut prefix removed for header sources
func c13Candidates(src c13Src, located []c13Pair, limit int) []string {
	var out []string
	for i, p := range located {
		if limit > 0 && i >= limit {
			break
		}
		switch src.kind {
		case "header":
			if src.pre == "" {
				out = append(out, p.value)
			} else if len(p.value) > len(src.pre) && strings.EqualFold(p.value[:len(src.pre)], src.pre) {
				out = append(out, p.value[len(src.pre):])
			}
		case "cookie", "param":
			if p.name == src.name {
				out = append(out, p.value)
			}
		default:
			out = append(out, p.value)
		}
	}
	return out
}

func c13RunKey(c *c13Case) (res Result) {
	var calls []string
	ran := false
	ehClass := 0
	srcs, okCfg := c13Sources(c)

	ops := []string{wInt(c.commitStatus()), "1", wInt(c.Ctor), wBool(c.skipped()), wStr(c.Lookup), wStr(c.Scheme), wInt(c.EH), wBool(c.Cont), wInt(len(srcs))}
	located := make([][]c13Pair, len(srcs))
	for i, s := range srcs {
		located[i] = c13Located(c, s)
		ops = append(ops, wInt(len(located[i])))
		for _, p := range located[i] {
			ops = append(ops, wStr(p.name), wStr(p.value))
		}
	}
	ops = append(ops, c13Table(c, false))
	res.Ops = strings.Join(ops, " ")

	var validator middleware.KeyAuthValidator = func(key string, _ echo.Context) (bool, error) {
		calls = append(calls, key)
		return c13Outcome(c.lookup([]byte(key), nil), c.ErrValid)
	}
	if c.Ctor >= 2 {
		validator = nil
	}
	unwrapBroken := false
	cfg := middleware.KeyAuthConfig{
		Skipper:                c13Skipper(c),
		KeyLookup:              c.Lookup,
		AuthScheme:             c.Scheme,
		ContinueOnIgnoredError: c.Cont,
		Validator:              validator,
	}
	if c.EH != 0 {
		cfg.ErrorHandler = func(err error, _ echo.Context) error {
			var miss *middleware.ErrKeyAuthMissing
			switch {
			case errors.As(err, &miss):
				ehClass = 1
				// the exported error type unwraps to the error it carries
				if errors.Unwrap(miss) != miss.Err || (miss.Err != nil && !errors.Is(err, miss.Err)) {
					unwrapBroken = true
				}
			case errors.Is(err, errC13Validator):
				ehClass = 3
			default:
				var he *echo.HTTPError
				if errors.As(err, &he) {
					ehClass = 3
				} else {
					ehClass = 2
				}
			}
			switch c.EH {
			case 1:
				return nil
			case 2:
				return err
			}
			return echo.NewHTTPError(c.EH)
		}
	}
	e := echo.New()
	var mw echo.MiddlewareFunc
	cfgPanic := func() (p bool) {
		defer func() {
			if r := recover(); r != nil {
				p = true
			}
		}()
		if c.Ctor == 1 || c.Ctor == 3 {
			mw = middleware.KeyAuth(validator)
		} else {
			mw = middleware.KeyAuthWithConfig(cfg)
		}
		return false
	}()
	if c.Ctor >= 2 {
		res.Obs = "config-panic"
		if !cfgPanic {
			res.Obs = "constructor accepted a nil validator"
		}
		res.Tags = []string{"key:nil-validator"}
		return res
	}
	if cfgPanic || !okCfg {
		if cfgPanic && !okCfg {
			res.Obs = "config-panic"
		} else {
			res.Obs = fmt.Sprintf("config-panic=%v but lookup well-formed=%v", cfgPanic, okCfg)
		}
		res.Tags = []string{"key:config-panic"}
		return res
	}
	e.Logger.SetOutput(io.Discard)
	e.Use(c13Early(c), mw)
	h := func(ctx echo.Context) error {
		ran = true
		return ctx.NoContent(http.StatusOK)
	}
	e.Any("/", h)
	e.Any("/p/:key/:other", h)
	e.Any(c13ManyRoute(), h)
	req := c13Request(c)
	rec := httptest.NewRecorder()
	panicked := func() (p bool) {
		defer func() {
			if r := recover(); r != nil {
				p = true
				res.Oracle = fmt.Sprintf("KeyAuth panicked: %v", r)
			}
		}()
		e.ServeHTTP(rec, req)
		return false
	}()
	if panicked {
		res.Obs = "panic"
		res.Tags = []string{"key:panic"}
		if len(srcs) == 0 {
			// A KeyLookup naming no known source kind (e.g. "headers:X") is outside the configurations the
			// property quantifies over; the real code panics on every request there (nil Err in
			// ErrKeyAuthMissing) and the model reproduces it.  Compared with the model, not an oracle failure.
			res.Oracle = ""
			res.Tags = []string{"key:no-known-source-panic"}
		}
		return res
	}
	obs := []string{wBool(ran), wInt(rec.Code), wInt(ehClass), wInt(len(calls))}
	for _, k := range calls {
		obs = append(obs, wStr(k))
	}
	if unwrapBroken {
		obs = append(obs, "ErrKeyAuthMissing.Unwrap-does-not-return-Err")
	}
	res.Obs = strings.Join(obs, " ")

	res.Oracle = c13KeyOracle(c, srcs, located, calls, ran, rec.Code)

	if c.Ctor == 1 {
		res.Tags = append(res.Tags, "key:ctor-KeyAuth(fn)")
	}
	if c.Skipper == 1 {
		res.Tags = append(res.Tags, "key:custom-skipper")
	}
	if len(c.Params) == 22 {
		res.Tags = append(res.Tags, "key:22-path-params")
	}
	for i, sc := range srcs {
		if len(located[i]) == 0 {
			continue
		}
		switch sc.kind {
		case "query":
			if !strings.Contains(c13Request(c).URL.RawQuery, url.QueryEscape(sc.name)+"=") {
				res.Tags = append(res.Tags, "key:query-name-spelled-noncanonically")
			}
		case "form":
			if len(c.RawBody) > 0 && !c.Multipart && !strings.Contains(c13EncodePairs(c.Form), url.QueryEscape(sc.name)+"=") {
				res.Tags = append(res.Tags, "key:form-name-spelled-noncanonically")
			}
		}
	}
	c13DecoyTags(&res, c13Request(c), "key")
	if c.Commit != 0 {
		res.Tags = append(res.Tags, "key:response-already-started")
	}
	if c.Method != "" {
		res.Tags = append(res.Tags, "key:method-"+c.Method)
	}
	switch {
	case c.skipped():
		res.Tags = append(res.Tags, "key:skipped")
	case ran && ehClass != 0:
		res.Tags = append(res.Tags, "key:continued-on-ignored-error")
	case ran:
		res.Tags = append(res.Tags, "key:ran")
	case len(calls) == 0:
		res.Tags = append(res.Tags, "key:nothing-extracted")
	default:
		res.Tags = append(res.Tags, "key:all-rejected")
	}
	for i, s := range srcs {
		res.Tags = append(res.Tags, "key:src-"+s.kind)
		for _, k := range c13Candidates(s, located[i], 20) {
			if u, err := url.PathUnescape(k); err == nil && u != k {
				res.Tags = append(res.Tags, "key:percent-escape-in-"+s.kind+"-value")
				break
			}
		}
		for _, k := range c13Candidates(s, located[i], 20) {
			if strings.Contains(k, "%") {
				if _, err := url.PathUnescape(k); err != nil {
					res.Tags = append(res.Tags, "key:malformed-percent-in-"+s.kind+"-value")
					break
				}
			}
		}
		if len(located[i]) > 20 {
			res.Tags = append(res.Tags, "key:over-limit")
			if s.kind == "cookie" {
				for j, p := range located[i] {
					if j >= 20 && p.name == s.name {
						res.Tags = append(res.Tags, "key:cookie-behind-20-others")
						break
					}
				}
			}
		}
		if s.kind == "header" && s.pre != "" && len(located[i]) > len(c13Candidates(s, located[i], 0)) {
			res.Tags = append(res.Tags, "key:prefix-mismatch")
		}
	}
	if len(srcs) > 1 {
		res.Tags = append(res.Tags, "key:multi-source")
	}
	if len(c.RawQuery) > 0 || len(c.RawBody) > 0 {
		res.Tags = append(res.Tags, "key:raw-neighbours")
	}
	if c.Multipart && len(c.Form) > 0 {
		res.Tags = append(res.Tags, "key:form-multipart")
		if c.CT != "" && !strings.HasPrefix(c.CT, "multipart/form-data") {
			res.Tags = append(res.Tags, "key:form-multipart-mixed-case")
		}
	}
	for i, s := range srcs {
		if len(c13Candidates(s, located[i], 20)) == 0 {
			continue
		}
		switch s.kind {
		case "form":
			if probe := c13Request(c); probe.ParseMultipartForm(32<<20) != nil {
				res.Tags = append(res.Tags, "key:form-key-found-despite-parse-error")
			}
		case "query":
			if _, err := url.ParseQuery(c13Request(c).URL.RawQuery); err != nil {
				res.Tags = append(res.Tags, "key:query-key-found-despite-parse-error")
			}
		}
	}
	res.Nontrivial = len(calls) > 0
	return res
}

// ---------- several instances on one request ----------

// all instances on the request's path, outermost first: the case's own one (e.Use), then the stack by level.  Every
// layer is returned as a view that carries ITS configuration and THE request of the outer case.
func c13Layers(c *c13Case) []*c13Case {
	top := c13Norm(c)
	top.Stack, top.At = c.Stack, -1
	out := []*c13Case{top}
	for at := 0; at <= 2; at++ {
		for _, l := range c.Stack {
			k := l.At
			if k < 0 || k > 2 {
				k = 2
			}
			if k != at || (l.Mode != 0 && l.Mode != 1) {
				continue
			}
			v := *top // the request
			v.Mode, v.Ctor, v.Skipper, v.At = l.Mode, l.Ctor, l.Skipper, k
			v.Default, v.Table, v.ErrValid = l.Default, l.Table, l.ErrValid
			v.Realm, v.Lookup, v.Scheme, v.EH, v.Cont = l.Realm, l.Lookup, l.Scheme, l.EH, l.Cont
			if v.Ctor >= 2 {
				v.Ctor = 0
			}
			n := c13Norm(&v)
			n.Stack = c.Stack
			out = append(out, n)
		}
	}
	return out
}

// c13StackOps: the model's input line for the instances `layers` (outermost first) on the request probeReq of layers[0];
// fills in, per KeyAuth instance, its lookup sources and what net/http locates there.  cfgOK: every KeyLookup is well-formed.
func c13StackOps(layers []*c13Case, probeReq *http.Request, srcsOf [][]c13Src, locOf [][][]c13Pair) (string, bool) {
	ops := []string{wInt(layers[0].commitStatus()), "3", wInt(len(layers))}
	cfgOK := true
	for i, l := range layers {
		if l.Mode == 0 {
			ops = append(ops, "0", wInt(l.Ctor), wBool(l.skipped()), wStr(l.Realm), wStr(strconv.Quote(l.Realm)))
			ops = append(ops, c13HeadOps(probeReq)...)
			ops = append(ops, c13Table(l, true))
			continue
		}
		srcs, ok := c13Sources(l)
		if !ok {
			cfgOK = false
		}
		srcsOf[i] = srcs
		locOf[i] = make([][]c13Pair, len(srcs))
		ops = append(ops, "1", wInt(l.Ctor), wBool(l.skipped()), wStr(l.Lookup), wStr(l.Scheme), wInt(l.EH), wBool(l.Cont), wInt(len(srcs)))
		for k, sc := range srcs {
			locOf[i][k] = c13Located(layers[0], sc)
			ops = append(ops, wInt(len(locOf[i][k])))
			for _, p := range locOf[i][k] {
				ops = append(ops, wStr(p.name), wStr(p.value))
			}
		}
		ops = append(ops, c13Table(l, false))
	}
	return strings.Join(ops, " "), cfgOK
}

func c13RunStack(c *c13Case) (res Result) {
	layers := c13Layers(c)
	n := len(layers)
	probeReq := c13Request(layers[0])
	authValues := probeReq.Header.Values("Authorization")
	bcalls := make([][]c13Call, n)
	kcalls := make([][]string, n)
	ehClass := make([]int, n)
	reached := make([]bool, n+1)
	ran := false
	srcsOf := make([][]c13Src, n)
	locOf := make([][][]c13Pair, n)

	ops, cfgOK := c13StackOps(layers, probeReq, srcsOf, locOf)
	res.Ops = ops

	e := echo.New()
	var useMW, groupMW, routeMW []echo.MiddlewareFunc
	cfgPanic := func() (p bool) {
		defer func() {
			if r := recover(); r != nil {
				p = true
			}
		}()
		for i, l := range layers {
			i, l := i, l
			var mw echo.MiddlewareFunc
			if l.Mode == 0 {
				v := func(u, p string, _ echo.Context) (bool, error) {
					bcalls[i] = append(bcalls[i], c13Call{u, p})
					return c13Outcome(l.lookup([]byte(u), []byte(p)), l.ErrValid)
				}
				if l.Ctor == 1 {
					mw = middleware.BasicAuth(v)
				} else {
					mw = middleware.BasicAuthWithConfig(middleware.BasicAuthConfig{Skipper: c13Skipper(l), Realm: l.Realm, Validator: v})
				}
			} else {
				v := func(key string, _ echo.Context) (bool, error) {
					kcalls[i] = append(kcalls[i], key)
					return c13Outcome(l.lookup([]byte(key), nil), l.ErrValid)
				}
				if l.Ctor == 1 {
					mw = middleware.KeyAuth(v)
				} else {
					cfg := middleware.KeyAuthConfig{Skipper: c13Skipper(l), KeyLookup: l.Lookup, AuthScheme: l.Scheme,
						ContinueOnIgnoredError: l.Cont, Validator: v}
					if l.EH != 0 {
						cfg.ErrorHandler = func(err error, _ echo.Context) error {
							var miss *middleware.ErrKeyAuthMissing
							var he *echo.HTTPError
							switch {
							case errors.As(err, &miss):
								ehClass[i] = 1
							case errors.Is(err, errC13Validator), errors.As(err, &he):
								ehClass[i] = 3
							default:
								ehClass[i] = 2
							}
							switch l.EH {
							case 1:
								return nil
							case 2:
								return err
							}
							return echo.NewHTTPError(l.EH)
						}
					}
					mw = middleware.KeyAuthWithConfig(cfg)
				}
			}
			// behind every instance: did it pass the request on?
			after := func(next echo.HandlerFunc) echo.HandlerFunc {
				return func(ctx echo.Context) error {
					reached[i+1] = true
					return next(ctx)
				}
			}
			switch {
			case l.At <= 0:
				useMW = append(useMW, mw, after)
			case l.At == 1:
				groupMW = append(groupMW, mw, after)
			default:
				routeMW = append(routeMW, mw, after)
			}
		}
		return false
	}()
	res.Tags = []string{fmt.Sprintf("stack:%d-instances", n)}
	if cfgPanic || !cfgOK {
		res.Obs = "config-panic"
		if cfgPanic != !cfgOK {
			res.Obs = fmt.Sprintf("config-panic=%v but lookups well-formed=%v", cfgPanic, cfgOK)
		}
		res.Tags = append(res.Tags, "stack:config-panic")
		return res
	}
	e.Logger.SetOutput(io.Discard)
	e.Use(append([]echo.MiddlewareFunc{c13Early(layers[0])}, useMW...)...)
	h := func(ctx echo.Context) error {
		ran = true
		return ctx.NoContent(http.StatusOK)
	}
	g := e.Group("")
	if layers[0].grouped() {
		g = e.Group("/g", groupMW...)
	}
	g.Any("/", h, routeMW...)
	g.Any("/p/:key/:other", h, routeMW...)
	g.Any(c13ManyRoute(), h, routeMW...)
	rec := httptest.NewRecorder()
	reached[0] = true
	panicked := func() (p bool) {
		defer func() {
			if r := recover(); r != nil {
				p = true
				res.Oracle = fmt.Sprintf("auth middleware panicked: %v", r)
			}
		}()
		e.ServeHTTP(rec, c13Request(layers[0]))
		return false
	}()
	if panicked {
		res.Obs = "panic"
		noSource := false
		for i, l := range layers {
			if l.Mode == 1 && len(srcsOf[i]) == 0 {
				noSource = true // configuration-only panic (C13_key_panic_iff), compared with the model
			}
		}
		if noSource {
			res.Oracle = ""
			res.Tags = append(res.Tags, "key:no-known-source-panic")
		}
		return res
	}
	obs := []string{wBool(ran), wInt(rec.Code), wInt(n)}
	for i, l := range layers {
		obs = append(obs, wInt(ehClass[i]))
		if l.Mode == 0 {
			obs = append(obs, wInt(len(bcalls[i])))
			for _, cl := range bcalls[i] {
				obs = append(obs, wStr(cl.u), wStr(cl.p))
			}
		} else {
			obs = append(obs, wInt(len(kcalls[i])))
			for _, k := range kcalls[i] {
				obs = append(obs, wStr(k), wStr(""))
			}
		}
	}
	obs = append(obs, wStr(c13WireHeader(layers[0], rec, "WWW-Authenticate")))
	res.Obs = strings.Join(obs, " ")

	// ---- model-free oracle, instance by instance: each one is judged on the request AS SENT and on whether IT
	// passed the request on; an instance that was not reached must not have asked its validator
	fail := func(i int, o string) {
		if o != "" && res.Oracle == "" {
			res.Oracle = fmt.Sprintf("instance %d of %d on the request's path (%s): %s", i, n, map[int]string{0: "BasicAuth", 1: "KeyAuth"}[layers[i].Mode], o)
		}
	}
	kinds := ""
	for i, l := range layers {
		passed := reached[i+1]
		if i == n-1 {
			passed = ran
		}
		if i == n-1 && ran != reached[n] {
			fail(i, "the handler and the chain disagree about the last instance")
		}
		kinds += map[int]string{0: "B", 1: "K"}[l.Mode]
		if !reached[i] {
			if len(bcalls[i])+len(kcalls[i]) > 0 {
				fail(i, "validator called although an outer instance had ended the request")
			}
			continue
		}
		if l.Mode == 0 {
			view := *l
			view.Auth = nil
			for _, a := range authValues {
				view.Auth = append(view.Auth, []byte(a))
			}
			o, _, wf := c13BasicOracle(&view, bcalls[i], passed, rec.Code)
			fail(i, o)
			if i > 0 && wf && passed {
				res.Tags = append(res.Tags, "stack:inner-basic-accepted")
			}
		} else {
			fail(i, c13KeyOracle(l, srcsOf[i], locOf[i], kcalls[i], passed, rec.Code))
			if i > 0 && passed && len(kcalls[i]) > 0 {
				res.Tags = append(res.Tags, "stack:inner-key-accepted")
			}
		}
		if i > 0 {
			res.Tags = append(res.Tags, fmt.Sprintf("stack:inner-at-%d", l.At))
		}
		if l.skipped() {
			res.Tags = append(res.Tags, "stack:skipped-instance")
		}
	}
	res.Tags = append(res.Tags, "stack:"+kinds)
	if ran {
		res.Tags = append(res.Tags, "stack:ran")
	}
	res.Nontrivial = len(bcalls[0])+len(kcalls[0]) > 0
	return res
}

// c13GenStack puts 1-2 further instances behind a generated case.  Inner validators mostly accept what the outer one
// accepts (so that "accepted credentials reach the handler" is exercised for every instance), sometimes something else.
func c13GenStack(r *rand.Rand) *c13Case {
	var top *c13Case
	if r.Intn(2) == 0 {
		top = c13GenBasic(r)
	} else {
		top = c13GenKey(r)
	}
	if top.Ctor >= 2 {
		top.Ctor = 0
	}
	// make the outer instance accept more often than a lone one: otherwise the inner ones are rarely reached
	if r.Intn(3) != 0 {
		for i := range top.Table {
			if top.Table[i].Out == 0 && r.Intn(2) == 0 {
				top.Table[i].Out = 1
			}
		}
	}
	reroll := func(t []c13Entry) []c13Entry {
		out := make([]c13Entry, len(t))
		for i, e := range t {
			out[i] = e
			switch r.Intn(6) {
			case 0:
				out[i].Out = 0
			case 1:
				out[i].Out = c13Pick(r, c13ErrCodes)
			case 2, 3, 4:
				out[i].Out = 1
			}
		}
		return out
	}
	if top.Mode == 0 && len(top.Auth) == 1 && r.Intn(4) == 0 {
		// a second Authorization line with other credentials: only instances that read every value may use it
		ou, op := c13Pick(r, c13Users), c13Pick(r, c13Passes)
		top.Auth = append(top.Auth, []byte("Basic "+base64.StdEncoding.EncodeToString([]byte(ou+":"+op))))
	}
	probe := c13Request(top)
	authValues := probe.Header.Values("Authorization")
	inner := func() *c13Case {
		l := &c13Case{ErrValid: r.Intn(2) == 0, Default: c13Pick(r, []int{0, 0, 1, 403})}
		l.At = c13Pick(r, []int{0, 1, 1, 2, 2})
		switch k := r.Intn(6); {
		case top.Mode == 0 && k <= 2, top.Mode == 1 && k == 0:
			// BasicAuth (again): its table starts from the outer one's
			l.Mode = 0
			if top.Mode == 0 {
				l.Table = reroll(top.Table)
			}
			for _, a := range authValues {
				if len(a) > 6 {
					if dec, err := base64.StdEncoding.DecodeString(a[6:]); err == nil {
						if u, p, ok := strings.Cut(string(dec), ":"); ok {
							l.Table = append(l.Table, c13Entry{U: []byte(u), P: []byte(p), Out: c13Pick(r, []int{1, 1, 1, 0})})
						}
					}
				}
			}
			l.Realm = c13Pick(r, []string{"", "inner"})
			if r.Intn(5) == 0 {
				l.Ctor = 1
			}
		case top.Mode == 0:
			// KeyAuth on the same header: the scheme text cut off, the base64 text is the key
			l.Mode = 1
			l.Lookup = c13Pick(r, []string{"header:Authorization:Basic ", "header:Authorization:basic ", "header:Authorization", "header:Authorization:Basic"})
			l.Scheme = c13Pick(r, []string{"", "Basic"})
			for _, a := range authValues {
				for _, cut := range []int{5, 6} {
					if len(a) > cut {
						l.Table = append(l.Table, c13Entry{U: []byte(a[cut:]), Out: c13Pick(r, []int{1, 1, 0})})
					}
				}
				l.Table = append(l.Table, c13Entry{U: []byte(a), Out: c13Pick(r, []int{1, 0})})
			}
			l.EH = c13Pick(r, []int{0, 0, 1, 403})
		default:
			// KeyAuth again: same lookup, the sources in another order, or a part of them
			l.Mode = 1
			l.Lookup, l.Scheme = top.Lookup, top.Scheme
			if parts := strings.Split(top.Lookup, ","); len(parts) > 1 {
				switch r.Intn(3) {
				case 0:
					r.Shuffle(len(parts), func(i, j int) { parts[i], parts[j] = parts[j], parts[i] })
					l.Lookup = strings.Join(parts, ",")
				case 1:
					l.Lookup = parts[r.Intn(len(parts))]
				}
			}
			l.Table = reroll(top.Table)
			l.EH = c13Pick(r, []int{0, 0, 0, 1, 2, 418})
			l.Cont = r.Intn(4) == 0
			if r.Intn(6) == 0 {
				l.Ctor = 1
			}
			if r.Intn(3) == 0 {
				// the same KeyLookup string, ANOTHER AuthScheme: the cut-prefix of `header:Authorization` differs, and the
				// request carries one Authorization line per scheme with a key this instance accepts
				l.Lookup, l.Ctor = top.Lookup, 0
				l.Scheme = c13Pick(r, []string{"Token", "ApiKey", "Bearer", "Basic", "K"})
				if l.Scheme == top.Scheme || (top.Scheme == "" && l.Scheme == "Bearer") {
					l.Scheme = "Inner"
				}
				k := c13Pick(r, []string{"inner-key", "tok", "T0k/+="})
				l.Table = append(l.Table, c13Entry{U: []byte(k), Out: 1})
				added := false
				for i := range top.Headers {
					if http.CanonicalHeaderKey(top.Headers[i].Name) == "Authorization" {
						top.Headers[i].Values = append(top.Headers[i].Values, []byte(l.Scheme+" "+k))
						added = true
						break
					}
				}
				if !added {
					top.Headers = append(top.Headers, c13Hdr{Name: "Authorization", Values: [][]byte{[]byte(l.Scheme + " " + k)}})
				}
			}
		}
		if r.Intn(8) == 0 {
			l.Skipper = 1
		}
		return l
	}
	for k := 1 + r.Intn(2); k > 0; k-- {
		top.Stack = append(top.Stack, inner())
	}
	return top
}

// ---------- exported CreateExtractors ----------

// c13RunExtractors drives the exported middleware.CreateExtractors(lookups) (no defaults, no AuthScheme; the empty
// string yields no extractor) and applies every extractor to the request inside a handler.
func c13RunExtractors(c *c13Case) (res Result) {
	srcs, okCfg := c13Sources(c)
	ops := []string{"0", "2", wStr(c.Lookup), wInt(len(srcs))}
	located := make([][]c13Pair, len(srcs))
	for i, s := range srcs {
		located[i] = c13Located(c, s)
		ops = append(ops, wInt(len(located[i])))
		for _, p := range located[i] {
			ops = append(ops, wStr(p.name), wStr(p.value))
		}
	}
	res.Ops = strings.Join(ops, " ")
	res.Tags = []string{"extractors:direct"}

	var exts []middleware.ValuesExtractor
	var cErr error
	ctorPanic := func() (p bool) {
		defer func() {
			if r := recover(); r != nil {
				p = true
				res.Oracle = fmt.Sprintf("CreateExtractors panicked: %v", r)
			}
		}()
		exts, cErr = middleware.CreateExtractors(c.Lookup)
		return false
	}()
	if ctorPanic {
		res.Obs = "panic"
		return res
	}
	if cErr != nil || !okCfg {
		res.Obs = "config-error"
		if (cErr != nil) != !okCfg {
			res.Obs = fmt.Sprintf("config-error=%v but lookup well-formed=%v", cErr != nil, okCfg)
		}
		res.Tags = append(res.Tags, "extractors:config-error")
		return res
	}
	type extRes struct {
		keys []string
		err  error
	}
	var got []extRes
	e := echo.New()
	h := func(ctx echo.Context) error {
		for _, x := range exts {
			k, err := x(ctx)
			got = append(got, extRes{append([]string(nil), k...), err})
		}
		return ctx.NoContent(http.StatusOK)
	}
	e.Any("/", h)
	e.Any("/p/:key/:other", h)
	e.Any(c13ManyRoute(), h)
	rec := httptest.NewRecorder()
	panicked := func() (p bool) {
		defer func() {
			if r := recover(); r != nil {
				p = true
				res.Oracle = fmt.Sprintf("an extractor panicked: %v", r)
			}
		}()
		e.ServeHTTP(rec, c13Request(c))
		return false
	}()
	if panicked {
		res.Obs = "panic"
		return res
	}
	obs := []string{wInt(len(got))}
	for _, g := range got {
		if g.err != nil {
			obs = append(obs, "0")
			continue
		}
		obs = append(obs, "1", wStrs(g.keys))
	}
	res.Obs = strings.Join(obs, " ")
	if len(exts) == 0 {
		res.Tags = append(res.Tags, "extractors:none")
	}
	// oracle: every returned value is literally at the extractor's location; nothing among the first 20 is lost
	if len(got) == len(srcs) {
		for i, s := range srcs {
			res.Tags = append(res.Tags, "extractors:src-"+s.kind)
			present := map[string]bool{}
			for _, k := range c13Candidates(s, located[i], 0) {
				present[k] = true
			}
			have := map[string]bool{}
			for _, k := range got[i].keys {
				have[k] = true
				if !present[k] && res.Oracle == "" {
					res.Oracle = fmt.Sprintf("extractor %d (%s:%s) returned %q, which is not at its location of the request", i, s.kind, s.name, k)
				}
			}
			for _, k := range c13Candidates(s, located[i], 20) {
				if !have[k] && res.Oracle == "" {
					res.Oracle = fmt.Sprintf("extractor %d (%s:%s) lost the value %q, which is among the first 20 at its location", i, s.kind, s.name, k)
				}
			}
			if len(got[i].keys) > 0 {
				res.Nontrivial = true
			}
		}
	} else if res.Oracle == "" {
		res.Oracle = fmt.Sprintf("%d extractors built for %d known lookup sources", len(got), len(srcs))
	}
	return res
}

// c13BasicOracle evaluates the property itself on what one BasicAuth request did (no model).
func c13BasicDecoded(c *c13Case) (du, dp string) {
	if len(c.Auth) > 0 {
		h := string(c.Auth[0])
		if len(h) >= 6 && strings.EqualFold(h[:5], "basic") {
			if dec, err := base64.StdEncoding.DecodeString(h[6:]); err == nil {
				du, dp, _ = strings.Cut(string(dec), ":")
			}
		}
	}
	return du, dp
}

func c13BasicOracle(c *c13Case, calls []c13Call, ran bool, code int) (oracle string, derived, wellFormed bool) {
	// credentials literally present in the request: first Authorization value, scheme "basic" in any
	// casing, base64 text after the sixth byte, split at the first colon
	var du, dp string
	if len(c.Auth) > 0 {
		h := string(c.Auth[0])
		if len(h) >= 6 && strings.EqualFold(h[:5], "basic") {
			if dec, err := base64.StdEncoding.DecodeString(h[6:]); err == nil {
				if u, p, found := strings.Cut(string(dec), ":"); found {
					du, dp, derived = u, p, true
					wellFormed = h[5] == ' '
				}
			}
		}
	}
	fail := func(s string) {
		if oracle == "" {
			oracle = s
		}
	}
	for _, cl := range calls {
		if !derived || cl.u != du || cl.p != dp {
			fail(fmt.Sprintf("validator called with (%q, %q), which is not the decoded text of the request's credentials split at the first colon", cl.u, cl.p))
		}
	}
	if c.skipped() {
		// the configured Skipper takes this request out of the middleware: the one way past the validator
		if !ran {
			fail(fmt.Sprintf("the configured Skipper skips this request, but the handler did not run (status %d)", code))
		}
		return oracle, derived, wellFormed
	}
	if ran {
		if len(calls) == 0 {
			fail("handler ran although the validator was never called")
		} else {
			last := calls[len(calls)-1]
			if out := c.lookup([]byte(last.u), []byte(last.p)); out != 1 {
				fail(fmt.Sprintf("handler ran although the validator answered %d for (%q, %q)", out, last.u, last.p))
			}
		}
	} else {
		if wellFormed && c.lookup([]byte(du), []byte(dp)) == 1 {
			fail(fmt.Sprintf("well-formed credentials (%q, %q) accepted by the validator did not reach the handler (status %d)", du, dp, code))
		}
		okStatus := code == 400 || code == 401 || c.Commit != 0 // a status already on the wire is not the middleware's
		if len(calls) > 0 {
			if out := c.lookup([]byte(calls[len(calls)-1].u), []byte(calls[len(calls)-1].p)); out >= 100 && code == out {
				okStatus = true
			}
		}
		if !okStatus {
			fail(fmt.Sprintf("rejected request answered with status %d (expected 400, 401 or the validator's error)", code))
		}
	}
	return oracle, derived, wellFormed
}

// c13KeyOracle evaluates the property itself on what one KeyAuth request did (no model).
func c13KeyOracle(c *c13Case, srcs []c13Src, located [][]c13Pair, calls []string, ran bool, code int) (oracle string) {
	fail := func(s string) {
		if oracle == "" {
			oracle = s
		}
	}
	present := map[string]bool{}
	var firstAccepted *string
	for i, s := range srcs {
		for _, k := range c13Candidates(s, located[i], 0) {
			present[k] = true
		}
		for _, k := range c13Candidates(s, located[i], 20) {
			if firstAccepted == nil && c.lookup([]byte(k), nil) == 1 {
				kk := k
				firstAccepted = &kk
			}
		}
	}
	for _, k := range calls {
		if !present[k] {
			fail(fmt.Sprintf("validator called with %q, which is at no configured lookup location of the request (scheme prefix removed)", k))
		}
	}
	ignoredErrOptIn := c.Cont && c.EH == 1
	if c.skipped() {
		if !ran {
			fail(fmt.Sprintf("the configured Skipper skips this request, but the handler did not run (status %d)", code))
		}
		return oracle
	}
	if ran {
		approved := len(calls) > 0 && c.lookup([]byte(calls[len(calls)-1]), nil) == 1
		if !approved && !ignoredErrOptIn {
			fail(fmt.Sprintf("handler ran although the validator approved no key of the request (calls %q)", calls))
		}
	} else {
		if firstAccepted != nil {
			fail(fmt.Sprintf("key %q is present at a configured location and accepted by the validator, but the handler did not run (status %d)", *firstAccepted, code))
		}
		if c.EH == 0 && code != 400 && code != 401 && c.Commit == 0 {
			fromValidator := false
			for _, k := range calls {
				if out := c.lookup([]byte(k), nil); out >= 100 && out != 500 && out == code {
					fromValidator = true // the validator's own *echo.HTTPError
				}
			}
			if !fromValidator {
				fail(fmt.Sprintf("rejected request answered with status %d (expected 400, 401 or the validator's error)", code))
			}
		}
	}
	return oracle
}

// ---------- generators ----------

func c13Pick[T any](r *rand.Rand, l []T) T { return l[r.Intn(len(l))] }

var c13Users = []string{"user", "joe", "", "admin", "a", "us er", "\xff\xfe", "jöe", "Aladdin", "user\n"}
var c13Passes = []string{"pass", "secret", "", "p:q", ":", "::", "a:b:c", "open sesame", "\x00\x80", "päss", "pass:"}
var c13ErrCodes = []int{500, 500, 403, 418, 401, 400}

// bytes that "tolerant" parsers like to trim or normalise, put at the borders of a credential part
var c13Edge = []string{"\n", "\r", "\r\n", "\n\n", " ", "\t", "\x00", "\v", "\f", "\u00a0", "\u2028", "\x85", "\ufeff", "\"", "'", "=", "%20", "+"}

// c13Borders decorates one credential part with such bytes in front and / or behind
func c13Borders(r *rand.Rand, s string) string {
	switch r.Intn(4) {
	case 0:
		return c13Pick(r, c13Edge) + s
	case 1:
		return c13Pick(r, c13Edge) + s + c13Pick(r, c13Edge)
	}
	return s + c13Pick(r, c13Edge)
}

// every reading of a credential part that differs from the literal one by a normalisation step
func c13Normalised(s string) []string {
	var out []string
	add := func(t string) {
		if t != s {
			for _, o := range out {
				if o == t {
					return
				}
			}
			out = append(out, t)
		}
	}
	add(strings.TrimRight(s, "\r\n"))
	add(strings.TrimSpace(s))
	add(strings.TrimRight(s, " \t\r\n\x00"))
	add(strings.TrimLeft(s, " \t\r\n\x00"))
	add(strings.Trim(s, "\"'"))
	add(strings.ToLower(s))
	add(strings.ToValidUTF8(s, ""))
	if u, err := url.QueryUnescape(s); err == nil {
		add(u)
	}
	return out
}

// how the case picks constructor and Skipper (shared by both middlewares)
func c13GenEntry(r *rand.Rand, c *c13Case) {
	if r.Intn(12) == 0 {
		c.Commit, c.CommitHow = c13Pick(r, []int{200, 200, 202, 206, 404, 500}), r.Intn(3)
	}
	switch r.Intn(40) {
	case 0, 1, 2, 3, 4, 5:
		c.Ctor = 1
	case 6:
		if r.Intn(6) == 0 {
			c.Ctor = 2 + r.Intn(2)
		}
	}
	switch r.Intn(10) {
	case 0:
		c.Skipper, c.Skip = 1, true
	case 1:
		c.Skipper = 1
	case 2:
		c.Skip = r.Intn(3) == 0 // the header alone, without a Skipper that looks at it
	}
}

func c13RandOutcome(r *rand.Rand) int {
	switch r.Intn(4) {
	case 0:
		return 1
	case 1:
		return c13Pick(r, c13ErrCodes)
	}
	return 0
}

func c13Payload(r *rand.Rand, cred string) string {
	std := base64.StdEncoding.EncodeToString([]byte(cred))
	switch r.Intn(24) {
	case 0:
		return base64.RawStdEncoding.EncodeToString([]byte(cred)) // padding missing
	case 1:
		return base64.URLEncoding.EncodeToString([]byte(cred))
	case 2: // CR/LF sprinkled in
		var b strings.Builder
		for i := 0; i < len(std); i++ {
			if r.Intn(4) == 0 {
				b.WriteString(c13Pick(r, []string{"\n", "\r", "\r\n"}))
			}
			b.WriteByte(std[i])
		}
		if r.Intn(2) == 0 {
			b.WriteString("\n")
		}
		return b.String()
	case 3: // truncated
		if len(std) > 0 {
			return std[:r.Intn(len(std))]
		}
	case 4: // trailing garbage
		return std + c13Pick(r, []string{"=", "A", " ", "==", "\x00", "AAAA", "!"})
	case 5: // a foreign character inside
		if len(std) > 0 {
			i := r.Intn(len(std))
			return std[:i] + c13Pick(r, []string{"-", "_", " ", "*", "\xff", "=", "."}) + std[i+1:]
		}
	case 6: // non-zero trailing bits (Go's decoder is not strict)
		if strings.HasSuffix(std, "=") {
			i := strings.Index(std, "=") - 1
			const alpha = "ABCDEFGHIJKLMNOPQRSTUVWXYZabcdefghijklmnopqrstuvwxyz0123456789+/"
			j := strings.IndexByte(alpha, std[i])
			return std[:i] + string(alpha[(j+1+r.Intn(3))%64]) + std[i+1:]
		}
	case 7:
		return cred // not encoded at all
	}
	return std
}

func c13GenBasic(r *rand.Rand) *c13Case {
	c := &c13Case{Mode: 0, ErrValid: r.Intn(2) == 0}
	c.Realm = c13Pick(r, []string{"", "Restricted", "My \"Realm\"", "café"})
	u, p := c13Pick(r, c13Users), c13Pick(r, c13Passes)
	if r.Intn(12) == 0 {
		b := make([]byte, r.Intn(6))
		r.Read(b)
		p = string(b)
	}
	// bytes at the borders of user / password that a lenient reading would drop
	switch r.Intn(8) {
	case 0:
		p = c13Borders(r, p)
	case 1:
		u = c13Borders(r, u)
	case 2:
		if r.Intn(2) == 0 {
			u, p = c13Borders(r, u), c13Borders(r, p)
		}
	}
	c13GenEntry(r, c)
	if r.Intn(5) == 0 {
		c.Method = c13Pick(r, c13Methods)
	}
	if r.Intn(3) == 0 {
		c13Decoys(r, c)
	}
	cred := u + ":" + p
	switch r.Intn(12) {
	case 0:
		cred = u + p // no colon (unless the password has one)
	case 1:
		cred = ""
	case 2:
		cred = ":"
	}
	scheme := c13Pick(r, []string{"Basic", "Basic", "Basic", "Basic", "Basic", "Basic", "basic", "basic", "BASIC", "BASIC", "bAsIc", "BaSiC",
		"Basi", "Basicc", "Bearer", "Token", "baſic", "Ba\xffic", "BASIK", "", "Basic ", " Basic"})
	sep := c13Pick(r, []string{" ", " ", " ", " ", " ", " ", " ", " ", " ", "", "  ", "\t", "x", ":", "="})
	val := scheme + sep + c13Payload(r, cred)
	switch r.Intn(20) {
	case 0:
		val = val[:r.Intn(len(val)+1)]
	case 1:
		val = scheme
	case 2:
		val = scheme + sep
	}
	n := 1
	switch r.Intn(10) {
	case 0:
		n = 0
	case 1, 2:
		n = 2 + r.Intn(2)
	}
	for i := 0; i < n; i++ {
		c.Auth = append(c.Auth, []byte(val))
	}
	if n > 1 {
		// other header lines: a different credential, garbage, or another scheme
		ou, op := c13Pick(r, c13Users), c13Pick(r, c13Passes)
		other := "Basic " + base64.StdEncoding.EncodeToString([]byte(ou+":"+op))
		if r.Intn(3) == 0 {
			other = c13Pick(r, []string{"Bearer abc", "", "Basic", "Basic !!!!"})
		}
		c.Auth[r.Intn(n)] = []byte(other)
		c.Table = append(c.Table, c13Entry{U: []byte(ou), P: []byte(op), Out: c13RandOutcome(r)})
	}
	// validator table keyed by credentials: the intended pair plus near misses
	c.Default = c13Pick(r, []int{0, 0, 0, 1, 500, 403})
	add := func(u, p string) {
		if r.Intn(2) == 0 {
			c.Table = append(c.Table, c13Entry{U: []byte(u), P: []byte(p), Out: c13RandOutcome(r)})
		}
	}
	c.Table = append(c.Table, c13Entry{U: []byte(u), P: []byte(p), Out: c13Pick(r, []int{1, 1, 1, 0, 500, 403})})
	if i := strings.LastIndex(cred, ":"); i >= 0 {
		add(cred[:i], cred[i+1:]) // split at the LAST colon
	}
	if i := strings.Index(p, ":"); i >= 0 {
		add(u, p[:i])
		add(u+":"+p[:i], p[i+1:])
	}
	add(u, p+"x")
	add(u, "")
	add("", p)
	add(strings.ToUpper(u), p)
	add(u+":", p)
	add(cred, "")
	// what a normalising reading of the same header would present instead (mostly acceptable to the validator,
	// so that a middleware which normalises lets the request through)
	addNorm := func(u2, p2 string) {
		if r.Intn(3) != 0 {
			c.Table = append(c.Table, c13Entry{U: []byte(u2), P: []byte(p2), Out: c13Pick(r, []int{1, 1, 1, 0, 403})})
		}
	}
	for _, p2 := range c13Normalised(p) {
		addNorm(u, p2)
	}
	for _, u2 := range c13Normalised(u) {
		addNorm(u2, p)
	}
	r.Shuffle(len(c.Table), func(i, j int) { c.Table[i], c.Table[j] = c.Table[j], c.Table[i] })
	return c
}

var c13Tokens = []string{"tok", "secret-key", "", "a b", "T0k/+=", "\xff\x00", "kéy", "Bearer tok", " tok", "tok "}

// round 8: keys that LOOK encoded in some transfer syntax: percent escapes (valid, invalid, truncated, of a letter that
// needs none, of `%` itself, twice), `+`, base64, character references, backslash escapes.  No lookup location decodes a
// key: a cookie / header / parameter value is taken as net/http hands it over, and query / form values are encoded once
// by the harness and decoded once by net/http - the validator must be shown these very bytes.
var c13EncTokens = []string{"k%41z", "k%41z/%2Bx", "%74ok", "t%6fk", "tok%20", "%20tok", "100%", "a%2", "%zz", "%", "%25", "%2541", "a+b", "+tok",
	"dG9r", "dG9r=", "tok%00", "%c3%a9", "%E9", "&amp;", "&#116;ok", "tok\\x41", "%74%6f%6b", "secret%2Dkey", "=?utf-8?b?dG9r?="}

func c13Tok(r *rand.Rand) string {
	if r.Intn(4) == 0 {
		return c13Pick(r, c13EncTokens)
	}
	return c13Pick(r, c13Tokens)
}

// what a decoding reader would make of a key (each reading differs from the key itself)
func c13Decodings(s string) []string {
	var out []string
	add := func(t string, err error) {
		if err != nil || t == s {
			return
		}
		for _, o := range out {
			if o == t {
				return
			}
		}
		out = append(out, t)
	}
	u, err := url.PathUnescape(s)
	add(u, err)
	u, err = url.QueryUnescape(s)
	add(u, err)
	if err == nil {
		u2, err2 := url.QueryUnescape(u)
		add(u2, err2)
	}
	add(strings.ReplaceAll(s, "+", " "), nil)
	for _, enc := range []*base64.Encoding{base64.StdEncoding, base64.RawStdEncoding, base64.URLEncoding} {
		if b, err := enc.DecodeString(s); len(s) >= 4 {
			add(string(b), err)
		}
	}
	add(html.UnescapeString(s), nil)
	if i := strings.IndexByte(s, '%'); i >= 0 {
		add(s[:i], nil) // cut at the first escape
	}
	add(url.QueryEscape(s), nil) // the encoded form, as a reader that forgets to decode would present it
	return out
}

func c13PrefixVariant(r *rand.Rand, pre string) string {
	switch r.Intn(14) {
	case 0:
		return strings.ToUpper(pre)
	case 1:
		return strings.ToLower(pre)
	case 2:
		return strings.TrimRight(pre, " ") // space missing
	case 3:
		return pre + " "
	case 4:
		if len(pre) > 1 {
			return pre[:len(pre)-1]
		}
	case 5:
		return strings.NewReplacer("s", "ſ", "S", "ſ", "k", "K", "K", "K").Replace(pre)
	case 6:
		if len(pre) > 0 {
			b := []byte(pre)
			b[r.Intn(len(b))] ^= 0x80
			return string(b)
		}
	case 7:
		return c13Pick(r, []string{"Basic ", "Token ", "", "Bearer", "Bearer  "})
	case 8:
		if len(pre) > 0 {
			b := []byte(pre)
			i := r.Intn(len(b))
			b[i] = b[i] ^ 0x20 // flips the case of a letter, turns ' ' into NUL
			return string(b)
		}
	}
	return pre
}

func c13GenKey(r *rand.Rand) *c13Case {
	c := &c13Case{Mode: 1, ErrValid: r.Intn(2) == 0}
	c.Scheme = c13Pick(r, []string{"", "", "", "Bearer", "Token", "ApiKey ", "k", "S", "Bearer "})
	type srcSpec struct{ lookup, kind, name, pre string }
	eff := c.Scheme
	if eff == "" {
		eff = "Bearer"
	}
	if !strings.HasSuffix(eff, " ") {
		eff += " "
	}
	pool := []srcSpec{
		{"header:Authorization", "header", "Authorization", eff},
		{"header:Authorization", "header", "Authorization", eff},
		{"header:X-Api-Key", "header", "X-Api-Key", ""},
		{"header:x-api-key", "header", "x-api-key", ""},
		{"header:X-Api-Key:Key ", "header", "X-Api-Key", "Key "},
		{"header:Authorization:Sk", "header", "Authorization", "Sk"},
		{"header:authorization", "header", "authorization", ""},
		// an explicit, EMPTY cut-prefix: nothing is cut, whatever the AuthScheme says
		{"header:Authorization:", "header", "Authorization", ""},
		{"header:Authorization:", "header", "Authorization", ""},
		{"header:X-Api-Key:", "header", "X-Api-Key", ""},
		{"header:Authorization::x", "header", "Authorization", ""},
		{"header:authorization:", "header", "authorization", ""},
		{"query:key", "query", "key", ""},
		{"query:api_key", "query", "api_key", ""},
		{"form:key", "form", "key", ""},
		{"form:token", "form", "token", ""},
		{"cookie:key", "cookie", "key", ""},
		{"cookie:session", "cookie", "session", ""},
		{"param:key", "param", "key", ""},
	}
	n := 1
	if r.Intn(3) == 0 {
		n = 2 + r.Intn(2)
	}
	var specs []srcSpec
	var lk []string
	for i := 0; i < n; i++ {
		s := c13Pick(r, pool)
		specs = append(specs, s)
		lk = append(lk, s.lookup)
	}
	c.Lookup = strings.Join(lk, ",")
	if n == 1 && specs[0].lookup == "header:Authorization" && r.Intn(2) == 0 {
		c.Lookup = "" // default lookup
	}
	if r.Intn(60) == 0 {
		c.Lookup = c13Pick(r, []string{"header", "query:key,cookie", ",", "headers:X-Api-Key", "Header:Authorization",
			"query:", "header::Bearer ", "query:key, header:X-Api-Key", "cookie:,header:X-Api-Key"})
	}
	c.EH = c13Pick(r, []int{0, 0, 0, 0, 1, 1, 2, 403, 418})
	c.Cont = r.Intn(3) == 0
	c13GenEntry(r, c)
	if c.Ctor == 1 && r.Intn(3) != 0 {
		// the convenience constructor looks at `Authorization: Bearer <key>` only: aim most of its cases there
		specs = []srcSpec{{"header:Authorization", "header", "Authorization", "Bearer "}}
	}

	// the intended key and its validator entry
	tok := c13Tok(r)
	for _, s := range specs {
		// a cookie value is where clients most often percent-encode on their own
		if s.kind == "cookie" && r.Intn(3) == 0 {
			tok = c13Pick(r, c13EncTokens)
		}
	}
	c.Default = c13Pick(r, []int{0, 0, 0, 1, 500, 403})
	c.Table = append(c.Table, c13Entry{U: []byte(tok), Out: c13Pick(r, []int{1, 1, 1, 0, 500, 403})})
	add := func(k string) {
		if r.Intn(2) == 0 {
			c.Table = append(c.Table, c13Entry{U: []byte(k), Out: c13RandOutcome(r)})
		}
	}
	add(" " + tok)
	add(tok + " ")
	add(strings.ToUpper(tok))
	if len(tok) > 0 {
		add(tok[1:])
		add(tok[:len(tok)-1])
	}
	for _, s := range specs {
		add(s.pre + tok)
		add(strings.TrimRight(s.pre, " ") + tok)
	}
	// what a decoding reading of the key would present instead (mostly acceptable to the validator, so that a middleware
	// which decodes lets the request through with a key that is nowhere in it)
	for _, t2 := range c13Decodings(tok) {
		if r.Intn(3) != 0 {
			c.Table = append(c.Table, c13Entry{U: []byte(t2), Out: c13Pick(r, []int{1, 1, 1, 0, 403})})
		}
	}

	nvals := func() int {
		switch r.Intn(12) {
		case 0:
			return 0
		case 1:
			return 18 + r.Intn(6) // around the limit of 20
		case 2, 3:
			return 2 + r.Intn(2)
		}
		return 1
	}
	genVal := func(pre string, i, n int) string {
		t := tok
		// with several values only some carry the intended key (often the last ones, behind rejected keys)
		if n > 1 && r.Intn(3) != 0 && i != n-1 {
			t = c13Tok(r)
		}
		if pre == "" {
			return t
		}
		return c13PrefixVariant(r, pre) + t
	}
	for _, s := range specs {
		if r.Intn(8) == 0 {
			continue // nothing at this location
		}
		k := nvals()
		switch s.kind {
		case "header":
			h := c13Hdr{Name: s.name}
			for i := 0; i < k; i++ {
				h.Values = append(h.Values, []byte(genVal(s.pre, i, k)))
			}
			c.Headers = append(c.Headers, h)
		case "query":
			for i := 0; i < k; i++ {
				c.Query = append(c.Query, c13KV{[]byte(s.name), []byte(genVal("", i, k))})
			}
			if r.Intn(4) == 0 {
				c.Query = append(c.Query, c13KV{[]byte("other"), []byte(tok)})
			}
		case "form":
			for i := 0; i < k; i++ {
				c.Form = append(c.Form, c13KV{[]byte(s.name), []byte(genVal("", i, k))})
			}
			if r.Intn(4) == 0 { // Request.Form also contains the query values
				c.Query = append(c.Query, c13KV{[]byte(s.name), []byte(c13Tok(r))})
			}
		case "param":
			safe := func(s string) string {
				s = strings.Map(func(c rune) rune {
					if c >= 'a' && c <= 'z' || c >= 'A' && c <= 'Z' || c >= '0' && c <= '9' || c == '-' {
						return c
					}
					return 'x'
				}, s)
				if s == "" {
					s = "x"
				}
				return s
			}
			c.Params = []string{safe(genVal("", 0, 1)), safe(c13Pick(r, c13Tokens))}
			if r.Intn(3) == 0 {
				// route with 22 parameters, six of them under the looked-up name; the intended key at one of them
				c.Params = nil
				at := c13Pick(r, []int{0, 5, 18, 19, 19, 20, 21})
				for i, n := range c13ParamNames(22) {
					v := safe(c13Pick(r, c13Tokens))
					if n != "key" && r.Intn(4) == 0 {
						v = safe(tok)
					}
					if i == at {
						v = safe(tok)
					}
					c.Params = append(c.Params, v)
				}
			}
		case "cookie":
			var parts []string
			for i := 0; i < k; i++ {
				name := s.name
				if r.Intn(3) == 0 {
					name = c13Pick(r, []string{"other", "Key", "keys", "k"})
				}
				v := genVal("", i, k)
				if r.Intn(2) == 0 {
					v = strings.Map(func(c rune) rune {
						if c <= ' ' || c >= 0x7f || c == ';' || c == ',' || c == '"' || c == '\\' {
							return 'x'
						}
						return c
					}, v)
				}
				if r.Intn(8) == 0 && !strings.ContainsAny(v, "\";\\ ,") {
					v = `"` + v + `"` // quoted cookie value: net/http strips the quotes
				}
				parts = append(parts, name+"="+v)
			}
			if r.Intn(5) == 0 {
				// a crowd of foreign cookies (analytics, consent, ...) in front of / between the looked-up ones: the
				// limit of 20 counts returned values, not inspected cookies
				crowd := 15 + r.Intn(15)
				var all []string
				for i := 0; i < crowd; i++ {
					all = append(all, fmt.Sprintf("%s%d=v%d", c13Pick(r, []string{"c", "_ga", "consent", "keys", "Key"}), i, i))
				}
				at := r.Intn(4)
				if at == 0 && len(parts) > 1 {
					parts = append(append(append([]string(nil), parts[:1]...), all...), parts[1:]...)
				} else {
					parts = append(all, parts...)
				}
			}
			if r.Intn(2) == 0 || k > 8 || len(parts) > 8 {
				c.Cookie = append(c.Cookie, strings.Join(parts, "; "))
			} else {
				c.Cookie = append(c.Cookie, parts...)
			}
		}
	}
	// the REST of the request around the (well-formed) key: malformed neighbours, multipart, media-type spellings
	for _, sp := range specs {
		switch sp.kind {
		case "form":
			c13DecorateForm(r, c, sp.name)
		case "query":
			if r.Intn(2) == 0 {
				c.RawQuery = c13RawFragments(r, sp.name)
				c.RawFirst = r.Intn(2) == 0
			}
		}
	}
	// the looked-up pairs themselves in non-canonical spelling (after the decoration above, which assigns the raw lists)
	for _, sp := range specs {
		switch sp.kind {
		case "query":
			if r.Intn(3) == 0 {
				var raw []string
				c.Query, raw = c13SpellPairs(r, c.Query, sp.name)
				c.RawQuery = append(c.RawQuery, raw...)
			}
		case "form":
			if !c.Multipart && r.Intn(3) == 0 {
				var raw []string
				c.Form, raw = c13SpellPairs(r, c.Form, sp.name)
				c.RawBody = append(c.RawBody, raw...)
			}
		}
	}
	if r.Intn(3) == 0 {
		c13Decoys(r, c)
	}
	// a key at a location that is NOT configured must never count: the usual places tokens travel in
	if r.Intn(4) == 0 {
		configured := func(kind, name string) bool {
			for _, sp := range specs {
				if sp.kind == kind && strings.EqualFold(sp.name, name) {
					return true
				}
			}
			return false
		}
		for k := 1 + r.Intn(2); k > 0; k-- {
			switch r.Intn(5) {
			case 0:
				if n := c13Pick(r, []string{"X-Other", "X-Api-Key", "X-Auth-Token", "Authorization", "Proxy-Authorization"}); !configured("header", n) {
					c.Headers = append(c.Headers, c13Hdr{Name: n, Values: [][]byte{[]byte(c13Pick(r, []string{"", "Bearer ", "Token "}) + tok)}})
				}
			case 1:
				// Request.Form also holds the query values: a query pair counts for a form source of that name
				if n := c13Pick(r, []string{"access_token", "token", "key", "api_key", "apikey"}); !configured("query", n) && !configured("form", n) {
					c.Query = append(c.Query, c13KV{[]byte(n), []byte(tok)})
				}
			case 2:
				if n := c13Pick(r, []string{"token", "session", "key", "auth"}); !configured("cookie", n) {
					c.Cookie = append(c.Cookie, n+"=tokvalue")
					c.Table = append(c.Table, c13Entry{U: []byte("tokvalue"), Out: 1})
				}
			case 3:
				if n := c13Pick(r, []string{"access_token", "token", "key"}); !configured("form", n) && len(c.Form) > 0 && !c.Multipart {
					c.Form = append(c.Form, c13KV{[]byte(n), []byte(tok)})
				}
			case 4:
				c.Headers = append(c.Headers, c13Hdr{Name: "X-Other", Values: [][]byte{[]byte(tok)}})
			}
		}
	}
	if c.Method == "" && r.Intn(6) == 0 {
		c.Method = c13Pick(r, c13Methods)
	}
	r.Shuffle(len(c.Table), func(i, j int) { c.Table[i], c.Table[j] = c.Table[j], c.Table[i] })
	return c
}

var c13RawPool = []string{"utm=%zz", "note=100%", "x=%", "a;b=1", ";", "q=a;b", "%gg=1", "dup=1&dup=2&dup=1", "=novalue", "novalue", "",
	"k=%41%", "other=%e9", "sp=a+b", "json={\"a\":1}", "key2=tok", "a=1;key=tok", "&&", "x=%4", "%=1"}

// c13EncLoose spells a name or value the way some client might: every byte that must be escaped is (upper- or lower-case
// hex, blank as `+` or `%20`), and bytes that need no escaping are escaped now and then as well
func c13EncLoose(r *rand.Rand, s string) string {
	var b strings.Builder
	for i := 0; i < len(s); i++ {
		ch := s[i]
		plain := ch >= 'a' && ch <= 'z' || ch >= 'A' && ch <= 'Z' || ch >= '0' && ch <= '9' || ch == '-' || ch == '_' || ch == '.' || ch == '~'
		switch {
		case ch == ' ' && r.Intn(2) == 0:
			b.WriteByte('+')
		case !plain || r.Intn(4) == 0:
			if r.Intn(2) == 0 {
				fmt.Fprintf(&b, "%%%02X", ch)
			} else {
				fmt.Fprintf(&b, "%%%02x", ch)
			}
		default:
			b.WriteByte(ch)
		}
	}
	return b.String()
}

// c13SpellPairs turns well-formed pairs into raw fragments in non-canonical spelling (escaped letters in the NAME, `%20`
// for `+`, a bare name for an empty value, brackets left alone); what they mean is decided by net/http on the wire form
func c13SpellPairs(r *rand.Rand, kvs []c13KV, name string) (keep []c13KV, raw []string) {
	for _, kv := range kvs {
		if string(kv.K) != name {
			keep = append(keep, kv)
			continue
		}
		n := c13EncLoose(r, name)
		if n == url.QueryEscape(name) && len(name) > 0 {
			// make sure the name is not spelled canonically
			i := r.Intn(len(name))
			n = url.QueryEscape(name[:i]) + fmt.Sprintf("%%%02x", name[i]) + url.QueryEscape(name[i+1:])
		}
		switch {
		case len(kv.V) == 0 && r.Intn(2) == 0:
			raw = append(raw, n) // bare name
		case r.Intn(6) == 0:
			raw = append(raw, n+"="+string(kv.V)) // value as it is (may be malformed: then net/http drops the pair)
		default:
			raw = append(raw, n+"="+c13EncLoose(r, string(kv.V)))
		}
	}
	return keep, raw
}

// 1-3 raw fragments for the rest of a query string / urlencoded body: bad escapes, semicolons, duplicates, a very
// long field, and now and then a malformed field under the looked-up name itself
func c13RawFragments(r *rand.Rand, name string) []string {
	var out []string
	for k := 1 + r.Intn(3); k > 0; k-- {
		switch r.Intn(10) {
		case 0:
			out = append(out, "pad="+strings.Repeat("a", 3000+r.Intn(4000)))
		case 1:
			out = append(out, name+c13Pick(r, []string{"=%zz", "=%", ";x=1", "=a;b", "%=1"}))
		default:
			out = append(out, c13Pick(r, c13RawPool))
		}
	}
	return out
}

// shapes of a request whose form carries the key: urlencoded with malformed neighbours in body and/or query,
// multipart with mixed-case media types / parameters / odd boundaries, other methods, non-form media types
func c13DecorateForm(r *rand.Rand, c *c13Case, name string) {
	switch r.Intn(8) {
	case 0, 1, 2: // malformed neighbours in the body, sometimes in the query as well
		c.RawBody = c13RawFragments(r, name)
		c.RawFirst = r.Intn(2) == 0
		if r.Intn(3) == 0 {
			c.RawQuery = c13RawFragments(r, name)
		}
	case 3: // body fine, query string malformed
		c.RawQuery = c13RawFragments(r, name)
		c.RawFirst = r.Intn(2) == 0
	case 4, 5: // multipart
		c.Multipart = true
		c.Boundary = c13Pick(r, []string{"", "xYzBoundary", "----WebKitFormBoundary7MA4YWxkTrZu0gW", "a", "b'()+_,-./:=?0",
			strings.Repeat("b", 70), "with space x"})
		c.CT = c13Pick(r, []string{"", "multipart/form-data", "Multipart/Form-Data", "MULTIPART/FORM-DATA", "multipart/Form-data",
			"multipart/form-data; charset=utf-8; boundary=%s", "Multipart/Form-Data;boundary=%s", "multipart/form-data; Boundary=%s",
			"multipart/form-data ; boundary=%s"})
		if r.Intn(3) == 0 {
			c.RawQuery = c13RawFragments(r, name)
		}
	case 6: // media type spellings of urlencoded bodies, and bodies net/http does not treat as forms
		c.CT = c13Pick(r, []string{"application/x-www-form-urlencoded; charset=UTF-8", "Application/X-WWW-Form-Urlencoded",
			"application/x-www-form-urlencoded;charset=utf-8", "APPLICATION/X-WWW-FORM-URLENCODED", "text/plain", "application/json", "application/x-www-form-urlencoded; charset"})
		if r.Intn(2) == 0 {
			c.RawBody = c13RawFragments(r, name)
		}
	}
	if r.Intn(5) == 0 {
		c.Method = c13Pick(r, []string{"PUT", "PATCH", "PUT", "DELETE", "GET"})
	}
}

func c13Gen(r *rand.Rand, tier string) []any {
	n := 12000
	if tier == "thorough" {
		n = 600000
	}
	var out []any
	for i := 0; i < n; i++ {
		if i%2 == 0 {
			out = append(out, c13GenBasic(r))
		} else {
			out = append(out, c13GenKey(r))
		}
	}
	// deterministic overlapping requests through one middleware instance (oracle only)
	for i := 0; i < n/8; i++ {
		out = append(out, c13GenConc(r))
	}
	// several instances on the path of one request
	for i := 0; i < n/6; i++ {
		out = append(out, c13GenStack(r))
	}
	// the exported CreateExtractors entry point: same requests, the extractors applied directly
	for i := 0; i < n/10; i++ {
		c := c13GenKey(r)
		c.Mode, c.Ctor, c.Skipper, c.Skip = 3, 0, 0, false
		switch r.Intn(12) {
		case 0:
			c.Lookup = ""
		case 1:
			c.Lookup = c13Pick(r, []string{"header:Authorization", "header:Authorization:Bearer ", "header", ",", "headers:X", "query:key,", "param:key,cookie:key"})
		}
		if c.Lookup == "" && r.Intn(2) == 0 {
			c.Headers = append(c.Headers, c13Hdr{Name: "Authorization", Values: [][]byte{[]byte("Bearer tok")}})
		}
		out = append(out, c)
	}
	return out
}

// ---------- shrinking ----------

func c13Clone(c *c13Case) *c13Case {
	d := *c
	d.Table = append([]c13Entry(nil), c.Table...)
	d.Auth = append([][]byte(nil), c.Auth...)
	d.Headers = nil
	for _, h := range c.Headers {
		d.Headers = append(d.Headers, c13Hdr{h.Name, append([][]byte(nil), h.Values...)})
	}
	d.Query = append([]c13KV(nil), c.Query...)
	d.Form = append([]c13KV(nil), c.Form...)
	d.Cookie = append([]string(nil), c.Cookie...)
	d.Params = append([]string(nil), c.Params...)
	d.RawQuery = append([]string(nil), c.RawQuery...)
	d.RawBody = append([]string(nil), c.RawBody...)
	if c.Stack != nil {
		d.Stack = make([]*c13Case, len(c.Stack))
		for i, l := range c.Stack {
			x := *l
			x.Table = append([]c13Entry(nil), l.Table...)
			d.Stack[i] = &x
		}
	}
	return &d
}

func c13Shrink(ci any) []any {
	c := ci.(*c13Case)
	if c.Mode == 2 {
		return c13ShrinkConc(c)
	}
	var out []any
	for i, l := range c.Stack {
		d := c13Clone(c)
		d.Stack = append(d.Stack[:i], d.Stack[i+1:]...)
		out = append(out, d)
		if l.At != 0 {
			d := c13Clone(c)
			d.Stack[i].At = 0
			out = append(out, d)
		}
		for k := range l.Table {
			d := c13Clone(c)
			d.Stack[i].Table = append(d.Stack[i].Table[:k], d.Stack[i].Table[k+1:]...)
			out = append(out, d)
		}
		if l.Skipper != 0 || l.Ctor != 0 || l.ErrValid || l.EH != 0 || l.Cont || l.Realm != "" {
			d := c13Clone(c)
			x := d.Stack[i]
			x.Skipper, x.Ctor, x.ErrValid, x.EH, x.Cont, x.Realm = 0, 0, false, 0, false, ""
			out = append(out, d)
		}
	}
	for i := range c.Table {
		d := c13Clone(c)
		d.Table = append(d.Table[:i], d.Table[i+1:]...)
		out = append(out, d)
	}
	for i := range c.Auth {
		d := c13Clone(c)
		d.Auth = append(d.Auth[:i], d.Auth[i+1:]...)
		out = append(out, d)
	}
	if c.Realm != "" {
		d := c13Clone(c)
		d.Realm = ""
		out = append(out, d)
	}
	for i, h := range c.Headers {
		d := c13Clone(c)
		d.Headers = append(d.Headers[:i], d.Headers[i+1:]...)
		out = append(out, d)
		if len(h.Values) > 1 {
			for j := range h.Values {
				d := c13Clone(c)
				d.Headers[i].Values = append(d.Headers[i].Values[:j], d.Headers[i].Values[j+1:]...)
				out = append(out, d)
			}
		}
	}
	for i := range c.Query {
		d := c13Clone(c)
		d.Query = append(d.Query[:i], d.Query[i+1:]...)
		out = append(out, d)
	}
	for i := range c.Form {
		d := c13Clone(c)
		d.Form = append(d.Form[:i], d.Form[i+1:]...)
		out = append(out, d)
	}
	for i := range c.Cookie {
		d := c13Clone(c)
		d.Cookie = append(d.Cookie[:i], d.Cookie[i+1:]...)
		out = append(out, d)
	}
	for i, line := range c.Cookie {
		// one pair of a `a=1; b=2` line dropped
		if parts := strings.Split(line, "; "); len(parts) > 1 {
			for j := range parts {
				d := c13Clone(c)
				d.Cookie[i] = strings.Join(append(append([]string(nil), parts[:j]...), parts[j+1:]...), "; ")
				out = append(out, d)
			}
		}
	}
	if strings.Contains(c.Lookup, ",") {
		parts := strings.Split(c.Lookup, ",")
		for i := range parts {
			d := c13Clone(c)
			d.Lookup = strings.Join(append(append([]string(nil), parts[:i]...), parts[i+1:]...), ",")
			out = append(out, d)
		}
	}
	if c.ErrValid {
		d := c13Clone(c)
		d.ErrValid = false
		out = append(out, d)
	}
	if c.Commit != 0 {
		d := c13Clone(c)
		d.Commit, d.CommitHow = 0, 0
		out = append(out, d)
		if c.CommitHow != 0 {
			d := c13Clone(c)
			d.CommitHow = 0
			out = append(out, d)
		}
	}
	if c.Ctor != 0 {
		d := c13Clone(c)
		d.Ctor = 0
		out = append(out, d)
		// what the convenience constructors ignore anyway
		if c.Realm != "" || c.Lookup != "" || c.Scheme != "" || c.EH != 0 || c.Cont || c.Skipper != 0 {
			d := c13Clone(c)
			d.Realm, d.Lookup, d.Scheme, d.EH, d.Cont, d.Skipper = "", "", "", 0, false, 0
			out = append(out, d)
		}
	}
	if len(c.Params) == 22 {
		// keep the shape, simplify the values that do not matter
		for i, v := range c.Params {
			if v != "x" {
				d := c13Clone(c)
				d.Params[i] = "x"
				out = append(out, d)
			}
		}
	}
	if c.Skipper != 0 {
		d := c13Clone(c)
		d.Skipper = 0
		out = append(out, d)
	}
	if c.Skip {
		d := c13Clone(c)
		d.Skip = false
		out = append(out, d)
	}
	// shorter user / password / key in the first credential-bearing value is not attempted: the table is keyed by it
	for i := range c.RawQuery {
		d := c13Clone(c)
		d.RawQuery = append(d.RawQuery[:i], d.RawQuery[i+1:]...)
		out = append(out, d)
	}
	for i := range c.RawBody {
		d := c13Clone(c)
		d.RawBody = append(d.RawBody[:i], d.RawBody[i+1:]...)
		out = append(out, d)
	}
	if c.Method != "" {
		d := c13Clone(c)
		d.Method = ""
		out = append(out, d)
	}
	if c.Boundary != "" {
		d := c13Clone(c)
		d.Boundary = ""
		out = append(out, d)
	}
	if c.Multipart {
		d := c13Clone(c)
		d.Multipart, d.CT, d.Boundary = false, "", ""
		out = append(out, d)
	}
	if c.CT != "" {
		d := c13Clone(c)
		d.CT = ""
		out = append(out, d)
	}
	return out
}

// c13Mutate: neighbours of a case on which model and code disagree that turn the disagreement into a failure of the
// property itself: a validator that accepts everything (a lost or altered credential then shows as "accepted credentials
// did not reach the handler" / "called with something not in the request"), one that refuses everything, no ErrorHandler
func c13Mutate(r *rand.Rand, ci any) []any {
	c := ci.(*c13Case)
	if c.Mode == 2 {
		return nil
	}
	var out []any
	all := func(v int) {
		d := c13Clone(c)
		set := func(x *c13Case) {
			x.Default = v
			for i := range x.Table {
				x.Table[i].Out = v
			}
		}
		set(d)
		for _, l := range d.Stack {
			set(l)
		}
		out = append(out, d)
		e := c13Clone(d)
		e.EH, e.Cont, e.Skipper, e.ErrValid = 0, false, 0, false
		for _, l := range e.Stack {
			l.EH, l.Cont, l.Skipper, l.ErrValid = 0, false, 0, false
		}
		out = append(out, e)
	}
	all(1)
	all(0)
	return out
}

func init() {
	register(&Prop{
		ID:             "C13",
		Rule:           "sequential cases (compared with the model): half BasicAuth, half KeyAuth; plus 1/8 as many overlapping streams (oracle only): ONE middleware instance, 2-3 requests with multi-value headers / several lookup sources, request i stops inside its k-th validator call (channels, no timing) until request i+1 has been served completely, every request judged on its own by the same oracle. Sequential cases: Basic: Authorization values assembled from scheme (casings, truncated, foreign, with U+017F / U+212A / invalid bytes) + separator (space, none, other) + payload (std base64 of user:password incl. empty parts, colons in the password, non-UTF-8; unpadded, URL alphabet, CR/LF inside, truncated, trailing garbage, foreign character, non-zero trailing bits, raw), 0-3 header lines, validator table keyed by credentials (the intended pair + near misses such as the split at the last colon) with outcomes true/false/error((false|true),err). Key: 1-3 lookup sources (header with scheme prefix / explicit cut prefix / none, query, form, cookie, param), 0-23 values per location with prefix variants; for form / query sources the REST of the body / query string is partly malformed (bad %-escapes, semicolons, duplicate and 3-7 KB fields, a malformed field under the looked-up name) in front of or behind the well-formed key, multipart/form-data bodies with mixed-case media types, extra parameters and odd boundaries, urlencoded media-type spellings, non-form media types, PUT/PATCH/DELETE/GET with a body, body combined with query string, ErrorHandler absent / returns nil / passes / returns HTTPError, ContinueOnIgnoredError. Non-trivial = the validator was called or the base64 text was rejected; distinct = distinct model op lines. Round 4: both middlewares through ...WithConfig or the convenience constructors BasicAuth(fn) / KeyAuth(fn) (rarely with a nil validator: constructor panic), default or custom Skipper (skips the requests carrying a marker header, also inside the overlapping streams), request methods incl. OPTIONS / HEAD / TRACE / PROPFIND; Basic: user / password with CR, LF, blanks, NUL, NBSP, quotes, %20 at their borders, validator table holding every normalised reading (trimmed, lower-cased, unescaped) mostly as acceptable, the WWW-Authenticate challenge compared for default / custom realms; Key: route with 22 path parameters (looked-up name at indices 0, 5, 18-21), the key at popular locations that are NOT configured (query access_token / token / key / api_key, headers X-Api-Key / X-Auth-Token / Proxy-Authorization, cookies, form fields), ErrKeyAuthMissing unwrapped inside the ErrorHandler; round 5: 1/6 as many cases with 2-3 instances on the path of ONE request (e.Use + group + route level): BasicAuth twice / three times, KeyAuth behind BasicAuth on the same Authorization header (cut-prefix `Basic `), KeyAuth twice with the sources reordered or narrowed, BasicAuth behind KeyAuth, inner validators that mostly accept what the outer one accepts, per-instance Skipper / ErrorHandler / constructor; a pass-through marker behind every instance tells whether it passed the request on, and each instance is judged by the unchanged oracle on the request AS SENT (accepted well-formed credentials must pass THIS instance; its validator calls must be literal; an instance that was not reached must not have been asked); round 6: 1/3 of the Basic and Key requests carry decoy headers (the complete shape of a CORS preflight: OPTIONS + Access-Control-Request-Method + Origin; of a websocket upgrade; X-Requested-With, X-Forwarded-*, X-Forwarded-User, Remote-User, X-Http-Method-Override, probe User-Agents, Sec-Fetch-*), the whole request head is the BasicAuth model's input; for query / form sources the looked-up pairs are spelled non-canonically in 1/3 of the cases (percent-encoded letters in the NAME, upper / lower hex, `%20` vs `+`, bare name for an empty value, raw values), cookie values quoted; KeyAuth stacks whose instances differ only in AuthScheme (one Authorization line per scheme); Mutate hook (validator accepting / refusing everything) for the failing-input search; round 8: 1/4 of the keys (1/2 where a cookie source is configured) LOOK encoded - percent escapes (valid, of letters that need none, of `%` itself, twice, malformed, truncated, %00, UTF-8 sequences), `+`, base64, character references, backslash escapes, a MIME encoded-word - at every lookup location (cookie / header values taken as net/http hands them over, query / form values encoded once by the harness), and the validator table mostly ACCEPTS what a decoding reader would present instead (PathUnescape, QueryUnescape once / twice, `+` as blank, base64, entity-decoded, cut at the first escape, the still-encoded form); round 7: lookups with an explicit EMPTY cut-prefix (`header:Authorization:`, `header:X-Api-Key:`, `header:Authorization::x`, lower-case name) crossed with every AuthScheme; for 1/12 of the requests a middleware in front has already started the response (WriteHeader / Write / WriteHeader+Flush, 200 / 202 / 206 / 404 / 500) before the auth middleware runs; plus 1/10 as many cases through the exported CreateExtractors(lookups) (no defaults, empty string, malformed strings), every extractor applied to the request inside a handler",
		New:            func() any { return &c13Case{} },
		Gen:            c13Gen,
		Run:            c13Run,
		Shrink:         c13Shrink,
		Mutate:         c13Mutate,
		Tolerable:      c13Tolerable,
		Correspondence: "C13.basicAuthMW + wwwValue / C13.keyAuthMW / C13.authStack / C13.createExtractors + extract (lean/EchoModel/C13.lean) vs middleware.BasicAuth / BasicAuthWithConfig / KeyAuth / KeyAuthWithConfig / CreateExtractors",
	})
}
