package main

// C11 — which differences between the implementation's and the model's observation line are OUTSIDE the property.
//
// The property (properties.jsonl, C11) constrains, per request:
//   (a) Access-Control-Allow-Origin is emitted ONLY for an Origin the configuration allows (literal equality, `*`, a
//       `*`/`?` pattern matched against the whole origin), and its value is EITHER `*` OR the Origin verbatim;
//   (b) Access-Control-Allow-Credentials only together with an allowed origin and only when enabled;
//   (c) a non-preflight request from a disallowed origin never reaches the handler;
//   (d) an OPTIONS preflight is answered 204 without running the handler.
// Quantifier: syntactically valid origins (scheme://host[:port], host up to 253 bytes).
//
// It does NOT constrain: WHICH of the two legal values (`*` / the origin) is sent for an origin the configuration
// allows; the Vary header; Allow, Access-Control-Allow-Methods / -Allow-Headers / -Expose-Headers / -Max-Age; which
// 4xx / 5xx refuses a non-preflight request that does not reach the handler; and what happens to an Origin outside the
// quantifier (not origin shaped, host longer than 253 bytes) or beyond the 261 bytes behind which the code does not
// consult its compiled patterns (a cost guard the statement knows nothing about) — as long as (a)-(d) hold there too,
// judged by the statement's own definition of "allowed".
//
// Observation line (both sides): `status ran (0 | 1 acao) acac k vary* (0|1 allow) (0|1 acam) (0|1 acah) (0|1 aceh) (0|1 maxage)`.
// c11Tolerable parses both lines with one reader; a line that does not parse (`panic`, ...) is never tolerated.

import (
	"encoding/hex"
	"net/http"
	"strings"
)

type c11TolObs struct {
	status  int
	ran     bool
	hasACAO bool
	acao    string
	acac    bool
	// Vary and the five headers the property does not mention are parsed (the line must be well-formed) and dropped
}

func c11TolStr(r *c13TolReader) string {
	x := r.str()
	if r.bad {
		return ""
	}
	b, err := hex.DecodeString(x[1:])
	if err != nil {
		r.bad = true
	}
	return string(b)
}

func c11TolParse(line string) (o c11TolObs, ok bool) {
	if line == "" || strings.Contains(line, "  ") {
		return o, false
	}
	r := &c13TolReader{t: strings.Split(line, " ")}
	o.status = r.int()
	o.ran = r.bool()
	if o.hasACAO = r.bool(); o.hasACAO {
		o.acao = c11TolStr(r)
	}
	o.acac = r.bool()
	for k := r.int(); k > 0 && !r.bad; k-- {
		r.str()
	}
	for i := 0; i < 5 && !r.bad; i++ {
		if r.bool() {
			r.str()
		}
	}
	return o, !r.bad && len(r.t) == 0
}

func c11TolRefusal(status int) bool { return status >= 400 && status <= 599 }

// what the case's configuration says about the request's Origin, instance by instance, by the STATEMENT's definition
// (also for origins outside the quantifier)
type c11TolVerdict struct {
	origin      string
	preflight   bool
	committed   bool
	allSkipped  bool
	anyAllows   bool // some unskipped instance allows the origin
	allAllow    bool // every unskipped instance allows it
	anyCreds    bool // some unskipped instance has credentials enabled
	funcErrCode int  // the first unskipped instance decides by an AllowOriginFunc that fails for this origin: its status
	entry       c11EntryState
	insideQuant bool // syntactically valid origin of at most 261 bytes
}

func c11TolVerdictOf(c *c11Case) c11TolVerdict {
	c = c11Norm(c)
	layers := c.layers()
	plan := c11PlanOf(c, layers)
	v := c11TolVerdict{preflight: c.Method == http.MethodOptions, allSkipped: plan.allSkipped, allAllow: true}
	if len(c.Origin) > 0 {
		v.origin = c.Origin[0]
	}
	if c.Entry != nil {
		v.entry = *c.Entry
	}
	v.committed = v.entry.commitStatus() != 0
	v.insideQuant = c11ValidOrigin(v.origin) && len(v.origin) <= 253+3+5
	first := true
	for i, l := range plan.eff {
		if plan.skipped[i] {
			continue
		}
		allows := false
		if l.Func != nil {
			k := l.Func.class(v.origin)
			allows = k == 1
			if first && k >= 100 {
				v.funcErrCode = k
			}
		} else {
			allows = c11Allowed(l.Allow, v.origin)
		}
		first = false
		if allows {
			v.anyAllows = true
		} else {
			v.allAllow = false
		}
		if l.Creds {
			v.anyCreds = true
		}
	}
	return v
}

// c11TolConforms: does ONE observation line satisfy (a)-(d) for this case, judged by the statement's definition of
// "allowed" whatever the origin looks like?  Headers a middleware in front had put into the response are discounted
// exactly as the oracle discounts them.
func c11TolConforms(v c11TolVerdict, o c11TolObs) bool {
	hasACAO, hasACAC := o.hasACAO, o.acac
	presetMasks := false
	if hasACAO && v.entry.ACAO != "" && o.acao == v.entry.ACAO {
		hasACAO, presetMasks = false, true
	}
	if v.entry.ACAC {
		hasACAC = false
	}
	if hasACAO {
		if o.acao != "*" && o.acao != v.origin {
			return false
		}
		if !v.anyAllows || v.origin == "" {
			return false
		}
	}
	if hasACAC && (!v.anyCreds || (!hasACAO && !presetMasks)) {
		return false
	}
	if o.ran && v.origin != "" && !v.allAllow {
		return false
	}
	if v.preflight {
		if o.ran {
			return false
		}
		if o.status != http.StatusNoContent && !v.committed && !(v.funcErrCode != 0 && o.status == v.funcErrCode) {
			return false
		}
	} else if !o.ran && !v.committed && !c11TolRefusal(o.status) {
		return false
	}
	return true
}

func c11Tolerable(ci any, implObs, modelObs string) bool {
	c, isCase := ci.(*c11Case)
	if !isCase || c == nil {
		return false
	}
	impl, ok := c11TolParse(implObs)
	if !ok {
		return false // `panic`, anything unknown
	}
	model, ok := c11TolParse(modelObs)
	if !ok {
		return false
	}
	v := c11TolVerdictOf(c)
	if v.allSkipped {
		// the Skipper takes the request out of the middleware: handler, status, grant headers must agree
		return impl == model
	}
	// did the instances grant?  A value the middleware in front had put there is no grant (cf. the oracle); when that
	// preset value is itself `*` or the origin, the line cannot tell (0 no, 1 yes, 2 cannot tell)
	granted := func(o c11TolObs) int {
		switch {
		case !o.hasACAO:
			return 0
		case v.entry.ACAO == "" || o.acao != v.entry.ACAO:
			return 1
		case o.acao == "*" || o.acao == v.origin:
			return 2
		}
		return 0
	}
	gi, gm := granted(impl), granted(model)
	if impl.ran == model.ran && (gi == gm || gi == 2 || gm == 2) {
		// ---- same verdict on both sides
		// (b) credentials flag: strict
		if impl.acac != model.acac {
			return false
		}
		// status: (d) demands 204 of a preflight; a request that reached the handler shows the handler's status; only the
		// status that REFUSES a non-preflight request is a detail
		if impl.status != model.status {
			if v.preflight || impl.ran || v.committed || !c11TolRefusal(impl.status) || !c11TolRefusal(model.status) {
				return false
			}
		}
		// (a) the value: `*` or the origin verbatim are both legal for an origin the configuration allows
		if impl.hasACAO != model.hasACAO {
			return false
		}
		if impl.hasACAO && impl.acao != model.acao {
			legal := func(x string) bool { return x == "*" || x == v.origin }
			if !legal(impl.acao) || !legal(model.acao) || !v.anyAllows || v.origin == "" {
				return false
			}
		}
		// Vary, Allow, Access-Control-Allow-Methods / -Allow-Headers / -Expose-Headers / -Max-Age: not in the statement
		return true
	}
	// ---- the two sides decide differently about the origin: only outside what the statement fixes (an Origin that is
	// not a syntactically valid origin, or longer than the 261 bytes behind which the code's cost guard refuses to look
	// at its patterns), and only if the implementation's answer satisfies (a)-(d) by the statement's own definition of
	// "allowed" (the allow-list in force as the code reads it: c11Effective)
	if v.insideQuant || v.origin == "" {
		return false
	}
	return c11TolConforms(v, impl)
}
