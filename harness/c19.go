package main

// C19 — Proxy: balancers, retry loop, rewrite rules.
// Real code: middleware.NewRoundRobinBalancer / NewRandomBalancer (AddTarget, RemoveTarget,
// Next) and middleware.ProxyWithConfig driven through e.ServeHTTP against instrumented
// httptest upstream servers.  Model: lean/EchoModel/C19.lean (runOps, runSteps).
//
// Case kinds
//   0  balancer operation sequence, compared step by step with the model
//   1  end-to-end scenario (targets alive/dead, RetryCount, rewrite rules, requests, add/remove
//      between requests), compared with the model + model-free oracle
//   3  end-to-end, oracle only (overlapping rule sets / unclean rewrite results)
//   4  concurrent AddTarget/RemoveTarget/Next from several goroutines, oracle only
//   5  end-to-end like kind 1, but echo runs behind a real http.Server (httptest.NewServer(e)) and is
//      called over TCP: the request body is net/http's server body (known finding F16); websocket
//      upgrades over a raw TCP connection (the upstream answers 101 and exchanges bytes through the
//      tunnel); absolute-form request targets sent by a client that uses echo as its proxy
//
// Kinds 1, 3, 5 vary the whole configuration (round 4): Proxy(balancer) vs ProxyWithConfig, a balancer
// that is a TargetProvider (with scripted errors), custom RetryFilter (scripted by call / by error
// code), custom ErrorHandler (maps / swallows), custom Skipper, ContextKey, rules handed over partly
// as RegexRewrite, Transport (plain *http.Transport / logging RoundTripper), a second echo instance
// sharing the balancer, request targets in absolute form (also upper-case scheme, userinfo).

import (
	"fmt"
	"math/rand"
	"net/http"
	"net/http/httptest"
	"net/url"
	"strings"

	"github.com/labstack/echo/v4"
	"github.com/labstack/echo/v4/middleware"
)

type c19Target struct {
	Name string `json:"name"`
	URL  int    `json:"url"`
}

type c19Op struct {
	K    int    `json:"k"` // 0 AddTarget, 1 RemoveTarget, 2 Next
	Name string `json:"name,omitempty"`
	URL  int    `json:"url,omitempty"`
	Ctx  int    `json:"ctx,omitempty"`
}

type c19Rule struct {
	Pat  string `json:"pat"`
	Tmpl string `json:"tmpl"`
}

type c19Resp struct {
	Status  int         `json:"status"`
	Headers [][2]string `json:"headers,omitempty"`
	Body    []byte      `json:"body,omitempty"`
}

type c19Req struct {
	Method string `json:"method"`
	URI    string `json:"uri"`
	// request target in absolute form (`GET http://host/path HTTP/1.1`) when Host != ""
	Scheme string `json:"scheme,omitempty"`
	Host   string `json:"host,omitempty"`
	// websocket upgrade: Body = bytes the client sends after the 101, Resp.Body = bytes the upstream
	// sends back before it closes the tunnel
	WS bool `json:"ws,omitempty"`
	// carries the header the configured Skipper looks for
	Skip bool `json:"skip,omitempty"`
	// TargetProvider script, by NextTarget call of this request: 0 = a target, -1 = a plain error,
	// n > 0 = *echo.HTTPError with code n
	ProvErr []int `json:"prov_err,omitempty"`
	// 1: the request goes to the second echo instance (c19Case.TwoInst)
	Inst     int         `json:"inst,omitempty"`
	Headers  [][2]string `json:"headers,omitempty"`
	Body     []byte      `json:"body,omitempty"`
	Canceled bool        `json:"canceled,omitempty"`
	// by-construction expectation of what the upstream must receive as request target
	// (nil = unknown; several = any of them, for overlapping rule sets)
	Want []string `json:"want,omitempty"`
	// index of the rule the expectation was constructed from (0 = none, j+1 = rule j); lets the
	// shrinker drop rules no request depends on
	Rule int     `json:"rule,omitempty"`
	Resp c19Resp `json:"resp"`
}

// custom RetryFilter: kind 1 answers by call number (Answers, then Rest), kind 2 answers true
// for *echo.HTTPError with one of Codes
type c19Filter struct {
	Kind    int    `json:"kind"`
	Answers []bool `json:"answers,omitempty"`
	Rest    bool   `json:"rest,omitempty"`
	Codes   []int  `json:"codes,omitempty"`
}

type c19Step struct {
	K    int     `json:"k"` // 0 AddTarget, 1 RemoveTarget, 3 request
	Name string  `json:"name,omitempty"`
	URL  int     `json:"url,omitempty"`
	Req  *c19Req `json:"req,omitempty"`
}

type c19Conc struct {
	Scripts [][]c19Op `json:"scripts"` // one op list per goroutine
}

type c19Case struct {
	Kind  int         `json:"kind"`
	RR    bool        `json:"rr"`
	Init  []c19Target `json:"init"`
	Ops   []c19Op     `json:"ops,omitempty"`
	Retry int         `json:"retry,omitempty"`
	Alive []bool      `json:"alive,omitempty"` // by url id
	Rules []c19Rule   `json:"rules,omitempty"`
	Steps []c19Step   `json:"steps,omitempty"`
	Conc  *c19Conc    `json:"conc,omitempty"`
	// configuration surface (kinds 1, 3, 5)
	Ctor     int        `json:"ctor,omitempty"`      // 1 = middleware.Proxy(balancer): every field below and Retry/Rules are not in force
	Provider bool       `json:"provider,omitempty"`  // the balancer implements TargetProvider
	Filter   *c19Filter `json:"filter,omitempty"`    // nil = default RetryFilter
	Handler  int        `json:"handler,omitempty"`   // ErrorHandler: 0 nil, n > 0 answers HTTPError(n), -1 writes its own 203 and returns nil
	Skipper  bool       `json:"skipper,omitempty"`   // custom Skipper (skips requests carrying X-C19-Skip)
	CtxKey   string     `json:"ctx_key,omitempty"`   // ProxyConfig.ContextKey
	RegexCfg bool       `json:"regex_cfg,omitempty"` // rules are installed through ProxyConfig.RegexRewrite (compiled by the harness) instead of Rewrite
	// ProxyConfig.Transport: 0 nil, 1 a plain *http.Transport, 2 a RoundTripper that logs every round trip
	Transport int `json:"transport,omitempty"`
	// a second echo instance with its own middleware made from the same configuration and the SAME
	// balancer; requests with Inst = 1 go there
	TwoInst bool `json:"two_inst,omitempty"`
}

func c19NewBalancer(rr bool, ts []*middleware.ProxyTarget) middleware.ProxyBalancer {
	if rr {
		return middleware.NewRoundRobinBalancer(ts)
	}
	return middleware.NewRandomBalancer(ts)
}

func c19EncTargets(ts []c19Target) string {
	parts := []string{wInt(len(ts))}
	for _, t := range ts {
		parts = append(parts, wStr(t.Name), wInt(t.URL))
	}
	return strings.Join(parts, " ")
}

// shadow of the membership, kept by the harness from the RETURN VALUES of the real
// AddTarget/RemoveTarget only (used by the oracle, not by the model comparison)
type c19Shadow struct {
	cur []*middleware.ProxyTarget
	id  map[*middleware.ProxyTarget]c19Target
}

func (s *c19Shadow) has(name string) bool {
	for _, t := range s.cur {
		if t.Name == name {
			return true
		}
	}
	return false
}
func (s *c19Shadow) member(t *middleware.ProxyTarget) bool {
	for _, x := range s.cur {
		if x == t {
			return true
		}
	}
	return false
}
func (s *c19Shadow) pos(t *middleware.ProxyTarget) int {
	for i, x := range s.cur {
		if x == t {
			return i
		}
	}
	return -1
}
func (s *c19Shadow) remove(name string) {
	for i, t := range s.cur {
		if t.Name == name {
			s.cur = append(append([]*middleware.ProxyTarget(nil), s.cur[:i]...), s.cur[i+1:]...)
			return
		}
	}
}

func c19EncPick(s *c19Shadow, t *middleware.ProxyTarget) string {
	if t == nil {
		return "0"
	}
	id, ok := s.id[t]
	if !ok {
		return "9" // a pointer the harness never handed in
	}
	return wJoin("1", wStr(id.Name), wInt(id.URL))
}

// fairness of a window of first-time picks over a fixed target list
func c19Unfair(counts map[*middleware.ProxyTarget]int, cur []*middleware.ProxyTarget) string {
	if len(cur) == 0 {
		return ""
	}
	mn, mx := 1<<30, 0
	for _, t := range cur {
		c := counts[t]
		if c < mn {
			mn = c
		}
		if c > mx {
			mx = c
		}
	}
	if mx-mn > 1 {
		return fmt.Sprintf("round robin unfair: per-target first-pick counts over a window with fixed targets range from %d to %d", mn, mx)
	}
	return ""
}

// ---------------- kind 0: balancer op sequences ----------------

func c19RunOps(c *c19Case) (res Result) {
	sh := &c19Shadow{id: map[*middleware.ProxyTarget]c19Target{}}
	var init []*middleware.ProxyTarget
	for _, t := range c.Init {
		u, _ := url.Parse(fmt.Sprintf("http://h%d.test", t.URL))
		pt := &middleware.ProxyTarget{Name: t.Name, URL: u}
		sh.id[pt] = t
		init = append(init, pt)
	}
	sh.cur = append(sh.cur, init...)
	// the balancer keeps (and mutates) the slice it is given: hand it a private copy
	bal := c19NewBalancer(c.RR, append([]*middleware.ProxyTarget(nil), init...))
	e := echo.New()
	ctxs := map[int]echo.Context{}
	used := map[int]bool{}

	ops := []string{"0", wBool(c.RR), c19EncTargets(c.Init), wInt(len(c.Ops))}
	var obs []string
	oracle := ""
	fail := func(i int, msg string) {
		if oracle == "" {
			oracle = fmt.Sprintf("op %d: %s", i, msg)
		}
	}
	tagset := map[string]bool{}
	window := map[*middleware.ProxyTarget]int{}
	resetWindow := func() { window = map[*middleware.ProxyTarget]int{} }
	removed, retried, wrapped := false, false, false

	for i, op := range c.Ops {
		func() {
			defer func() {
				if r := recover(); r != nil {
					obs = append(obs, "2")
					fail(i, fmt.Sprintf("panic: %v", r))
					tagset["panic"] = true
				}
			}()
			switch op.K {
			case 0:
				u, _ := url.Parse(fmt.Sprintf("http://h%d.test", op.URL))
				pt := &middleware.ProxyTarget{Name: op.Name, URL: u}
				sh.id[pt] = c19Target{op.Name, op.URL}
				ops = append(ops, "0", wStr(op.Name), wInt(op.URL))
				existed := sh.has(op.Name)
				ok := bal.AddTarget(pt)
				obs = append(obs, wBool(ok))
				if ok == existed {
					fail(i, fmt.Sprintf("AddTarget(%q) returned %v although a target of that name existed=%v", op.Name, ok, existed))
				}
				if ok {
					sh.cur = append(sh.cur, pt)
					resetWindow()
					tagset["add-ok"] = true
				} else {
					tagset["add-dup"] = true
				}
			case 1:
				ops = append(ops, "1", wStr(op.Name))
				existed := sh.has(op.Name)
				ok := bal.RemoveTarget(op.Name)
				obs = append(obs, wBool(ok))
				if ok != existed {
					fail(i, fmt.Sprintf("RemoveTarget(%q) returned %v although a target of that name existed=%v", op.Name, ok, existed))
				}
				if ok {
					sh.remove(op.Name)
					resetWindow()
					removed = true
					tagset["remove-ok"] = true
				} else {
					tagset["remove-miss"] = true
				}
			case 2:
				ctx, ok := ctxs[op.Ctx]
				if !ok {
					ctx = e.NewContext(httptest.NewRequest(http.MethodGet, "/", nil), httptest.NewRecorder())
					ctxs[op.Ctx] = ctx
				}
				t := bal.Next(ctx)
				hint := "0"
				if !c.RR && t != nil {
					hint = "1 " + wStr(t.Name)
				}
				ops = append(ops, "2", wInt(op.Ctx), hint)
				obs = append(obs, c19EncPick(sh, t))
				if t == nil {
					tagset["next-nil"] = true
					if len(sh.cur) != 0 {
						fail(i, "Next returned nil although the balancer has targets")
					}
				} else {
					if len(sh.cur) == 0 {
						fail(i, "Next returned a target although all were removed")
					} else if !sh.member(t) {
						fail(i, fmt.Sprintf("Next returned %q which is not a current target (removed earlier or never added)", t.Name))
					}
					if c.RR {
						if !used[op.Ctx] {
							window[t]++
							if msg := c19Unfair(window, sh.cur); msg != "" {
								fail(i, msg)
							}
							if len(sh.cur) >= 2 && sh.pos(t) == 0 {
								wrapped = true
							}
						} else if len(sh.cur) >= 2 {
							retried = true
							tagset["next-retry"] = true
						}
					}
				}
				// the context carries a last index only if Next ran on it with >= 2 targets
				if len(sh.cur) >= 2 {
					used[op.Ctx] = true
				}
			}
		}()
	}
	var tags []string
	for t := range tagset {
		tags = append(tags, t)
	}
	if c.RR {
		tags = append(tags, "ops-rr")
	} else {
		tags = append(tags, "ops-random")
	}
	return Result{Ops: strings.Join(ops, " "), Obs: strings.Join(obs, " "), Oracle: oracle, Tags: tags,
		Nontrivial: removed && (retried || !c.RR) && (wrapped || !c.RR)}
}

// ---------------- dispatch ----------------

func c19Run(ci any) Result {
	c := ci.(*c19Case)
	switch c.Kind {
	case 0:
		return c19RunOps(c)
	case 1, 3, 5:
		return c19RunE2E(c)
	case 4:
		return c19RunConc(c)
	}
	return Result{Oracle: "unknown case kind"}
}

func c19Gen(r *rand.Rand, tier string) []any {
	nOps, nE2E, nWeird, nConc, nReal := 4000, 900, 60, 20, 120
	if tier == "thorough" {
		nOps, nE2E, nWeird, nConc, nReal = 150000, 30000, 2000, 600, 4000
	}
	var out []any
	for i := 0; i < nOps; i++ {
		out = append(out, c19GenOps(r, tier))
	}
	for i := 0; i < nE2E; i++ {
		out = append(out, c19GenE2E(r, tier, false))
	}
	for i := 0; i < nWeird; i++ {
		out = append(out, c19GenE2E(r, tier, true))
	}
	for i := 0; i < nConc; i++ {
		out = append(out, c19GenConc(r, tier))
	}
	for i := 0; i < nReal; i++ {
		out = append(out, c19GenReal(r, tier))
	}
	return out
}

var c19Names = []string{"a", "b", "c", "d", "e", "f", "A", "", "a ", "ab"}

func c19GenOps(r *rand.Rand, tier string) *c19Case {
	c := &c19Case{Kind: 0, RR: r.Intn(4) != 0}
	maxT, maxOps := 5, 40
	if tier == "thorough" && r.Intn(4) == 0 {
		maxT, maxOps = 8, 120
	}
	names := c19Names[:2+r.Intn(len(c19Names)-1)]
	nInit := r.Intn(maxT + 1)
	for i := 0; i < nInit; i++ {
		nm := names[r.Intn(len(names))]
		dup := false
		for _, t := range c.Init {
			if t.Name == nm {
				dup = true
			}
		}
		// duplicate names in the initial slice are possible with the real constructor; keep them
		// rare and only for round robin (the random balancer's draw is recovered by name)
		if dup && (!c.RR || r.Intn(8) != 0) {
			continue
		}
		c.Init = append(c.Init, c19Target{nm, r.Intn(6)})
	}
	nOps := 1 + r.Intn(maxOps)
	nctx := 0
	pNext := 3 + r.Intn(8)
	for i := 0; i < nOps; i++ {
		switch k := r.Intn(pNext + 3); {
		case k == 0 || (k == 1 && r.Intn(2) == 0):
			c.Ops = append(c.Ops, c19Op{K: 0, Name: names[r.Intn(len(names))], URL: r.Intn(6)})
		case k == 1 || k == 2:
			c.Ops = append(c.Ops, c19Op{K: 1, Name: names[r.Intn(len(names))]})
		default:
			// fresh context (first-time pick) or an old one (retry)
			if nctx == 0 || r.Intn(3) != 0 {
				c.Ops = append(c.Ops, c19Op{K: 2, Ctx: nctx})
				nctx++
			} else {
				id := nctx - 1
				if r.Intn(3) == 0 {
					id = r.Intn(nctx)
				}
				c.Ops = append(c.Ops, c19Op{K: 2, Ctx: id})
			}
		}
	}
	return c
}

func c19Shrink(ci any) []any {
	c := ci.(*c19Case)
	var out []any
	switch c.Kind {
	case 0:
		for i := range c.Ops {
			d := *c
			d.Ops = append(append([]c19Op(nil), c.Ops[:i]...), c.Ops[i+1:]...)
			out = append(out, &d)
		}
		for i := range c.Init {
			d := *c
			d.Init = append(append([]c19Target(nil), c.Init[:i]...), c.Init[i+1:]...)
			out = append(out, &d)
		}
	case 1, 3, 5:
		out = append(out, c19ShrinkE2E(c)...)
	case 4:
		for g := range c.Conc.Scripts {
			if len(c.Conc.Scripts) > 1 {
				d := *c
				d.Conc = &c19Conc{Scripts: append(append([][]c19Op(nil), c.Conc.Scripts[:g]...), c.Conc.Scripts[g+1:]...)}
				out = append(out, &d)
			}
			if n := len(c.Conc.Scripts[g]); n > 1 {
				d := *c
				sc := append([][]c19Op(nil), c.Conc.Scripts...)
				sc[g] = sc[g][:n/2]
				d.Conc = &c19Conc{Scripts: sc}
				out = append(out, &d)
			}
		}
	}
	return out
}

func init() {
	register(&Prop{
		ID: "C19",
		Rule: "kind 0: random AddTarget/RemoveTarget/Next op sequences (≤40 ops quick, ≤120 thorough; 0-5(8) initial targets; names from a small pool incl. empty, case and space look-alikes, rare duplicate initial names; Next with a fresh context = first-time pick, with a used context = retry) on NewRoundRobinBalancer (3/4) and NewRandomBalancer (1/4); " +
			"kind 1: end-to-end scenarios through e.ServeHTTP + ProxyWithConfig with 0-4 targets over 4 instrumented upstream servers / refused loopback ports, RetryCount -1..3, 0-3 non-overlapping glob rewrite rules, 1-10 steps (requests with methods, encoded paths, queries, header sets, bodies, cancelled client contexts; AddTarget/RemoveTarget between requests); kind 3: same, oracle only (overlapping rules, unclean rewrite results); kind 4: concurrent op scripts (2-6 goroutines, unique names, call intervals on a logical clock); kind 5: kind-1 scenarios with echo behind a real http.Server (request bodies are net/http server bodies; aimed at retry-with-body, F16; 1/5 of the requests are websocket upgrades over a raw TCP connection with payload in both directions; absolute-form targets through a proxy-style client); " +
			"kinds 1/3/5 draw the configuration: Proxy(balancer) (1/8) or ProxyWithConfig with custom RetryFilter (scripted answers by call, or by HTTPError code), ErrorHandler (maps to 503/418/502 or writes its own answer), Skipper (header based), ContextKey, TargetProvider balancer with scripted errors (HTTPError 503/502/429 or a plain error at NextTarget call 0-2), half of the rules via RegexRewrite, Transport (nil / *http.Transport / logging RoundTripper), a second echo instance sharing the balancer; per request 1/6 absolute-form request target (http/https, host, host:port, IPv6, 1/4 of these with upper-case scheme or userinfo), websocket upgrade through e.ServeHTTP (not hijackable), extension method PROPFIND; " +
			"non-trivial = (kind 0) a sequence with a successful removal, a retry pick and a wrap-around of the round-robin index, or (kind 1) a scenario in which a request was retried onto another target or a rewrite rule fired; distinct = distinct model op lines",
		New:            func() any { return &c19Case{} },
		Gen:            c19Gen,
		Run:            c19Run,
		Shrink:         c19Shrink,
		Known:          c19Known,
		Serial:         true,
		Correspondence: "C19.runOps / C19.runSteps (lean/EchoModel/C19.lean: addTarget, removeTarget, nextRR, nextRandom, loopG [= proxyLoop for the default configuration], Scenario.eff, rewriteReq/matchInput) vs middleware.NewRoundRobinBalancer/NewRandomBalancer + Proxy/ProxyWithConfig + proxyRaw + rewriteURL",
	})
}
