package main

// C19 — Proxy: balancers, retry loop, rewrite rules.
// Real code: middleware.NewRoundRobinBalancer / NewRandomBalancer (AddTarget, RemoveTarget,
// Next) and middleware.ProxyWithConfig driven through e.ServeHTTP against instrumented
// httptest upstream servers.  Model: lean/EchoModel/C19.lean (runOps, runSteps).
//
// Case kinds
//   0  balancer operation sequence, compared step by step with the model
//   1  end-to-end scenario (targets alive/dead, RetryCount, rewrite rules, requests, add/remove
//      between requests), compared with the model + model-free oracle
//   3  end-to-end, oracle only (overlapping rule sets / unclean rewrite results)
//   4  concurrent AddTarget/RemoveTarget/Next from several goroutines, oracle only: random scripts
//      (every name added once), removal storms, and simultaneous rounds (round 8: one call per
//      goroutine released by a spin barrier, SAME name contended — c19RunRounds)
//   6  balancer operation sequence like kind 0, but some Next calls are overlapped from inside: the
//      echo context handed to Next runs an AddTarget/RemoveTarget/Next of another goroutine at its
//      n-th access; compared with the model in the linearization order that was observed
//   5  end-to-end like kind 1, but echo runs behind a real http.Server (httptest.NewServer(e)) and is
//      called over TCP: the request body is net/http's server body (known finding F16); websocket
//      upgrades over a raw TCP connection (the upstream answers 101 and exchanges bytes through the
//      tunnel); absolute-form request targets sent by a client that uses echo as its proxy
//
// Kinds 1, 3, 5 vary the whole configuration (round 4): Proxy(balancer) vs ProxyWithConfig, a balancer
// that is a TargetProvider (with scripted errors), custom RetryFilter (scripted by call / by error
// code), custom ErrorHandler (maps / swallows), custom Skipper, ContextKey, rules handed over partly
// as RegexRewrite, Transport (plain *http.Transport / logging RoundTripper), a second echo instance
// sharing the balancer, request targets in absolute form (also upper-case scheme, userinfo).

import (
	"fmt"
	"math/rand"
	"net/http"
	"net/http/httptest"
	"net/url"
	"strings"
	"time"

	"github.com/labstack/echo/v4"
	"github.com/labstack/echo/v4/middleware"
)

type c19Target struct {
	Name string `json:"name"`
	URL  int    `json:"url"`
}

type c19Op struct {
	K    int    `json:"k"` // 0 AddTarget, 1 RemoveTarget, 2 Next
	Name string `json:"name,omitempty"`
	URL  int    `json:"url,omitempty"`
	Ctx  int    `json:"ctx,omitempty"`
	// kind 6, Next only: while this Next is running — at its At-th access (Get or Set) to the echo
	// context — another goroutine issues Op on the same balancer
	Hook *c19Hook `json:"hook,omitempty"`
}

type c19Hook struct {
	At int   `json:"at"`
	Op c19Op `json:"op"`
}

type c19Rule struct {
	Pat  string `json:"pat"`
	Tmpl string `json:"tmpl"`
}

type c19Resp struct {
	Status  int         `json:"status"`
	Headers [][2]string `json:"headers,omitempty"`
	Body    []byte      `json:"body,omitempty"`
}

type c19Req struct {
	Method string `json:"method"`
	URI    string `json:"uri"`
	// request target in absolute form (`GET http://host/path HTTP/1.1`) when Scheme != ""; Host is the
	// whole authority (userinfo, host, port) and may be EMPTY (`GET http:///path HTTP/1.1`, round 9)
	Scheme string `json:"scheme,omitempty"`
	Host   string `json:"host,omitempty"`
	// real-server kind: the absolute-form request line is written to a TCP connection byte for byte
	// (net/http's client cannot express an empty authority, an empty path, userinfo or a scheme that
	// is not "http"); always so when the authority is empty
	Raw bool `json:"raw,omitempty"`
	// websocket upgrade: Body = bytes the client sends after the 101, Resp.Body = bytes the upstream
	// sends back before it closes the tunnel
	WS bool `json:"ws,omitempty"`
	// carries the header the configured Skipper looks for
	Skip bool `json:"skip,omitempty"`
	// TargetProvider script, by NextTarget call of this request: 0 = a target, -1 = a plain error,
	// n > 0 = *echo.HTTPError with code n
	ProvErr []int `json:"prov_err,omitempty"`
	// the body is sent with unknown length (Request.ContentLength -1): a reader net/http cannot size
	// in-process, a chunked upload through the real server
	Chunked bool `json:"chunked,omitempty"`
	// 1: the request goes to the second echo instance (c19Case.TwoInst)
	Inst     int         `json:"inst,omitempty"`
	Headers  [][2]string `json:"headers,omitempty"`
	Body     []byte      `json:"body,omitempty"`
	Canceled bool        `json:"canceled,omitempty"`
	// by-construction expectation of what the upstream must receive as request target
	// (nil = unknown; several = any of them, for overlapping rule sets)
	Want []string `json:"want,omitempty"`
	// index of the rule the expectation was constructed from (0 = none, j+1 = rule j); lets the
	// shrinker drop rules no request depends on
	Rule int     `json:"rule,omitempty"`
	Resp c19Resp `json:"resp"`
}

// custom RetryFilter: kind 1 answers by call number (Answers, then Rest), kind 2 answers true
// for *echo.HTTPError with one of Codes
type c19Filter struct {
	Kind    int    `json:"kind"`
	Answers []bool `json:"answers,omitempty"`
	Rest    bool   `json:"rest,omitempty"`
	Codes   []int  `json:"codes,omitempty"`
}

type c19Step struct {
	K    int     `json:"k"` // 0 AddTarget, 1 RemoveTarget, 3 request
	Name string  `json:"name,omitempty"`
	URL  int     `json:"url,omitempty"`
	Req  *c19Req `json:"req,omitempty"`
}

type c19Conc struct {
	Scripts [][]c19Op `json:"scripts,omitempty"` // one op list per goroutine
	// simultaneous rounds (c19RunRounds): the ops of one round are issued by one goroutine each, all
	// released by one spin barrier; the next round starts when every call of this one has returned
	Rounds [][]c19Op `json:"rounds,omitempty"`
	// rounds: the list starts with Fill targets "i0" … "i<Fill-1>" (besides c19Case.Init)
	Fill int `json:"fill,omitempty"`
}

type c19Case struct {
	Kind  int         `json:"kind"`
	RR    bool        `json:"rr"`
	Init  []c19Target `json:"init"`
	Ops   []c19Op     `json:"ops,omitempty"`
	Retry int         `json:"retry,omitempty"`
	Alive []bool      `json:"alive,omitempty"` // by url id
	Rules []c19Rule   `json:"rules,omitempty"`
	Steps []c19Step   `json:"steps,omitempty"`
	Conc  *c19Conc    `json:"conc,omitempty"`
	// configuration surface (kinds 1, 3, 5)
	Ctor     int        `json:"ctor,omitempty"`      // 1 = middleware.Proxy(balancer): every field below and Retry/Rules are not in force
	Provider bool       `json:"provider,omitempty"`  // the balancer implements TargetProvider
	Filter   *c19Filter `json:"filter,omitempty"`    // nil = default RetryFilter
	Handler  int        `json:"handler,omitempty"`   // ErrorHandler: 0 nil, n > 0 answers HTTPError(n), -1 writes its own 203 and returns nil
	Skipper  bool       `json:"skipper,omitempty"`   // custom Skipper (skips requests carrying X-C19-Skip)
	CtxKey   string     `json:"ctx_key,omitempty"`   // ProxyConfig.ContextKey
	RegexCfg bool       `json:"regex_cfg,omitempty"` // rules are installed through ProxyConfig.RegexRewrite (compiled by the harness) instead of Rewrite
	// ProxyConfig.Transport: 0 nil, 1 a plain *http.Transport, 2 a RoundTripper that logs every round trip
	Transport int `json:"transport,omitempty"`
	// a second echo instance with its own middleware made from the same configuration and the SAME
	// balancer; requests with Inst = 1 go there
	TwoInst bool `json:"two_inst,omitempty"`
}

func c19NewBalancer(rr bool, ts []*middleware.ProxyTarget) middleware.ProxyBalancer {
	if rr {
		return middleware.NewRoundRobinBalancer(ts)
	}
	return middleware.NewRandomBalancer(ts)
}

func c19EncTargets(ts []c19Target) string {
	parts := []string{wInt(len(ts))}
	for _, t := range ts {
		parts = append(parts, wStr(t.Name), wInt(t.URL))
	}
	return strings.Join(parts, " ")
}

// shadow of the membership, kept by the harness from the RETURN VALUES of the real
// AddTarget/RemoveTarget only (used by the oracle, not by the model comparison)
type c19Shadow struct {
	cur []*middleware.ProxyTarget
	id  map[*middleware.ProxyTarget]c19Target
}

func (s *c19Shadow) has(name string) bool {
	for _, t := range s.cur {
		if t.Name == name {
			return true
		}
	}
	return false
}
func (s *c19Shadow) member(t *middleware.ProxyTarget) bool {
	for _, x := range s.cur {
		if x == t {
			return true
		}
	}
	return false
}
func (s *c19Shadow) pos(t *middleware.ProxyTarget) int {
	for i, x := range s.cur {
		if x == t {
			return i
		}
	}
	return -1
}
func (s *c19Shadow) remove(name string) {
	for i, t := range s.cur {
		if t.Name == name {
			s.cur = append(append([]*middleware.ProxyTarget(nil), s.cur[:i]...), s.cur[i+1:]...)
			return
		}
	}
}

func c19EncPick(s *c19Shadow, t *middleware.ProxyTarget) string {
	if t == nil {
		return "0"
	}
	id, ok := s.id[t]
	if !ok {
		return "9" // a pointer the harness never handed in
	}
	return wJoin("1", wStr(id.Name), wInt(id.URL))
}

// fairness of a window of first-time picks over a fixed target list
func c19Unfair(counts map[*middleware.ProxyTarget]int, cur []*middleware.ProxyTarget) string {
	if len(cur) == 0 {
		return ""
	}
	mn, mx := 1<<30, 0
	for _, t := range cur {
		c := counts[t]
		if c < mn {
			mn = c
		}
		if c > mx {
			mx = c
		}
	}
	if mx-mn > 1 {
		return fmt.Sprintf("round robin unfair: per-target first-pick counts over a window with fixed targets range from %d to %d", mn, mx)
	}
	return ""
}

// ---------------- kinds 0 and 6: balancer op sequences ----------------

// echo.Context that runs a callback at its n-th access (Get or Set) — the only window through
// which code running inside Balancer.Next can be interleaved deterministically with another call
type c19HookCtx struct {
	echo.Context
	n, at int
	fire  func()
}

func (h *c19HookCtx) access() {
	h.n++
	if h.n == h.at && h.fire != nil {
		f := h.fire
		h.fire = nil
		f()
	}
}
func (h *c19HookCtx) Get(key string) interface{} { h.access(); return h.Context.Get(key) }
func (h *c19HookCtx) Set(key string, val interface{}) {
	h.Context.Set(key, val)
	h.access()
}

// how long a Next that is inside the balancer waits for the intruding call: on a balancer whose
// operations are atomic the intruder CANNOT finish before Next has returned (it waits for the
// lock), so the length of this wait can never cause a false alarm, only a missed interleaving
const c19HookWait = 2 * time.Millisecond

// at most this many overlapping pairs of one case are tried in both orders (2^n model lines)
const c19MaxSwaps = 10

// raw outcome of one real balancer call
type c19Raw struct {
	ok       bool
	t        *middleware.ProxyTarget
	pt       *middleware.ProxyTarget // target handed to AddTarget
	panicked any
}

func c19RunOps(c *c19Case) (res Result) {
	sh := &c19Shadow{id: map[*middleware.ProxyTarget]c19Target{}}
	var init []*middleware.ProxyTarget
	for _, t := range c.Init {
		u, _ := url.Parse(fmt.Sprintf("http://h%d.test", t.URL))
		pt := &middleware.ProxyTarget{Name: t.Name, URL: u}
		sh.id[pt] = t
		init = append(init, pt)
	}
	sh.cur = append(sh.cur, init...)
	// the balancer keeps (and mutates) the slice it is given: hand it a private copy
	bal := c19NewBalancer(c.RR, append([]*middleware.ProxyTarget(nil), init...))
	e := echo.New()
	ctxs := map[int]echo.Context{}
	used := map[int]bool{}

	// one entry per real call, in accounting order: tokens for the model line and the observation;
	// swap = this call and the next one overlapped, so the model may take them in either order
	type c19OpEv struct {
		o, b []string
		swap bool
	}
	var evs []c19OpEv
	var ops, obs []string // tokens of the call being accounted
	oracle := ""
	fail := func(i int, msg string) {
		if oracle == "" {
			oracle = fmt.Sprintf("op %d: %s", i, msg)
		}
	}
	tagset := map[string]bool{}
	window := map[*middleware.ProxyTarget]int{}
	resetWindow := func() { window = map[*middleware.ProxyTarget]int{} }
	removed, retried, wrapped := false, false, false

	ctxOf := func(id int) echo.Context {
		ctx, ok := ctxs[id]
		if !ok {
			ctx = e.NewContext(httptest.NewRequest(http.MethodGet, "/", nil), httptest.NewRecorder())
			ctxs[id] = ctx
		}
		return ctx
	}
	// the real call (may run on another goroutine: touches nothing but the balancer and the result)
	call := func(op c19Op, ctx echo.Context) (raw c19Raw) {
		defer func() { raw.panicked = recover() }()
		switch op.K {
		case 0:
			u, _ := url.Parse(fmt.Sprintf("http://h%d.test", op.URL))
			raw.pt = &middleware.ProxyTarget{Name: op.Name, URL: u}
			raw.ok = bal.AddTarget(raw.pt)
		case 1:
			raw.ok = bal.RemoveTarget(op.Name)
		case 2:
			raw.t = bal.Next(ctx)
		}
		return raw
	}
	// bookkeeping in linearization order: model line, observation, shadow, oracle.  during: the
	// targets that were current when an overlapping Next started (nil = no overlap)
	account := func(i int, op c19Op, raw c19Raw, during []*middleware.ProxyTarget) {
		ops, obs = nil, nil
		defer func() { evs = append(evs, c19OpEv{o: ops, b: obs}) }()
		if raw.panicked != nil {
			switch op.K {
			case 0:
				ops = append(ops, "0", wStr(op.Name), wInt(op.URL))
			case 1:
				ops = append(ops, "1", wStr(op.Name))
			case 2:
				ops = append(ops, "2", wInt(op.Ctx), "0")
			}
			obs = append(obs, "2")
			fail(i, fmt.Sprintf("panic: %v", raw.panicked))
			tagset["panic"] = true
			return
		}
		switch op.K {
		case 0:
			sh.id[raw.pt] = c19Target{op.Name, op.URL}
			ops = append(ops, "0", wStr(op.Name), wInt(op.URL))
			existed := sh.has(op.Name)
			obs = append(obs, wBool(raw.ok))
			if raw.ok == existed {
				fail(i, fmt.Sprintf("AddTarget(%q) returned %v although a target of that name existed=%v", op.Name, raw.ok, existed))
			}
			if raw.ok {
				sh.cur = append(sh.cur, raw.pt)
				resetWindow()
				tagset["add-ok"] = true
			} else {
				tagset["add-dup"] = true
			}
		case 1:
			ops = append(ops, "1", wStr(op.Name))
			existed := sh.has(op.Name)
			obs = append(obs, wBool(raw.ok))
			if raw.ok != existed {
				fail(i, fmt.Sprintf("RemoveTarget(%q) returned %v although a target of that name existed=%v", op.Name, raw.ok, existed))
			}
			if raw.ok {
				sh.remove(op.Name)
				resetWindow()
				removed = true
				tagset["remove-ok"] = true
			} else {
				tagset["remove-miss"] = true
			}
		case 2:
			t := raw.t
			hint := "0"
			if !c.RR && t != nil {
				hint = "1 " + wStr(t.Name)
			}
			ops = append(ops, "2", wInt(op.Ctx), hint)
			obs = append(obs, c19EncPick(sh, t))
			// a Next that overlapped another call: the list it may have seen is the one before or the
			// one after that call
			nonEmpty := len(sh.cur) != 0
			member := t != nil && sh.member(t)
			if during != nil {
				nonEmpty = nonEmpty && len(during) != 0
				for _, x := range during {
					if x == t {
						member = true
					}
				}
			}
			if t == nil {
				tagset["next-nil"] = true
				if nonEmpty {
					fail(i, "Next returned nil although the balancer has targets")
				}
			} else {
				if len(sh.cur) == 0 && during == nil {
					fail(i, "Next returned a target although all were removed")
				} else if !member {
					fail(i, fmt.Sprintf("Next returned %q which is not a current target (removed earlier or never added)", t.Name))
				}
				if c.RR {
					if !used[op.Ctx] {
						window[t]++
						if msg := c19Unfair(window, sh.cur); msg != "" && during == nil {
							fail(i, msg)
						}
						if len(sh.cur) >= 2 && sh.pos(t) == 0 {
							wrapped = true
						}
					} else if len(sh.cur) >= 2 {
						retried = true
						tagset["next-retry"] = true
					}
				}
			}
			// the context carries a last index only if Next ran on it with >= 2 targets
			if len(sh.cur) >= 2 {
				used[op.Ctx] = true
			}
		}
	}

	for i, op := range c.Ops {
		if op.K != 2 || op.Hook == nil || c.Kind != 6 {
			account(i, op, call(op, ctxOf(op.Ctx)), nil)
			continue
		}
		// ---- a Next with an intruder: Hook.Op is issued from another goroutine while Next is inside
		intr := op.Hook.Op
		intr.Hook = nil
		if intr.K == 2 && intr.Ctx == op.Ctx {
			intr.Ctx = op.Ctx + 1000 // two goroutines never share an echo context
		}
		ictx := ctxOf(intr.Ctx)
		before := append([]*middleware.ProxyTarget{}, sh.cur...)
		var iraw c19Raw
		done := make(chan struct{})
		fired, inside := false, false
		hc := &c19HookCtx{Context: ctxOf(op.Ctx), at: op.Hook.At}
		hc.fire = func() {
			fired = true
			go func() {
				iraw = call(intr, ictx)
				close(done)
			}()
			select {
			case <-done:
				inside = true // the intruder ran to completion while Next was between two context accesses
			case <-time.After(c19HookWait):
			}
		}
		raw := call(op, hc)
		switch {
		case !fired:
			// Next did not touch the context that often: plain sequential order
			account(i, op, raw, nil)
			account(i, intr, call(intr, ictx), nil)
		case inside:
			// The intruder ran to completion between two context accesses of Next.  The two calls
			// overlap, so either order is a legal linearization (a Next that touches the context
			// outside its critical section is still atomic): which one is decided at the end, over the
			// whole history.  Bookkeeping order: Next first; the oracle gets both lists it may have seen.
			tagset["hook-intruder-inside"] = true
			after := append([]*middleware.ProxyTarget{}, before...)
			switch {
			case iraw.panicked != nil || !iraw.ok:
			case intr.K == 0:
				after = append(after, iraw.pt)
			case intr.K == 1:
				for k, x := range after {
					if x.Name == intr.Name {
						after = append(after[:k], after[k+1:]...)
						break
					}
				}
			}
			account(i, op, raw, after)
			account(i, intr, iraw, nil)
			evs[len(evs)-2].swap = true
		default:
			<-done
			tagset["hook-intruder-waited"] = true
			account(i, op, raw, nil)
			account(i, intr, iraw, nil)
		}
	}
	// model line and observation.  With overlapping pairs: the first assignment of orders under which
	// the model reproduces the whole observation (linearizability = SOME order explains the history);
	// if there is none the plain order is reported and the comparison fails.
	head := []string{"0", wBool(c.RR), c19EncTargets(c.Init), wInt(len(evs))}
	build := func(mask int) (string, string) {
		lo, bo := append([]string(nil), head...), []string(nil)
		bit := 0
		for k := 0; k < len(evs); k++ {
			if evs[k].swap && k+1 < len(evs) && bit < c19MaxSwaps {
				first, second := evs[k], evs[k+1]
				if mask>>bit&1 == 1 {
					first, second = second, first
				}
				bit++
				lo = append(append(lo, first.o...), second.o...)
				bo = append(append(bo, first.b...), second.b...)
				k++
				continue
			}
			lo = append(lo, evs[k].o...)
			bo = append(bo, evs[k].b...)
		}
		return strings.Join(lo, " "), strings.Join(bo, " ")
	}
	nSwap := 0
	for _, ev := range evs {
		if ev.swap && nSwap < c19MaxSwaps {
			nSwap++
		}
	}
	opsLine, obsLine := build(0)
	if nSwap > 0 {
		var lines, wants []string
		for mask := 0; mask < 1<<nSwap; mask++ {
			l, w := build(mask)
			lines, wants = append(lines, l), append(wants, w)
		}
		if got, err := runModel("C19", lines); err == nil {
			for k := range lines {
				if got[k] == wants[k] {
					opsLine, obsLine = lines[k], wants[k]
					break
				}
			}
		}
	}
	var tags []string
	for t := range tagset {
		tags = append(tags, t)
	}
	if c.RR {
		tags = append(tags, "ops-rr")
	} else {
		tags = append(tags, "ops-random")
	}
	if c.Kind == 6 {
		tags = append(tags, "ops-hooked")
	}
	return Result{Ops: opsLine, Obs: obsLine, Oracle: oracle, Tags: tags,
		Nontrivial: removed && (retried || !c.RR) && (wrapped || !c.RR)}
}

// ---------------- dispatch ----------------

func c19Run(ci any) Result {
	c := ci.(*c19Case)
	switch c.Kind {
	case 0, 6:
		return c19RunOps(c)
	case 1, 3, 5:
		return c19RunE2E(c)
	case 4:
		return c19RunConc(c)
	}
	return Result{Oracle: "unknown case kind"}
}

func c19Gen(r *rand.Rand, tier string) []any {
	nOps, nE2E, nWeird, nConc, nReal, nHook, nRounds := 4000, 900, 60, 40, 120, 250, 60
	if tier == "thorough" {
		nOps, nE2E, nWeird, nConc, nReal, nHook, nRounds = 150000, 30000, 2000, 1200, 4000, 4000, 600
	}
	var out []any
	for i := 0; i < nOps; i++ {
		out = append(out, c19GenOps(r, tier))
	}
	for i := 0; i < nE2E; i++ {
		out = append(out, c19GenE2E(r, tier, false))
	}
	for i := 0; i < nWeird; i++ {
		out = append(out, c19GenE2E(r, tier, true))
	}
	for i := 0; i < nHook; i++ { // before kind 4: its failures replay deterministically
		out = append(out, c19GenHooked(r, tier))
	}
	for i := 0; i < nRounds; i++ {
		out = append(out, c19GenRounds(r, tier))
	}
	for i := 0; i < nConc; i++ {
		out = append(out, c19GenConc(r, tier))
	}
	for i := 0; i < nReal; i++ {
		out = append(out, c19GenReal(r, tier))
	}
	return out
}

// kind 6: round-robin op sequences in which some Next calls are overlapped, from inside (through
// the echo context they touch), by an AddTarget / RemoveTarget / Next of another goroutine
func c19GenHooked(r *rand.Rand, tier string) *c19Case {
	c := &c19Case{Kind: 6, RR: r.Intn(10) != 0}
	names := []string{"a", "b", "c", "d", "e", "f"}
	nInit := 2 + r.Intn(4)
	for i := 0; i < nInit; i++ {
		c.Init = append(c.Init, c19Target{names[i], r.Intn(6)})
	}
	nOps := 2 + r.Intn(14)
	if tier == "thorough" && r.Intn(4) == 0 {
		nOps = 10 + r.Intn(40)
	}
	nctx, nHooks := 0, 0
	side := func() c19Op {
		switch r.Intn(4) {
		case 0:
			return c19Op{K: 0, Name: names[r.Intn(len(names))], URL: r.Intn(6)}
		case 1:
			return c19Op{K: 2, Ctx: 500 + r.Intn(3)}
		}
		return c19Op{K: 1, Name: names[r.Intn(len(names))]}
	}
	for i := 0; i < nOps; i++ {
		switch k := r.Intn(8); {
		case k == 0:
			c.Ops = append(c.Ops, c19Op{K: 0, Name: names[r.Intn(len(names))], URL: r.Intn(6)})
		case k == 1:
			c.Ops = append(c.Ops, c19Op{K: 1, Name: names[r.Intn(len(names))]})
		default:
			op := c19Op{K: 2, Ctx: nctx}
			if nctx > 0 && r.Intn(4) == 0 {
				op.Ctx = r.Intn(nctx) // a retry
			} else {
				nctx++
			}
			if r.Intn(2) == 0 && nHooks < c19MaxSwaps {
				op.Hook = &c19Hook{At: 1 + r.Intn(3), Op: side()}
				nHooks++
			}
			c.Ops = append(c.Ops, op)
		}
	}
	return c
}

var c19Names = []string{"a", "b", "c", "d", "e", "f", "A", "", "a ", "ab"}

func c19GenOps(r *rand.Rand, tier string) *c19Case {
	c := &c19Case{Kind: 0, RR: r.Intn(4) != 0}
	maxT, maxOps := 5, 40
	if tier == "thorough" && r.Intn(4) == 0 {
		maxT, maxOps = 8, 120
	}
	names := c19Names[:2+r.Intn(len(c19Names)-1)]
	nInit := r.Intn(maxT + 1)
	for i := 0; i < nInit; i++ {
		nm := names[r.Intn(len(names))]
		dup := false
		for _, t := range c.Init {
			if t.Name == nm {
				dup = true
			}
		}
		// duplicate names in the initial slice are possible with the real constructor; keep them
		// rare and only for round robin (the random balancer's draw is recovered by name)
		if dup && (!c.RR || r.Intn(8) != 0) {
			continue
		}
		c.Init = append(c.Init, c19Target{nm, r.Intn(6)})
	}
	nOps := 1 + r.Intn(maxOps)
	nctx := 0
	pNext := 3 + r.Intn(8)
	for i := 0; i < nOps; i++ {
		switch k := r.Intn(pNext + 3); {
		case k == 0 || (k == 1 && r.Intn(2) == 0):
			c.Ops = append(c.Ops, c19Op{K: 0, Name: names[r.Intn(len(names))], URL: r.Intn(6)})
		case k == 1 || k == 2:
			c.Ops = append(c.Ops, c19Op{K: 1, Name: names[r.Intn(len(names))]})
		default:
			// fresh context (first-time pick) or an old one (retry)
			if nctx == 0 || r.Intn(3) != 0 {
				c.Ops = append(c.Ops, c19Op{K: 2, Ctx: nctx})
				nctx++
			} else {
				id := nctx - 1
				if r.Intn(3) == 0 {
					id = r.Intn(nctx)
				}
				c.Ops = append(c.Ops, c19Op{K: 2, Ctx: id})
			}
		}
	}
	return c
}

func c19Shrink(ci any) []any {
	c := ci.(*c19Case)
	var out []any
	switch c.Kind {
	case 0, 6:
		for i := range c.Ops {
			d := *c
			d.Ops = append(append([]c19Op(nil), c.Ops[:i]...), c.Ops[i+1:]...)
			out = append(out, &d)
		}
		for i := range c.Ops {
			if c.Ops[i].Hook != nil {
				d := *c
				d.Ops = append([]c19Op(nil), c.Ops...)
				d.Ops[i].Hook = nil
				out = append(out, &d)
			}
		}
		for i := range c.Init {
			d := *c
			d.Init = append(append([]c19Target(nil), c.Init[:i]...), c.Init[i+1:]...)
			out = append(out, &d)
		}
	case 1, 3, 5:
		out = append(out, c19ShrinkE2E(c)...)
	case 4:
		for i := range c.Conc.Rounds {
			d := *c
			d.Conc = &c19Conc{Fill: c.Conc.Fill, Rounds: append(append([][]c19Op(nil), c.Conc.Rounds[:i]...), c.Conc.Rounds[i+1:]...)}
			out = append(out, &d)
		}
		for i, rd := range c.Conc.Rounds {
			if len(rd) > 2 {
				d := *c
				rs := append([][]c19Op(nil), c.Conc.Rounds...)
				rs[i] = rd[:len(rd)-1]
				d.Conc = &c19Conc{Fill: c.Conc.Fill, Rounds: rs}
				out = append(out, &d)
			}
		}
		if len(c.Conc.Rounds) > 0 && c.Conc.Fill > 0 {
			d := *c
			d.Conc = &c19Conc{Fill: c.Conc.Fill / 2, Rounds: c.Conc.Rounds}
			out = append(out, &d)
		}
		for g := range c.Conc.Scripts {
			if len(c.Conc.Scripts) > 1 {
				d := *c
				d.Conc = &c19Conc{Scripts: append(append([][]c19Op(nil), c.Conc.Scripts[:g]...), c.Conc.Scripts[g+1:]...)}
				out = append(out, &d)
			}
			if n := len(c.Conc.Scripts[g]); n > 1 {
				d := *c
				sc := append([][]c19Op(nil), c.Conc.Scripts...)
				sc[g] = sc[g][:n/2]
				d.Conc = &c19Conc{Scripts: sc}
				out = append(out, &d)
			}
		}
	}
	return out
}

func init() {
	register(&Prop{
		ID: "C19",
		Rule: "kind 0: random AddTarget/RemoveTarget/Next op sequences (≤40 ops quick, ≤120 thorough; 0-5(8) initial targets; names from a small pool incl. empty, case and space look-alikes, rare duplicate initial names; Next with a fresh context = first-time pick, with a used context = retry) on NewRoundRobinBalancer (3/4) and NewRandomBalancer (1/4); " +
			"kind 1: end-to-end scenarios through e.ServeHTTP + ProxyWithConfig with 0-4 targets over 4 instrumented upstream servers / refused loopback ports, RetryCount -1..3, 0-3 non-overlapping glob rewrite rules, 1-10 steps (requests with methods, encoded paths, queries, header sets, bodies, cancelled client contexts; AddTarget/RemoveTarget between requests); kind 3: same, oracle only (overlapping rules, unclean rewrite results); kind 4: concurrent op scripts (2-6 goroutines, unique names, call intervals on a logical clock); kind 5: kind-1 scenarios with echo behind a real http.Server (request bodies are net/http server bodies; aimed at retry-with-body, F16; 1/5 of the requests are websocket upgrades over a raw TCP connection with payload in both directions; absolute-form targets through a proxy-style client); " +
			"kind 6 (250 quick / 4000 thorough): round-robin op sequences (2-5 distinct targets, 2-15 ops, up to 50 thorough) in which half of the Next calls are overlapped from inside: the echo.Context handed to Next issues an AddTarget / RemoveTarget / Next (other context) from a second goroutine at its 1st-3rd access and waits 2 ms for it; the calls are handed to the model in an order under which it reproduces the whole observation (both orders of every overlapping pair are tried), the oracle accepts for the overlapped Next a member of the list before or after the intruder and nil only if one of the two lists is empty; kind 4 is half random scripts, half removal storms (24-63 targets, 140 thorough, 4-8 goroutines each removing its own share of the names with picks in between), and flags a nil from Next while some target was in the list during the whole call; " +
			"kind 4 simultaneous rounds (60 quick / 600 thorough cases of 10-39 rounds, 20-119 thorough): a list of 0-1500 (4000) filler targets, per round 2-8 goroutines issue ONE call each, released together by a spin barrier and joined before the next round — everybody AddTarget of one absent name (often followed by everybody RemoveTarget of it), everybody RemoveTarget of one name, adds and removes of one name mixed with picks, a burst of AddTarget of different new names, a burst of RemoveTarget of different names, free mixes; oracle per round and name: present before + successful adds = successful removes + present after (so never two successful AddTarget of an absent name, never two successful RemoveTarget of one entry), a refused AddTarget / RemoveTarget needs a moment at which the name was present / absent, a pick is a target that was on the list at some moment of the round, nil only if no target was there throughout; after each round the implied membership is probed sequentially (AddTarget of a member and RemoveTarget of a non-member answer false, a round-robin cycle over <= 48 members visits each once), at the end every member is removed exactly once and Next answers nil; " +
			"rewrite rules for the SHORTEST and the LONGEST targets (round 8): 1/8 of the kind-1/5 cases have a catch-all rule as their only rule (`/*`, `^/*`, `*`, `^*`, `/`, the empty pattern), 1/8 have 1-3 exact rules for the shortest targets (`^/`, `^`, `^/?*`) beside the marker rules; their requests are `/`, `/?`, `/?x=1`, `/a`, `/a/`, `/%2F`, … and path-less absolute-form targets (``, `?`, `?x=1` after the authority: 1/3 of the absolute-form requests of these cases), expectation written down per rule shape; 1/40 of all captures and 1/12 of the catch-all targets carry a run of 63/64/65, 255-257, 1023/1025, 2049, 4095/4097 or 8200 bytes; " +
			"request bodies: 1/3 of the requests with a body-carrying method are sent with UNKNOWN length (a reader net/http cannot size: ContentLength -1 in-process, a chunked upload through the real server; also zero bytes); " +
			"kinds 1/3/5 draw the configuration: Proxy(balancer) (1/8) or ProxyWithConfig with custom RetryFilter (scripted answers by call, or by HTTPError code), ErrorHandler (maps to 503/418/502 or writes its own answer), Skipper (header based), ContextKey, TargetProvider balancer with scripted errors (HTTPError 503/502/429 or a plain error at NextTarget call 0-2), half of the rules via RegexRewrite, Transport (nil / *http.Transport / logging RoundTripper), a second echo instance sharing the balancer; per request 1/6 absolute-form request target (http/https, host, host:port, IPv6, 1/4 of these with upper-case scheme or userinfo; round 9: 1/3 of these with an authority that is EMPTY (`http:///p`, `http://`, `http://?x=1`), one byte, a bare port, an IPv6 literal without port, userinfo without host; path-less targets whose query has slashes or carries a path a rule is made for; the real-server kind writes half of the absolute-form request lines (all with an empty authority) to a TCP connection byte for byte, so empty path, userinfo, upper-case and https schemes reach net/http's server parser too), websocket upgrade through e.ServeHTTP (not hijackable), extension method PROPFIND; " +
			"non-trivial = (kind 0) a sequence with a successful removal, a retry pick and a wrap-around of the round-robin index, or (kind 1) a scenario in which a request was retried onto another target or a rewrite rule fired; distinct = distinct model op lines",
		New:            func() any { return &c19Case{} },
		Gen:            c19Gen,
		Run:            c19Run,
		Shrink:         c19Shrink,
		Known:          c19Known,
		Tolerable:      c19Tolerable,
		Serial:         true,
		Correspondence: "C19.runOps / C19.runSteps (lean/EchoModel/C19.lean: addTarget, removeTarget, nextRR, nextRandom, loopG [= proxyLoop for the default configuration], Scenario.eff, rewriteReq/matchInput) vs middleware.NewRoundRobinBalancer/NewRandomBalancer + Proxy/ProxyWithConfig + proxyRaw + rewriteURL",
	})
}
