package main

import (
	"flag"
	"fmt"
	"os"
	"sort"
)

func main() {
	if len(os.Args) < 2 {
		fmt.Fprintln(os.Stderr, "usage: echoharness <property> [flags]")
		os.Exit(2)
	}
	id := os.Args[1]
	if id == "list" {
		var ids []string
		for k := range registry {
			ids = append(ids, k)
		}
		sort.Strings(ids)
		for _, k := range ids {
			fmt.Println(k)
		}
		return
	}
	fs := flag.NewFlagSet("echoharness", flag.ExitOnError)
	var o options
	fs.StringVar(&o.tier, "tier", "quick", "quick|thorough")
	fs.Int64Var(&o.seed, "seed", 1, "PRNG seed")
	fs.StringVar(&o.verifDir, "verif", "/verif", "verif directory")
	fs.StringVar(&o.statsOut, "stats", "", "stats output file")
	fs.StringVar(&o.replayIn, "replay", "", "replay file")
	fs.StringVar(&modelBin, "model", "/verif/lean/.lake/build/bin/echomodel", "model driver binary")
	fs.StringVar(&inflightDir, "inflight", "", "directory for in-flight case records")
	fs.IntVar(&o.maxReport, "max-report", 3, "max violations written out")
	fs.Parse(os.Args[2:])
	p, ok := registry[id]
	if !ok {
		fmt.Fprintln(os.Stderr, "unknown property", id)
		os.Exit(2)
	}
	if o.replayIn != "" {
		os.Exit(replay(p, o))
	}
	os.Exit(check(p, o))
}
