package main

// C16 — static file serving never leaves its root.
// Real code: middleware.StaticWithConfig (e.Use / e.Pre / group mounts, default and custom
// http.FileSystem), Echo.Static / StaticFS / Group.Static / StaticFS, FileFS / File, driven
// through e.ServeHTTP against a marker tree created at run time.
// Model: lean/EchoModel/C16.lean (mw, staticDir, fsFile).

import (
	"errors"
	"fmt"
	"html"
	"io"
	"io/fs"
	"math/rand"
	"net/http"
	"net/http/httptest"
	"net/url"
	"os"
	"path"
	"path/filepath"
	"regexp"
	"sort"
	"strings"
	"sync"
	"testing/fstest"

	"github.com/labstack/echo/v4"
	"github.com/labstack/echo/v4/middleware"
)

// ---------- the marker tree ----------

type c16Entry struct {
	rel  string // relative to the work directory
	dir  bool
	id   int // files only
	body string
}

var (
	c16Once    sync.Once
	c16Work    string // work directory W
	c16Root    string // W/public
	c16Tree    []c16Entry
	c16ByBody  = map[string]int{}
	c16ByRel   = map[string]*c16Entry{}
	c16MapFS   fstest.MapFS
	c16TreeW   string // wire form of the tree
	c16InitErr error
	// round 8: a directory that is NOT always there (see c16LateLayout)
	c16LateTree  []c16Entry
	c16LateByRel = map[string]*c16Entry{}
	c16LateW     string // wire form: n (path node)*
)

const c16RootName = "public"

// files inside the root carry MARK-IN, everything else under the work directory MARK-OUT
var c16Layout = []string{
	"index.html", "secret", "secret.txt", "publicsecret", "public.bak/", "public.bak/x.txt", "static/", "static/s.txt", "static/index.html",
	"public/", "public/index.html", "public/a.txt", "public/secret.txt", "public/dir/", "public/dir/index.html", "public/dir/b.txt",
	"public/dir/sub/", "public/dir/sub/c.txt", "public/empty/", "public/static/", "public/static/d.txt", "public/static/index.html",
	"public/.../", "public/.../t.txt", "public/.../secret", "public/sp ace.txt", "public/100%.txt", "public/pct%2e.txt",
	"public/\xc3\xa9.txt", "public/.hidden", "public/x.y.z", "public/dir/public/", "public/dir/public/p.txt",
	// unusual but legal bytes: characters with a meaning in URLs (query / form encoding, sub-delims,
	// delimiters), each with a look-alike sibling that a wrong decoding would reach instead
	"public/a+b.txt", "public/a b.txt", "public/c++/", "public/c++/n.txt", "public/c  /", "public/c  /n.txt", "public/q&a=1;x.txt",
	"public/semi;v=1.txt", "public/semi", "public/wh?at#.txt", "public/wh", "public/tilde~$!'(),@.txt", "public/star*.txt", "public/colon:x.txt", "public/b\\s.txt", "public/b/", "public/b/bs.txt",
	"a+b.txt", "a b.txt",
	// two adjacent dots INSIDE a name are not a dot-dot element
	"public/release..notes.txt", "public/..hidden", "public/2024...json", "public/v1..2/", "public/v1..2/readme.txt", "public/dots../", "public/dots../dd.txt",
	// a path parameter value in front of a static mount may itself name something under the root
	"public/acme", "public/1/", "public/1/index.html",
	// another directory with the same shape: where a root would land if it were resolved against a later
	// working directory, or below a later Echo.Filesystem
	"elsewhere/", "elsewhere/index.html", "elsewhere/a.txt", "elsewhere/public/", "elsewhere/public/a.txt", "elsewhere/public/index.html",
	"elsewhere/public/dir/", "elsewhere/public/dir/b.txt", "elsewhere/static/", "elsewhere/static/d.txt", "elsewhere/dir/", "elsewhere/dir/b.txt",
}

// c16LateLayout: the directory W/late and its content exist only while a case that asks for them runs (child
// process with working directory W, which runs its cases one after the other): a root that does not exist when a
// route is registered / a middleware is constructed and is created later, or that is removed again.  `late/secret.txt`,
// `late/index.html`, `late/a+b.txt` have the names of files of the working directory W (what a bare os.Open(name)
// would find instead).  The entries are not part of c16Tree / c16TreeW / c16MapFS; the model receives them as the
// `late` tail of an op line together with the moments at which they exist.
var c16LateLayout = []string{"late/", "late/l.txt", "late/index.html", "late/secret.txt", "late/a+b.txt", "late/sub/", "late/sub/m.txt", "late/sub/index.html"}

const c16LateDir = "late"

func c16VerifDir() string {
	for i, a := range os.Args {
		if (a == "-verif" || a == "--verif") && i+1 < len(os.Args) {
			return os.Args[i+1]
		}
		if strings.HasPrefix(a, "-verif=") {
			return strings.TrimPrefix(a, "-verif=")
		}
	}
	if d := os.Getenv("VERIF_DIR"); d != "" {
		return d
	}
	return "/verif"
}

func c16Setup() {
	c16Once.Do(func() {
		attach := os.Getenv(c16ChildEnv) // a child process uses the tree its parent created
		w := attach
		if attach == "" {
			base, err := filepath.Abs(filepath.Join(c16VerifDir(), ".work"))
			if err != nil {
				c16InitErr = err
				return
			}
			if err := os.MkdirAll(base, 0o755); err != nil {
				c16InitErr = err
				return
			}
			w, err = os.MkdirTemp(base, "c16-tree-")
			if err != nil {
				c16InitErr = err
				return
			}
		}
		c16Work = w
		c16Root = filepath.Join(w, c16RootName)
		l := append([]string(nil), c16Layout...)
		sort.Slice(l, func(i, j int) bool { return strings.TrimSuffix(l[i], "/") < strings.TrimSuffix(l[j], "/") })
		c16MapFS = fstest.MapFS{}
		id := 0
		for _, p := range l {
			if strings.HasSuffix(p, "/") {
				rel := strings.TrimSuffix(p, "/")
				if attach == "" {
					if err := os.MkdirAll(filepath.Join(w, rel), 0o755); err != nil {
						c16InitErr = err
						return
					}
				}
				c16Tree = append(c16Tree, c16Entry{rel: rel, dir: true})
				c16MapFS[rel] = &fstest.MapFile{Mode: fs.ModeDir | 0o755}
				continue
			}
			mark := "MARK-OUT"
			if strings.HasPrefix(p, c16RootName+"/") {
				mark = "MARK-IN"
			}
			body := fmt.Sprintf("%s-%d:%s\n", mark, id, p)
			if attach == "" {
				if err := os.WriteFile(filepath.Join(w, p), []byte(body), 0o644); err != nil {
					c16InitErr = err
					return
				}
			}
			c16Tree = append(c16Tree, c16Entry{rel: p, id: id, body: body})
			c16MapFS[p] = &fstest.MapFile{Data: []byte(body), Mode: 0o644}
			c16ByBody[body] = id
			id++
		}
		parts := []string{wInt(len(c16Tree))}
		for i := range c16Tree {
			e := &c16Tree[i]
			c16ByRel[e.rel] = e
			if e.dir {
				parts = append(parts, wStr(e.rel), "0")
			} else {
				parts = append(parts, wStr(e.rel), wInt(e.id+1))
			}
		}
		c16TreeW = strings.Join(parts, " ")
		lparts := []string{wInt(len(c16LateLayout))}
		ll := append([]string(nil), c16LateLayout...)
		sort.Slice(ll, func(i, j int) bool { return strings.TrimSuffix(ll[i], "/") < strings.TrimSuffix(ll[j], "/") }) // listing order, as the main tree
		for _, p := range ll {
			if strings.HasSuffix(p, "/") {
				rel := strings.TrimSuffix(p, "/")
				c16LateTree = append(c16LateTree, c16Entry{rel: rel, dir: true})
				lparts = append(lparts, wStr(rel), "0")
				continue
			}
			body := fmt.Sprintf("MARK-OUT-%d:%s\n", id, p)
			c16LateTree = append(c16LateTree, c16Entry{rel: p, id: id, body: body})
			c16ByBody[body] = id
			lparts = append(lparts, wStr(p), wInt(id+1))
			id++
		}
		for i := range c16LateTree {
			c16LateByRel[c16LateTree[i].rel] = &c16LateTree[i]
		}
		c16LateW = strings.Join(lparts, " ")
		// the listing rule of the oracle relies on these names existing only outside the root
		for i := range c16Tree {
			e := &c16Tree[i]
			b := path.Base(e.rel)
			if e.dir {
				b += "/"
			}
			if c16OutsideNames[b] && strings.HasPrefix(e.rel, c16RootName+"/") {
				c16InitErr = fmt.Errorf("layout error: %q under the root has a name reserved for entries outside it", e.rel)
			}
		}
		// The harness process never changes its working directory: configurations whose root is
		// relative to the working directory run in child processes (c16_child.go).
	})
}

func c16Cleanup() {
	c16StopChildren()
	if c16Work != "" && strings.Contains(c16Work, "c16-tree-") && os.Getenv(c16ChildEnv) == "" {
		os.RemoveAll(c16Work)
	}
}

// ---------- cases ----------

type c16Case struct {
	Kind int `json:"kind"` // 0 Static middleware, 1 Echo/Group Static(FS), 2 FileFS / File route
	// middleware
	Mount      int    `json:"mount"` // 0 e.Use, 1 e.Pre, 2 group /static, 3 e.Use with catch-all GET /*, 4 group /files + route, 5 e.Use with GET /st*
	FS         int    `json:"fs"`    // see c16MwFS
	Index      string `json:"index"`
	HTML5      bool   `json:"html5"`
	Browse     bool   `json:"browse"`
	IgnoreBase bool   `json:"ignore_base"`
	// Static(FS) routes
	Variant int    `json:"variant"` // see c16RunDir
	Prefix  string `json:"prefix"`
	// file routes
	File string `json:"file"`
	// request
	Path    lat1 `json:"path"`
	RawPath lat1 `json:"raw_path"`
	// round 4
	Ctor    bool   `json:"ctor,omitempty"`     // Kind 0: middleware.Static(root) instead of StaticWithConfig
	Skip    int    `json:"skip,omitempty"`     // Kind 0: Skipper 0 nil, 1 answers false, 2 answers true, 3 skips URL paths under /api
	Fault   int    `json:"fault,omitempty"`    // injected into the files of a custom file system: 1 Stat of files fails, 2 Stat of directories fails, 3 Readdir fails, 4 files are no io.Seeker
	SubRoot string `json:"sub_root,omitempty"` // dir variants 13..15: the root given to MustSubFS / Static below os.DirFS(W)
	Disp    lat1   `json:"disp,omitempty"`     // file variants 4, 5: display name of Attachment / Inline
	Warm    lat1   `json:"warm,omitempty"`     // a request path served first through the same Echo instance
	// round 7: WHEN a configuration value is read
	Chdir    string `json:"chdir,omitempty"`     // child-process set-ups only: the process changes its working directory to W/<Chdir> ...
	ChdirAt  int    `json:"chdir_at,omitempty"`  // ... 1 after echo.New() (before the routes are registered), 2 after the registration (before the requests)
	Reassign int    `json:"reassign,omitempty"`  // Echo.Filesystem is reassigned AFTER the routes were registered, before the first request: 1 = os.DirFS(W/elsewhere), 2 = MustSubFS(e.Filesystem, "elsewhere")
	PVal    string `json:"pval,omitempty"`     // dir variants 26..29: value of the path parameter in front of the static mount
	// round 8: WHETHER the root exists at the moments a configuration is read
	Second int  `json:"second,omitempty"` // Kind 1, Kind 2 (variants 0, 1): ANOTHER static route on the same Echo, rooted at W/elsewhere/public (a tree with the same names), see c16Second
	Late string `json:"late,omitempty"` // four characters 0/1: the directory W/late (with its files) exists at echo.New() / when the route is registered (the middleware constructed) / at the first request / at the request; "" = "0000"
}

// c16UsesLate: the configurations whose root is named by SubRoot / lies in the directory that comes and goes.
func c16UsesLate(c *c16Case) bool {
	switch c.Kind {
	case 0:
		return c.FS == 16
	case 1:
		return c.Variant >= 30 && c.Variant <= 35
	case 2:
		return c.Variant == 10 || c.Variant == 11
	}
	return false
}

func (c *c16Case) lateAt(moment int) bool {
	return c16UsesLate(c) && len(c.Late) == 4 && c.Late[moment] == '1'
}

// lateW: the tail of an op line for the model: presence at the four moments and the entries.
func (c *c16Case) lateW() string {
	return wJoin(wBool(c.lateAt(0)), wBool(c.lateAt(1)), wBool(c.lateAt(2)), wBool(c.lateAt(3)), c16LateW)
}

// c16LateSetup makes W/late exist or not at the given moment (child process only: its cases run one after the
// other; the harness process itself never touches the tree after c16Setup).
func c16LateSetup(c *c16Case) (step func(moment int), cleanup func()) {
	if !c16InChild() || !c16UsesLate(c) {
		return func(int) {}, func() {}
	}
	dir := filepath.Join(c16Work, c16LateDir)
	there := false
	set := func(want bool) {
		if want == there {
			return
		}
		there = want
		if !want {
			os.RemoveAll(dir)
			return
		}
		for i := range c16LateTree {
			e := &c16LateTree[i]
			if e.dir {
				os.MkdirAll(filepath.Join(c16Work, e.rel), 0o755)
			} else {
				os.WriteFile(filepath.Join(c16Work, e.rel), []byte(e.body), 0o644)
			}
		}
	}
	os.RemoveAll(dir)
	return func(moment int) { set(c.lateAt(moment)) }, func() { os.RemoveAll(dir) }
}

// c16Find: the entry of the tree a path relative to W names when the request of case c is served.
func c16Find(c *c16Case, rel string) (*c16Entry, bool) {
	if e, ok := c16ByRel[rel]; ok {
		return e, true
	}
	if c.lateAt(3) {
		e, ok := c16LateByRel[rel]
		return e, ok
	}
	return nil, false
}

func (c *c16Case) faultsW() string {
	return wJoin(wBool(c.Fault == 1), wBool(c.Fault == 2), wBool(c.Fault == 3), wBool(c.Fault == 4))
}

// ---------- file systems whose files fail ----------

var errC16Injected = errors.New("injected failure")

type c16FaultHTTP struct {
	inner http.FileSystem
	mode  int
}

func (f c16FaultHTTP) Open(name string) (http.File, error) {
	h, err := f.inner.Open(name)
	if err != nil || f.mode == 0 {
		return h, err
	}
	return c16FaultHTTPFile{h, f.mode}, nil
}

type c16FaultHTTPFile struct {
	http.File
	mode int
}

func (f c16FaultHTTPFile) Stat() (fs.FileInfo, error) {
	fi, err := f.File.Stat()
	if err != nil {
		return fi, err
	}
	if f.mode == 1 && !fi.IsDir() || f.mode == 2 && fi.IsDir() {
		return nil, errC16Injected
	}
	return fi, nil
}

func (f c16FaultHTTPFile) Readdir(n int) ([]fs.FileInfo, error) {
	if f.mode == 3 {
		return nil, errC16Injected
	}
	return f.File.Readdir(n)
}

type c16FaultFS struct {
	inner fs.FS
	mode  int
}

func (f c16FaultFS) Open(name string) (fs.File, error) {
	h, err := f.inner.Open(name)
	if err != nil || f.mode == 0 {
		return h, err
	}
	if sk, ok := h.(io.Seeker); ok && f.mode != 4 {
		return c16FaultSeekFile{c16FaultPlainFile{h, f.mode}, sk}, nil
	}
	return c16FaultPlainFile{h, f.mode}, nil // hides Seek (like the files of a zip.Reader)
}

type c16FaultPlainFile struct {
	fs.File
	mode int
}

func (f c16FaultPlainFile) Stat() (fs.FileInfo, error) {
	fi, err := f.File.Stat()
	if err != nil {
		return fi, err
	}
	if f.mode == 1 && !fi.IsDir() || f.mode == 2 && fi.IsDir() {
		return nil, errC16Injected
	}
	return fi, nil
}

type c16FaultSeekFile struct {
	c16FaultPlainFile
	io.Seeker
}

type c16RecHTTP struct {
	inner http.FileSystem
	names *[]string
}

func (r c16RecHTTP) Open(name string) (http.File, error) {
	*r.names = append(*r.names, name)
	return r.inner.Open(name)
}

// c16RecFS implements only Open, so fs.Stat goes through Open as well.
type c16RecFS struct {
	inner fs.FS
	names *[]string
}

func (r c16RecFS) Open(name string) (fs.File, error) {
	*r.names = append(*r.names, name)
	return r.inner.Open(name)
}

func c16Sub(f fs.FS, dir string) fs.FS {
	s, err := fs.Sub(f, dir)
	if err != nil {
		panic(err)
	}
	return s
}

type c16Routing struct {
	seen                 bool
	cPath, star, urlPath string
	nextCalled, nextOK   bool
	nextOther            bool // next failed with something else than 404 Not Found
}

func (rt *c16Routing) rec(next echo.HandlerFunc) echo.HandlerFunc {
	return func(c echo.Context) error {
		rt.seen = true
		rt.cPath, rt.star, rt.urlPath = c.Path(), c.Param("*"), c.Request().URL.Path
		return next(c)
	}
}

func (rt *c16Routing) tail(next echo.HandlerFunc) echo.HandlerFunc {
	return func(c echo.Context) error {
		rt.nextCalled = true
		err := next(c)
		rt.nextOK = err == nil
		var he *echo.HTTPError
		rt.nextOther = err != nil && !(errors.As(err, &he) && he.Code == http.StatusNotFound)
		return err
	}
}

const c16NextBody = "OK-NEXT"

func c16OK(c echo.Context) error { return c.String(http.StatusOK, c16NextBody) }

var c16Anchor = regexp.MustCompile(`<a class="(?:dir|file)" href="[^"]*">([^<]*)</a>`)
// the template puts the name between "<header>\n\t\t" and "\n\t</header>"; a name's own leading or
// trailing white space belongs to the title
var c16Header = regexp.MustCompile(`(?s)<header>\n\t\t(.*?)\n\t</header>`)

// c16Outcome renders the response in the model's vocabulary.
func c16Outcome(kind int, code int, body string, panicked bool) (string, []string) {
	if panicked {
		return "panic", nil
	}
	switch {
	case code == http.StatusOK:
		if body == c16NextBody {
			return "next-ok", nil
		}
		if id, ok := c16ByBody[body]; ok {
			return "file " + wInt(id), nil
		}
		if strings.Contains(body, "<!DOCTYPE html>") && strings.Contains(body, "<header>") {
			title := ""
			if m := c16Header.FindStringSubmatch(body); m != nil {
				title = html.UnescapeString(m[1])
			}
			var names []string
			for _, m := range c16Anchor.FindAllStringSubmatch(body, -1) {
				names = append(names, html.UnescapeString(m[1]))
			}
			sort.Slice(names, func(i, j int) bool { return strings.TrimSuffix(names[i], "/") < strings.TrimSuffix(names[j], "/") })
			parts := []string{"list", wStr(title), wInt(len(names))}
			for _, n := range names {
				parts = append(parts, wStr(n))
			}
			return strings.Join(parts, " "), names
		}
		return fmt.Sprintf("other-200-%d-bytes", len(body)), nil
	case code == http.StatusNotFound:
		if kind == 0 {
			return "next-404", nil
		}
		return "404", nil
	case code == http.StatusInternalServerError:
		return "err500", nil
	case code == http.StatusMovedPermanently:
		return "redirect", nil
	}
	return fmt.Sprintf("other-%d", code), nil
}

// names that only exist in directories outside the root
var c16OutsideNames = map[string]bool{"public.bak/": true, "publicsecret": true, "s.txt": true, "x.txt": true}

func c16Serve(e *echo.Echo, c *c16Case) (code int, body string, panicked bool, pmsg string) {
	code, body, _, panicked, pmsg = c16ServeH(e, c)
	return
}

func c16ServeH(e *echo.Echo, c *c16Case) (code int, body string, hdr http.Header, panicked bool, pmsg string) {
	req := httptest.NewRequest(http.MethodGet, "/", nil)
	// "@W@" in a request path stands for the (run-specific) absolute name of the work directory
	abs := func(s lat1) string { return strings.ReplaceAll(string(s), c16AbsW, c16Work) }
	req.URL = &url.URL{Path: abs(c.Path), RawPath: abs(c.RawPath)}
	req.RequestURI = abs(c.Path)
	rec := httptest.NewRecorder()
	func() {
		defer func() {
			if p := recover(); p != nil {
				panicked, pmsg = true, fmt.Sprint(p)
			}
		}()
		e.ServeHTTP(rec, req)
	}()
	return rec.Code, rec.Body.String(), rec.Header(), panicked, pmsg
}

const c16AbsW = "/@W@"

var c16Mark = regexp.MustCompile(`MARK-(?:IN|OUT)-\d+:([^\n]*)`)

// c16Oracle evaluates the property itself on the response.  rootRel is the configured root
// relative to the work directory ("public" unless the case configures a deeper or higher one,
// "" = the work directory itself); mountPrefix "\x00" = no positive expectation.
func c16Oracle(c *c16Case, mountPrefix, rootRel string, code int, body string, listed []string, isList bool) string {
	for _, m := range c16Mark.FindAllStringSubmatch(body, -1) {
		rel := m[1]
		if rootRel != "" && rel != rootRel && !strings.HasPrefix(rel, rootRel+"/") {
			return fmt.Sprintf("response (status %d) contains the content of a file outside the root %q: %q", code, rootRel, c16Short(m[0]))
		}
	}
	if rootRel == c16RootName && strings.Contains(body, "MARK-OUT") {
		return fmt.Sprintf("response (status %d) contains the content of a file outside the root: %q", code, c16Short(body[strings.Index(body, "MARK-OUT"):]))
	}
	if isList && rootRel != "" {
		for _, n := range listed {
			if c16OutsideNames[n] {
				return fmt.Sprintf("response lists a directory outside the root (entry %q among %q)", n, listed)
			}
		}
	}
	// a request naming an existing regular file under the root by its clean path gets exactly its bytes
	if mountPrefix != "\x00" && c.RawPath == "" {
		p := string(c.Path)
		if strings.HasPrefix(p, mountPrefix+"/") {
			rel := strings.TrimPrefix(p, mountPrefix+"/")
			if rel != "" && path.Clean(rel) == rel && rel != ".." && !strings.HasPrefix(rel, "../") {
				full := rel
				if rootRel != "" {
					full = rootRel + "/" + rel
				}
				if e, ok := c16Find(c, full); ok && !e.dir {
					if code != http.StatusOK || body != e.body {
						return fmt.Sprintf("existing file %q requested by its clean path %q: status %d, body %q", rel, p, code, c16Short(body))
					}
				}
			}
		}
	}
	return ""
}

func c16Short(s string) string {
	if len(s) > 60 {
		return s[:60] + "..."
	}
	return s
}

var c16MwMountPrefix = []string{"", "", "/static", "", "/files", "/st", "", "/a.txt/static"}

// mount 6: two instances of the middleware in one chain (the second one rooted at public/static,
// inside the first one's root); the model describes the first instance, the second is its `next`
// mount 7: group /:tenant/static — the mount is below a path parameter whose value (a.txt) names a file under the root
const c16NumMounts = 8

// middleware file systems: (recording?, rooted at W?, Root option)
//
//	0 default: Root = absolute root directory, no Filesystem
//	1 default: Root = "public" relative to the working directory
//	2 rec(http.Dir(root)), Root ""
//	3 rec(http.Dir(W)), Root "public"
//	4 rec(http.FS(os.DirFS(root))), Root ""
//	5 rec(http.FS(os.DirFS(W))), Root "public"
//	6 rec(http.FS(MapFS of W)), Root "public"
//	7 rec(http.FS(fs.Sub(MapFS, "public"))), Root "."
//	8 default: Root = "./public/" relative, unclean
//	9 default: Root = "" (-> "."), working directory = the web root, secrets in its parent
//	10 default: Root = "./", working directory = the web root
//	11 default: Root = "public/../public", working directory W
//	12 default: Root = "dir/..", working directory = the web root
//	13 default: Root = "../public", working directory = the web root (a root reached through the parent)
//	14 rec(http.Dir(W)), Root "./public/" (custom file system, unclean Root)
//	15 rec(http.Dir(W)), Root "/public" (custom file system, rooted Root)
//	16 default: Root = SubRoot relative to the working directory W — a directory that need not exist when the
//	   middleware is constructed (`late`: created / removed while the case runs, see Late; `nope`: never there;
//	   `public/a.txt`: a regular file)
//
// 1, 8, 11 and 16 run in a child process whose working directory is W, 9, 10, 12 and 13 in one whose
// working directory is W/public.
const c16NumMwFS = 17

// c16MwDefaultFS reports whether the configuration uses the default file system (no Filesystem
// given), which is what middleware.Static(root) always does.
func c16MwDefaultFS(f int) bool {
	switch f {
	case 0, 1, 8, 9, 10, 11, 12, 13, 16:
		return true
	}
	return false
}

// roots on the default file system that need not exist (yet) when they are configured
var c16LateRoots = []string{"late", "late", "late", "nope", "nope", "late/sub", "public/a.txt", "late/l.txt", "nope/deeper", "./late/", "public/../late", "public"}

// c16RootRelOf: the directory a relative root names from the working directory W ("" = W itself)
func c16RootRelOf(root string) string {
	if r := path.Clean(root); r != "." {
		return r
	}
	return ""
}

var c16MwDefaultRoot = map[int]string{1: c16RootName, 8: "./" + c16RootName + "/", 9: "", 10: "./", 11: c16RootName + "/../" + c16RootName, 12: "dir/..", 13: "../" + c16RootName}

func c16SkipAnswer(c *c16Case) bool {
	switch c.Skip {
	case 2:
		return true
	case 3:
		return strings.HasPrefix(string(c.Path), "/api")
	}
	return false
}

// c16LateTag: what kind of root the case had, for the evidence histogram
func c16LateTag(c *c16Case, rootRel string) string {
	kind := "root-missing"
	if e, ok := c16ByRel[rootRel]; ok || rootRel == "" {
		kind = "root-always-there"
		if ok && !e.dir {
			kind = "root-is-a-file"
		}
	} else if e, ok := c16LateByRel[rootRel]; ok {
		l := c.Late
		if len(l) != 4 {
			l = "0000"
		}
		kind = "root-present-" + l
		if !e.dir {
			kind = "root-file-present-" + l
		}
	}
	return kind
}

func c16RunMw(c *c16Case) Result {
	var names []string
	cfg := middleware.StaticConfig{Index: c.Index, HTML5: c.HTML5, Browse: c.Browse, IgnoreBase: c.IgnoreBase}
	rec, atW, kind := true, false, 0
	var cwdSegs []string
	fault := c.Fault
	if c16MwDefaultFS(c.FS) || fault == 4 {
		fault = 0
	}
	wrapH := func(f http.FileSystem) http.FileSystem { return c16RecHTTP{c16FaultHTTP{f, fault}, &names} }
	rootRel := c16RootName
	late, lateDone := c16LateSetup(c)
	defer lateDone()
	switch c.FS {
	case 0:
		cfg.Root, rec = c16Root, false
	case 16:
		cfg.Root, rec, rootRel = c.SubRoot, false, c16RootRelOf(c.SubRoot)
	case 1, 8, 11:
		cfg.Root, rec = c16MwDefaultRoot[c.FS], false
	case 9, 10, 12, 13:
		cfg.Root, rec, cwdSegs = c16MwDefaultRoot[c.FS], false, []string{c16RootName}
	case 2:
		cfg.Filesystem = wrapH(http.Dir(c16Root))
	case 3:
		cfg.Filesystem, cfg.Root, atW = wrapH(http.Dir(c16Work)), c16RootName, true
	case 4:
		cfg.Filesystem, kind = wrapH(http.FS(os.DirFS(c16Root))), 3
	case 5:
		cfg.Filesystem, cfg.Root, atW, kind = wrapH(http.FS(os.DirFS(c16Work))), c16RootName, true, 3
	case 6:
		cfg.Filesystem, cfg.Root, atW, kind = wrapH(http.FS(c16MapFS)), c16RootName, true, 2
	case 14:
		cfg.Filesystem, cfg.Root, atW = wrapH(http.Dir(c16Work)), "./"+c16RootName+"/", true
	case 15:
		cfg.Filesystem, cfg.Root, atW = wrapH(http.Dir(c16Work)), "/"+c16RootName, true
	default:
		cfg.Filesystem, cfg.Root, kind = wrapH(http.FS(c16Sub(c16MapFS, c16RootName))), ".", 1
	}
	ctor := c.Ctor && c16MwDefaultFS(c.FS)
	rawIndex := c.Index
	skip := false
	var rt c16Routing
	late(0)
	e := echo.New()
	late(1)
	var static echo.MiddlewareFunc
	if ctor {
		// the convenience constructor: DefaultStaticConfig with Root set
		static = middleware.Static(cfg.Root)
		rawIndex = "index.html"
		cfg.HTML5, cfg.Browse, cfg.IgnoreBase = false, false, false
	} else {
		switch c.Skip {
		case 1:
			cfg.Skipper = func(echo.Context) bool { return false }
		case 2:
			cfg.Skipper = func(echo.Context) bool { return true }
		case 3:
			cfg.Skipper = func(ec echo.Context) bool { return strings.HasPrefix(ec.Request().URL.Path, "/api") }
		}
		skip = c16SkipAnswer(c)
		static = middleware.StaticWithConfig(cfg)
	}
	switch c.Mount {
	case 0:
		e.Use(rt.rec, static, rt.tail)
		e.GET("/api/ok", c16OK)
	case 1:
		e.Pre(rt.rec, static, rt.tail)
		e.GET("/api/ok", c16OK)
	case 2:
		e.Group("/static", rt.rec, static, rt.tail)
	case 3:
		e.Use(rt.rec, static, rt.tail)
		e.GET("/*", c16OK)
	case 4:
		g := e.Group("/files")
		g.Use(rt.rec, static, rt.tail)
		g.GET("/ok", c16OK)
		g.GET("/a.txt", c16OK) // shadowed by the static file of the same name
	case 7:
		e.Group("/:tenant/static", rt.rec, static, rt.tail)
	case 6:
		second := middleware.StaticWithConfig(middleware.StaticConfig{Root: filepath.Join(c16Root, "static"), Browse: c.Browse, HTML5: c.HTML5})
		e.Use(rt.rec, static, rt.tail, second)
		e.GET("/api/ok", c16OK)
	default:
		// a wildcard route without a slash before the star: c.Path() = "/st*"
		e.Use(rt.rec, static, rt.tail)
		e.GET("/st*", c16OK)
	}
	// http.Dir(relative Root) is resolved by the OS on every Open: a middleware on the default file system
	// follows the working directory of the process (unlike the Static routes)
	chdir, restore := c16ChdirSetup(c)
	defer restore()
	chdir(1)
	chdir(2)
	late(2)
	rootRels := []string{rootRel}
	if c16InChild() && c.Chdir != "" && c16MwDefaultFS(c.FS) && c.FS != 0 {
		cwdSegs = strings.Split(c.Chdir, "/")
		rr := path.Join(c.Chdir, cfg.Root)
		if rr == "." {
			rr = ""
		}
		rootRels = []string{rr, rootRel}
	}
	warmOracle := ""
	if c.Warm != "" {
		// an earlier request through the same Echo instance and the same middleware closure
		w := *c
		w.Path, w.RawPath = c.Warm, ""
		wc, wb, _, _ := c16Serve(e, &w)
		warmOracle = c16Oracle(&w, "\x00", rootRel, wc, wb, nil, false)
		if warmOracle != "" && c16UsesLate(c) && c.Mount == 6 && rt.nextCalled && rt.nextOK {
			warmOracle = c16Oracle(&w, "\x00", c16RootName+"/static", wc, wb, nil, false) // the second instance answered
		}
		names = nil
		rt = c16Routing{}
	}
	late(3)
	code, body, panicked, pmsg := c16Serve(e, c)
	out, listed := c16Outcome(0, code, body, panicked)
	tags := []string{fmt.Sprintf("mw-mount-%d", c.Mount), fmt.Sprintf("mw-fs-%d", c.FS), "out-" + strings.SplitN(out, " ", 2)[0]}
	if c.IgnoreBase && !ctor {
		tags = append(tags, "ignore-base")
	}
	if c.HTML5 && !ctor {
		tags = append(tags, "html5")
	}
	if c.Browse && !ctor {
		tags = append(tags, "browse")
	}
	if ctor {
		tags = append(tags, "mw-ctor-Static")
	}
	if c.Skip != 0 && !ctor {
		tags = append(tags, fmt.Sprintf("mw-skipper-%d-%v", c.Skip, skip))
	}
	if fault != 0 {
		tags = append(tags, fmt.Sprintf("fault-%d", fault))
	}
	if c.Warm != "" {
		tags = append(tags, "warm-request")
	}
	mp := c16MwMountPrefix[c.Mount]
	if mp != "" && !strings.HasSuffix(rt.cPath, "*") {
		// an explicit route of the group matched: the middleware then reads the whole URL path
		// (the documented "doubling" that IgnoreBase exists for); no positive expectation
		mp = "\x00"
	}
	if skip || fault != 0 {
		// a skipped middleware serves nothing; a file system whose files fail is not a working root
		mp = "\x00"
	}
	oracle := c16Oracle(c, mp, rootRel, code, body, listed, strings.HasPrefix(out, "list"))
	if c16UsesLate(c) {
		tags = append(tags, "late-"+c16LateTag(c, rootRel))
	}
	if len(rootRels) > 1 {
		// after a chdir the relative Root of http.Dir names another directory: content from the directory it named when
		// the middleware was constructed or from the one it names now is within the configured root; nothing else is
		oracle = c16Oracle(c, "\x00", rootRels[0], code, body, listed, false)
		if oracle != "" {
			oracle = c16Oracle(c, "\x00", rootRels[1], code, body, listed, strings.HasPrefix(out, "list"))
		}
		warmOracle = ""
		tags = append(tags, "chdir-mw")
	}
	if c16UsesLate(c) && c.Mount == 6 && oracle != "" && rt.nextCalled && rt.nextOK {
		// the second instance of the chain (rooted at public/static) answered: judged by ITS root
		oracle = c16Oracle(c, "\x00", c16RootName+"/static", code, body, listed, strings.HasPrefix(out, "list"))
	}
	if oracle == "" && warmOracle != "" {
		oracle = "first request " + string(c.Warm) + ": " + warmOracle
	}
	if panicked && oracle == "" {
		// a panic is an observation compared with the model, not a containment failure
		tags = append(tags, "panic")
		_ = pmsg
	}
	if !rt.seen {
		// the middleware chain was not entered (cannot happen for these mounts)
		return Result{Obs: out, Oracle: oracle, Tags: append(tags, "mw-not-entered")}
	}
	if c.Mount == 6 {
		tags = append(tags, "mw-two-instances")
		if rt.nextCalled && rt.nextOK {
			// the first instance handed the request on and the second one (or the router) answered: for
			// the first instance that is "next answered"; what was served is judged by the oracle above
			out = "next-ok"
		}
		if rt.nextOther {
			// the second instance failed with its own error (500): the model's `next` only knows
			// "answered" and "404 Not Found"; oracle only
			return Result{Obs: out, Oracle: oracle, Tags: append(tags, "mw-second-instance-error"), Nontrivial: c16Nontrivial(c, out)}
		}
	}
	given := []string{c16RootName}
	if atW {
		given = nil
	}
	rawRoot := cfg.Root
	if c.FS == 0 {
		rawRoot = "/W/" + c16RootName // the absolute root, with the run-specific work directory named W
	}
	fsOpt := "0"
	if !c16MwDefaultFS(c.FS) {
		fsOpt = "1 " + wInt(kind)
	}
	ops := wJoin("4", wBool(rec), c16TreeW, wStrs(given), wJoin(wBool(fault == 1), wBool(fault == 2), wBool(fault == 3), "0"), wBool(skip),
		wStr(rawRoot), wStr(rawIndex), wBool(cfg.HTML5), wBool(cfg.Browse), wBool(cfg.IgnoreBase), fsOpt, wStrs(cwdSegs),
		wStr(rt.cPath), wStr(rt.star), wStr(rt.urlPath), wBool(rt.nextCalled && rt.nextOK))
	if c16UsesLate(c) {
		ops = wJoin(ops, c.lateW())
	}
	obs := out
	if rec {
		obs = wJoin(wStrs(names), out)
	}
	return Result{Ops: ops, Obs: obs, Oracle: oracle, Tags: tags, Nontrivial: c16Nontrivial(c, out)}
}

// Static(FS) route variants
//
//	0 e.Static(prefix, absolute root)            1 e.Static(prefix, "public") relative to the working directory
//	2 e.StaticFS(prefix, rec(os.DirFS(root)))    3 e.StaticFS(prefix, rec(fs.Sub(MapFS, "public")))
//	4 g=/g: g.Static(prefix, absolute root)      5 g=/g: g.StaticFS(prefix, rec(os.DirFS(root)))
//	6 e.Filesystem = os.DirFS(W); e.Static(prefix, "public")     7 e.StaticFS(prefix, echo.MustSubFS(os.DirFS(W), "public"))
//	8..11 e.Static(prefix, root) on the DEFAULT filesystem with root ".", "", "./", "dir/.." — a root that cleans
//	      to "." — and the working directory = the web root (secrets in its parent);  12 g=/g: g.Static(prefix, ".")
//	13 e.StaticFS(prefix, rec(echo.MustSubFS(os.DirFS(W), SubRoot)))   14 e.Filesystem = os.DirFS(W); e.Static(prefix, SubRoot)
//	15 g=/g: e.Filesystem = os.DirFS(W); g.Static(prefix, SubRoot)      (13..15: MustSubFS panics for a root that is not fs.ValidPath)
//	16 e.StaticFS(prefix, rec(failing(os.DirFS(root))))   17 g=/g: g.StaticFS(prefix, rec(failing(fs.Sub(MapFS, "public"))))
//	18, 19 e.Static(prefix, "../public" / "dir/../../public") on the default filesystem, working directory = the web root
//
// 1 runs in a child process with working directory W, 8..12, 18, 19 in one with working directory W/public.
//	20 e.Filesystem = MustSubFS(e.Filesystem, <absolute W>); e.Static(prefix, "public")   (second-level derivation from the DEFAULT file system)
//	21 cwd W: e.Filesystem = MustSubFS(e.Filesystem, "public"); e.Static(prefix, "static")     22 the same with g=/g: g.Static
//	23 cwd W: e.Filesystem = MustSubFS(MustSubFS(e.Filesystem, "public"), "."); e.StaticFS(prefix, MustSubFS(e.Filesystem, "static"))
//	24 cwd = the web root: e.Filesystem = MustSubFS(e.Filesystem, ".."); e.Static(prefix, "public")
//	25 cwd W: e.Filesystem = MustSubFS(e.Filesystem, "public/dir"); e.Static(prefix, "public")  (root public/dir/public; W/public is the look-alike)
//	26 e.Static("/v/:ver/assets", root)     27 e.Group("/:tenant").Static("/files", root)
//	28 e.StaticFS("/:a/:b/s", rec(os.DirFS(root)))     29 e.Group("/:tenant").StaticFS("/files", rec(fs.Sub(MapFS, "public")))
//	   (26..29: the mount is below path parameters; PVal is the first parameter's value and may name a file or directory under the root)
//	30..35 (cwd W) the DEFAULT file system with a root R = SubRoot that need not exist when the route is registered
//	   (`late`: created / removed while the case runs, see Late; `nope`: never there; `public/a.txt`: a regular file):
//	30 e.Static(prefix, R)     31 g=/g: g.Static(prefix, R)     32 e.Static(prefix, <absolute W>/R)
//	33 e.StaticFS(prefix, MustSubFS(e.Filesystem, R))
//	34 e.Filesystem = MustSubFS(e.Filesystem, R); e.Static(prefix, "sub")      35 ... ; g=/g: g.Static(prefix, ".")
//	36..38 the exported handler mounted by hand (an application's own route):
//	36 e.GET(prefix+"*", echo.StaticDirectoryHandler(rec(os.DirFS(root)), true))   — path unescaping DISABLED: the parameter is used as it is
//	37 g=/g: g.GET(prefix+"*", echo.StaticDirectoryHandler(rec(fs.Sub(MapFS, "public")), true))
//	38 e.GET(prefix+"*", echo.StaticDirectoryHandler(rec(os.DirFS(root)), false))
const c16NumDirVariants = 39

// c16Second: a second static route registered on the same Echo instance, after (or before) the case's own one, rooted
// at W/elsewhere/public — a directory with files of the same names (a.txt, index.html, dir/b.txt) and other content.
// What one registration stores must not reach the other: a request under the case's mount is answered from the
// case's root, a request under the second mount from the second root.
//
//	1 after:  e.StaticFS("/zz", os.DirFS(EP))        2 before: the same
//	3 after:  e.Group("/zz").StaticFS("/s", os.DirFS(EP))
//	4 after:  e.Static("/zz", EP)      5 before: the same      6 after: e.Group("/g").Static("/zz", EP)
//	  (4..6 only where Echo.Filesystem is the default one — Echo.Static / Group.Static twice —, otherwise as 1 / 2 / 3)
const c16SecondRootRel = c16Elsewhere + "/" + c16RootName

func c16SecondDefaultFS(c *c16Case) bool {
	switch c.Variant {
	case 0, 1, 4, 8, 9, 10, 11, 12, 18, 19, 26, 27, 30, 31, 32, 33:
		return true
	}
	return false
}

// c16SecondRoute: route pattern and mount of the second registration ("" = none)
func c16SecondRoute(c *c16Case) (pattern, mount string) {
	k := c.Second
	if k >= 4 && !c16SecondDefaultFS(c) {
		k -= 3
	}
	switch k {
	case 1, 2, 4, 5:
		return "/zz*", "/zz"
	case 3:
		return "/zz/s*", "/zz/s"
	case 6:
		return "/g/zz*", "/g/zz"
	}
	return "", ""
}

func c16RegisterSecond(e *echo.Echo, c *c16Case, before bool) {
	k := c.Second
	if k >= 4 && !c16SecondDefaultFS(c) {
		k -= 3
	}
	ep := filepath.Join(c16Work, c16Elsewhere, c16RootName)
	switch {
	case k == 1 && !before, k == 2 && before:
		e.StaticFS("/zz", os.DirFS(ep))
	case k == 3 && !before:
		e.Group("/zz").StaticFS("/s", os.DirFS(ep))
	case k == 4 && !before, k == 5 && before:
		e.Static("/zz", ep)
	case k == 6 && !before:
		e.Group("/g").Static("/zz", ep)
	}
}

// c16LateRootsOf: the roots applied in turn to the default file system by variants 30..35, and the resulting
// root relative to W
func c16LateRootsOf(c *c16Case) (roots []string, rel string) {
	rel = c16RootRelOf(c.SubRoot)
	switch c.Variant {
	case 32:
		return []string{"/W/" + c.SubRoot}, rel
	case 34:
		return []string{c.SubRoot, "sub"}, path.Join(rel, "sub")
	case 35:
		return []string{c.SubRoot, "."}, rel
	}
	return []string{c.SubRoot}, rel
}

var c16PVals = []string{"1", "acme", "a.txt", "dir", "index.html", "secret.txt", "%2e%2e", "..", "a+b.txt", "static", "v1..2", "..hidden", "x", "dir%2fb.txt", "empty"}

// second-level derivations: roots applied in turn to the default file system, the working directory below W, the resulting root
var c16Derived = map[int]struct {
	roots []string
	cwd   []string
	rel   string
}{
	20: {[]string{"/W", c16RootName}, nil, c16RootName},
	21: {[]string{c16RootName, "static"}, nil, c16RootName + "/static"},
	22: {[]string{c16RootName, "static"}, nil, c16RootName + "/static"},
	23: {[]string{c16RootName, ".", "static"}, nil, c16RootName + "/static"},
	24: {[]string{"..", c16RootName}, []string{c16RootName}, c16RootName},
	25: {[]string{c16RootName + "/dir", c16RootName}, nil, c16RootName + "/dir/" + c16RootName},
}

var c16DotRoots = map[int]string{8: ".", 9: "", 10: "./", 11: "dir/..", 12: ".", 18: "../" + c16RootName, 19: "dir/../../" + c16RootName}

var c16SubRoots = []string{"public", "public", "./public", "public/", "public/.", "public/dir/..", "public//", "public/dir", "public/dir/sub/..", "public/static/",
	".", "", "public/..", "./", "../public", "/public", "..", "public/../..", "./..", "public/../../public", "nope", "public/a.txt", "public/.../", "public/c++"}

// c16SubRootRel is the root a MustSubFS root string configures, relative to the work directory
// (fs.Sub's documented contract: the cleaned root must be fs.ValidPath).
func c16SubRootRel(root string) (rel string, ok bool) {
	c := path.Clean(root)
	if !fs.ValidPath(c) {
		return "", false
	}
	if c == "." {
		return "", true
	}
	return c, true
}

func c16FSFault(c *c16Case) int {
	switch c.Fault {
	case 1, 2, 4:
		return c.Fault
	}
	return 0
}

const c16Elsewhere = "elsewhere"

// c16Chdir changes the working directory of a CHILD process at moment `at`; the harness process itself
// never changes its working directory.  The returned function restores it.
func c16InChild() bool { return os.Getenv(c16ChildEnv) != "" }

func c16ChdirSetup(c *c16Case) (step func(at int), restore func()) {
	if !c16InChild() || c.Chdir == "" {
		return func(int) {}, func() {}
	}
	orig, err := os.Getwd()
	if err != nil {
		return func(int) {}, func() {}
	}
	return func(at int) {
			if c.ChdirAt == at {
				os.Chdir(filepath.Join(c16Work, c.Chdir))
			}
		}, func() {
			os.Chdir(orig)
		}
}

// c16Reassign replaces Echo.Filesystem after the routes were registered.
func c16Reassign(e *echo.Echo, c *c16Case, names *[]string, record bool) {
	switch c.Reassign {
	case 1:
		var f fs.FS = os.DirFS(filepath.Join(c16Work, c16Elsewhere))
		if record {
			f = c16RecFS{f, names}
		}
		e.Filesystem = f
	case 2:
		func() {
			defer func() { recover() }()
			e.Filesystem = echo.MustSubFS(e.Filesystem, c16Elsewhere)
		}()
	}
}

func c16RunDir(c *c16Case) Result {
	var names []string
	var rt c16Routing
	chdir, restore := c16ChdirSetup(c)
	defer restore()
	late, lateDone := c16LateSetup(c)
	defer lateDone()
	late(0)
	e := echo.New()
	chdir(1)
	late(1)
	e.Use(rt.rec)
	rec := false
	mount := c.Prefix
	rootRel, subOpt, fault := c16RootName, "0", 0
	concrete := "" // the request prefix of a mount whose route pattern has path parameters
	configPanic := false
	rawOp := false // variants 36, 37: the model's raw handler (op 7)
	func() {
		defer func() {
			if p := recover(); p != nil {
				configPanic = true
			}
		}()
		c16RegisterSecond(e, c, true)
		defer func() {
			if p := recover(); p != nil {
				panic(p)
			}
			c16RegisterSecond(e, c, false)
		}()
		switch c.Variant {
		case 36:
			rec, rawOp = true, true
			e.GET(c.Prefix+"*", echo.StaticDirectoryHandler(c16RecFS{os.DirFS(c16Root), &names}, true))
		case 37:
			rec, rawOp = true, true
			mount = "/g" + c.Prefix
			e.Group("/g").GET(c.Prefix+"*", echo.StaticDirectoryHandler(c16RecFS{c16Sub(c16MapFS, c16RootName), &names}, true))
		case 38:
			rec = true
			e.GET(c.Prefix+"*", echo.StaticDirectoryHandler(c16RecFS{os.DirFS(c16Root), &names}, false))
		case 0:
			e.Static(c.Prefix, c16Root)
		case 1:
			e.Static(c.Prefix, c16RootName)
		case 2:
			e.StaticFS(c.Prefix, c16RecFS{os.DirFS(c16Root), &names})
			rec = true
		case 3:
			e.StaticFS(c.Prefix, c16RecFS{c16Sub(c16MapFS, c16RootName), &names})
			rec = true
		case 4:
			e.Group("/g").Static(c.Prefix, c16Root)
			mount = "/g" + c.Prefix
		case 5:
			e.Group("/g").StaticFS(c.Prefix, c16RecFS{os.DirFS(c16Root), &names})
			rec = true
			mount = "/g" + c.Prefix
		case 6:
			e.Filesystem = os.DirFS(c16Work)
			e.Static(c.Prefix, c16RootName)
		case 7:
			e.StaticFS(c.Prefix, echo.MustSubFS(os.DirFS(c16Work), c16RootName))
		case 12:
			e.Group("/g").Static(c.Prefix, c16DotRoots[c.Variant])
			mount = "/g" + c.Prefix
		case 13:
			subOpt, rec = "1 "+wStr(c.SubRoot), true
			rootRel, _ = c16SubRootRel(c.SubRoot)
			e.StaticFS(c.Prefix, c16RecFS{echo.MustSubFS(os.DirFS(c16Work), c.SubRoot), &names})
		case 14:
			subOpt = "1 " + wStr(c.SubRoot)
			rootRel, _ = c16SubRootRel(c.SubRoot)
			e.Filesystem = os.DirFS(c16Work)
			e.Static(c.Prefix, c.SubRoot)
		case 15:
			subOpt = "1 " + wStr(c.SubRoot)
			rootRel, _ = c16SubRootRel(c.SubRoot)
			e.Filesystem = os.DirFS(c16Work)
			mount = "/g" + c.Prefix
			e.Group("/g").Static(c.Prefix, c.SubRoot)
		case 16:
			fault, rec = c16FSFault(c), true
			e.StaticFS(c.Prefix, c16RecFS{c16FaultFS{os.DirFS(c16Root), fault}, &names})
		case 17:
			fault, rec = c16FSFault(c), true
			mount = "/g" + c.Prefix
			e.Group("/g").StaticFS(c.Prefix, c16RecFS{c16FaultFS{c16Sub(c16MapFS, c16RootName), fault}, &names})
		case 20, 21, 22, 23, 24, 25:
			d := c16Derived[c.Variant]
			rootRel = d.rel
			subOpt = wJoin("2", wStrs(d.cwd), wStrs(d.roots))
			first := d.roots[0]
			if first == "/W" {
				first = c16Work
			}
			e.Filesystem = echo.MustSubFS(e.Filesystem, first)
			last := d.roots[len(d.roots)-1]
			switch c.Variant {
			case 22:
				mount = "/g" + c.Prefix
				e.Group("/g").Static(c.Prefix, last)
			case 23:
				e.Filesystem = echo.MustSubFS(e.Filesystem, d.roots[1])
				e.StaticFS(c.Prefix, echo.MustSubFS(e.Filesystem, last))
			default:
				e.Static(c.Prefix, last)
			}
		case 30, 31, 32, 33, 34, 35:
			var roots []string
			roots, rootRel = c16LateRootsOf(c)
			subOpt = wJoin("2", wStrs(nil), wStrs(roots))
			switch c.Variant {
			case 30:
				e.Static(c.Prefix, c.SubRoot)
			case 31:
				mount = "/g" + c.Prefix
				e.Group("/g").Static(c.Prefix, c.SubRoot)
			case 32:
				e.Static(c.Prefix, c16Work+"/"+c.SubRoot)
			case 33:
				e.StaticFS(c.Prefix, echo.MustSubFS(e.Filesystem, c.SubRoot))
			case 34:
				e.Filesystem = echo.MustSubFS(e.Filesystem, c.SubRoot)
				e.Static(c.Prefix, "sub")
			default:
				e.Filesystem = echo.MustSubFS(e.Filesystem, c.SubRoot)
				mount = "/g" + c.Prefix
				e.Group("/g").Static(c.Prefix, ".")
			}
		case 26:
			mount, concrete = "/v/:ver/assets", "/v/"+c.PVal+"/assets"
			e.Static(mount, c16Root)
		case 27:
			mount, concrete = "/:tenant/files", "/"+c.PVal+"/files"
			e.Group("/:tenant").Static("/files", c16Root)
		case 28:
			mount, concrete, rec = "/:a/:b/s", "/"+c.PVal+"/x/s", true
			e.StaticFS(mount, c16RecFS{os.DirFS(c16Root), &names})
		case 29:
			mount, concrete, rec = "/:tenant/files", "/"+c.PVal+"/files", true
			e.Group("/:tenant").StaticFS("/files", c16RecFS{c16Sub(c16MapFS, c16RootName), &names})
		default:
			e.Static(c.Prefix, c16DotRoots[c.Variant])
		}
	}()
	tags := []string{fmt.Sprintf("dir-variant-%d", c.Variant)}
	if fault != 0 {
		tags = append(tags, fmt.Sprintf("fault-%d", fault))
	}
	faultsW := wJoin(wBool(fault == 1), wBool(fault == 2), "0", wBool(fault == 4))
	if configPanic {
		// MustSubFS refused the root while the route was being registered
		ops := wJoin("5", wBool(rec), c16TreeW, wStrs(nil), faultsW, subOpt, wStr(""), wStr(""))
		return Result{Ops: ops, Obs: "config-panic", Tags: append(tags, "out-config-panic"), Nontrivial: true}
	}
	e.GET("/api/ok", c16OK)
	// the routes are registered: from here on neither a change of the working directory nor a new
	// Echo.Filesystem may move the root of a Static / StaticFS route
	chdir(2)
	late(2)
	c16Reassign(e, c, &names, false)
	if c16UsesLate(c) {
		tags = append(tags, "late-"+c16LateTag(c, rootRel))
	}
	if c.Reassign != 0 {
		tags = append(tags, fmt.Sprintf("filesystem-reassigned-%d", c.Reassign))
	}
	if c16InChild() && c.Chdir != "" {
		tags = append(tags, fmt.Sprintf("chdir-at-%d", c.ChdirAt))
		// default file system: the working directory counts as it was at echo.New(); the model gets all four moments
		cwd0 := []string{}
		if c16CaseCwd(c) == "root" {
			cwd0 = []string{c16RootName}
		}
		now := strings.Split(c.Chdir, "/")
		atReg := cwd0
		if c.ChdirAt == 1 {
			atReg = now
		}
		var roots []string
		switch {
		case c.Variant == 1:
			roots = []string{c16RootName}
		case c.Variant >= 20 && c.Variant <= 25:
			roots = c16Derived[c.Variant].roots
		case c.Variant >= 30 && c.Variant <= 35:
			roots, _ = c16LateRootsOf(c)
		default:
			roots = []string{c16DotRoots[c.Variant]}
		}
		subOpt = wJoin("3", wStrs(cwd0), wStrs(atReg), wStrs(now), wStrs(now), wStrs(roots))
	}
	warmOracle := ""
	if c.Variant >= 13 && c.Variant <= 15 {
		if _, valid := c16SubRootRel(c.SubRoot); !valid {
			// fs.Sub's contract: a root that is not fs.ValidPath (rooted, or climbing out of the parent file
			// system with "..") names nothing inside the parent and must be refused
			warmOracle = fmt.Sprintf("MustSubFS accepted the root %q, which is not a path inside the parent file system", c.SubRoot)
		}
	}
	if c.Warm != "" {
		w := *c
		w.Path, w.RawPath = c.Warm, ""
		wc, wb, _, _ := c16Serve(e, &w)
		if warmOracle == "" {
			wroot := rootRel
			if sp, _ := c16SecondRoute(c); sp != "" && rt.cPath == sp {
				wroot = c16SecondRootRel
			}
			warmOracle = c16Oracle(&w, "\x00", wroot, wc, wb, nil, false)
			if warmOracle != "" {
				warmOracle = "first request " + string(c.Warm) + ": " + warmOracle
			}
		}
		names = nil
		rt = c16Routing{}
		tags = append(tags, "warm-request")
	}
	late(3)
	code, body, panicked, _ := c16Serve(e, c)
	out, listed := c16Outcome(1, code, body, panicked)
	tags = append(tags, "out-"+strings.SplitN(out, " ", 2)[0])
	mp := strings.TrimSuffix(mount, "/")
	if concrete != "" {
		mp = concrete
		tags = append(tags, "dir-mount-below-param")
	}
	if fault == 1 || fault == 2 {
		mp = "\x00" // a file system whose Stat fails is not a working root
	}
	oracle := c16Oracle(c, mp, rootRel, code, body, listed, strings.HasPrefix(out, "list"))
	if sp, sm := c16SecondRoute(c); sp != "" {
		tags = append(tags, fmt.Sprintf("second-static-route-%d", c.Second))
		if rt.seen && rt.cPath == sp {
			// the second route answered: judged by ITS root
			oracle = c16Oracle(c, sm, c16SecondRootRel, code, body, listed, strings.HasPrefix(out, "list"))
			tags = append(tags, "second-static-route-answered")
		}
	}
	if warmOracle != "" {
		oracle = warmOracle
	}
	wantPath := mount + "*"
	if !strings.HasPrefix(wantPath, "/") {
		wantPath = "/" + wantPath
	}
	if !rt.seen || rt.cPath != wantPath {
		// some other route (or none) matched: routing is not this property's business
		return Result{Obs: out, Oracle: oracle, Tags: append(tags, "dir-other-route")}
	}
	ops := wJoin("5", wBool(rec), c16TreeW, wStrs([]string{c16RootName}), faultsW, subOpt, wStr(rt.star), wStr(rt.urlPath))
	if rawOp {
		ops = wJoin("7", wBool(rec), c16TreeW, wStrs([]string{c16RootName}), faultsW, wStr(rt.star), wStr(rt.urlPath))
	}
	if c16UsesLate(c) {
		ops = wJoin(ops, c.lateW())
	}
	if strings.HasPrefix(subOpt, "2 ") {
		tags = append(tags, "dir-derived-default-fs")
	}
	obs := out
	if rec {
		obs = wJoin(wStrs(names), out)
	}
	return Result{Ops: ops, Obs: obs, Oracle: oracle, Tags: tags, Nontrivial: c16Nontrivial(c, out)}
}

// file helper variants
//
//	0 e.FileFS("/f", file, rec(os.DirFS(root)))            1 g=/g: g.FileFS("/f", file, rec(fs.Sub(MapFS, "public")))
//	2 e.Filesystem = rec(os.DirFS(W)); e.File("/f", "public/"+file)
//	3 GET /f -> c.FileFS(file, rec(failing(os.DirFS(root))))
//	4 e.Filesystem = rec(failing(os.DirFS(root))); GET /f -> c.Attachment(file, disp)      5 ... c.Inline(file, disp)
//	6 the DEFAULT Echo.Filesystem (os.Open, any name, relative to the working directory W): e.File("/f", "public/"+file)
//	7 GET /dl/* -> c.FileFS(c.Param("*"), rec(failing(os.DirFS(root))))  (a download handler: the name comes from the request)
//	8 e.Filesystem = rec(os.DirFS(W)); g=/g: g.File("/f", "public/"+file)
//	9 the DEFAULT Echo.Filesystem with an absolute name: GET /f -> c.File(<root>/file)
//	10 (cwd W) e.Filesystem = MustSubFS(e.Filesystem, R); e.File("/f", file)     11 ... ; g=/g: g.File("/f", file)
//	   (the default file system narrowed to a root R = SubRoot that need not exist at that moment, see dir variants 30..35)
const c16NumFileVariants = 12

// Context.FileFS is a method of echo's context type that the Context interface does not list;
// an application reaches it through an interface assertion.
func c16CtxFileFS(ec echo.Context, file string, fsys fs.FS) error {
	if x, ok := ec.(interface {
		FileFS(string, fs.FS) error
	}); ok {
		return x.FileFS(file, fsys)
	}
	return echo.StaticFileHandler(file, fsys)(ec)
}

func c16RunFile(c *c16Case) Result {
	var names []string
	var rt c16Routing
	late, lateDone := c16LateSetup(c)
	defer lateDone()
	late(0)
	e := echo.New()
	late(1)
	e.Use(rt.rec)
	rec := true
	fault := 0
	route, mp := "/f", "\x00"
	name := c.File
	rootSegs := []string{c16RootName}
	osOpt, dispOpt := "0", "0"
	rootRel := c16RootName
	secondFile := (c.Variant == 0 || c.Variant == 1) && (c.Second == 1 || c.Second == 2)
	ep := filepath.Join(c16Work, c16Elsewhere, c16RootName)
	if secondFile && c.Second == 2 {
		e.FileFS("/zzf", c.File, os.DirFS(ep)) // another File route for the same name in another tree, registered first
	}
	switch c.Variant {
	case 10, 11:
		rec, osOpt, rootRel = false, "2", c16RootRelOf(c.SubRoot)
		rootSegs = nil
		if rootRel != "" {
			rootSegs = strings.Split(rootRel, "/")
		}
		e.Filesystem = echo.MustSubFS(e.Filesystem, c.SubRoot)
		if c.Variant == 10 {
			e.File("/f", c.File)
		} else {
			e.Group("/g").File("/f", c.File)
			route = "/g/f"
		}
	case 0:
		e.FileFS("/f", c.File, c16RecFS{os.DirFS(c16Root), &names})
	case 1:
		e.Group("/g").FileFS("/f", c.File, c16RecFS{c16Sub(c16MapFS, c16RootName), &names})
		route = "/g/f"
	case 2:
		// Echo.File on a custom Echo.Filesystem rooted at W
		e.Filesystem = c16RecFS{os.DirFS(c16Work), &names}
		name, rootSegs = c16RootName+"/"+c.File, nil
		e.File("/f", name)
	case 3:
		fault = c16FSFault(c)
		fsys := c16RecFS{c16FaultFS{os.DirFS(c16Root), fault}, &names}
		e.GET("/f", func(ec echo.Context) error { return c16CtxFileFS(ec, c.File, fsys) })
	case 4, 5:
		fault = c16FSFault(c)
		e.Filesystem = c16RecFS{c16FaultFS{os.DirFS(c16Root), fault}, &names}
		typ := "attachment"
		if c.Variant == 5 {
			typ = "inline"
			e.GET("/f", func(ec echo.Context) error { return ec.Inline(c.File, string(c.Disp)) })
		} else {
			e.GET("/f", func(ec echo.Context) error { return ec.Attachment(c.File, string(c.Disp)) })
		}
		dispOpt = wJoin("1", wStr(typ), wStr(string(c.Disp)))
	case 6:
		// the default file system opens any name with os.Open, relative to the working directory (= W in the child)
		rec, rootSegs, osOpt = false, nil, "1 0"
		name = c16RootName + "/" + c.File
		e.File("/f", name)
	case 7:
		fault = c16FSFault(c)
		fsys := c16RecFS{c16FaultFS{os.DirFS(c16Root), fault}, &names}
		e.GET("/dl/*", func(ec echo.Context) error { return c16CtxFileFS(ec, ec.Param("*"), fsys) })
		route, mp = "/dl/*", "/dl"
	case 8:
		e.Filesystem = c16RecFS{os.DirFS(c16Work), &names}
		name, rootSegs = c16RootName+"/"+c.File, nil
		e.Group("/g").File("/f", name)
		route = "/g/f"
	default:
		rec, rootSegs, osOpt = false, nil, "1 0"
		name = "/W/" + c16RootName + "/" + c.File
		e.GET("/f", func(ec echo.Context) error { return ec.File(c16Root + "/" + c.File) })
	}
	if secondFile && c.Second == 1 {
		e.FileFS("/zzf", c.File, os.DirFS(ep)) // ... registered afterwards
	}
	// a File route reads Echo.Filesystem (and, on the default file system, the working directory) when the
	// request is served: a reassignment / chdir after the registration is followed
	chdir, restore := c16ChdirSetup(c)
	defer restore()
	chdir(1)
	chdir(2)
	late(2)
	late(3)
	fileBase := c16RootName // the directory the relative name of variants 2, 6, 8 is resolved in, relative to W
	moved := false
	if c.Variant == 6 && c16InChild() && c.Chdir != "" {
		osOpt = wJoin("1", wStrs(strings.Split(c.Chdir, "/")))
		fileBase, moved = c.Chdir+"/"+c16RootName, true
	}
	if (c.Variant == 2 || c.Variant == 8) && c.Reassign == 1 {
		c16Reassign(e, c, &names, true)
		rootSegs = []string{c16Elsewhere}
		fileBase, moved = c16Elsewhere+"/"+c16RootName, true
	}
	code, body, hdr, panicked, _ := c16ServeH(e, c)
	out, listed := c16Outcome(2, code, body, panicked)
	tags := []string{fmt.Sprintf("file-variant-%d", c.Variant), "out-" + strings.SplitN(out, " ", 2)[0]}
	if moved {
		tags = append(tags, "file-route-follows-environment")
	}
	if fault != 0 {
		tags = append(tags, fmt.Sprintf("fault-%d", fault))
	}
	if fault == 1 || fault == 2 {
		mp = "\x00"
	}
	var oracle string
	if moved {
		// the response carries the named file as found from the environment of the request, or as found from the
		// environment of the registration, or no file content at all
		ok := !strings.Contains(body, "MARK-")
		for _, base := range []string{fileBase, c16RootName} {
			want := c16ByRel[path.Clean(base+"/"+c.File)]
			if want != nil && want.dir {
				want = c16ByRel[path.Clean(want.rel+"/index.html")]
			}
			if want != nil && !want.dir && body == want.body {
				ok = true
			}
		}
		if !ok {
			oracle = fmt.Sprintf("route for the file %q answered with other file content: %q", c16RootName+"/"+c.File, c16Short(body))
		}
	} else if c.Variant == 6 || c.Variant == 9 {
		// the developer named a file anywhere below the working directory: the response carries
		// that file's bytes or no file content at all
		want := c16ByRel[path.Clean(c16RootName+"/"+c.File)]
		if want != nil && want.dir {
			want = c16ByRel[path.Clean(want.rel+"/index.html")] // a directory is answered with its index.html
		} else if want == nil && path.Clean(c16RootName+"/"+c.File) == "." {
			want = c16ByRel["index.html"]
		}
		if strings.Contains(body, "MARK-") && (want == nil || want.dir || body != want.body) {
			oracle = fmt.Sprintf("route for the file %q answered with other file content: %q", c16RootName+"/"+c.File, c16Short(body))
		}
		if oracle == "" && string(c.Path) == route && want != nil && !want.dir && c.File != "" && path.Clean(c.File) == c.File && (code != http.StatusOK || body != want.body) {
			oracle = fmt.Sprintf("existing file %q named by the route: status %d, body %q", c.File, code, c16Short(body))
		}
	} else {
		oracle = c16Oracle(c, mp, rootRel, code, body, listed, false)
		if secondFile {
			tags = append(tags, fmt.Sprintf("second-file-route-%d", c.Second))
			if rt.seen && rt.cPath == "/zzf" {
				oracle = c16Oracle(c, "\x00", c16SecondRootRel, code, body, listed, false) // the second route answered: its root
				if want, ok := c16ByRel[path.Join(c16SecondRootRel, c.File)]; oracle == "" && ok && !want.dir && string(c.Path) == "/zzf" && c.RawPath == "" && c.File != "" && c.File != "." && path.Clean(c.File) == c.File && c.File != ".." && !strings.HasPrefix(c.File, "../") && (code != http.StatusOK || body != want.body) {
					oracle = fmt.Sprintf("existing file %q named by the second route /zzf: status %d, body %q", c.File, code, c16Short(body))
				}
			}
		}
		if c16UsesLate(c) {
			tags = append(tags, "late-"+c16LateTag(c, rootRel))
		}
		// a File route naming an existing regular file under the root by its clean path serves its bytes
		if oracle == "" && c.Variant != 7 && fault != 1 && fault != 2 && string(c.Path) == route && c.RawPath == "" && c.File != "" && c.File != "." && path.Clean(c.File) == c.File && c.File != ".." && !strings.HasPrefix(c.File, "../") {
			if want, ok := c16Find(c, path.Join(rootRel, c.File)); ok && !want.dir && (code != http.StatusOK || body != want.body) {
				oracle = fmt.Sprintf("existing file %q named by the route %q: status %d, body %q", c.File, route, code, c16Short(body))
			}
		}
	}
	if !rt.seen || rt.cPath != route {
		return Result{Obs: out, Oracle: oracle, Tags: append(tags, "file-other-route")}
	}
	if c.Variant == 7 {
		name = rt.star
	}
	faultsW := wJoin(wBool(fault == 1), wBool(fault == 2), "0", wBool(fault == 4))
	ops := wJoin("6", wBool(rec), c16TreeW, wStrs(rootSegs), faultsW, osOpt, wStr(name), dispOpt)
	if c16UsesLate(c) {
		ops = wJoin(ops, c.lateW())
	}
	obs := out
	if rec {
		obs = wJoin(wStrs(names), out)
	}
	if dispOpt != "0" {
		obs = wJoin(wStr(hdr.Get(echo.HeaderContentDisposition)), obs)
	}
	return Result{Ops: ops, Obs: obs, Oracle: oracle, Tags: tags, Nontrivial: strings.HasPrefix(out, "file") || c.Variant == 7}
}

func c16Nontrivial(c *c16Case, out string) bool {
	p := string(c.Path) + string(c.RawPath)
	adversarial := strings.Contains(p, "..") || strings.Contains(p, "%") || strings.Contains(p, "\\") || strings.Contains(p, "//")
	return adversarial || strings.HasPrefix(out, "file") || strings.HasPrefix(out, "list")
}

// c16NoSeekCase: a custom fs.FS whose files cannot seek (Fault 4).  Such a case runs in the child process whose
// working directory is W, where files with the names of files under the root (secret.txt, index.html, a+b.txt,
// static/index.html) lie with MARK-OUT content: serving the requested name from anywhere else than the configured
// file system (the operating system's view of the name, relative to the working directory) then shows as content
// from outside the root, whatever status a refusal has.  The model's answer does not depend on the working directory.
func c16NoSeekCase(c *c16Case) bool {
	if c.Fault != 4 || c.Chdir != "" {
		return false
	}
	switch c.Kind {
	case 1:
		return c.Variant == 16 || c.Variant == 17
	case 2:
		return c.Variant == 3 || c.Variant == 4 || c.Variant == 5 || c.Variant == 7
	}
	return false
}

func c16Run(ci any) (res Result) {
	c := ci.(*c16Case)
	c16Setup()
	if c16InitErr != nil {
		return Result{Oracle: "cannot create the marker tree: " + c16InitErr.Error()}
	}
	defer func() {
		if p := recover(); p != nil {
			res = Result{Obs: "harness-panic", Oracle: fmt.Sprintf("panic outside ServeHTTP: %v", p)}
		}
	}()
	cwd := c16CaseCwd(c)
	if cwd == "" && c16NoSeekCase(c) {
		cwd = "W"
	}
	if cwd != "" && os.Getenv(c16ChildEnv) == "" {
		res = c16ChildRun(cwd, c)
		c16NoteShape(c, res)
		return res
	}
	switch c.Kind {
	case 0:
		res = c16RunMw(c)
	case 1:
		res = c16RunDir(c)
	default:
		res = c16RunFile(c)
	}
	// Files that cannot seek (Fault 4: an fs.FS whose files are no io.ReadSeeker, e.g. zip.Reader) are refused by
	// fsFile with a 500: http.ServeContent needs a ReadSeeker and echo says so in the error.  The positive clause
	// of the property ("an existing file is served") is read for file systems whose files can seek (assumption in
	// obligations/C16.json); the branch itself stays in the model and in the correspondence.
	// (Refused: with whichever 4xx / 5xx status — the status is not part of the assumption.)
	c16NoteShape(c, res)
	if c.Fault == 4 && strings.HasPrefix(res.Oracle, "existing file ") && c16ObsRefusal(c, res.Obs) {
		res.Oracle = ""
		res.Tags = append(res.Tags, "non-seekable-file-refused")
	}
	return res
}

// ---------- generators ----------

var c16Adversarial = []string{"..", ".", "%2e", "%2e%2e", "%2E%2E", ".%2e", "%2e.", "%2f", "%2F", "%5c", "\\", "", "%252e%252e", "%252f", "%25",
	"%", "%zz", "%2", "...", "....", "..%2f..", "..%5c..", "%2e%2e%2f", "..;", "%c0%ae%c0%ae", "%ff", "..%2f", "%2f..", "..\\",
	"%2e%2e%2f%2e%2e", "%25%32%65", "..%252f", "%5c..", "%2e%2e%5c", "/", "//",
	".%00.", "%00..", "..%00", ".%09.", ".%0a.", ".%0d.", ".%7f.", ".%e2%80%8b.", ".%ef%bb%bf.", "%00", ".%2500.", "a.txt%00", ".%20."}
// bytes a "sanitiser" might drop from a name: NUL, line breaks, tab, DEL, zero-width space, byte order mark,
// soft hyphen, vertical tab, space; each as the raw byte sequence
var c16Droppable = []string{"\x00", "\n", "\r", "\t", "\x7f", "\xe2\x80\x8b", "\xef\xbb\xbf", "\xc2\xad", "\x0b", " ", "\x00\x00"}

// dot-dot look-alikes: ordinary path elements for path.Clean that become ".." once such a byte is removed,
// and names cut short at such a byte (percent-encoded; single and double encoding)
var c16LookAlike = []string{".%00.", "%00..", "..%00", "%00.%00.%00", ".%2500.", ".%09.", ".%0a.", ".%0A.", ".%0d.", ".%0d%0a.", ".%7f.", ".%7F.", ".%e2%80%8b.", ".%ef%bb%bf.",
	".%c2%ad.", ".%0b.", ".%20.", "%20..", "..%20", ".%00", "%00.", "%00", "%0a", "a.txt%00", "a.txt%00.html", "secret%00.txt", "secret.txt%00", "index.html%0a", "dir%00", "%00dir",
	"..%00%00", ".%00%00."}

func c16PctAll(s string) string {
	var b strings.Builder
	for i := 0; i < len(s); i++ {
		fmt.Fprintf(&b, "%%%02x", s[i])
	}
	return b.String()
}

// c16Smuggle rewrites every ".." element of a relative path into a look-alike carrying the byte
// sequence d (percent-encoded): `..` -> `.d.`, `d..`, `..d`, `d.d.d`.
func c16Smuggle(rel, d string, form int) string {
	e := c16PctAll(d)
	segs := strings.Split(rel, "/")
	for i, sg := range segs {
		if sg != ".." {
			continue
		}
		switch (form + i) % 4 {
		case 0:
			segs[i] = "." + e + "."
		case 1:
			segs[i] = e + ".."
		case 2:
			segs[i] = ".." + e
		default:
			segs[i] = e + "." + e + "." + e
		}
	}
	return strings.Join(segs, "/")
}

var c16Real = []string{"a.txt", "dir", "sub", "b.txt", "c.txt", "index.html", "static", "d.txt", "empty", "secret.txt", "secret", "public",
	"public.bak", "publicsecret", "x.txt", "s.txt", "sp ace.txt", "sp%20ace.txt", "100%.txt", "100%25.txt", "pct%2e.txt", "pct%252e.txt",
	"\xc3\xa9.txt", "%c3%a9.txt", ".hidden", "x.y.z", "t.txt", "p.txt", "nope", "api", "ok", "files",
	"a+b.txt", "a b.txt", "a%2Bb.txt", "a%20b.txt", "c++", "c  ", "n.txt", "q&a=1;x.txt", "semi;v=1.txt", "semi", "wh?at#.txt", "wh%3Fat%23.txt", "wh",
	"tilde~$!'(),@.txt", "star*.txt", "colon:x.txt", "b\\s.txt", "b", "bs.txt"}

// real relative paths (under the root and next to it)
var c16RealPaths = []string{"a.txt", "index.html", "dir/b.txt", "dir/index.html", "dir/sub/c.txt", "dir", "dir/", "dir/sub", "dir/sub/", "empty", "empty/",
	"static", "static/", "static/d.txt", "static/index.html", ".../t.txt", ".../secret", "...", "sp ace.txt", "100%.txt", "pct%2e.txt", "\xc3\xa9.txt",
	".hidden", "x.y.z", "secret.txt", "dir/public/p.txt", "", "nope.txt", "dir/nope",
	"release..notes.txt", "..hidden", "2024...json", "v1..2/readme.txt", "v1..2", "dots../dd.txt", "acme", "1", "1/index.html",
	"a+b.txt", "a b.txt", "c++/n.txt", "c  /n.txt", "c++", "c++/", "q&a=1;x.txt", "semi;v=1.txt", "wh?at#.txt", "tilde~$!'(),@.txt", "star*.txt", "colon:x.txt", "b\\s.txt", "b/bs.txt"}
var c16Outside = []string{"../a+b.txt", "../a b.txt", "../secret", "../secret.txt", "../index.html", "../publicsecret", "../public.bak/x.txt", "../static/s.txt", "../public/a.txt",
	"..", "../", "../public.bak", "../static", "../..", "../../../../../../etc/hostname"}

func c16Pick(r *rand.Rand, l []string) string { return l[r.Intn(len(l))] }

// c16Encode percent-encodes some characters of a relative path in attacker fashion.
func c16Encode(r *rand.Rand, s string) string {
	mode := r.Intn(7)
	var b strings.Builder
	for i := 0; i < len(s); i++ {
		ch := s[i]
		enc := false
		switch mode {
		case 6: // every byte that is not unreserved (what a careful client sends)
			enc = !(ch >= 'a' && ch <= 'z' || ch >= 'A' && ch <= 'Z' || ch >= '0' && ch <= '9' || ch == '-' || ch == '.' || ch == '_' || ch == '~' || ch == '/')
		case 0: // nothing
		case 1: // dots
			enc = ch == '.'
		case 2: // slashes
			enc = ch == '/'
		case 3: // dots and slashes
			enc = ch == '.' || ch == '/'
		case 4: // random
			enc = r.Intn(4) == 0
		case 5: // what a client must encode
			enc = ch == ' ' || ch == '%' || ch >= 0x80
		}
		if enc {
			if mode == 4 && r.Intn(5) == 0 {
				fmt.Fprintf(&b, "%%25%02x", ch) // double encoding
			} else if r.Intn(2) == 0 {
				fmt.Fprintf(&b, "%%%02x", ch)
			} else {
				fmt.Fprintf(&b, "%%%02X", ch)
			}
		} else {
			b.WriteByte(ch)
		}
	}
	return b.String()
}

func c16GenTarget(r *rand.Rand, mount string, big bool) string {
	var rel string
	switch r.Intn(10) {
	case 0, 1: // a real path, possibly encoded
		rel = c16Encode(r, c16Pick(r, c16RealPaths))
	case 2, 3: // a path to something outside, encoded in some way
		rel = c16Encode(r, c16Pick(r, c16Outside))
		if r.Intn(3) == 0 {
			// ... its dot-dot elements written as look-alikes that a byte-dropping step would turn into ".."
			rel = c16Smuggle(c16Pick(r, c16Outside), c16Pick(r, c16Droppable), r.Intn(4))
			if r.Intn(4) == 0 {
				rel = c16Pick(r, []string{"dir/", ".../", "static/", "nope/"}) + rel
			}
		}
	case 4: // outside path reached through a real directory
		rel = c16Encode(r, c16Pick(r, []string{"dir/", "dir/sub/", "empty/", ".../", "static/", "nope/"})+"../"+c16Pick(r, c16Outside))
	case 5: // real path with one adversarial segment spliced in
		segs := strings.Split(c16Pick(r, c16RealPaths), "/")
		k := r.Intn(len(segs) + 1)
		adv := c16Pick(r, c16Adversarial)
		if r.Intn(4) == 0 {
			adv = c16Pick(r, c16LookAlike)
		}
		segs = append(segs[:k], append([]string{adv}, segs[k:]...)...)
		rel = strings.Join(segs, "/")
	case 6: // the IgnoreBase shapes: last element equal to the route base or "."
		rel = c16Pick(r, []string{"", "dir/", ".../", "static/", "dir/sub/", ".../secret/", "nope/", "a.txt/", ".../t.txt/"}) +
			c16Pick(r, []string{".", "static", "files", "%2e", "./", "static/", ".", "..", "public"})
	default:
		n := 1 + r.Intn(4)
		if big {
			n = 1 + r.Intn(9)
		}
		var segs []string
		for i := 0; i < n; i++ {
			if r.Intn(2) == 0 {
				segs = append(segs, c16Pick(r, c16Adversarial))
			} else {
				segs = append(segs, c16Pick(r, c16Real))
			}
		}
		rel = strings.Join(segs, "/")
	}
	switch r.Intn(12) {
	case 0:
		rel += "/"
	case 1:
		rel += "/."
	case 2:
		rel += "/.."
	case 3:
		rel = "/" + rel
	}
	switch r.Intn(14) {
	case 0:
		return mount + rel // no separator after the mount prefix (e.g. /assets../secret)
	case 1:
		return "/" + rel // not under the mount
	case 2:
		return mount
	}
	return mount + "/" + rel
}

// c16SetTarget derives URL.Path / URL.RawPath from a raw request target.
func c16SetTarget(r *rand.Rand, c *c16Case, t string) {
	switch r.Intn(5) {
	case 0: // already-decoded path handed over verbatim (literal % survives into URL.Path)
		c.Path, c.RawPath = lat1(t), ""
	case 1: // RawPath set verbatim, Path leniently decoded
		c.Path, c.RawPath = lat1(c16Lenient(t)), lat1(t)
	default: // what net/http produces for the request line
		if u, err := url.ParseRequestURI(t); err == nil && strings.HasPrefix(t, "/") {
			c.Path, c.RawPath = lat1(u.Path), lat1(u.RawPath)
		} else {
			c.Path, c.RawPath = lat1(t), ""
		}
	}
	if c.Path == "" {
		c.Path = "/"
	}
}

func c16Lenient(s string) string {
	if u, err := url.PathUnescape(s); err == nil {
		return u
	}
	return s
}

var c16Disp = []string{"report.pdf", "a\"b.txt", "back\\slash.txt", "x\"; y=\"z", "", "\xc3\xa9t\xc3\xa9.txt", "\\\"", "\\", "\"", "tab\there", "semi;colon.txt",
	"a-very-long-display-name-that-is-longer-than-sixty-four-bytes-so-that-any-fixed-buffer-would-show.txt", "plain", "new\nline", "q\"\\\"q"}

var c16Files = []string{"a.txt", "dir", "dir/b.txt", "nope", "../secret.txt", "../secret", "dir/", "dir/../../secret", "/etc/hostname",
	"empty", ".", "", "dir/sub/c.txt", "./a.txt", "static", "a+b.txt", "a b.txt", "c++/n.txt", "q&a=1;x.txt", "wh?at#.txt", "100%.txt", "pct%2e.txt",
	"\xc3\xa9.txt", "a.txt/", "dir/index.html", "static/index.html", "../a+b.txt", "dir/../a.txt", "b\\s.txt", "index.html", "../public/a.txt", "..", "dir/sub/../b.txt", "nope/../a.txt", "empty/../a.txt", "a.txt/../a.txt"}

// presence of W/late at echo.New() / registration / first request / request
var c16LatePatterns = []string{"0000", "0011", "0011", "0001", "0001", "0111", "1111", "1100", "1101", "0010", "1000", "0110", "1011", "0100"}

// what a request may name when the root is missing: paths relative to the working directory W (what a bare
// os.Open(name) would resolve), absolute names (after a double slash), climbing forms, names inside the late directory
var c16LateTargets = []string{"secret.txt", "index.html", "a+b.txt", "secret", "public/a.txt", "public/index.html", "static/s.txt", "static/index.html", "static", "public",
	"l.txt", "sub/m.txt", "sub/index.html", "sub", "sub/", "", "late/l.txt", "late/secret.txt", "late", "m.txt",
	"../secret.txt", "../late/l.txt", "sub/../../secret.txt", "../../secret.txt", "%2e%2e/secret.txt", "..%2fsecret.txt", "./secret.txt", "nope/../secret.txt",
	c16AbsW + "/secret.txt", c16AbsW + "/public/a.txt", c16AbsW + "/late/l.txt", c16AbsW, "/etc/hostname", "/secret.txt", "/late/l.txt", "%2f" + c16AbsW[1:] + "/secret.txt"}

var c16LateFiles = []string{"l.txt", "secret.txt", "index.html", "a+b.txt", "sub/m.txt", "sub", "sub/", "m.txt", "", ".", "../secret.txt", "../late/l.txt", "late/l.txt", "public/a.txt",
	"a.txt", "secret", "sub/../l.txt", "./l.txt", "/etc/hostname", "static/s.txt", "l.txt/"}

func c16DirMount(c *c16Case) string {
	mount := strings.TrimSuffix(c.Prefix, "/")
	switch c.Variant {
	case 4, 5, 12, 15, 17, 22, 31, 35, 37:
		mount = "/g" + mount
	case 26:
		return "/v/" + c.PVal + "/assets"
	case 27, 29:
		return "/" + c.PVal + "/files"
	case 28:
		return "/" + c.PVal + "/x/s"
	}
	return mount
}

func c16GenCase(r *rand.Rand, big bool) *c16Case {
	c := &c16Case{}
	switch r.Intn(10) {
	case 0, 1, 2:
		c.Kind = 1
		c.Variant = r.Intn(c16NumDirVariants)
		c.Prefix = c16Pick(r, []string{"/assets", "/assets", "/", "", "/a/b", "/static", "/assets/"})
		c.PVal = c16Pick(r, c16PVals)
		switch c.Variant {
		case 13, 14, 15:
			c.SubRoot = c16Pick(r, c16SubRoots)
		case 16, 17:
			c.Fault = []int{0, 1, 2, 4, 4}[r.Intn(5)]
		case 30, 31, 32, 33, 34, 35:
			c.SubRoot = c16Pick(r, c16LateRoots)
			c.Late = c16Pick(r, c16LatePatterns)
		}
		if c16UsesLate(c) && r.Intn(3) != 0 {
			t := c16Pick(r, c16LateTargets)
			if r.Intn(4) == 0 && !strings.Contains(t, "@") {
				t = c16Encode(r, t)
			}
			c16SetTarget(r, c, c16DirMount(c)+"/"+t)
			if r.Intn(3) == 0 {
				c.Warm = lat1(c16DirMount(c) + "/" + c16Pick(r, c16LateTargets))
			}
			return c
		}
		c16SetTarget(r, c, c16GenTarget(r, c16DirMount(c), big))
		if r.Intn(6) == 0 {
			c.Warm = lat1(c16DirMount(c) + "/" + c16Pick(r, c16RealPaths))
		}
		if c16CaseCwd(c) != "" && r.Intn(4) == 0 {
			c.Chdir, c.ChdirAt = c16Pick(r, []string{c16Elsewhere, c16Elsewhere, c16Elsewhere + "/public", "static"}), 1+r.Intn(2)
		}
		if r.Intn(5) == 0 {
			c.Reassign = 1 + r.Intn(2)
		}
		if r.Intn(5) == 0 {
			c.Second = 1 + r.Intn(6)
			if _, sm := c16SecondRoute(c); r.Intn(4) == 0 {
				// a request for the second route
				c16SetTarget(r, c, c16GenTarget(r, sm, big))
				if r.Intn(2) == 0 {
					c.Path, c.RawPath = lat1(sm+"/"+c16Pick(r, []string{"a.txt", "index.html", "dir/b.txt", "", "dir", "../a.txt", "../../secret.txt", "nope"})), ""
				}
			}
		}
	case 3:
		c.Kind = 2
		c.Variant = r.Intn(c16NumFileVariants)
		c.File = c16Pick(r, c16Files)
		c.Path = "/f"
		if (c.Variant == 0 || c.Variant == 1) && r.Intn(3) == 0 {
			c.Second = 1 + r.Intn(2)
			if c.Variant == 1 {
				c.Path = "/g/f"
			}
			if r.Intn(4) == 0 {
				c.Path = "/zzf"
			}
			return c
		}
		switch c.Variant {
		case 10, 11:
			c.SubRoot = c16Pick(r, c16LateRoots)
			c.Late = c16Pick(r, c16LatePatterns)
			if r.Intn(3) != 0 {
				c.File = c16Pick(r, c16LateFiles)
			}
			if c.Variant == 11 {
				c.Path = "/g/f"
			}
		case 1, 8:
			c.Path = "/g/f"
		case 3:
			c.Fault = []int{0, 0, 1, 2, 4}[r.Intn(5)]
		case 4, 5:
			c.Fault = []int{0, 0, 0, 1, 2, 4}[r.Intn(6)]
			c.Disp = lat1(c16Pick(r, c16Disp))
		case 7:
			c.Fault = []int{0, 0, 0, 1, 2, 4}[r.Intn(6)]
			c.File = ""
			c16SetTarget(r, c, c16GenTarget(r, "/dl", big))
			return c
		}
		if r.Intn(8) == 0 {
			c.Path = lat1(c16Pick(r, []string{"/f", "/g/f", "/f/", "/f/../secret.txt", "/f/a.txt"}))
		}
		if c.Variant == 6 && r.Intn(3) == 0 {
			c.Chdir, c.ChdirAt = c16Elsewhere, 1+r.Intn(2)
		}
		if (c.Variant == 2 || c.Variant == 8) && r.Intn(3) == 0 {
			c.Reassign = 1
		}
	default:
		c.Kind = 0
		c.Mount = r.Intn(c16NumMounts)
		c.FS = r.Intn(c16NumMwFS)
		c.Index = c16Pick(r, []string{"", "", "index.html", "nope.html", "a.txt", "d.txt", "dir/b.txt", "a+b.txt"})
		c.HTML5 = r.Intn(3) == 0
		c.Browse = r.Intn(3) == 0
		c.IgnoreBase = r.Intn(3) == 0
		if c16MwDefaultFS(c.FS) {
			c.Ctor = r.Intn(4) == 0
		} else if r.Intn(8) == 0 {
			c.Fault = 1 + r.Intn(3)
		}
		if r.Intn(5) == 0 {
			c.Skip = 1 + r.Intn(3)
		}
		if c.FS == 16 {
			c.SubRoot = c16Pick(r, c16LateRoots)
			c.Late = c16Pick(r, c16LatePatterns)
		}
		if c16MwDefaultFS(c.FS) && c.FS != 0 && r.Intn(5) == 0 {
			c.Chdir, c.ChdirAt = c16Pick(r, []string{c16Elsewhere, c16Elsewhere + "/public"}), 1+r.Intn(2)
		}
		if r.Intn(6) == 0 {
			c.Warm = lat1(c16MwMountPrefix[c.Mount] + "/" + c16Pick(r, c16RealPaths))
		}
		if r.Intn(8) == 0 {
			// IgnoreBase focus: the rewrite of the joined name, on file systems where Root is a proper sub-directory
			c.IgnoreBase = true
			c.Ctor = false
			c.FS = []int{3, 3, 5, 6, 2, 0, 14, 15}[r.Intn(8)]
			c.Browse = r.Intn(2) == 0
			dirs := []string{"", "dir/", ".../", "static/", "dir/sub/", ".../secret/", "nope/", "a.txt/", ".../t.txt/", ".../static/", ".../public.bak/", "..../", ".../.../"}
			last := []string{".", ".", "static", "files", "%2e", "./", "static/", "..", "public", "static/.", "files/"}
			c16SetTarget(r, c, c16MwMountPrefix[c.Mount]+"/"+c16Pick(r, dirs)+c16Pick(r, last))
			return c
		}
		if c.Skip == 3 && r.Intn(2) == 0 {
			// requests the path-prefix Skipper lets through to the next handler
			c16SetTarget(r, c, "/api/"+c16Pick(r, []string{"ok", "../a.txt", "../../secret", "a.txt", "", "%2e%2e/secret.txt", "../index.html"}))
			return c
		}
		if c.FS == 16 && r.Intn(3) != 0 {
			t := c16Pick(r, c16LateTargets)
			if r.Intn(4) == 0 && !strings.Contains(t, "@") {
				t = c16Encode(r, t)
			}
			c16SetTarget(r, c, c16MwMountPrefix[c.Mount]+"/"+t)
			if r.Intn(3) == 0 {
				c.Warm = lat1(c16MwMountPrefix[c.Mount] + "/" + c16Pick(r, c16LateTargets))
			}
			return c
		}
		c16SetTarget(r, c, c16GenTarget(r, c16MwMountPrefix[c.Mount], big))
	}
	return c
}

func c16Gen(r *rand.Rand, tier string) []any {
	n := 9000
	if tier == "thorough" {
		n = 150000
	}
	var out []any
	// every regular file under the root by its clean path, through every mount
	for _, e := range c16Tree {
		_ = e
	}
	for _, p := range c16Layout {
		if !strings.HasPrefix(p, c16RootName+"/") || strings.HasSuffix(p, "/") {
			continue
		}
		rel := strings.TrimPrefix(p, c16RootName+"/")
		for m := 0; m < c16NumMounts; m++ {
			for _, f := range []int{0, 1, 2, 3, 5, 7, 9} {
				out = append(out, &c16Case{Kind: 0, Mount: m, FS: f, Path: lat1(c16MwMountPrefix[m] + "/" + rel)})
			}
		}
		for v := 0; v < c16NumDirVariants; v++ {
			for _, pv := range []string{"a.txt", "dir", "acme", "1"} {
				dc := &c16Case{Kind: 1, Variant: v, Prefix: "/assets", SubRoot: c16RootName, PVal: pv}
				if v >= 20 && v <= 25 && !strings.HasPrefix(c16RootName+"/"+rel, c16Derived[v].rel+"/") {
					break // this file is not under the derived root
				}
				full := rel
				if v >= 20 && v <= 25 {
					full = strings.TrimPrefix(c16RootName+"/"+rel, c16Derived[v].rel+"/")
				}
				dc.Path = lat1(c16DirMount(dc) + "/" + full)
				out = append(out, dc)
				if v < 26 {
					break
				}
			}
		}
		// ... and through the File helpers (the route names the file; the download handler takes it from the request)
		for _, v := range []int{0, 2, 3, 4, 6, 8, 9} {
			fc := &c16Case{Kind: 2, Variant: v, File: rel, Path: "/f", Disp: "x.bin"}
			if v == 8 {
				fc.Path = "/g/f"
			}
			out = append(out, fc)
		}
		out = append(out, &c16Case{Kind: 2, Variant: 7, Path: lat1("/dl/" + rel)})
		// ... with the working directory changed after echo.New() / after the registration (child set-ups) and with
		// Echo.Filesystem reassigned after the registration
		for _, v := range []int{1, 8, 12, 21, 22} {
			for at := 1; at <= 2; at++ {
				dc := &c16Case{Kind: 1, Variant: v, Prefix: "/assets", Chdir: c16Elsewhere, ChdirAt: at}
				full := rel
				if v >= 20 {
					if !strings.HasPrefix(c16RootName+"/"+rel, c16Derived[v].rel+"/") {
						continue
					}
					full = strings.TrimPrefix(c16RootName+"/"+rel, c16Derived[v].rel+"/")
				}
				dc.Path = lat1(c16DirMount(dc) + "/" + full)
				out = append(out, dc)
			}
		}
		for _, v := range []int{0, 4, 6, 14, 15, 2, 5} {
			dc := &c16Case{Kind: 1, Variant: v, Prefix: "/assets", SubRoot: c16RootName, Reassign: 1 + len(rel)%2}
			dc.Path = lat1(c16DirMount(dc) + "/" + rel)
			out = append(out, dc)
		}
		// ... with a second static route on the same Echo (registered before / after, Echo and Group, Static and StaticFS)
		// and through the exported handler mounted by hand (with and without path unescaping)
		for _, vs := range [][2]int{{0, 4}, {0, 5}, {4, 6}, {2, 1}, {2, 2}, {5, 3}, {0, 1}, {4, 4}} {
			dc := &c16Case{Kind: 1, Variant: vs[0], Prefix: "/assets", Second: vs[1]}
			dc.Path = lat1(c16DirMount(dc) + "/" + rel)
			out = append(out, dc)
		}
		if _, ok := c16ByRel[c16SecondRootRel+"/"+rel]; ok {
			// the same name exists in the second tree: asked under the second mount it comes from there
			for _, vs := range [][2]int{{0, 4}, {0, 5}, {4, 6}, {2, 1}, {2, 2}, {5, 3}} {
				dc := &c16Case{Kind: 1, Variant: vs[0], Prefix: "/assets", Second: vs[1]}
				_, sm := c16SecondRoute(dc)
				dc.Path = lat1(sm + "/" + rel)
				out = append(out, dc)
			}
			for k := 1; k <= 2; k++ {
				out = append(out, &c16Case{Kind: 2, Variant: 0, File: rel, Second: k, Path: "/f"}, &c16Case{Kind: 2, Variant: 0, File: rel, Second: k, Path: "/zzf"},
					&c16Case{Kind: 2, Variant: 1, File: rel, Second: k, Path: "/g/f"})
			}
		}
		// ... and through the convenience constructor and a Skipper that lets the request pass
		for _, f := range []int{0, 1, 9, 13} {
			out = append(out, &c16Case{Kind: 0, Mount: 0, FS: f, Ctor: true, Path: lat1("/" + rel)})
		}
		out = append(out, &c16Case{Kind: 0, Mount: 2, FS: 3, Skip: 3, Path: lat1("/static/" + rel)})
	}
	// a root on the default file system that does not exist (or is a regular file, or is created / removed while the
	// case runs): (a) every file of the directory by its clean path, through every such configuration, for every
	// history in which the directory is there when the request is served; (b) every file of the working directory W
	// by its path relative to W, by its absolute name and by a climbing name, against roots that are not there
	k8 := 0
	for _, e := range c16LateLayout {
		if strings.HasSuffix(e, "/") {
			continue
		}
		rel := strings.TrimPrefix(e, c16LateDir+"/")
		for _, pat := range []string{"0011", "0001", "1111", "0111", "1101", "1011"} {
			for v := 30; v <= 35; v++ {
				dc := &c16Case{Kind: 1, Variant: v, Prefix: "/assets", SubRoot: c16LateDir, Late: pat}
				full := rel
				if v == 34 {
					if !strings.HasPrefix(rel, "sub/") {
						continue
					}
					full = strings.TrimPrefix(rel, "sub/")
				}
				dc.Path = lat1(c16DirMount(dc) + "/" + full)
				if pat == "0001" || pat == "1101" {
					dc.Warm = dc.Path // the same file asked for while the directory is not there
				}
				out = append(out, dc)
			}
			out = append(out, &c16Case{Kind: 2, Variant: 10 + k8%2, SubRoot: c16LateDir, Late: pat, File: rel, Path: lat1([]string{"/f", "/g/f"}[k8%2])})
			mc := &c16Case{Kind: 0, Mount: []int{0, 2, 3}[k8%3], FS: 16, SubRoot: c16LateDir, Late: pat, Ctor: k8%2 == 0}
			mc.Path = lat1(c16MwMountPrefix[mc.Mount] + "/" + rel)
			if pat == "0001" {
				mc.Warm = mc.Path
			}
			out = append(out, mc)
			k8++
		}
	}
	for _, p := range append(append([]string(nil), c16Layout...), c16LateLayout...) {
		if strings.HasSuffix(p, "/") {
			continue
		}
		for _, t := range []string{p, c16AbsW + "/" + p, "sub/../" + p} {
			root := []string{"nope", c16LateDir, "public/a.txt", "nope/deeper", "late/sub"}[k8%5]
			pat := []string{"0000", "1100", "1000", "0100"}[k8%4]
			if root == "late/sub" {
				pat = "0000"
			}
			dc := &c16Case{Kind: 1, Variant: 30 + k8%6, Prefix: "/assets", SubRoot: root, Late: pat}
			dc.Path = lat1(c16DirMount(dc) + "/" + t)
			out = append(out, dc)
			if k8%4 == 0 && !strings.Contains(t, "@") {
				out = append(out, &c16Case{Kind: 2, Variant: 10 + k8%2, SubRoot: root, Late: pat, File: t, Path: lat1([]string{"/f", "/g/f"}[k8%2])})
			}
			if k8%6 == 0 {
				mc := &c16Case{Kind: 0, Mount: 0, FS: 16, SubRoot: root, Late: pat, Path: lat1("/" + t)}
				out = append(out, mc)
			}
			k8++
		}
	}
	// a fixed battery first: every outside target, encoded in every fashion, against the
	// configurations whose file system is rooted above Root and against the plain ones
	reps := 1
	if tier == "thorough" {
		reps = 4
	}
	for k := 0; k < reps; k++ {
		for _, o := range c16Outside {
			for _, f := range []int{3, 5, 6, 0, 2, 9} {
				for _, m := range []int{0, 2, 5} {
					c := &c16Case{Kind: 0, Mount: m, FS: f, Browse: k%2 == 1}
					c16SetTarget(r, c, c16MwMountPrefix[m]+"/"+c16Encode(r, o))
					out = append(out, c)
				}
			}
			for v := 0; v < c16NumDirVariants; v++ {
				c := &c16Case{Kind: 1, Variant: v, Prefix: "/assets", SubRoot: c16RootName, PVal: c16Pick(r, c16PVals)}
				c16SetTarget(r, c, c16DirMount(c)+"/"+c16Encode(r, o))
				out = append(out, c)
			}
			for _, f := range []int{0, 1, 9, 13} {
				c := &c16Case{Kind: 0, Mount: 0, FS: f, Ctor: true}
				c16SetTarget(r, c, "/"+c16Encode(r, o))
				out = append(out, c)
			}
			dl := &c16Case{Kind: 2, Variant: 7}
			c16SetTarget(r, dl, "/dl/"+c16Encode(r, o))
			out = append(out, dl)
		}
	}
	// every outside target with its dot-dot elements written as look-alikes around every droppable byte
	// sequence, against the configurations whose file system is rooted above Root (where a ".." surviving
	// in the name given to Open leaves the root), the plain ones, the Static(FS) routes and the download handler
	form := 0
	for k := 0; k < reps; k++ {
		for _, o := range c16Outside {
			for _, d := range c16Droppable {
				for _, f := range []int{3, 5, 6, 14, 15, 2, 0} {
					m := []int{0, 2, 5, 4}[form%4]
					c := &c16Case{Kind: 0, Mount: m, FS: f, Browse: form%2 == 1, HTML5: form%5 == 0}
					c16SetTarget(r, c, c16MwMountPrefix[m]+"/"+c16Smuggle(o, d, form))
					out = append(out, c)
					form++
				}
				dc := &c16Case{Kind: 1, Variant: []int{2, 3, 13, 6, 0, 21, 28}[form%7], Prefix: "/assets", SubRoot: c16RootName, PVal: "dir"}
				c16SetTarget(r, dc, c16DirMount(dc)+"/"+c16Smuggle(o, d, form))
				dl := &c16Case{Kind: 2, Variant: 7}
				c16SetTarget(r, dl, "/dl/"+c16Smuggle(o, d, form+1))
				out = append(out, dc, dl)
			}
		}
	}
	for i := 0; i < n; i++ {
		out = append(out, c16GenCase(r, tier == "thorough" && i%3 == 0))
	}
	return out
}

// ---------- shrinking ----------

func c16Shrink(ci any) []any {
	c := ci.(*c16Case)
	var out []any
	add := func(f func(d *c16Case)) {
		d := *c
		f(&d)
		out = append(out, &d)
	}
	if c.RawPath != "" {
		add(func(d *c16Case) { d.RawPath = "" })
	}
	if c.HTML5 {
		add(func(d *c16Case) { d.HTML5 = false })
	}
	if c.Browse {
		add(func(d *c16Case) { d.Browse = false })
	}
	if c.IgnoreBase {
		add(func(d *c16Case) { d.IgnoreBase = false })
	}
	if c.Index != "" {
		add(func(d *c16Case) { d.Index = "" })
	}
	if c.Warm != "" {
		add(func(d *c16Case) { d.Warm = "" })
	}
	if c.Chdir != "" {
		add(func(d *c16Case) { d.Chdir, d.ChdirAt = "", 0 })
	}
	if c.Reassign != 0 {
		add(func(d *c16Case) { d.Reassign = 0 })
	}
	if c.Second != 0 {
		add(func(d *c16Case) { d.Second = 0 })
	}
	if c.Late != "" {
		add(func(d *c16Case) { d.Late = "" })
		if c.Late != "0000" && c.Late != "0011" {
			add(func(d *c16Case) { d.Late = "0011" })
		}
	}
	if c.PVal != "" && c.PVal != "x" && c.Kind == 1 && c.Variant >= 26 {
		old := c16DirMount(c)
		add(func(d *c16Case) {
			d.PVal = "x"
			d.Path = lat1(strings.Replace(string(c.Path), old, c16DirMount(d), 1))
			d.RawPath = lat1(strings.Replace(string(c.RawPath), old, c16DirMount(d), 1))
		})
	}
	if c.Skip != 0 {
		add(func(d *c16Case) { d.Skip = 0 })
	}
	if c.Fault != 0 {
		add(func(d *c16Case) { d.Fault = 0 })
	}
	if c.Ctor {
		add(func(d *c16Case) { d.Ctor = false })
	}
	if c.Disp != "" {
		add(func(d *c16Case) { d.Disp = "" })
	}
	// drop path segments, then single characters
	for _, which := range []int{0, 1} {
		s := string(c.Path)
		if which == 1 {
			s = string(c.RawPath)
		}
		if s == "" {
			continue
		}
		segs := strings.Split(s, "/")
		for i := 1; i < len(segs); i++ {
			t := strings.Join(append(append([]string(nil), segs[:i]...), segs[i+1:]...), "/")
			if t == "" {
				t = "/"
			}
			if which == 0 {
				add(func(d *c16Case) { d.Path = lat1(t) })
			} else {
				add(func(d *c16Case) { d.RawPath = lat1(t) })
			}
		}
		if len(s) <= 40 {
			for i := 1; i < len(s); i++ {
				t := s[:i] + s[i+1:]
				if which == 0 {
					add(func(d *c16Case) { d.Path = lat1(t) })
				} else {
					add(func(d *c16Case) { d.RawPath = lat1(t) })
				}
			}
		}
	}
	return out
}

func init() {
	register(&Prop{
		ID:             "C16",
		Rule:           "marker tree created at run time under <verif>/.work (root `public` with files, nested directories, a `...` directory, names with space, %, non-ASCII; secrets and look-alike siblings `public.bak`, `publicsecret`, `secret`, `index.html`, `static/` next to the root). Requests: raw targets over the adversarial segment alphabet (.., ., %2e, %2e%2e, %2f, %5c, \\, empty, double encodings, overlong/invalid UTF-8, malformed escapes; dot-dot look-alikes around bytes a sanitiser might drop — NUL, LF, CR, TAB, DEL, VT, space, U+200B, U+FEFF, U+00AD: `.%00.`, `%00..`, `..%00`, `.%2500.` — and names cut short at such a byte) mixed with real names, real paths spliced with one adversarial segment, encoded paths to the outside secrets, IgnoreBase shapes (last element = route base or `.`); URL.Path/RawPath derived as net/http would, or set verbatim. Configurations: Static middleware (StaticWithConfig and the convenience constructor Static(root)) x mount {e.Use, e.Pre, group /static, e.Use + catch-all route, group /files, e.Use + /st*, two instances in one chain} x Skipper {nil, false, true, by path prefix} x injected failures of the file objects {Stat of files, Stat of directories, Readdir} x file system {default http.Dir with absolute / relative / unclean / dot-dot Root (working directory W or the web root), recording http.Dir(root), http.Dir(parent)+Root, http.FS(os.DirFS), http.FS(os.DirFS(parent))+Root, http.FS(MapFS)+Root, http.FS(fs.Sub(MapFS))} x Index x HTML5 x Browse x IgnoreBase; Echo.Static / StaticFS / Group.Static / StaticFS (also mounted below path parameters — /v/:ver/assets, group /:tenant, /:a/:b/s — with parameter values that name files and directories under the root; also on a DEFAULT Echo.Filesystem that was first narrowed by MustSubFS of itself: absolute, relative, `..`, `.`, three levels) x {absolute, relative root, os.DirFS, fs.Sub(MapFS), custom Echo.Filesystem, MustSubFS} x prefixes; TIMING: in the child-process set-ups the working directory is changed after echo.New() or after the registration (Static routes on the default file system must keep the root of echo.New() time; the middleware's http.Dir(relative) and File on the default file system follow the process), and Echo.Filesystem is reassigned after the routes were registered (Static / StaticFS routes of Echo and Group keep their root; File routes follow). FileFS / File routes of Echo and Group, Context.FileFS / Attachment / Inline (Content-Disposition compared), File on the DEFAULT Echo.Filesystem (os.Open: relative to the working directory, absolute), a download handler taking the name from the request; MustSubFS roots (valid, unclean, climbing, rooted: must panic); fs.FS whose files fail Stat or cannot seek; a third request path may be served first through the same Echo (state carried between requests). ROOT EXISTENCE (round 8): Static / Group.Static / StaticFS(MustSubFS) / File routes on the DEFAULT file system (relative, absolute, second-level roots) and the Static middleware whose root does not exist when the route is registered / the middleware constructed - never there, a regular file, or a directory `late` that the case creates and removes between echo.New(), the registration, a first request and the request (all 4-moment histories) - with requests naming files of the working directory by relative, absolute (after a double slash) and climbing names, and every file of the late directory by its clean path for every history in which it exists at the request. TWO static routes on one Echo (Echo.Static / Group.Static / StaticFS / FileFS registered before or after the case's own one, rooted at a tree with the same file names): each mount answers from its own root. The exported echo.StaticDirectoryHandler mounted by hand, with path unescaping disabled (the parameter is used as it is; names with % are served by their clean path) and enabled. The tree also holds names with URL-special bytes (+ & = ; ? # * : ~ $ ! ' ( ) , @ backslash, double space) next to look-alike siblings. Every regular file under the root is also requested by its clean path through every mount. non-trivial = request with dot-dot / percent / backslash / double slash, or a response that is a file or a listing; distinct = distinct model op lines",
		New:            func() any { return &c16Case{} },
		Gen:            func(r *rand.Rand, tier string) []any { c16Setup(); return c16Gen(r, tier) },
		Run:            c16Run,
		Shrink:         c16Shrink,
		Known:          c16Known,
		Tolerable:      c16Tolerable,
		Correspondence: "C16.mw / C16.staticDir / C16.fsFile (lean/EchoModel/C16.lean) vs middleware.StaticWithConfig, echo.StaticDirectoryHandler, fsFile through e.ServeHTTP",
		Extra: func(tier string, seed int64) map[string]any {
			c16Cleanup()
			return nil
		},
	})
}

// c16Known recognises known findings by signature.
//
// F18: the path handed to url.PathUnescape is already decoded (URL.Path, or a wildcard
// parameter taken from it when URL.RawPath is empty), so a file whose name contains '%' cannot
// be requested by its clean path: the second decoding fails (the request is refused) or names
// another file (not found; in HTML5 mode the middleware answers a not-found with the index document).
// Signature = the failing INPUT and the failed clause: the positive rule of the oracle failed (so no
// containment rule did), on a configuration that unescapes the request path (the Static middleware,
// the Static / StaticFS routes; NOT the File helpers, which take the name as it is), URL.RawPath is
// empty, URL.Path contains a literal '%', and the file was treated as undecodable / not found: refused
// with some 4xx / 5xx status (whichever), or - by the middleware - handed to the next handler, or answered
// with the HTML5 fallback document.  Neither the exact status nor the agreement with the model is part of
// the signature.
func c16Known(ci any, res Result, modelObs string) string {
	c := ci.(*c16Case)
	if !strings.HasPrefix(res.Oracle, "existing file ") || c.RawPath != "" || !strings.Contains(string(c.Path), "%") || c.Kind == 2 {
		return ""
	}
	if c.Kind == 1 && (c.Variant == 36 || c.Variant == 37) {
		// StaticDirectoryHandler(fsys, true) does not unescape: a name with '%' IS served by its clean path
		// (C16_raw_serves_clean_path); a failure there is not F18
		return ""
	}
	if c16ObsRefusal(c, res.Obs) {
		return "F18"
	}
	if o, ok := c16ObsOf(c, res.Obs); ok && c.Kind == 0 {
		// the middleware treats the file as not found: the next handler answers, or (HTML5) the index document does
		if o.out[0] == "next-ok" || c.HTML5 && !c.Ctor && o.out[0] == "file" {
			return "F18"
		}
	}
	return ""
}
