package main

// C16 — static file serving never leaves its root.
// Real code: middleware.StaticWithConfig (e.Use / e.Pre / group mounts, default and custom
// http.FileSystem), Echo.Static / StaticFS / Group.Static / StaticFS, FileFS / File, driven
// through e.ServeHTTP against a marker tree created at run time.
// Model: lean/EchoModel/C16.lean (mw, staticDir, fsFile).

import (
	"fmt"
	"html"
	"io/fs"
	"math/rand"
	"net/http"
	"net/http/httptest"
	"net/url"
	"os"
	"path"
	"path/filepath"
	"regexp"
	"sort"
	"strings"
	"sync"
	"testing/fstest"

	"github.com/labstack/echo/v4"
	"github.com/labstack/echo/v4/middleware"
)

// ---------- the marker tree ----------

type c16Entry struct {
	rel  string // relative to the work directory
	dir  bool
	id   int // files only
	body string
}

var (
	c16Once    sync.Once
	c16Work    string // work directory W
	c16Root    string // W/public
	c16Tree    []c16Entry
	c16ByBody  = map[string]int{}
	c16ByRel   = map[string]*c16Entry{}
	c16MapFS   fstest.MapFS
	c16TreeW   string // wire form of the tree
	c16InitErr error
)

const c16RootName = "public"

// files inside the root carry MARK-IN, everything else under the work directory MARK-OUT
var c16Layout = []string{
	"index.html", "secret", "secret.txt", "publicsecret", "public.bak/", "public.bak/x.txt", "static/", "static/s.txt", "static/index.html",
	"public/", "public/index.html", "public/a.txt", "public/secret.txt", "public/dir/", "public/dir/index.html", "public/dir/b.txt",
	"public/dir/sub/", "public/dir/sub/c.txt", "public/empty/", "public/static/", "public/static/d.txt", "public/static/index.html",
	"public/.../", "public/.../t.txt", "public/.../secret", "public/sp ace.txt", "public/100%.txt", "public/pct%2e.txt",
	"public/\xc3\xa9.txt", "public/.hidden", "public/x.y.z", "public/dir/public/", "public/dir/public/p.txt",
}

func c16VerifDir() string {
	for i, a := range os.Args {
		if (a == "-verif" || a == "--verif") && i+1 < len(os.Args) {
			return os.Args[i+1]
		}
		if strings.HasPrefix(a, "-verif=") {
			return strings.TrimPrefix(a, "-verif=")
		}
	}
	if d := os.Getenv("VERIF_DIR"); d != "" {
		return d
	}
	return "/verif"
}

func c16Setup() {
	c16Once.Do(func() {
		attach := os.Getenv(c16ChildEnv) // a child process uses the tree its parent created
		w := attach
		if attach == "" {
			base, err := filepath.Abs(filepath.Join(c16VerifDir(), ".work"))
			if err != nil {
				c16InitErr = err
				return
			}
			if err := os.MkdirAll(base, 0o755); err != nil {
				c16InitErr = err
				return
			}
			w, err = os.MkdirTemp(base, "c16-tree-")
			if err != nil {
				c16InitErr = err
				return
			}
		}
		c16Work = w
		c16Root = filepath.Join(w, c16RootName)
		l := append([]string(nil), c16Layout...)
		sort.Slice(l, func(i, j int) bool { return strings.TrimSuffix(l[i], "/") < strings.TrimSuffix(l[j], "/") })
		c16MapFS = fstest.MapFS{}
		id := 0
		for _, p := range l {
			if strings.HasSuffix(p, "/") {
				rel := strings.TrimSuffix(p, "/")
				if attach == "" {
					if err := os.MkdirAll(filepath.Join(w, rel), 0o755); err != nil {
						c16InitErr = err
						return
					}
				}
				c16Tree = append(c16Tree, c16Entry{rel: rel, dir: true})
				c16MapFS[rel] = &fstest.MapFile{Mode: fs.ModeDir | 0o755}
				continue
			}
			mark := "MARK-OUT"
			if strings.HasPrefix(p, c16RootName+"/") {
				mark = "MARK-IN"
			}
			body := fmt.Sprintf("%s-%d:%s\n", mark, id, p)
			if attach == "" {
				if err := os.WriteFile(filepath.Join(w, p), []byte(body), 0o644); err != nil {
					c16InitErr = err
					return
				}
			}
			c16Tree = append(c16Tree, c16Entry{rel: p, id: id, body: body})
			c16MapFS[p] = &fstest.MapFile{Data: []byte(body), Mode: 0o644}
			c16ByBody[body] = id
			id++
		}
		parts := []string{wInt(len(c16Tree))}
		for i := range c16Tree {
			e := &c16Tree[i]
			c16ByRel[e.rel] = e
			if e.dir {
				parts = append(parts, wStr(e.rel), "0")
			} else {
				parts = append(parts, wStr(e.rel), wInt(e.id+1))
			}
		}
		c16TreeW = strings.Join(parts, " ")
		// The harness process never changes its working directory: configurations whose root is
		// relative to the working directory run in child processes (c16_child.go).
	})
}

func c16Cleanup() {
	c16StopChildren()
	if c16Work != "" && strings.Contains(c16Work, "c16-tree-") && os.Getenv(c16ChildEnv) == "" {
		os.RemoveAll(c16Work)
	}
}

// ---------- cases ----------

type c16Case struct {
	Kind int `json:"kind"` // 0 Static middleware, 1 Echo/Group Static(FS), 2 FileFS / File route
	// middleware
	Mount      int    `json:"mount"` // 0 e.Use, 1 e.Pre, 2 group /static, 3 e.Use with catch-all GET /*, 4 group /files + route, 5 e.Use with GET /st*
	FS         int    `json:"fs"`    // see c16MwFS
	Index      string `json:"index"`
	HTML5      bool   `json:"html5"`
	Browse     bool   `json:"browse"`
	IgnoreBase bool   `json:"ignore_base"`
	// Static(FS) routes
	Variant int    `json:"variant"` // see c16RunDir
	Prefix  string `json:"prefix"`
	// file routes
	File string `json:"file"`
	// request
	Path    lat1 `json:"path"`
	RawPath lat1 `json:"raw_path"`
}

type c16RecHTTP struct {
	inner http.FileSystem
	names *[]string
}

func (r c16RecHTTP) Open(name string) (http.File, error) {
	*r.names = append(*r.names, name)
	return r.inner.Open(name)
}

// c16RecFS implements only Open, so fs.Stat goes through Open as well.
type c16RecFS struct {
	inner fs.FS
	names *[]string
}

func (r c16RecFS) Open(name string) (fs.File, error) {
	*r.names = append(*r.names, name)
	return r.inner.Open(name)
}

func c16Sub(f fs.FS, dir string) fs.FS {
	s, err := fs.Sub(f, dir)
	if err != nil {
		panic(err)
	}
	return s
}

type c16Routing struct {
	seen                 bool
	cPath, star, urlPath string
	nextCalled, nextOK   bool
}

func (rt *c16Routing) rec(next echo.HandlerFunc) echo.HandlerFunc {
	return func(c echo.Context) error {
		rt.seen = true
		rt.cPath, rt.star, rt.urlPath = c.Path(), c.Param("*"), c.Request().URL.Path
		return next(c)
	}
}

func (rt *c16Routing) tail(next echo.HandlerFunc) echo.HandlerFunc {
	return func(c echo.Context) error {
		rt.nextCalled = true
		err := next(c)
		rt.nextOK = err == nil
		return err
	}
}

const c16NextBody = "OK-NEXT"

func c16OK(c echo.Context) error { return c.String(http.StatusOK, c16NextBody) }

var c16Anchor = regexp.MustCompile(`<a class="(?:dir|file)" href="[^"]*">([^<]*)</a>`)
var c16Header = regexp.MustCompile(`(?s)<header>\s*(.*?)\s*</header>`)

// c16Outcome renders the response in the model's vocabulary.
func c16Outcome(kind int, code int, body string, panicked bool) (string, []string) {
	if panicked {
		return "panic", nil
	}
	switch {
	case code == http.StatusOK:
		if body == c16NextBody {
			return "next-ok", nil
		}
		if id, ok := c16ByBody[body]; ok {
			return "file " + wInt(id), nil
		}
		if strings.Contains(body, "<!DOCTYPE html>") && strings.Contains(body, "<header>") {
			title := ""
			if m := c16Header.FindStringSubmatch(body); m != nil {
				title = html.UnescapeString(m[1])
			}
			var names []string
			for _, m := range c16Anchor.FindAllStringSubmatch(body, -1) {
				names = append(names, html.UnescapeString(m[1]))
			}
			sort.Slice(names, func(i, j int) bool { return strings.TrimSuffix(names[i], "/") < strings.TrimSuffix(names[j], "/") })
			parts := []string{"list", wStr(title), wInt(len(names))}
			for _, n := range names {
				parts = append(parts, wStr(n))
			}
			return strings.Join(parts, " "), names
		}
		return fmt.Sprintf("other-200-%d-bytes", len(body)), nil
	case code == http.StatusNotFound:
		if kind == 0 {
			return "next-404", nil
		}
		return "404", nil
	case code == http.StatusInternalServerError:
		return "err500", nil
	case code == http.StatusMovedPermanently:
		return "redirect", nil
	}
	return fmt.Sprintf("other-%d", code), nil
}

// names that only exist in directories outside the root
var c16OutsideNames = map[string]bool{"public.bak/": true, "publicsecret": true, "s.txt": true, "x.txt": true}

func c16Serve(e *echo.Echo, c *c16Case) (code int, body string, panicked bool, pmsg string) {
	req := httptest.NewRequest(http.MethodGet, "/", nil)
	req.URL = &url.URL{Path: string(c.Path), RawPath: string(c.RawPath)}
	req.RequestURI = string(c.Path)
	rec := httptest.NewRecorder()
	func() {
		defer func() {
			if p := recover(); p != nil {
				panicked, pmsg = true, fmt.Sprint(p)
			}
		}()
		e.ServeHTTP(rec, req)
	}()
	return rec.Code, rec.Body.String(), panicked, pmsg
}

// c16Oracle evaluates the property itself on the response.
func c16Oracle(c *c16Case, mountPrefix string, code int, body string, listed []string, isList bool) string {
	if strings.Contains(body, "MARK-OUT") {
		i := strings.Index(body, "MARK-OUT")
		j := i + 60
		if j > len(body) {
			j = len(body)
		}
		return fmt.Sprintf("response (status %d) contains the content of a file outside the root: %q", code, strings.TrimSpace(body[i:j]))
	}
	if isList {
		for _, n := range listed {
			if c16OutsideNames[n] {
				return fmt.Sprintf("response lists a directory outside the root (entry %q among %q)", n, listed)
			}
		}
	}
	// a request naming an existing regular file under the root by its clean path gets exactly its bytes
	if mountPrefix != "\x00" && c.RawPath == "" {
		p := string(c.Path)
		if strings.HasPrefix(p, mountPrefix+"/") {
			rel := strings.TrimPrefix(p, mountPrefix+"/")
			if rel != "" && path.Clean(rel) == rel && !strings.HasPrefix(rel, "..") {
				if e, ok := c16ByRel[c16RootName+"/"+rel]; ok && !e.dir {
					if code != http.StatusOK || body != e.body {
						return fmt.Sprintf("existing file %q requested by its clean path %q: status %d, body %q", rel, p, code, c16Short(body))
					}
				}
			}
		}
	}
	return ""
}

func c16Short(s string) string {
	if len(s) > 60 {
		return s[:60] + "..."
	}
	return s
}

var c16MwMountPrefix = []string{"", "", "/static", "", "/files", "/st"}

const c16NumMounts = 6

// middleware file systems: (recording?, rooted at W?, Root option)
//
//	0 default: Root = absolute root directory, no Filesystem
//	1 default: Root = "public" relative to the working directory
//	2 rec(http.Dir(root)), Root ""
//	3 rec(http.Dir(W)), Root "public"
//	4 rec(http.FS(os.DirFS(root))), Root ""
//	5 rec(http.FS(os.DirFS(W))), Root "public"
//	6 rec(http.FS(MapFS of W)), Root "public"
//	7 rec(http.FS(fs.Sub(MapFS, "public"))), Root "."
//	8 default: Root = "./public/" relative, unclean
//	9 default: Root = "" (-> "."), working directory = the web root, secrets in its parent
//	10 default: Root = "./", working directory = the web root
//
// 1 and 8 run in a child process whose working directory is W, 9 and 10 in one whose working
// directory is W/public.
const c16NumMwFS = 11

func c16RunMw(c *c16Case) Result {
	var names []string
	cfg := middleware.StaticConfig{Index: c.Index, HTML5: c.HTML5, Browse: c.Browse, IgnoreBase: c.IgnoreBase}
	rec, atW, mroot, kind := true, false, ".", 0
	switch c.FS {
	case 0:
		cfg.Root, rec = c16Root, false
	case 1:
		cfg.Root, rec = c16RootName, false
	case 8:
		cfg.Root, rec = "./"+c16RootName+"/", false
	case 9:
		cfg.Root, rec = "", false
	case 10:
		cfg.Root, rec = "./", false
	case 2:
		cfg.Filesystem = c16RecHTTP{http.Dir(c16Root), &names}
	case 3:
		cfg.Filesystem, cfg.Root, atW, mroot = c16RecHTTP{http.Dir(c16Work), &names}, c16RootName, true, c16RootName
	case 4:
		cfg.Filesystem, kind = c16RecHTTP{http.FS(os.DirFS(c16Root)), &names}, 1
	case 5:
		cfg.Filesystem, cfg.Root, atW, mroot, kind = c16RecHTTP{http.FS(os.DirFS(c16Work)), &names}, c16RootName, true, c16RootName, 1
	case 6:
		cfg.Filesystem, cfg.Root, atW, mroot, kind = c16RecHTTP{http.FS(c16MapFS), &names}, c16RootName, true, c16RootName, 2
	default:
		cfg.Filesystem, cfg.Root, kind = c16RecHTTP{http.FS(c16Sub(c16MapFS, c16RootName)), &names}, ".", 1
	}
	index := c.Index
	if index == "" {
		index = "index.html"
	}
	var rt c16Routing
	e := echo.New()
	static := middleware.StaticWithConfig(cfg)
	switch c.Mount {
	case 0:
		e.Use(rt.rec, static, rt.tail)
		e.GET("/api/ok", c16OK)
	case 1:
		e.Pre(rt.rec, static, rt.tail)
		e.GET("/api/ok", c16OK)
	case 2:
		e.Group("/static", rt.rec, static, rt.tail)
	case 3:
		e.Use(rt.rec, static, rt.tail)
		e.GET("/*", c16OK)
	case 4:
		g := e.Group("/files")
		g.Use(rt.rec, static, rt.tail)
		g.GET("/ok", c16OK)
		g.GET("/a.txt", c16OK) // shadowed by the static file of the same name
	default:
		// a wildcard route without a slash before the star: c.Path() = "/st*"
		e.Use(rt.rec, static, rt.tail)
		e.GET("/st*", c16OK)
	}
	code, body, panicked, pmsg := c16Serve(e, c)
	out, listed := c16Outcome(0, code, body, panicked)
	tags := []string{fmt.Sprintf("mw-mount-%d", c.Mount), fmt.Sprintf("mw-fs-%d", c.FS), "out-" + strings.SplitN(out, " ", 2)[0]}
	if c.IgnoreBase {
		tags = append(tags, "ignore-base")
	}
	if c.HTML5 {
		tags = append(tags, "html5")
	}
	if c.Browse {
		tags = append(tags, "browse")
	}
	mp := c16MwMountPrefix[c.Mount]
	if mp != "" && !strings.HasSuffix(rt.cPath, "*") {
		// an explicit route of the group matched: the middleware then reads the whole URL path
		// (the documented "doubling" that IgnoreBase exists for); no positive expectation
		mp = "\x00"
	}
	oracle := c16Oracle(c, mp, code, body, listed, strings.HasPrefix(out, "list"))
	if panicked && oracle == "" {
		oracle = "" // a panic is an observation compared with the model, not a containment failure
		tags = append(tags, "panic")
		_ = pmsg
	}
	if !rt.seen {
		// the middleware chain was not entered (cannot happen for these mounts)
		return Result{Obs: out, Oracle: oracle, Tags: append(tags, "mw-not-entered")}
	}
	rootSegs := []string{c16RootName}
	if atW {
		rootSegs = nil
	}
	ops := wJoin("0", wBool(rec), c16TreeW, wStrs(rootSegs), wStr(mroot), wStr(index), wBool(c.HTML5), wBool(c.Browse), wBool(c.IgnoreBase),
		wInt(kind), wStr(rt.cPath), wStr(rt.star), wStr(rt.urlPath), wBool(rt.nextCalled && rt.nextOK))
	obs := out
	if rec {
		obs = wJoin(wStrs(names), out)
	}
	return Result{Ops: ops, Obs: obs, Oracle: oracle, Tags: tags, Nontrivial: c16Nontrivial(c, out)}
}

// Static(FS) route variants
//
//	0 e.Static(prefix, absolute root)            1 e.Static(prefix, "public") relative to the working directory
//	2 e.StaticFS(prefix, rec(os.DirFS(root)))    3 e.StaticFS(prefix, rec(fs.Sub(MapFS, "public")))
//	4 g=/g: g.Static(prefix, absolute root)      5 g=/g: g.StaticFS(prefix, rec(os.DirFS(root)))
//	6 e.Filesystem = os.DirFS(W); e.Static(prefix, "public")     7 e.StaticFS(prefix, echo.MustSubFS(os.DirFS(W), "public"))
//	8..11 e.Static(prefix, root) on the DEFAULT filesystem with root ".", "", "./", "dir/.." — a root that cleans
//	      to "." — and the working directory = the web root (secrets in its parent);  12 g=/g: g.Static(prefix, ".")
//
// 1 runs in a child process with working directory W, 8..12 in one with working directory W/public.
const c16NumDirVariants = 13

var c16DotRoots = map[int]string{8: ".", 9: "", 10: "./", 11: "dir/..", 12: "."}

func c16RunDir(c *c16Case) Result {
	var names []string
	var rt c16Routing
	e := echo.New()
	e.Use(rt.rec)
	rec := false
	mount := c.Prefix
	switch c.Variant {
	case 0:
		e.Static(c.Prefix, c16Root)
	case 1:
		e.Static(c.Prefix, c16RootName)
	case 2:
		e.StaticFS(c.Prefix, c16RecFS{os.DirFS(c16Root), &names})
		rec = true
	case 3:
		e.StaticFS(c.Prefix, c16RecFS{c16Sub(c16MapFS, c16RootName), &names})
		rec = true
	case 4:
		e.Group("/g").Static(c.Prefix, c16Root)
		mount = "/g" + c.Prefix
	case 5:
		e.Group("/g").StaticFS(c.Prefix, c16RecFS{os.DirFS(c16Root), &names})
		rec = true
		mount = "/g" + c.Prefix
	case 6:
		e.Filesystem = os.DirFS(c16Work)
		e.Static(c.Prefix, c16RootName)
	case 7:
		e.StaticFS(c.Prefix, echo.MustSubFS(os.DirFS(c16Work), c16RootName))
	case 12:
		e.Group("/g").Static(c.Prefix, c16DotRoots[c.Variant])
		mount = "/g" + c.Prefix
	default:
		e.Static(c.Prefix, c16DotRoots[c.Variant])
	}
	e.GET("/api/ok", c16OK)
	code, body, panicked, _ := c16Serve(e, c)
	out, listed := c16Outcome(1, code, body, panicked)
	tags := []string{fmt.Sprintf("dir-variant-%d", c.Variant), "out-" + strings.SplitN(out, " ", 2)[0]}
	oracle := c16Oracle(c, strings.TrimSuffix(mount, "/"), code, body, listed, strings.HasPrefix(out, "list"))
	wantPath := mount + "*"
	if !strings.HasPrefix(wantPath, "/") {
		wantPath = "/" + wantPath
	}
	if !rt.seen || rt.cPath != wantPath {
		// some other route (or none) matched: routing is not this property's business
		return Result{Obs: out, Oracle: oracle, Tags: append(tags, "dir-other-route")}
	}
	ops := wJoin("1", wBool(rec), c16TreeW, wStrs([]string{c16RootName}), wStr(rt.star), wStr(rt.urlPath))
	obs := out
	if rec {
		obs = wJoin(wStrs(names), out)
	}
	return Result{Ops: ops, Obs: obs, Oracle: oracle, Tags: tags, Nontrivial: c16Nontrivial(c, out)}
}

func c16RunFile(c *c16Case) Result {
	var names []string
	var rt c16Routing
	e := echo.New()
	e.Use(rt.rec)
	rec := true
	switch c.Variant {
	case 0:
		e.FileFS("/f", c.File, c16RecFS{os.DirFS(c16Root), &names})
	case 1:
		e.Group("/g").FileFS("/f", c.File, c16RecFS{c16Sub(c16MapFS, c16RootName), &names})
	default:
		// Echo.File with the default filesystem: the name is relative to the working directory W
		e.Filesystem = c16RecFS{os.DirFS(c16Work), &names}
		e.File("/f", c16RootName+"/"+c.File)
	}
	code, body, panicked, _ := c16Serve(e, c)
	out, listed := c16Outcome(2, code, body, panicked)
	tags := []string{fmt.Sprintf("file-variant-%d", c.Variant), "out-" + strings.SplitN(out, " ", 2)[0]}
	oracle := c16Oracle(c, "\x00", code, body, listed, false)
	if !rt.seen || !strings.HasSuffix(rt.cPath, "/f") {
		return Result{Obs: out, Oracle: oracle, Tags: append(tags, "file-other-route")}
	}
	var ops string
	if c.Variant >= 2 {
		ops = wJoin("2", wBool(rec), c16TreeW, wStrs(nil), wStr(c16RootName+"/"+c.File))
	} else {
		ops = wJoin("2", wBool(rec), c16TreeW, wStrs([]string{c16RootName}), wStr(c.File))
	}
	return Result{Ops: ops, Obs: wJoin(wStrs(names), out), Oracle: oracle, Tags: tags, Nontrivial: strings.HasPrefix(out, "file")}
}

func c16Nontrivial(c *c16Case, out string) bool {
	p := string(c.Path) + string(c.RawPath)
	adversarial := strings.Contains(p, "..") || strings.Contains(p, "%") || strings.Contains(p, "\\") || strings.Contains(p, "//")
	return adversarial || strings.HasPrefix(out, "file") || strings.HasPrefix(out, "list")
}

func c16Run(ci any) (res Result) {
	c := ci.(*c16Case)
	c16Setup()
	if c16InitErr != nil {
		return Result{Oracle: "cannot create the marker tree: " + c16InitErr.Error()}
	}
	defer func() {
		if p := recover(); p != nil {
			res = Result{Obs: "harness-panic", Oracle: fmt.Sprintf("panic outside ServeHTTP: %v", p)}
		}
	}()
	if cwd := c16CaseCwd(c); cwd != "" && os.Getenv(c16ChildEnv) == "" {
		return c16ChildRun(cwd, c)
	}
	switch c.Kind {
	case 0:
		return c16RunMw(c)
	case 1:
		return c16RunDir(c)
	default:
		return c16RunFile(c)
	}
}

// ---------- generators ----------

var c16Adversarial = []string{"..", ".", "%2e", "%2e%2e", "%2E%2E", ".%2e", "%2e.", "%2f", "%2F", "%5c", "\\", "", "%252e%252e", "%252f", "%25",
	"%", "%zz", "%2", "...", "....", "..%2f..", "..%5c..", "%2e%2e%2f", "..;", "%c0%ae%c0%ae", "%ff", "..%2f", "%2f..", "..\\",
	"%2e%2e%2f%2e%2e", "%25%32%65", "..%252f", "%5c..", "%2e%2e%5c", "/", "//"}
var c16Real = []string{"a.txt", "dir", "sub", "b.txt", "c.txt", "index.html", "static", "d.txt", "empty", "secret.txt", "secret", "public",
	"public.bak", "publicsecret", "x.txt", "s.txt", "sp ace.txt", "sp%20ace.txt", "100%.txt", "100%25.txt", "pct%2e.txt", "pct%252e.txt",
	"\xc3\xa9.txt", "%c3%a9.txt", ".hidden", "x.y.z", "t.txt", "p.txt", "nope", "api", "ok", "files"}

// real relative paths (under the root and next to it)
var c16RealPaths = []string{"a.txt", "index.html", "dir/b.txt", "dir/index.html", "dir/sub/c.txt", "dir", "dir/", "dir/sub", "dir/sub/", "empty", "empty/",
	"static", "static/", "static/d.txt", "static/index.html", ".../t.txt", ".../secret", "...", "sp ace.txt", "100%.txt", "pct%2e.txt", "\xc3\xa9.txt",
	".hidden", "x.y.z", "secret.txt", "dir/public/p.txt", "", "nope.txt", "dir/nope"}
var c16Outside = []string{"../secret", "../secret.txt", "../index.html", "../publicsecret", "../public.bak/x.txt", "../static/s.txt", "../public/a.txt",
	"..", "../", "../public.bak", "../static", "../..", "../../../../../../etc/hostname"}

func c16Pick(r *rand.Rand, l []string) string { return l[r.Intn(len(l))] }

// c16Encode percent-encodes some characters of a relative path in attacker fashion.
func c16Encode(r *rand.Rand, s string) string {
	mode := r.Intn(6)
	var b strings.Builder
	for i := 0; i < len(s); i++ {
		ch := s[i]
		enc := false
		switch mode {
		case 0: // nothing
		case 1: // dots
			enc = ch == '.'
		case 2: // slashes
			enc = ch == '/'
		case 3: // dots and slashes
			enc = ch == '.' || ch == '/'
		case 4: // random
			enc = r.Intn(4) == 0
		case 5: // what a client must encode
			enc = ch == ' ' || ch == '%' || ch >= 0x80
		}
		if enc {
			if mode == 4 && r.Intn(5) == 0 {
				fmt.Fprintf(&b, "%%25%02x", ch) // double encoding
			} else if r.Intn(2) == 0 {
				fmt.Fprintf(&b, "%%%02x", ch)
			} else {
				fmt.Fprintf(&b, "%%%02X", ch)
			}
		} else {
			b.WriteByte(ch)
		}
	}
	return b.String()
}

func c16GenTarget(r *rand.Rand, mount string, big bool) string {
	var rel string
	switch r.Intn(10) {
	case 0, 1: // a real path, possibly encoded
		rel = c16Encode(r, c16Pick(r, c16RealPaths))
	case 2, 3: // a path to something outside, encoded in some way
		rel = c16Encode(r, c16Pick(r, c16Outside))
	case 4: // outside path reached through a real directory
		rel = c16Encode(r, c16Pick(r, []string{"dir/", "dir/sub/", "empty/", ".../", "static/", "nope/"})+"../"+c16Pick(r, c16Outside))
	case 5: // real path with one adversarial segment spliced in
		segs := strings.Split(c16Pick(r, c16RealPaths), "/")
		k := r.Intn(len(segs) + 1)
		segs = append(segs[:k], append([]string{c16Pick(r, c16Adversarial)}, segs[k:]...)...)
		rel = strings.Join(segs, "/")
	case 6: // the IgnoreBase shapes: last element equal to the route base or "."
		rel = c16Pick(r, []string{"", "dir/", ".../", "static/", "dir/sub/", ".../secret/", "nope/", "a.txt/", ".../t.txt/"}) +
			c16Pick(r, []string{".", "static", "files", "%2e", "./", "static/", ".", "..", "public"})
	default:
		n := 1 + r.Intn(4)
		if big {
			n = 1 + r.Intn(9)
		}
		var segs []string
		for i := 0; i < n; i++ {
			if r.Intn(2) == 0 {
				segs = append(segs, c16Pick(r, c16Adversarial))
			} else {
				segs = append(segs, c16Pick(r, c16Real))
			}
		}
		rel = strings.Join(segs, "/")
	}
	switch r.Intn(12) {
	case 0:
		rel += "/"
	case 1:
		rel += "/."
	case 2:
		rel += "/.."
	case 3:
		rel = "/" + rel
	}
	switch r.Intn(14) {
	case 0:
		return mount + rel // no separator after the mount prefix (e.g. /assets../secret)
	case 1:
		return "/" + rel // not under the mount
	case 2:
		return mount
	}
	return mount + "/" + rel
}

// c16SetTarget derives URL.Path / URL.RawPath from a raw request target.
func c16SetTarget(r *rand.Rand, c *c16Case, t string) {
	switch r.Intn(5) {
	case 0: // already-decoded path handed over verbatim (literal % survives into URL.Path)
		c.Path, c.RawPath = lat1(t), ""
	case 1: // RawPath set verbatim, Path leniently decoded
		c.Path, c.RawPath = lat1(c16Lenient(t)), lat1(t)
	default: // what net/http produces for the request line
		if u, err := url.ParseRequestURI(t); err == nil && strings.HasPrefix(t, "/") {
			c.Path, c.RawPath = lat1(u.Path), lat1(u.RawPath)
		} else {
			c.Path, c.RawPath = lat1(t), ""
		}
	}
	if c.Path == "" {
		c.Path = "/"
	}
}

func c16Lenient(s string) string {
	if u, err := url.PathUnescape(s); err == nil {
		return u
	}
	return s
}

func c16GenCase(r *rand.Rand, big bool) *c16Case {
	c := &c16Case{}
	switch r.Intn(10) {
	case 0, 1, 2:
		c.Kind = 1
		c.Variant = r.Intn(c16NumDirVariants)
		c.Prefix = c16Pick(r, []string{"/assets", "/assets", "/", "", "/a/b", "/static", "/assets/"})
		mount := strings.TrimSuffix(c.Prefix, "/")
		if c.Variant == 4 || c.Variant == 5 || c.Variant == 12 {
			mount = "/g" + mount
		}
		c16SetTarget(r, c, c16GenTarget(r, mount, big))
	case 3:
		c.Kind = 2
		c.Variant = r.Intn(3)
		c.File = c16Pick(r, []string{"a.txt", "dir", "dir/b.txt", "nope", "../secret.txt", "../secret", "dir/", "dir/../../secret", "/etc/hostname",
			"empty", ".", "", "dir/sub/c.txt", "./a.txt", "static"})
		c.Path = "/f"
		if c.Variant == 1 {
			c.Path = "/g/f"
		}
		if r.Intn(8) == 0 {
			c.Path = lat1(c16Pick(r, []string{"/f", "/g/f", "/f/", "/f/../secret.txt", "/f/a.txt"}))
		}
	default:
		c.Kind = 0
		c.Mount = r.Intn(c16NumMounts)
		c.FS = r.Intn(c16NumMwFS)
		c.Index = c16Pick(r, []string{"", "", "index.html", "nope.html", "a.txt", "d.txt"})
		c.HTML5 = r.Intn(3) == 0
		c.Browse = r.Intn(3) == 0
		c.IgnoreBase = r.Intn(3) == 0
		if r.Intn(8) == 0 {
			// IgnoreBase focus: the rewrite of the joined name, on file systems where Root is a proper sub-directory
			c.IgnoreBase = true
			c.FS = []int{3, 3, 5, 6, 2, 0}[r.Intn(6)]
			c.Browse = r.Intn(2) == 0
			dirs := []string{"", "dir/", ".../", "static/", "dir/sub/", ".../secret/", "nope/", "a.txt/", ".../t.txt/", ".../static/", ".../public.bak/", "..../", ".../.../"}
			last := []string{".", ".", "static", "files", "%2e", "./", "static/", "..", "public", "static/.", "files/"}
			c16SetTarget(r, c, c16MwMountPrefix[c.Mount]+"/"+c16Pick(r, dirs)+c16Pick(r, last))
			return c
		}
		c16SetTarget(r, c, c16GenTarget(r, c16MwMountPrefix[c.Mount], big))
	}
	return c
}

func c16Gen(r *rand.Rand, tier string) []any {
	n := 9000
	if tier == "thorough" {
		n = 150000
	}
	var out []any
	// every regular file under the root by its clean path, through every mount
	for _, e := range c16Tree {
		_ = e
	}
	for _, p := range c16Layout {
		if !strings.HasPrefix(p, c16RootName+"/") || strings.HasSuffix(p, "/") {
			continue
		}
		rel := strings.TrimPrefix(p, c16RootName+"/")
		for m := 0; m < c16NumMounts; m++ {
			for _, f := range []int{0, 1, 2, 3, 5, 7, 9} {
				out = append(out, &c16Case{Kind: 0, Mount: m, FS: f, Path: lat1(c16MwMountPrefix[m] + "/" + rel)})
			}
		}
		for v := 0; v < c16NumDirVariants; v++ {
			mount := "/assets"
			if v == 4 || v == 5 || v == 12 {
				mount = "/g/assets"
			}
			out = append(out, &c16Case{Kind: 1, Variant: v, Prefix: "/assets", Path: lat1(mount + "/" + rel)})
		}
	}
	// a fixed battery first: every outside target, encoded in every fashion, against the
	// configurations whose file system is rooted above Root and against the plain ones
	reps := 1
	if tier == "thorough" {
		reps = 4
	}
	for k := 0; k < reps; k++ {
		for _, o := range c16Outside {
			for _, f := range []int{3, 5, 6, 0, 2, 9} {
				for _, m := range []int{0, 2, 5} {
					c := &c16Case{Kind: 0, Mount: m, FS: f, Browse: k%2 == 1}
					c16SetTarget(r, c, c16MwMountPrefix[m]+"/"+c16Encode(r, o))
					out = append(out, c)
				}
			}
			for v := 0; v < c16NumDirVariants; v++ {
				mount := "/assets"
				if v == 4 || v == 5 || v == 12 {
					mount = "/g/assets"
				}
				c := &c16Case{Kind: 1, Variant: v, Prefix: "/assets"}
				c16SetTarget(r, c, mount+"/"+c16Encode(r, o))
				out = append(out, c)
			}
		}
	}
	for i := 0; i < n; i++ {
		out = append(out, c16GenCase(r, tier == "thorough" && i%3 == 0))
	}
	return out
}

// ---------- shrinking ----------

func c16Shrink(ci any) []any {
	c := ci.(*c16Case)
	var out []any
	add := func(f func(d *c16Case)) {
		d := *c
		f(&d)
		out = append(out, &d)
	}
	if c.RawPath != "" {
		add(func(d *c16Case) { d.RawPath = "" })
	}
	if c.HTML5 {
		add(func(d *c16Case) { d.HTML5 = false })
	}
	if c.Browse {
		add(func(d *c16Case) { d.Browse = false })
	}
	if c.IgnoreBase {
		add(func(d *c16Case) { d.IgnoreBase = false })
	}
	if c.Index != "" {
		add(func(d *c16Case) { d.Index = "" })
	}
	// drop path segments, then single characters
	for _, which := range []int{0, 1} {
		s := string(c.Path)
		if which == 1 {
			s = string(c.RawPath)
		}
		if s == "" {
			continue
		}
		segs := strings.Split(s, "/")
		for i := 1; i < len(segs); i++ {
			t := strings.Join(append(append([]string(nil), segs[:i]...), segs[i+1:]...), "/")
			if t == "" {
				t = "/"
			}
			if which == 0 {
				add(func(d *c16Case) { d.Path = lat1(t) })
			} else {
				add(func(d *c16Case) { d.RawPath = lat1(t) })
			}
		}
		if len(s) <= 40 {
			for i := 1; i < len(s); i++ {
				t := s[:i] + s[i+1:]
				if which == 0 {
					add(func(d *c16Case) { d.Path = lat1(t) })
				} else {
					add(func(d *c16Case) { d.RawPath = lat1(t) })
				}
			}
		}
	}
	return out
}

func init() {
	register(&Prop{
		ID:             "C16",
		Rule:           "marker tree created at run time under <verif>/.work (root `public` with files, nested directories, a `...` directory, names with space, %, non-ASCII; secrets and look-alike siblings `public.bak`, `publicsecret`, `secret`, `index.html`, `static/` next to the root). Requests: raw targets over the adversarial segment alphabet (.., ., %2e, %2e%2e, %2f, %5c, \\, empty, double encodings, overlong/invalid UTF-8, malformed escapes) mixed with real names, real paths spliced with one adversarial segment, encoded paths to the outside secrets, IgnoreBase shapes (last element = route base or `.`); URL.Path/RawPath derived as net/http would, or set verbatim. Configurations: Static middleware x mount {e.Use, e.Pre, group /static, e.Use + catch-all route, group /files} x file system {default http.Dir with absolute / relative / unclean Root, recording http.Dir(root), http.Dir(parent)+Root, http.FS(os.DirFS), http.FS(os.DirFS(parent))+Root, http.FS(MapFS)+Root, http.FS(fs.Sub(MapFS))} x Index x HTML5 x Browse x IgnoreBase; Echo.Static / StaticFS / Group.Static / StaticFS x {absolute, relative root, os.DirFS, fs.Sub(MapFS), custom Echo.Filesystem, MustSubFS} x prefixes; FileFS / File routes. Every regular file under the root is also requested by its clean path through every mount. non-trivial = request with dot-dot / percent / backslash / double slash, or a response that is a file or a listing; distinct = distinct model op lines",
		New:            func() any { return &c16Case{} },
		Gen:            func(r *rand.Rand, tier string) []any { c16Setup(); return c16Gen(r, tier) },
		Run:            c16Run,
		Shrink:         c16Shrink,
		Known:          c16Known,
		Correspondence: "C16.mw / C16.staticDir / C16.fsFile (lean/EchoModel/C16.lean) vs middleware.StaticWithConfig, echo.StaticDirectoryHandler, fsFile through e.ServeHTTP",
		Extra: func(tier string, seed int64) map[string]any {
			c16Cleanup()
			return nil
		},
	})
}

// c16Known recognises known findings by signature.
//
// F18: the path handed to url.PathUnescape is already decoded (URL.Path, or a wildcard
// parameter taken from it when URL.RawPath is empty), so a file whose name contains '%' cannot
// be requested by its clean path: the second decoding fails (500) or names another file (404).
// Signature: the positive rule of the oracle failed, URL.RawPath is empty, URL.Path contains a
// literal '%', and the model predicts exactly the observed behaviour.
func c16Known(ci any, res Result, modelObs string) string {
	c := ci.(*c16Case)
	if strings.HasPrefix(res.Oracle, "existing file ") && c.RawPath == "" && strings.Contains(string(c.Path), "%") &&
		res.Ops != "" && res.Obs == modelObs {
		return "F18"
	}
	return ""
}
