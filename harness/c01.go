package main

// C01 — a dispatched route really matches the path; params reconstruct it.
// Real code: Echo.Add + e.ServeHTTP (Router.Find, context.ParamValues).  Model: Router.find (L3).

import (
	"fmt"
	"math/rand"
	"net/http"
	"net/http/httptest"
	"strings"

	"github.com/labstack/echo/v4"
)

type c01Case struct {
	Routes []rRoute `json:"routes"`
	Dirty  *rReq    `json:"dirty,omitempty"` // served first through the same Echo: the probe gets its recycled context
	Pre    bool     `json:"pre,omitempty"`   // a (no-op) Pre middleware is installed: routing happens inside the Pre chain
	Req    rReq     `json:"req"`
	Warm   int      `json:"warm,omitempty"` // >0: Routes[:Warm] registered, the request served once, then the rest registered
	// Fwd: the handler that serves Req forwards internally to this request (Router.Find on its own context, then
	// c.Handler()(c)); nil: a forward derived from the case (an instance of another route) for a third of the cases
	Fwd *rReq `json:"fwd,omitempty"`
	// Ctx: no ServeHTTP — the application uses the router directly on a context it made itself
	Ctx *c01Ctx `json:"ctx,omitempty"`
}

// c01Ctx: Echo.NewContext is called when Routes[:At] are registered (so the context may be older than the widest
// route), then the steps run on it (all routes registered by then), then Router.Find(Req.Method, Req.Path, ctx)
type c01Ctx struct {
	At    int       `json:"at"`
	Steps []c01Step `json:"steps,omitempty"`
}

type c01Step struct {
	Op   string   `json:"op"`             // "set" SetParamValues(Vals...), "names" SetParamNames(Vals...), "find" Router.Find(Req), "reset" Context.Reset
	Vals []string `json:"vals,omitempty"` //
	Req  *rReq    `json:"req,omitempty"`  //
}

// c01Direct runs a Ctx case: returns the observation, the wire form of the context operations, and whether the value
// slice is known to have at least as many slots as the widest route (the documented precondition of Router.Find)
func c01Direct(c *c01Case, cur *rObs) (ops string, sized bool) {
	e := echo.New()
	e.Logger.SetOutput(nopWriter{})
	at := c.Ctx.At
	if at < 0 || at > len(c.Routes) {
		at = len(c.Routes)
	}
	parts := []string{"N", wInt(at)}
	n := 1
	slots := rMaxParam(c.Routes[:at])
	rAddRoutes(e, e, c.Routes[:at], 0, cur)
	req := rNewRequest(c.Req)
	rec := httptest.NewRecorder()
	ctx := e.NewContext(req, rec)
	rAddRoutes(e, e, c.Routes, at, cur)
	*cur = cur.keep()
	// what Reset gives for the fields a lookup that matches nothing leaves alone ("handler will be whatever context
	// is reset to"); the VALUES are not touched
	blank := func() {
		ctx.SetHandler(echo.NotFoundHandler)
		ctx.SetPath("")
		ctx.SetParamNames()
	}
	defer func() {
		if r := recover(); r != nil {
			k := cur.keep()
			*cur = rObs{Kind: 'P', Panic: fmt.Sprint(r)}
			cur.shared = k.shared
		}
		ops = wInt(n) + " " + strings.Join(parts, " ")
		sized = slots >= rMaxParam(c.Routes)
	}()
	for _, st := range c.Ctx.Steps {
		switch st.Op {
		case "set":
			parts = append(parts, "V", wStrs(st.Vals))
			if len(st.Vals) > slots {
				slots = len(st.Vals)
			}
			ctx.SetParamValues(st.Vals...)
		case "names":
			parts = append(parts, "M", wInt(len(st.Vals)))
			if len(st.Vals) > slots {
				slots = len(st.Vals)
			}
			ctx.SetParamNames(st.Vals...)
		case "find":
			if st.Req == nil {
				continue
			}
			parts = append(parts, "F", wStr(st.Req.Method), wStr(st.Req.Path))
			n++
			blank()
			e.Router().Find(st.Req.Method, st.Req.Path, ctx)
			continue
		case "reset":
			parts = append(parts, "R")
			if m := rMaxParam(c.Routes); m > slots {
				slots = m
			}
			ctx.Reset(req, rec)
		default:
			continue
		}
		n++
	}
	blank()
	e.Router().Find(c.Req.Method, c.Req.Path, ctx)
	cur.Path = ctx.Path()
	err := ctx.Handler()(ctx) // a registered handler records what it sees into cur
	path := cur.Path
	if cur.Kind == 'D' || cur.Kind == 'P' {
		return
	}
	switch {
	case err == echo.ErrNotFound:
		cur.Kind, cur.Status = 'N', http.StatusNotFound
	case err == echo.ErrMethodNotAllowed:
		cur.Kind, cur.Status = 'M', http.StatusMethodNotAllowed
		cur.Allow = splitAllow(rec.Result().Header.Get(echo.HeaderAllow))
	case err == nil && rec.Code == http.StatusNoContent && rec.Result().Header.Get(echo.HeaderAllow) != "":
		cur.Kind, cur.Status = 'M', http.StatusNoContent
		cur.Allow = splitAllow(rec.Result().Header.Get(echo.HeaderAllow))
	default:
		cur.Kind = '?'
	}
	cur.Path = path
	return
}

// c01Oracle: the pattern and the values the handler saw must rebuild the request path.
func c01Oracle(routes []rRoute, q rReq, o rObs) string {
	switch o.Kind {
	case 'P':
		return "routing panicked: " + o.Panic
	case 'D':
	default:
		return ""
	}
	if o.Hid < 0 || o.Hid >= len(routes) {
		return "handler id out of range"
	}
	rt := routes[o.Hid]
	reg := rt.Path
	if reg == "" || reg[0] != '/' {
		reg = "/" + reg
	}
	if o.PPath != reg {
		return fmt.Sprintf("handler of %q ran but c.Path() = %q", reg, o.PPath)
	}
	if rt.Method != q.Method && rt.Method != routeNotFound {
		return fmt.Sprintf("handler registered for %s ran for a %s request", rt.Method, q.Method)
	}
	toks, names, after := rNorm(rt.Path)
	if after {
		return ""
	}
	if len(o.Names) != len(names) || len(o.Values) != len(names) {
		return fmt.Sprintf("pattern %q has %d parameter names, handler saw %d names / %d values", rt.Path, len(names), len(o.Names), len(o.Values))
	}
	for i := range names {
		if names[i] != o.Names[i] {
			return fmt.Sprintf("parameter name %d is %q, pattern says %q", i, o.Names[i], names[i])
		}
	}
	got, ok := rInst(toks, o.Values)
	if !ok || got != q.Path {
		return fmt.Sprintf("pattern %q with values %q gives %q, request path is %q", rt.Path, o.Values, got, q.Path)
	}
	// a parameter followed by more pattern text never holds '/'
	k := 0
	for i, t := range toks {
		if t.kind == 'p' {
			if i+1 < len(toks) && strings.Contains(o.Values[k], "/") {
				return fmt.Sprintf("parameter %q is followed by more pattern text but holds %q", names[k], o.Values[k])
			}
			k++
		} else if t.kind == 'a' {
			k++
		}
	}
	return ""
}

// c01SpecWire: the same observation in the format of the L1 outcome (no path for 404/405)
func c01SpecWire(o rObs) string {
	switch o.Kind {
	case 'D':
		return wJoin("D", wInt(o.Hid), wStr(o.PPath), wStrs(o.Names), wStrs(o.Values))
	case 'N':
		return "N"
	case 'M':
		return wJoin("M", wStrs(o.Allow))
	}
	return "P"
}

func c01Run(ci any) Result {
	c := ci.(*c01Case)
	var cur rObs
	wf := rWFTable(c.Routes)
	wfTag := map[bool]string{true: "well-formed-table", false: "table-outside-insert-theorem"}[wf]
	if c.Ctx != nil {
		return c01RunDirect(c, wf, wfTag)
	}
	e := rEchoWarm(c.Routes, c.Warm, []rReq{c.Req}, &cur)
	tags := []string{wfTag}
	if rHasReRegistration(c.Routes) {
		tags = append(tags, "re-registered-route")
	}
	if c.Warm > 0 && c.Warm < len(c.Routes) {
		tags = append(tags, "request-before-later-registrations")
	}
	if c.Pre {
		e.Pre(func(next echo.HandlerFunc) echo.HandlerFunc { return func(ctx echo.Context) error { return next(ctx) } })
		tags = append(tags, "with-pre")
	}
	if c.Req.Raw {
		tags = append(tags, "rawpath")
	}
	if c.Dirty != nil {
		rServe(e, &cur, *c.Dirty)
		tags = append(tags, "recycled-context")
	}
	// a third of the handlers forward internally: they route another path (an instance of another route of the
	// table) on their own context with Router.Find, as "internal redirect" helpers do
	var fwd *rReq
	if c.Fwd != nil {
		f := *c.Fwd
		fwd = &f
	} else if (len(c.Req.Path)+len(c.Routes))%3 == 0 {
		k := (len(c.Req.Path) + 1) % len(c.Routes)
		if c.Routes[k].Method != routeNotFound {
			toks, names, _ := rNorm(c.Routes[k].Path)
			vals := make([]string, len(names))
			for i := range vals {
				vals[i] = "f" + wInt(i)
			}
			if pp, ok := rInst(toks, vals); ok {
				fwd = &rReq{Method: c.Routes[k].Method, Path: pp}
			}
		}
	}
	rServeFwd(e, &cur, c.Req, fwd)
	fwdOracle := ""
	if fwd != nil && cur.Kind == 'D' && cur.FwdDone && !rColonClash(c.Routes) && !rHasTextAfterStar(c.Routes) {
		// the forward must leave the context exactly as a request for that path finds it
		main := cur
		rServe(e, &cur, *fwd) // (the handlers record into cur)
		plain := cur
		if plain.Kind == 'D' {
			if main.FwdPath != plain.PPath || strings.Join(main.FwdNames, "\x00") != strings.Join(plain.Names, "\x00") ||
				strings.Join(main.FwdValues, "\x00") != strings.Join(plain.Values, "\x00") {
				fwdOracle = fmt.Sprintf("after an internal forward to %s %q the context shows path %q names %q values %q; a request for that path is dispatched with path %q names %q values %q",
					fwd.Method, fwd.Path, main.FwdPath, main.FwdNames, main.FwdValues, plain.PPath, plain.Names, plain.Values)
			}
		}
		if fwd.Keep && plain.Kind == 'N' && plain.Path == "" {
			// nothing at all matches the forwarded path: Router.Find leaves the context as it was ("handler will be
			// whatever context is reset to") and this application did not reset anything: no claim
			fwdOracle = ""
			tags = append(tags, "forward-matches-nothing-on-a-kept-context")
		} else if in := main.FwdObs; in != nil && fwdOracle == "" {
			// the handler the forward found has run: it is held to the property itself (its pattern and the values
			// it saw rebuild the forwarded path) and to what a plain request for that path gives
			if s := c01Oracle(c.Routes, *fwd, *in); s != "" && c01KnownF3(c.Routes, *fwd, *in) == "" {
				fwdOracle = "internal forward to " + fwd.Method + " " + fmt.Sprintf("%q", fwd.Path) + ": " + s
			} else if in.Kind != plain.Kind || in.Kind == 'D' && in.wire() != plain.wire() || in.Kind == 'M' && strings.Join(in.Allow, ",") != strings.Join(plain.Allow, ",") {
				fwdOracle = fmt.Sprintf("an internal forward to %s %q ends in %s, a request for that path in %s", fwd.Method, fwd.Path, in.wire(), plain.wire())
			} else if in.Kind != 'D' && len(main.FwdNames) != 0 {
				fwdOracle = fmt.Sprintf("an internal forward to %s %q ends in the router's own %c answer, but the context still shows the parameter names %q (values %q) of the earlier match", fwd.Method, fwd.Path, in.Kind, main.FwdNames, main.FwdValues)
			}
			tags = append(tags, "forward-outcome-"+string(in.Kind))
		}
		cur = main
		tags = append(tags, "internal-forward")
	}
	res := Result{
		Ops: wJoin(rTableWire(c.Routes), wStr(c.Req.Method), wStr(c.Req.Path), wInt(rMaxParam(c.Routes)), "0"),
		// "TI1 RS1": the tree the model builds for this table must satisfy the invariant of the refinement
		// theorem and represent exactly the registered entries (checked by the driver for every table)
		Obs: cur.wire() + " // " + c01SpecWire(cur) + " // TI1 RS1 " + map[bool]string{true: "WF1", false: "WF0"}[wf] + " " + map[bool]string{true: "WE1", false: "WE0"}[!rColonClash(c.Routes) && !rHasTextAfterStar(c.Routes)],
	}
	if !rHasTextAfterStar(c.Routes) {
		res.Oracle = c01Oracle(c.Routes, c.Req, cur)
		if res.Oracle == "" {
			res.Oracle = fwdOracle
		}
	} else {
		tags = append(tags, "text-after-star")
	}
	tags = append(tags, "outcome-"+string(cur.Kind))
	if cur.Kind == 'D' {
		if len(cur.Values) > 0 {
			tags = append(tags, "with-params")
			res.Nontrivial = len(c.Routes) > 1
		}
		if c.Routes[cur.Hid].Method == routeNotFound {
			tags = append(tags, "routenotfound-route")
		}
	}
	if rColonClash(c.Routes) {
		tags = append(tags, "colon-clash-table")
	}
	res.Tags = tags
	return res
}

func c01Gen(r *rand.Rand, tier string) []any {
	tables, per := 900, 14
	if tier == "thorough" {
		tables, per = 12000, 24
	}
	var out []any
	for i := 0; i < tables; i++ {
		o := rGenOpts{escaped: r.Intn(4) == 0, maxRoute: 8, dups: r.Intn(4) == 0, entry: true}
		routes := rGenTable(r, o)
		if r.Intn(3) == 0 {
			r.Shuffle(len(routes), func(a, b int) { routes[a], routes[b] = routes[b], routes[a] })
		}
		for k := 0; k < per; k++ {
			c := &c01Case{Routes: routes, Req: rReq{Method: rGenMethod(r, routes), Path: rGenPath(r, routes)}}
			c.Pre = r.Intn(5) == 0
			if len(routes) > 1 && r.Intn(5) == 0 {
				c.Warm = 1 + r.Intn(len(routes)-1)
			}
			if r.Intn(5) == 0 {
				// percent-encoded request target: the router must see RawPath, not the decoded Path
				c.Req.Raw = true
				c.Req.Path = strings.Replace(c.Req.Path, "a", []string{"%2F", "%61", "%2f", "%3A"}[r.Intn(4)], 1+r.Intn(2))
			}
			if r.Intn(3) == 0 {
				// a longer predecessor request through the same Echo, so the probe runs on its recycled context
				d := rReq{Method: rGenMethod(r, routes), Path: rGenPath(r, routes) + "/zzzz/yyyy"}
				c.Dirty = &d
			}
			switch r.Intn(8) {
			case 0, 1:
				// the handler forwards internally to another generated request: any path (instances with empty
				// values, one-edit mutants, unmatched ones), any method
				c.Fwd = &rReq{Method: rGenMethod(r, routes), Path: rGenPath(r, routes), Keep: r.Intn(2) == 0}
			case 2:
				c.Req.Parsed = !c.Req.Raw
			case 3, 4:
				// the router used directly on a context the application made
				c.Pre, c.Warm, c.Dirty = false, 0, nil
				c.Req.Raw = false
				c.Ctx = c01GenCtx(r, routes)
			}
			out = append(out, c)
		}
	}
	return out
}

// c01GenCtx: when the context is made (mostly after all routes, sometimes earlier: it is then older than later and
// possibly wider routes) and what happened to it before the probed lookup: values set by the application (fewer,
// as many, more than any route needs), an earlier lookup that was not followed by Reset, a Reset, names set
func c01GenCtx(r *rand.Rand, routes []rRoute) *c01Ctx {
	x := &c01Ctx{At: len(routes)}
	if r.Intn(3) == 0 {
		x.At = r.Intn(len(routes) + 1)
	}
	vals := func(n int) []string {
		v := make([]string, n)
		for i := range v {
			v[i] = []string{"secret.txt", "old" + wInt(i), "a/b", "", "x"}[r.Intn(5)]
		}
		return v
	}
	for k := r.Intn(4); k > 0; k-- {
		switch r.Intn(8) {
		case 0, 1, 2:
			x.Steps = append(x.Steps, c01Step{Op: "set", Vals: vals(r.Intn(rMaxParam(routes) + 3))})
		case 3, 4, 5:
			x.Steps = append(x.Steps, c01Step{Op: "find", Req: &rReq{Method: rGenMethod(r, routes), Path: rGenPath(r, routes)}})
		case 6:
			x.Steps = append(x.Steps, c01Step{Op: "names", Vals: vals(r.Intn(rMaxParam(routes) + 3))})
		default:
			x.Steps = append(x.Steps, c01Step{Op: "reset"})
		}
	}
	return x
}

func c01Shrink(ci any) []any {
	c := ci.(*c01Case)
	var out []any
	if c.Dirty != nil {
		d := *c
		d.Dirty = nil
		out = append(out, &d)
	}
	if c.Pre {
		d := *c
		d.Pre = false
		out = append(out, &d)
	}
	if c.Warm > 0 {
		d := *c
		d.Warm = 0
		out = append(out, &d)
	}
	if c.Fwd != nil {
		for _, p := range rShrinkString(c.Fwd.Path) {
			d := *c
			f := *c.Fwd
			f.Path = p
			d.Fwd = &f
			out = append(out, &d)
		}
	}
	if c.Ctx != nil {
		for i := range c.Ctx.Steps {
			d := *c
			x := *c.Ctx
			x.Steps = append(append([]c01Step(nil), c.Ctx.Steps[:i]...), c.Ctx.Steps[i+1:]...)
			d.Ctx = &x
			out = append(out, &d)
		}
		for i, st := range c.Ctx.Steps {
			if len(st.Vals) > 0 {
				d := *c
				x := *c.Ctx
				x.Steps = append([]c01Step(nil), c.Ctx.Steps...)
				x.Steps[i].Vals = st.Vals[:len(st.Vals)-1]
				d.Ctx = &x
				out = append(out, &d)
			}
		}
	}
	for i, rs := range rShrinkRoutes(c.Routes) {
		d := *c
		d.Routes = rs
		if i < c.Warm {
			d.Warm--
		}
		if c.Ctx != nil {
			x := *c.Ctx
			if i < x.At {
				x.At--
			}
			d.Ctx = &x
		}
		out = append(out, &d)
	}
	for _, p := range rShrinkString(c.Req.Path) {
		d := *c
		d.Req.Path = p
		out = append(out, &d)
	}
	return out
}

// c01Mutate: neighbours of a failing case for the search of an input on which the property itself fails: the same
// set-up probed with an instance of every route of the table (non-empty values), and — for the direct use of the
// router — with the context made at every earlier moment and without the preparatory steps
func c01Mutate(r *rand.Rand, ci any) []any {
	c := ci.(*c01Case)
	var out []any
	for k, rt := range c.Routes {
		toks, names, _ := rNorm(rt.Path)
		vals := make([]string, len(names))
		for i := range vals {
			vals[i] = "v" + wInt(i)
		}
		pp, ok := rInst(toks, vals)
		if !ok {
			continue
		}
		m := rt.Method
		if m == routeNotFound {
			m = "GET"
		}
		d := *c
		d.Req = rReq{Method: m, Path: pp}
		out = append(out, &d)
		if c.Ctx != nil {
			for at := 0; at <= len(c.Routes); at++ {
				d2 := d
				d2.Ctx = &c01Ctx{At: at}
				out = append(out, &d2)
			}
			for i := range c.Ctx.Steps {
				d2 := d
				d2.Ctx = &c01Ctx{At: c.Ctx.At, Steps: c.Ctx.Steps[i : i+1]}
				out = append(out, &d2)
			}
		} else {
			d2 := d
			d2.Fwd = &rReq{Method: m, Path: pp}
			d2.Req = c.Req
			out = append(out, &d2)
		}
		_ = k
	}
	return out
}

// c01Known recognises the two recorded classes of C01 failures.
func c01Known(ci any, res Result, modelObs string) string {
	c := ci.(*c01Case)
	if rColonClash(c.Routes) {
		return "F2"
	}
	// F3: dispatched to a RouteNotFound route through the best-node fallback: some other route with a
	// real method has the same pattern (so the node is a handler node for other methods).
	if strings.HasPrefix(res.Obs, "D ") && res.Oracle != "" {
		var hid int
		fmt.Sscanf(res.Obs, "D %d", &hid)
		// F3 is about the VALUES the not-found handler sees (blanked by the backtracking).  The pattern and the parameter
		// names it sees must still be its own: anything else in that situation is not F3 and is reported.
		f := strings.Fields(res.Obs)
		if hid >= 0 && hid < len(c.Routes) && len(f) >= 4 {
			_, names, _ := rNorm(c.Routes[hid].Path)
			own := wJoin(wStr(normSlash(c.Routes[hid].Path)), wStrs(names))
			hi := 2 + 1 + 1 + len(names)
			if hi > len(f) {
				hi = len(f)
			}
			if got := strings.Join(f[2:hi], " "); got != own {
				return ""
			}
		}
		return c01KnownF3(c.Routes, c.Req, rObs{Kind: 'D', Hid: hid})
	}
	return ""
}

func normSlash(p string) string {
	if p == "" {
		return "/"
	}
	if p[0] != '/' {
		return "/" + p
	}
	return p
}

func c01KnownF3(routes []rRoute, q rReq, o rObs) string {
	hid := o.Hid
	if o.Kind == 'D' && hid >= 0 && hid < len(routes) && routes[hid].Method == routeNotFound {
		toks, names, _ := rNorm(routes[hid].Path)
		key := rTokKey(toks)
		for i, r := range routes {
			if i != hid && r.Method != routeNotFound && r.Method != q.Method {
				t2, _, _ := rNorm(r.Path)
				if rTokKey(t2) == key && len(names) > 0 {
					return "F3"
				}
			}
		}
	}
	return ""
}

// c01Tolerable: a context of the application's making with FEWER value slots than the widest route has parameters is outside the
// documented precondition of Router.Find.  The model mirrors the present code there (index out of range, `C01_short_ctx`); an
// implementation that answers instead of failing is judged by the oracle alone (the witness check of the property).  Tolerated:
// model = panic, implementation = an ordinary outcome, on a direct-use case, table invariants agreeing.  Nothing else.
func c01Tolerable(ci any, impl, model string) bool {
	c, ok := ci.(*c01Case)
	if !ok || c.Ctx == nil || rColonClash(c.Routes) {
		return false
	}
	is := strings.Split(impl, " // ")
	ms := strings.Split(model, " // ")
	if len(is) != 3 || len(ms) != 3 || is[2] != ms[2] {
		return false
	}
	mp := ms[0] == "P" || strings.HasPrefix(ms[0], "P ")
	ip := is[0] == "P" || strings.HasPrefix(is[0], "P ")
	return mp && !ip
}

// c01RunDirect: the router used directly on a context of the application's making
func c01RunDirect(c *c01Case, wf bool, wfTag string) Result {
	var cur rObs
	ops, sized := c01Direct(c, &cur)
	tags := []string{wfTag, "direct-router-use", "outcome-" + string(cur.Kind)}
	if !sized {
		tags = append(tags, "context-older-than-widest-route")
	}
	for _, st := range c.Ctx.Steps {
		tags = append(tags, "ctx-step-"+st.Op)
	}
	spec := c01SpecWire(cur)
	res := Result{
		Ops: wJoin(rTableWire(c.Routes), wStr(c.Req.Method), wStr(c.Req.Path), wInt(rMaxParam(c.Routes)), ops),
		Obs: cur.wire() + " // " + spec + " // TI1 RS1 " + map[bool]string{true: "WF1", false: "WF0"}[wf] + " " + map[bool]string{true: "WE1", false: "WE0"}[!rColonClash(c.Routes) && !rHasTextAfterStar(c.Routes)],
	}
	if !rHasTextAfterStar(c.Routes) {
		if cur.Kind == 'P' && !sized {
			// fewer value slots than the widest route has parameters: outside the documented precondition of
			// Router.Find; whether it indexes out of range is compared with the model only
		} else {
			res.Oracle = c01Oracle(c.Routes, c.Req, cur)
		}
	} else {
		tags = append(tags, "text-after-star")
	}
	if cur.Kind == 'D' && len(cur.Values) > 0 {
		tags = append(tags, "with-params")
		res.Nontrivial = len(c.Routes) > 1
	}
	if rColonClash(c.Routes) {
		tags = append(tags, "colon-clash-table")
	}
	res.Tags = tags
	return res
}

func init() {
	register(&Prop{
		ID:             "C01",
		Rule:           "random route tables (1-8 routes from a small pattern pool so prefixes are shared: literals, :params, in-segment params, escaped colons, trailing and glued wildcards, trailing slashes; methods GET/POST/PUT/DELETE/OPTIONS/PROPFIND/custom/RouteNotFound) x request paths derived from the patterns (instances with values incl. empty, slashes, colons, percent signs, UTF-8; one-edit mutants; random strings) x methods; a third of the probes run on the recycled context of a longer request; a quarter of the handlers forward internally (Router.Find on their own context + c.Handler()(c)) to a derived or generated request; a quarter of the cases use the router directly on a context made with Echo.NewContext (possibly before later, wider routes were registered) after SetParamValues / SetParamNames / earlier lookups / Reset; non-trivial = dispatched with at least one parameter value in a table of >= 2 routes; distinct = distinct model op lines",
		New:            func() any { return &c01Case{} },
		Gen:            c01Gen,
		Run:            c01Run,
		Shrink:         c01Shrink,
		Mutate:         c01Mutate,
		Known:          c01Known,
		Tolerable:      c01Tolerable,
		Correspondence: "Router.find ∘ Router.build (L3, lean/EchoModel/Router.lean) AND Router.Spec.routeTable (L1, the model of the theorems) vs Echo.Add + Echo.ServeHTTP (Router.insert/Find, context.ParamValues)",
	})
}
