package main

// C01 — a dispatched route really matches the path; params reconstruct it.
// Real code: Echo.Add + e.ServeHTTP (Router.Find, context.ParamValues).  Model: Router.find (L3).

import (
	"fmt"
	"math/rand"
	"strings"

	"github.com/labstack/echo/v4"
)

type c01Case struct {
	Routes []rRoute `json:"routes"`
	Dirty  *rReq    `json:"dirty,omitempty"` // served first through the same Echo: the probe gets its recycled context
	Pre    bool     `json:"pre,omitempty"`   // a (no-op) Pre middleware is installed: routing happens inside the Pre chain
	Req    rReq     `json:"req"`
	Warm   int      `json:"warm,omitempty"` // >0: Routes[:Warm] registered, the request served once, then the rest registered
}

// c01Oracle: the pattern and the values the handler saw must rebuild the request path.
func c01Oracle(routes []rRoute, q rReq, o rObs) string {
	switch o.Kind {
	case 'P':
		return "routing panicked: " + o.Panic
	case 'D':
	default:
		return ""
	}
	if o.Hid < 0 || o.Hid >= len(routes) {
		return "handler id out of range"
	}
	rt := routes[o.Hid]
	reg := rt.Path
	if reg == "" || reg[0] != '/' {
		reg = "/" + reg
	}
	if o.PPath != reg {
		return fmt.Sprintf("handler of %q ran but c.Path() = %q", reg, o.PPath)
	}
	if rt.Method != q.Method && rt.Method != routeNotFound {
		return fmt.Sprintf("handler registered for %s ran for a %s request", rt.Method, q.Method)
	}
	toks, names, after := rNorm(rt.Path)
	if after {
		return ""
	}
	if len(o.Names) != len(names) || len(o.Values) != len(names) {
		return fmt.Sprintf("pattern %q has %d parameter names, handler saw %d names / %d values", rt.Path, len(names), len(o.Names), len(o.Values))
	}
	for i := range names {
		if names[i] != o.Names[i] {
			return fmt.Sprintf("parameter name %d is %q, pattern says %q", i, o.Names[i], names[i])
		}
	}
	got, ok := rInst(toks, o.Values)
	if !ok || got != q.Path {
		return fmt.Sprintf("pattern %q with values %q gives %q, request path is %q", rt.Path, o.Values, got, q.Path)
	}
	// a parameter followed by more pattern text never holds '/'
	k := 0
	for i, t := range toks {
		if t.kind == 'p' {
			if i+1 < len(toks) && strings.Contains(o.Values[k], "/") {
				return fmt.Sprintf("parameter %q is followed by more pattern text but holds %q", names[k], o.Values[k])
			}
			k++
		} else if t.kind == 'a' {
			k++
		}
	}
	return ""
}

// c01SpecWire: the same observation in the format of the L1 outcome (no path for 404/405)
func c01SpecWire(o rObs) string {
	switch o.Kind {
	case 'D':
		return wJoin("D", wInt(o.Hid), wStr(o.PPath), wStrs(o.Names), wStrs(o.Values))
	case 'N':
		return "N"
	case 'M':
		return wJoin("M", wStrs(o.Allow))
	}
	return "P"
}

func c01Run(ci any) Result {
	c := ci.(*c01Case)
	var cur rObs
	wf := rWFTable(c.Routes)
	wfTag := map[bool]string{true: "well-formed-table", false: "table-outside-insert-theorem"}[wf]
	e := rEchoWarm(c.Routes, c.Warm, []rReq{c.Req}, &cur)
	tags := []string{wfTag}
	if rHasReRegistration(c.Routes) {
		tags = append(tags, "re-registered-route")
	}
	if c.Warm > 0 && c.Warm < len(c.Routes) {
		tags = append(tags, "request-before-later-registrations")
	}
	if c.Pre {
		e.Pre(func(next echo.HandlerFunc) echo.HandlerFunc { return func(ctx echo.Context) error { return next(ctx) } })
		tags = append(tags, "with-pre")
	}
	if c.Req.Raw {
		tags = append(tags, "rawpath")
	}
	if c.Dirty != nil {
		rServe(e, &cur, *c.Dirty)
		tags = append(tags, "recycled-context")
	}
	// a third of the handlers forward internally: they route another path (an instance of another route of the
	// table) on their own context with Router.Find, as "internal redirect" helpers do
	var fwd *rReq
	if (len(c.Req.Path)+len(c.Routes))%3 == 0 {
		k := (len(c.Req.Path) + 1) % len(c.Routes)
		if c.Routes[k].Method != routeNotFound {
			toks, names, _ := rNorm(c.Routes[k].Path)
			vals := make([]string, len(names))
			for i := range vals {
				vals[i] = "f" + wInt(i)
			}
			if pp, ok := rInst(toks, vals); ok {
				fwd = &rReq{Method: c.Routes[k].Method, Path: pp}
			}
		}
	}
	rServeFwd(e, &cur, c.Req, fwd)
	fwdOracle := ""
	if fwd != nil && cur.Kind == 'D' && cur.FwdDone && !rColonClash(c.Routes) && !rHasTextAfterStar(c.Routes) {
		// the forward must leave the context exactly as a request for that path finds it
		main := cur
		rServe(e, &cur, *fwd) // (the handlers record into cur)
		plain := cur
		if plain.Kind == 'D' {
			if main.FwdPath != plain.PPath || strings.Join(main.FwdNames, "\x00") != strings.Join(plain.Names, "\x00") ||
				strings.Join(main.FwdValues, "\x00") != strings.Join(plain.Values, "\x00") {
				fwdOracle = fmt.Sprintf("after an internal forward to %s %q the context shows path %q names %q values %q; a request for that path is dispatched with path %q names %q values %q",
					fwd.Method, fwd.Path, main.FwdPath, main.FwdNames, main.FwdValues, plain.PPath, plain.Names, plain.Values)
			}
		}
		cur = main
		tags = append(tags, "internal-forward")
	}
	res := Result{
		Ops: wJoin(rTableWire(c.Routes), wStr(c.Req.Method), wStr(c.Req.Path), wInt(rMaxParam(c.Routes))),
		// "TI1 RS1": the tree the model builds for this table must satisfy the invariant of the refinement
		// theorem and represent exactly the registered entries (checked by the driver for every table)
		Obs: cur.wire() + " // " + c01SpecWire(cur) + " // TI1 RS1 " + map[bool]string{true: "WF1", false: "WF0"}[wf],
	}
	if !rHasTextAfterStar(c.Routes) {
		res.Oracle = c01Oracle(c.Routes, c.Req, cur)
		if res.Oracle == "" {
			res.Oracle = fwdOracle
		}
	} else {
		tags = append(tags, "text-after-star")
	}
	tags = append(tags, "outcome-"+string(cur.Kind))
	if cur.Kind == 'D' {
		if len(cur.Values) > 0 {
			tags = append(tags, "with-params")
			res.Nontrivial = len(c.Routes) > 1
		}
		if c.Routes[cur.Hid].Method == routeNotFound {
			tags = append(tags, "routenotfound-route")
		}
	}
	if rColonClash(c.Routes) {
		tags = append(tags, "colon-clash-table")
	}
	res.Tags = tags
	return res
}

func c01Gen(r *rand.Rand, tier string) []any {
	tables, per := 900, 14
	if tier == "thorough" {
		tables, per = 12000, 24
	}
	var out []any
	for i := 0; i < tables; i++ {
		o := rGenOpts{escaped: r.Intn(4) == 0, maxRoute: 8, dups: r.Intn(4) == 0, entry: true}
		routes := rGenTable(r, o)
		if r.Intn(3) == 0 {
			r.Shuffle(len(routes), func(a, b int) { routes[a], routes[b] = routes[b], routes[a] })
		}
		for k := 0; k < per; k++ {
			c := &c01Case{Routes: routes, Req: rReq{Method: rGenMethod(r, routes), Path: rGenPath(r, routes)}}
			c.Pre = r.Intn(5) == 0
			if len(routes) > 1 && r.Intn(5) == 0 {
				c.Warm = 1 + r.Intn(len(routes)-1)
			}
			if r.Intn(5) == 0 {
				// percent-encoded request target: the router must see RawPath, not the decoded Path
				c.Req.Raw = true
				c.Req.Path = strings.Replace(c.Req.Path, "a", []string{"%2F", "%61", "%2f", "%3A"}[r.Intn(4)], 1+r.Intn(2))
			}
			if r.Intn(3) == 0 {
				// a longer predecessor request through the same Echo, so the probe runs on its recycled context
				d := rReq{Method: rGenMethod(r, routes), Path: rGenPath(r, routes) + "/zzzz/yyyy"}
				c.Dirty = &d
			}
			out = append(out, c)
		}
	}
	return out
}

func c01Shrink(ci any) []any {
	c := ci.(*c01Case)
	var out []any
	if c.Dirty != nil {
		d := *c
		d.Dirty = nil
		out = append(out, &d)
	}
	if c.Pre {
		d := *c
		d.Pre = false
		out = append(out, &d)
	}
	if c.Warm > 0 {
		d := *c
		d.Warm = 0
		out = append(out, &d)
	}
	for i, rs := range rShrinkRoutes(c.Routes) {
		d := *c
		d.Routes = rs
		if i < c.Warm {
			d.Warm--
		}
		out = append(out, &d)
	}
	for _, p := range rShrinkString(c.Req.Path) {
		d := *c
		d.Req.Path = p
		out = append(out, &d)
	}
	return out
}

// c01Known recognises the two recorded classes of C01 failures.
func c01Known(ci any, res Result, modelObs string) string {
	c := ci.(*c01Case)
	if rColonClash(c.Routes) {
		return "F2"
	}
	// F3: dispatched to a RouteNotFound route through the best-node fallback: some other route with a
	// real method has the same pattern (so the node is a handler node for other methods).
	if strings.HasPrefix(res.Obs, "D ") && res.Oracle != "" {
		var hid int
		fmt.Sscanf(res.Obs, "D %d", &hid)
		if hid >= 0 && hid < len(c.Routes) && c.Routes[hid].Method == routeNotFound {
			toks, names, _ := rNorm(c.Routes[hid].Path)
			key := rTokKey(toks)
			for i, r := range c.Routes {
				if i != hid && r.Method != routeNotFound && r.Method != c.Req.Method {
					t2, _, _ := rNorm(r.Path)
					if rTokKey(t2) == key && len(names) > 0 {
						return "F3"
					}
				}
			}
		}
	}
	return ""
}

func init() {
	register(&Prop{
		ID:             "C01",
		Rule:           "random route tables (1-8 routes from a small pattern pool so prefixes are shared: literals, :params, in-segment params, escaped colons, trailing and glued wildcards, trailing slashes; methods GET/POST/PUT/DELETE/OPTIONS/PROPFIND/custom/RouteNotFound) x request paths derived from the patterns (instances with values incl. empty, slashes, colons, percent signs, UTF-8; one-edit mutants; random strings) x methods; a third of the probes run on the recycled context of a longer request; non-trivial = dispatched with at least one parameter value in a table of >= 2 routes; distinct = distinct model op lines",
		New:            func() any { return &c01Case{} },
		Gen:            c01Gen,
		Run:            c01Run,
		Shrink:         c01Shrink,
		Known:          c01Known,
		Correspondence: "Router.find ∘ Router.build (L3, lean/EchoModel/Router.lean) AND Router.Spec.routeTable (L1, the model of the theorems) vs Echo.Add + Echo.ServeHTTP (Router.insert/Find, context.ParamValues)",
	})
}
