package main

// C07 — which differences between the implementation's and the model's observation lie outside
// the property (Prop.Tolerable).
//
// Observation, per request: `X` (the panic left ServeHTTP) or
// `committed ncalls call* ndocs doc* handOvers`, doc = `0` (the handler's own "pre" write) |
// `1 text dbg` (a {"message": ...} document; text = `0 atom` | `1 status`; dbg = `0` | `1 n atom*`
// = the "error" detail of debug mode) | `2 atom` (a message value serialised as it is) |
// `3` (null) | `9` (anything else).
//
// The property fixes: exactly one response (one status line — also none added to a committed
// response —, answered vs crashed), the code and the message of the HTTP error (or 500 + generic
// message), a JSON document as body (empty for HEAD), no internal error text with Debug off, the
// server goes on.  It leaves open what ELSE a debug-mode body contains.  Response headers other
// than the status, log wording and the concrete Go type of the error values handed to the
// application's LogErrorFunc / HTTPErrorHandler are not part of the observation at all (the
// oracle checks the error values' identity where echo passes the application's own value on).
//
//	never tolerated: crashed vs answered; Committed; number and values of the WriteHeader calls
//	  (a second response, a wrong code); number of body writes; a body that is not the expected
//	  kind of JSON document; the message text; ANY difference with Debug off (the only thing that
//	  could differ there is the detail, i.e. a leak); the number of hand-overs to
//	  Echo.HTTPErrorHandler; the number of requests.
//	tolerated: with Debug ON, the debug detail (`dbg`) of a {"message": ...} document whose
//	  message text agrees — present on one side and absent on the other, or naming other atoms.
func c07Tolerable(ci any, impl, model string) bool {
	c, ok := ci.(*c07Case)
	if !ok || !c.Debug {
		return false
	}
	a, ok1 := c07TolParse(impl)
	b, ok2 := c07TolParse(model)
	if !ok1 || !ok2 || len(a) != len(b) {
		return false
	}
	for i := range a {
		x, y := a[i], b[i]
		if x.crashed != y.crashed || x.head != y.head || x.handOvers != y.handOvers || len(x.docs) != len(y.docs) {
			return false
		}
		for k := range x.docs {
			dx, dy := x.docs[k], y.docs[k]
			if dx.kind != dy.kind || dx.text != dy.text {
				return false
			}
			if dx.dbg != dy.dbg && dx.kind != "1" {
				return false
			}
		}
	}
	return true
}

type c07TolDoc struct{ kind, text, dbg string }

type c07TolReq struct {
	crashed   bool
	head      string // committed + the WriteHeader calls
	docs      []c07TolDoc
	handOvers string
}

func c07TolParse(line string) ([]c07TolReq, bool) {
	if line == "" || line == "harness-panic" || line == "bad-op" || line == "model-error" {
		return nil, false
	}
	k := &c06TolToks{t: splitFields(line), ok: true}
	n := k.num()
	var out []c07TolReq
	for q := 0; q < n && k.ok; q++ {
		var r c07TolReq
		first := k.next()
		if first == "X" {
			r.crashed = true
			out = append(out, r)
			continue
		}
		r.head = first
		nc := k.num()
		r.head += " " + wInt(nc)
		for i := 0; i < nc && k.ok; i++ {
			r.head += " " + k.next()
		}
		nd := k.num()
		for i := 0; i < nd && k.ok; i++ {
			var d c07TolDoc
			d.kind = k.next()
			switch d.kind {
			case "0", "3", "9":
			case "2":
				d.text = k.next()
			case "1":
				d.text = k.next() + " " + k.next()
				has := k.next()
				d.dbg = has
				if has == "1" {
					m := k.num()
					d.dbg += " " + wInt(m)
					for j := 0; j < m && k.ok; j++ {
						d.dbg += " " + k.next()
					}
				} else if has != "0" {
					return nil, false
				}
			default:
				return nil, false
			}
			r.docs = append(r.docs, d)
		}
		r.handOvers = k.next()
		out = append(out, r)
	}
	if !k.ok || k.p != len(k.t) {
		return nil, false
	}
	return out, true
}
