package main

// C13 — which differences between the implementation's and the model's observation line are OUTSIDE the property.
//
// The property (properties.jsonl, C13) constrains, per request and per BasicAuth / KeyAuth instance:
//   (a) whether the handler ran                                   -> field `ran`
//   (b) what the validator was asked (credentials literally present in the request: base64 text split at the first
//       colon / value at a configured lookup location with the scheme prefix cut), how often and in which order
//                                                                 -> fields `ncalls (u p)*` / `ncalls key*`
//   (c) that no header content makes the middleware panic         -> the line `panic`
// It does NOT constrain: which error status refuses a request that does not reach the handler, whether and with which
// value WWW-Authenticate is sent, WHICH error (missing key / invalid key / the validator's own) an ErrorHandler is
// handed, and the behaviour under a KeyLookup that names no known source kind (the quantifier lists header / query /
// form / cookie / several sources) or a source with an EMPTY name - neither at request time (the model's `panic`,
// c13TolNoSourcePanic) nor at construction (an implementation that refuses to build such a middleware at all fails closed:
// c13TolCtorRefusal).
//
// c13Tolerable parses both lines (same token format on both sides) and answers true only if every field of (a)-(c)
// agrees and the remaining differences are of the kinds just listed.  Anything it cannot parse is not tolerated.

import (
	"strconv"
	"strings"
)

type c13TolLayer struct {
	eh    int
	calls []string // validator arguments as wire tokens (Basic / stack: u, p alternating; Key: the keys)
}

type c13TolObs struct {
	ran      bool
	status   int
	www      string // tokens that describe the WWW-Authenticate header (flag and / or value)
	layers   []c13TolLayer
	trailing []string // anything after the fields of the format (e.g. the Unwrap marker): must agree literally
}

type c13TolReader struct {
	t   []string
	bad bool
}

func (r *c13TolReader) next() string {
	if len(r.t) == 0 {
		r.bad = true
		return ""
	}
	x := r.t[0]
	r.t = r.t[1:]
	return x
}

func (r *c13TolReader) int() int {
	n, err := strconv.Atoi(r.next())
	if err != nil || n < 0 {
		r.bad = true
		return 0
	}
	return n
}

func (r *c13TolReader) bool() bool {
	switch r.next() {
	case "1":
		return true
	case "0":
		return false
	}
	r.bad = true
	return false
}

func (r *c13TolReader) str() string {
	x := r.next()
	if !strings.HasPrefix(x, "s") {
		r.bad = true
	}
	return x
}

func (r *c13TolReader) strs(n int) []string {
	var out []string
	for i := 0; i < n && !r.bad; i++ {
		out = append(out, r.str())
	}
	return out
}

// kind: 0 = `ran status www ncalls (u p)* wwwValue` (BasicAuth), 1 = `ran status ehClass ncalls key*` (KeyAuth),
// 3 = `ran status n (ehClass ncalls (u p)*)* wwwValue` (several instances)
func c13TolParse(kind int, line string) (o c13TolObs, ok bool) {
	if line == "" || strings.Contains(line, "  ") {
		return o, false
	}
	r := &c13TolReader{t: strings.Split(line, " ")}
	o.ran = r.bool()
	o.status = r.int()
	switch kind {
	case 0:
		flag := r.next()
		if flag != "0" && flag != "1" {
			return o, false
		}
		n := r.int()
		o.layers = []c13TolLayer{{calls: r.strs(2 * n)}}
		o.www = flag + " " + r.str()
	case 1:
		eh := r.int()
		n := r.int()
		o.layers = []c13TolLayer{{eh: eh, calls: r.strs(n)}}
	case 3:
		n := r.int()
		for i := 0; i < n && !r.bad; i++ {
			eh := r.int()
			k := r.int()
			o.layers = append(o.layers, c13TolLayer{eh: eh, calls: r.strs(2 * k)})
		}
		o.www = r.str()
	default:
		return o, false
	}
	o.trailing = r.t
	return o, !r.bad
}

func c13TolSameCalls(a, b []string) bool {
	if len(a) != len(b) {
		return false
	}
	for i := range a {
		if a[i] != b[i] {
			return false
		}
	}
	return true
}

// the class of the error an ErrorHandler was handed: that it was (not) called must agree; which of the error values
// (missing key / invalid key / validator's error) it got is wording
func c13TolSameEH(a, b int) bool { return a == b || (a != 0 && b != 0) }

func c13TolRefusal(status int) bool { return status >= 400 && status <= 599 }

// the status: equal, or both sides refuse the request (handler did not run) with SOME 4xx / 5xx
func c13TolSameStatus(impl, model c13TolObs) bool {
	if impl.status == model.status {
		return true
	}
	return !impl.ran && !model.ran && c13TolRefusal(impl.status) && c13TolRefusal(model.status)
}

func c13TolKind(c *c13Case) int {
	switch {
	case len(c.Stack) > 0 && (c.Mode == 0 || c.Mode == 1):
		return 3
	case c.Mode == 0:
		return 0
	case c.Mode == 1:
		return 1
	}
	return -1 // CreateExtractors (what the extractors return IS the "value found at a configured lookup location"), streams
}

// the KeyLookup in force of one KeyAuth instance (or the argument of CreateExtractors) has an element outside the
// property's quantifier: it splits into `<source>:<name>[:...]` but the source is none of the documented kinds (compared
// exactly, as the code does: `Header`, `headers`, ` header` are unknown) or the name is empty.  (An element that does
// not even split is a configuration error on both sides already.)
func c13TolLookupOutside(l *c13Case) bool {
	lookup := l.Lookup
	if l.Mode != 3 {
		if l.Mode != 1 || l.Ctor >= 2 {
			return false
		}
		if l.Ctor == 1 || lookup == "" {
			return false // the documented default `header:Authorization`
		}
	}
	if lookup == "" {
		return false
	}
	for _, part := range strings.Split(lookup, ",") {
		f := strings.Split(part, ":")
		if len(f) < 2 {
			continue
		}
		switch f[0] {
		case "header", "query", "form", "cookie", "param":
			if f[1] == "" {
				return true
			}
		default:
			return true
		}
	}
	return false
}

// c13TolCtorRefusal: the implementation refused at CONSTRUCTION (KeyAuthWithConfig panicked / CreateExtractors returned
// an error) although every lookup splits into its parts, and the model built the middleware.  Tolerated iff some instance
// of the case has a lookup outside the quantifier: no middleware exists, so no handler runs behind it and no validator is
// asked - nothing the property speaks about can go wrong.  The exact observation texts are the ones c13RunKey /
// c13RunStack / c13RunExtractors render for "constructor refused, lookups well-formed".
func c13TolCtorRefusal(c *c13Case, implObs string) bool {
	switch {
	case c.Mode == 3:
		return implObs == "config-error=true but lookup well-formed=true" && c13TolLookupOutside(c)
	case len(c.Stack) > 0 && (c.Mode == 0 || c.Mode == 1):
		if implObs != "config-panic=true but lookups well-formed=true" {
			return false
		}
		for _, l := range c13Layers(c) {
			if c13TolLookupOutside(l) {
				return true
			}
		}
		return false
	case c.Mode == 1:
		return implObs == "config-panic=true but lookup well-formed=true" && c13TolLookupOutside(c13Norm(c))
	}
	return false
}

func c13Tolerable(ci any, implObs, modelObs string) bool {
	c, isCase := ci.(*c13Case)
	if !isCase || c == nil {
		return false
	}
	if c13TolCtorRefusal(c, implObs) {
		return true
	}
	kind := c13TolKind(c)
	if kind < 0 {
		return false
	}
	impl, ok := c13TolParse(kind, implObs)
	if !ok {
		// `panic` (forbidden by the property), constructor outcomes, anything unknown
		return false
	}
	if modelObs == "panic" {
		return c13TolNoSourcePanic(c, kind, impl)
	}
	model, ok := c13TolParse(kind, modelObs)
	if !ok {
		return false
	}
	// (a) handler ran
	if impl.ran != model.ran {
		return false
	}
	// (b) the validator's call log, instance by instance; ErrorHandler called or not
	if len(impl.layers) != len(model.layers) {
		return false
	}
	for i := range impl.layers {
		if !c13TolSameCalls(impl.layers[i].calls, model.layers[i].calls) || !c13TolSameEH(impl.layers[i].eh, model.layers[i].eh) {
			return false
		}
	}
	// markers behind the fields (ErrKeyAuthMissing.Unwrap broken, ...) are not differences of a field: literal
	if !c13TolSameCalls(impl.trailing, model.trailing) {
		return false
	}
	// not constrained: which status refuses; the WWW-Authenticate header (impl.www vs model.www: any difference)
	return c13TolSameStatus(impl, model)
}

// c13TolNoSourcePanic: the model says `panic`, the implementation answered.  The model panics in exactly one situation:
// a KeyAuth instance without ErrorHandler whose KeyLookup names NO known source kind ("headers:X", "Header:Authorization")
// is reached (nil Err inside ErrKeyAuthMissing).  Such lookups are outside the property's quantifier.  An implementation
// that refuses the request there instead is not worse: tolerated iff the handler did not run, that instance and every
// one behind it asked no validator and called no ErrorHandler, the answer is a refusal (or the status was on the wire
// already), and the instances in front of it did exactly what the model says they do (all passed the request on).
func c13TolNoSourcePanic(c *c13Case, kind int, impl c13TolObs) bool {
	if impl.ran || len(impl.trailing) != 0 {
		return false
	}
	var layers []*c13Case
	if kind == 3 {
		layers = c13Layers(c)
	} else {
		layers = []*c13Case{c13Norm(c)}
	}
	if len(layers) != len(impl.layers) || kind == 0 {
		return false
	}
	at := -1
	for i, l := range layers {
		if l.Mode != 1 || l.Ctor >= 2 || l.EH != 0 || l.skipped() {
			continue
		}
		if srcs, ok := c13Sources(l); ok && len(srcs) == 0 {
			at = i
			break
		}
	}
	if at < 0 {
		return false
	}
	if !c13TolRefusal(impl.status) && layers[0].Commit == 0 {
		return false
	}
	for i := at; i < len(layers); i++ {
		if len(impl.layers[i].calls) != 0 || impl.layers[i].eh != 0 {
			return false
		}
	}
	if at == 0 {
		return true
	}
	// the instances in front, on their own, through the model
	front := layers[:at]
	ops, cfgOK := c13StackOps(front, c13Request(layers[0]), make([][]c13Src, at), make([][][]c13Pair, at))
	if !cfgOK {
		return false
	}
	model, ok := c13TolParse(3, modelOne("C13", ops))
	if !ok || !model.ran || len(model.layers) != at {
		return false
	}
	for i := 0; i < at; i++ {
		if !c13TolSameCalls(impl.layers[i].calls, model.layers[i].calls) || !c13TolSameEH(impl.layers[i].eh, model.layers[i].eh) {
			return false
		}
	}
	return true
}
